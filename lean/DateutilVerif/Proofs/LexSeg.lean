/-
  Proofs/LexSeg.lean — the lexer segment by segment: a digit run, a word, a single separator, a
  whitespace character, a number with a fraction — each becomes one token provided what follows
  cannot extend it ("…Ends").  All lemmas are in continuation form
      scan cls init (segment ++ rest) = token :: scan cls init rest
  so that a whole rendering is lexed by rewriting left to right.  Any classification.
-/
import DateutilVerif.Proofs.ParserIso

namespace PM

/-- digits (as the classification sees them), none of them NUL, `.` or `,` -/
def DRun (cls : Char → CClass) (t : List Char) : Prop :=
  ∀ c ∈ t, (cls c).isNum = true ∧ c ≠ '\x00' ∧ c ≠ '.' ∧ c ≠ ','

/-- letters (as the classification sees them), none of them NUL -/
def ARun (cls : Char → CClass) (t : List Char) : Prop :=
  ∀ c ∈ t, (cls c).isWord = true ∧ c ≠ '\x00'

/-- what follows cannot extend a number token -/
def NumEnds (cls : Char → CClass) : List Char → Prop
  | [] => True
  | c :: _ => c ≠ '\x00' ∧ (cls c).isNum = false ∧ c ≠ '.' ∧ c ≠ ','

/-- what follows cannot extend a word token -/
def WordEnds (cls : Char → CClass) : List Char → Prop
  | [] => True
  | c :: _ => c ≠ '\x00' ∧ (cls c).isWord = false ∧ c ≠ '.'

/-- what follows cannot extend a number-with-fraction token (whose last character is a digit) -/
def FracEnds (cls : Char → CClass) : List Char → Prop
  | [] => True
  | c :: _ => c ≠ '\x00' ∧ (cls c).isNum = false ∧ c ≠ '.'

theorem DRun.digRun {cls : Char → CClass} {t : List Char} (h : DRun cls t) : DigRun cls t :=
  fun c hc => ⟨(h c hc).1, (h c hc).2.1⟩

theorem scan_init_cons (cls : Char → CClass) (c : Char) (r : List Char) (h0 : c ≠ '\x00') :
    scan cls .init (c :: r) = (start cls c).1 ++ scan cls (start cls c).2 r := by
  have : step cls .init c = start cls c := by
    unfold step; simp [h0, LexSt.init]
  simp only [scan, this]

theorem scan_init_nil (cls : Char → CClass) : scan cls .init [] = [] := rfl

/-- a digit run followed by something that ends a number -/
theorem lex_num (cls : Char → CClass) (d : Char) (ds rest : List Char) (h : DRun cls (d :: ds)) (he : NumEnds cls rest) :
    scan cls .init ((d :: ds) ++ rest) = (d :: ds) :: scan cls .init rest := by
  rw [scan_run_init cls d ds h.digRun rest]
  cases rest with
  | nil => rw [scan_end_n]; simp <;> rfl
  | cons c r =>
    obtain ⟨h0, hn, h1, h2⟩ := he
    rw [scan_init_cons cls c r h0]
    simp only [scan]
    have : step cls { state := .n, tok := (d :: ds).reverse, seen := false } c =
        ((d :: ds) :: (start cls c).1, (start cls c).2) := by
      unfold step pushBack
      simp [h0, hn, h1, h2, emit_n]
    rw [this]
    rfl

theorem step_word_a (cls : Char → CClass) (acc : List Char) (sn : Bool) (c : Char) (hc : (cls c).isWord = true) (h0 : c ≠ '\x00') :
    step cls { state := .a, tok := acc, seen := sn } c = ([], { state := .a, tok := c :: acc, seen := true }) := by
  unfold step
  simp [h0, hc]

theorem scan_run_a (cls : Char → CClass) (ws : List Char) (hws : ARun cls ws) :
    ∀ (acc rest : List Char) (sn : Bool), ws ≠ [] →
      scan cls { state := .a, tok := acc, seen := sn } (ws ++ rest) =
      scan cls { state := .a, tok := ws.reverse ++ acc, seen := true } rest := by
  induction ws with
  | nil => intro acc rest sn h; exact absurd rfl h
  | cons w ws ih =>
    intro acc rest sn _
    have hw := hws w List.mem_cons_self
    have hws' : ARun cls ws := fun c hc => hws c (List.mem_cons_of_mem _ hc)
    simp only [List.cons_append, scan, step_word_a cls acc sn w hw.1 hw.2, List.nil_append]
    cases ws with
    | nil => simp
    | cons w2 ws2 =>
      rw [ih hws' (w :: acc) rest true (by simp)]
      simp

theorem emit_a (acc : List Char) (sn : Bool) : emit { state := .a, tok := acc, seen := sn } = [acc.reverse] := by
  unfold emit
  simp

/-- a word followed by something that ends a word -/
theorem lex_word (cls : Char → CClass) (a : Char) (as rest : List Char) (h : ARun cls (a :: as)) (he : WordEnds cls rest) :
    scan cls .init ((a :: as) ++ rest) = (a :: as) :: scan cls .init rest := by
  have ha := h a List.mem_cons_self
  have has : ARun cls as := fun c hc => h c (List.mem_cons_of_mem _ hc)
  rw [List.cons_append, scan_init_cons cls a _ ha.2]
  have hst : start cls a = ([], { state := .a, tok := [a], seen := false }) := by
    unfold start; simp [ha.1]
  rw [hst]
  simp only [List.nil_append]
  -- the rest of the word
  have hrun : ∃ sn, scan cls { state := .a, tok := [a], seen := false } (as ++ rest) =
      scan cls { state := .a, tok := (a :: as).reverse, seen := sn } rest := by
    cases as with
    | nil => exact ⟨false, by simp⟩
    | cons b bs => exact ⟨true, by rw [scan_run_a cls (b :: bs) has [a] rest false (by simp)]; simp⟩
  obtain ⟨sn, hrun⟩ := hrun
  rw [hrun]
  cases rest with
  | nil => simp [scan, flush, emit_a] <;> rfl
  | cons c r =>
    obtain ⟨h0, hn, h1⟩ := he
    rw [scan_init_cons cls c r h0]
    simp only [scan]
    have : step cls { state := .a, tok := (a :: as).reverse, seen := sn } c =
        ((a :: as) :: (start cls c).1, (start cls c).2) := by
      unfold step pushBack
      simp [h0, hn, h1, emit_a]
    rw [this]
    rfl

/-- a single character that is neither letter, digit nor space -/
theorem lex_other (cls : Char → CClass) (c : Char) (rest : List Char) (hk : cls c = .other) (h0 : c ≠ '\x00') :
    scan cls .init (c :: rest) = [c] :: scan cls .init rest := by
  rw [scan_init_cons cls c rest h0]
  unfold start
  simp [hk, CClass.isWord, CClass.isNum, CClass.isSpace]

/-- a single whitespace character becomes `' '` -/
theorem lex_space (cls : Char → CClass) (c : Char) (rest : List Char) (hk : cls c = .space) (h0 : c ≠ '\x00') :
    scan cls .init (c :: rest) = [' '] :: scan cls .init rest := by
  rw [scan_init_cons cls c rest h0]
  unfold start
  simp [hk, CClass.isWord, CClass.isNum, CClass.isSpace]

/-! ### numbers with a fraction -/

theorem step_digit_nDot (cls : Char → CClass) (acc : List Char) (c : Char) (hc : (cls c).isNum = true) (h0 : c ≠ '\x00') :
    step cls { state := .nDot, tok := acc, seen := false } c = ([], { state := .nDot, tok := c :: acc, seen := false }) := by
  unfold step
  simp [h0, hc]

theorem scan_run_nDot (cls : Char → CClass) (ds : List Char) (hds : DRun cls ds) :
    ∀ (acc rest : List Char),
      scan cls { state := .nDot, tok := acc, seen := false } (ds ++ rest) =
      scan cls { state := .nDot, tok := ds.reverse ++ acc, seen := false } rest := by
  induction ds with
  | nil => intro acc rest; rfl
  | cons d ds ih =>
    intro acc rest
    have hd := hds d List.mem_cons_self
    have hds' : DRun cls ds := fun c hc => hds c (List.mem_cons_of_mem _ hc)
    simp only [List.cons_append, scan, step_digit_nDot cls acc d hd.1 hd.2.1, List.nil_append]
    rw [ih hds' (d :: acc) rest]
    simp

theorem countDot_drun (cls : Char → CClass) (t : List Char) (h : DRun cls t) : countDot t = 0 := by
  unfold countDot
  rw [List.count_eq_zero]
  intro hm
  exact (h _ hm).2.2.1 rfl

theorem map_comma_drun (cls : Char → CClass) (t : List Char) (h : DRun cls t) :
    t.map (fun c => if c = ',' then '.' else c) = t := by
  induction t with
  | nil => rfl
  | cons a r ih =>
    have ha := h a List.mem_cons_self
    simp only [List.map_cons, ha.2.2.2, if_false]
    rw [ih (fun c hc => h c (List.mem_cons_of_mem _ hc))]

@[simp] theorem lstate_nDot_aDot : (LState.nDot == LState.aDot) = false := by decide
@[simp] theorem lstate_nDot_nDot : (LState.nDot == LState.nDot) = true := by decide

/-- `emit` in state `'0.'` without letters, the last character not a separator -/
theorem emit_nDot (tk X : List Char) (hX : tk.reverse = X) (hsep : lastIsSep tk = false) :
    emit { state := .nDot, tok := tk, seen := false } =
      (if countDot X > 1 then resplit X else if countDot X = 0 then [X.map (fun c => if c = ',' then '.' else c)] else [X]) := by
  unfold emit
  simp only [hX, hsep, lstate_nDot_aDot, lstate_nDot_nDot, Bool.false_or, Bool.or_false, Bool.true_and, Bool.false_eq_true,
             decide_eq_true_eq, beq_iff_eq]

/-- `digits . digits` (one dot, last character a digit) is emitted as it stands; `digits , digits` with the
    comma rewritten to a dot -/
theorem emit_frac (cls : Char → CClass) (ip fp : List Char) (sepc : Char) (hs : sepc = '.' ∨ sepc = ',')
    (hip : DRun cls ip) (f : Char) (hfp : DRun cls (f :: fp)) :
    emit { state := .nDot, tok := ((ip ++ sepc :: (f :: fp))).reverse, seen := false } = [ip ++ '.' :: (f :: fp)] := by
  have hlast : ∃ l init, (ip ++ sepc :: (f :: fp)).reverse = l :: init ∧ l ≠ '.' ∧ l ≠ ',' := by
    have : (f :: fp) ≠ [] := by simp
    obtain ⟨l, hl⟩ : ∃ l, (f :: fp).getLast? = some l := by
      cases h : (f :: fp).getLast? with
      | none => simp at h
      | some l => exact ⟨l, rfl⟩
    have hmem : l ∈ (f :: fp) := List.mem_of_getLast? hl
    have hrev : (f :: fp).reverse.head? = some l := by rw [List.head?_reverse]; exact hl
    cases hr : (f :: fp).reverse with
    | nil => simp at hr
    | cons x xs =>
      rw [hr] at hrev
      simp at hrev
      refine ⟨x, xs ++ sepc :: ip.reverse, ?_, ?_, ?_⟩
      · simp [List.reverse_append, hr]
      · rw [hrev]; exact (hfp l hmem).2.2.1
      · rw [hrev]; exact (hfp l hmem).2.2.2
  obtain ⟨l, init, hrev, hl1, hl2⟩ := hlast
  have cip := countDot_drun cls ip hip
  have cfp := countDot_drun cls (f :: fp) hfp
  have hsep : lastIsSep ((ip ++ sepc :: (f :: fp)).reverse) = false := by
    rw [hrev]; simp [lastIsSep, hl1, hl2]
  rw [emit_nDot _ _ (List.reverse_reverse _) hsep]
  rcases hs with rfl | rfl
  · have hc : countDot (ip ++ '.' :: (f :: fp)) = 1 := by
      unfold countDot at *
      simp [List.count_append, List.count_cons, cip] at cfp ⊢
      omega
    simp [hc]
  · have hc : countDot (ip ++ ',' :: (f :: fp)) = 0 := by
      unfold countDot at *
      simp [List.count_append, List.count_cons, cip] at cfp ⊢
      omega
    simp only [hc]
    simp [map_comma_drun cls ip hip, map_comma_drun cls fp (fun c hc => hfp c (List.mem_cons_of_mem _ hc)),
          (hfp f List.mem_cons_self).2.2.2]

/-- a number with a fraction followed by something that ends it -/
theorem lex_frac (cls : Char → CClass) (d : Char) (ds : List Char) (sepc f : Char) (fs rest : List Char)
    (hs : sepc = '.' ∨ (sepc = ',' ∧ (d :: ds).length ≥ 2)) (hsd : (cls sepc).isNum = false)
    (h : DRun cls (d :: ds)) (hf : DRun cls (f :: fs)) (he : FracEnds cls rest) :
    scan cls .init ((d :: ds) ++ sepc :: ((f :: fs) ++ rest)) = ((d :: ds) ++ '.' :: (f :: fs)) :: scan cls .init rest := by
  rw [scan_run_init cls d ds h.digRun]
  have hs0 : sepc ≠ '\x00' := by rcases hs with rfl | ⟨rfl, _⟩ <;> decide
  have hs' : sepc = '.' ∨ sepc = ',' := by rcases hs with h | ⟨h, _⟩; exact Or.inl h; exact Or.inr h
  have s1 : step cls { state := .n, tok := (d :: ds).reverse, seen := false } sepc =
      ([], { state := .nDot, tok := sepc :: (d :: ds).reverse, seen := false }) := by
    unfold step
    rcases hs with rfl | ⟨rfl, hl⟩
    · simp [hsd]
    · have hne : ds ≠ [] := by intro h; subst h; simp at hl
      simp [hsd, hne]
  simp only [scan, s1, List.nil_append]
  rw [scan_run_nDot cls (f :: fs) hf]
  have htok : (f :: fs).reverse ++ sepc :: (d :: ds).reverse = ((d :: ds) ++ sepc :: (f :: fs)).reverse := by simp
  rw [htok]
  have hemit := emit_frac cls (d :: ds) fs sepc hs' h f hf
  cases rest with
  | nil =>
    simp only [scan, flush]
    rw [hemit]
    rfl
  | cons c r =>
    obtain ⟨h0, hn, h1⟩ := he
    rw [scan_init_cons cls c r h0]
    simp only [scan]
    -- the last character of the pending token is a digit, so a letter cannot extend it
    have hhead : ∀ x, (((d :: ds) ++ sepc :: (f :: fs)).reverse).head? = some x → x ≠ '.' := by
      intro x hx
      rw [List.head?_reverse] at hx
      have hx' : (f :: fs).getLast? = some x := by
        have e : (d :: ds) ++ sepc :: (f :: fs) = ((d :: ds) ++ [sepc]) ++ (f :: fs) := by simp
        rw [e, List.getLast?_append] at hx
        cases hg : (f :: fs).getLast? with
        | none => simp at hg
        | some y => rw [hg] at hx; simpa using hx
      exact (hf x (List.mem_of_getLast? hx')).2.2.1
    have : step cls { state := .nDot, tok := ((d :: ds) ++ sepc :: (f :: fs)).reverse, seen := false } c =
        (((d :: ds) ++ '.' :: (f :: fs)) :: (start cls c).1, (start cls c).2) := by
      unfold step pushBack
      have hne : ((d :: ds) ++ sepc :: (f :: fs)).reverse.head? ≠ some '.' := fun hx => hhead _ hx rfl
      simp only [h0, if_false, h1, hn, false_or, Bool.false_eq_true, hne, and_false]
      rw [hemit]
      rfl
    rw [this]
    rfl

/-! ### a number directly followed by a comma (`Month D, YYYY`) -/

theorem splitDecimal_run_comma (cls : Char → CClass) (ds : List Char) (h : DRun cls ds) :
    splitDecimal (ds ++ [',']) = [ds, [','], []] := by
  induction ds with
  | nil => simp [splitDecimal]
  | cons a r ih =>
    have ha := h a List.mem_cons_self
    have hr : DRun cls r := fun c hc => h c (List.mem_cons_of_mem _ hc)
    have hne : ¬ (a = '.' ∨ a = ',') := by
      intro hh; rcases hh with hh | hh
      · exact ha.2.2.1 hh
      · exact ha.2.2.2 hh
    simp only [List.cons_append, splitDecimal, hne, if_false, ih hr]

/-- two or more digits, a comma, then something that is neither digit nor dot: the comma is first taken
    into the number (state `'0.'`) and split off again when the token is emitted -/
theorem lex_num_comma (cls : Char → CClass) (d : Char) (ds : List Char) (c : Char) (r : List Char)
    (h : DRun cls (d :: ds)) (hl : (d :: ds).length ≥ 2) (hcomma : (cls ',').isNum = false)
    (h0 : c ≠ '\x00') (hn : (cls c).isNum = false) (h1 : c ≠ '.') (hw : (cls c).isWord = false) :
    scan cls .init ((d :: ds) ++ ',' :: c :: r) = (d :: ds) :: [','] :: scan cls .init (c :: r) := by
  rw [scan_run_init cls d ds h.digRun]
  have hne : ds ≠ [] := by intro hh; subst hh; simp at hl
  have s1 : step cls { state := .n, tok := (d :: ds).reverse, seen := false } ',' =
      ([], { state := .nDot, tok := ',' :: (d :: ds).reverse, seen := false }) := by
    unfold step
    simp [hcomma, hne]
  have hemit : emit { state := .nDot, tok := ',' :: (d :: ds).reverse, seen := false } = [d :: ds, [',']] := by
    unfold emit
    have e : (',' :: (d :: ds).reverse).reverse = (d :: ds) ++ [','] := by simp
    have hs := splitDecimal_run_comma cls (d :: ds) h
    simp only [e, lstate_nDot_aDot, lstate_nDot_nDot, Bool.false_or, lastIsSep]
    simp only [resplit, hs]
    simp
  have s2 : step cls { state := .nDot, tok := ',' :: (d :: ds).reverse, seen := false } c =
      ((d :: ds) :: [','] :: (start cls c).1, (start cls c).2) := by
    unfold step pushBack
    simp only [h0, if_false, h1, hn, false_or, Bool.false_eq_true, hw, false_and, hemit]
    rfl
  rw [scan_init_cons cls c r h0]
  simp only [scan, s1, s2, List.nil_append]
  rfl

/-- one digit and a comma: the comma ends the number at once -/
theorem lex_num1_comma (cls : Char → CClass) (d : Char) (rest : List Char) (h : DRun cls [d])
    (hcomma : cls ',' = .other) :
    scan cls .init (d :: ',' :: rest) = [d] :: [','] :: scan cls .init rest := by
  have hd := h d List.mem_cons_self
  have e : d :: ',' :: rest = [d] ++ (',' :: rest) := rfl
  rw [e, scan_run_init cls d [] h.digRun]
  simp only [scan]
  have : step cls { state := .n, tok := [d].reverse, seen := false } ',' = ([[d], [',']], .init) := by
    unfold step pushBack start
    simp [hcomma, CClass.isNum, CClass.isWord, CClass.isSpace, emit_n]
  rw [this]
  rfl

end PM
