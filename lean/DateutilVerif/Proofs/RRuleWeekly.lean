/-
  Proofs/RRuleWeekly.lean — the WEEKLY instance of the refinement.  Period 0 of the model starts at
  the start's own day (the week is truncated), later periods at the week start; the specification's
  period is the whole week.  The days the model leaves out of week 0 lie before the start, so both
  sides yield the same instants (no BYSETPOS: positions would be counted differently — D-C01e).
-/
import DateutilVerif.Proofs.RRuleDaily

namespace RRule
open Cal

/-- WEEKLY argument sets covered by the proved portion of `iter_eq_spec` -/
structure WeeklyArgs (a : Args) : Prop extends DWArgs a where
  freq : a.freq = 2
  setpos : a.bysetpos = none ∨ weekdayOfOrd (Spec.RRule.startOrd a) = a.wkst.getD 0
  wkst : 0 ≤ a.wkst.getD 0 ∧ a.wkst.getD 0 ≤ 6
  until_ge : ∀ u, a.untilDT = some u → Spec.RRule.startMicros a ≤ u.toMicros

variable {a : Args} {r : Rule}

/-- start of the week containing the start -/
def W0 (a : Args) : Int := Spec.RRule.weekStart (a.wkst.getD 0) (Spec.RRule.startOrd a)

theorem W0_facts (wa : WeeklyArgs a) :
    W0 a ≤ Spec.RRule.startOrd a ∧ Spec.RRule.startOrd a < W0 a + 7 ∧
    (∀ m : Int, weekdayOfOrd (W0 a + 7 * m) = a.wkst.getD 0) := by
  have hr := weekdayOfOrd_range (Spec.RRule.startOrd a)
  have hw := wa.wkst
  unfold W0 Spec.RRule.weekStart
  refine ⟨by omega, by omega, ?_⟩
  intro m
  have e : Spec.RRule.startOrd a - (weekdayOfOrd (Spec.RRule.startOrd a) - a.wkst.getD 0) % 7 + 7 * m =
      Spec.RRule.startOrd a + (-((weekdayOfOrd (Spec.RRule.startOrd a) - a.wkst.getD 0) % 7) + 7 * m) := by omega
  rw [e, weekdayOfOrd_add]
  omega

/-- every admitted wall time of a calendar-frequency argument set with a valid start is valid -/
theorem timesOf_valid (a : Args) (hv : a.dtstart.Valid) (hf : a.freq < 4) :
    ∀ t ∈ Spec.RRule.timesOf a none none none, ValidHMS t := by
  unfold DT.Valid at hv
  intro t ht
  unfold Spec.RRule.timesOf Spec.RRule.restrict at ht
  simp only [List.mem_flatMap, List.mem_map] at ht
  obtain ⟨h, hh, m, hm, s, hs, rfl⟩ := ht
  have h1 : 0 ≤ h ∧ h ≤ 23 := by
    unfold Spec.RRule.hours at hh
    split at hh
    · have := (mem_intRange _ _ _).mp (List.mem_filter.mp hh).1; omega
    · rw [if_pos hf] at hh; simp at hh; subst hh; omega
  have h2 : 0 ≤ m ∧ m ≤ 59 := by
    unfold Spec.RRule.minutes at hm
    split at hm
    · have := (mem_intRange _ _ _).mp (List.mem_filter.mp hm).1; omega
    · rw [if_pos (by omega)] at hm; simp at hm; subst hm; omega
  have h3 : 0 ≤ s ∧ s ≤ 59 := by
    unfold Spec.RRule.seconds at hs
    split at hs
    · have := (mem_intRange _ _ _).mp (List.mem_filter.mp hs).1; omega
    · rw [if_pos (by omega)] at hs; simp at hs; subst hs; omega
  exact ⟨h1.1, h1.2, h2.1, h2.2, h3.1, h3.2⟩

theorem intRange_append (x y z : Int) (h1 : x ≤ y) (h2 : y ≤ z) : intRange x z = intRange x y ++ intRange y z := by
  unfold intRange
  have e : (z - x).toNat = (y - x).toNat + (z - y).toNat := by omega
  rw [e, List.range_add, List.map_append, List.map_map]
  congr 1
  apply List.map_congr_left
  intro k _; simp only [Function.comp]; omega

/-- "the model state at the start of period `k`" for a WEEKLY rule -/
structure WeeklyGood (a : Args) (r : Rule) (k : Nat) (st : State) : Prop where
  facts : YearFacts r st.cur.year st.info
  nwd : st.info.nwdaymask = none
  valid : ValidYMD st.cur.year st.cur.month st.cur.day
  timeset : st.timeset = Spec.RRule.timesOf a none none none
  wd : st.cur.weekday = weekdayOfOrd (curOrd st.cur)
  ord : curOrd st.cur = if k = 0 then Spec.RRule.startOrd a else W0 a + 7 * (k * a.interval)

/-- the start of the cursor's week is the start of the specification's period `k` -/
theorem weekly_wk (wa : WeeklyArgs a) (k : Nat) (st : State) (hg : WeeklyGood a r k st) :
    curOrd st.cur - (weekdayOfOrd (curOrd st.cur) - a.wkst.getD 0) % 7 = W0 a + 7 * (k * a.interval) := by
  have hf := W0_facts wa
  rw [hg.ord]
  by_cases hk : k = 0
  · subst hk; simp only [if_true]; unfold W0 Spec.RRule.weekStart; simp
  · rw [if_neg hk, hf.2.2]; omega

theorem weekly_span (wa : WeeklyArgs a) (k : Nat) :
    Spec.RRule.periodSpan a (k * a.interval) =
      (W0 a + 7 * (k * a.interval), W0 a + 7 * (k * a.interval) + 7, none, none, none) := by
  unfold Spec.RRule.periodSpan W0 Spec.RRule.wkst
  simp [wa.freq]

/-- the WEEKLY day set of period `k`: from the cursor to the day before the next week start -/
theorem weekly_dayset_end (wa : WeeklyArgs a) (h : construct a = .ok r) (k : Nat) (st : State)
    (hg : WeeklyGood a r k st) :
    ∃ e, dayset r st.info st.cur = .ok (intRange (curOrd st.cur - st.info.yearordinal) e) ∧
      st.info.yearordinal + e = W0 a + 7 * (k * a.interval) + 7 ∧
      W0 a + 7 * (k * a.interval) ≤ curOrd st.cur ∧ curOrd st.cur < W0 a + 7 * (k * a.interval) + 7 ∧
      1 ≤ curOrd st.cur ∧ 0 ≤ curOrd st.cur - st.info.yearordinal ∧
      curOrd st.cur - st.info.yearordinal < st.info.yearlen := by
  have dw := wa.toDWArgs
  obtain ⟨bh, bm, bs, hr⟩ := daily_rule dw h
  have hfreq : r.freq = 2 := by rw [hr]; exact wa.freq
  have hwk : r.wkst = a.wkst.getD 0 := by rw [hr]
  have hf := W0_facts wa
  have hw := wa.wkst
  have hpos : 1 ≤ Spec.RRule.startOrd a := by
    have hv := wa.valid
    unfold DT.Valid ValidDate at hv
    exact toOrdinal_pos _ _ _ hv.1.1 hv.1.2.2
  have hwkst := weekly_wk wa k st hg
  have hyo := hg.facts.yearordinal
  have hyl := hg.facts.yearlen
  have hidx := index_range _ _ _ hg.valid
  have hrange := weekdayOfOrd_range (curOrd st.cur)
  obtain ⟨e, hd, h1, h2, h3, h4⟩ := dayset_weekly hfreq hg.facts hg.valid
  rw [hwk] at h3 h4
  have he : st.info.yearordinal + e = W0 a + 7 * (k * a.interval) + 7 := by
    have hδ : 0 ≤ (weekdayOfOrd (curOrd st.cur) - a.wkst.getD 0) % 7 ∧
        (weekdayOfOrd (curOrd st.cur) - a.wkst.getD 0) % 7 < 7 := by omega
    by_cases c1 : e ≤ curOrd st.cur - st.info.yearordinal + 7 - (weekdayOfOrd (curOrd st.cur) - a.wkst.getD 0) % 7
    · by_cases c2 : e = curOrd st.cur - st.info.yearordinal + 7 - (weekdayOfOrd (curOrd st.cur) - a.wkst.getD 0) % 7
      · omega
      · exfalso
        rcases h4 with h4 | h4
        · omega
        · have e4 : st.info.yearordinal + e = curOrd st.cur + (e - (curOrd st.cur - st.info.yearordinal)) := by omega
          rw [e4, weekdayOfOrd_add] at h4
          omega
    · exfalso
      have := h3 (curOrd st.cur - st.info.yearordinal + 7 - (weekdayOfOrd (curOrd st.cur) - a.wkst.getD 0) % 7)
        (by omega) (by omega)
      apply this
      have e4 : st.info.yearordinal + (curOrd st.cur - st.info.yearordinal + 7 -
          (weekdayOfOrd (curOrd st.cur) - a.wkst.getD 0) % 7) =
          curOrd st.cur + (7 - (weekdayOfOrd (curOrd st.cur) - a.wkst.getD 0) % 7) := by omega
      rw [e4, weekdayOfOrd_add]
      omega
  have hk0 : (0 : Int) ≤ k * a.interval := Int.mul_nonneg (by omega) (by have := wa.interval; omega)
  have hcur1 : 1 ≤ curOrd st.cur := by
    rw [hg.ord]; split
    · exact hpos
    · rename_i hk
      have : (1 : Int) ≤ k * a.interval := by
        have h1 : (1 : Int) ≤ k := by omega
        have := Int.mul_le_mul h1 wa.interval (by omega) (by omega); omega
      omega
  refine ⟨e, hd, he, by omega, by omega, hcur1, ?_, ?_⟩
  · unfold curOrd; rw [hyo]; exact hidx.1
  · unfold curOrd; rw [hyo, hyl]; exact hidx.2

/-- the model's results of period `k` against the specification's candidates -/
theorem weekly_results (wa : WeeklyArgs a) (hnone : a.bysetpos = none) (h : construct a = .ok r) (k : Nat) (st : State)
    (hg : WeeklyGood a r k st) (hle : W0 a + 7 * (k * a.interval) + 7 ≤ maxOrdinal + 1) :
    ∃ fl pre cands, periodResults r st = .ok (cands, none, fl) ∧ Spec.RRule.sel a (k : Int) = pre ++ cands ∧
      (∀ x ∈ pre, x.micros < Spec.RRule.startMicros a ∧ Spec.RRule.afterUntil a x = false) ∧
      (∀ x ∈ cands, 0 ≤ x.ord ∧ x.ord ≤ maxOrdinal) := by
  have dw := wa.toDWArgs
  have hs := daily_simple dw h
  obtain ⟨bh, bm, bs, hr⟩ := daily_rule dw h
  have hsp : r.bysetpos = none := by rw [hr]; exact hnone
  have hyl := hg.facts.yearlen
  obtain ⟨e, hd, he, hcur_ge, hcur_lt, hcur1, hi0, hi_lt⟩ := weekly_dayset_end wa h k st hg
  obtain ⟨fl, hres⟩ := periodResults_range hs st hg.facts hg.nwd hsp _ e hd hi0 (by omega) (by omega) (by omega)
  have e1 : st.info.yearordinal + (curOrd st.cur - st.info.yearordinal) = curOrd st.cur := by omega
  rw [e1, he] at hres
  have hbridge : ∀ (lo hi : Int), 1 ≤ lo →
      (intRange lo hi).filter (simpleOk r) = (intRange lo hi).filter (Spec.RRule.dateOk a) := by
    intro lo hi hlo
    apply List.filter_congr
    intro o ho
    exact simpleOk_eq_dateOk dw h o (by have := (mem_intRange _ _ _).mp ho; omega)
  have hsel := sel_span a hnone k _ _ (weekly_span wa k)
  rw [intRange_append _ (curOrd st.cur) _ hcur_ge (by omega), List.filter_append, List.flatMap_append] at hsel
  refine ⟨fl, _, _, ?_, hsel, ?_, ?_⟩
  · rw [hres, hg.timeset, hbridge _ _ hcur1]
  · -- the left-out days are before the start
    intro x hx
    simp only [List.mem_flatMap, List.mem_filter, List.mem_map] at hx
    obtain ⟨o, ⟨ho, _⟩, t, ht, rfl⟩ := hx
    have hor := (mem_intRange _ _ _).mp ho
    have hk : k = 0 := by
      by_cases c : k = 0
      · exact c
      · have := hg.ord; rw [if_neg c] at this; omega
    have hcs : curOrd st.cur = Spec.RRule.startOrd a := by rw [hg.ord, if_pos hk]
    have hvt := timesOf_valid a wa.valid (by rw [wa.freq]; omega) t ht
    have hlt : (mkInst o t).micros < Spec.RRule.startMicros a := by
      have hv := wa.valid
      unfold DT.Valid at hv
      unfold ValidHMS at hvt
      unfold Spec.RRule.startMicros DT.toMicros DT.timeMicros DT.ordinal DT.usPerDay Inst.micros Inst.secs mkInst
      unfold Spec.RRule.startOrd DT.ordinal at hcs
      dsimp only
      omega
    refine ⟨hlt, ?_⟩
    unfold Spec.RRule.afterUntil
    cases hu : a.untilDT with
    | none => rfl
    | some u => have := wa.until_ge u hu; simp; omega
  · intro x hx
    have := sel_bounds _ _ _ _ x hx
    omega

/-- a start on the week start: the model's period is the whole week, also under BYSETPOS -/
theorem weekly_results_aligned (wa : WeeklyArgs a) (hal : weekdayOfOrd (Spec.RRule.startOrd a) = a.wkst.getD 0)
    (h : construct a = .ok r) (k : Nat) (st : State)
    (hg : WeeklyGood a r k st) (hle : W0 a + 7 * (k * a.interval) + 7 ≤ maxOrdinal + 1) :
    ∃ fl pre cands, periodResults r st = .ok (cands, none, fl) ∧ Spec.RRule.sel a (k : Int) = pre ++ cands ∧
      (∀ x ∈ pre, x.micros < Spec.RRule.startMicros a ∧ Spec.RRule.afterUntil a x = false) ∧
      (∀ x ∈ cands, 0 ≤ x.ord ∧ x.ord ≤ maxOrdinal) := by
  have dw := wa.toDWArgs
  have hs := daily_simple dw h
  obtain ⟨bh, bm, bs, hr⟩ := daily_rule dw h
  have hsp := construct_bysetpos a r h
  have htsok : TsOk st.timeset := by
    have := construct_timeset_ok a r h (by rw [wa.freq]; omega)
    rw [hr] at this; rw [hg.timeset]; exact this
  have hf := W0_facts wa
  have hw := wa.wkst
  obtain ⟨e, hd, he, hcur_ge, hcur_lt, hcur1, hi0, hi_lt⟩ := weekly_dayset_end wa h k st hg
  -- the cursor stands on the week start
  have hcw : weekdayOfOrd (curOrd st.cur) = a.wkst.getD 0 := by
    rw [hg.ord]; split
    · exact hal
    · exact hf.2.2 _
  have hcur : curOrd st.cur = W0 a + 7 * (k * a.interval) := by
    have := weekly_wk wa k st hg
    rw [hcw] at this; omega
  obtain ⟨fl, hres⟩ := periodResults_range_sp hs st hg.facts hg.nwd (by rw [hsp.1]; exact hsp.2) htsok _ e hd hi0
    (by omega) (by omega) (by omega)
  have e1 : st.info.yearordinal + (curOrd st.cur - st.info.yearordinal) = W0 a + 7 * (k * a.interval) := by omega
  rw [e1, he] at hres
  have hbridge : (intRange (W0 a + 7 * (k * a.interval)) (W0 a + 7 * (k * a.interval) + 7)).filter (simpleOk r) =
      (intRange (W0 a + 7 * (k * a.interval)) (W0 a + 7 * (k * a.interval) + 7)).filter (Spec.RRule.dateOk a) := by
    apply List.filter_congr
    intro o ho
    exact simpleOk_eq_dateOk dw h o (by have := (mem_intRange _ _ _).mp ho; omega)
  have hsel := sel_span_sp a k _ _ (weekly_span wa k)
  refine ⟨fl, [], Spec.RRule.sel a (k : Int), ?_, rfl, by simp, ?_⟩
  · rw [hres, hsel, hg.timeset, hbridge, hsp.1]
  · intro x hx
    rw [hsel] at hx
    have := sel_bounds _ _ _ _ x (applySetpos_subset _ _ x hx)
    omega

/-- `advance` reaches period `k+1` -/
theorem weekly_next (wa : WeeklyArgs a) (h : construct a = .ok r) (k : Nat) (st : State) (fl : Bool)
    (c : Option Int) (hg : WeeklyGood a r k st)
    (hle : W0 a + 7 * ((k + 1 : Nat) * a.interval) ≤ maxOrdinal) :
    ∃ st', advance r { st with count := c } fl = .ok st' ∧ WeeklyGood a r (k + 1) st' := by
  have dw := wa.toDWArgs
  have hs := daily_simple dw h
  obtain ⟨bh, bm, bs, hr⟩ := daily_rule dw h
  have hfreq : r.freq = 2 := by rw [hr]; exact wa.freq
  have hint : r.interval = a.interval := by rw [hr]
  have hwk : r.wkst = a.wkst.getD 0 := by rw [hr]
  have hi := wa.interval
  have hw := wa.wkst
  have hf := W0_facts wa
  have hwkst := weekly_wk wa k st hg
  have hrange := weekdayOfOrd_range (curOrd st.cur)
  obtain ⟨hm1, hm12, hd1, hd2⟩ := hg.valid
  have ek : ((k + 1 : Nat) : Int) * a.interval = k * a.interval + a.interval := by
    push_cast; rw [Int.add_mul]; omega
  -- the new day number
  have hnew : ∀ d', d' = (if r.wkst > st.cur.weekday then st.cur.day + (-(st.cur.weekday + 1 + (6 - r.wkst)) + r.interval * 7)
        else st.cur.day + (-(st.cur.weekday - r.wkst) + r.interval * 7)) →
      curOrd { st.cur with day := d' } = W0 a + 7 * ((k + 1 : Nat) * a.interval) ∧ 1 ≤ d' := by
    intro d' hd'
    rw [curOrd_day, hd', hg.wd, hwk, hint, ek]
    split <;> (constructor <;> omega)
  have hex : ∃ st', advance r { st with count := c } fl = .ok st' ∧ st'.info.nwdaymask = none := by
    unfold advance
    dsimp only
    rw [if_neg (by simp [hfreq]), if_neg (by simp [hfreq]), if_pos (by simp [hfreq])]
    obtain ⟨e1, e2⟩ := hnew _ rfl
    exact fixDay_ok r hs
      { cur := { st.cur with day := _, weekday := r.wkst }, info := st.info, timeset := st.timeset, count := c }
      hm1 hm12 e2 hg.facts.year_lo hg.facts.year_hi
      (by have : curOrd { st.cur with day := (if r.wkst > st.cur.weekday then
                st.cur.day + (-(st.cur.weekday + 1 + (6 - r.wkst)) + r.interval * 7)
                else st.cur.day + (-(st.cur.weekday - r.wkst) + r.interval * 7)), weekday := r.wkst } =
              curOrd { st.cur with day := (if r.wkst > st.cur.weekday then
                st.cur.day + (-(st.cur.weekday + 1 + (6 - r.wkst)) + r.interval * 7)
                else st.cur.day + (-(st.cur.weekday - r.wkst) + r.interval * 7)) } := rfl
          rw [this, e1]; exact hle)
      hg.nwd
  obtain ⟨st', hadv, hnw⟩ := hex
  refine ⟨st', hadv, ?_⟩
  have sp := advance_weekly r { st with count := c } st' fl hfreq (by omega) hg.valid (by rw [hwk]; exact hw)
    (by show 0 ≤ st.cur.weekday ∧ st.cur.weekday ≤ 6; rw [hg.wd]; omega) hg.facts hadv
  obtain ⟨eo, v, wd', f', ts⟩ := sp
  have eo : curOrd st'.cur = curOrd st.cur - (st.cur.weekday - r.wkst) % 7 + 7 * r.interval := eo
  have eo' : curOrd st'.cur = W0 a + 7 * ((k + 1 : Nat) * a.interval) := by
    rw [eo, hg.wd, hwk, hint, ek]; omega
  refine ⟨f', hnw, v, by rw [ts]; exact hg.timeset, ?_, ?_⟩
  · rw [wd', hwk, eo', hf.2.2]
  · rw [if_neg (by omega)]; exact eo'

/-- the initial state is the state of period 0 -/
theorem weekly_init (wa : WeeklyArgs a) (h : construct a = .ok r) :
    ∃ st0, init r = .ok st0 ∧ WeeklyGood a r 0 st0 ∧ st0.count = r.count := by
  have dw := wa.toDWArgs
  have hs := daily_simple dw h
  have hv := wa.valid
  unfold DT.Valid ValidDate at hv
  obtain ⟨info, hre, hnw, _, _⟩ := rebuild_simple r hs a.dtstart.y a.dtstart.m hv.1.1 hv.1.2.1
  obtain ⟨bh, bm, bs, hr⟩ := daily_rule dw h
  have hd : r.dtstart = { a.dtstart with us := 0 } := by rw [hr]
  have hf : r.freq < 4 := by rw [hr]; show a.freq < 4; rw [wa.freq]; omega
  have hts : r.timeset = some (Spec.RRule.timesOf a none none none) := by rw [hr]
  refine ⟨{ cur := { year := a.dtstart.y, month := a.dtstart.m, day := a.dtstart.d, hour := a.dtstart.hh,
                     minute := a.dtstart.mm, second := a.dtstart.ss, weekday := r.dtstart.weekday },
            info := info, timeset := Spec.RRule.timesOf a none none none, count := r.count }, ?_, ?_, rfl⟩
  · unfold init
    simp only [hd, bind, Except.bind, hre, hts, pure, Except.pure]
    rw [if_pos hf]
    rfl
  · refine ⟨rebuild_facts r _ _ info hre, hnw, hv.1.2.2, rfl, ?_, ?_⟩
    · rw [hd]; rfl
    · simp only [if_true]; rfl

/-- **`iter_eq_spec`, WEEKLY portion.**  For every argument set with FREQ=WEEKLY, INTERVAL ≥ 1, a week
    start 0..6, a valid start, UNTIL (if any) not before the start, any BYMONTH / BYMONTHDAY (non-zero
    members) / BYYEARDAY / BYDAY — or none, in which case the weekday is the start's — / BYHOUR /
    BYMINUTE / BYSECOND, any COUNT, no BYWEEKNO / BYEASTER, and BYSETPOS only when the start falls on the
    week start (the complement of the defect class D-C01e): the values yielded during
    the first `n` periods are exactly the specification's recurrence set of those periods (whole
    weeks from the week start), for every `n` whose weeks lie inside datetime's range. -/
theorem iter_eq_spec_weekly (wa : WeeklyArgs a) (h : construct a = .ok r) (n : Nat)
    (hn : W0 a + 7 * (n * a.interval) + 7 ≤ maxOrdinal + 1) :
    (iter r n).1 = Spec.RRule.occ a n := by
  have hi := wa.interval
  have hmono : ∀ k : Nat, k ≤ n → W0 a + 7 * (k * a.interval) + 7 ≤ maxOrdinal + 1 := by
    intro k hk
    have : (k : Int) * a.interval ≤ n * a.interval :=
      Int.mul_le_mul_of_nonneg_right (by omega) (by omega)
    omega
  have sim : Simulation a r n (WeeklyGood a r) := {
    agree := daily_cuts wa.toDWArgs h
    results := fun k st hk hg => by
      rcases wa.setpos with hnone | hal
      · exact weekly_results wa hnone h k st hg (hmono k (by omega))
      · exact weekly_results_aligned wa hal h k st hg (hmono k (by omega))
    next := fun k st fl c hk hg => weekly_next wa h k st fl c hg (by have := hmono (k + 1) (by omega); omega) }
  obtain ⟨st0, hinit, hg0, hc0⟩ := weekly_init wa h
  exact iter_refines sim st0 hinit hg0 hc0 n (by omega)

end RRule
