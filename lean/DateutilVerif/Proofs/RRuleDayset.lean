/-
  Proofs/RRuleDayset.lean — `getdayset` covers exactly the days of the period:
  the whole year (YEARLY), the cursor's month (MONTHLY), the days from the cursor to the day
  before the next week start (WEEKLY), the cursor's day (DAILY and finer).
-/
import DateutilVerif.Proofs.RRuleAdvance

namespace RRule
open Cal RRule.Tables

theorem mem_intRange (a b x : Int) : x ∈ intRange a b ↔ a ≤ x ∧ x < b := by
  unfold intRange
  simp only [List.mem_map, List.mem_range]
  constructor
  · rintro ⟨k, hk, rfl⟩; omega
  · intro h; exact ⟨(x - a).toNat, by omega, by omega⟩

theorem intRange_pairwise (a b : Int) : (intRange a b).Pairwise (· < ·) := by
  unfold intRange
  rw [List.pairwise_map]
  have : (List.range (b - a).toNat).Pairwise (· < ·) := List.pairwise_lt_range
  exact this.imp (by intro x y h; omega)

theorem intRange_one (x : Int) : intRange x (x + 1) = [x] := by
  unfold intRange
  have : (x + 1 - x).toNat = 1 := by omega
  rw [this]; simp [List.range_succ]

variable {r : Rule} {info : Info}

/-- **YEARLY**: indices `0 … yearlen−1`, i.e. every day of the cursor's year -/
theorem dayset_yearly (c : Cursor) (hf : r.freq = 0) : dayset r info c = .ok (intRange 0 info.yearlen) := by
  unfold dayset; rw [if_pos (by simp [hf])]

/-- **MONTHLY**: the indices of the days of the cursor's month: `toOrdinal y m 1 − yearordinal` up to
    (excluding) the first day of the next month -/
theorem dayset_monthly (c : Cursor) (hf : r.freq = 1) (f : YearFacts r c.year info)
    (hm1 : 1 ≤ c.month) (hm12 : c.month ≤ 12) :
    dayset r info c = .ok (intRange (daysBeforeMonth c.year c.month)
                                   (daysBeforeMonth c.year c.month + daysInMonth c.year c.month)) := by
  unfold dayset
  rw [if_neg (by simp [hf]), if_pos (by simp [hf]), f.mrange,
      mrange_spec _ (c.month - 1) (by omega) (by omega), mrange_spec _ c.month (by omega) (by omega)]
  dsimp only
  have e : c.month - 1 + 1 = c.month := by omega
  rw [e, ← daysBeforeMonth_succ c.year c.month hm1 hm12]
  rfl

/-- index of a valid date of the year -/
theorem index_range (y m d : Int) (hv : ValidYMD y m d) :
    0 ≤ toOrdinal y m d - toOrdinal y 1 1 ∧ toOrdinal y m d - toOrdinal y 1 1 < daysInYear y := by
  obtain ⟨m1, m12, d1, dd⟩ := hv
  unfold toOrdinal
  rw [daysBeforeMonth_1]
  have h0 := daysBeforeMonth_mono y 1 m (by omega) m1 (by omega)
  rw [daysBeforeMonth_1] at h0
  have hs := daysBeforeMonth_succ y m m1 m12
  have h13 := daysBeforeMonth_mono y (m + 1) 13 (by omega) (by omega) (by omega)
  rw [daysBeforeMonth_13] at h13
  omega

/-- **DAILY and finer**: the single index of the cursor's day -/
theorem dayset_daily (c : Cursor) (hf : 3 ≤ r.freq) (f : YearFacts r c.year info)
    (hv : ValidYMD c.year c.month c.day) :
    dayset r info c = .ok [curOrd c - info.yearordinal] := by
  have hr := index_range c.year c.month c.day hv
  unfold dayset
  rw [if_neg (by simp; omega), if_neg (by simp; omega)]
  have hvd : Cal.validDate c.year c.month c.day = true := by
    unfold validDate; rw [decide_eq_true_eq]; exact ⟨f.year_lo, f.year_hi, hv⟩
  rw [if_neg (by simp [hvd])]
  dsimp only
  rw [if_neg (by simp; omega)]
  rw [f.yearordinal, f.yearlen, if_neg (by omega)]
  rfl

/-- the `wdayset` loop: it stops at the first index after `i` whose weekday is `wkst`, at most 7 later -/
theorem wdaysetEnd_spec {y : Int} (f : YearFacts r y info) (wkst : Int) : ∀ (n : Nat) (i : Int),
    0 ≤ i → i + n ≤ info.yearlen + 7 → 1 ≤ n →
    ∃ e, wdaysetEnd info wkst n i = .ok e ∧ i < e ∧ e ≤ i + n ∧
      (∀ j, i < j → j < e → weekdayOfOrd (info.yearordinal + j) ≠ wkst) ∧
      (e = i + n ∨ weekdayOfOrd (info.yearordinal + e) = wkst) := by
  intro n
  induction n with
  | zero => intro i _ _ h; omega
  | succ k ih =>
    intro i h0 hn _
    have hlen : info.yearlen ≤ 366 := by rw [f.yearlen]; unfold daysInYear; split <;> omega
    unfold wdaysetEnd
    rw [if_neg (by omega), wdaymask_date f (i + 1) (by omega) (by omega)]
    dsimp only
    by_cases hw : weekdayOfOrd (info.yearordinal + (i + 1)) = wkst
    · rw [if_pos (by simp [hw])]
      refine ⟨i + 1, rfl, by omega, by omega, ?_, Or.inr hw⟩
      intro j h1 h2; omega
    · rw [if_neg (by simp [hw])]
      by_cases hk : k = 0
      · subst hk
        refine ⟨i + 1, by simp [wdaysetEnd], by omega, by omega, ?_, Or.inl (by omega)⟩
        intro j h1 h2; omega
      · obtain ⟨e, he, h1, h2, h3, h4⟩ := ih (i + 1) (by omega) (by omega) (by omega)
        refine ⟨e, he, by omega, by omega, ?_, ?_⟩
        · intro j hj1 hj2
          by_cases hj : j = i + 1
          · subst hj; exact hw
          · exact h3 j (by omega) hj2
        · rcases h4 with h4 | h4
          · left; omega
          · right; exact h4

/-- **WEEKLY**: the indices from the cursor's day to the day before the next week start -/
theorem dayset_weekly {c : Cursor} (hf : r.freq = 2) (f : YearFacts r c.year info)
    (hv : ValidYMD c.year c.month c.day) :
    ∃ e, dayset r info c = .ok (intRange (curOrd c - info.yearordinal) e) ∧
      curOrd c - info.yearordinal < e ∧ e ≤ curOrd c - info.yearordinal + 7 ∧
      (∀ j, curOrd c - info.yearordinal < j → j < e → weekdayOfOrd (info.yearordinal + j) ≠ r.wkst) ∧
      (e = curOrd c - info.yearordinal + 7 ∨ weekdayOfOrd (info.yearordinal + e) = r.wkst) := by
  have hr := index_range c.year c.month c.day hv
  have hvd : Cal.validDate c.year c.month c.day = true := by
    unfold validDate; rw [decide_eq_true_eq]; exact ⟨f.year_lo, f.year_hi, hv⟩
  rw [← f.yearordinal, ← f.yearlen] at hr
  obtain ⟨e, he, h1, h2, h3, h4⟩ := wdaysetEnd_spec f r.wkst 7 (curOrd c - info.yearordinal)
    (by unfold curOrd; omega) (by unfold curOrd; omega) (by omega)
  refine ⟨e, ?_, h1, h2, h3, h4⟩
  unfold dayset
  rw [if_neg (by simp [hf]), if_neg (by simp [hf]), if_neg (by simp [hvd])]
  dsimp only
  rw [if_pos (by simp [hf])]
  unfold curOrd at he
  rw [he]
  rfl

end RRule
