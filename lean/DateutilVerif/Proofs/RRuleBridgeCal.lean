/-
  Proofs/RRuleBridgeCal.lean — the bridge from the constructor's normalised state to the argument
  set for YEARLY / MONTHLY argument sets, including the defaults taken from the start
  (YEARLY: month and month day; MONTHLY: month day) when no day-level part is supplied.
-/
import DateutilVerif.Proofs.RRuleBridge
import DateutilVerif.Proofs.RRuleTimes

namespace RRule
open Cal

/-- YEARLY / MONTHLY argument sets covered by the proved portion of `iter_eq_spec` -/
structure YMArgs (a : Args) : Prop where
  freq : a.freq = 0 ∨ a.freq = 1
  interval : 1 ≤ a.interval
  valid : a.dtstart.Valid
  byweekno : a.byweekno = none
  byeaster : a.byeaster = none
  monthday_nz : ∀ x ∈ a.bymonthday.getD [], x ≠ 0
  plain : ∀ w ∈ a.byweekday.getD [], w.2 = 0

variable {a : Args} {r : Rule}

/-- the normalised rule of a YEARLY / MONTHLY argument set, up to the three unit lists -/
abbrev ymRuleOf (a : Args) (bh bm bs : Option (List Int)) : Rule :=
  { freq := a.freq, interval := a.interval, wkst := a.wkst.getD 0,
    dtstart := { a.dtstart with us := 0 }, tz := a.tz, count := a.count, untilDT := a.untilDT,
    bysetpos := a.bysetpos, bymonth := bymonthOf a, bymonthday := bymonthdayOf a,
    bynmonthday := bynmonthdayOf a, byyearday := a.byyearday.map sortedSet,
    byeaster := none, byweekno := none,
    byweekday := byweekdayOf a, bynweekday := bynweekdayOf a,
    byhour := bh, byminute := bm, bysecond := bs,
    timeset := some (Spec.RRule.timesOf a none none none) }

theorem ym_rule (ya : YMArgs a) (h : construct a = .ok r) : ∃ bh bm bs, r = ymRuleOf a bh bm bs := by
  have hf4 : a.freq < 4 := by rcases ya.freq with h | h <;> omega
  have hts := construct_timeset a r h hf4
  obtain ⟨sp, bh, bm, bs, ts, h1, h2, h3, h4, h5, rfl⟩ := construct_ok a r h
  dsimp only at hts
  subst hts
  have hsp := (normBysetpos_ok a sp h1).1
  subst hsp
  exact ⟨bh, bm, bs, by simp [ymRuleOf, ya.byweekno, ya.byeaster]⟩

theorem ym_cuts (ya : YMArgs a) (h : construct a = .ok r) : CutsAgree a r := by
  obtain ⟨bh, bm, bs, hr⟩ := ym_rule ya h
  rw [hr]; exact ⟨rfl, rfl, rfl⟩

theorem ym_weekdayArg (ya : YMArgs a) : weekdayArg a = a.byweekday := by
  unfold weekdayArg
  rcases ya.freq with h | h <;> simp [h]

theorem ym_simple (ya : YMArgs a) (h : construct a = .ok r) : SimpleRule r := by
  obtain ⟨bh, bm, bs, hr⟩ := ym_rule ya h
  rw [hr]
  refine ⟨rfl, ?_, rfl⟩
  unfold ymRuleOf
  dsimp only
  unfold bynweekdayOf
  rw [ym_weekdayArg ya]
  cases hl : a.byweekday with
  | none => rfl
  | some l =>
    dsimp only
    have hnth : nthWeekdays a l = [] := by
      unfold nthWeekdays
      have : l.filter (fun w => !(w.2 == 0 || decide (a.freq > 1))) = [] := by
        apply List.filter_eq_nil_iff.mpr
        intro w hw
        have := ya.plain w (by rw [hl]; exact hw)
        simp [this]
      rw [this]; rfl
    rw [hnth]
    split
    · rfl
    · rfl

/-- BYMONTHDAY clause for an arbitrary (defaulted or supplied) list without zeros -/
theorem monthday_clause_core (a : Args) (hnz : ∀ x ∈ (monthdayArg a).getD [], x ≠ 0)
    (d e : Int) (hd : 0 < d) (he : e < 0) :
    (!(!(bymonthdayOf a).isEmpty || !(bynmonthdayOf a).isEmpty) ||
      (bymonthdayOf a).contains d || (bynmonthdayOf a).contains e) =
    (((monthdayArg a).getD []).isEmpty || ((monthdayArg a).getD []).contains d ||
      ((monthdayArg a).getD []).contains e) := by
  unfold bymonthdayOf bynmonthdayOf
  cases hl : monthdayArg a with
  | none => rfl
  | some l =>
    rw [hl] at hnz
    simp only [Option.getD_some] at hnz ⊢
    have hpos : ∀ x, x ∈ sortBy ltInt ((dedup [] l).filter (· > 0)) ↔ x ∈ l ∧ 0 < x := by
      intro x; rw [mem_sortBy, List.mem_filter, mem_dedup]; simp
    have hneg : ∀ x, x ∈ sortBy ltInt ((dedup [] l).filter (· < 0)) ↔ x ∈ l ∧ x < 0 := by
      intro x; rw [mem_sortBy, List.mem_filter, mem_dedup]; simp
    have hc1 : (sortBy ltInt ((dedup [] l).filter (· > 0))).contains d = l.contains d := by
      rw [Bool.eq_iff_iff]; simp only [List.contains_iff_mem, hpos]; constructor
      · exact fun h => h.1
      · exact fun h => ⟨h, hd⟩
    have hc2 : (sortBy ltInt ((dedup [] l).filter (· < 0))).contains e = l.contains e := by
      rw [Bool.eq_iff_iff]; simp only [List.contains_iff_mem, hneg]; constructor
      · exact fun h => h.1
      · exact fun h => ⟨h, he⟩
    rw [hc1, hc2]
    cases l with
    | nil => rfl
    | cons x xs =>
      have hx : x ≠ 0 := hnz x (by simp)
      have : (sortBy ltInt ((dedup [] (x :: xs)).filter (· > 0))).isEmpty = false ∨
             (sortBy ltInt ((dedup [] (x :: xs)).filter (· < 0))).isEmpty = false := by
        by_cases hp : 0 < x
        · left
          have := (hpos x).mpr ⟨by simp, hp⟩
          cases hq : sortBy ltInt ((dedup [] (x :: xs)).filter (· > 0)) with
          | nil => rw [hq] at this; simp at this
          | cons _ _ => rfl
        · right
          have := (hneg x).mpr ⟨by simp, by omega⟩
          cases hq : sortBy ltInt ((dedup [] (x :: xs)).filter (· < 0)) with
          | nil => rw [hq] at this; simp at this
          | cons _ _ => rfl
      rcases this with h | h <;> simp [h]

theorem monthday_clause_gen (ya : YMArgs a) (d e : Int) (hd : 0 < d) (he : e < 0) :
    (!(!(bymonthdayOf a).isEmpty || !(bynmonthdayOf a).isEmpty) ||
      (bymonthdayOf a).contains d || (bynmonthdayOf a).contains e) =
    (((monthdayArg a).getD []).isEmpty || ((monthdayArg a).getD []).contains d ||
      ((monthdayArg a).getD []).contains e) := by
  apply monthday_clause_core a _ d e hd he
  unfold monthdayArg
  split
  · intro x hx
    have hv := ya.valid
    unfold DT.Valid ValidDate ValidYMD at hv
    simp at hx; subst hx; omega
  · exact ya.monthday_nz

theorem weekday_clause_ym (ya : YMArgs a) (wd : Int) (f : Int × Int → Bool) :
    (!truthy (byweekdayOf a) || memO wd (byweekdayOf a)) =
    ((a.byweekday.getD []).isEmpty ||
      (a.byweekday.getD []).any (fun wn => wn.1 == wd && (wn.2 == 0 || decide (a.freq > 1) || f wn))) := by
  unfold byweekdayOf; rw [ym_weekdayArg ya]
  cases hl : a.byweekday with
  | none => rfl
  | some l =>
    dsimp only
    have hpl := ya.plain
    rw [hl] at hpl
    simp only [Option.getD_some] at hpl
    have hplain : ∀ x, x ∈ plainWeekdays a l ↔ x ∈ l.map (·.1) := by
      intro x; unfold plainWeekdays; rw [mem_dedup]
      have : l.filter (fun w => w.2 == 0 || decide (a.freq > 1)) = l := by
        apply List.filter_eq_self.mpr; intro w hw; simp [hpl w hw]
      rw [this]
    have hany : ∀ (l' : List (Int × Int)), (∀ w ∈ l', w.2 = 0) →
        l'.any (fun wn => wn.1 == wd && (wn.2 == 0 || decide (a.freq > 1) || f wn)) =
        (l'.map (·.1)).contains wd := by
      intro l'
      induction l' with
      | nil => intro _; rfl
      | cons w ws ih =>
        intro hz
        rw [List.any_cons, List.map_cons, List.contains_cons, ih (fun w hw => hz w (List.mem_cons_of_mem _ hw))]
        congr 1
        have : w.2 = 0 := hz w (List.mem_cons_self ..)
        simp only [this, beq_self_eq_true, Bool.true_or, Bool.and_true]
        rw [Bool.eq_iff_iff]; simp only [beq_iff_eq]; exact eq_comm
    rw [Option.getD_some, hany l hpl]
    by_cases he : (plainWeekdays a l).isEmpty = true
    · rw [if_pos he]
      have : l.isEmpty = true := by
        cases l with
        | nil => rfl
        | cons w ws =>
          have := (hplain w.1).mpr (by simp)
          cases hp : plainWeekdays a (w :: ws) with
          | nil => rw [hp] at this; simp at this
          | cons _ _ => rw [hp] at he; simp at he
      simp [truthy, this]
    · rw [if_neg he]
      have hne : l.isEmpty = false := by
        cases l with
        | nil => exact absurd (by rfl) he
        | cons w ws => rfl
      have ht : truthy (some (sortBy ltInt (plainWeekdays a l))) = true := by
        rw [truthy_eq_not_isEmpty]
        rw [isEmpty_of_mem_iff _ (plainWeekdays a l) (fun x => mem_sortBy ltInt x _)]
        simpa using he
      simp only [ht, hne, memO, Bool.not_true, Bool.false_or]
      rw [Bool.eq_iff_iff]
      simp only [List.contains_iff_mem, mem_sortBy, hplain]

/-- **bridge, YEARLY / MONTHLY** (defaults from the start included) -/
theorem simpleOk_eq_dateOk_ym (ya : YMArgs a) (h : construct a = .ok r) (ord : Int) (ho : 1 ≤ ord) :
    simpleOk r ord = Spec.RRule.dateOk a ord := by
  obtain ⟨_, hv, _⟩ := toOrdinal_fromOrdinal ord ho
  obtain ⟨_, _, hd1, hd2⟩ := hv
  obtain ⟨bh, bm, bs, hr⟩ := ym_rule ya h
  rw [hr]
  unfold simpleOk Spec.RRule.dateOk ymRuleOf
  dsimp only
  have hnd : Spec.RRule.noDayParts a = noDayParts a := rfl
  have hmonths : Spec.RRule.months a =
      ((if noDayParts a && a.freq == 0 && a.bymonth.isNone then some [a.dtstart.m] else a.bymonth).getD []) := by
    unfold Spec.RRule.months; rw [hnd]
    cases hb : a.bymonth with
    | some l => simp
    | none => by_cases c : (noDayParts a && a.freq == 0) = true <;> simp [c]
  have hmd : Spec.RRule.monthdays a = (monthdayArg a).getD [] := by
    unfold Spec.RRule.monthdays monthdayArg; rw [hnd]; split <;> rfl
  have hwds : Spec.RRule.weekdays a = a.byweekday.getD [] := by
    unfold Spec.RRule.weekdays; rcases ya.freq with h | h <;> simp [h]
  rw [hmonths, hmd, hwds, ya.byweekno, ya.byeaster]
  unfold bymonthOf
  rw [month_clause,
      monthday_clause_gen ya _ _ (by omega) (by omega),
      weekday_clause_ym ya _ (fun wn => Spec.RRule.nthOk a ord (fromOrdinal ord).1 (fromOrdinal ord).2.1 wn.2)]
  simp only [Bool.and_true]
  generalize (((if noDayParts a && a.freq == 0 && a.bymonth.isNone then some [a.dtstart.m] else a.bymonth).getD []).isEmpty || _) = b1
  generalize ((a.byweekday.getD []).isEmpty || _) = b2
  generalize (((monthdayArg a).getD []).isEmpty || _ || _) = b3
  rcases a.byyearday with _ | (_ | ⟨x, xs⟩)
  · cases b1 <;> cases b2 <;> cases b3 <;> rfl
  · cases b1 <;> cases b2 <;> cases b3 <;> rfl
  · rw [yearday_clause (some (x :: xs))]
    dsimp only
    cases b1 <;> cases b2 <;> cases b3 <;> simp

end RRule
