/-
  Proofs/TzStrParseOff.lean — `parseOffset` and `ruleTime` on every spelling of an offset / a time of
  day, over an abstract token array given by a list decomposition `pre ++ (segment ++ post)`.
-/
import DateutilVerif.Proofs.TzStrParseFacts

namespace TzStr

def OffSp.val : OffSp → Int
  | .h n => n.val * 3600
  | .hhmm _ a b => a * 3600 + b * 60
  | .colon a b => a.val * 3600 + b.val * 60

/-- the parser's sign convention: "-" means EAST (+), "+" or no sign mean WEST (−) -/
def Off.val (o : Off) : Int := o.sp.val * (if o.sign = some false then 1 else -1)

def TimeSp.val : TimeSp → Int
  | .h n => n.val * 3600
  | .hhmm _ a b => a * 3600 + b * 60
  | .hm a b => a.val * 3600 + b.val * 60
  | .hms a b c => a.val * 3600 + b.val * 60 + c.val

theorem cov_step {l : Array String} {st st' : St} (hc : Cov l st) (hi : st.i ≤ st'.i)
    (hused : ∀ k ∈ st.used, k ∈ st'.used)
    (hnew : ∀ k, st.i ≤ k → k < st'.i → k < l.size → (k ∈ st'.used ∨ l[k]? = some "," ∨ l[k]? = some ":")) :
    Cov l st' := by
  intro k hk hs
  by_cases h : k < st.i
  · rcases hc k h hs with a | a | a
    · exact Or.inl (hused k a)
    · exact Or.inr (Or.inl a)
    · exact Or.inr (Or.inr a)
  · exact hnew k (by omega) hk hs

/-- `parseOffset` after the optional sign -/
def offCore (l : Array String) (st : St) (signal : Int) : P (Int × St) := do
  let i := st.i
  let t ← tok l i
  let len := t.length
  if len == 4 then do
    let a ← pyInt (strTake t 2)
    let b ← pyInt (strDrop t 2)
    pure ((a * 3600 + b * 60) * signal, { st with used := st.used ++ [i], i := i + 1 })
  else if i + 1 < l.size && l[i + 1]? == some ":" then do
    let a ← pyInt t
    let t2 ← tok l (i + 2)
    let b ← pyInt t2
    pure ((a * 3600 + b * 60) * signal, { st with used := st.used ++ [i, i + 2], i := i + 3 })
  else if len ≤ 2 then do
    let a ← pyInt (strTake t 2)
    pure (a * 3600 * signal, { st with used := st.used ++ [i], i := i + 1 })
  else none

theorem parseOffset_eq (l : Array String) (st : St) :
    parseOffset l st =
      (match l[st.i]? with
       | none => none
       | some t =>
         if t == "+" || t == "-" then
           offCore l { st with used := st.used ++ [st.i], i := st.i + 1 } (if t == "+" then -1 else 1)
         else offCore l st (-1)) := by
  unfold parseOffset offCore
  cases h : l[st.i]? with
  | none => simp [tok, h, bind, Option.bind]
  | some t =>
      by_cases hs : (t == "+" || t == "-") = true
      · simp only [tok, h, bind, Option.bind, hs, if_true, pure]
      · simp only [tok, h, bind, Option.bind, hs, if_false, pure, Bool.false_eq_true]

theorem not_colon_of_head {post : List String} (hp : post.head? ≠ some ":") : (post[0]? == some ":") = false := by
  cases post with
  | nil => rfl
  | cons x t =>
      simp only [List.head?_cons, ne_eq, Option.some.injEq] at hp
      simp [hp]

theorem offCore_spec (sp : OffSp) (l : Array String) (pre post : List String) (st : St) (signal : Int)
    (hl : l.toList = pre ++ (toksOf sp.chunks ++ post)) (hi : st.i = pre.length) (hok : sp.Ok)
    (hp : post.head? ≠ some ":") (hc : Cov l st) :
    ∃ st', offCore l st signal = some (sp.val * signal, st') ∧
      st'.i = pre.length + (toksOf sp.chunks).length ∧ st'.res = st.res ∧ Cov l st' := by
  have hpc := not_colon_of_head hp
  cases sp with
  | h n =>
      obtain ⟨hn0, hlen⟩ := hok
      have hn : pyInt n.tok = some n.val := hn0
      simp only [OffSp.chunks, numC, toksOf_cons, toksOf_nil, String.ofList_toList, List.cons_append,
        List.nil_append] at hl
      have g0 := get_at hl 0
      have g1 := get_at hl 1
      have hs := size_at hl
      simp only [List.getElem?_cons_zero, List.getElem?_cons_succ, Nat.add_zero, List.length_cons] at g0 g1 hs
      have h4 : (n.tok.length == 4) = false := by apply beq_eq_false_iff_ne.mpr; omega
      refine ⟨{ st with used := st.used ++ [pre.length], i := pre.length + 1 }, ?_, by simp [OffSp.chunks, toksOf], rfl, ?_⟩
      · unfold offCore
        simp only [tok, hi, g0, g1, bind, Option.bind, h4, hpc, Bool.and_false, Bool.false_eq_true, if_false,
          hlen, if_true, strTake_short n.tok hlen, hn, pure, OffSp.val]
      · apply cov_step hc (by simp [hi]) (by intro k hk; simp [hk])
        intro k h1 h2 _
        have : k = pre.length := by simp at h2; omega
        left; simp [this]
  | hhmm t a b =>
      obtain ⟨hd, hlen, ha, hb⟩ := hok
      simp only [OffSp.chunks, toksOf_cons, toksOf_nil, String.ofList_toList, List.cons_append,
        List.nil_append] at hl
      have g0 := get_at hl 0
      simp only [List.getElem?_cons_zero, Nat.add_zero] at g0
      have h4 : (t.length == 4) = true := by simp [hlen]
      refine ⟨{ st with used := st.used ++ [pre.length], i := pre.length + 1 }, ?_, by simp [OffSp.chunks, toksOf], rfl, ?_⟩
      · unfold offCore
        simp only [tok, hi, g0, bind, Option.bind, h4, if_true, ha, hb, pure, OffSp.val]
      · apply cov_step hc (by simp [hi]) (by intro k hk; simp [hk])
        intro k h1 h2 _
        have : k = pre.length := by simp at h2; omega
        left; simp [this]
  | colon a b =>
      obtain ⟨ha0, hb0, hlen, _, _⟩ := hok
      have ha : pyInt a.tok = some a.val := ha0
      have hb : pyInt b.tok = some b.val := hb0
      simp only [OffSp.chunks, numC, pC, toksOf_cons, toksOf_nil, String.ofList_toList, List.cons_append,
        List.nil_append] at hl
      have g0 := get_at hl 0
      have g1 := get_at hl 1
      have g2 := get_at hl 2
      have hs := size_at hl
      have ec : String.ofList [':'] = ":" := rfl
      simp only [List.getElem?_cons_zero, List.getElem?_cons_succ, Nat.add_zero, List.length_cons, ec] at g0 g1 g2 hs
      have h4 : (a.tok.length == 4) = false := by apply beq_eq_false_iff_ne.mpr; exact hlen
      have hlt : decide (pre.length + 1 < l.size) = true := by simp; omega
      refine ⟨{ st with used := st.used ++ [pre.length, pre.length + 2], i := pre.length + 3 }, ?_,
        by simp [OffSp.chunks, toksOf], rfl, ?_⟩
      · unfold offCore
        simp only [tok, hi, g0, g1, g2, bind, Option.bind, h4, hlt, beq_self_eq_true, Bool.and_self, if_true,
          Bool.false_eq_true, if_false, ha, hb, pure, OffSp.val]
      · apply cov_step hc (by simp [hi]) (by intro k hk; simp [hk])
        intro k h1 h2 _
        simp only [hi] at h1
        have : k = pre.length ∨ k = pre.length + 1 ∨ k = pre.length + 2 := by simp at h2; omega
        rcases this with e | e | e
        · left; simp [e]
        · right; right; rw [e]; exact g1
        · left; simp [e]

theorem parseOffset_spec (o : Off) (l : Array String) (pre post : List String) (st : St)
    (hl : l.toList = pre ++ (toksOf o.chunks ++ post)) (hi : st.i = pre.length) (hok : o.sp.Ok)
    (hp : post.head? ≠ some ":") (hc : Cov l st) :
    ∃ st', parseOffset l st = some (o.val, st') ∧
      st'.i = pre.length + (toksOf o.chunks).length ∧ st'.res = st.res ∧ Cov l st' := by
  obtain ⟨sign, sp⟩ := o
  have hdt : ∀ t : String, (toksOf sp.chunks)[0]? = some t → (t == "+" || t == "-") = false := by
    intro t ht
    have hd : IsDig t := by
      cases sp with
      | h n => simp [OffSp.chunks, numC, toksOf] at ht; rw [← ht]; exact n.isDig hok.1
      | hhmm t' a b => simp [OffSp.chunks, toksOf] at ht; rw [← ht]; exact hok.1
      | colon a b => simp [OffSp.chunks, numC, toksOf] at ht; rw [← ht]; exact a.isDig hok.1
    have := digTok_of t hd
    simp [this.plus, this.minus]
  cases sign with
  | none =>
      simp only [Off.chunks, signChunks, List.nil_append] at hl ⊢
      obtain ⟨st', h1, h2, h3, h4⟩ := offCore_spec sp l pre post st (-1) hl hi hok hp hc
      refine ⟨st', ?_, h2, h3, h4⟩
      rw [parseOffset_eq, hi]
      have g0 := get_at hl 0
      simp only [Nat.add_zero] at g0
      have hne : (toksOf sp.chunks ++ post)[0]? = (toksOf sp.chunks)[0]? := by
        cases sp <;> simp [OffSp.chunks, toksOf]
      rw [hne] at g0
      cases ht : (toksOf sp.chunks)[0]? with
      | none => cases sp <;> simp [OffSp.chunks, toksOf] at ht
      | some t =>
          rw [ht] at g0
          simp only [g0, hdt t ht, Bool.false_eq_true, if_false]
          rw [h1]; simp [Off.val]
  | some bsign =>
      have hsgn : toksOf (signChunks (some bsign)) = [if bsign then "+" else "-"] := by cases bsign <;> rfl
      simp only [Off.chunks, toksOf_append, hsgn, List.cons_append, List.nil_append, List.length_cons] at hl ⊢
      have g0 := get_at hl 0
      simp only [List.getElem?_cons_zero, Nat.add_zero] at g0
      have hl' : l.toList = (pre ++ [if bsign then "+" else "-"]) ++ (toksOf sp.chunks ++ post) := by
        rw [hl]; simp
      have hc' : Cov l { st with used := st.used ++ [st.i], i := st.i + 1 } := by
        apply cov_step hc (by simp) (by intro k hk; simp [hk])
        intro k h1 h2 _
        have : k = st.i := by simp at h2; omega
        left; simp [this]
      obtain ⟨st', h1, h2, h3, h4⟩ := offCore_spec sp l (pre ++ [if bsign then "+" else "-"]) post
        { st with used := st.used ++ [st.i], i := st.i + 1 } (if bsign then -1 else 1) hl' (by simp [hi]) hok hp hc'
      refine ⟨st', ?_, by rw [h2]; simp; omega, h3, h4⟩
      rw [parseOffset_eq, hi, g0]
      cases bsign with
      | true => simp only [if_true, beq_self_eq_true, Bool.true_or]; rw [← hi]; simpa [Off.val] using h1
      | false =>
          have : ("-" == "+") = false := by decide
          simp only [Bool.false_eq_true, if_false, this, beq_self_eq_true, Bool.or_true, if_true]
          rw [← hi]; simpa [Off.val] using h1

end TzStr
