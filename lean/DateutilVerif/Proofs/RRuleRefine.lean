/-
  Proofs/RRuleRefine.lean — the refinement skeleton of `iter_eq_spec`, independent of the
  frequency: if, period by period, the model's candidate list is the specification's `sel a k`
  and `advance` leads from the cursor of period `k` to the cursor of period `k+1`, then the values
  yielded in `n` periods are exactly `Spec.RRule.occ a n` (DTSTART / UNTIL / COUNT cuts included).
-/
import DateutilVerif.Proofs.RRuleEmit
import DateutilVerif.Spec.RRule

namespace RRule
open Spec.RRule (Cut push)

/-- rule and argument set agree on what the cuts look at -/
structure CutsAgree (a : Args) (r : Rule) : Prop where
  dtstart : r.dtstart = { a.dtstart with us := 0 }
  untilDT : r.untilDT = a.untilDT
  count : r.count = a.count

theorem push_done (a : Args) (lo hi : Int) (c : Cut) (h : c.done = true) (l : List Inst) :
    l.foldl (push a lo hi) c = c := by
  induction l with
  | nil => rfl
  | cons x xs ih =>
    simp only [List.foldl_cons]
    rw [show push a lo hi c x = c by unfold push; rw [if_pos h]]; exact ih

/-- remaining count of the model when the specification has emitted `n` items -/
def remaining (a : Args) (n : Int) : Option Int := a.count.map (· - n)

/-- what one period does on both sides -/
structure PeriodAgree (a : Args) (c c' : Cut) (em : List Inst × Option Status × Option Int) : Prop where
  out : c'.out = em.1.reverse ++ c.out
  n : c'.n = c.n + em.1.length
  running : em.2.1 = none → c'.done = false ∧ em.2.2 = remaining a c'.n
  stopped : em.2.1 ≠ none → c'.done = true

/-- one period: `emit` (model) against the fold of `push` (specification) -/
theorem emit_push (a : Args) (r : Rule) (ag : CutsAgree a r) (hi : Int) :
    ∀ (l : List Inst) (c : Cut), c.done = false → (∀ x ∈ l, 0 ≤ x.ord ∧ x.ord ≤ hi) →
    PeriodAgree a c (l.foldl (push a 0 hi) c) (emit r l (remaining a c.n)) := by
  intro l
  induction l with
  | nil => intro c hc _; exact ⟨by simp [emit], by simp [emit], by intro _; exact ⟨hc, rfl⟩, by simp [emit]⟩
  | cons x xs ih =>
    intro c hc hb
    have hx := hb x (List.mem_cons_self ..)
    have hxs : ∀ y ∈ xs, 0 ≤ y.ord ∧ y.ord ≤ hi := fun y hy => hb y (List.mem_cons_of_mem _ hy)
    simp only [List.foldl_cons]
    have hau : Spec.RRule.afterUntil a x = afterUntil r x := by
      unfold afterUntil Spec.RRule.afterUntil; rw [ag.untilDT]; cases a.untilDT <;> simp
    have hst : Spec.RRule.startMicros a = r.dtstart.toMicros := by
      unfold Spec.RRule.startMicros; rw [ag.dtstart]
    unfold emit
    by_cases h1 : afterUntil r x = true
    · -- UNTIL passed: both sides are finished
      rw [if_pos h1]
      have hp : push a 0 hi c x = { c with done := true } := by
        unfold push; rw [if_neg (by simp [hc]), hau, if_pos h1]
      rw [hp, push_done a 0 hi _ rfl xs]
      exact ⟨by simp, by simp, (by intro h; cases h), (by intro _; rfl)⟩
    · rw [if_neg h1]
      by_cases h2 : x.micros ≥ r.dtstart.toMicros
      · rw [if_pos h2]
        cases hcnt : a.count with
        | none =>
          have hrem : ∀ n, remaining a n = none := by intro n; unfold remaining; rw [hcnt]; rfl
          rw [hrem]; dsimp only
          have hp : push a 0 hi c x = { out := x :: c.out, n := c.n + 1, done := false } := by
            unfold push
            rw [if_neg (by simp [hc]), hau, if_neg h1, hst, if_neg (by omega)]
            unfold Spec.RRule.countDone; rw [hcnt]; dsimp only
            rw [if_neg (by simp), if_neg (by omega), if_pos hx.1]
          rw [hp]
          have := ih { out := x :: c.out, n := c.n + 1, done := false } rfl hxs
          rw [hrem] at this
          exact ⟨by rw [this.out]; simp, by rw [this.n]; simp only [List.length_cons]; push_cast; omega,
                 by intro h; have := this.running h; rw [hrem]; rw [hrem] at this; exact this,
                 this.stopped⟩
        | some cnt =>
          have hrem : ∀ n, remaining a n = some (cnt - n) := by intro n; unfold remaining; rw [hcnt]; rfl
          rw [hrem]; dsimp only
          by_cases h3 : cnt - c.n - 1 < 0
          · rw [if_pos h3]
            have hp : push a 0 hi c x = { c with done := true } := by
              unfold push
              rw [if_neg (by simp [hc]), hau, if_neg h1, hst, if_neg (by omega)]
              unfold Spec.RRule.countDone; rw [hcnt]; dsimp only
              rw [if_pos (by simp; omega)]
            rw [hp, push_done a 0 hi _ rfl xs]
            exact ⟨by simp, by simp, (by intro h; cases h), (by intro _; rfl)⟩
          · rw [if_neg h3]
            have hp : push a 0 hi c x = { out := x :: c.out, n := c.n + 1, done := false } := by
              unfold push
              rw [if_neg (by simp [hc]), hau, if_neg h1, hst, if_neg (by omega)]
              unfold Spec.RRule.countDone; rw [hcnt]; dsimp only
              rw [if_neg (by simp; omega), if_neg (by omega), if_pos hx.1]
            rw [hp]
            have := ih { out := x :: c.out, n := c.n + 1, done := false } rfl hxs
            rw [hrem] at this
            have e : cnt - (c.n + 1) = cnt - c.n - 1 := by omega
            dsimp only at this
            rw [e] at this
            exact ⟨by rw [this.out]; simp, by rw [this.n]; simp only [List.length_cons]; push_cast; omega,
                   this.running, this.stopped⟩
      · rw [if_neg h2]
        have hp : push a 0 hi c x = c := by
          unfold push
          rw [if_neg (by simp [hc]), hau, if_neg h1, hst, if_pos (by omega)]
        rw [hp]
        exact ih c hc hxs

/-! ### the whole iteration -/

/-- the specification's fold over the selected periods `k, k+1, …, k+n−1` -/
def specFrom (a : Args) (hi : Int) (c : Cut) (k n : Nat) : Cut :=
  (List.range' k n).foldl (fun c (j : Nat) => (Spec.RRule.sel a (j : Int)).foldl (push a 0 hi) c) c

theorem specFrom_done (a : Args) (hi : Int) (c : Cut) (h : c.done = true) : ∀ (n k : Nat),
    specFrom a hi c k n = c := by
  intro n
  induction n with
  | zero => intro k; rfl
  | succ n ih =>
    intro k
    unfold specFrom
    rw [List.range'_succ, List.foldl_cons, push_done a 0 hi c h]
    exact ih (k + 1)

/-- instants before the start that are not after UNTIL do not move the specification's cut -/
theorem push_pre (a : Args) (lo hi : Int) (c : Cut) (pre : List Inst)
    (h : ∀ x ∈ pre, x.micros < Spec.RRule.startMicros a ∧ Spec.RRule.afterUntil a x = false) :
    pre.foldl (push a lo hi) c = c := by
  induction pre with
  | nil => rfl
  | cons x xs ih =>
    simp only [List.foldl_cons]
    have hx := h x (List.mem_cons_self ..)
    have : push a lo hi c x = c := by
      unfold push
      by_cases hd : c.done = true
      · rw [if_pos hd]
      · rw [if_neg hd, hx.2, if_neg (by simp), if_pos hx.1]
    rw [this]
    exact ih (fun y hy => h y (List.mem_cons_of_mem _ hy))

/-- period-by-period agreement of model and specification for the first `N` periods:
    `Good k st` = "`st` is the model state at the start of period `k`" (count excluded) -/
structure Simulation (a : Args) (r : Rule) (N : Nat) (Good : Nat → State → Prop) : Prop where
  agree : CutsAgree a r
  results : ∀ k st, k < N → Good k st → ∃ fl pre cands,
    periodResults r st = .ok (cands, none, fl) ∧ Spec.RRule.sel a (k : Int) = pre ++ cands ∧
    (∀ x ∈ pre, x.micros < Spec.RRule.startMicros a ∧ Spec.RRule.afterUntil a x = false) ∧
    (∀ x ∈ cands, 0 ≤ x.ord ∧ x.ord ≤ Cal.maxOrdinal)
  next : ∀ k st fl c, k + 1 < N → Good k st →
    ∃ st', advance r { st with count := c } fl = .ok st' ∧ Good (k + 1) st'

theorem run_refines {a : Args} {r : Rule} {N : Nat} {Good : Nat → State → Prop}
    (sim : Simulation a r N Good) : ∀ (n k : Nat) (st : State) (c : Cut),
    Good k st → k + n ≤ N → c.done = false → st.count = remaining a c.n →
    (specFrom a Cal.maxOrdinal c k n).out = (run r n st).1.reverse ++ c.out := by
  intro n
  induction n with
  | zero => intro k st c _ _ _ _; simp [specFrom, run]
  | succ n ih =>
    intro k st c hg hk hc hcnt
    obtain ⟨fl, pre, cands, hres, hsel, hpre, hbnd⟩ := sim.results k st (by omega) hg
    have pa := emit_push a r sim.agree Cal.maxOrdinal cands c hc hbnd
    rw [← hcnt] at pa
    unfold specFrom
    rw [List.range'_succ, List.foldl_cons, hsel, List.foldl_append, push_pre a 0 Cal.maxOrdinal c pre hpre]
    generalize hc' : cands.foldl (push a 0 Cal.maxOrdinal) c = c' at pa
    have hfold : (List.range' (k + 1) n).foldl
        (fun c (j : Nat) => (Spec.RRule.sel a (j : Int)).foldl (push a 0 Cal.maxOrdinal) c) c' =
        specFrom a Cal.maxOrdinal c' (k + 1) n := rfl
    rw [hfold]
    unfold run step
    rw [hres]
    dsimp only
    generalize hem : emit r cands st.count = em at pa
    cases hs : em.2.1 with
    | some s =>
      dsimp only
      rw [specFrom_done a _ c' (pa.stopped (by rw [hs]; simp))]
      exact pa.out
    | none =>
      dsimp only
      obtain ⟨hdone, hrem⟩ := pa.running hs
      by_cases hn : n = 0
      · subst hn
        have : specFrom a Cal.maxOrdinal c' (k + 1) 0 = c' := rfl
        rw [this, pa.out]
        cases advance r { st with count := em.2.2 } fl with
        | error s => rfl
        | ok st' => simp [run]
      · obtain ⟨st', hadv, hg'⟩ := sim.next k st fl em.2.2 (by omega) hg
        rw [hadv]
        dsimp only
        have hc2 : st'.count = remaining a c'.n := by
          rw [advance_count r _ st' fl hadv]; exact hrem
        rw [ih (k + 1) st' c' hg' (by omega) hdone hc2, pa.out]
        simp

/-- **refinement**: under a period-by-period simulation the model yields exactly the specification's
    recurrence set of the first `n` selected periods -/
theorem iter_refines {a : Args} {r : Rule} {N : Nat} {Good : Nat → State → Prop}
    (sim : Simulation a r N Good) (st0 : State) (hinit : init r = .ok st0) (hg : Good 0 st0)
    (hc0 : st0.count = r.count) (n : Nat) (hn : n ≤ N) :
    (iter r n).1 = Spec.RRule.occ a n := by
  unfold iter; rw [hinit]; dsimp only
  unfold Spec.RRule.occ
  have hcnt : st0.count = remaining a 0 := by
    rw [hc0, sim.agree.count]; unfold remaining; cases a.count <;> simp
  have := run_refines sim n 0 st0 { out := [], n := 0, done := false } hg (by omega) rfl hcnt
  unfold specFrom at this
  rw [List.range_eq_range']
  dsimp only
  rw [this]; simp

end RRule
