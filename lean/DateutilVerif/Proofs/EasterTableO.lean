/- Proofs/EasterTableO.lean — `decide +kernel` over every year 1583..4099 (no sampling). -/
import DateutilVerif.Proofs.EasterDefs

namespace C19
theorem tableO : ∀ k : Fin 2517, orthodoxOK (1583 + (k.val : Int)) = true := by decide +kernel
end C19
