/-
  Proofs/RRuleLists.lean — membership / order facts for the small list helpers of the model
  (`insertBy`, `sortBy`, `dedup`, `sortedSet`).
-/
import DateutilVerif.Model.RRule

namespace RRule

theorem mem_insertBy {α} (lt : α → α → Bool) (x y : α) (l : List α) :
    y ∈ insertBy lt x l ↔ y = x ∨ y ∈ l := by
  induction l with
  | nil => simp [insertBy]
  | cons z zs ih =>
    unfold insertBy
    split
    · simp only [List.mem_cons, ih]; constructor <;> (intro h; rcases h with h | h | h <;> simp [h])
    · simp only [List.mem_cons]

theorem mem_sortBy {α} (lt : α → α → Bool) (y : α) (l : List α) : y ∈ sortBy lt l ↔ y ∈ l := by
  unfold sortBy
  induction l with
  | nil => simp
  | cons z zs ih => simp only [List.foldr_cons, mem_insertBy, ih, List.mem_cons]

theorem mem_dedup_aux {α} [BEq α] [LawfulBEq α] (y : α) : ∀ (l acc : List α),
    y ∈ dedup acc l ↔ y ∈ acc ∨ y ∈ l := by
  intro l
  induction l with
  | nil => intro acc; simp [dedup]
  | cons z zs ih =>
    intro acc
    unfold dedup
    split
    · rename_i hc
      rw [ih]
      have hz : z ∈ acc := List.contains_iff_mem.mp hc
      constructor
      · intro h; rcases h with h | h
        · exact Or.inl h
        · exact Or.inr (List.mem_cons_of_mem _ h)
      · intro h; rcases h with h | h
        · exact Or.inl h
        · rcases List.mem_cons.mp h with h | h
          · subst h; exact Or.inl hz
          · exact Or.inr h
    · rw [ih]
      simp only [List.mem_cons]
      constructor
      · intro h; rcases h with (h | h) | h
        · exact Or.inr (Or.inl h)
        · exact Or.inl h
        · exact Or.inr (Or.inr h)
      · intro h; rcases h with h | h | h
        · exact Or.inl (Or.inr h)
        · exact Or.inl (Or.inl h)
        · exact Or.inr h

theorem mem_dedup {α} [BEq α] [LawfulBEq α] (y : α) (l : List α) : y ∈ dedup [] l ↔ y ∈ l := by
  rw [mem_dedup_aux]; simp

theorem mem_sortedSet (y : Int) (l : List Int) : y ∈ sortedSet l ↔ y ∈ l := by
  unfold sortedSet; rw [mem_sortBy, mem_dedup]

theorem contains_sortedSet (y : Int) (l : List Int) : (sortedSet l).contains y = l.contains y := by
  rw [Bool.eq_iff_iff]; simp only [List.contains_iff_mem, mem_sortedSet]

theorem isEmpty_of_mem_iff {α} (l l' : List α) (h : ∀ x, x ∈ l ↔ x ∈ l') : l.isEmpty = l'.isEmpty := by
  cases l with
  | nil =>
    cases l' with
    | nil => rfl
    | cons b bs => exact absurd ((h b).mpr (List.mem_cons_self ..)) (by simp)
  | cons a as =>
    cases l' with
    | nil => exact absurd ((h a).mp (List.mem_cons_self ..)) (by simp)
    | cons b bs => rfl

theorem isEmpty_sortedSet (l : List Int) : (sortedSet l).isEmpty = l.isEmpty :=
  isEmpty_of_mem_iff _ _ (fun x => mem_sortedSet x l)

theorem truthy_eq_not_isEmpty {α} (l : List α) : truthy (some l) = !l.isEmpty := by
  cases l <;> rfl

theorem divmod_spec (a b : Int) (hb : 0 < b) :
    (Py.divmod a b).1 * b + (Py.divmod a b).2 = a ∧ 0 ≤ (Py.divmod a b).2 ∧ (Py.divmod a b).2 < b := by
  unfold Py.divmod
  dsimp only
  rw [Py.fdiv_pos a hb, Py.fmod_pos a hb]
  have h1 := Int.ediv_mul_add_emod a b
  have h2 := Int.emod_nonneg a (by omega : b ≠ 0)
  have h3 := Int.emod_lt_of_pos a hb
  exact ⟨h1, h2, h3⟩

end RRule
