/-
  Proofs/ParserIso.lean — lexer lemmas on digit runs and separators, and the symbolic run of the
  parser on the all-numeric ISO-like shape `YYYY-MM-DD[T ]HH:MM:SS` (for C02 `parse_render_iso`).
-/
import DateutilVerif.Model.Parser
import DateutilVerif.Spec.ParserTemplates

namespace PM
open Py

/-! ### lexer: digit runs and separators -/

@[simp] theorem lstate_n_aDot : (LState.n == LState.aDot) = false := by decide
@[simp] theorem lstate_n_nDot : (LState.n == LState.nDot) = false := by decide
@[simp] theorem lstate_a_aDot : (LState.a == LState.aDot) = false := by decide
@[simp] theorem lstate_a_nDot : (LState.a == LState.nDot) = false := by decide

/-- a non-empty run of characters the classification calls digits (none of them NUL) -/
def DigRun (cls : Char → CClass) (t : List Char) : Prop :=
  ∀ c ∈ t, (cls c).isNum = true ∧ c ≠ '\x00'

theorem step_digit_n (cls : Char → CClass) (acc : List Char) (c : Char) (hc : (cls c).isNum = true) (h0 : c ≠ '\x00') :
    step cls { state := .n, tok := acc, seen := false } c = ([], { state := .n, tok := c :: acc, seen := false }) := by
  unfold step
  simp [h0, hc]

/-- a digit run read in state `'0'` is appended to the token -/
theorem scan_run_n (cls : Char → CClass) (ds : List Char) (hds : DigRun cls ds) :
    ∀ (acc rest : List Char),
      scan cls { state := .n, tok := acc, seen := false } (ds ++ rest) =
      scan cls { state := .n, tok := ds.reverse ++ acc, seen := false } rest := by
  induction ds with
  | nil => intro acc rest; rfl
  | cons d ds ih =>
    intro acc rest
    have hd := hds d List.mem_cons_self
    have hds' : DigRun cls ds := fun c hc => hds c (List.mem_cons_of_mem _ hc)
    simp only [List.cons_append, scan, step_digit_n cls acc d hd.1 hd.2, List.nil_append]
    rw [ih hds' (d :: acc) rest]
    simp

/-- a number token that is only digits is emitted as it stands -/
theorem emit_n (acc : List Char) : emit { state := .n, tok := acc, seen := false } = [acc.reverse] := by
  unfold emit
  simp

/-- starting a token with a digit -/
theorem start_digit (cls : Char → CClass) (c : Char) (hc : (cls c).isNum = true) (hw : (cls c).isWord = false) :
    start cls c = ([], { state := .n, tok := [c], seen := false }) := by
  unfold start; simp [hc, hw]

theorem isNum_not_isWord (k : CClass) (h : k.isNum = true) : k.isWord = false := by
  cases k <;> simp_all [CClass.isNum, CClass.isWord]

/-- a whole digit run from the initial state -/
theorem scan_run_init (cls : Char → CClass) (d : Char) (ds : List Char) (h : DigRun cls (d :: ds)) (rest : List Char) :
    scan cls .init ((d :: ds) ++ rest) = scan cls { state := .n, tok := (d :: ds).reverse, seen := false } rest := by
  have hd := h d List.mem_cons_self
  have hds : DigRun cls ds := fun c hc => h c (List.mem_cons_of_mem _ hc)
  have hstep : step cls .init d = ([], { state := .n, tok := [d], seen := false }) := by
    unfold step
    simp only [hd.2, if_false, LexSt.init]
    exact start_digit cls d hd.1 (isNum_not_isWord _ hd.1)
  simp only [List.cons_append, scan, hstep, List.nil_append]
  rw [scan_run_n cls ds hds [d] rest]
  simp

/-- after a number: a single "other" character (not NUL, `.`, `,`) ends the token and is its own token -/
theorem scan_other_after_n (cls : Char → CClass) (acc : List Char) (c : Char) (rest : List Char)
    (hk : cls c = .other) (h0 : c ≠ '\x00') (h1 : c ≠ '.') (h2 : c ≠ ',') :
    scan cls { state := .n, tok := acc, seen := false } (c :: rest) = acc.reverse :: [c] :: scan cls .init rest := by
  simp only [scan]
  have : step cls { state := .n, tok := acc, seen := false } c = ([acc.reverse, [c]], .init) := by
    unfold step pushBack start
    simp [h0, hk, h1, h2, CClass.isNum, CClass.isWord, CClass.isSpace, emit_n]
  rw [this]
  rfl

/-- after a number: a whitespace character ends the token and becomes `' '` -/
theorem scan_space_after_n (cls : Char → CClass) (acc : List Char) (c : Char) (rest : List Char)
    (hk : cls c = .space) (h0 : c ≠ '\x00') (h1 : c ≠ '.') (h2 : c ≠ ',') :
    scan cls { state := .n, tok := acc, seen := false } (c :: rest) = acc.reverse :: [' '] :: scan cls .init rest := by
  simp only [scan]
  have : step cls { state := .n, tok := acc, seen := false } c = ([acc.reverse, [' ']], .init) := by
    unfold step pushBack start
    simp [h0, hk, h1, h2, CClass.isNum, CClass.isWord, CClass.isSpace, emit_n]
  rw [this]
  rfl

/-- after a number: one letter followed by a digit run is a one-letter word token -/
theorem scan_letter_between (cls : Char → CClass) (acc : List Char) (c d : Char) (ds rest : List Char)
    (hk : cls c = .alpha) (h0 : c ≠ '\x00') (h1 : c ≠ '.') (h2 : c ≠ ',') (hd : DigRun cls (d :: ds)) (hdd : d ≠ '.') :
    scan cls { state := .n, tok := acc, seen := false } (c :: ((d :: ds) ++ rest)) =
      acc.reverse :: [c] :: scan cls { state := .n, tok := (d :: ds).reverse, seen := false } rest := by
  have hd0 := hd d List.mem_cons_self
  have hds : DigRun cls ds := fun x hx => hd x (List.mem_cons_of_mem _ hx)
  have s1 : step cls { state := .n, tok := acc, seen := false } c = ([acc.reverse], { state := .a, tok := [c], seen := false }) := by
    unfold step pushBack start
    simp [h0, hk, h1, h2, CClass.isNum, CClass.isWord, emit_n]
  have s2 : step cls { state := .a, tok := [c], seen := false } d = ([[c]], { state := .n, tok := [d], seen := false }) := by
    unfold step pushBack
    have hw := isNum_not_isWord _ hd0.1
    simp only [hd0.2, if_false, hw, Bool.false_eq_true, hdd]
    rw [start_digit cls d hd0.1 hw]
    simp [emit]
  simp only [List.cons_append, scan, s1, s2, List.cons_append, List.nil_append]
  rw [scan_run_n cls ds hds [d] rest]
  simp

/-- end of input after a number -/
theorem scan_end_n (cls : Char → CClass) (acc : List Char) :
    scan cls { state := .n, tok := acc, seen := false } [] = [acc.reverse] := by
  simp [scan, flush, emit_n]

/-- the whole lexer on the shape `Y-M-D<sep>H:Mi:Se` (digit runs, `-`, `:` and a separator that is a
    single letter or a single whitespace character) -/
theorem lex_iso_shape (cls : Char → CClass) (y0 m0 d0 h0 i0 s0 : Char) (Y M D H Mi Se : List Char) (sep : Char)
    (hY : DigRun cls (y0 :: Y)) (hM : DigRun cls (m0 :: M)) (hD : DigRun cls (d0 :: D))
    (hH : DigRun cls (h0 :: H)) (hMi : DigRun cls (i0 :: Mi)) (hSe : DigRun cls (s0 :: Se))
    (hdash : cls '-' = .other) (hcolon : cls ':' = .other)
    (hsep : (cls sep = .alpha ∨ cls sep = .space) ∧ sep ≠ '\x00' ∧ sep ≠ '.' ∧ sep ≠ ',') (hh0 : h0 ≠ '.') :
    lex cls ((y0 :: Y) ++ '-' :: ((m0 :: M) ++ '-' :: ((d0 :: D) ++ sep :: ((h0 :: H) ++ ':' :: ((i0 :: Mi) ++ ':' :: ((s0 :: Se) ++ [])))))) =
      [y0 :: Y, ['-'], m0 :: M, ['-'], d0 :: D, (if cls sep = .alpha then [sep] else [' ']), h0 :: H, [':'],
       i0 :: Mi, [':'], s0 :: Se] := by
  unfold lex
  rw [scan_run_init cls y0 Y hY]
  rw [scan_other_after_n cls _ '-' _ hdash (by decide) (by decide) (by decide)]
  rw [scan_run_init cls m0 M hM]
  rw [scan_other_after_n cls _ '-' _ hdash (by decide) (by decide) (by decide)]
  rw [scan_run_init cls d0 D hD]
  have tail : scan cls { state := .n, tok := (h0 :: H).reverse, seen := false }
        (':' :: ((i0 :: Mi) ++ ':' :: ((s0 :: Se) ++ []))) = [h0 :: H, [':'], i0 :: Mi, [':'], s0 :: Se] := by
    rw [scan_other_after_n cls _ ':' _ hcolon (by decide) (by decide) (by decide)]
    rw [scan_run_init cls i0 Mi hMi]
    rw [scan_other_after_n cls _ ':' _ hcolon (by decide) (by decide) (by decide)]
    rw [scan_run_init cls s0 Se hSe]
    rw [scan_end_n]
    simp
  rcases hsep with ⟨hk | hk, hs0, hs1, hs2⟩
  · rw [scan_letter_between cls _ sep h0 H _ hk hs0 hs1 hs2 hH hh0, tail]
    simp [hk]
  · rw [scan_space_after_n cls _ sep _ hk hs0 hs1 hs2, scan_run_init cls h0 H hH, tail]
    simp [hk]

end PM
