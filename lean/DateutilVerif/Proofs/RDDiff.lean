/-
  Proofs/RDDiff.lean — `relativedelta(dt1, dt2)`: the month estimate, the overshoot loop (one
  iteration always suffices) and the inverse law.
-/
import DateutilVerif.Proofs.RDApply

namespace RDP
open RDM
set_option linter.unusedSimpArgs false

theorem setMonths_fields (k : Int) :
    (Gen.setMonths empty k).months = (carry k 11 12).1 ∧ (Gen.setMonths empty k).years = (carry k 11 12).2 := by
  unfold Gen.setMonths carry; simp only []
  exact ⟨trivial, trivial⟩

theorem setMonths_monthsOnly (k : Int) :
    MonthsOnly (Gen.setMonths empty k) ∧
    12 * (Gen.setMonths empty k).years + (Gen.setMonths empty k).months = k := by
  obtain ⟨e1, e2⟩ := setMonths_fields k
  have f := carry_facts k 11 12 (by simp) (by decide)
  refine ⟨?_, by rw [e1, e2]; omega⟩
  unfold MonthsOnly
  rw [e1]
  refine ⟨?_, ?_, ?_, ?_, ?_, ?_, ?_, ?_, ?_, ?_, ?_, ?_, ?_, ?_, ?_, f.1.1, f.1.2⟩ <;>
    (unfold Gen.setMonths empty; simp only [])

/-- the calendar part of validity without the year window -/
def ValidNoYear (t : DT) : Prop :=
  Cal.ValidYMD t.y t.m t.d ∧ 0 ≤ t.hh ∧ t.hh ≤ 23 ∧ 0 ≤ t.mm ∧ t.mm ≤ 59 ∧ 0 ≤ t.ss ∧ t.ss ≤ 59 ∧
  0 ≤ t.us ∧ t.us ≤ 999999

theorem validNoYear_of_valid (t : DT) (h : t.Valid) : ValidNoYear t := ⟨h.1.2.2, h.2⟩

/-- a datetime in an earlier month is an earlier instant -/
theorem toMicros_lt_of_month_lt (s t : DT) (hs : ValidNoYear s) (ht : ValidNoYear t)
    (h : 12 * s.y + s.m < 12 * t.y + t.m) : s.toMicros < t.toMicros := by
  obtain ⟨hs1, a1, a2, a3, a4, a5, a6, a7, a8⟩ := hs
  obtain ⟨ht1, b1, b2, b3, b4, b5, b6, b7, b8⟩ := ht
  have hlex : s.y < t.y ∨ (s.y = t.y ∧ (s.m < t.m ∨ (s.m = t.m ∧ s.d < t.d))) := by
    have := hs1.1; have := hs1.2.1; have := ht1.1; have := ht1.2.1
    omega
  have := Cal.toOrdinal_lt_of_lex s.y s.m s.d t.y t.m t.d hs1 ht1 hlex
  unfold DT.toMicros DT.ordinal DT.timeMicros DT.usPerDay
  omega

theorem shiftDT_facts (t : DT) (k : Int) (h : ValidNoYear t) :
    ValidNoYear (shiftDT t k) ∧
    12 * (shiftDT t k).y + ((shiftDT t k).m - 1) = 12 * t.y + (t.m - 1) + k := by
  obtain ⟨⟨m1, m2, d1, d2⟩, ht⟩ := h
  have hb := Cal.daysInMonth_bounds ((12 * t.y + (t.m - 1) + k) / 12) ((12 * t.y + (t.m - 1) + k) % 12 + 1)
  unfold shiftDT ValidNoYear Cal.ValidYMD
  simp only []
  refine ⟨⟨⟨by omega, by omega, by omega, by omega⟩, ht⟩, by omega⟩

theorem shiftDT_zero (t : DT) (h : ValidNoYear t) : shiftDT t 0 = t := by
  obtain ⟨⟨m1, m2, d1, d2⟩, _⟩ := h
  unfold shiftDT
  have e1 : (12 * t.y + (t.m - 1) + 0) / 12 = t.y := by omega
  have e2 : (12 * t.y + (t.m - 1) + 0) % 12 + 1 = t.m := by omega
  rw [e1, e2, Int.min_eq_left d2]

/-- adding a months-only delta built by `_set_months` -/
theorem applyTo_setMonths (k : Int) (x : Temporal) (hx : x.Valid)
    (hy : 1 ≤ (12 * x.t.y + (x.t.m - 1) + k) / 12 ∧ (12 * x.t.y + (x.t.m - 1) + k) / 12 ≤ 9999) :
    applyTo (Gen.setMonths empty k) x = .ok { kind := x.kind, t := shiftDT x.t k } := by
  obtain ⟨hmo, hk⟩ := setMonths_monthsOnly k
  have := applyTo_months_only (Gen.setMonths empty k) x hmo hx (by rw [hk]; exact hy)
  rw [hk] at this
  exact this


theorem diffLoop_down (key : Temporal → Int) (hkey : ∀ x, key x = x.t.toMicros)
    (n : Nat) (dt1 dt2 : Temporal) (h1 : dt1.t.Valid) (h2 : dt2.Valid)
    (hge : ¬ dt1.t.toMicros < dt2.t.toMicros) :
    ∃ k', diffLoop key (n + 1) false dt1 dt2 ((dt1.t.y - dt2.t.y) * 12 + (dt1.t.m - dt2.t.m))
              ⟨dt2.kind, shiftDT dt2.t ((dt1.t.y - dt2.t.y) * 12 + (dt1.t.m - dt2.t.m))⟩
            = some (.ok (k', ⟨dt2.kind, shiftDT dt2.t k'⟩)) ∧
      0 ≤ k' ∧ (shiftDT dt2.t k').Valid ∧ (shiftDT dt2.t k').toMicros ≤ dt1.t.toMicros ∧
      dt1.t.toMicros < (shiftDT dt2.t (k' + 1)).toMicros := by
  generalize hk0 : (dt1.t.y - dt2.t.y) * 12 + (dt1.t.m - dt2.t.m) = k0
  have v1 := validNoYear_of_valid _ h1
  have v2 := validNoYear_of_valid _ h2.1
  have y1 := h1.1.1; have y1' := h1.1.2.1; have y2 := h2.1.1.1; have y2' := h2.1.1.2.1
  have m1 := v1.1.1; have m1' := v1.1.2.1; have m2 := v2.1.1; have m2' := v2.1.2.1
  have sf := fun k => shiftDT_facts dt2.t k v2
  by_cases hov : dt1.t.toMicros < (shiftDT dt2.t k0).toMicros
  · -- overshoot: one step back
    have hk1 : 1 ≤ k0 := by
      apply Classical.byContradiction; intro hc
      by_cases hz : k0 = 0
      · rw [hz, shiftDT_zero _ v2] at hov; exact hge hov
      · exact hge (toMicros_lt_of_month_lt _ _ v1 v2 (by omega))
    have hyr : 1 ≤ (12 * dt2.t.y + (dt2.t.m - 1) + (k0 - 1)) / 12 ∧ (12 * dt2.t.y + (dt2.t.m - 1) + (k0 - 1)) / 12 ≤ 9999 := by
      omega
    have hvalid := shiftDT_valid dt2.t (k0 - 1) h2.1 hyr
    have hlt : (shiftDT dt2.t (k0 - 1)).toMicros < dt1.t.toMicros :=
      toMicros_lt_of_month_lt _ _ (sf (k0 - 1)).1 v1 (by have := (sf (k0 - 1)).2; omega)
    refine ⟨k0 - 1, ?_, by omega, hvalid, by omega, by rw [show k0 - 1 + 1 = k0 by omega]; exact hov⟩
    rw [diffLoop]
    simp only [hkey, Bool.false_eq_true, ↓reduceIte, hov]
    rw [applyTo_setMonths (k0 - 1) dt2 h2 hyr]
    simp only []
    cases n with
    | zero => rw [diffLoop]; simp only [hkey, Bool.false_eq_true, ↓reduceIte]; rw [if_neg (by omega)]
    | succ n => rw [diffLoop]; simp only [hkey, Bool.false_eq_true, ↓reduceIte]; rw [if_neg (by omega)]
  · have hyr : 1 ≤ (12 * dt2.t.y + (dt2.t.m - 1) + k0) / 12 ∧ (12 * dt2.t.y + (dt2.t.m - 1) + k0) / 12 ≤ 9999 := by
      omega
    have hk0' : 0 ≤ k0 := by
      apply Classical.byContradiction; intro hc
      exact hge (toMicros_lt_of_month_lt _ _ v1 v2 (by omega))
    refine ⟨k0, ?_, hk0', shiftDT_valid dt2.t k0 h2.1 hyr, by omega, ?_⟩
    · rw [diffLoop]
      simp only [hkey, Bool.false_eq_true, ↓reduceIte, hov]
    · exact toMicros_lt_of_month_lt _ _ v1 (sf (k0 + 1)).1 (by have := (sf (k0 + 1)).2; omega)

theorem diffLoop_up (key : Temporal → Int) (hkey : ∀ x, key x = x.t.toMicros)
    (n : Nat) (dt1 dt2 : Temporal) (h1 : dt1.t.Valid) (h2 : dt2.Valid)
    (hlt0 : dt1.t.toMicros < dt2.t.toMicros) :
    ∃ k', diffLoop key (n + 1) true dt1 dt2 ((dt1.t.y - dt2.t.y) * 12 + (dt1.t.m - dt2.t.m))
              ⟨dt2.kind, shiftDT dt2.t ((dt1.t.y - dt2.t.y) * 12 + (dt1.t.m - dt2.t.m))⟩
            = some (.ok (k', ⟨dt2.kind, shiftDT dt2.t k'⟩)) ∧
      k' ≤ 0 ∧ (shiftDT dt2.t k').Valid ∧ dt1.t.toMicros ≤ (shiftDT dt2.t k').toMicros ∧
      (shiftDT dt2.t (k' - 1)).toMicros < dt1.t.toMicros := by
  generalize hk0 : (dt1.t.y - dt2.t.y) * 12 + (dt1.t.m - dt2.t.m) = k0
  have v1 := validNoYear_of_valid _ h1
  have v2 := validNoYear_of_valid _ h2.1
  have y1 := h1.1.1; have y1' := h1.1.2.1; have y2 := h2.1.1.1; have y2' := h2.1.1.2.1
  have m1 := v1.1.1; have m1' := v1.1.2.1; have m2 := v2.1.1; have m2' := v2.1.2.1
  have sf := fun k => shiftDT_facts dt2.t k v2
  by_cases hov : (shiftDT dt2.t k0).toMicros < dt1.t.toMicros
  · -- undershoot: one step forward
    have hk1 : k0 ≤ -1 := by
      apply Classical.byContradiction; intro hc
      by_cases hz : k0 = 0
      · rw [hz, shiftDT_zero _ v2] at hov; omega
      · have := toMicros_lt_of_month_lt _ _ v2 v1 (by omega); omega
    have hyr : 1 ≤ (12 * dt2.t.y + (dt2.t.m - 1) + (k0 + 1)) / 12 ∧ (12 * dt2.t.y + (dt2.t.m - 1) + (k0 + 1)) / 12 ≤ 9999 := by
      omega
    have hvalid := shiftDT_valid dt2.t (k0 + 1) h2.1 hyr
    have hlt : dt1.t.toMicros < (shiftDT dt2.t (k0 + 1)).toMicros :=
      toMicros_lt_of_month_lt _ _ v1 (sf (k0 + 1)).1 (by have := (sf (k0 + 1)).2; omega)
    refine ⟨k0 + 1, ?_, by omega, hvalid, by omega, by rw [show k0 + 1 - 1 = k0 by omega]; exact hov⟩
    rw [diffLoop]
    simp only [hkey, ↓reduceIte, hov]
    rw [applyTo_setMonths (k0 + 1) dt2 h2 hyr]
    simp only []
    cases n with
    | zero => rw [diffLoop]; simp only [hkey, ↓reduceIte]; rw [if_neg (by omega)]
    | succ n => rw [diffLoop]; simp only [hkey, ↓reduceIte]; rw [if_neg (by omega)]
  · have hyr : 1 ≤ (12 * dt2.t.y + (dt2.t.m - 1) + k0) / 12 ∧ (12 * dt2.t.y + (dt2.t.m - 1) + k0) / 12 ≤ 9999 := by
      omega
    have hk0' : k0 ≤ 0 := by
      apply Classical.byContradiction; intro hc
      have := toMicros_lt_of_month_lt _ _ v2 v1 (by omega); omega
    refine ⟨k0, ?_, hk0', shiftDT_valid dt2.t k0 h2.1 hyr, by omega, ?_⟩
    · rw [diffLoop]
      simp only [hkey, ↓reduceIte, hov]
    · exact toMicros_lt_of_month_lt _ _ (sf (k0 - 1)).1 v1 (by have := (sf (k0 - 1)).2; omega)

theorem coerce_t (a b : Temporal) : (coerce a b).1.t = a.t ∧ (coerce a b).2.t = b.t := by
  unfold coerce
  cases a.kind <;> cases b.kind <;> exact ⟨rfl, rfl⟩

theorem coerce_valid (a b : Temporal) (ha : a.Valid) (hb : b.Valid) :
    (coerce a b).1.Valid ∧ (coerce a b).2.Valid := by
  unfold coerce
  cases hka : a.kind <;> cases hkb : b.kind <;> simp only [] <;>
    (refine ⟨⟨ha.1, ?_⟩, ⟨hb.1, ?_⟩⟩ <;> intro h <;>
      first
      | exact ha.2 h
      | exact hb.2 h
      | cases h
      | (rw [hka] at h; cases h)
      | (rw [hkb] at h; cases h))

/-- operands `relativedelta(a, b)` accepts in the model: after the date→datetime coercion both are dates,
    both naive, or both aware with the SAME tzinfo object (same zone id and same object id) — the cases in
    which CPython compares and subtracts wall clocks -/
def Compatible (a b : Temporal) : Prop :=
  comparable (coerce a b).1.kind (coerce a b).2.kind = .wall

/-- the value `relativedelta(a, b)` computes, in terms of the month count `k` finally chosen -/
def diffValue (a b : Temporal) (k : Int) : RD :=
  Gen.fix { Gen.setMonths empty k with
    seconds := (a.t.toMicros - (shiftDT b.t k).toMicros) / 1000000,
    microseconds := (a.t.toMicros - (shiftDT b.t k).toMicros) % 1000000 }

theorem diff_main (off : Nat → DT → Int) (n : Nat) (a b : Temporal) (ha : a.Valid) (hb : b.Valid)
    (hc : Compatible a b) :
    ∃ k, diffN off (n + 1) a b = some (.ok (diffValue a b k)) ∧ (shiftDT b.t k).Valid ∧
      ((¬ a.t.toMicros < b.t.toMicros ∧ 0 ≤ k ∧ (shiftDT b.t k).toMicros ≤ a.t.toMicros ∧
          a.t.toMicros < (shiftDT b.t (k + 1)).toMicros) ∨
       (a.t.toMicros < b.t.toMicros ∧ k ≤ 0 ∧ a.t.toMicros ≤ (shiftDT b.t k).toMicros ∧
          (shiftDT b.t (k - 1)).toMicros < a.t.toMicros)) := by
  obtain ⟨e1, e2⟩ := coerce_t a b
  obtain ⟨v1, v2⟩ := coerce_valid a b ha hb
  unfold Compatible at hc
  unfold diffN
  simp only []
  generalize hd1 : (coerce a b).1 = dt1 at *
  generalize hd2 : (coerce a b).2 = dt2 at *
  have w1 := validNoYear_of_valid _ v1.1
  have w2 := validNoYear_of_valid _ v2.1
  have y1 := v1.1.1.1; have y1' := v1.1.1.2.1
  have m1 := w1.1.1; have m1' := w1.1.2.1; have m2 := w2.1.1; have m2' := w2.1.2.1
  rw [applyTo_setMonths _ dt2 v2 (by omega)]
  simp only [hc]
  have hkey : ∀ x, cmpKey off (Cmp.wall == Cmp.utc) x = x.t.toMicros := by
    intro x; unfold cmpKey; simp
  by_cases hup : dt1.t.toMicros < dt2.t.toMicros
  · obtain ⟨k, hl, hk, hv, h3, h4⟩ := diffLoop_up _ hkey n dt1 dt2 v1.1 v2 hup
    have hlt : decide (cmpKey off (Cmp.wall == Cmp.utc) dt1 < cmpKey off (Cmp.wall == Cmp.utc) dt2) = true := by
      rw [hkey, hkey]; exact decide_eq_true hup
    rw [hlt, hl]
    simp only [hkey]
    refine ⟨k, ?_, by rw [← e2]; exact hv, Or.inr ?_⟩
    · unfold diffValue; rw [e1, e2]
    · rw [← e1, ← e2]; exact ⟨hup, hk, h3, h4⟩
  · obtain ⟨k, hl, hk, hv, h3, h4⟩ := diffLoop_down _ hkey n dt1 dt2 v1.1 v2 hup
    have hlt : decide (cmpKey off (Cmp.wall == Cmp.utc) dt1 < cmpKey off (Cmp.wall == Cmp.utc) dt2) = false := by
      rw [hkey, hkey]; exact decide_eq_false hup
    rw [hlt, hl]
    simp only [hkey]
    refine ⟨k, ?_, by rw [← e2]; exact hv, Or.inl ?_⟩
    · unfold diffValue; rw [e1, e2]
    · rw [← e1, ← e2]; exact ⟨hup, hk, h3, h4⟩

theorem fits_of_valid (t : DT) (hv : t.Valid) : fitsCInt t = true := by
  obtain ⟨⟨a1, a2, a3, a4, a5, a6⟩, a7⟩ := hv
  have := Cal.daysInMonth_bounds t.y t.m
  unfold fitsCInt; apply decide_eq_true; omega

/-- the fields of `relativedelta(a, b)` once the month count `k` is fixed -/
theorem diffValue_fields (a b : Temporal) (k : Int) :
    let R := diffValue a b k
    Normalised R ∧ R.year = none ∧ R.month = none ∧ R.day = none ∧ R.weekday = none ∧ R.hour = none ∧
    R.minute = none ∧ R.second = none ∧ R.microsecond = none ∧ R.leapdays = 0 ∧
    12 * R.years + R.months = k ∧
    usTotal R = a.t.toMicros - (shiftDT b.t k).toMicros := by
  obtain ⟨hmo, hk⟩ := setMonths_monthsOnly k
  obtain ⟨h1, h2, h3, h4, h5, h6, h7, h8, h9, h10, h11, h12, h13, h14, h15, h16, h17⟩ := hmo
  simp only []
  unfold diffValue
  generalize hδ : a.t.toMicros - (shiftDT b.t k).toMicros = δ
  generalize hpre : ({ Gen.setMonths empty k with seconds := δ / 1000000, microseconds := δ % 1000000 } : RD) = pre
  have p1 : pre.months = (Gen.setMonths empty k).months := by rw [← hpre]
  have p2 : pre.years = (Gen.setMonths empty k).years := by rw [← hpre]
  have hn : Normalised (Gen.fix pre) := by
    have f := carry_facts
    unfold Normalised
    rw [fix_us, fix_s, fix_m, fix_h, fix_mo]
    exact ⟨(carry_facts _ _ _ (by simp) (by decide)).1, (carry_facts _ _ _ (by simp) (by decide)).1,
         (carry_facts _ _ _ (by simp) (by decide)).1, (carry_facts _ _ _ (by simp) (by decide)).1,
         (carry_facts _ _ _ (by simp) (by decide)).1, fix_hasTime pre⟩
  have cmo : cMo pre = (pre.months, 0) := by
    unfold cMo; exact carry_small _ _ _ (by rw [p1]; omega)
  refine ⟨hn, ?_, ?_, ?_, ?_, ?_, ?_, ?_, ?_, ?_, ?_, ?_⟩
  · rw [fix_year, ← hpre]; exact h7
  · rw [fix_month, ← hpre]; exact h8
  · rw [fix_day, ← hpre]; exact h9
  · rw [fix_weekday, ← hpre]; exact h10
  · rw [fix_hour, ← hpre]; exact h11
  · rw [fix_minute, ← hpre]; exact h12
  · rw [fix_second, ← hpre]; exact h13
  · rw [fix_microsecond, ← hpre]; exact h14
  · rw [fix_leapdays, ← hpre]; exact h2
  · rw [fix_y, fix_mo, cmo, p1, p2]; simp only []; omega
  · -- total preserved
    have f1 := (carry_facts pre.microseconds 999999 1000000 (by simp) (by decide)).2.1
    have f2 := (carry_facts (pre.seconds + (cU pre).2) 59 60 (by simp) (by decide)).2.1
    have f3 := (carry_facts (pre.minutes + (cS pre).2) 59 60 (by simp) (by decide)).2.1
    have f4 := (carry_facts (pre.hours + (cM pre).2) 23 24 (by simp) (by decide)).2.1
    have q1 : pre.microseconds = δ % 1000000 := by rw [← hpre]
    have q2 : pre.seconds = δ / 1000000 := by rw [← hpre]
    have q3 : pre.minutes = 0 := by rw [← hpre]; exact h4
    have q4 : pre.hours = 0 := by rw [← hpre]; exact h3
    have q5 : pre.days = 0 := by rw [← hpre]; exact h1
    unfold usTotal
    rw [fix_us, fix_s, fix_m, fix_h, fix_d]
    unfold cH cM cS at *
    generalize (carry (pre.hours + _) 23 24) = c4 at *
    generalize (carry (pre.minutes + _) 59 60) = c3 at *
    generalize (carry (pre.seconds + _) 59 60) = c2 at *
    unfold cU at *
    generalize (carry pre.microseconds 999999 1000000) = c1 at *
    omega

/-- `b + relativedelta(a, b)` lands on `a`'s fields -/
theorem diffValue_apply (a b : Temporal) (k : Int) (ha : a.Valid) (hb : b.Valid)
    (hv : (shiftDT b.t k).Valid) :
    applyTo (diffValue a b k) b =
      .ok { kind := (if b.kind = .date ∧ RDSpec.hasTimeInfo (diffValue a b k) = true then .naive else b.kind),
            t := a.t } := by
  obtain ⟨hn, f1, f2, f3, f4, f5, f6, f7, f8, f9, f10, f11⟩ := diffValue_fields a b k
  generalize diffValue a b k = R at *
  have hdom : InDomain R := by
    refine ⟨hn, by simp [f1], ?_, by simp [f3], ?_⟩
    · intro v hv; rw [f2] at hv; contradiction
    · intro w n hw; rw [f4] at hw; contradiction
  rw [applyTo_eq_spec R b hdom hb]
  unfold RDSpec.apply RDSpec.monthShift
  simp only [f1, f2, f3, Option.getD_none]
  rw [f10]
  have es : RDSpec.shiftedDT R b.t ((12 * b.t.y + (b.t.m - 1) + k) / 12)
      ((12 * b.t.y + (b.t.m - 1) + k) % 12 + 1)
      (min b.t.d (Cal.daysInMonth ((12 * b.t.y + (b.t.m - 1) + k) / 12)
        ((12 * b.t.y + (b.t.m - 1) + k) % 12 + 1))) = shiftDT b.t k := by
    unfold RDSpec.shiftedDT shiftDT; simp only [f5, f6, f7, f8, Option.getD_none]
  unfold RDSpec.applyShifted RDSpec.afterDuration
  rw [es]
  have hdur : ∀ l, RDSpec.duration R l = usTotal R := by
    intro l; unfold RDSpec.duration usTotal; rw [f9]; split <;> omega
  rw [hdur, f11]
  have e : (shiftDT b.t k).toMicros + (a.t.toMicros - (shiftDT b.t k).toMicros) = a.t.toMicros := by omega
  rw [e]
  have hr := toMicros_range a.t ha.1
  rw [if_neg (by simp [fits_of_valid _ hv]), if_neg (by simp [hv]), if_neg (by omega)]
  unfold RDSpec.weekdayStep
  rw [f4]
  simp only []
  rw [DT.ofMicros_toMicros _ ha.1]

/-- two dates differ by whole days: the result carries no time information -/
theorem diffValue_dates_noTime (a b : Temporal) (k : Int) (ha : a.Valid) (hb : b.Valid)
    (hka : a.kind = .date) (hkb : b.kind = .date) :
    RDSpec.hasTimeInfo (diffValue a b k) = false := by
  obtain ⟨ha1, ha2, ha3, ha4⟩ := ha.2 hka
  obtain ⟨hb1, hb2, hb3, hb4⟩ := hb.2 hkb
  obtain ⟨hmo, _⟩ := setMonths_monthsOnly k
  obtain ⟨h1, h2, h3, h4, h5, h6, h7, h8, h9, h10, h11, h12, h13, h14, h15, h16, h17⟩ := hmo
  have hδ : ∃ n, a.t.toMicros - (shiftDT b.t k).toMicros = n * 86400000000 := by
    refine ⟨a.t.ordinal - (shiftDT b.t k).ordinal, ?_⟩
    unfold DT.toMicros DT.timeMicros DT.usPerDay
    have : (shiftDT b.t k).hh = b.t.hh ∧ (shiftDT b.t k).mm = b.t.mm ∧ (shiftDT b.t k).ss = b.t.ss ∧
        (shiftDT b.t k).us = b.t.us := ⟨rfl, rfl, rfl, rfl⟩
    rw [this.1, this.2.1, this.2.2.1, this.2.2.2, ha1, ha2, ha3, ha4, hb1, hb2, hb3, hb4]
    omega
  obtain ⟨n, hn⟩ := hδ
  unfold diffValue
  rw [hn]
  generalize hpre : ({ Gen.setMonths empty k with seconds := n * 86400000000 / 1000000, microseconds := n * 86400000000 % 1000000 } : RD) = pre
  have q1 : pre.microseconds = n * 86400000000 % 1000000 := by rw [← hpre]
  have q2 : pre.seconds = n * 86400000000 / 1000000 := by rw [← hpre]
  have q3 : pre.minutes = 0 := by rw [← hpre]; exact h4
  have q4 : pre.hours = 0 := by rw [← hpre]; exact h3
  have g1 := carry_facts pre.microseconds 999999 1000000 (by simp) (by decide)
  have g2 := carry_facts (pre.seconds + (cU pre).2) 59 60 (by simp) (by decide)
  have g3 := carry_facts (pre.minutes + (cS pre).2) 59 60 (by simp) (by decide)
  have g4 := carry_facts (pre.hours + (cM pre).2) 23 24 (by simp) (by decide)
  have z : (cU pre).1 = 0 ∧ (cS pre).1 = 0 ∧ (cM pre).1 = 0 ∧ (cH pre).1 = 0 := by
    unfold cH cM cS at *
    generalize (carry (pre.hours + _) 23 24) = c4 at *
    generalize (carry (pre.minutes + _) 59 60) = c3 at *
    generalize (carry (pre.seconds + _) 59 60) = c2 at *
    unfold cU at *
    generalize (carry pre.microseconds 999999 1000000) = c1 at *
    omega
  unfold RDSpec.hasTimeInfo
  rw [fix_us, fix_s, fix_m, fix_h, fix_hour, fix_minute, fix_second, fix_microsecond, z.1, z.2.1, z.2.2.1, z.2.2.2]
  rw [← hpre]
  simp only [h11, h12, h13, h14]
  rfl

/-- whenever `x + relativedelta(years/months from _set_months k)` returns, it is the clipped month shift -/
theorem applyTo_setMonths_ok (k : Int) (x r : Temporal) (hx : x.Valid)
    (h : applyTo (Gen.setMonths empty k) x = .ok r) : r = { kind := x.kind, t := shiftDT x.t k } := by
  by_cases hy : 1 ≤ (12 * x.t.y + (x.t.m - 1) + k) / 12 ∧ (12 * x.t.y + (x.t.m - 1) + k) / 12 ≤ 9999
  · rw [applyTo_setMonths k x hx hy] at h
    injection h with h; exact h.symm
  · exfalso
    obtain ⟨hmo, hk⟩ := setMonths_monthsOnly k
    obtain ⟨h1, h2, h3, h4, h5, h6, h7, h8, h9, h10, h11, h12, h13, h14, h15, h16, h17⟩ := hmo
    generalize Gen.setMonths empty k = R at *
    have hto : hasTimeOf R = 0 := by unfold hasTimeOf; simp [h3, h4, h5, h6, h11, h12, h13, h14]
    have hdom : InDomain R := by
      refine ⟨⟨by omega, by omega, by omega, by omega, by omega, by rw [h15, hto]⟩, by simp [h7], ?_, by simp [h9], ?_⟩
      · intro v hv; rw [h8] at hv; contradiction
      · intro w n hw; rw [h10] at hw; contradiction
    rw [applyTo_eq_spec R x hdom hx] at h
    unfold RDSpec.apply RDSpec.monthShift at h
    simp only [h7, h8, h9, Option.getD_none] at h
    rw [hk] at h
    have es : RDSpec.shiftedDT R x.t ((12 * x.t.y + (x.t.m - 1) + k) / 12)
        ((12 * x.t.y + (x.t.m - 1) + k) % 12 + 1)
        (min x.t.d (Cal.daysInMonth ((12 * x.t.y + (x.t.m - 1) + k) / 12)
          ((12 * x.t.y + (x.t.m - 1) + k) % 12 + 1))) = shiftDT x.t k := by
      unfold RDSpec.shiftedDT shiftDT; simp only [h11, h12, h13, h14, Option.getD_none]
    unfold RDSpec.applyShifted at h
    rw [es] at h
    have hnv : ¬ (shiftDT x.t k).Valid := by
      intro hv
      have a1 := hv.1.1; have a2 := hv.1.2.1
      unfold shiftDT at a1 a2; simp only [] at a1 a2
      exact hy ⟨a1, a2⟩
    by_cases hf : fitsCInt (shiftDT x.t k) = true
    · rw [if_neg (by simp [hf]), if_pos hnv] at h; contradiction
    · rw [if_pos hf] at h; contradiction

theorem diffLoop_congr (key key' : Temporal → Int) (c : Int) (up : Bool) (dt1 dt1' dt2 : Temporal)
    (h1 : key' dt1' = key dt1 - c)
    (hall : ∀ k r, applyTo (Gen.setMonths empty k) dt2 = .ok r → key' r = key r - c) :
    ∀ (fuel : Nat) (months : Int) (dtm : Temporal), key' dtm = key dtm - c →
      diffLoop key' fuel up dt1' dt2 months dtm = diffLoop key fuel up dt1 dt2 months dtm := by
  intro fuel
  induction fuel with
  | zero =>
    intro months dtm hm
    rw [diffLoop, diffLoop, h1, hm]
    cases up
    · simp only [Bool.false_eq_true, ↓reduceIte]
      by_cases hc : key dt1 < key dtm
      · rw [if_pos hc, if_pos (by omega)]
      · rw [if_neg hc, if_neg (by omega)]
    · simp only [↓reduceIte]
      by_cases hc : key dtm < key dt1
      · rw [if_pos hc, if_pos (by omega)]
      · rw [if_neg hc, if_neg (by omega)]
  | succ n ih =>
    intro months dtm hm
    rw [diffLoop, diffLoop, h1, hm]
    cases up
    · simp only [Bool.false_eq_true, ↓reduceIte]
      by_cases hc : key dt1 < key dtm
      · rw [if_pos hc, if_pos (by omega)]
        cases hr : applyTo (Gen.setMonths empty (months - 1)) dt2 with
        | error e => rfl
        | ok r => exact ih _ r (hall _ r hr)
      · rw [if_neg hc, if_neg (by omega)]
    · simp only [↓reduceIte]
      by_cases hc : key dtm < key dt1
      · rw [if_pos hc, if_pos (by omega)]
        cases hr : applyTo (Gen.setMonths empty (months + 1)) dt2 with
        | error e => rfl
        | ok r => exact ih _ r (hall _ r hr)
      · rw [if_neg hc, if_neg (by omega)]

/-- the datetime the loop hands back is the one it was given or some `dt2 + months-only delta` -/
theorem diffLoop_result (key : Temporal → Int) (up : Bool) (dt1 dt2 : Temporal) :
    ∀ (fuel : Nat) (months : Int) (dtm : Temporal) (k' : Int) (dtm' : Temporal),
      diffLoop key fuel up dt1 dt2 months dtm = some (.ok (k', dtm')) →
      dtm' = dtm ∨ ∃ k, applyTo (Gen.setMonths empty k) dt2 = .ok dtm' := by
  intro fuel
  induction fuel with
  | zero =>
    intro months dtm k' dtm' h
    rw [diffLoop] at h
    by_cases hc : (if up = true then key dtm < key dt1 else key dt1 < key dtm)
    · rw [if_pos hc] at h; contradiction
    · rw [if_neg hc] at h
      injection h with h; injection h with h; injection h with _ h; exact Or.inl h.symm
  | succ n ih =>
    intro months dtm k' dtm' h
    rw [diffLoop] at h
    by_cases hc : (if up = true then key dtm < key dt1 else key dt1 < key dtm)
    · rw [if_pos hc] at h
      simp only [] at h
      cases hr : applyTo (Gen.setMonths empty (if up = true then months + 1 else months - 1)) dt2 with
      | error e => rw [hr] at h; injection h with h; contradiction
      | ok r =>
        rw [hr] at h
        rcases ih _ r k' dtm' h with h' | h'
        · exact Or.inr ⟨_, by rw [h']; exact hr⟩
        · exact Or.inr h'
    · rw [if_neg hc] at h
      injection h with h; injection h with h; injection h with _ h; exact Or.inl h.symm

/-- two aware operands held by DISTINCT tzinfo objects (CPython compares and subtracts them in UTC), with
    the zone offsets agreeing at `a` and at every whole-month shift of `b`'s wall time: the constructor
    computes the same value as for one shared object -/
theorem diff_main_distinct (off : Nat → DT → Int) (n : Nat) (a b : Temporal) (hb : b.Valid)
    (z1 o1 z2 o2 : Nat) (hka : a.kind = .aware z1 o1) (hkb : b.kind = .aware z2 o2)
    (hne : ¬ (z1 = z2 ∧ o1 = o2)) (c : Int) (hca : off z1 a.t = c)
    (hcb : ∀ k, off z2 (shiftDT b.t k) = c) :
    diffN off (n + 1) a b = diffN off (n + 1) { a with kind := b.kind } b := by
  have hco : coerce a b = (a, b) := by unfold coerce; rw [hka, hkb]
  have hco' : coerce { a with kind := b.kind } b = ({ a with kind := b.kind }, b) := by
    unfold coerce; simp only [hkb]
  unfold diffN
  simp only [hco, hco']
  cases hap : applyTo (Gen.setMonths empty ((a.t.y - b.t.y) * 12 + (a.t.m - b.t.m))) b with
  | error e => rfl
  | ok dtm =>
    simp only []
    have hm1 : comparable a.kind b.kind = Cmp.utc := by
      rw [hka, hkb]; unfold comparable; simp only []; rw [if_neg hne]
    have hm2 : comparable b.kind b.kind = Cmp.wall := by
      rw [hkb]; unfold comparable; simp
    rw [hm1, hm2]
    simp only []
    have hutc : (Cmp.utc == Cmp.utc) = true := by decide
    have hwall : (Cmp.wall == Cmp.utc) = false := by decide
    rw [hutc, hwall]
    -- keys
    have k1 : cmpKey off true a = cmpKey off false ({ a with kind := b.kind } : Temporal) - c := by
      unfold cmpKey utcOff; simp [hka, hca]
    have kall : ∀ k r, applyTo (Gen.setMonths empty k) b = .ok r → cmpKey off true r = cmpKey off false r - c := by
      intro k r hr
      rw [applyTo_setMonths_ok k b r hb hr]
      unfold cmpKey utcOff; simp [hkb, hcb k]
    have kb : cmpKey off true b = cmpKey off false b - c := by
      have := hcb 0
      rw [shiftDT_zero _ (validNoYear_of_valid _ hb.1)] at this
      unfold cmpKey utcOff; simp [hkb, this]
    have kdtm := kall _ dtm hap
    have hdec : decide (cmpKey off true a < cmpKey off true b) =
        decide (cmpKey off false ({ a with kind := b.kind } : Temporal) < cmpKey off false b) := by
      rw [k1, kb]; congr 1; apply propext; constructor <;> intro h <;> omega
    rw [hdec]
    have hcongr := diffLoop_congr (cmpKey off false) (cmpKey off true) c
      (decide (cmpKey off false ({ a with kind := b.kind } : Temporal) < cmpKey off false b))
      ({ a with kind := b.kind } : Temporal) a b k1 kall (n + 1) ((a.t.y - b.t.y) * 12 + (a.t.m - b.t.m)) dtm kdtm
    rw [hcongr]
    cases hl : diffLoop (cmpKey off false) (n + 1)
        (decide (cmpKey off false ({ a with kind := b.kind } : Temporal) < cmpKey off false b))
        ({ a with kind := b.kind } : Temporal) b ((a.t.y - b.t.y) * 12 + (a.t.m - b.t.m)) dtm with
    | none => rfl
    | some res =>
      cases res with
      | error e => rfl
      | ok p =>
        obtain ⟨k', dtm'⟩ := p
        simp only []
        -- dtm' is again a month shift of b (or the initial dtm): its key differs by c as well
        have kd : cmpKey off true dtm' = cmpKey off false dtm' - c := by
          rcases diffLoop_result _ _ _ _ _ _ _ k' dtm' hl with h' | ⟨k, h'⟩
          · rw [h']; exact kdtm
          · exact kall k dtm' h'
        rw [k1, kd]
        have e : cmpKey off false ({ a with kind := b.kind } : Temporal) - c - (cmpKey off false dtm' - c) =
            cmpKey off false ({ a with kind := b.kind } : Temporal) - cmpKey off false dtm' := by omega
        rw [e]

end RDP
