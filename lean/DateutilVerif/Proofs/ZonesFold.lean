/- Proofs/ZonesFold.lean — of two instants with the same wall reading the earlier one cannot be the
   fold=1 reading while the later one is the fold=0 reading. -/
import DateutilVerif.Proofs.Zones

namespace TZ

theorem Coherent.fold_order {z : TzFile} {b s : TType} (hc : Coherent z b s) (hwf : WFz z b)
    (t₁ t₂ : Int) (hlt : t₁ < t₂)
    (hcov₁ : Covered z s (bisectRight z.utc t₁)) (hcov₂ : Covered z s (bisectRight z.utc t₂))
    (hw : t₁ + (ttOf z b s (bisectRight z.utc t₁)).off = t₂ + (ttOf z b s (bisectRight z.utc t₂)).off)
    (hf₁ : isAmbiguousIdx z (t₁ + (ttOf z b s (bisectRight z.utc t₁)).off)
            (some ((bisectRight z.utc t₁ : Int) - 1)) = true)
    (hf₂ : isAmbiguousIdx z (t₂ + (ttOf z b s (bisectRight z.utc t₂)).off)
            (some ((bisectRight z.utc t₂ : Int) - 1)) = false) : False := by
  have l1 := hc.wall_lookup_of_fromutc hwf t₁ hcov₁
  have l2 := hc.wall_lookup_of_fromutc hwf t₂ hcov₂
  simp only [hf₁, hf₂] at l1 l2
  rw [← hw] at l2
  have B1 := bisectRight_spec t₁ (hc.utc_sorted hwf)
  have B2 := bisectRight_spec t₂ (hc.utc_sorted hwf)
  have W1 := bisectRight_spec (t₁ + (ttOf z b s (bisectRight z.utc t₁)).off) (hc.w1_sorted hwf)
  have W0 := bisectRight_spec (t₁ + (ttOf z b s (bisectRight z.utc t₁)).off) (hc.w0_sorted hwf)
  have e1 : bisectRight z.wall1 (t₁ + (ttOf z b s (bisectRight z.utc t₁)).off) = bisectRight z.utc t₁ := l1
  have e0 : bisectRight z.wall0 (t₁ + (ttOf z b s (bisectRight z.utc t₁)).off) = bisectRight z.utc t₂ := l2
  rw [e1] at W1; rw [e0] at W0
  have hn1 := bisectRight_le z.utc t₁
  have hn2 := bisectRight_le z.utc t₂
  -- c₁ ≤ c₂ from the UTC list
  have hle : bisectRight z.utc t₁ ≤ bisectRight z.utc t₂ := by
    by_cases h : bisectRight z.utc t₂ < bisectRight z.utc t₁
    · have a := B1.2.1 _ h
      have c := B2.2.2 _ (Nat.le_refl _) (by omega)
      omega
    · omega
  -- c₂ ≤ c₁ from wall1 ≤ wall0 pointwise
  have hge : bisectRight z.utc t₂ ≤ bisectRight z.utc t₁ := by
    by_cases h : bisectRight z.utc t₁ < bisectRight z.utc t₂
    · have a := W0.2.1 _ h
      have c := W1.2.2 _ (Nat.le_refl _) (by rw [hc.w1_len]; omega)
      rw [hc.w0_get _ (by omega)] at a
      rw [hc.w1_get _ (by omega)] at c
      omega
    · omega
  have : bisectRight z.utc t₁ = bisectRight z.utc t₂ := by omega
  rw [this] at hw
  omega

end TZ
