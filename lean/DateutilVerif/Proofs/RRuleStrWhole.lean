/-
  Proofs/RRuleStrWhole.lean — the compact date form round trip and the whole two-line text of
  `str(rule)` through `_parse_rfc` (C13).
-/
import DateutilVerif.Proofs.RRuleStrRound

namespace RRuleStr
open ICal (isSpace upper splitOnChar pyInt rstrip strip isDigit splitLines)

variable {po : ParseOpts}

/-! ### zero-padded numbers and the compact date form -/

theorem showNat_length_le : ∀ (k n : Nat), 1 ≤ k → n < 10 ^ k → (showNat n).length ≤ k
  | 0, _, h, _ => by omega
  | k + 1, n, _, hn => by
    by_cases h : n < 10
    · rw [showNat_lt n h]; simp
    · rw [showNat_ge n h]
      have hk : 1 ≤ k := by
        rcases Nat.eq_zero_or_pos k with rfl | hk
        · simp at hn; omega
        · exact hk
      have := showNat_length_le k (n / 10) hk (by rw [Nat.pow_succ] at hn; omega)
      simp; omega

theorem pad_length (w n : Nat) (h : (showNat n).length ≤ w) : (pad w n).length = w := by
  simp [pad]; omega

theorem digitsVal_zeros (k : Nat) (s : List Char) : digitsVal (List.replicate k '0' ++ s) = digitsVal s := by
  induction k with
  | zero => rfl
  | succ k ih =>
    rw [List.replicate_succ, List.cons_append]
    unfold digitsVal at ih ⊢
    rw [List.foldl_cons]
    exact ih

theorem nat?_pad (w n : Nat) : nat? (pad w n) = some n := by
  unfold nat?
  have h1 : (pad w n).isEmpty = false := by
    have : pad w n ≠ [] := by simp [pad, showNat_ne_nil]
    cases h : pad w n with
    | nil => exact absurd h this
    | cons => rfl
  have h2 : (pad w n).all isDigit = true := by rw [List.all_eq_true]; exact pad_digits w n
  simp only [h1, h2, Bool.not_false, Bool.and_self, if_true]
  exact congrArg some ((digitsVal_zeros _ _).trans (digitsVal_showNat n))

theorem len2 {l : List Char} (h : l.length = 2) : ∃ a b, l = [a, b] := by
  match l, h with
  | [a, b], _ => exact ⟨a, b, rfl⟩

theorem len4 {l : List Char} (h : l.length = 4) : ∃ a b c d, l = [a, b, c, d] := by
  match l, h with
  | [a, b, c, d], _ => exact ⟨a, b, c, d, rfl⟩

/-- fifteen characters `YYYYMMDDTHHMMSS` whose fields read as numbers are the compact form -/
theorem parseCompact_fields {a b c d e f : List Char} {y m dd hh mm ss : Nat}
    (la : a.length = 4) (lb : b.length = 2) (lc : c.length = 2) (ld : d.length = 2) (le : e.length = 2) (lf : f.length = 2)
    (ha : nat? a = some y) (hb : nat? b = some m) (hc : nat? c = some dd) (hd : nat? d = some hh) (he : nat? e = some mm)
    (hf : nat? f = some ss) (hz : 'Z' ∉ f) :
    parseCompact (a ++ b ++ c ++ ['T'] ++ d ++ e ++ f) = .compact y m dd hh mm ss false := by
  obtain ⟨a1, a2, a3, a4, rfl⟩ := len4 la
  obtain ⟨b1, b2, rfl⟩ := len2 lb
  obtain ⟨c1, c2, rfl⟩ := len2 lc
  obtain ⟨d1, d2, rfl⟩ := len2 ld
  obtain ⟨e1, e2, rfl⟩ := len2 le
  obtain ⟨f1, f2, rfl⟩ := len2 lf
  have hf2 : f2 ≠ 'Z' := fun h => hz (by simp [h])
  simp [parseCompact, hf2, ha, hb, hc, hd, he, hf]

/-- `parseCompact (showDT t)` gives the fields back (the DTSTART / UNTIL text of `__str__`, in-range fields) -/
theorem parseCompact_showDT (y m d hh mm ss : Nat) (hy : y < 10000) (hm : m < 100) (hd : d < 100) (hh' : hh < 100)
    (hmm : mm < 100) (hss : ss < 100) : parseCompact (showDT (y, m, d, hh, mm, ss)) = .compact y m d hh mm ss false := by
  have l2 : ∀ n, n < 100 → (pad 2 n).length = 2 := fun n hn => pad_length 2 n (showNat_length_le 2 n (by omega) (by omega))
  have l4 : (pad 4 y).length = 4 := pad_length 4 y (showNat_length_le 4 y (by omega) (by omega))
  exact parseCompact_fields l4 (l2 m hm) (l2 d hd) (l2 hh hh') (l2 mm hmm) (l2 ss hss) (nat?_pad _ _) (nat?_pad _ _)
    (nat?_pad _ _) (nat?_pad _ _) (nat?_pad _ _) (nat?_pad _ _) (fun h => by
      have := pad_digits 2 ss _ h; revert this; decide)

/-! ### `split()` and `split(':', 1)` -/

theorem splitWs_go_free : ∀ (p rest cur : List Char) (acc : List (List Char)), (∀ c ∈ p, isSpace c = false) →
    splitWs.go (p ++ rest) cur acc = splitWs.go rest (p.reverse ++ cur) acc
  | [], _, _, _, _ => rfl
  | c :: p, rest, cur, acc, h => by
    have hc : isSpace c = false := h c (by simp)
    rw [List.cons_append, splitWs.go]
    simp only [hc, Bool.false_eq_true, if_false]
    rw [splitWs_go_free p rest (c :: cur) acc (fun d hd => h d (by simp [hd]))]
    simp

/-- `(a + '\n' + b).split() == [a, b]` for non-empty `a`, `b` without whitespace -/
theorem splitWs_two (a b : List Char) (ha : a ≠ []) (hb : b ≠ []) (hsa : ∀ c ∈ a, isSpace c = false)
    (hsb : ∀ c ∈ b, isSpace c = false) : splitWs (a ++ '\n' :: b) = [a, b] := by
  unfold splitWs
  rw [splitWs_go_free a _ [] [] hsa, splitWs.go]
  have h1 : isSpace '\n' = true := by decide
  have h2 : (a.reverse ++ []).isEmpty = false := by
    cases a with | nil => exact absurd rfl ha | cons x xs => simp
  simp only [h1, if_true, h2, Bool.false_eq_true, if_false]
  have := splitWs_go_free b [] [] [(a.reverse ++ []).reverse] hsb
  rw [List.append_nil] at this
  rw [this, splitWs.go]
  have h3 : (b.reverse ++ []).isEmpty = false := by
    cases b with | nil => exact absurd rfl hb | cons x xs => simp
  simp [hb]

theorem splitWs_one (a : List Char) (ha : a ≠ []) (hsa : ∀ c ∈ a, isSpace c = false) : splitWs a = [a] := by
  unfold splitWs
  have := splitWs_go_free a [] [] [] hsa
  rw [List.append_nil] at this
  rw [this, splitWs.go]
  have h3 : (a.reverse ++ []).isEmpty = false := by
    cases a with | nil => exact absurd rfl ha | cons x xs => simp
  simp [ha]

theorem splitColon1_go_free : ∀ (p b cur : List Char), ':' ∉ p →
    ICal.splitColon1.go (p ++ ':' :: b) cur = some ((p.reverse ++ cur).reverse, b)
  | [], b, cur, _ => by simp [ICal.splitColon1.go]
  | c :: p, b, cur, h => by
    have hc : (c == ':') = false := by
      rw [beq_eq_false_iff_ne]; intro e; exact h (by simp [e])
    rw [List.cons_append, ICal.splitColon1.go]
    simp only [hc, Bool.false_eq_true, if_false]
    rw [splitColon1_go_free p b (c :: cur) (fun hm => h (by simp [hm]))]
    simp

theorem splitColon1_two (a b : List Char) (h : ':' ∉ a) : ICal.splitColon1 (a ++ ':' :: b) = some (a, b) := by
  unfold ICal.splitColon1
  rw [splitColon1_go_free a b [] h]; simp

/-! ### the two lines of `str(rule)` through the property dispatch -/

theorem stepLine_dtstart (acc : Acc) (v : List Char) (hv : ',' ∉ v) :
    stepLine po acc (lit "DTSTART" ++ ':' :: v) = .ok { acc with dtstart := some (v, [], po) } := by
  have h1 : (lit "DTSTART" ++ ':' :: v).isEmpty = false := rfl
  have h2 : (lit "DTSTART" ++ ':' :: v).contains ':' = true := by rw [contains_iff]; simp
  have h3 := splitColon1_two (lit "DTSTART") v (by decide)
  have h4 : splitOnChar ';' (lit "DTSTART") = [lit "DTSTART"] := by decide
  have h5 : splitOnChar ',' v = [v] := splitOnChar_free ',' v hv
  unfold stepLine
  simp only [h1, Bool.false_eq_true, if_false, h2, Bool.not_true, h3, h4]
  simp [lit, dateParmsOk, h5, bind, Except.bind]

theorem stepLine_rrule (acc : Acc) (v : List Char) :
    stepLine po acc (lit "RRULE" ++ ':' :: v) = .ok { acc with rrulevals := acc.rrulevals ++ [v] } := by
  have h1 : (lit "RRULE" ++ ':' :: v).isEmpty = false := rfl
  have h2 : (lit "RRULE" ++ ':' :: v).contains ':' = true := by rw [contains_iff]; simp
  have h3 := splitColon1_two (lit "RRULE") v (by decide)
  have h4 : splitOnChar ';' (lit "RRULE") = [lit "RRULE"] := by decide
  unfold stepLine
  simp only [h1, Bool.false_eq_true, if_false, h2, Bool.not_true, h3, h4]
  simp [lit]

/-! ### the whole text -/

def isLineC (c : Char) : Bool := isPartC c || c == ';' || c == ':'

theorem isLineC_not_space (c : Char) (h : isLineC c = true) : isSpace c = false := by
  simp only [isLineC, Bool.or_eq_true, beq_iff_eq] at h
  rcases h with (h | rfl) | rfl
  · exact isPartC_not_space c h
  · decide
  · decide

theorem isLineC_not_lower (c : Char) (h : isLineC c = true) : isLower c = false := by
  simp only [isLineC, Bool.or_eq_true, beq_iff_eq] at h
  rcases h with (h | rfl) | rfl
  · exact isPartC_not_lower c h
  · decide
  · decide

theorem rruleLineOf_chars (x : StrIn) (hx : Printable x) : ∀ c ∈ rruleLineOf x, isLineC c = true := by
  intro c hc
  rw [rruleLineOf_eq] at hc
  rcases List.mem_append.mp hc with h | h
  · have : ∀ d ∈ lit "RRULE", isLineC d = true := by decide
    exact this c h
  · rcases List.mem_cons.mp h with rfl | h
    · decide
    · rcases rruleBody_chars x hx c h with h | rfl
      · simp [isLineC, h]
      · decide

/-- the `DTSTART:` line of `str(rule)` -/
def dtstartLine (t : Nat × Nat × Nat × Nat × Nat × Nat) : List Char := lit "DTSTART" ++ ':' :: showDT t

theorem dtstartLine_chars (t : Nat × Nat × Nat × Nat × Nat × Nat) : ∀ c ∈ dtstartLine t, isLineC c = true := by
  intro c hc
  rcases List.mem_append.mp hc with h | h
  · have : ∀ d ∈ lit "DTSTART", isLineC d = true := by decide
    exact this c h
  · rcases List.mem_cons.mp h with rfl | h
    · decide
    · simp [isLineC, isPartC, isValC, showDT_atoms t c h]

theorem toStr_some (x : StrIn) (t : Nat × Nat × Nat × Nat × Nat × Nat) (ht : x.dtstart = some t) :
    toStr x = dtstartLine t ++ '\n' :: rruleLineOf x := by
  unfold toStr dtstartLines; rw [ht]; simp [intercalate, dtstartLine, lit]

theorem getLast?_append_cons_ne (a r : List Char) (s : Char) (h : r ≠ []) : (a ++ s :: r).getLast? = r.getLast? := by
  cases r with
  | nil => exact absurd rfl h
  | cons y ys => rw [List.getLast?_append, List.getLast?_cons_cons, List.getLast?_cons (l := ys)]; rfl

theorem toStr_none (x : StrIn) (ht : x.dtstart = none) : toStr x = rruleLineOf x := by
  unfold toStr dtstartLines; rw [ht]; rfl

theorem needFreq_argsOf (x : StrIn) : needFreq (argsOf po x) = .ok (argsOf po x) := rfl

theorem buildRule_body (x : StrIn) (hx : Printable x) (dt : Option DateV) (cache : Bool) :
    buildRule po (rruleBody x) dt cache = .ok (.rule (argsOf po x) dt cache) := by
  unfold buildRule ruleOf
  rw [parseRRuleLine_body x hx]; rfl

theorem buildRule_line (x : StrIn) (hx : Printable x) (dt : Option DateV) (cache : Bool) :
    buildRule po (rruleLineOf x) dt cache = .ok (.rule (argsOf po x) dt cache) := by
  unfold buildRule ruleOf
  rw [parseRRuleLine_rruleLineOf x hx]; rfl

theorem rruleLineOf_ne_nil (x : StrIn) : rruleLineOf x ≠ [] := by rw [rruleLineOf_eq]; simp [lit]

/-- two lines, no forceset: the rule branch when the collected lines do not ask for a set -/
theorem parseLines_two_rule (s l1 l2 v : List Char) (rest : List (List Char)) (acc : Acc) (kw cache : Bool)
    (hfold : [l1, l2].foldlM (stepLine po) {} = .ok acc) (hw : wantsSet false acc = false) (hv : acc.rrulevals = v :: rest) :
    parseLines po cache s [l1, l2] false false kw = buildRule po v acc.dtstart cache := by
  unfold parseLines
  rw [if_neg (by simp), hfold]
  show (if wantsSet false acc = true then _ else _) = _
  rw [if_neg (by rw [hw]; simp)]
  simp only [hv]

/-- `rrulestr(str(rule), ignoretz=…, tzinfos=…, cache=…)` without unfold / forceset / compatible: the two-line text of a
    rule with a start parses to a single rule with exactly the printed arguments and the DTSTART text; the UNTIL and
    DTSTART values carry the options passed, the rule gets `cache` -/
theorem parseRfc_toStr (x : StrIn) (hx : Printable x) (t : Nat × Nat × Nat × Nat × Nat × Nat) (ht : x.dtstart = some t)
    (o : Opts) (hu : o.unfold = false) (hf : o.forceset = false) (hc : o.compatible = false) (kw : Bool) :
    parseRfc (toStr x) o kw = .ok (.rule (argsOf o.po x) (some (showDT t, [], o.po)) o.cache) := by
  have hD := dtstartLine_chars t
  have hR := rruleLineOf_chars x hx
  have hchars : ∀ c ∈ toStr x, isLower c = false := by
    rw [toStr_some x t ht]; intro c hc
    rcases List.mem_append.mp hc with h | h
    · exact isLineC_not_lower c (hD c h)
    · rcases List.mem_cons.mp h with rfl | h
      · decide
      · exact isLineC_not_lower c (hR c h)
  have hup : upper (toStr x) = toStr x := upper_of_noLower _ hchars
  have hstrip : strip (toStr x) = toStr x := by
    apply strip_id
    · intro c hc; rw [toStr_some x t ht] at hc
      have : c = 'D' := by simpa [dtstartLine, lit] using hc.symm
      subst this; decide
    · intro c hc; rw [toStr_some x t ht, getLast?_append_cons_ne _ _ _ (rruleLineOf_ne_nil x)] at hc
      exact isLineC_not_space c (hR c (List.mem_of_getLast? hc))
  have hne : (toStr x).isEmpty = false := by rw [toStr_some x t ht]; rfl
  have hlines : splitWs (toStr x) = [dtstartLine t, rruleLineOf x] := by
    rw [toStr_some x t ht]
    exact splitWs_two _ _ (by simp [dtstartLine, lit]) (rruleLineOf_ne_nil x)
      (fun c hc => isLineC_not_space c (hD c hc)) (fun c hc => isLineC_not_space c (hR c hc))
  have hfold : [dtstartLine t, rruleLineOf x].foldlM (stepLine o.po) {} =
      .ok { rrulevals := [rruleBody x], dtstart := some (showDT t, [], o.po) } := by
    rw [List.foldlM_cons, dtstartLine, stepLine_dtstart _ _ (fun h => isAtom_ne_comma _ (showDT_atoms t _ h) rfl)]
    show List.foldlM (stepLine o.po) _ [rruleLineOf x] = _
    rw [List.foldlM_cons, rruleLineOf_eq, stepLine_rrule]
    rfl
  unfold parseRfc
  simp only [hup, hstrip, hne, Bool.false_eq_true, if_false, hu, hf, hc, Bool.or_false]
  have hl : linesOf (toStr x) false = [dtstartLine t, rruleLineOf x] := hlines
  rw [hl, parseLines_two_rule _ _ _ (rruleBody x) [] _ _ _ hfold (by simp [wantsSet]) rfl]
  exact buildRule_body x hx _ _

theorem linesOf_false (s : List Char) : linesOf s false = splitWs s := rfl

/-- the same for a rule printed without a DTSTART line (`_dtstart` falsy; never the case for a constructed rule): this is
    the single-line fast path of `_parse_rfc` -/
theorem parseRfc_toStr_none (x : StrIn) (hx : Printable x) (ht : x.dtstart = none)
    (o : Opts) (hu : o.unfold = false) (hf : o.forceset = false) (hc : o.compatible = false) (kw : Bool) :
    parseRfc (toStr x) o kw = .ok (.rule (argsOf o.po x) none o.cache) := by
  have hR := rruleLineOf_chars x hx
  rw [toStr_none x ht]
  have hup : upper (rruleLineOf x) = rruleLineOf x := upper_of_noLower _ (fun c hc => isLineC_not_lower c (hR c hc))
  have hstrip : strip (rruleLineOf x) = rruleLineOf x := strip_of_noSpace _ (fun c hc => isLineC_not_space c (hR c hc))
  have hne : (rruleLineOf x).isEmpty = false := rfl
  have hl : linesOf (rruleLineOf x) false = [rruleLineOf x] := by
    rw [linesOf_false]
    exact splitWs_one _ (rruleLineOf_ne_nil x) (fun c hc => isLineC_not_space c (hR c hc))
  have hsw : startsWith (rruleLineOf x) (lit "RRULE:") = true := by simp [startsWith, rruleLineOf_eq, lit]
  unfold parseRfc
  simp only [hup, hstrip, hne, Bool.false_eq_true, if_false, hu, hf, hc, Bool.or_false]
  rw [hl]
  unfold parseLines
  rw [if_pos (by simp [hsw])]
  exact buildRule_line x hx none _

end RRuleStr
