/-
  Proofs/OnsetsLastLE.lean — `before(x, inc=True)` (`ICal.lastLE`) on a finite prefix of a strictly
  increasing onset sequence, and the onset sequence (seconds) of the yearly rule.
-/
import DateutilVerif.Model.ICal
import DateutilVerif.Proofs.YearlyOnsets

namespace Onsets
open ICal

theorem lastLE_append (l : List Int) (a x : Int) :
    lastLE (l ++ [a]) x = if a ≤ x then some a else lastLE l x := by
  unfold lastLE
  rw [List.foldl_append]
  rfl

theorem strict_mono_of_step (f : Nat → Int) (h : ∀ i, f i < f (i + 1)) : ∀ i j, i < j → f i < f j := by
  intro i j hij
  induction j with
  | zero => omega
  | succ k ih =>
      by_cases e : i = k
      · subst e; exact h i
      · have := ih (by omega); have := h k; omega

/-- on the prefix `f 0, …, f (N−1)` of a strictly increasing sequence, `before(x, inc=True)` is the
    element `f j` with `f j ≤ x < f (j+1)` (the upper bound only when `f (j+1)` is in the prefix) -/
theorem lastLE_prefix (f : Nat → Int) (hmono : ∀ i, f i < f (i + 1)) (N j : Nat) (x : Int)
    (hj : j < N) (h1 : f j ≤ x) (h2 : j + 1 < N → x < f (j + 1)) :
    lastLE ((List.range N).map f) x = some (f j) := by
  induction N with
  | zero => omega
  | succ M ih =>
      rw [List.range_succ, List.map_append, List.map_cons, List.map_nil, lastLE_append]
      by_cases c : f M ≤ x
      · rw [if_pos c]
        by_cases e : j = M
        · rw [e]
        · exfalso
          have := h2 (by omega)
          by_cases e2 : j + 1 = M
          · rw [e2] at this; omega
          · have := strict_mono_of_step f hmono (j + 1) M (by omega); omega
      · rw [if_neg c]
        have hjM : j ≠ M := by intro e; rw [e] at h1; exact c h1
        exact ih (by omega) (fun h => h2 (by omega))

/-- below the first element there is no onset -/
theorem lastLE_prefix_none (f : Nat → Int) (hmono : ∀ i, f i < f (i + 1)) (N : Nat) (x : Int)
    (h : x < f 0) : lastLE ((List.range N).map f) x = none := by
  induction N with
  | zero => rfl
  | succ M ih =>
      rw [List.range_succ, List.map_append, List.map_cons, List.map_nil, lastLE_append, ih]
      have : f 0 ≤ f M := by
        by_cases e : M = 0
        · subst e; exact Int.le_refl _
        · exact Int.le_of_lt (strict_mono_of_step f hmono 0 M (by omega))
      rw [if_neg (by omega)]

theorem exists_index (f : Nat → Int) (j : Nat) (x : Int) (h0 : f 0 ≤ x) (hx : x < f j) :
    ∃ i, i < j ∧ f i ≤ x ∧ x < f (i + 1) := by
  induction j with
  | zero => omega
  | succ k ih =>
      by_cases c : f k ≤ x
      · exact ⟨k, by omega, c, hx⟩
      · obtain ⟨i, hi, a, b⟩ := ih (by omega)
        exact ⟨i, by omega, a, b⟩

/-- onset (seconds since ordinal 0) of the yearly rule in year `y0 + k` -/
def onset (y0 hh mm ss m w d : Int) (k : Nat) : Int :=
  Posix.ruleOrdinal (y0 + k) (.M m w d) * 86400 + (hh * 3600 + mm * 60 + ss)

theorem onset_step (y0 hh mm ss m w d : Int) (hy0 : 1 ≤ y0) (hm : 1 ≤ m ∧ m ≤ 12)
    (hw : 1 ≤ w ∧ w ≤ 5) (hd : 0 ≤ d ∧ d ≤ 6) (k : Nat) :
    onset y0 hh mm ss m w d k < onset y0 hh mm ss m w d (k + 1) := by
  obtain ⟨_, a2, _⟩ := rule_in_year (y0 + k) m w d (by omega) hm hw hd
  obtain ⟨b1, _, _⟩ := rule_in_year (y0 + (k + 1 : Nat)) m w d (by omega) hm hw hd
  have e : y0 + ((k + 1 : Nat) : Int) = y0 + k + 1 := by omega
  rw [e] at b1
  unfold onset
  rw [e]; omega

/-- **the onsets of the rule**: the seconds of the recurrence set's first `N` years -/
theorem onsets_eq (y0 hh mm ss m w d : Int) (N : Nat) (hy0 : 1 ≤ y0) (hN : y0 + N ≤ 10000)
    (hm : 1 ≤ m ∧ m ≤ 12) (hw : 1 ≤ w ∧ w ≤ 5) (hd : 0 ≤ d ∧ d ≤ 6) :
    (Spec.RRule.occ (yearlyNth y0 hh mm ss m (wdOfPosix d) (nthOfWeek w)) N).map RRule.Inst.secs =
      (List.range N).map (onset y0 hh mm ss m w d) := by
  rw [occ_eq y0 hh mm ss m w d N hy0 hN hm hw hd, List.map_map]
  rfl

end Onsets
