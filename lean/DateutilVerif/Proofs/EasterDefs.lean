/- Proofs/EasterDefs.lean — the per-year checks used by the C19 tables. -/
import DateutilVerif.Generated.Easter
import DateutilVerif.Spec.Easter

namespace C19
open Gen Spec

/-- method 3 on year `y`: a valid Gregorian date, equal to Meeus/Jones/Butcher, a Sunday,
    between 22 March and 25 April. -/
def westernOK (y : Int) : Bool :=
  match easter y 3 with
  | .ok (y', m, d) =>
      y' == y && (m, d) == mjb y && decide (Cal.ValidYMD y m d) && Cal.weekday y m d == 6 &&
      ((m == 3 && decide (22 ≤ d)) || (m == 4 && decide (d ≤ 25)))
  | .error _ => false

/-- method 1 on year `y`: Meeus' Julian Easter (as a Julian-calendar date), a Sunday
    of the Julian calendar, between 22 March and 25 April (Julian). -/
def julianOK (y : Int) : Bool :=
  match easter y 1 with
  | .ok (y', m, d) =>
      y' == y && (m, d) == meeusJulian y && julianWeekday y m d == 6 &&
      ((m == 3 && decide (22 ≤ d) && decide (d ≤ 31)) || (m == 4 && decide (1 ≤ d) && decide (d ≤ 25)))
  | .error _ => false

/-- method 2 on year `y`: the Julian Easter day expressed in the Gregorian calendar
    (valid date, same day number, a Sunday). -/
def orthodoxOK (y : Int) : Bool :=
  match easter y 2 with
  | .ok (y', m, d) =>
      let j := meeusJulian y
      y' == y && decide (Cal.ValidYMD y m d) &&
      Cal.toOrdinal y m d == julianToOrdinal y j.1 j.2 && Cal.weekday y m d == 6
  | .error _ => false

end C19
