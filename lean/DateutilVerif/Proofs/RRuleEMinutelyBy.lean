/-
  Proofs/RRuleEMinutelyBy.lean — Proofs/RRuleMinutelyBy.lean with BYEASTER (complement of D-C01d: offsets
  −80..250, visited days inside 1583..4099, no BYWEEKNO) instead of "no BYEASTER": the same refinement over the
  BY-filter abstraction of Proofs/RRuleEFilter.lean.  The lemmas of Proofs/RRuleMinutelyBy.lean that do not
  mention the argument class are used from there.
-/
import DateutilVerif.Proofs.RRuleEFilter
import DateutilVerif.Proofs.RRuleMinutelyBy
import DateutilVerif.Proofs.RRuleEHourlyBy
import DateutilVerif.Proofs.RRuleEMinutely

namespace RRule
open Cal

structure MinutelyByEArgs (a : Args) : Prop where
  freq : a.freq = 5
  interval : 1 ≤ a.interval
  valid : a.dtstart.Valid
  byweekno : a.byweekno = none
  easter : ∃ el, a.byeaster = some el ∧ el ≠ [] ∧ ∀ o ∈ el, -80 ≤ o ∧ o ≤ 250
  monthday_nz : ∀ x ∈ a.bymonthday.getD [], x ≠ 0
  byhour : a.byhour = none
  minutes : ∃ l, a.byminute = some l ∧ ∀ x ∈ l, 0 ≤ x ∧ x ≤ 59
  seconds_ok : ∀ x ∈ a.bysecond.getD [], 0 ≤ x ∧ x ≤ 59

variable {a : Args} {r : Rule}

theorem mbe_dw (ma : MinutelyByEArgs a) : DWArgs (asDailyE a) :=
  ⟨Or.inr rfl, ma.interval, ma.valid, ma.byweekno, rfl, ma.monthday_nz⟩

abbrev minutelyByERuleOf (a : Args) (bm : List Int) (bs : Option (List Int)) : Rule :=
  { freq := a.freq, interval := a.interval, wkst := a.wkst.getD 0,
    dtstart := { a.dtstart with us := 0 }, tz := a.tz, count := a.count, untilDT := a.untilDT,
    bysetpos := a.bysetpos, bymonth := a.bymonth.map sortedSet, bymonthday := bymonthdayOf a,
    bynmonthday := bynmonthdayOf a, byyearday := a.byyearday.map sortedSet,
    byeaster := a.byeaster.map (sortBy ltInt), byweekno := none,
    byweekday := byweekdayOf a, bynweekday := bynweekdayOf a,
    byhour := none, byminute := some bm, bysecond := bs, timeset := none }

theorem mbe_rule (ma : MinutelyByEArgs a) (h : construct a = .ok r) :
    ∃ bm bs, r = minutelyByERuleOf a bm bs ∧ bm ≠ [] ∧
      (∀ x, x ∈ bm ↔ x ∈ minutesOf a ∧ (x - a.dtstart.mm) % g60 a = 0) ∧
      normUnit a.freq 6 a.interval a.dtstart.ss a.bysecond 60 = .ok bs := by
  obtain ⟨sp, bh, bm, bs, ts, h1, h2, h3, h4, h5, rfl⟩ := construct_ok a r h
  have hsp := (normBysetpos_ok a sp h1).1
  subst hsp
  obtain ⟨l, hl, _⟩ := ma.minutes
  have hbh : bh = none := by
    unfold normUnit at h2
    rw [ma.byhour] at h2
    dsimp only at h2
    rw [if_neg (by rw [ma.freq]; omega)] at h2
    injection h2 with h2; exact h2.symm
  have hts : ts = none := by
    unfold timesetOf at h5
    rw [if_pos (by rw [ma.freq]; omega)] at h5
    injection h5 with h5; exact h5.symm
  subst hbh hts
  unfold normUnit at h3
  rw [hl] at h3
  dsimp only at h3
  rw [if_pos (by simp [ma.freq])] at h3
  unfold constructByset at h3
  dsimp only at h3
  split at h3
  · rename_i c hc
    split at hc
    · cases hc
    · rename_i hne
      injection hc with hc
      injection h3 with h3
      subst h3
      have hne0 : (a.freq == 0) = false := by simp [ma.freq]
      refine ⟨sortBy ltInt c, bs, by simp [minutelyByERuleOf, hne0, ma.byweekno, bymonthOf], ?_, ?_, h4⟩
      · intro he
        have : c.isEmpty = true := by
          rw [isEmpty_of_mem_iff c (sortBy ltInt c) (fun x => (mem_sortBy ltInt x c).symm), he]; rfl
        rw [← hc] at this
        exact hne this
      · intro x
        rw [mem_sortBy, ← hc, mem_dedup, List.mem_filter]
        have hgp := g60_pos a
        unfold minutesOf
        unfold g60 at hgp ⊢
        rw [hl, Option.getD_some, Py.fmod_pos _ hgp]
        constructor
        · rintro ⟨hx, hcond⟩
          refine ⟨hx, ?_⟩
          simp only [Bool.or_eq_true, beq_iff_eq] at hcond
          rcases hcond with h1 | h1
          · rw [h1]; omega
          · exact h1
        · rintro ⟨hx, hcond⟩
          exact ⟨hx, by simp only [Bool.or_eq_true, beq_iff_eq]; right; exact hcond⟩
  · cases h3

theorem mbe_cuts (ma : MinutelyByEArgs a) (h : construct a = .ok r) : CutsAgree a r := by
  obtain ⟨bm, bs, hr, _⟩ := mbe_rule ma h
  rw [hr]; exact ⟨rfl, rfl, rfl⟩

theorem mbe_erule (ma : MinutelyByEArgs a) (h : construct a = .ok r) : ERule r := by
  have hd := construct_nth_demoted a r h (by rw [ma.freq]; omega)
  obtain ⟨bm, bs, hr, _, _, _⟩ := mbe_rule ma h
  rw [hr] at hd ⊢
  refine erule_of a _ ma.easter rfl rfl ?_
  dsimp only at hd ⊢
  rcases hd with hd | hd <;> rw [hd] <;> rfl

/-- **bridge**: the model's filter predicate is the specification's `dateOk` -/
theorem mbe_bridge (ma : MinutelyByEArgs a) (h : construct a = .ok r) (ord : Int) (ho : 1 ≤ ord) :
    (simpleOk r ord && eclause r ord) = Spec.RRule.dateOk a ord := by
  obtain ⟨bm, bs, hr, _, _, _⟩ := mbe_rule ma h
  rw [hr]
  exact eOk_eq_dateOk a _ (by rw [ma.freq]; omega) (mbe_dw ma) ma.easter rfl rfl rfl rfl rfl rfl ord ho

/-- the minute's time set: the model's `mtimeset`, and the specification's (empty when the minute is not listed) -/
theorem mtimeset_mb_e (ma : MinutelyByEArgs a) (h : construct a = .ok r) (hour minute : Int)
    (h0 : 0 ≤ hour) (h1 : hour ≤ 23) (m0 : 0 ≤ minute) (m1 : minute ≤ 59) :
    ∃ prod, mtimeset r hour minute = .ok prod ∧ TsOk prod ∧
      Spec.RRule.timesOf a (some hour) (some minute) none = (if (minutesOf a).contains minute then prod else []) := by
  obtain ⟨bm, bs, hr, _, _, h4⟩ := mbe_rule ma h
  obtain ⟨l, hl, _⟩ := ma.minutes
  have n4 := normUnit_nodup _ _ _ _ _ _ _ h4
  have m4 := normUnit_mem _ _ _ _ _ _ _ (by rw [ma.freq]; omega) h4
  have hv := ma.valid
  unfold DT.Valid at hv
  have hvs : ∀ x ∈ bs.getD [], 0 ≤ x ∧ x ≤ 59 := by
    intro x hx
    have := (m4 x).mp hx
    cases hb : a.bysecond with
    | none => rw [hb] at this; simp at this; omega
    | some l => rw [hb] at this; exact ma.seconds_ok x (by rw [hb]; exact this)
  have hvalid : ∀ t ∈ productHMS [hour] [minute] (bs.getD []), ValidHMS t := by
    intro t ht
    rw [mem_productHMS] at ht
    obtain ⟨a1, a2, a3⟩ := ht
    simp at a1 a2
    have := hvs _ a3
    unfold ValidHMS; omega
  have hspec : Spec.RRule.timesOf a (some hour) (some minute) none =
      (if (minutesOf a).contains minute
       then productHMS [hour] [minute] (specUnit a.bysecond a.dtstart.ss 60) else []) := by
    unfold Spec.RRule.timesOf Spec.RRule.restrict Spec.RRule.hours Spec.RRule.minutes Spec.RRule.seconds
      productHMS specUnit minutesOf
    rw [ma.byhour, hl]
    dsimp only
    rw [if_neg (show ¬ a.freq < 4 by rw [ma.freq]; omega), filter_eq_hour hour h0 h1, List.filter_filter]
    have hf : (intRange 0 60).filter (fun x => (x == minute) && l.contains x) =
        (if l.contains minute then [minute] else []) := by
      have : ∀ x, ((x == minute) && l.contains x) = ((x == minute) && l.contains minute) := by
        intro x
        by_cases c : x = minute
        · subst c; rfl
        · have : (x == minute) = false := by rw [beq_eq_false_iff_ne]; exact c
          rw [this]; rfl
      simp only [this]
      by_cases c : l.contains minute = true
      · simp only [c, Bool.and_true, ↓reduceIte]; exact filter_eq_minute minute m0 m1
      · have c' : l.contains minute = false := by
          cases hq : l.contains minute with
          | false => rfl
          | true => exact absurd hq c
        simp only [c', Bool.and_false, Bool.false_eq_true, ↓reduceIte]
        exact List.filter_eq_nil_iff.mpr (by intro x _; exact Bool.false_ne_true)
    rw [hf, if_pos (by rw [ma.freq]; omega : a.freq < 6)]
    by_cases c : l.contains minute = true
    · simp only [c, ↓reduceIte, Option.getD_some]
      cases a.bysecond <;> rfl
    · have c' : l.contains minute = false := by
        cases hq : l.contains minute with
        | false => rfl
        | true => exact absurd hq c
      simp only [c', Bool.false_eq_true, ↓reduceIte, Option.getD_some, List.flatMap_nil, List.flatMap_cons,
        List.append_nil]
  have hsorted := productHMS_sorted [hour] [minute] _ (by simp) (by simp)
    (specUnit_sorted a.bysecond a.dtstart.ss 60)
  have hsu : ∀ (arg : Option (List Int)) (start bound x : Int), 0 ≤ x → x < bound →
      (x ∈ specUnit arg start bound ↔ x ∈ (match arg with | some l => l | none => [start])) := by
    intro arg start bound x h0 h1
    unfold specUnit
    cases arg with
    | none => rfl
    | some l =>
      simp only [List.mem_filter, mem_intRange, List.contains_iff_mem]
      constructor
      · exact fun h => h.2
      · exact fun h => ⟨⟨h0, h1⟩, h⟩
  have hsu' : ∀ (arg : Option (List Int)) (start bound x : Int), x ∈ specUnit arg start bound →
      x ∈ (match arg with | some l => l | none => [start]) := by
    intro arg start bound x hx
    unfold specUnit at hx
    cases arg with
    | none => exact hx
    | some l =>
      simp only [List.mem_filter, List.contains_iff_mem] at hx
      exact hx.2
  have heq : sortBy ltHMS (productHMS [hour] [minute] (bs.getD [])) =
      productHMS [hour] [minute] (specUnit a.bysecond a.dtstart.ss 60) := by
    apply sorted_ext strictHMS
    · exact sortBy_pairwise strictHMS _ (fun _ _ => trivial) (productHMS_nodup _ _ _ (by simp) (by simp) n4)
    · exact hsorted
    · intro t
      rw [mem_sortBy, mem_productHMS, mem_productHMS]
      constructor
      · rintro ⟨a1, a2, a3⟩
        have v3 := hvs _ a3
        exact ⟨a1, a2, (hsu _ _ 60 _ v3.1 (by omega)).mpr ((m4 _).mp a3)⟩
      · rintro ⟨a1, a2, a3⟩
        exact ⟨a1, a2, (m4 _).mpr (hsu' _ _ _ _ a3)⟩
  refine ⟨productHMS [hour] [minute] (specUnit a.bysecond a.dtstart.ss 60), ?_, ?_, hspec⟩
  · unfold mtimeset buildTimeset
    rw [hr]
    dsimp only
    rw [checkTimes_of_valid _ hvalid]
    dsimp only
    rw [heq]
  · rw [← heq]
    refine ⟨sortBy_pairwise strictHMS _ (fun _ _ => trivial) (productHMS_nodup _ _ _ (by simp) (by simp) n4), ?_⟩
    intro t ht
    rw [mem_sortBy] at ht
    exact hvalid t ht

theorem timesOf_mb_ok_e (ma : MinutelyByEArgs a) (h : construct a = .ok r) (hour minute : Int)
    (h0 : 0 ≤ hour) (h1 : hour ≤ 23) (m0 : 0 ≤ minute) (m1 : minute ≤ 59) :
    TsOk (Spec.RRule.timesOf a (some hour) (some minute) none) := by
  obtain ⟨prod, _, hok, hspec⟩ := mtimeset_mb_e ma h hour minute h0 h1 m0 m1
  rw [hspec]; split
  · exact hok
  · exact tsOk_nil

theorem mbe_span (ma : MinutelyByEArgs a) (ord hour minute : Int) (k : Nat) (h0 : 0 ≤ hour) (h1 : hour ≤ 23)
    (m0 : 0 ≤ minute) (m1 : minute ≤ 59)
    (hu : (ord * 24 + hour) * 60 + minute =
      (Spec.RRule.startOrd a * 24 + a.dtstart.hh) * 60 + a.dtstart.mm + k * a.interval) :
    Spec.RRule.periodSpan a (k * a.interval) = (ord, ord + 1, some hour, some minute, none) := by
  unfold Spec.RRule.periodSpan
  rw [if_neg (by simp [ma.freq]), if_neg (by simp [ma.freq]), if_neg (by simp [ma.freq]),
      if_neg (by simp [ma.freq]), if_neg (by simp [ma.freq]), if_pos (by simp [ma.freq])]
  dsimp only
  rw [← hu]
  have e1 : ((ord * 24 + hour) * 60 + minute) / 1440 = ord := by omega
  have e2 : ((ord * 24 + hour) * 60 + minute) / 60 % 24 = hour := by omega
  have e3 : ((ord * 24 + hour) * 60 + minute) % 60 = minute := by omega
  rw [e1, e2, e3]

theorem mbe_results (ma : MinutelyByEArgs a) (h : construct a = .ok r) (k : Nat) (st : State)
    (hg : MinutelyEGood a r k st) (hle : curOrd st.cur ≤ maxOrdinal) :
    ∃ fl, periodResults r st = .ok (Spec.RRule.sel a (k : Int), none, fl) ∧
      (fl = true → Spec.RRule.dateOk a (curOrd st.cur) = false) ∧
      ∀ x ∈ Spec.RRule.sel a (k : Int), 0 ≤ x.ord ∧ x.ord ≤ maxOrdinal := by
  have hw := mbe_erule ma h
  obtain ⟨bm, bs, hr, _⟩ := mbe_rule ma h
  have hfreq : r.freq = 5 := by rw [hr]; exact ma.freq
  have hsp := construct_bysetpos a r h
  have htsok : TsOk st.timeset := by
    rw [hg.timeset]; exact timesOf_mb_ok_e ma h _ _ hg.hour.1 hg.hour.2 hg.minute.1 hg.minute.2
  have hpos : 1 ≤ curOrd st.cur := toOrdinal_pos _ _ _ hg.facts.year_lo hg.valid
  obtain ⟨fl, hres, hflag⟩ := periodResults_day_e hw st hg.facts hg.inv hg.valid (by omega)
    (by rw [hsp.1]; exact hsp.2) htsok hle
  have hbridge : (intRange (curOrd st.cur) (curOrd st.cur + 1)).filter (fun o => simpleOk r o && eclause r o) =
      (intRange (curOrd st.cur) (curOrd st.cur + 1)).filter (Spec.RRule.dateOk a) := by
    apply List.filter_congr
    intro o ho
    exact mbe_bridge ma h o (by have := (mem_intRange _ _ _).mp ho; omega)
  have hspan := mbe_span ma (curOrd st.cur) st.cur.hour st.cur.minute k hg.hour.1 hg.hour.2 hg.minute.1 hg.minute.2 hg.idx
  have hsel := sel_span_gen a k _ _ _ _ _ hspan
  refine ⟨fl, ?_, ?_, ?_⟩
  · rw [hres, hg.timeset, hsel, hbridge, hsp.1]
  · intro hf
    rw [← mbe_bridge ma h _ hpos]
    exact hflag hf
  · intro x hx
    rw [hsel] at hx
    have := sel_bounds _ _ _ _ x (applySetpos_subset _ _ x hx)
    omega

/-- a grid minute that is not listed selects nothing -/
theorem mbe_skip_minute (ma : MinutelyByEArgs a) (h : construct a = .ok r) (j : Nat) (ord hour minute : Int)
    (h0 : 0 ≤ hour) (h1 : hour ≤ 23) (m0 : 0 ≤ minute) (m1 : minute ≤ 59)
    (hu : (ord * 24 + hour) * 60 + minute =
      (Spec.RRule.startOrd a * 24 + a.dtstart.hh) * 60 + a.dtstart.mm + j * a.interval)
    (hno : (minutesOf a).contains minute = false) : Spec.RRule.sel a (j : Int) = [] := by
  obtain ⟨prod, _, _, hspec⟩ := mtimeset_mb_e ma h hour minute h0 h1 m0 m1
  rw [hno] at hspec
  simp only [Bool.false_eq_true, ↓reduceIte] at hspec
  rw [sel_span_gen a j _ _ _ _ _ (mbe_span ma ord hour minute j h0 h1 m0 m1 hu), hspec]
  have : ∀ (l : List Int), l.flatMap (fun o => ([].map (mkInst o) : List Inst)) = [] := by
    intro l; induction l with
    | nil => rfl
    | cons x xs ih => rw [List.flatMap_cons, ih]; rfl
  rw [this]
  exact applySetpos_nil _

/-- a grid minute on a day that is not in the set selects nothing -/
theorem mbe_skip_day (ma : MinutelyByEArgs a) (k : Nat) (st : State) (hg : MinutelyEGood a r k st)
    (hno : Spec.RRule.dateOk a (curOrd st.cur) = false) (j : Nat) (hkj : k < j)
    (hj : ((j : Int) - k) * a.interval ≤ 1439 - (st.cur.hour * 60 + st.cur.minute)) :
    Spec.RRule.sel a (j : Int) = [] := by
  have hi := ma.interval
  have hh := hg.hour
  have hmm := hg.minute
  have hpos : (0 : Int) ≤ ((j : Int) - k) * a.interval := Int.mul_nonneg (by omega) (by omega)
  generalize hM : st.cur.hour * 60 + st.cur.minute + ((j : Int) - k) * a.interval = M at *
  have hu : (curOrd st.cur * 24 + M / 60) * 60 + M % 60 =
      (Spec.RRule.startOrd a * 24 + a.dtstart.hh) * 60 + a.dtstart.mm + j * a.interval := by
    have := hg.idx
    have e : (j : Int) * a.interval = k * a.interval + ((j : Int) - k) * a.interval := by
      rw [← Int.add_mul]; congr 1; omega
    rw [e]; omega
  have hspan := mbe_span ma (curOrd st.cur) (M / 60) (M % 60) j (by omega) (by omega) (by omega) (by omega) hu
  rw [sel_span_gen a j _ _ _ _ _ hspan, intRange_one]
  simp only [List.filter_cons, hno, Bool.false_eq_true, ↓reduceIte, List.filter_nil, List.flatMap_nil]
  exact applySetpos_nil _

/-- one `advance`: the optional jump `X = s0·interval` inside the day, then `__mod_distance` to the least
    listed grid minute, `s ≤ 60` steps further -/
theorem mbe_advance_core (ma : MinutelyByEArgs a) (h : construct a = .ok r) (k : Nat) (st : State) (fl : Bool)
    (c : Option Int) (hg : MinutelyEGood a r k st) (s0 : Nat) (X : Int) (hX : X = s0 * a.interval)
    (hX0 : 0 ≤ X) (hXle : X ≤ 1439 - (st.cur.hour * 60 + st.cur.minute))
    (hmin0 : (if fl = true then st.cur.minute +
        Py.fdiv (1439 - (st.cur.hour * 60 + st.cur.minute)) r.interval * r.interval else st.cur.minute) =
      st.cur.minute + X)
    (hle : curOrd st.cur * 1440 + 1439 + 60 * a.interval < (emaxOrd + 1) * 1440) :
    ∃ (st' : State) (s : Nat), 1 ≤ s ∧ s ≤ 60 ∧ advance r { st with count := c } fl = .ok st' ∧
      MinutelyEGood a r (k + s0 + s) st' ∧
      ∀ t : Nat, 1 ≤ t → t < s → (minutesOf a).contains ((st.cur.minute + X + t * a.interval) % 60) = false := by
  have hw := mbe_erule ma h
  obtain ⟨bm, bs, hr, hbne, hbmem, _⟩ := mbe_rule ma h
  obtain ⟨l, hl, hlr⟩ := ma.minutes
  have hfreq : r.freq = 5 := by rw [hr]; exact ma.freq
  have hint : r.interval = a.interval := by rw [hr]
  have hbh : r.byhour = none := by rw [hr]
  have hbm : r.byminute = some bm := by rw [hr]
  have hi := ma.interval
  obtain ⟨hm1, hm12, hd1, hd2⟩ := hg.valid
  have hh := hg.hour
  have hmm := hg.minute
  have hidx := hg.idx
  have htr : truthy (some bm) = true := by
    cases bm with
    | nil => exact absurd rfl hbne
    | cons _ _ => rfl
  have htn : truthy (none : Option (List Int)) = false := rfl
  have ek0 : ((k + s0 : Nat) : Int) * a.interval = k * a.interval + X := by
    rw [hX]; push_cast; rw [Int.add_mul]
  -- the value before `__mod_distance` is on the orbit (it may exceed 59: the jump is not reduced)
  have hW : (st.cur.minute + X - a.dtstart.mm) % g60 a = 0 :=
    orbit_cong60 a (curOrd st.cur) st.cur.hour (st.cur.minute + X) ((k + s0 : Nat) : Int) (by rw [ek0]; omega)
  have hcontains : ∀ v, bm.contains v = true ↔ v ∈ bm := fun v => List.contains_iff_mem
  obtain ⟨reps, hreps⟩ := reps_pos r.interval 1440 (by omega)
  rcases modDistance_exact a.interval bm 60 (by omega) 60 0 (st.cur.minute + X) with
    ⟨s, hs1, hs2, hs3, hs4, hs5⟩ | ⟨hnone, _⟩
  · obtain ⟨nh, hnh⟩ : ∃ nh, nh = (st.cur.minute + X + (s : Int) * a.interval) / 60 := ⟨_, rfl⟩
    obtain ⟨mi', hmi'⟩ : ∃ mi', mi' = (st.cur.minute + X + (s : Int) * a.interval) % 60 := ⟨_, rfl⟩
    obtain ⟨nd, hnd⟩ : ∃ nd, nd = (st.cur.hour + nh) / 24 := ⟨_, rfl⟩
    obtain ⟨hr', hhr'⟩ : ∃ hr', hr' = (st.cur.hour + nh) % 24 := ⟨_, rfl⟩
    have hsi : (0 : Int) ≤ (s : Int) * a.interval := Int.mul_nonneg (by omega) (by omega)
    have hsi2 : (s : Int) * a.interval ≤ 60 * a.interval :=
      Int.mul_le_mul_of_nonneg_right (by omega) (by omega)
    have hdm : nh * 60 + mi' = st.cur.minute + X + (s : Int) * a.interval ∧ 0 ≤ mi' ∧ mi' ≤ 59 ∧ 0 ≤ nh ∧
        nd * 24 + hr' = st.cur.hour + nh ∧ 0 ≤ hr' ∧ hr' ≤ 23 ∧ 0 ≤ nd := by omega
    obtain ⟨d1, d2, d3, d4, d5, d6, d7, d8⟩ := hdm
    rw [← hmi'] at hs3
    have hin : mi' ∈ minutesOf a := ((hbmem mi').mp ((hcontains mi').mp hs3)).1
    obtain ⟨prod, hts, _, hspec⟩ := mtimeset_mb_e ma h hr' mi' d6 d7 d2 d3
    have hc2 : (minutesOf a).contains mi' = true := List.contains_iff_mem.mpr hin
    rw [hc2] at hspec
    simp only [↓reduceIte] at hspec
    have ek : ((k + s0 + s : Nat) : Int) * a.interval = k * a.interval + X + (s : Int) * a.interval := by
      rw [hX]; push_cast; rw [Int.add_mul, Int.add_mul]
    have hloop : minutelyLoop r (reps + 1) (st.cur.minute + X) st.cur.hour st.cur.day false =
        .ok (mi', hr', (if nd ≠ 0 then st.cur.day + nd else st.cur.day), decide (nd ≠ 0)) := by
      unfold minutelyLoop
      rw [hbh, hbm, htr, htn]
      simp only [↓reduceIte, Option.getD_some, hint, hs5, Int.zero_add, Py.divmod,
        Py.fdiv_pos _ (by decide : (0 : Int) < 24), Py.fmod_pos _ (by decide : (0 : Int) < 24),
        Bool.not_false, Bool.true_or]
      rw [← hnh, ← hmi', ← hnd, ← hhr']
      by_cases hz : nd = 0 <;> simp [hz]
    have hadv : ∃ st', advance r { st with count := c } fl = .ok st' ∧ MinutelyEGood a r (k + s0 + s) st' := by
      unfold advance
      dsimp only
      rw [if_neg (by simp [hfreq]), if_neg (by simp [hfreq]), if_neg (by simp [hfreq]), if_neg (by simp [hfreq]),
          if_neg (by simp [hfreq]), if_pos (by simp [hfreq]), hmin0, hreps, hloop]
      dsimp only
      unfold gettimeset
      rw [if_neg (by simp [hfreq]), if_pos (by simp [hfreq]), hts]
      dsimp only
      by_cases hz : nd = 0
      · subst hz
        simp only [ne_eq, not_true_eq_false, ↓reduceIte, decide_false]
        rw [fixDay_false]
        refine ⟨_, rfl, ⟨hg.facts, hg.inv, hg.valid, ⟨d6, d7⟩, ⟨d2, d3⟩, ?_, by dsimp only; rw [hspec]⟩⟩
        dsimp only
        have : curOrd { st.cur with hour := hr', minute := mi' } = curOrd st.cur := rfl
        rw [this, ek]; omega
      · simp only [ne_eq, hz, not_false_eq_true, ↓reduceIte, decide_true]
        have hcur : curOrd { st.cur with day := st.cur.day + nd, hour := hr', minute := mi' } = curOrd st.cur + nd := by
          unfold curOrd toOrdinal; dsimp only; omega
        obtain ⟨st', hfix, hnw'⟩ := fixDay_ok_e hw
          { cur := { st.cur with day := st.cur.day + nd, hour := hr', minute := mi' }, info := st.info,
            timeset := prod, count := c }
          true hg.facts hm1 hm12 (by dsimp only; omega) (by dsimp only; rw [hcur]; omega) hg.inv
        have sp := fixDay_spec r _ st' hfix hm1 hm12 (by dsimp only; omega) hg.facts
        obtain ⟨e, v, f', eh, em, _, _, ts⟩ := sp
        refine ⟨st', hfix, ⟨f', hnw', v, by rw [eh]; exact ⟨d6, d7⟩, by rw [em]; exact ⟨d2, d3⟩, ?_,
          by rw [ts, eh, em]; dsimp only; rw [hspec]⟩⟩
        rw [e, eh, em]
        dsimp only
        rw [hcur, ek]; omega
    obtain ⟨st', hadv', hg'⟩ := hadv
    refine ⟨st', s, hs1, hs2, hadv', hg', ?_⟩
    intro t ht1 ht2
    have hnb := hs4 t ht1 ht2
    cases hq : (minutesOf a).contains ((st.cur.minute + X + (t : Int) * a.interval) % 60) with
    | false => rfl
    | true =>
      exfalso
      have hmem : (st.cur.minute + X + (t : Int) * a.interval) % 60 ∈ bm :=
        (hbmem _).mpr ⟨List.contains_iff_mem.mp hq, on_orbit60 a _ _ hW⟩
      rw [(hcontains _).mpr hmem] at hnb
      cases hnb
  · exfalso
    obtain ⟨x, hx⟩ : ∃ x, x ∈ bm := by
      cases bm with
      | nil => exact absurd rfl hbne
      | cons x _ => exact ⟨x, List.mem_cons_self ..⟩
    obtain ⟨hxl, hxc⟩ := (hbmem x).mp hx
    have hxr : 0 ≤ x ∧ x ≤ 59 := hlr x (by unfold minutesOf at hxl; rw [hl] at hxl; exact hxl)
    have hdiff : (x - (st.cur.minute + X)) % g60 a = 0 := by
      have d1 := Int.dvd_of_emod_eq_zero hxc
      have d2 := Int.dvd_of_emod_eq_zero hW
      have e : x - (st.cur.minute + X) = (x - a.dtstart.mm) - (st.cur.minute + X - a.dtstart.mm) := by omega
      rw [e]; exact Int.emod_eq_zero_of_dvd (Int.dvd_sub d1 d2)
    obtain ⟨s, hs1, hs2, hs3⟩ := reach60 a.interval (st.cur.minute + X) x hxr hdiff
    have := hnone s hs1 hs2
    rw [hs3, (hcontains x).mpr hx] at this
    cases this

theorem mbe_next (ma : MinutelyByEArgs a) (h : construct a = .ok r) (k : Nat) (st : State) (fl : Bool)
    (c : Option Int) (hg : MinutelyEGood a r k st)
    (hfl : fl = true → Spec.RRule.dateOk a (curOrd st.cur) = false)
    (hle : curOrd st.cur * 1440 + 1439 + 60 * a.interval < (emaxOrd + 1) * 1440) :
    ∃ st' k', advance r { st with count := c } fl = .ok st' ∧ k < k' ∧ k' ≤ k + 1500 ∧ MinutelyEGood a r k' st' ∧
      ∀ j : Nat, k < j → j < k' → Spec.RRule.sel a (j : Int) = [] := by
  obtain ⟨bm, bs, hr, _⟩ := mbe_rule ma h
  have hint : r.interval = a.interval := by rw [hr]
  have hi := ma.interval
  have hh := hg.hour
  have hmm := hg.minute
  have htail : ∀ (s0 : Nat) (X : Int), X = s0 * a.interval → 0 ≤ X →
      X ≤ 1439 - (st.cur.hour * 60 + st.cur.minute) → ∀ (s : Nat),
      (∀ t : Nat, 1 ≤ t → t < s → (minutesOf a).contains ((st.cur.minute + X + t * a.interval) % 60) = false) →
      ∀ j : Nat, k + s0 < j → j < k + s0 + s → Spec.RRule.sel a (j : Int) = [] := by
    intro s0 X hX hX0 hXle s hmin j hj1 hj2
    have ht := hmin (j - k - s0) (by omega) (by omega)
    have ecast : (((j - k - s0 : Nat)) : Int) = (j : Int) - k - s0 := by omega
    rw [ecast] at ht
    have hpos : (0 : Int) ≤ ((j : Int) - k - s0) * a.interval := Int.mul_nonneg (by omega) (by omega)
    generalize hV : st.cur.minute + X + ((j : Int) - k - s0) * a.interval = V at ht
    -- minute-of-grid: hour·60 + V, split into (days, hour, minute)
    apply mbe_skip_minute ma h j (curOrd st.cur + (st.cur.hour + V / 60) / 24) ((st.cur.hour + V / 60) % 24) (V % 60)
      (by omega) (by omega) (by omega) (by omega) ?_ ht
    have := hg.idx
    have e : (j : Int) * a.interval = k * a.interval + X + ((j : Int) - k - s0) * a.interval := by
      rw [hX, ← Int.add_mul, ← Int.add_mul]; congr 1; omega
    rw [e]; omega
  cases fl with
  | false =>
    obtain ⟨st', s, hs1, hs2, hadv, hg', hmin⟩ := mbe_advance_core ma h k st false c hg 0 0 (by simp) (by omega)
      (by omega) (by simp) hle
    refine ⟨st', k + 0 + s, hadv, by omega, by omega, hg', ?_⟩
    intro j h1 h2
    exact htail 0 0 (by simp) (by omega) (by omega) s hmin j (by omega) (by omega)
  | true =>
    generalize hR : 1439 - (st.cur.hour * 60 + st.cur.minute) = R at *
    have hR0 : 0 ≤ R := by omega
    have hq0 : 0 ≤ R / a.interval := Int.ediv_nonneg hR0 (by omega)
    have hqX : R / a.interval * a.interval ≤ R := Int.ediv_mul_le _ (by omega)
    have hq1 : R / a.interval * 1 ≤ R / a.interval * a.interval := Int.mul_le_mul_of_nonneg_left hi hq0
    have hcast : ((R / a.interval).toNat : Int) = R / a.interval := Int.toNat_of_nonneg hq0
    obtain ⟨st', s, hs1, hs2, hadv, hg', hmin⟩ := mbe_advance_core ma h k st true c hg (R / a.interval).toNat
      (R / a.interval * a.interval) (by rw [hcast]) (Int.mul_nonneg hq0 (by omega)) (by rw [hR]; exact hqX)
      (by simp only [↓reduceIte]; rw [hR, Py.fdiv_pos _ (by omega), hint]) hle
    refine ⟨st', k + (R / a.interval).toNat + s, hadv, by omega, by omega, hg', ?_⟩
    intro j h1 h2
    by_cases hc : j ≤ k + (R / a.interval).toNat
    · apply mbe_skip_day ma k st hg (hfl rfl) j h1
      have hjq : (j : Int) - k ≤ R / a.interval := by omega
      have := Int.mul_le_mul_of_nonneg_right hjq (show (0 : Int) ≤ a.interval by omega)
      omega
    · exact htail _ _ (by rw [hcast]) (Int.mul_nonneg hq0 (by omega)) hqX s hmin j (by omega) h2

theorem mbe_init (ma : MinutelyByEArgs a) (h : construct a = .ok r) (hlo : 1583 ≤ a.dtstart.y)
    (hhi : Spec.RRule.startOrd a ≤ emaxOrd) :
    ∃ st0, init r = .ok st0 ∧ MinutelyEGood a r 0 st0 ∧ st0.count = r.count := by
  have hw := mbe_erule ma h
  have hv := ma.valid
  unfold DT.Valid ValidDate at hv
  obtain ⟨info, hre, hnw⟩ := rebuild_e hw a.dtstart.y a.dtstart.m hlo (start_year_hi a ma.valid hhi)
  obtain ⟨bm, bs, hr, hbne, hbmem, _⟩ := mbe_rule ma h
  have hd : r.dtstart = { a.dtstart with us := 0 } := by rw [hr]
  have hf : r.freq = 5 := by rw [hr]; exact ma.freq
  have hbh : r.byhour = none := by rw [hr]
  have hbm : r.byminute = some bm := by rw [hr]
  have htr : truthy (some bm) = true := by
    cases bm with
    | nil => exact absurd rfl hbne
    | cons _ _ => rfl
  have htn : truthy (none : Option (List Int)) = false := rfl
  obtain ⟨prod, hts, _, hspec⟩ := mtimeset_mb_e ma h a.dtstart.hh a.dtstart.mm hv.2.1 hv.2.2.1 hv.2.2.2.1 hv.2.2.2.2.1
  have hmem : bm.contains a.dtstart.mm = (minutesOf a).contains a.dtstart.mm := by
    rw [Bool.eq_iff_iff, List.contains_iff_mem, List.contains_iff_mem, hbmem]
    constructor
    · exact fun h => h.1
    · intro h; exact ⟨h, by rw [Int.sub_self]; exact Int.zero_emod _⟩
  refine ⟨{ cur := { year := a.dtstart.y, month := a.dtstart.m, day := a.dtstart.d, hour := a.dtstart.hh,
                     minute := a.dtstart.mm, second := a.dtstart.ss, weekday := r.dtstart.weekday },
            info := info, timeset := Spec.RRule.timesOf a (some a.dtstart.hh) (some a.dtstart.mm) none,
            count := r.count }, ?_, ?_, rfl⟩
  · unfold init gettimeset
    simp only [hd, bind, Except.bind, hre, hf, hbh, hbm, htr, htn, memO, hmem, pure, Except.pure]
    rw [hspec]
    by_cases c : a.dtstart.mm ∈ minutesOf a
    · simp [c, hts]
    · simp [c]
  · refine ⟨rebuild_facts r _ _ info hre, hnw, hv.1.2.2, ⟨hv.2.1, hv.2.2.1⟩, ⟨hv.2.2.2.1, hv.2.2.2.2.1⟩, ?_, rfl⟩
    unfold curOrd Spec.RRule.startOrd DT.ordinal; simp

/-- **`iter_eq_spec_minutely_byminute_easter`**: `iter_eq_spec_minutely_byminute` with BYEASTER instead of "no
    BYEASTER" — offsets −80..250 (the complement of D-C01d), no BYWEEKNO, a start in a year ≥ 1583 and every
    visited day not after 31 December 4099 (where C19 ties `easter.easter` to Meeus/Jones/Butcher); everything
    else as there, `n ≤ m ≤ 1500·n`. -/
theorem iter_eq_spec_minutely_byminute_easter (ma : MinutelyByEArgs a) (h : construct a = .ok r) (n : Nat)
    (hlo : 1583 ≤ a.dtstart.y)
    (hle : (Spec.RRule.startOrd a * 24 + a.dtstart.hh) * 60 + a.dtstart.mm + (1500 * n + 60) * a.interval + 1439 <
      (Cal.toOrdinal 4099 12 31 + 1) * 1440) :
    ∃ m, n ≤ m ∧ m ≤ 1500 * n ∧ (iter r n).1 = Spec.RRule.occ a m := by
  have hi := ma.interval
  have hmx := emaxOrd_le
  have hE : Cal.toOrdinal 4099 12 31 = emaxOrd := rfl
  rw [hE] at hle
  have hnn : (0 : Int) ≤ ((1500 * n + 60 : Int)) * a.interval := Int.mul_nonneg (by omega) (by omega)
  have hbound : ∀ k : Nat, k < 1500 * n → ∀ st, MinutelyEGood a r k st →
      curOrd st.cur * 1440 + 1439 + 60 * a.interval < (emaxOrd + 1) * 1440 := by
    intro k hk st hg
    have := hg.idx
    have hh := hg.hour
    have hmm := hg.minute
    have hmono : (k : Int) * a.interval ≤ (1500 * (n : Int)) * a.interval :=
      Int.mul_le_mul_of_nonneg_right (by omega) (by omega)
    have e' : ((1500 : Int) * n + 60) * a.interval = (1500 * (n : Int)) * a.interval + 60 * a.interval := by
      rw [Int.add_mul]
    rw [e'] at hle
    omega
  have sim : SkipSim a r (1500 * n) 1500 (MinutelyEGood a r) := {
    agree := mbe_cuts ma h
    step := by
      intro k st hk hg
      have hb := hbound k hk st hg
      have hi60 : a.interval ≤ 60 * a.interval := by omega
      obtain ⟨fl, hres, hflag, hbnd⟩ := mbe_results ma h k st hg (by omega)
      refine ⟨fl, [], Spec.RRule.sel a (k : Int), hres, rfl, by simp, hbnd, ?_⟩
      intro c
      exact mbe_next ma h k st fl c hg hflag hb }
  have hv := ma.valid
  unfold DT.Valid at hv
  obtain ⟨st0, hinit, hg0, hc0⟩ := mbe_init ma h hlo (by omega)
  exact iter_refines_skip sim (by omega) st0 hinit hg0 hc0 n (by omega)

-- non-vacuity: the hypotheses are satisfiable
example : MinutelyByEArgs { freq := 5, dtstart := ⟨2024, 1, 1, 10, 0, 0, 0⟩, byeaster := some [0, 1],
                            byminute := some [0, 30] } :=
  { freq := rfl, interval := (by decide), valid := (by decide), byweekno := rfl,
    easter := ⟨[0, 1], rfl, by simp, by intro o ho; simp at ho; omega⟩,
    monthday_nz := (by intro x hx; simp at hx), byhour := rfl, minutes := ⟨[0, 30], rfl, by intro x hx; simp at hx; omega⟩,
    seconds_ok := (by intro x hx; simp at hx) }

end RRule
