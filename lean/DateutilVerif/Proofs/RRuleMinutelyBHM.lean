/-
  Proofs/RRuleMinutelyBHM.lean — MINUTELY WITH BYMINUTE and optionally BYHOUR (in particular both together, the case
  `MinutelyByArgs` and `MinutelyBHArgs` exclude) under the explicit reachability hypothesis `reachableMM`: some minute of
  the grid has listed hour and minute.  Each pass of the reachability loop runs `__mod_distance` over the BYMINUTE tuple
  that passed `__construct_byset` (`minutelyLoop_bm`); on the grid that tuple and the BYMINUTE argument list the same
  minutes, and `orbit_window` bounds the search by the loop's own 1440 / gcd(interval, 1440).
-/
import DateutilVerif.Proofs.RRuleMinutelyLoopBM
import DateutilVerif.Proofs.RRuleMinutelyBH
import DateutilVerif.Proofs.RRuleSecondlyBHM

namespace RRule
open Cal

structure MinutelyBHMArgs (a : Args) : Prop where
  freq : a.freq = 5
  interval : 1 ≤ a.interval
  valid : a.dtstart.Valid
  weekno : WArg a
  byeaster : a.byeaster = none
  monthday_nz : ∀ x ∈ a.bymonthday.getD [], x ≠ 0
  hours : a.byhour = none ∨ ∃ l, a.byhour = some l ∧ l ≠ []
  minutes : ∃ l, a.byminute = some l
  seconds_ok : ∀ x ∈ a.bysecond.getD [], 0 ≤ x ∧ x ≤ 59
  reach : reachableMM a

variable {a : Args} {r : Rule}

theorem mbhm_dw (ma : MinutelyBHMArgs a) : DWArgs (asDaily0 a) :=
  ⟨Or.inr rfl, ma.interval, ma.valid, rfl, ma.byeaster, ma.monthday_nz⟩

abbrev minutelyBHMRuleOf (a : Args) (bm : List Int) (bs : Option (List Int)) : Rule :=
  { freq := a.freq, interval := a.interval, wkst := a.wkst.getD 0,
    dtstart := { a.dtstart with us := 0 }, tz := a.tz, count := a.count, untilDT := a.untilDT,
    bysetpos := a.bysetpos, bymonth := a.bymonth.map sortedSet, bymonthday := bymonthdayOf a,
    bynmonthday := bynmonthdayOf a, byyearday := a.byyearday.map sortedSet,
    byeaster := none, byweekno := a.byweekno.map sortedSet,
    byweekday := byweekdayOf a, bynweekday := bynweekdayOf a,
    byhour := a.byhour.map sortedSet, byminute := some bm, bysecond := bs, timeset := none }

theorem mbhm_rule (ma : MinutelyBHMArgs a) (h : construct a = .ok r) :
    ∃ bm bs, r = minutelyBHMRuleOf a bm bs ∧ bm ≠ [] ∧
      (∀ x, x ∈ bm ↔ x ∈ a.byminute.getD [] ∧ (x - a.dtstart.mm) % g60 a = 0) ∧
      normUnit a.freq 6 a.interval a.dtstart.ss a.bysecond 60 = .ok bs := by
  obtain ⟨sp, bh, bm, bs, ts, h1, h2, h3, h4, h5, rfl⟩ := construct_ok a r h
  have hsp := (normBysetpos_ok a sp h1).1
  subst hsp
  obtain ⟨l, hl⟩ := ma.minutes
  have hbh := normUnit_above _ _ _ _ _ _ _ (by rw [ma.freq]; omega) h2
  have hts : ts = none := by
    unfold timesetOf at h5
    rw [if_pos (by rw [ma.freq]; omega)] at h5
    injection h5 with h5; exact h5.symm
  subst hbh hts
  unfold normUnit at h3
  rw [hl] at h3
  dsimp only at h3
  rw [if_pos (by simp [ma.freq])] at h3
  unfold constructByset at h3
  dsimp only at h3
  split at h3
  · rename_i c hc
    split at hc
    · cases hc
    · rename_i hne
      injection hc with hc
      injection h3 with h3
      subst h3
      have hne0 : (a.freq == 0) = false := by simp [ma.freq]
      refine ⟨sortBy ltInt c, bs, by simp [minutelyBHMRuleOf, hne0, ma.byeaster, bymonthOf], ?_, ?_, h4⟩
      · intro he
        have : c.isEmpty = true := by
          rw [isEmpty_of_mem_iff c (sortBy ltInt c) (fun x => (mem_sortBy ltInt x c).symm), he]; rfl
        rw [← hc] at this
        exact hne this
      · intro x
        rw [mem_sortBy, ← hc, mem_dedup, List.mem_filter]
        have hgp := g60_pos a
        unfold g60 at hgp ⊢
        rw [hl, Option.getD_some, Py.fmod_pos _ hgp]
        constructor
        · rintro ⟨hx, hcond⟩
          refine ⟨hx, ?_⟩
          simp only [Bool.or_eq_true, beq_iff_eq] at hcond
          rcases hcond with h1 | h1
          · rw [h1]; omega
          · exact h1
        · rintro ⟨hx, hcond⟩
          exact ⟨hx, by simp only [Bool.or_eq_true, beq_iff_eq]; right; exact hcond⟩
  · cases h3

theorem mbhm_cuts (ma : MinutelyBHMArgs a) (h : construct a = .ok r) : CutsAgree a r := by
  obtain ⟨bm, bs, hr, _⟩ := mbhm_rule ma h
  rw [hr]; exact ⟨rfl, rfl, rfl⟩

theorem mbhm_wrule (ma : MinutelyBHMArgs a) (h : construct a = .ok r) : WRule r := by
  have hd := construct_nth_demoted a r h (by rw [ma.freq]; omega)
  obtain ⟨bm, bs, hr, _⟩ := mbhm_rule ma h
  rw [hr] at hd ⊢
  refine wrule_of a _ ma.weekno rfl rfl ?_ rfl
  dsimp only at hd ⊢
  rcases hd with hd | hd <;> rw [hd] <;> rfl

theorem mbhm_bridge (ma : MinutelyBHMArgs a) (h : construct a = .ok r) (ord : Int) (ho : 1 ≤ ord) :
    (simpleOk r ord && wclause r ord) = Spec.RRule.dateOk a ord := by
  obtain ⟨bm, bs, hr, _⟩ := mbhm_rule ma h
  rw [hr]
  exact wOk_eq_dateOk a _ (by rw [ma.freq]; omega) (mbhm_dw ma) rfl rfl rfl rfl rfl rfl rfl ord ho

/-- a minute-of-day count on the grid (any number of whole days away) has its minute-of-hour congruent to the
    start's modulo gcd(interval, 60) -/
theorem orbitM (a : Args) (V k z : Int)
    (hV : V = a.dtstart.hh * 60 + a.dtstart.mm + k * a.interval + 1440 * z) :
    (V % 60 - a.dtstart.mm) % g60 a = 0 := by
  have d1 : g60 a ∣ a.interval := Int.gcd_dvd_left a.interval 60
  have d2 : g60 a ∣ 60 := Int.gcd_dvd_right a.interval 60
  have e : V % 60 - a.dtstart.mm = k * a.interval + 60 * (a.dtstart.hh + 24 * z - V / 60) := by
    generalize k * a.interval = P at hV ⊢
    omega
  rw [e]
  exact Int.emod_eq_zero_of_dvd (Int.dvd_add (Int.dvd_trans d1 (Int.dvd_mul_left k a.interval))
    (Int.dvd_trans d2 (Int.dvd_mul_right 60 _)))

/-- on the grid, the model's acceptance test is the argument lists' -/
theorem okM2_eq (ma : MinutelyBHMArgs a) (h : construct a = .ok r) (V : Int)
    (horb : (V % 60 - a.dtstart.mm) % g60 a = 0) :
    okM2 r V = (listedO a.byhour (V / 60 % 24) && listedO a.byminute (V % 60)) := by
  obtain ⟨bm, bs, hr, _, hbmem, _⟩ := mbhm_rule ma h
  obtain ⟨l, hl⟩ := ma.minutes
  rw [hr]
  unfold okM2 okM
  dsimp only
  rw [mlisted _ ma.hours]
  congr 1
  show bm.contains (V % 60) = listedO a.byminute (V % 60)
  unfold listedO
  rw [hl]
  show bm.contains (V % 60) = (false || l.contains (V % 60))
  rw [Bool.false_or, Bool.eq_iff_iff, List.contains_iff_mem, List.contains_iff_mem, hbmem, hl]
  exact ⟨fun h => h.1, fun h => ⟨h, horb⟩⟩

/-- the minute's time set: the model's `mtimeset`, and the specification's (empty when hour or minute is not listed) -/
theorem mtimeset_mbhm (ma : MinutelyBHMArgs a) (h : construct a = .ok r) (hour minute : Int)
    (h0 : 0 ≤ hour) (h1 : hour ≤ 23) (m0 : 0 ≤ minute) (m1 : minute ≤ 59) :
    ∃ prod, mtimeset r hour minute = .ok prod ∧ TsOk prod ∧
      Spec.RRule.timesOf a (some hour) (some minute) none =
        (if (listedO a.byhour hour && listedO a.byminute minute) = true then prod else []) := by
  obtain ⟨bm, bs, hr, _, _, h4⟩ := mbhm_rule ma h
  have n4 := normUnit_nodup _ _ _ _ _ _ _ h4
  have m4 := normUnit_mem _ _ _ _ _ _ _ (by rw [ma.freq]; omega) h4
  have hv := ma.valid
  unfold DT.Valid at hv
  have hvs : ∀ x ∈ bs.getD [], 0 ≤ x ∧ x ≤ 59 := by
    intro x hx
    have := (m4 x).mp hx
    cases hb : a.bysecond with
    | none => rw [hb] at this; simp at this; omega
    | some l => rw [hb] at this; exact ma.seconds_ok x (by rw [hb]; exact this)
  have hvalid : ∀ t ∈ productHMS [hour] [minute] (bs.getD []), ValidHMS t := by
    intro t ht
    rw [mem_productHMS] at ht
    obtain ⟨a1, a2, a3⟩ := ht
    simp at a1 a2
    have := hvs _ a3
    unfold ValidHMS; omega
  have hH : Spec.RRule.hours a = unitList a.byhour 24 := by
    unfold Spec.RRule.hours unitList
    cases a.byhour with
    | some l => rfl
    | none => dsimp only; rw [if_neg (show ¬ a.freq < 4 by rw [ma.freq]; omega)]
  have hM : Spec.RRule.minutes a = unitList a.byminute 60 := by
    unfold Spec.RRule.minutes unitList
    cases a.byminute with
    | some l => rfl
    | none => dsimp only; rw [if_neg (show ¬ a.freq < 5 by rw [ma.freq]; omega)]
  have hS : Spec.RRule.seconds a = specUnit a.bysecond a.dtstart.ss 60 := by
    unfold Spec.RRule.seconds specUnit
    cases a.bysecond with
    | some l => rfl
    | none => dsimp only; rw [if_pos (show a.freq < 6 by rw [ma.freq]; omega)]
  have hspec : Spec.RRule.timesOf a (some hour) (some minute) none =
      (if (listedO a.byhour hour && listedO a.byminute minute) = true
       then productHMS [hour] [minute] (specUnit a.bysecond a.dtstart.ss 60) else []) := by
    unfold Spec.RRule.timesOf
    rw [hH, hM, hS, restrict_listed _ 24 hour (filter_eq_hour hour h0 h1),
      restrict_listed _ 60 minute (filter_eq_minute minute m0 m1)]
    cases listedO a.byhour hour <;> cases listedO a.byminute minute <;>
      simp [productHMS, Spec.RRule.restrict]
  have hsorted := productHMS_sorted [hour] [minute] _ (by simp) (by simp)
    (specUnit_sorted a.bysecond a.dtstart.ss 60)
  have hsu : ∀ (arg : Option (List Int)) (start bound x : Int), 0 ≤ x → x < bound →
      (x ∈ specUnit arg start bound ↔ x ∈ (match arg with | some l => l | none => [start])) := by
    intro arg start bound x h0 h1
    unfold specUnit
    cases arg with
    | none => rfl
    | some l =>
      simp only [List.mem_filter, mem_intRange, List.contains_iff_mem]
      constructor
      · exact fun h => h.2
      · exact fun h => ⟨⟨h0, h1⟩, h⟩
  have hsu' : ∀ (arg : Option (List Int)) (start bound x : Int), x ∈ specUnit arg start bound →
      x ∈ (match arg with | some l => l | none => [start]) := by
    intro arg start bound x hx
    unfold specUnit at hx
    cases arg with
    | none => exact hx
    | some l =>
      simp only [List.mem_filter, List.contains_iff_mem] at hx
      exact hx.2
  have heq : sortBy ltHMS (productHMS [hour] [minute] (bs.getD [])) =
      productHMS [hour] [minute] (specUnit a.bysecond a.dtstart.ss 60) := by
    apply sorted_ext strictHMS
    · exact sortBy_pairwise strictHMS _ (fun _ _ => trivial) (productHMS_nodup _ _ _ (by simp) (by simp) n4)
    · exact hsorted
    · intro t
      rw [mem_sortBy, mem_productHMS, mem_productHMS]
      constructor
      · rintro ⟨a1, a2, a3⟩
        have v3 := hvs _ a3
        exact ⟨a1, a2, (hsu _ _ 60 _ v3.1 (by omega)).mpr ((m4 _).mp a3)⟩
      · rintro ⟨a1, a2, a3⟩
        exact ⟨a1, a2, (m4 _).mpr (hsu' _ _ _ _ a3)⟩
  refine ⟨productHMS [hour] [minute] (specUnit a.bysecond a.dtstart.ss 60), ?_, ?_, hspec⟩
  · unfold mtimeset buildTimeset
    rw [hr]
    dsimp only
    rw [checkTimes_of_valid _ hvalid]
    dsimp only
    rw [heq]
  · rw [← heq]
    refine ⟨sortBy_pairwise strictHMS _ (fun _ _ => trivial) (productHMS_nodup _ _ _ (by simp) (by simp) n4), ?_⟩
    intro t ht
    rw [mem_sortBy] at ht
    exact hvalid t ht

theorem timesOf_mbhm_ok (ma : MinutelyBHMArgs a) (h : construct a = .ok r) (hour minute : Int)
    (h0 : 0 ≤ hour) (h1 : hour ≤ 23) (m0 : 0 ≤ minute) (m1 : minute ≤ 59) :
    TsOk (Spec.RRule.timesOf a (some hour) (some minute) none) := by
  obtain ⟨prod, _, hok, hspec⟩ := mtimeset_mbhm ma h hour minute h0 h1 m0 m1
  rw [hspec]; split
  · exact hok
  · exact tsOk_nil

theorem mbhm_span (ma : MinutelyBHMArgs a) (ord hour minute : Int) (k : Nat) (h0 : 0 ≤ hour) (h1 : hour ≤ 23)
    (m0 : 0 ≤ minute) (m1 : minute ≤ 59)
    (hu : (ord * 24 + hour) * 60 + minute =
      (Spec.RRule.startOrd a * 24 + a.dtstart.hh) * 60 + a.dtstart.mm + k * a.interval) :
    Spec.RRule.periodSpan a (k * a.interval) = (ord, ord + 1, some hour, some minute, none) := by
  unfold Spec.RRule.periodSpan
  rw [if_neg (by simp [ma.freq]), if_neg (by simp [ma.freq]), if_neg (by simp [ma.freq]),
      if_neg (by simp [ma.freq]), if_neg (by simp [ma.freq]), if_pos (by simp [ma.freq])]
  dsimp only
  rw [← hu]
  have e1 : ((ord * 24 + hour) * 60 + minute) / 1440 = ord := by omega
  have e2 : ((ord * 24 + hour) * 60 + minute) / 60 % 24 = hour := by omega
  have e3 : ((ord * 24 + hour) * 60 + minute) % 60 = minute := by omega
  rw [e1, e2, e3]

theorem mbhm_results (ma : MinutelyBHMArgs a) (h : construct a = .ok r) (k : Nat) (st : State)
    (hg : MinutelyGood a r k st) (hle : curOrd st.cur ≤ maxOrdinal) :
    ∃ fl, periodResults r st = .ok (Spec.RRule.sel a (k : Int), none, fl) ∧
      (fl = true → Spec.RRule.dateOk a (curOrd st.cur) = false) ∧
      ∀ x ∈ Spec.RRule.sel a (k : Int), 0 ≤ x.ord ∧ x.ord ≤ maxOrdinal := by
  have hw := mbhm_wrule ma h
  obtain ⟨bm, bs, hr, _⟩ := mbhm_rule ma h
  have hfreq : r.freq = 5 := by rw [hr]; exact ma.freq
  have hsp := construct_bysetpos a r h
  have htsok : TsOk st.timeset := by
    rw [hg.timeset]; exact timesOf_mbhm_ok ma h _ _ hg.hour.1 hg.hour.2 hg.minute.1 hg.minute.2
  have hpos : 1 ≤ curOrd st.cur := toOrdinal_pos _ _ _ hg.facts.year_lo hg.valid
  obtain ⟨fl, hres, hflag⟩ := periodResults_day_w hw st hg.facts hg.inv hg.valid (by omega)
    (by rw [hsp.1]; exact hsp.2) htsok hle
  have hbridge : (intRange (curOrd st.cur) (curOrd st.cur + 1)).filter (fun o => simpleOk r o && wclause r o) =
      (intRange (curOrd st.cur) (curOrd st.cur + 1)).filter (Spec.RRule.dateOk a) := by
    apply List.filter_congr
    intro o ho
    exact mbhm_bridge ma h o (by have := (mem_intRange _ _ _).mp ho; omega)
  have hspan := mbhm_span ma (curOrd st.cur) st.cur.hour st.cur.minute k hg.hour.1 hg.hour.2 hg.minute.1 hg.minute.2
    hg.idx
  have hsel := sel_span_gen a k _ _ _ _ _ hspan
  refine ⟨fl, ?_, ?_, ?_⟩
  · rw [hres, hg.timeset, hsel, hbridge, hsp.1]
  · intro hf
    rw [← mbhm_bridge ma h _ hpos]
    exact hflag hf
  · intro x hx
    rw [hsel] at hx
    have := sel_bounds _ _ _ _ x (applySetpos_subset _ _ x hx)
    omega

/-- a grid minute whose hour or minute is not listed selects nothing -/
theorem mbhm_skip_unlisted (ma : MinutelyBHMArgs a) (h : construct a = .ok r) (j : Nat) (ord hour minute : Int)
    (h0 : 0 ≤ hour) (h1 : hour ≤ 23) (m0 : 0 ≤ minute) (m1 : minute ≤ 59)
    (hu : (ord * 24 + hour) * 60 + minute =
      (Spec.RRule.startOrd a * 24 + a.dtstart.hh) * 60 + a.dtstart.mm + j * a.interval)
    (hno : (listedO a.byhour hour && listedO a.byminute minute) = false) : Spec.RRule.sel a (j : Int) = [] := by
  obtain ⟨prod, _, _, hspec⟩ := mtimeset_mbhm ma h hour minute h0 h1 m0 m1
  rw [hno] at hspec
  simp only [Bool.false_eq_true, ↓reduceIte] at hspec
  rw [sel_span_gen a j _ _ _ _ _ (mbhm_span ma ord hour minute j h0 h1 m0 m1 hu), hspec]
  have : ∀ (l : List Int), l.flatMap (fun o => ([].map (mkInst o) : List Inst)) = [] := by
    intro l; induction l with
    | nil => rfl
    | cons x xs ih => rw [List.flatMap_cons, ih]; rfl
  rw [this]
  exact applySetpos_nil _

/-- a grid minute on a day that is not in the set selects nothing -/
theorem mbhm_skip_day (ma : MinutelyBHMArgs a) (k : Nat) (st : State) (hg : MinutelyGood a r k st)
    (hno : Spec.RRule.dateOk a (curOrd st.cur) = false) (j : Nat) (hkj : k < j)
    (hj : ((j : Int) - k) * a.interval ≤ 1439 - (st.cur.hour * 60 + st.cur.minute)) :
    Spec.RRule.sel a (j : Int) = [] := by
  have hi := ma.interval
  have hh := hg.hour
  have hmm := hg.minute
  have hpos : (0 : Int) ≤ ((j : Int) - k) * a.interval := Int.mul_nonneg (by omega) (by omega)
  generalize hM : st.cur.hour * 60 + st.cur.minute + ((j : Int) - k) * a.interval = M at *
  have hu : (curOrd st.cur * 24 + M / 60) * 60 + M % 60 =
      (Spec.RRule.startOrd a * 24 + a.dtstart.hh) * 60 + a.dtstart.mm + j * a.interval := by
    have := hg.idx
    have e : (j : Int) * a.interval = k * a.interval + ((j : Int) - k) * a.interval := by
      rw [← Int.add_mul]; congr 1; omega
    rw [e]; omega
  have hspan := mbhm_span ma (curOrd st.cur) (M / 60) (M % 60) j (by omega) (by omega) (by omega) (by omega) hu
  rw [sel_span_gen a j _ _ _ _ _ hspan, intRange_one]
  simp only [List.filter_cons, hno, Bool.false_eq_true, ↓reduceIte, List.filter_nil, List.flatMap_nil]
  exact applySetpos_nil _

/-- one `advance`: the optional jump `X = s0·interval` inside the day, then the reachability loop to the least grid
    minute whose hour and minute are listed, `t ≤ 1440` steps further -/
theorem mbhm_advance_core (ma : MinutelyBHMArgs a) (h : construct a = .ok r) (k : Nat) (st : State) (fl : Bool)
    (c : Option Int) (hg : MinutelyGood a r k st) (s0 : Nat) (X : Int) (hX : X = s0 * a.interval)
    (hX0 : 0 ≤ X) (hXle : X ≤ 1439 - (st.cur.hour * 60 + st.cur.minute))
    (hmin0 : (if fl = true then st.cur.minute +
        Py.fdiv (1439 - (st.cur.hour * 60 + st.cur.minute)) r.interval * r.interval else st.cur.minute) =
      st.cur.minute + X)
    (hle : curOrd st.cur * 1440 + 1439 + 1440 * a.interval < (maxOrdinal + 1) * 1440) :
    ∃ (st' : State) (t : Nat), 1 ≤ t ∧ t ≤ 1440 ∧ advance r { st with count := c } fl = .ok st' ∧
      MinutelyGood a r (k + s0 + t) st' ∧
      ∀ t' : Nat, 1 ≤ t' → t' < t →
        (listedO a.byhour ((st.cur.hour * 60 + st.cur.minute + X + t' * a.interval) / 60 % 24) &&
         listedO a.byminute ((st.cur.hour * 60 + st.cur.minute + X + t' * a.interval) % 60)) = false := by
  have hw := mbhm_wrule ma h
  obtain ⟨bm, bs, hr, hbne, hbmem, _⟩ := mbhm_rule ma h
  have hfreq : r.freq = 5 := by rw [hr]; exact ma.freq
  have hint : r.interval = a.interval := by rw [hr]
  have hbm : r.byminute = some bm := by rw [hr]
  have htr : truthy (some bm) = true := by
    cases bm with
    | nil => exact absurd rfl hbne
    | cons _ _ => rfl
  have hi := ma.interval
  obtain ⟨hm1, hm12, hd1, hd2⟩ := hg.valid
  have hh := hg.hour
  have hmm := hg.minute
  have hidx := hg.idx
  -- every grid minute counted from the current day is on the orbit
  have horb : ∀ u : Nat, ((st.cur.hour * 60 + (st.cur.minute + X) + (u : Int) * a.interval) % 60 -
      a.dtstart.mm) % g60 a = 0 := by
    intro u
    apply orbitM a _ ((k + s0 + u : Nat) : Int) (Spec.RRule.startOrd a - curOrd st.cur)
    have e : ((k + s0 + u : Nat) : Int) * a.interval = k * a.interval + X + (u : Int) * a.interval := by
      rw [hX]; push_cast; rw [Int.add_mul, Int.add_mul]
    rw [e]; omega
  -- the loop's bound
  obtain ⟨reps, hreps⟩ := reps_pos r.interval 1440 (by omega)
  have hgpos : (0 : Int) < ((Int.gcd r.interval 1440 : Nat) : Int) := by
    have : 0 < Int.gcd r.interval 1440 := Int.gcd_pos_of_ne_zero_right _ (by omega)
    omega
  have hrepsv : ((reps + 1 : Nat) : Int) = 1440 / ((Int.gcd a.interval 1440 : Nat) : Int) := by
    rw [← hint, ← Py.fdiv_pos _ hgpos, ← hreps]
    have : 0 ≤ Py.fdiv 1440 ((Int.gcd r.interval 1440 : Nat) : Int) := by
      rw [Py.fdiv_pos _ hgpos]; exact Int.ediv_nonneg (by omega) (by omega)
    omega
  -- a fully listed minute is met within the bound
  have hreach : ∃ t : Nat, 1 ≤ t ∧ t ≤ reps + 1 ∧
      okM2 r (st.cur.hour * 60 + (st.cur.minute + X) + t * r.interval) = true := by
    have hr' := ma.reach
    unfold reachableMM at hr'
    rw [List.any_eq_true] at hr'
    obtain ⟨j, _, hj⟩ := hr'
    obtain ⟨t, ht1, ht2, z, hz⟩ := orbit_window a.interval 1440 (by omega) (k + s0) j
    refine ⟨t, ht1, by omega, ?_⟩
    rw [hint]
    have e : ((k + s0 + t : Nat) : Int) * a.interval = k * a.interval + X + (t : Int) * a.interval := by
      rw [hX]; push_cast; rw [Int.add_mul, Int.add_mul]
    have e2 : st.cur.hour * 60 + (st.cur.minute + X) + (t : Int) * a.interval =
        a.dtstart.hh * 60 + a.dtstart.mm + (j : Int) * a.interval -
          1440 * ((curOrd st.cur - Spec.RRule.startOrd a) - z) := by
      rw [e] at hz; omega
    rw [e2, okM2_shift, okM2_eq ma h _ (orbitM a _ (j : Int) 0 (by omega))]
    exact hj
  obtain ⟨t, ht1, ht2, ht3, ht4, ht5⟩ := minutelyLoop_bm r (by rw [hint]; exact hi) bm hbm htr
    (reps + 1) (st.cur.minute + X) st.cur.hour st.cur.day false (by omega) hh.1 hreach
  rw [hint] at ht3 ht4 ht5
  obtain ⟨D, hD⟩ : ∃ D, D = st.cur.hour * 60 + (st.cur.minute + X) + (t : Int) * a.interval := ⟨_, rfl⟩
  have horbD : (D % 60 - a.dtstart.mm) % g60 a = 0 := by rw [hD]; exact horb t
  rw [← hD] at ht3 ht5
  have hti : (0 : Int) ≤ (t : Int) * a.interval := Int.mul_nonneg (by omega) (by omega)
  have hP : 1440 / ((Int.gcd a.interval 1440 : Nat) : Int) ≤ 1440 := by
    rw [← hint]
    exact Int.ediv_le_self _ (by omega)
  have hti2 : (t : Int) * a.interval ≤ 1440 * a.interval :=
    Int.mul_le_mul_of_nonneg_right (by omega) (by omega)
  have ht1440 : t ≤ 1440 := by omega
  obtain ⟨nd, hnd⟩ : ∃ nd, nd = D / 1440 := ⟨_, rfl⟩
  obtain ⟨hr', hhr'⟩ : ∃ hr', hr' = D / 60 % 24 := ⟨_, rfl⟩
  obtain ⟨mi', hmi'⟩ : ∃ mi', mi' = D % 60 := ⟨_, rfl⟩
  have hDn : 0 ≤ D := by omega
  have hdm : nd * 1440 + hr' * 60 + mi' = D ∧ 0 ≤ mi' ∧ mi' ≤ 59 ∧ 0 ≤ hr' ∧ hr' ≤ 23 ∧ 0 ≤ nd := by omega
  obtain ⟨d1, d2, d3, d4, d5, d6⟩ := hdm
  rw [okM2_eq ma h _ horbD, ← hhr', ← hmi'] at ht3
  obtain ⟨prod, hts, _, hspec⟩ := mtimeset_mbhm ma h hr' mi' d4 d5 d2 d3
  rw [ht3] at hspec
  simp only [↓reduceIte] at hspec
  have ek : ((k + s0 + t : Nat) : Int) * a.interval = k * a.interval + X + (t : Int) * a.interval := by
    rw [hX]; push_cast; rw [Int.add_mul, Int.add_mul]
  have hadv : ∃ st', advance r { st with count := c } fl = .ok st' ∧ MinutelyGood a r (k + s0 + t) st' := by
    unfold advance
    dsimp only
    rw [if_neg (by simp [hfreq]), if_neg (by simp [hfreq]), if_neg (by simp [hfreq]), if_neg (by simp [hfreq]),
        if_neg (by simp [hfreq]), if_pos (by simp [hfreq]), hmin0, hreps, ht5]
    dsimp only
    rw [← hmi', ← hhr', ← hnd]
    unfold gettimeset
    rw [if_neg (by simp [hfreq]), if_pos (by simp [hfreq]), hts]
    dsimp only
    by_cases hz : nd = 0
    · subst hz
      simp only [ne_eq, not_true_eq_false, decide_false, Bool.or_false, Int.add_zero]
      rw [fixDay_false]
      refine ⟨_, rfl, ⟨hg.facts, hg.inv, hg.valid, ⟨d4, d5⟩, ⟨d2, d3⟩, ?_, by dsimp only; rw [hspec]⟩⟩
      dsimp only
      have : curOrd { st.cur with day := st.cur.day, hour := hr', minute := mi' } = curOrd st.cur := rfl
      rw [this, ek]; omega
    · simp only [ne_eq, hz, not_false_eq_true, decide_true, Bool.or_true]
      have hcur : curOrd { st.cur with day := st.cur.day + nd, hour := hr', minute := mi' } = curOrd st.cur + nd := by
        unfold curOrd toOrdinal; dsimp only; omega
      obtain ⟨st', hfix, hnw'⟩ := fixDay_ok_w hw
        { cur := { st.cur with day := st.cur.day + nd, hour := hr', minute := mi' }, info := st.info,
          timeset := prod, count := c }
        true hm1 hm12 (by dsimp only; omega) hg.facts.year_lo hg.facts.year_hi (by dsimp only; rw [hcur]; omega) hg.inv
      have sp := fixDay_spec r _ st' hfix hm1 hm12 (by dsimp only; omega) hg.facts
      obtain ⟨e, v, f', eh, em, _, _, ts⟩ := sp
      refine ⟨st', hfix, ⟨f', hnw', v, by rw [eh]; exact ⟨d4, d5⟩, by rw [em]; exact ⟨d2, d3⟩, ?_,
        by rw [ts, eh, em]; dsimp only; rw [hspec]⟩⟩
      rw [e, eh, em]
      dsimp only
      rw [hcur, ek]; omega
  obtain ⟨st', hadv', hg'⟩ := hadv
  refine ⟨st', t, ht1, ht1440, hadv', hg', ?_⟩
  intro t' a1 a2
  have := ht4 t' a1 a2
  rw [okM2_eq ma h _ (horb t')] at this
  have e : st.cur.hour * 60 + st.cur.minute + X + (t' : Int) * a.interval =
      st.cur.hour * 60 + (st.cur.minute + X) + (t' : Int) * a.interval := by omega
  rw [e]; exact this

theorem mbhm_next (ma : MinutelyBHMArgs a) (h : construct a = .ok r) (k : Nat) (st : State) (fl : Bool)
    (c : Option Int) (hg : MinutelyGood a r k st)
    (hfl : fl = true → Spec.RRule.dateOk a (curOrd st.cur) = false)
    (hle : curOrd st.cur * 1440 + 1439 + 1440 * a.interval < (maxOrdinal + 1) * 1440) :
    ∃ st' k', advance r { st with count := c } fl = .ok st' ∧ k < k' ∧ k' ≤ k + 2880 ∧ MinutelyGood a r k' st' ∧
      ∀ j : Nat, k < j → j < k' → Spec.RRule.sel a (j : Int) = [] := by
  obtain ⟨bm, bs, hr, _⟩ := mbhm_rule ma h
  have hint : r.interval = a.interval := by rw [hr]
  have hi := ma.interval
  have hh := hg.hour
  have hmm := hg.minute
  have htail : ∀ (s0 : Nat) (X : Int), X = s0 * a.interval → 0 ≤ X →
      X ≤ 1439 - (st.cur.hour * 60 + st.cur.minute) → ∀ (s : Nat),
      (∀ t : Nat, 1 ≤ t → t < s →
        (listedO a.byhour ((st.cur.hour * 60 + st.cur.minute + X + t * a.interval) / 60 % 24) &&
         listedO a.byminute ((st.cur.hour * 60 + st.cur.minute + X + t * a.interval) % 60)) = false) →
      ∀ j : Nat, k + s0 < j → j < k + s0 + s → Spec.RRule.sel a (j : Int) = [] := by
    intro s0 X hX hX0 hXle s hmin j hj1 hj2
    have ht := hmin (j - k - s0) (by omega) (by omega)
    have ecast : (((j - k - s0 : Nat)) : Int) = (j : Int) - k - s0 := by omega
    rw [ecast] at ht
    have hpos : (0 : Int) ≤ ((j : Int) - k - s0) * a.interval := Int.mul_nonneg (by omega) (by omega)
    generalize hV : st.cur.hour * 60 + st.cur.minute + X + ((j : Int) - k - s0) * a.interval = V at ht
    apply mbhm_skip_unlisted ma h j (curOrd st.cur + V / 1440) (V / 60 % 24) (V % 60)
      (by omega) (by omega) (by omega) (by omega) ?_ ht
    have := hg.idx
    have e : (j : Int) * a.interval = k * a.interval + X + ((j : Int) - k - s0) * a.interval := by
      rw [hX, ← Int.add_mul, ← Int.add_mul]; congr 1; omega
    rw [e]; omega
  cases fl with
  | false =>
    obtain ⟨st', s, hs1, hs2, hadv, hg', hmin⟩ := mbhm_advance_core ma h k st false c hg 0 0 (by simp) (by omega)
      (by omega) (by simp) hle
    refine ⟨st', k + 0 + s, hadv, by omega, by omega, hg', ?_⟩
    intro j h1 h2
    exact htail 0 0 (by simp) (by omega) (by omega) s hmin j (by omega) (by omega)
  | true =>
    generalize hR : 1439 - (st.cur.hour * 60 + st.cur.minute) = R at *
    have hR0 : 0 ≤ R := by omega
    have hq0 : 0 ≤ R / a.interval := Int.ediv_nonneg hR0 (by omega)
    have hqX : R / a.interval * a.interval ≤ R := Int.ediv_mul_le _ (by omega)
    have hq1 : R / a.interval * 1 ≤ R / a.interval * a.interval := Int.mul_le_mul_of_nonneg_left hi hq0
    have hcast : ((R / a.interval).toNat : Int) = R / a.interval := Int.toNat_of_nonneg hq0
    obtain ⟨st', s, hs1, hs2, hadv, hg', hmin⟩ := mbhm_advance_core ma h k st true c hg (R / a.interval).toNat
      (R / a.interval * a.interval) (by rw [hcast]) (Int.mul_nonneg hq0 (by omega)) (by rw [hR]; exact hqX)
      (by simp only [↓reduceIte]; rw [hR, Py.fdiv_pos _ (by omega), hint]) hle
    refine ⟨st', k + (R / a.interval).toNat + s, hadv, by omega, by omega, hg', ?_⟩
    intro j h1 h2
    by_cases hc : j ≤ k + (R / a.interval).toNat
    · apply mbhm_skip_day ma k st hg (hfl rfl) j h1
      have hjq : (j : Int) - k ≤ R / a.interval := by omega
      have := Int.mul_le_mul_of_nonneg_right hjq (show (0 : Int) ≤ a.interval by omega)
      omega
    · exact htail _ _ (by rw [hcast]) (Int.mul_nonneg hq0 (by omega)) hqX s hmin j (by omega) h2

theorem mbhm_init (ma : MinutelyBHMArgs a) (h : construct a = .ok r) :
    ∃ st0, init r = .ok st0 ∧ MinutelyGood a r 0 st0 ∧ st0.count = r.count := by
  have hw := mbhm_wrule ma h
  have hv := ma.valid
  unfold DT.Valid ValidDate at hv
  obtain ⟨info, hre, hnw⟩ := rebuild_w hw a.dtstart.y a.dtstart.m hv.1.1 hv.1.2.1
  obtain ⟨bm, bs, hr, hbne, hbmem, _⟩ := mbhm_rule ma h
  have hd : r.dtstart = { a.dtstart with us := 0 } := by rw [hr]
  have hf : r.freq = 5 := by rw [hr]; exact ma.freq
  have hbh : r.byhour = a.byhour.map sortedSet := by rw [hr]
  have hbm : r.byminute = some bm := by rw [hr]
  have htr : truthy (some bm) = true := by
    cases bm with
    | nil => exact absurd rfl hbne
    | cons _ _ => rfl
  -- the acceptance test at the start itself
  have hstart := okM2_eq ma h (a.dtstart.hh * 60 + a.dtstart.mm) (orbitM a _ 0 0 (by omega))
  have e1 : (a.dtstart.hh * 60 + a.dtstart.mm) / 60 % 24 = a.dtstart.hh := by omega
  have e2 : (a.dtstart.hh * 60 + a.dtstart.mm) % 60 = a.dtstart.mm := by omega
  unfold okM2 okM at hstart
  rw [e1, e2, hbh, hbm] at hstart
  obtain ⟨prod, hts, _, hspec⟩ := mtimeset_mbhm ma h a.dtstart.hh a.dtstart.mm hv.2.1 hv.2.2.1 hv.2.2.2.1 hv.2.2.2.2.1
  refine ⟨{ cur := { year := a.dtstart.y, month := a.dtstart.m, day := a.dtstart.d, hour := a.dtstart.hh,
                     minute := a.dtstart.mm, second := a.dtstart.ss, weekday := r.dtstart.weekday },
            info := info, timeset := Spec.RRule.timesOf a (some a.dtstart.hh) (some a.dtstart.mm) none,
            count := r.count }, ?_, ?_, rfl⟩
  · unfold init gettimeset
    simp only [hd, bind, Except.bind, hre, hf, hbh, hbm, htr, pure, Except.pure]
    have hcond : ∀ (T1 M1 M2 Y1 Y2 : Bool),
        (decide ((5 : Int) ≥ 4) && T1 && !M1 || decide ((5 : Int) ≥ 5) && true && !M2 ||
          decide ((5 : Int) ≥ 6) && Y1 && Y2) = !((!T1 || M1) && M2) := by
      intro T1 M1 M2 Y1 Y2
      cases T1 <;> cases M1 <;> cases M2 <;> cases Y1 <;> cases Y2 <;> decide
    rw [if_neg (show ¬ (5 : Int) < 4 by decide), hcond, hstart, hspec]
    by_cases hl : (listedO a.byhour a.dtstart.hh && listedO a.byminute a.dtstart.mm) = true
    · rw [hl, if_neg (show ¬ (!true) = true by decide), if_neg (show ¬ ((5 : Int) == 4) = true by decide),
        if_pos (show ((5 : Int) == 5) = true by decide), hts, if_pos (show true = true from rfl)]
    · have hl' : (listedO a.byhour a.dtstart.hh && listedO a.byminute a.dtstart.mm) = false := by
        cases hq : (listedO a.byhour a.dtstart.hh && listedO a.byminute a.dtstart.mm) with
        | false => rfl
        | true => exact absurd hq hl
      rw [hl', if_pos (show (!false) = true by decide), if_neg (show ¬ false = true by decide)]
  · refine ⟨rebuild_facts r _ _ info hre, hnw, hv.1.2.2, ⟨hv.2.1, hv.2.2.1⟩, ⟨hv.2.2.2.1, hv.2.2.2.2.1⟩, ?_, rfl⟩
    unfold curOrd Spec.RRule.startOrd DT.ordinal; simp

/-- **`iter_eq_spec`, MINUTELY with BYMINUTE and optionally BYHOUR** under `reachableMM a`: `n ≤ m ≤ 2880·n` -/
theorem iter_eq_spec_minutely_bhm (ma : MinutelyBHMArgs a) (h : construct a = .ok r) (n : Nat)
    (hle : (Spec.RRule.startOrd a * 24 + a.dtstart.hh) * 60 + a.dtstart.mm + (2880 * n + 1440) * a.interval + 1439 <
      (maxOrdinal + 1) * 1440) :
    ∃ m, n ≤ m ∧ m ≤ 2880 * n ∧ (iter r n).1 = Spec.RRule.occ a m := by
  have hi := ma.interval
  have hbound : ∀ k : Nat, k < 2880 * n → ∀ st, MinutelyGood a r k st →
      curOrd st.cur * 1440 + 1439 + 1440 * a.interval < (maxOrdinal + 1) * 1440 := by
    intro k hk st hg
    have := hg.idx
    have hh := hg.hour
    have hmm := hg.minute
    have hmono : (k : Int) * a.interval ≤ (2880 * (n : Int)) * a.interval :=
      Int.mul_le_mul_of_nonneg_right (by omega) (by omega)
    have e' : ((2880 : Int) * n + 1440) * a.interval = (2880 * (n : Int)) * a.interval + 1440 * a.interval := by
      rw [Int.add_mul]
    rw [e'] at hle
    omega
  have sim : SkipSim a r (2880 * n) 2880 (MinutelyGood a r) := {
    agree := mbhm_cuts ma h
    step := by
      intro k st hk hg
      have hb := hbound k hk st hg
      have hi2 : a.interval ≤ 1440 * a.interval := by omega
      obtain ⟨fl, hres, hflag, hbnd⟩ := mbhm_results ma h k st hg (by omega)
      refine ⟨fl, [], Spec.RRule.sel a (k : Int), hres, rfl, by simp, hbnd, ?_⟩
      intro c
      exact mbhm_next ma h k st fl c hg hflag hb }
  obtain ⟨st0, hinit, hg0, hc0⟩ := mbhm_init ma h
  exact iter_refines_skip sim (by omega) st0 hinit hg0 hc0 n (by omega)

-- a MinutelyBHMArgs instance: every 25 minutes from 09:00, only at 9:00, 9:30, 17:00, 17:30
-- (reachability by the explicit witness j = 0, the start itself)
example : MinutelyBHMArgs { freq := 5, dtstart := ⟨2024, 1, 1, 9, 0, 0, 0⟩, interval := 25, byhour := some [9, 17],
                            byminute := some [0, 30] } :=
  ⟨rfl, by decide, by decide, Or.inl rfl, rfl, by intro x hx; simp at hx, Or.inr ⟨[9, 17], rfl, by decide⟩,
   ⟨[0, 30], rfl⟩, by intro x hx; simp at hx,
   List.any_eq_true.mpr ⟨0, List.mem_range.mpr (by omega), by decide⟩⟩
-- … and one whose start is not itself listed: from 09:05 every 25 minutes, hour 17 at minute 0 or 30 only
-- (witness j = 19: 09:05 + 475 min = 17:00)
example : MinutelyBHMArgs { freq := 5, dtstart := ⟨2024, 1, 1, 9, 5, 0, 0⟩, interval := 25, byhour := some [17],
                            byminute := some [0, 30], bysecond := some [0, 15] } :=
  ⟨rfl, by decide, by decide, Or.inl rfl, rfl, by intro x hx; simp at hx, Or.inr ⟨[17], rfl, by decide⟩,
   ⟨[0, 30], rfl⟩, by decide,
   List.any_eq_true.mpr ⟨19, List.mem_range.mpr (by omega), by decide⟩⟩

end RRule
