/-
  Proofs/ICalRfc.lean — the source translation of `tzical._parse_rfc` (Generated/TzRfcKernels.lean) against the
  hand model `ICal.stepLineW` / `ICal.unfold` / `ICal.parseRfcW`.
-/
import DateutilVerif.Generated.TzRfcKernels
import DateutilVerif.Properties.TzObjGen

namespace ICalRfc
open ICal Py

theorem splitOnChar_go_ne_nil (sep : Char) (s cur : List Char) (acc : List (List Char)) :
    splitOnChar.go sep s cur acc ≠ [] := by
  induction s generalizing cur acc with
  | nil => simp [splitOnChar.go]
  | cons c cs ih => simp only [splitOnChar.go]; split <;> exact ih _ _

theorem splitOnChar_ne_nil (sep : Char) (s : List Char) : splitOnChar sep s ≠ [] :=
  splitOnChar_go_ne_nil sep s [] []

theorem lgetR_zero {α} [Inhabited α] (l : List α) (h : l ≠ []) : DtPy.lgetR l 0 = .ok (l.headD default) := by
  cases l with
  | nil => exact absurd rfl h
  | cons a t => simp [DtPy.lgetR]

theorem lgetR_zero' (l : List (List Char)) (h : l ≠ []) : DtPy.lgetR l 0 = .ok (l.headD []) := by
  cases l with
  | nil => exact absurd rfl h
  | cons a t => simp [DtPy.lgetR]

theorem forM_all {α} (l : List α) (p : α → Bool) :
    RfcPy.forM_ l (fun x => if p x = true then .error .ValueError else .ok ()) =
      if l.all (fun x => !p x) then .ok () else .error .ValueError := by
  induction l with
  | nil => simp [RfcPy.forM_]
  | cons a t ih =>
    simp only [RfcPy.forM_]
    cases h : p a <;> simp [h, ih]

theorem lit_BEGIN : lit "BEGIN" = ['B', 'E', 'G', 'I', 'N'] := rfl
theorem lit_END : lit "END" = ['E', 'N', 'D'] := rfl
theorem lit_STANDARD : lit "STANDARD" = ['S', 'T', 'A', 'N', 'D', 'A', 'R', 'D'] := rfl
theorem lit_DAYLIGHT : lit "DAYLIGHT" = ['D', 'A', 'Y', 'L', 'I', 'G', 'H', 'T'] := rfl
theorem lit_VTIMEZONE : lit "VTIMEZONE" = ['V', 'T', 'I', 'M', 'E', 'Z', 'O', 'N', 'E'] := rfl
theorem lit_DTSTART : lit "DTSTART" = ['D', 'T', 'S', 'T', 'A', 'R', 'T'] := rfl
theorem lit_VALUE_DATE_TIME : lit "VALUE=DATE-TIME" = ['V', 'A', 'L', 'U', 'E', '=', 'D', 'A', 'T', 'E', '-', 'T', 'I', 'M', 'E'] := rfl
theorem lit_RRULE : lit "RRULE" = ['R', 'R', 'U', 'L', 'E'] := rfl
theorem lit_RDATE : lit "RDATE" = ['R', 'D', 'A', 'T', 'E'] := rfl
theorem lit_EXRULE : lit "EXRULE" = ['E', 'X', 'R', 'U', 'L', 'E'] := rfl
theorem lit_EXDATE : lit "EXDATE" = ['E', 'X', 'D', 'A', 'T', 'E'] := rfl
theorem lit_TZOFFSETFROM : lit "TZOFFSETFROM" = ['T', 'Z', 'O', 'F', 'F', 'S', 'E', 'T', 'F', 'R', 'O', 'M'] := rfl
theorem lit_TZOFFSETTO : lit "TZOFFSETTO" = ['T', 'Z', 'O', 'F', 'F', 'S', 'E', 'T', 'T', 'O'] := rfl
theorem lit_TZNAME : lit "TZNAME" = ['T', 'Z', 'N', 'A', 'M', 'E'] := rfl
theorem lit_COMMENT : lit "COMMENT" = ['C', 'O', 'M', 'M', 'E', 'N', 'T'] := rfl
theorem lit_TZID : lit "TZID" = ['T', 'Z', 'I', 'D'] := rfl
theorem lit_TZURL : lit "TZURL" = ['T', 'Z', 'U', 'R', 'L'] := rfl
theorem lit_LAST_MODIFIED : lit "LAST-MODIFIED" = ['L', 'A', 'S', 'T', '-', 'M', 'O', 'D', 'I', 'F', 'I', 'E', 'D'] := rfl


theorem bind_ok {α β} (a : α) (f : α → R β) : Except.bind (Except.ok a) f = f a := rfl
theorem bind_err {α β} (e : PyErr) (f : α → R β) : Except.bind (Except.error e : R α) f = Except.error e := rfl

theorem guard_parms {α} (parms : List (List Char)) (X : R α) :
    (if ¬parms = [] then Except.bind (DtPy.lgetR parms 0) (fun _ => (Except.error PyErr.ValueError : R α)) else X) =
      (if parms.isEmpty = false then Except.error PyErr.ValueError else X) := by
  cases parms <;> simp [DtPy.lgetR, Except.bind]

theorem forM_dtstart {α} (parms : List (List Char)) (L : List Char) (X : R α) :
    Except.bind (RfcPy.forM_ parms fun parm => if ¬parm = L then Except.error PyErr.ValueError else Except.ok ()) (fun _ => X) =
      if (parms.all fun x => x == L) = true then X else Except.error PyErr.ValueError := by
  have := forM_all parms (fun x => decide (¬ x = L))
  simp only [decide_eq_true_eq] at this
  rw [this]
  have e : (parms.all fun x => !decide (¬x = L)) = (parms.all fun x => x == L) := by
    congr 1; funext x; by_cases h : x = L <;> simp [h]
  rw [e]
  split <;> rfl

theorem forM_intervals (ivs : List Int) (ct : Option (List Char)) (v : List Char) (h : ct = some v) :
    (RfcPy.forM_ ivs fun r => if r < 1 then Except.bind (RfcPy.needStr ct) (fun _ => (Except.error PyErr.ValueError : R Unit)) else Except.ok ()) =
      if ivs.all (fun i => decide (1 ≤ i)) = true then Except.ok () else Except.error PyErr.ValueError := by
  subst h
  have := forM_all ivs (fun r => decide (r < 1))
  simp only [decide_eq_true_eq] at this
  simp only [RfcPy.needStr, bind_ok]
  rw [this]
  have e : (ivs.all fun x => !decide (x < 1)) = (ivs.all fun i => decide (1 ≤ i)) := by
    congr 1; funext x; by_cases h : x < 1 <;> simp [h] <;> omega
  rw [e]

theorem gen_line_eq_model (lib : RRuleLib) (st : PState) (line : List Char) :
    Gen.tzical_parseRfc_line lib st line = stepLineW lib st line := by
  unfold Gen.tzical_parseRfc_line stepLineW stepCore beginComp closeZone closeComp compProp zoneProp
  by_cases hl : line = []
  · simp [hl]
  · simp only [hl, ne_eq, not_false_eq_true, if_false, List.isEmpty_iff]
    simp only [RfcPy.split1, if_true]
    cases hs : splitColon1 line with
    | none => simp [Except.bind]
    | some p =>
      obtain ⟨name0, value⟩ := p
      simp only [bind_ok]
      have hne := splitOnChar_ne_nil ';' name0
      simp only [hne, not_true_eq_false, if_false, lgetR_zero' _ hne, not_false_eq_true, bind_ok]
      generalize upper ((splitOnChar ';' name0).headD []) = name
      generalize List.drop 1 (splitOnChar ';' name0) = parms
      simp only [lit_BEGIN, lit_END, lit_STANDARD, lit_DAYLIGHT, lit_VTIMEZONE, lit_DTSTART, lit_VALUE_DATE_TIME, lit_RRULE, lit_RDATE, lit_EXRULE, lit_EXDATE, lit_TZOFFSETFROM, lit_TZOFFSETTO, lit_TZNAME, lit_COMMENT, lit_TZID, lit_TZURL, lit_LAST_MODIFIED, C17.gen_eq_model_parse_offset, beq_iff_eq, Bool.or_eq_true, Bool.and_eq_true, Bool.not_eq_true', Bool.not_eq_eq_eq_not, Bool.not_true, guard_parms, forM_dtstart, or_assoc]
      by_cases hinv : st.invtz = true
      · simp only [hinv, if_true]
        by_cases hb : name = ['B', 'E', 'G', 'I', 'N']
        · simp [hb]
        · simp only [hb, if_false]
          by_cases he : name = ['E', 'N', 'D']
          · simp only [he, if_true]
            by_cases hv : value = ['V', 'T', 'I', 'M', 'E', 'Z', 'O', 'N', 'E']
            · simp only [hv, if_true]
              by_cases htc : ICal.truthy st.comptype = true
              · obtain ⟨c, hc⟩ : ∃ c, st.comptype = some c := by
                  cases h : st.comptype with
                  | none => simp [h, ICal.truthy] at htc
                  | some c => exact ⟨c, rfl⟩
                rw [hc] at htc ⊢
                simp only [htc, if_true, RfcPy.needStr, bind_ok]
              · simp [htc, RfcPy.mkVtz]
            · simp only [hv, if_false]
              by_cases hvc : some value = st.comptype
              · simp only [hvc, if_true]
                cases hfd : st.founddtstart
                · simp
                · cases hf : st.tzoffsetfrom with
                  | none => simp
                  | some f =>
                    cases ht : st.tzoffsetto with
                    | none => simp
                    | some t =>
                      simp only [Bool.true_eq_false, not_false_eq_true, if_false, reduceCtorEq, not_true_eq_false]
                      unfold compRules
                      by_cases hr : st.rrulelines = []
                      · simp [hr, RfcPy.mkComp, bind_ok, ← hvc]
                        by_cases hd : value = ['D', 'A', 'Y', 'L', 'I', 'G', 'H', 'T'] <;> simp [hd]
                      · simp only [hr, not_false_eq_true, if_true, List.isEmpty_iff, if_false, RfcPy.rrulestr]
                        cases hlib : lib st.rrulelines with
                        | error e => simp [bind_err]
                        | ok ivs =>
                          simp [bind_ok, RfcPy.mkComp, ← hvc]
                          by_cases hd : value = ['D', 'A', 'Y', 'L', 'I', 'G', 'H', 'T'] <;> simp [hd]
              · simp [hvc]
          · simp only [he, if_false]
            by_cases hc : ICal.truthy st.comptype = true
            · simp only [hc, if_true]
              by_cases h1 : name = ['D', 'T', 'S', 'T', 'A', 'R', 'T']
              · simp [h1]
              · simp only [h1, if_false]
                by_cases h2 : (name = ['R', 'R', 'U', 'L', 'E'] ∨ name = ['R', 'D', 'A', 'T', 'E'] ∨ name = ['E', 'X', 'R', 'U', 'L', 'E'] ∨ name = ['E', 'X', 'D', 'A', 'T', 'E'])
                · simp only [h2, if_true]
                · simp only [h2, if_false]
                  by_cases h3 : name = ['T', 'Z', 'O', 'F', 'F', 'S', 'E', 'T', 'F', 'R', 'O', 'M']
                  · simp only [h3, if_true]
                    by_cases hp : parms.isEmpty = false
                    · simp [hp]
                    · simp only [hp, if_false]; cases parseOffset value <;> rfl
                  · simp only [h3, if_false]
                    by_cases h4 : name = ['T', 'Z', 'O', 'F', 'F', 'S', 'E', 'T', 'T', 'O']
                    · simp only [h4, if_true]
                      by_cases hp : parms.isEmpty = false
                      · simp [hp]
                      · simp only [hp, if_false]; cases parseOffset value <;> rfl
                    · simp only [h4, if_false]
            · simp only [hc]
              simp
      · simp only [hinv]
        simp


/-- one step of the model's unfolding fold (the function folded by `ICal.unfold`) -/
def ustep (acc : List (List Char)) (raw : List Char) : List (List Char) :=
  match rstrip raw, acc with
  | [], _ => acc
  | ' ' :: rest, prev :: acc' => (prev ++ rest) :: acc'
  | _, _ => raw :: acc

theorem unfold_eq (lines : List (List Char)) : unfold lines = (lines.foldl ustep []).reverse := rfl

theorem idx_mid {α} (done : List α) (r : α) (rest : List α) :
    RfcPy.idx? (done ++ r :: rest) (done.length : Int) = some done.length := by
  unfold RfcPy.idx?
  have h1 : ¬ ((done.length : Int) < 0) := by omega
  simp only [h1, if_false, List.length_append, List.length_cons]
  simp; omega

theorem lgetR_mid {α} (done : List α) (r : α) (rest : List α) :
    DtPy.lgetR (done ++ r :: rest) (done.length : Int) = .ok r := by
  unfold DtPy.lgetR
  have h1 : ¬ ((done.length : Int) < 0) := by omega
  simp [h1]

theorem ldel_mid {α} (done : List α) (r : α) (rest : List α) :
    RfcPy.ldel (done ++ r :: rest) (done.length : Int) = .ok (done ++ rest) := by
  unfold RfcPy.ldel
  rw [idx_mid]
  simp

theorem laddAt_mid (d : List (List Char)) (prev : List Char) (tail : List (List Char)) (x : List Char) :
    RfcPy.laddAt (d ++ prev :: tail) (d.length : Int) x = .ok (d ++ (prev ++ x) :: tail) := by
  unfold RfcPy.laddAt
  rw [idx_mid]
  simp


theorem sget_zero (c : Char) (tl : List Char) : ObjPy.sget (c :: tl) 0 = .ok [c] := by
  simp [ObjPy.sget, DtPy.lgetR]

theorem body_step (done : List (List Char)) (r : List Char) (rest : List (List Char)) :
    Gen.tzical_parseRfc_unfold (done ++ r :: rest, (done.length : Int)) =
      .ok ((ustep done.reverse r).reverse ++ rest, (((ustep done.reverse r).reverse.length : Nat) : Int)) := by
  unfold Gen.tzical_parseRfc_unfold
  simp only [lgetR_mid, bind_ok]
  cases hline : rstrip r with
  | nil =>
    simp only [ne_eq, not_true_eq_false, not_false_eq_true, if_true, ldel_mid, bind_ok]
    simp [ustep, hline]
  | cons c tl =>
    simp only [ne_eq, reduceCtorEq, not_false_eq_true, not_true_eq_false, if_false, sget_zero, bind_ok]
    rcases List.eq_nil_or_concat done with rfl | ⟨d, prev, rfl⟩
    · simp [ustep, hline, bind_ok]
    · have hpos : (((d ++ [prev]).length : Nat) : Int) > 0 := by simp
      simp only [List.concat_eq_append]
      simp only [hpos, if_true]
      by_cases hsp : c = ' '
      · subst hsp
        have e1 : (((d ++ [prev]).length : Nat) : Int) - 1 = (d.length : Int) := by simp
        have e2 : d ++ [prev] ++ r :: rest = d ++ prev :: r :: rest := by simp
        simp only [decide_true, bind_ok, if_true, e1, e2, laddAt_mid, List.drop_one, List.tail_cons]
        have e3 : (((d ++ [prev]).length : Nat) : Int) = (((d ++ [prev ++ tl]).length : Nat) : Int) := by simp
        have e4 : d ++ (prev ++ tl) :: r :: rest = (d ++ [prev ++ tl]) ++ r :: rest := by simp
        rw [e3, e4, ldel_mid]
        simp [ustep, hline, bind_ok]
        done
      · have : decide ([c] = [' ']) = false := by simp [hsp]
        simp only [this, bind_ok, Bool.false_eq_true, if_false]
        simp [ustep, hline]
        split
        · simp_all
        · simp_all
        · simp

theorem unfold_loop (rest : List (List Char)) : ∀ done : List (List Char),
    RfcPy.whileFuel rest.length Gen.tzical_parseRfc_unfoldCond Gen.tzical_parseRfc_unfold (done ++ rest, (done.length : Int)) =
      .ok ((rest.foldl ustep done.reverse).reverse, (((rest.foldl ustep done.reverse).reverse.length : Nat) : Int)) := by
  induction rest with
  | nil =>
    intro done
    unfold RfcPy.whileFuel
    simp [Gen.tzical_parseRfc_unfoldCond]
  | cons r rest ih =>
    intro done
    unfold RfcPy.whileFuel
    have hc : Gen.tzical_parseRfc_unfoldCond (done ++ r :: rest, (done.length : Int)) = true := by
      simp [Gen.tzical_parseRfc_unfoldCond]; omega
    simp only [hc, if_true, List.length_cons, body_step]
    have := ih (ustep done.reverse r).reverse
    simp only [List.reverse_reverse] at this
    simpa [List.foldl] using this

/-- the unfolding loop of the translated `_parse_rfc` never runs out of its fuel (`len(lines)` iterations) and computes the
    model's `unfold` -/
theorem unfold_loop_eq (lines : List (List Char)) :
    ∃ k, RfcPy.whileFuel lines.length Gen.tzical_parseRfc_unfoldCond Gen.tzical_parseRfc_unfold (lines, 0) = .ok (unfold lines, k) := by
  have := unfold_loop lines []
  simp only [List.nil_append, List.length_nil, List.reverse_nil] at this
  exact ⟨_, by rw [unfold_eq]; exact this⟩

theorem gen_parse_rfc_eq (lib : RRuleLib) (s : List Char) :
    (Gen.tzical_parseRfc lib s).map (·.vtz) = parseRfcW lib s := by
  unfold Gen.tzical_parseRfc parseRfcW
  by_cases h : splitLines s = []
  · simp [h, Except.map]
  · obtain ⟨k, hk⟩ := unfold_loop_eq (splitLines s)
    simp only [h, ne_eq, not_false_eq_true, not_true_eq_false, if_false, List.isEmpty_iff, hk, bind_ok]
    have : List.foldlM (Gen.tzical_parseRfc_line lib) = List.foldlM (stepLineW lib) := by
      funext st l; congr 1; funext a b; exact gen_line_eq_model lib a b
    rw [this]
    cases List.foldlM (stepLineW lib) ({} : PState) (unfold (splitLines s)) <;> rfl

end ICalRfc
