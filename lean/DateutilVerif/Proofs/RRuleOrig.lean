/-
  Proofs/RRuleOrig.lean — `replace()` without overrides rebuilds the same rule:
  `construct (origArgs a r) = .ok r` whenever `construct a = .ok r` (idempotence of the constructor's
  normalisation on `_original_rule`).  The only exception in the code is `bysetpos=()`, which
  `_original_rule` drops (the rebuilt rule has `_bysetpos = None` instead of `()`): excluded by hypothesis.
-/
import DateutilVerif.Proofs.RRuleTimes

namespace RRule

/-! ### list facts -/

theorem dedup_append {α} [BEq α] [LawfulBEq α] : ∀ (l acc : List α), (acc.reverse ++ l).Nodup →
    dedup acc l = acc.reverse ++ l := by
  intro l
  induction l with
  | nil => intro acc _; simp [dedup]
  | cons x xs ih =>
    intro acc h
    unfold dedup
    have hx : x ∉ acc := by
      intro hm
      rw [List.nodup_append] at h
      exact h.2.2 x (List.mem_reverse.mpr hm) x (List.mem_cons_self ..) rfl
    rw [if_neg (by intro hc; exact hx (List.contains_iff_mem.mp hc))]
    have : (x :: acc).reverse ++ xs = acc.reverse ++ x :: xs := by simp
    rw [ih (x :: acc) (by rw [this]; exact h), this]

theorem dedup_of_nodup {α} [BEq α] [LawfulBEq α] (l : List α) (h : l.Nodup) : dedup [] l = l := by
  have := dedup_append l [] (by simpa using h)
  simpa using this

theorem sortBy_of_sorted {α} {lt : α → α → Bool} {P : α → Prop} (so : StrictOn lt P) (l : List α)
    (hP : ∀ x ∈ l, P x) (hs : l.Pairwise (fun a b => lt a b = true)) : sortBy lt l = l :=
  sorted_ext so _ _ (sortBy_pairwise so l hP (pairwise_nodup so.irrefl l hs)) hs (fun x => mem_sortBy lt x l)

theorem sortBy_idem {α} {lt : α → α → Bool} {P : α → Prop} (so : StrictOn lt P) (l : List α)
    (hP : ∀ x ∈ l, P x) (hnd : l.Nodup) : sortBy lt (sortBy lt l) = sortBy lt l :=
  sortBy_of_sorted so _ (fun x hx => hP x ((mem_sortBy lt x l).mp hx)) (sortBy_pairwise so l hP hnd)

theorem sortedSet_idem (l : List Int) : sortedSet (sortedSet l) = sortedSet l := by
  have hnd := sortedSet_nodup l
  show sortBy ltInt (dedup [] (sortedSet l)) = sortedSet l
  rw [dedup_of_nodup _ hnd]
  exact sortBy_of_sorted strictInt _ (fun _ _ => trivial) (sortedSet_pairwise l)

theorem strictPair : StrictOn ltPair (fun _ => True) := by
  refine ⟨?_, ?_, ?_⟩
  · rintro ⟨a1, a2⟩ ⟨b1, b2⟩ ⟨c1, c2⟩
    simp only [ltPair, Bool.or_eq_true, decide_eq_true_eq, Bool.and_eq_true, beq_iff_eq]
    omega
  · rintro ⟨a1, a2⟩; simp [ltPair]
  · rintro ⟨a1, a2⟩ ⟨b1, b2⟩ _ _ hne
    simp only [ltPair, Bool.or_eq_true, decide_eq_true_eq, Bool.and_eq_true, beq_iff_eq,
      Bool.or_eq_false_iff, Bool.and_eq_false_iff, decide_eq_false_iff_not, beq_eq_false_iff_ne]
    intro h
    have : ¬ (a1 = b1 ∧ a2 = b2) := by intro ⟨e1, e2⟩; exact hne (by rw [e1, e2])
    omega

/-- insertion sort keeps duplicates; on an already (weakly) sorted list it is the identity -/
theorem sortBy_of_weak_sorted : ∀ (l : List Int), l.Pairwise (· ≤ ·) → sortBy ltInt l = l := by
  intro l
  induction l with
  | nil => intro _; rfl
  | cons x xs ih =>
    intro h
    rw [List.pairwise_cons] at h
    show insertBy ltInt x (sortBy ltInt xs) = x :: xs
    rw [ih h.2]
    cases xs with
    | nil => rfl
    | cons y ys =>
      unfold insertBy
      have := h.1 y (List.mem_cons_self ..)
      rw [if_neg (by simp [ltInt]; omega)]

theorem insertBy_weak (x : Int) : ∀ (l : List Int), l.Pairwise (· ≤ ·) → (insertBy ltInt x l).Pairwise (· ≤ ·) := by
  intro l
  induction l with
  | nil => intro _; simp [insertBy]
  | cons y ys ih =>
    intro h
    rw [List.pairwise_cons] at h
    unfold insertBy
    split
    · rename_i hlt
      rw [List.pairwise_cons]
      refine ⟨?_, ih h.2⟩
      intro z hz
      rcases (mem_insertBy ltInt x z ys).mp hz with rfl | hz
      · simp [ltInt] at hlt; omega
      · exact h.1 z hz
    · rename_i hlt
      have hxy : x ≤ y := by simp [ltInt] at hlt; omega
      rw [List.pairwise_cons]
      refine ⟨?_, List.pairwise_cons.mpr h⟩
      intro z hz
      rcases List.mem_cons.mp hz with rfl | hz
      · exact hxy
      · have := h.1 z hz; omega

theorem sortBy_weak (l : List Int) : (sortBy ltInt l).Pairwise (· ≤ ·) := by
  induction l with
  | nil => simp [sortBy]
  | cons x xs ih => exact insertBy_weak x _ ih

theorem sortBy_int_idem (l : List Int) : sortBy ltInt (sortBy ltInt l) = sortBy ltInt l :=
  sortBy_of_weak_sorted _ (sortBy_weak l)

/-! ### the unit lists (byhour / byminute / bysecond) -/

theorem normUnit_idem (freq lvl interval start : Int) (arg : Option (List Int)) (base : Int)
    (res : Option (List Int)) (h : normUnit freq lvl interval start arg base = .ok res) :
    normUnit freq lvl interval start (arg.bind (fun _ => res)) base = .ok res := by
  cases arg with
  | none => exact h
  | some l =>
    simp only [Option.bind_some]
    unfold normUnit at h
    dsimp only at h
    by_cases hf : (freq == lvl) = true
    · rw [if_pos hf] at h
      split at h
      · rename_i c hc
        injection h with h; subst h
        unfold constructByset at hc
        dsimp only at hc
        split at hc
        · cases hc
        · rename_i hne
          injection hc with hc; subst hc
          -- every member of the filtered set is reachable, so filtering again changes nothing
          generalize hg : ((Int.gcd interval base : Nat) : Int) = g at hne ⊢
          have hreach : ∀ x ∈ sortBy ltInt (dedup [] (l.filter (fun num => g == 1 || Py.fmod (num - start) g == 0))),
              (g == 1 || Py.fmod (x - start) g == 0) = true := by
            intro x hx
            rw [mem_sortBy, mem_dedup] at hx
            exact (List.mem_filter.mp hx).2
          have hnd : (sortBy ltInt (dedup [] (l.filter (fun num => g == 1 || Py.fmod (num - start) g == 0)))).Nodup :=
            sortBy_nodup_int _ (dedup_nodup _ [] List.nodup_nil)
          unfold normUnit
          dsimp only
          rw [if_pos hf]
          unfold constructByset
          dsimp only
          rw [hg, List.filter_eq_self.mpr hreach, dedup_of_nodup _ hnd]
          have hne2 : (sortBy ltInt (dedup [] (l.filter (fun num => g == 1 || Py.fmod (num - start) g == 0)))).isEmpty = false := by
            rw [isEmpty_of_mem_iff _ (dedup [] (l.filter (fun num => g == 1 || Py.fmod (num - start) g == 0)))
              (fun x => mem_sortBy ltInt x _)]
            simpa using hne
          rw [hne2]
          simp only [Bool.false_eq_true, ↓reduceIte]
          rw [sortBy_idem strictInt _ (fun _ _ => trivial) (dedup_nodup _ [] List.nodup_nil)]
      · cases h
    · rw [if_neg hf] at h
      injection h with h; subst h
      unfold normUnit
      dsimp only
      rw [if_neg hf, sortedSet_idem]

/-! ### the day-level parts -/

theorem posneg_idem (l : List Int) :
    sortBy ltInt ((dedup [] (sortBy ltInt ((dedup [] l).filter (· > 0)) ++
        sortBy ltInt ((dedup [] l).filter (· < 0)))).filter (· > 0)) = sortBy ltInt ((dedup [] l).filter (· > 0)) ∧
    sortBy ltInt ((dedup [] (sortBy ltInt ((dedup [] l).filter (· > 0)) ++
        sortBy ltInt ((dedup [] l).filter (· < 0)))).filter (· < 0)) = sortBy ltInt ((dedup [] l).filter (· < 0)) := by
  have hndf : ∀ (p : Int → Bool), ((dedup [] l).filter p).Nodup :=
    fun p => (dedup_nodup l [] List.nodup_nil).sublist List.filter_sublist
  have hnd2 : ∀ (l2 : List Int) (p : Int → Bool), ((dedup [] l2).filter p).Nodup :=
    fun l2 p => (dedup_nodup l2 [] List.nodup_nil).sublist List.filter_sublist
  constructor
  · apply sorted_ext strictInt
    · exact sortBy_pairwise strictInt _ (fun _ _ => trivial) (hnd2 _ _)
    · exact sortBy_pairwise strictInt _ (fun _ _ => trivial) (hndf _)
    · intro x
      simp only [mem_sortBy, List.mem_filter, mem_dedup, List.mem_append, decide_eq_true_eq]
      constructor
      · rintro ⟨(⟨h1, h2⟩ | ⟨h1, h2⟩), h3⟩
        · exact ⟨h1, h2⟩
        · omega
      · rintro ⟨h1, h2⟩; exact ⟨Or.inl ⟨h1, h2⟩, h2⟩
  · apply sorted_ext strictInt
    · exact sortBy_pairwise strictInt _ (fun _ _ => trivial) (hnd2 _ _)
    · exact sortBy_pairwise strictInt _ (fun _ _ => trivial) (hndf _)
    · intro x
      simp only [mem_sortBy, List.mem_filter, mem_dedup, List.mem_append, decide_eq_true_eq]
      constructor
      · rintro ⟨(⟨h1, h2⟩ | ⟨h1, h2⟩), h3⟩
        · omega
        · exact ⟨h1, h2⟩
      · rintro ⟨h1, h2⟩; exact ⟨Or.inr ⟨h1, h2⟩, h2⟩

/-- the BYDAY list that `_original_rule` stores (plain weekdays, then nth ones) splits again into the
    same plain and nth lists -/
theorem weekdays_idem (a a' : Args) (hf : a'.freq = a.freq) (l : List (Int × Int)) :
    plainWeekdays a' ((sortBy ltInt (plainWeekdays a l)).map (fun w => (w, 0)) ++ sortBy ltPair (nthWeekdays a l)) =
      sortBy ltInt (plainWeekdays a l) ∧
    nthWeekdays a' ((sortBy ltInt (plainWeekdays a l)).map (fun w => (w, 0)) ++ sortBy ltPair (nthWeekdays a l)) =
      sortBy ltPair (nthWeekdays a l) := by
  have hP : (sortBy ltInt (plainWeekdays a l)).Nodup := sortBy_nodup_int _ (dedup_nodup _ [] List.nodup_nil)
  have hN : (sortBy ltPair (nthWeekdays a l)).Nodup :=
    pairwise_nodup strictPair.irrefl _ (sortBy_pairwise strictPair _ (fun _ _ => trivial) (dedup_nodup _ [] List.nodup_nil))
  have hNmem : ∀ w ∈ sortBy ltPair (nthWeekdays a l), (w.2 == 0 || decide (a.freq > 1)) = false := by
    intro w hw
    rw [mem_sortBy] at hw
    unfold nthWeekdays at hw
    rw [mem_dedup] at hw
    have := (List.mem_filter.mp hw).2
    simpa using this
  have f1 : ((sortBy ltInt (plainWeekdays a l)).map (fun w => ((w, 0) : Int × Int))).filter
      (fun w => w.2 == 0 || decide (a'.freq > 1)) = (sortBy ltInt (plainWeekdays a l)).map (fun w => (w, 0)) := by
    apply List.filter_eq_self.mpr; intro w hw
    simp only [List.mem_map] at hw; obtain ⟨x, _, rfl⟩ := hw; simp
  have f2 : (sortBy ltPair (nthWeekdays a l)).filter (fun w => w.2 == 0 || decide (a'.freq > 1)) = [] := by
    apply List.filter_eq_nil_iff.mpr; intro w hw
    rw [hf]; have := hNmem w hw; simp [this]
  have f3 : ((sortBy ltInt (plainWeekdays a l)).map (fun w => ((w, 0) : Int × Int))).filter
      (fun w => !(w.2 == 0 || decide (a'.freq > 1))) = [] := by
    apply List.filter_eq_nil_iff.mpr; intro w hw
    simp only [List.mem_map] at hw; obtain ⟨x, _, rfl⟩ := hw; simp
  have f4 : (sortBy ltPair (nthWeekdays a l)).filter (fun w => !(w.2 == 0 || decide (a'.freq > 1))) =
      sortBy ltPair (nthWeekdays a l) := by
    apply List.filter_eq_self.mpr; intro w hw
    rw [hf]; have := hNmem w hw; simp [this]
  constructor
  · show dedup [] ((List.filter (fun w : Int × Int => w.2 == 0 || decide (a'.freq > 1)) _).map (fun w : Int × Int => w.1)) = _
    rw [List.filter_append, f1, f2, List.append_nil, List.map_map]
    have hid : ∀ L : List Int, L.map ((fun x : Int × Int => x.1) ∘ fun w : Int => ((w, 0) : Int × Int)) = L := by
      intro L; induction L with
      | nil => rfl
      | cons x xs ih => rw [List.map_cons, ih]; rfl
    rw [hid]
    exact dedup_of_nodup _ hP
  · show dedup [] (List.filter (fun w : Int × Int => !(w.2 == 0 || decide (a'.freq > 1))) _) = _
    rw [List.filter_append, f3, f4, List.nil_append]
    exact dedup_of_nodup _ hN

theorem isEmpty_sortBy {α} (lt : α → α → Bool) (l : List α) : (sortBy lt l).isEmpty = l.isEmpty :=
  isEmpty_of_mem_iff _ _ (fun x => mem_sortBy lt x l)

/-- **`replace()` without overrides rebuilds the same rule**: the constructor applied to
    `_original_rule ∪ {interval, count, dtstart, freq, until, wkst}` returns the rule it came from
    (every frequency, every BY combination; `bysetpos=()` excluded — there `_original_rule` drops the
    key and the rebuilt rule has `None` instead of `()`). -/
theorem construct_origArgs (a : Args) (r : Rule) (h : construct a = .ok r) (hsp : a.bysetpos ≠ some []) :
    construct (origArgs a r) = .ok r := by
  obtain ⟨sp, bh, bm, bs, ts, h1, h2, h3, h4, h5, hr⟩ := construct_ok a r h
  have hspe := (normBysetpos_ok a sp h1).1
  subst hspe
  have hfreq : r.freq = a.freq := by rw [hr]
  have hint : r.interval = a.interval := by rw [hr]
  have hds : r.dtstart = { a.dtstart with us := 0 } := by rw [hr]
  have hbsp : r.bysetpos = a.bysetpos := by rw [hr]
  have hbmth : r.bymonth = bymonthOf a := by rw [hr]
  have hbmd : r.bymonthday = bymonthdayOf a := by rw [hr]
  have hbnmd : r.bynmonthday = bynmonthdayOf a := by rw [hr]
  have hbyd : r.byyearday = a.byyearday.map sortedSet := by rw [hr]
  have hbe : r.byeaster = a.byeaster.map (sortBy ltInt) := by rw [hr]
  have hbwn : r.byweekno = a.byweekno.map sortedSet := by rw [hr]
  have hbwd : r.byweekday = byweekdayOf a := by rw [hr]
  have hbnwd : r.bynweekday = bynweekdayOf a := by rw [hr]
  have hbh : r.byhour = bh := by rw [hr]
  have hbmi : r.byminute = bm := by rw [hr]
  have hbs : r.bysecond = bs := by rw [hr]
  -- bysetpos
  have e1 : normBysetpos (origArgs a r) = .ok a.bysetpos := by
    unfold origArgs normBysetpos
    dsimp only
    rw [hbsp]
    cases hb : a.bysetpos with
    | none => rfl
    | some l =>
      cases l with
      | nil => exact absurd hb hsp
      | cons p ps =>
        unfold normBysetpos at h1
        rw [hb] at h1
        dsimp only at h1
        simp only [truthy, ↓reduceIte]
        split at h1
        · rename_i hv; rw [if_pos hv]
        · cases h1
  have hnd : noDayParts (origArgs a r) = noDayParts a := by
    unfold origArgs noDayParts
    dsimp only
    rw [hbwn, hbyd, hbe]
    cases a.byweekno <;> cases a.byyearday <;> cases a.bymonthday <;> cases a.byweekday <;> cases a.byeaster <;>
      simp
  have e2 : normUnit (origArgs a r).freq 4 (origArgs a r).interval (origArgs a r).dtstart.hh (origArgs a r).byhour 24 = .ok bh := by
    show normUnit r.freq 4 r.interval r.dtstart.hh (a.byhour.bind (fun _ => r.byhour)) 24 = _
    rw [hfreq, hint, hds, hbh]; exact normUnit_idem _ _ _ _ _ _ _ h2
  have e3 : normUnit (origArgs a r).freq 5 (origArgs a r).interval (origArgs a r).dtstart.mm (origArgs a r).byminute 60 = .ok bm := by
    show normUnit r.freq 5 r.interval r.dtstart.mm (a.byminute.bind (fun _ => r.byminute)) 60 = _
    rw [hfreq, hint, hds, hbmi]; exact normUnit_idem _ _ _ _ _ _ _ h3
  have e4 : normUnit (origArgs a r).freq 6 (origArgs a r).interval (origArgs a r).dtstart.ss (origArgs a r).bysecond 60 = .ok bs := by
    show normUnit r.freq 6 r.interval r.dtstart.ss (a.bysecond.bind (fun _ => r.bysecond)) 60 = _
    rw [hfreq, hint, hds, hbs]; exact normUnit_idem _ _ _ _ _ _ _ h4
  have e5 : timesetOf (origArgs a r) bh bm bs = .ok ts := by
    unfold timesetOf at h5 ⊢
    show (if r.freq ≥ 4 then _ else _) = _
    rw [hfreq]; exact h5
  -- the pure fields
  have g_month : bymonthOf (origArgs a r) = bymonthOf a := by
    unfold bymonthOf
    rw [hnd]
    show (if (noDayParts a && r.freq == 0 && (if noDayParts a && a.freq == 0 && a.bymonth.isNone then none else r.bymonth).isNone) = true
          then some [r.dtstart.m] else (if noDayParts a && a.freq == 0 && a.bymonth.isNone then none else r.bymonth)).map sortedSet = _
    rw [hfreq, hds, hbmth]
    by_cases c : (noDayParts a && a.freq == 0 && a.bymonth.isNone) = true
    · simp only [c, ↓reduceIte, Option.isNone_none, Bool.and_true]
      have : (noDayParts a && a.freq == 0) = true := by
        simp only [Bool.and_eq_true] at c ⊢; exact c.1
      simp only [this, ↓reduceIte]
    · have c' : (noDayParts a && a.freq == 0 && a.bymonth.isNone) = false := Bool.eq_false_iff.2 c
      have hb : bymonthOf a = a.bymonth.map sortedSet := by unfold bymonthOf; rw [c']; rfl
      simp only [c', Bool.false_eq_true, ↓reduceIte, hb]
      cases hbm : a.bymonth with
      | none =>
        simp only [Option.map_none, Option.isNone_none, Bool.and_true]
        rw [hbm] at c'
        simp only [Option.isNone_none, Bool.and_true] at c'
        rw [c']; rfl
      | some l => simp only [Option.map_some, Option.isNone_some, Bool.and_false, Bool.false_eq_true, ↓reduceIte, sortedSet_idem]
  have g_mdarg : monthdayArg (origArgs a r) =
      (if noDayParts a && (a.freq == 0 || a.freq == 1) then some [a.dtstart.d]
       else a.bymonthday.map (fun _ => bymonthdayOf a ++ bynmonthdayOf a)) := by
    unfold monthdayArg
    rw [hnd]
    show (if (noDayParts a && (r.freq == 0 || r.freq == 1)) = true then some [r.dtstart.d]
          else (if noDayParts a && (a.freq == 0 || a.freq == 1) then none
                else a.bymonthday.map (fun _ => r.bymonthday ++ r.bynmonthday))) = _
    rw [hfreq, hds, hbmd, hbnmd]
    split <;> rfl
  have g_md : bymonthdayOf (origArgs a r) = bymonthdayOf a ∧ bynmonthdayOf (origArgs a r) = bynmonthdayOf a := by
    unfold bymonthdayOf bynmonthdayOf
    rw [g_mdarg]
    by_cases c : (noDayParts a && (a.freq == 0 || a.freq == 1)) = true
    · have hm : monthdayArg a = some [a.dtstart.d] := by unfold monthdayArg; rw [if_pos c]
      rw [if_pos c, hm]; exact ⟨rfl, rfl⟩
    · have hm : monthdayArg a = a.bymonthday := by unfold monthdayArg; rw [if_neg c]
      rw [if_neg c, hm]
      cases hbm : a.bymonthday with
      | none => exact ⟨rfl, rfl⟩
      | some l =>
        have hA : bymonthdayOf a = sortBy ltInt ((dedup [] l).filter (fun x => x > 0)) := by
          unfold bymonthdayOf; rw [hm, hbm]
        have hB : bynmonthdayOf a = sortBy ltInt ((dedup [] l).filter (fun x => x < 0)) := by
          unfold bynmonthdayOf; rw [hm, hbm]
        simp only [Option.map_some, hA, hB]
        exact posneg_idem l
  have g_wdarg : weekdayArg (origArgs a r) =
      (if noDayParts a && a.freq == 2 then some [(a.dtstart.weekday, 0)]
       else a.byweekday.map (fun _ => ((byweekdayOf a).getD []).map (fun w => (w, 0)) ++ (bynweekdayOf a).getD [])) := by
    unfold weekdayArg
    rw [hnd]
    show (if (noDayParts a && r.freq == 2) = true then some [(r.dtstart.weekday, 0)]
          else (if noDayParts a && a.freq == 2 then none
                else a.byweekday.map (fun _ => (r.byweekday.getD []).map (fun w => (w, 0)) ++ r.bynweekday.getD []))) = _
    rw [hfreq, hds, hbwd, hbnwd]
    split <;> rfl
  have g_wd : byweekdayOf (origArgs a r) = byweekdayOf a ∧ bynweekdayOf (origArgs a r) = bynweekdayOf a := by
    unfold byweekdayOf bynweekdayOf
    rw [g_wdarg]
    by_cases c : (noDayParts a && a.freq == 2) = true
    · have hm : weekdayArg a = some [(a.dtstart.weekday, 0)] := by unfold weekdayArg; rw [if_pos c]
      have e : ∀ a1 a2 : Args, a1.freq = a2.freq → ∀ l, plainWeekdays a1 l = plainWeekdays a2 l ∧ nthWeekdays a1 l = nthWeekdays a2 l := by
        intro a1 a2 hf l; unfold plainWeekdays nthWeekdays; rw [hf]; exact ⟨rfl, rfl⟩
      have hfo : (origArgs a r).freq = a.freq := hfreq
      rw [if_pos c, hm]
      dsimp only
      rw [(e _ _ hfo _).1, (e _ _ hfo _).2]
      exact ⟨rfl, rfl⟩
    · have hm : weekdayArg a = a.byweekday := by unfold weekdayArg; rw [if_neg c]
      rw [if_neg c, hm]
      cases hbw : a.byweekday with
      | none => exact ⟨rfl, rfl⟩
      | some l =>
        have hA : byweekdayOf a = (if (plainWeekdays a l).isEmpty then none else some (sortBy ltInt (plainWeekdays a l))) := by
          unfold byweekdayOf; rw [hm, hbw]
        have hB : bynweekdayOf a = (if (plainWeekdays a l).isEmpty then some (sortBy ltPair (nthWeekdays a l))
            else if (nthWeekdays a l).isEmpty then none else some (sortBy ltPair (nthWeekdays a l))) := by
          unfold bynweekdayOf; rw [hm, hbw]
        simp only [Option.map_some]
        rw [hA, hB]
        -- the stored list is (sorted plain) ++ (sorted nth)
        have hX : ((if (plainWeekdays a l).isEmpty then none else some (sortBy ltInt (plainWeekdays a l)) : Option (List Int)).getD []) =
            sortBy ltInt (plainWeekdays a l) := by
          split
          · rename_i he
            have : plainWeekdays a l = [] := by cases hq : plainWeekdays a l with | nil => rfl | cons _ _ => rw [hq] at he; simp at he
            rw [this]; rfl
          · rfl
        have hY : ((if (plainWeekdays a l).isEmpty then some (sortBy ltPair (nthWeekdays a l))
            else if (nthWeekdays a l).isEmpty then none else some (sortBy ltPair (nthWeekdays a l)) : Option (List (Int × Int))).getD []) =
            sortBy ltPair (nthWeekdays a l) := by
          split
          · rfl
          · split
            · rename_i he
              have : nthWeekdays a l = [] := by cases hq : nthWeekdays a l with | nil => rfl | cons _ _ => rw [hq] at he; simp at he
              rw [this]; rfl
            · rfl
        rw [hX, hY]
        obtain ⟨w1, w2⟩ := weekdays_idem a (origArgs a r) hfreq l
        rw [w1, w2, isEmpty_sortBy, isEmpty_sortBy,
          sortBy_idem strictInt (plainWeekdays a l) (fun _ _ => trivial) (dedup_nodup _ [] List.nodup_nil),
          sortBy_idem strictPair (nthWeekdays a l) (fun _ _ => trivial) (dedup_nodup _ [] List.nodup_nil)]
        exact ⟨rfl, rfl⟩
  have g_yd : (origArgs a r).byyearday.map sortedSet = a.byyearday.map sortedSet := by
    show r.byyearday.map sortedSet = _
    rw [hbyd]; cases a.byyearday <;> simp [sortedSet_idem]
  have g_wn : (origArgs a r).byweekno.map sortedSet = a.byweekno.map sortedSet := by
    show r.byweekno.map sortedSet = _
    rw [hbwn]; cases a.byweekno <;> simp [sortedSet_idem]
  have g_e : (origArgs a r).byeaster.map (sortBy ltInt) = a.byeaster.map (sortBy ltInt) := by
    show r.byeaster.map (sortBy ltInt) = _
    rw [hbe]; cases a.byeaster <;> simp [sortBy_int_idem]
  have hpos := construct_interval_pos a r h
  unfold construct
  rw [if_neg (by show ¬ r.interval < 1; rw [hint]; omega)]
  unfold constructBody
  rw [e1, e2, e3, e4]
  simp only [bind, Except.bind]
  rw [e5]
  simp only [pure, Except.pure]
  rw [g_month, g_md.1, g_md.2, g_wd.1, g_wd.2, g_yd, g_wn, g_e]
  congr 1
  rw [hr]
  rfl

end RRule
