/-
  Proofs/Bisect.lean — specification of the `bisect_right` loop on a sorted list:
  the result is the unique boundary `k` with `l[i] ≤ x` for `i < k` and `x < l[i]` for `i ≥ k`,
  i.e. `bisect_right l x − 1` is the index of the last element `≤ x`.
-/
import DateutilVerif.Model.Zones

namespace TZ

/-- sorted (non-strictly), by index -/
def SortedL (l : List Int) : Prop := ∀ i j, i < j → j < l.length → l.getD i 0 ≤ l.getD j 0

/-- `k` is the boundary of `x` in `l` -/
def Boundary (l : List Int) (x : Int) (k : Nat) : Prop :=
  k ≤ l.length ∧ (∀ i, i < k → l.getD i 0 ≤ x) ∧ (∀ i, k ≤ i → i < l.length → x < l.getD i 0)

theorem bisectGo_spec (l : List Int) (x : Int) (hs : SortedL l) :
    ∀ fuel lo hi, hi - lo ≤ fuel → lo ≤ hi → hi ≤ l.length →
      (∀ i, i < lo → l.getD i 0 ≤ x) → (∀ i, hi ≤ i → i < l.length → x < l.getD i 0) →
      Boundary l x (bisectGo l x fuel lo hi) := by
  intro fuel
  induction fuel with
  | zero =>
      intro lo hi hf hle hn h1 h2
      have : lo = hi := by omega
      subst this
      exact ⟨hn, h1, h2⟩
  | succ f ih =>
      intro lo hi hf hle hn h1 h2
      unfold bisectGo
      by_cases hlt : lo < hi
      · rw [if_pos hlt]
        have hm1 : lo ≤ (lo + hi) / 2 := by omega
        have hm2 : (lo + hi) / 2 < hi := by omega
        by_cases hx : x < l.getD ((lo + hi) / 2) 0
        · rw [if_pos hx]
          apply ih lo ((lo + hi) / 2) (by omega) hm1 (by omega) h1
          intro i hi1 hi2
          by_cases e : i = (lo + hi) / 2
          · subst e; exact hx
          · have := hs ((lo + hi) / 2) i (by omega) hi2
            omega
        · rw [if_neg hx]
          apply ih ((lo + hi) / 2 + 1) hi (by omega) (by omega) hn _ h2
          intro i hi1
          by_cases e : i = (lo + hi) / 2
          · subst e; omega
          · have := hs i ((lo + hi) / 2) (by omega) (by omega)
            omega
      · rw [if_neg hlt]
        have : lo = hi := by omega
        subst this
        exact ⟨hn, h1, h2⟩

/-- without any sortedness: the loop stays inside `[lo, hi]` -/
theorem bisectGo_le (l : List Int) (x : Int) :
    ∀ fuel lo hi, lo ≤ hi → bisectGo l x fuel lo hi ≤ hi := by
  intro fuel
  induction fuel with
  | zero => intro lo hi h; exact h
  | succ f ih =>
      intro lo hi h
      unfold bisectGo
      by_cases hlt : lo < hi
      · rw [if_pos hlt]
        by_cases hx : x < l.getD ((lo + hi) / 2) 0
        · rw [if_pos hx]; have := ih lo ((lo + hi) / 2) (by omega); omega
        · rw [if_neg hx]; exact ih _ _ (by omega)
      · rw [if_neg hlt]; exact h

theorem boundary_unique {l : List Int} {x : Int} {a b : Nat}
    (ha : Boundary l x a) (hb : Boundary l x b) : a = b := by
  obtain ⟨ha0, ha1, ha2⟩ := ha
  obtain ⟨hb0, hb1, hb2⟩ := hb
  by_cases h : a < b
  · have := hb1 a h; have := ha2 a (Nat.le_refl _) (by omega); omega
  by_cases h' : b < a
  · have := ha1 b h'; have := hb2 b (Nat.le_refl _) (by omega); omega
  omega

/-- **bisect specification.** On a sorted list `bisect_right l x` is the boundary of `x`. -/
theorem bisectRight_spec {l : List Int} (x : Int) (hs : SortedL l) : Boundary l x (bisectRight l x) := by
  unfold bisectRight
  apply bisectGo_spec l x hs l.length 0 l.length (by omega) (by omega) (Nat.le_refl _)
  · intro i hi; omega
  · intro i h1 h2; omega

/-- the workhorse: to show `bisect_right l x = k` exhibit the boundary -/
theorem bisectRight_eq {l : List Int} {x : Int} {k : Nat} (hs : SortedL l) (hk : Boundary l x k) :
    bisectRight l x = k := boundary_unique (bisectRight_spec x hs) hk

/-- a list whose consecutive elements increase is sorted -/
theorem sorted_of_step {l : List Int} (h : ∀ i, i + 1 < l.length → l.getD i 0 ≤ l.getD (i + 1) 0) :
    SortedL l := by
  intro i j hij hj
  induction j with
  | zero => omega
  | succ k ih =>
      by_cases e : i = k
      · subst e; exact h i hj
      · have := ih (by omega) (by omega)
        have := h k hj
        omega

end TZ
