/- Proofs/TzObjEqStr.lean — `tzrange.__init__/transitions/__eq__`, `tzstr._delta` and `tzstr.__init__` TRANSLATED from tz/tz.py
   (Generated/TzObjKernels.lean, regenerated on every run) equal the hand models `TzStr.tzrange`, `TzStr.transitions`,
   `TzStr.zoneEq`, `TzStr.delta`, `TzStr.tzstr` of Model/TzStr.lean / Model/TzRange.lean. -/
import DateutilVerif.Generated.TzObjKernels
import DateutilVerif.Proofs.TzGenEqGeneric
set_option linter.unusedSimpArgs false
namespace TzGen
open Py DtPy ObjPy TzStr

theorem mulM_div (v : Int) : v * M / M = v := by unfold M; omega

theorem addM_div (v k : Int) : (v * M + k * M) / M = v + k := by unfold M; omega

theorem dec_true (b : Bool) : decide (b = true) = b := by cases b <;> rfl

macro "ctor_fin" : tactic => `(tactic|
  (simp_all [dec_true, addM_div, Except.bind, Except.map, bind, pure, Except.pure, needInt, tdOfSeconds, strTruthy, DArg.ofOpt, zoneOf, DArg.toOpt,
      DArg.truthy, ObjPy.relativedelta, mulM_div, Option.join, Bool.decide_eq_true] <;> try (first | exact dec_true _ | (generalize Delta.truthy _ = b; cases b <;> rfl))))

theorem tzrange_init_eq (sa : Option String) (so : Option Int) (da : Option String) (d : Option Int)
    (st en : Option Delta) :
    (Gen.tzrange_init sa so da d (DArg.ofOpt st) (DArg.ofOpt en)).map zoneOf = TzStr.tzrange sa so da d st en := by
  unfold Gen.tzrange_init TzStr.tzrange
  cases so with
  | none =>
    cases d with
    | none => cases st <;> cases en <;> by_cases hda : abbrTruthy da = true <;> ctor_fin
    | some v2 =>
      cases h2 : tdCheck v2 <;> cases st <;> cases en <;> by_cases hda : abbrTruthy da = true <;> ctor_fin
  | some v1 =>
    cases h1 : tdCheck v1 with
    | error e => cases d <;> ctor_fin
    | ok u =>
      cases d with
      | none => cases st <;> cases en <;> by_cases hda : abbrTruthy da = true <;> ctor_fin
      | some v2 =>
        cases h2 : tdCheck v2 <;> cases st <;> cases en <;> by_cases hda : abbrTruthy da = true <;> ctor_fin

theorem td_fields (a : Int) : tdFieldSeconds (a * M) + tdFieldDays (a * M) * 86400 = a := by
  unfold tdFieldSeconds tdFieldDays
  unfold M; omega

macro "delta_fin" : tactic => `(tactic|
  (simp_all [Except.bind, bind, pure, Except.pure, needInt, optIntTruthy, kwGetInt, ObjPy.relativedelta, Option.join, b2i]
   <;> try (first | rfl | (split <;> simp_all))))

set_option maxHeartbeats 1000000 in
theorem tzstr_delta_eq (x : Attr) (isend : Bool) (stdOff dstOff : Int)
    (hwk : x.month.isSome → x.weekday.isSome → x.week.isSome) :
    Gen.tzstr_delta (stdOff * M) (dstOff * M) x (b2i isend) = TzStr.delta x isend stdOff dstOff := by
  obtain ⟨month, week, weekday, yday, jyday, day, time⟩ := x
  have hd : dstOff * M - stdOff * M = (dstOff - stdOff) * M := by rw [Int.sub_mul]
  unfold Gen.tzstr_delta TzStr.delta
  simp only [hd, td_fields]
  rcases month with _ | m
  · rcases yday with _ | yd
    · rcases jyday with _ | jd
      · cases time <;> cases isend <;> delta_fin
      · by_cases hj : jd = 0 <;> cases time <;> cases isend <;> delta_fin
    · by_cases hy : yd = 0 <;> cases time <;> cases isend <;> delta_fin
  · rcases weekday with _ | wd
    · rcases day with _ | dd
      · cases time <;> cases isend <;> delta_fin
      · by_cases hdd : dd = 0 <;> cases time <;> cases isend <;> delta_fin
    · rcases week with _ | wk
      · exact absurd (hwk rfl rfl) (by simp)
      · by_cases hwk0 : 0 < wk
        · cases time <;> cases isend <;> delta_fin
        · simp only [needInt, Except.bind, gt_iff_lt, hwk0, if_false]
          have hle : wk ≤ 0 := by omega
          cases time <;> cases isend <;> delta_fin

theorem tzrange_transitions_eq (z : Zone) (year : Int)
    (hz : z.hasdst = true → z.start.isSome ∧ z.«end».isSome) :
    Gen.tzrange_transitions z year = TzStr.transitions z year := by
  unfold Gen.tzrange_transitions TzStr.transitions
  cases hh : z.hasdst with
  | false => simp
  | true =>
    obtain ⟨h1, h2⟩ := hz hh
    obtain ⟨s, hs⟩ := Option.isSome_iff_exists.mp h1
    obtain ⟨e, he⟩ := Option.isSome_iff_exists.mp h2
    simp only [hs, he, jan1, jan1Add, not_true_eq_false, if_false]
    by_cases hy : year < 1 ∨ year > 9999
    · simp [hy, Except.bind, applyDelta, baseInstant, bind]
    · simp [hy, Except.bind, bind]

theorem mulM_inj (a b : Int) : (a * M = b * M) ↔ a = b := by unfold M; omega

theorem tzrange_eq_eq (a b : Zone) : Gen.tzrange_eq a b = .ok (zoneEq a b) := by
  unfold Gen.tzrange_eq zoneEq
  simp only [tdSeconds, mulM_inj]
  congr 1
  rw [Bool.eq_iff_iff]
  simp [and_assoc]

/-! ### `tzstr.__init__` (after `parser._parsetz`) -/

theorem add3600 (v : Int) : v * M + 1 * 3600 * M = (v + 3600) * M := by unfold M; omega
theorem tdCheck0 : tdCheck 0 = .ok () := by unfold tdCheck tdLimit; simp
theorem zeroM : (0 : Int) = 0 * M := by simp

/-- `timedelta(seconds=v)` succeeds: the value itself -/
def chk (v : Int) : R Int := match tdCheck v with | .ok _ => .ok v | .error e => .error e

/-- the offsets part of `tzrange.__init__` as `tzstr` uses it (`start=False, end=False`) -/
def offs (so : Option Int) (da : Option String) (d : Option Int) : R (Int × Int) :=
  Except.bind (match so with | some v => chk v | none => .ok 0) fun stdOff =>
  Except.bind (match d with
           | some v => chk v
           | none => .ok (if abbrTruthy da && so.isSome then stdOff + 3600 else 0)) fun dstOff =>
  .ok (stdOff, dstOff)

theorem init_false (sa : Option String) (so : Option Int) (da : Option String) (d : Option Int) :
    Gen.tzrange_init sa so da d .false_ .false_ =
      (match offs so da d with
       | .error e => .error e
       | .ok p => .ok (sa, da, p.1 * M, p.2 * M, DArg.false_, DArg.false_, false)) := by
  unfold Gen.tzrange_init offs chk
  cases so with
  | none =>
    cases d with
    | none => by_cases hda : abbrTruthy da = true <;> ctor_fin
    | some v2 => cases h2 : tdCheck v2 <;> by_cases hda : abbrTruthy da = true <;> ctor_fin
  | some v1 =>
    cases h1 : tdCheck v1 with
    | error e => cases d <;> ctor_fin
    | ok u =>
      cases d with
      | none => by_cases hda : abbrTruthy da = true <;> ctor_fin <;> (unfold M; omega)
      | some v2 => cases h2 : tdCheck v2 <;> by_cases hda : abbrTruthy da = true <;> ctor_fin

macro "str_fin" : tactic => `(tactic|
  simp_all [offs, chk, Except.bind, tdCheck0, Except.map, zoneOf, DArg.toOpt, DArg.truthy, mulM_div, addM_div, pure, Except.pure,
    strTruthy, abbrTruthy, dec_true])

macro "tail_fin" : tactic => `(tactic|
  (generalize delta _ false _ _ = r1 at *
   generalize delta _ true _ _ = r2
   rcases r1 with e | sd <;> rcases r2 with e2 | ed <;> (try simp_all) <;>
     (try (cases ht : sd.truthy <;> simp_all [dec_true, DArg.truthy, DArg.toOpt, mulM_div]))))

/-- a rule with a weekday has a week (what `_tzparser.parse` produces) -/
def WkOk (x : Attr) : Prop := x.month.isSome → x.weekday.isSome → x.week.isSome

theorem tzstr_init_eq (s : String) (posix : Bool)
    (hres : ∀ res, TzStr.parse s = .ok (some res) → WkOk res.start ∧ WkOk res.«end») :
    (Gen.tzstr_init s posix).map zoneOf = TzStr.tzstr s posix := by
  unfold Gen.tzstr_init TzStr.tzstr
  cases hp : TzStr.parse s with
  | error e => simp [Except.bind, bind, Except.map]
  | ok r =>
    cases r with
    | none => simp [Except.bind, bind, Except.map]
    | some res =>
      obtain ⟨hw1, hw2⟩ := hres res hp
      by_cases hu : res.anyUnused = true
      · simp [Except.bind, bind, Except.map, hu]
      · have hu' : res.anyUnused = false := by simpa using hu
        simp only [Except.bind, bind, if_neg hu, init_false]
        -- the GMT/UTC sign flip
        have hflip : (if (res.stdabbr = some "GMT" ∨ res.stdabbr = some "UTC") ∧ ¬posix = true ∧ res.stdoffset ≠ none then
              (Except.bind (needInt res.stdoffset) fun v => Except.ok ({ res with stdoffset := some (v * -1) } : Res))
            else Except.ok res) =
            Except.ok ({ res with stdoffset := (if ((res.stdabbr == some "GMT" || res.stdabbr == some "UTC") && !posix) = true then
              Option.map (fun x => x * -1) res.stdoffset else res.stdoffset) } : Res) := by
          cases hso : res.stdoffset <;> cases posix <;>
            by_cases hg : (res.stdabbr = some "GMT" ∨ res.stdabbr = some "UTC") <;>
            simp_all [needInt, Except.bind] <;> (try (cases res; simp_all))
        simp only [Except.bind] at hflip
        rw [hflip]
        generalize (if ((res.stdabbr == some "GMT" || res.stdabbr == some "UTC") && !posix) = true then
              Option.map (fun x => x * -1) res.stdoffset else res.stdoffset) = so'
        simp only []
        have e0 : ∀ a b : Int, Gen.tzstr_delta (a * M) (b * M) res.start 0 = delta res.start false a b :=
          fun a b => tzstr_delta_eq res.start false a b hw1
        have e1 : ∀ a b : Int, Gen.tzstr_delta (a * M) (b * M) res.«end» 1 = delta res.«end» true a b :=
          fun a b => tzstr_delta_eq res.«end» true a b hw2
        have hst : strTruthy res.dstabbr = (match res.dstabbr with | none => false | some a => !a.isEmpty) := by
          cases res.dstabbr <;> rfl
        have e0a : ∀ b : Int, Gen.tzstr_delta 0 (b * M) res.start 0 = delta res.start false 0 b := by
          intro b; have := e0 0 b; simpa using this
        have e0b : ∀ a : Int, Gen.tzstr_delta (a * M) 0 res.start 0 = delta res.start false a 0 := by
          intro a; have := e0 a 0; simpa using this
        have e0c : Gen.tzstr_delta 0 0 res.start 0 = delta res.start false 0 0 := by
          have := e0 0 0; simpa using this
        have e1a : ∀ b : Int, Gen.tzstr_delta 0 (b * M) res.«end» 1 = delta res.«end» true 0 b := by
          intro b; have := e1 0 b; simpa using this
        have e1b : ∀ a : Int, Gen.tzstr_delta (a * M) 0 res.«end» 1 = delta res.«end» true a 0 := by
          intro a; have := e1 a 0; simpa using this
        have e1c : Gen.tzstr_delta 0 0 res.«end» 1 = delta res.«end» true 0 0 := by
          have := e1 0 0; simpa using this
        clear hflip hres hp
        generalize res.dstabbr = da at *
        generalize res.dstoffset = d at *
        generalize res.stdabbr = sa at *
        generalize res.start = st at *
        generalize res.«end» = en at *
        cases so' with
        | none =>
          cases d with
          | none =>
            rcases da with _ | a
            · str_fin
            · by_cases ha : a.isEmpty = true <;> str_fin <;> (try clear e0c) <;> (try clear e1c) <;> (try clear e0a) <;> (try clear e0b) <;> (try clear e1a) <;> (try clear e1b) <;> (try clear e0) <;> (try clear e1) <;> tail_fin
          | some v2 =>
            cases h2 : tdCheck v2 with
            | error e => str_fin
            | ok u =>
              rcases da with _ | a
              · str_fin
              · by_cases ha : a.isEmpty = true <;> str_fin <;> (try clear e0c) <;> (try clear e1c) <;> (try clear e0a) <;> (try clear e0b) <;> (try clear e1a) <;> (try clear e1b) <;> (try clear e0) <;> (try clear e1) <;> tail_fin
        | some v1 =>
          cases h1 : tdCheck v1 with
          | error e => str_fin
          | ok u1 =>
            cases d with
            | none =>
              rcases da with _ | a
              · str_fin
              · by_cases ha : a.isEmpty = true <;> str_fin <;> (try clear e0c) <;> (try clear e1c) <;> (try clear e0a) <;> (try clear e0b) <;> (try clear e1a) <;> (try clear e1b) <;> (try clear e0) <;> (try clear e1) <;> tail_fin
            | some v2 =>
              cases h2 : tdCheck v2 with
              | error e => str_fin
              | ok u =>
                rcases da with _ | a
                · str_fin
                · by_cases ha : a.isEmpty = true <;> str_fin <;> (try clear e0c) <;> (try clear e1c) <;> (try clear e0a) <;> (try clear e0b) <;> (try clear e1a) <;> (try clear e1b) <;> (try clear e0) <;> (try clear e1) <;> tail_fin
end TzGen
