/- Proofs/TzObjEqStr.lean — `tzrange.__init__/transitions/__eq__` and `tzstr._delta` TRANSLATED from tz/tz.py
   (Generated/TzObjKernels.lean, regenerated on every run) equal the hand models `TzStr.tzrange`, `TzStr.transitions`,
   `TzStr.zoneEq`, `TzStr.delta` of Model/TzStr.lean / Model/TzRange.lean. -/
import DateutilVerif.Generated.TzObjKernels
import DateutilVerif.Proofs.TzGenEqGeneric
set_option linter.unusedSimpArgs false
namespace TzGen
open Py DtPy ObjPy TzStr

theorem mulM_div (v : Int) : v * M / M = v := by unfold M; omega

theorem addM_div (v k : Int) : (v * M + k * M) / M = v + k := by unfold M; omega

theorem dec_true (b : Bool) : decide (b = true) = b := by cases b <;> rfl

macro "ctor_fin" : tactic => `(tactic|
  (simp_all [dec_true, addM_div, Except.bind, Except.map, bind, pure, Except.pure, needInt, tdOfSeconds, strTruthy, DArg.ofOpt, zoneOf, DArg.toOpt,
      DArg.truthy, ObjPy.relativedelta, mulM_div, Option.join, Bool.decide_eq_true] <;> try (first | exact dec_true _ | (generalize Delta.truthy _ = b; cases b <;> rfl))))

theorem tzrange_init_eq (sa : Option String) (so : Option Int) (da : Option String) (d : Option Int)
    (st en : Option Delta) :
    (Gen.tzrange_init sa so da d (DArg.ofOpt st) (DArg.ofOpt en)).map zoneOf = TzStr.tzrange sa so da d st en := by
  unfold Gen.tzrange_init TzStr.tzrange
  cases so with
  | none =>
    cases d with
    | none => cases st <;> cases en <;> by_cases hda : abbrTruthy da = true <;> ctor_fin
    | some v2 =>
      cases h2 : tdCheck v2 <;> cases st <;> cases en <;> by_cases hda : abbrTruthy da = true <;> ctor_fin
  | some v1 =>
    cases h1 : tdCheck v1 with
    | error e => cases d <;> ctor_fin
    | ok u =>
      cases d with
      | none => cases st <;> cases en <;> by_cases hda : abbrTruthy da = true <;> ctor_fin
      | some v2 =>
        cases h2 : tdCheck v2 <;> cases st <;> cases en <;> by_cases hda : abbrTruthy da = true <;> ctor_fin

theorem td_fields (a : Int) : tdFieldSeconds (a * M) + tdFieldDays (a * M) * 86400 = a := by
  unfold tdFieldSeconds tdFieldDays
  unfold M; omega

macro "delta_fin" : tactic => `(tactic|
  (simp_all [Except.bind, bind, pure, Except.pure, needInt, optIntTruthy, kwGetInt, ObjPy.relativedelta, Option.join, b2i]
   <;> try (first | rfl | (split <;> simp_all))))

set_option maxHeartbeats 1000000 in
theorem tzstr_delta_eq (x : Attr) (isend : Bool) (stdOff dstOff : Int)
    (hwk : x.month.isSome → x.weekday.isSome → x.week.isSome) :
    Gen.tzstr_delta (stdOff * M) (dstOff * M) x (b2i isend) = TzStr.delta x isend stdOff dstOff := by
  obtain ⟨month, week, weekday, yday, jyday, day, time⟩ := x
  have hd : dstOff * M - stdOff * M = (dstOff - stdOff) * M := by rw [Int.sub_mul]
  unfold Gen.tzstr_delta TzStr.delta
  simp only [hd, td_fields]
  rcases month with _ | m
  · rcases yday with _ | yd
    · rcases jyday with _ | jd
      · cases time <;> cases isend <;> delta_fin
      · by_cases hj : jd = 0 <;> cases time <;> cases isend <;> delta_fin
    · by_cases hy : yd = 0 <;> cases time <;> cases isend <;> delta_fin
  · rcases weekday with _ | wd
    · rcases day with _ | dd
      · cases time <;> cases isend <;> delta_fin
      · by_cases hdd : dd = 0 <;> cases time <;> cases isend <;> delta_fin
    · rcases week with _ | wk
      · exact absurd (hwk rfl rfl) (by simp)
      · by_cases hwk0 : 0 < wk
        · cases time <;> cases isend <;> delta_fin
        · simp only [needInt, Except.bind, gt_iff_lt, hwk0, if_false]
          have hle : wk ≤ 0 := by omega
          cases time <;> cases isend <;> delta_fin

theorem tzrange_transitions_eq (z : Zone) (year : Int)
    (hz : z.hasdst = true → z.start.isSome ∧ z.«end».isSome) :
    Gen.tzrange_transitions z year = TzStr.transitions z year := by
  unfold Gen.tzrange_transitions TzStr.transitions
  cases hh : z.hasdst with
  | false => simp
  | true =>
    obtain ⟨h1, h2⟩ := hz hh
    obtain ⟨s, hs⟩ := Option.isSome_iff_exists.mp h1
    obtain ⟨e, he⟩ := Option.isSome_iff_exists.mp h2
    simp only [hs, he, jan1, jan1Add, not_true_eq_false, if_false]
    by_cases hy : year < 1 ∨ year > 9999
    · simp [hy, Except.bind, applyDelta, baseInstant, bind]
    · simp [hy, Except.bind, bind]

theorem mulM_inj (a b : Int) : (a * M = b * M) ↔ a = b := by unfold M; omega

theorem tzrange_eq_eq (a b : Zone) : Gen.tzrange_eq a b = .ok (zoneEq a b) := by
  unfold Gen.tzrange_eq zoneEq
  simp only [tdSeconds, mulM_inj]
  congr 1
  rw [Bool.eq_iff_iff]
  simp [and_assoc]
end TzGen
