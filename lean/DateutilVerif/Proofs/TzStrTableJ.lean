/- Proofs/TzStrTableJ.lean — a whole finite table of TZ-string spellings, by kernel evaluation. -/
import DateutilVerif.Proofs.TzStrDefs

namespace C08
open TzStr Posix

theorem tableJ : ∀ n : Fin 365,
    parsesTo ("AAA5BBB,J" ++ toString (n.val + 1) ++ ",M10.5.0") (attrOf (.J (n.val + 1)) none) = true := by decide +kernel

end C08
