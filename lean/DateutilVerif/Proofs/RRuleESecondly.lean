/-
  Proofs/RRuleESecondly.lean — Proofs/RRuleSecondly.lean with BYEASTER (complement of D-C01d: offsets −80..250,
  visited days inside 1583..4099, no BYWEEKNO) instead of "no BYEASTER": the same refinement over the BY-filter
  abstraction of Proofs/RRuleEFilter.lean.  The lemmas of Proofs/RRuleSecondly.lean that do not mention the
  argument class are used from there.
-/
import DateutilVerif.Proofs.RRuleEFilter
import DateutilVerif.Proofs.RRuleSecondly
import DateutilVerif.Proofs.RRuleEMinutely

namespace RRule
open Cal

structure SecondlyEArgs (a : Args) : Prop where
  freq : a.freq = 6
  interval : 1 ≤ a.interval
  valid : a.dtstart.Valid
  byweekno : a.byweekno = none
  easter : ∃ el, a.byeaster = some el ∧ el ≠ [] ∧ ∀ o ∈ el, -80 ≤ o ∧ o ≤ 250
  monthday_nz : ∀ x ∈ a.bymonthday.getD [], x ≠ 0
  byhour : a.byhour = none
  byminute : a.byminute = none
  bysecond : a.bysecond = none

variable {a : Args} {r : Rule}

theorem sae_dw (sa : SecondlyEArgs a) : DWArgs (asDailyE a) :=
  ⟨Or.inr rfl, sa.interval, sa.valid, sa.byweekno, rfl, sa.monthday_nz⟩

abbrev secondlyERuleOf (a : Args) : Rule :=
  { freq := a.freq, interval := a.interval, wkst := a.wkst.getD 0,
    dtstart := { a.dtstart with us := 0 }, tz := a.tz, count := a.count, untilDT := a.untilDT,
    bysetpos := a.bysetpos, bymonth := a.bymonth.map sortedSet, bymonthday := bymonthdayOf a,
    bynmonthday := bynmonthdayOf a, byyearday := a.byyearday.map sortedSet,
    byeaster := a.byeaster.map (sortBy ltInt), byweekno := none,
    byweekday := byweekdayOf a, bynweekday := bynweekdayOf a,
    byhour := none, byminute := none, bysecond := none, timeset := none }

theorem slye_rule (sa : SecondlyEArgs a) (h : construct a = .ok r) : r = secondlyERuleOf a := by
  obtain ⟨sp, bh, bm, bs, ts, h1, h2, h3, h4, h5, rfl⟩ := construct_ok a r h
  have hsp := (normBysetpos_ok a sp h1).1
  subst hsp
  have hbh : bh = none := by
    unfold normUnit at h2
    rw [sa.byhour] at h2
    dsimp only at h2
    rw [if_neg (by rw [sa.freq]; omega)] at h2
    injection h2 with h2; exact h2.symm
  have hbm : bm = none := by
    unfold normUnit at h3
    rw [sa.byminute] at h3
    dsimp only at h3
    rw [if_neg (by rw [sa.freq]; omega)] at h3
    injection h3 with h3; exact h3.symm
  have hbs : bs = none := by
    unfold normUnit at h4
    rw [sa.bysecond] at h4
    dsimp only at h4
    rw [if_neg (by rw [sa.freq]; omega)] at h4
    injection h4 with h4; exact h4.symm
  have hts : ts = none := by
    unfold timesetOf at h5
    rw [if_pos (by rw [sa.freq]; omega)] at h5
    injection h5 with h5; exact h5.symm
  subst hbh hbm hbs hts
  have hne0 : (a.freq == 0) = false := by simp [sa.freq]
  simp [secondlyERuleOf, hne0, sa.byweekno, bymonthOf]

theorem slye_cuts (sa : SecondlyEArgs a) (h : construct a = .ok r) : CutsAgree a r := by
  rw [slye_rule sa h]; exact ⟨rfl, rfl, rfl⟩

theorem slye_erule (sa : SecondlyEArgs a) (h : construct a = .ok r) : ERule r := by
  have hd := construct_nth_demoted a r h (by rw [sa.freq]; omega)
  have hr := slye_rule sa h
  rw [hr] at hd ⊢
  refine erule_of a _ sa.easter rfl rfl ?_
  dsimp only at hd ⊢
  rcases hd with hd | hd <;> rw [hd] <;> rfl

/-- **bridge**: the model's filter predicate is the specification's `dateOk` -/
theorem slye_bridge (sa : SecondlyEArgs a) (h : construct a = .ok r) (ord : Int) (ho : 1 ≤ ord) :
    (simpleOk r ord && eclause r ord) = Spec.RRule.dateOk a ord := by
  have hr := slye_rule sa h
  rw [hr]
  exact eOk_eq_dateOk a _ (by rw [sa.freq]; omega) (sae_dw sa) sa.easter rfl rfl rfl rfl rfl rfl ord ho

/-- the second's time set is the specification's -/
theorem stimeset_spec_e (sa : SecondlyEArgs a) (hour minute second : Int)
    (h0 : 0 ≤ hour) (h1 : hour ≤ 23) (m0 : 0 ≤ minute) (m1 : minute ≤ 59) (s0 : 0 ≤ second) (s1 : second ≤ 59) :
    stimeset hour minute second = .ok (Spec.RRule.timesOf a (some hour) (some minute) (some second)) ∧
    TsOk (Spec.RRule.timesOf a (some hour) (some minute) (some second)) := by
  have hspec : Spec.RRule.timesOf a (some hour) (some minute) (some second) = [(hour, minute, second)] := by
    unfold Spec.RRule.timesOf Spec.RRule.restrict Spec.RRule.hours Spec.RRule.minutes Spec.RRule.seconds
    rw [sa.byhour, sa.byminute, sa.bysecond]
    dsimp only
    rw [if_neg (show ¬ a.freq < 4 by rw [sa.freq]; omega), filter_eq_hour hour h0 h1,
        if_neg (show ¬ a.freq < 5 by rw [sa.freq]; omega), filter_eq_minute minute m0 m1,
        if_neg (show ¬ a.freq < 6 by rw [sa.freq]; omega), filter_eq_minute second s0 s1]
    rfl
  rw [hspec]
  constructor
  · unfold stimeset mkTime
    simp only [bind, Except.bind, pure, Except.pure]
    rw [if_pos ⟨h0, h1, m0, m1, s0, s1⟩]
  · refine ⟨by simp, ?_⟩
    intro t ht
    simp at ht; subst ht
    exact ⟨h0, h1, m0, m1, s0, s1⟩

/-- "the model state at the start of period `k`" for a SECONDLY rule -/
structure SecondlyEGood (a : Args) (r : Rule) (k : Nat) (st : State) : Prop where
  facts : YearFacts r st.cur.year st.info
  inv : EInv r st.info
  valid : ValidYMD st.cur.year st.cur.month st.cur.day
  hour : 0 ≤ st.cur.hour ∧ st.cur.hour ≤ 23
  minute : 0 ≤ st.cur.minute ∧ st.cur.minute ≤ 59
  second : 0 ≤ st.cur.second ∧ st.cur.second ≤ 59
  idx : ((curOrd st.cur * 24 + st.cur.hour) * 60 + st.cur.minute) * 60 + st.cur.second =
    ((Spec.RRule.startOrd a * 24 + a.dtstart.hh) * 60 + a.dtstart.mm) * 60 + a.dtstart.ss + k * a.interval
  timeset : st.timeset = Spec.RRule.timesOf a (some st.cur.hour) (some st.cur.minute) (some st.cur.second)

theorem slye_span (sa : SecondlyEArgs a) (ord hour minute second : Int) (k : Nat) (h0 : 0 ≤ hour) (h1 : hour ≤ 23)
    (m0 : 0 ≤ minute) (m1 : minute ≤ 59) (s0 : 0 ≤ second) (s1 : second ≤ 59)
    (hu : ((ord * 24 + hour) * 60 + minute) * 60 + second =
      ((Spec.RRule.startOrd a * 24 + a.dtstart.hh) * 60 + a.dtstart.mm) * 60 + a.dtstart.ss + k * a.interval) :
    Spec.RRule.periodSpan a (k * a.interval) = (ord, ord + 1, some hour, some minute, some second) := by
  unfold Spec.RRule.periodSpan
  rw [if_neg (by simp [sa.freq]), if_neg (by simp [sa.freq]), if_neg (by simp [sa.freq]),
      if_neg (by simp [sa.freq]), if_neg (by simp [sa.freq]), if_neg (by simp [sa.freq])]
  dsimp only
  rw [← hu]
  have e1 : (((ord * 24 + hour) * 60 + minute) * 60 + second) / 86400 = ord := by omega
  have e2 : (((ord * 24 + hour) * 60 + minute) * 60 + second) / 3600 % 24 = hour := by omega
  have e3 : (((ord * 24 + hour) * 60 + minute) * 60 + second) / 60 % 60 = minute := by omega
  have e4 : (((ord * 24 + hour) * 60 + minute) * 60 + second) % 60 = second := by omega
  rw [e1, e2, e3, e4]

theorem slye_results (sa : SecondlyEArgs a) (h : construct a = .ok r) (k : Nat) (st : State)
    (hg : SecondlyEGood a r k st) (hle : curOrd st.cur ≤ maxOrdinal) :
    ∃ fl, periodResults r st = .ok (Spec.RRule.sel a (k : Int), none, fl) ∧
      (fl = true → Spec.RRule.dateOk a (curOrd st.cur) = false) ∧
      ∀ x ∈ Spec.RRule.sel a (k : Int), 0 ≤ x.ord ∧ x.ord ≤ maxOrdinal := by
  have hw := slye_erule sa h
  have hr := slye_rule sa h
  have hfreq : r.freq = 6 := by rw [hr]; exact sa.freq
  have hsp := construct_bysetpos a r h
  have htsok : TsOk st.timeset := by
    rw [hg.timeset]
    exact (stimeset_spec_e sa _ _ _ hg.hour.1 hg.hour.2 hg.minute.1 hg.minute.2 hg.second.1 hg.second.2).2
  have hpos : 1 ≤ curOrd st.cur := toOrdinal_pos _ _ _ hg.facts.year_lo hg.valid
  obtain ⟨fl, hres, hflag⟩ := periodResults_day_e hw st hg.facts hg.inv hg.valid (by omega)
    (by rw [hsp.1]; exact hsp.2) htsok hle
  have hbridge : (intRange (curOrd st.cur) (curOrd st.cur + 1)).filter (fun o => simpleOk r o && eclause r o) =
      (intRange (curOrd st.cur) (curOrd st.cur + 1)).filter (Spec.RRule.dateOk a) := by
    apply List.filter_congr
    intro o ho
    exact slye_bridge sa h o (by have := (mem_intRange _ _ _).mp ho; omega)
  have hspan := slye_span sa (curOrd st.cur) st.cur.hour st.cur.minute st.cur.second k hg.hour.1 hg.hour.2
    hg.minute.1 hg.minute.2 hg.second.1 hg.second.2 hg.idx
  have hsel := sel_span_gen a k _ _ _ _ _ hspan
  refine ⟨fl, ?_, ?_, ?_⟩
  · rw [hres, hg.timeset, hsel, hbridge, hsp.1]
  · intro hf
    rw [← slye_bridge sa h _ hpos]
    exact hflag hf
  · intro x hx
    rw [hsel] at hx
    have := sel_bounds _ _ _ _ x (applySetpos_subset _ _ x hx)
    omega

/-- one `advance`: from second-of-day `S + X` (after the optional jump `X = s·interval` inside the day) to
    the second `interval` later -/
theorem slye_advance_core (sa : SecondlyEArgs a) (h : construct a = .ok r) (k : Nat) (st : State) (fl : Bool)
    (c : Option Int) (hg : SecondlyEGood a r k st) (s : Nat) (X : Int) (hX : X = s * a.interval)
    (hX0 : 0 ≤ X) (hXle : X ≤ 86399 - (st.cur.hour * 3600 + st.cur.minute * 60 + st.cur.second))
    (hsec0 : (if fl = true then st.cur.second +
        Py.fdiv (86399 - (st.cur.hour * 3600 + st.cur.minute * 60 + st.cur.second)) r.interval * r.interval
        else st.cur.second) = st.cur.second + X)
    (hle : curOrd st.cur * 86400 + 86399 + a.interval < (emaxOrd + 1) * 86400) :
    ∃ st', advance r { st with count := c } fl = .ok st' ∧ SecondlyEGood a r (k + s + 1) st' := by
  have hw := slye_erule sa h
  have hr := slye_rule sa h
  have hfreq : r.freq = 6 := by rw [hr]; exact sa.freq
  have hint : r.interval = a.interval := by rw [hr]
  have hbh : r.byhour = none := by rw [hr]
  have hbm : r.byminute = none := by rw [hr]
  have hbs : r.bysecond = none := by rw [hr]
  have hi := sa.interval
  obtain ⟨hm1, hm12, hd1, hd2⟩ := hg.valid
  have hh := hg.hour
  have hmm := hg.minute
  have hss := hg.second
  have hidx := hg.idx
  have ek : ((k + s + 1 : Nat) : Int) * a.interval = k * a.interval + X + a.interval := by
    rw [hX]; push_cast; rw [Int.add_mul, Int.add_mul]; omega
  obtain ⟨nm, hnm⟩ : ∃ nm, nm = (st.cur.second + X + a.interval) / 60 := ⟨_, rfl⟩
  obtain ⟨se', hse'⟩ : ∃ se', se' = (st.cur.second + X + a.interval) % 60 := ⟨_, rfl⟩
  obtain ⟨nh, hnh⟩ : ∃ nh, nh = (st.cur.minute + nm) / 60 := ⟨_, rfl⟩
  obtain ⟨mi', hmi'⟩ : ∃ mi', mi' = (st.cur.minute + nm) % 60 := ⟨_, rfl⟩
  obtain ⟨nd, hnd⟩ : ∃ nd, nd = (st.cur.hour + nh) / 24 := ⟨_, rfl⟩
  obtain ⟨hr', hhr'⟩ : ∃ hr', hr' = (st.cur.hour + nh) % 24 := ⟨_, rfl⟩
  have hdm : nm * 60 + se' = st.cur.second + X + a.interval ∧ 0 ≤ se' ∧ se' ≤ 59 ∧ 0 ≤ nm ∧
      nh * 60 + mi' = st.cur.minute + nm ∧ 0 ≤ mi' ∧ mi' ≤ 59 ∧ 0 ≤ nh ∧
      nd * 24 + hr' = st.cur.hour + nh ∧ 0 ≤ hr' ∧ hr' ≤ 23 ∧ 0 ≤ nd := by omega
  obtain ⟨d1, d2, d3, d4, d5, d6, d7, d8, d9, d10, d11, d12⟩ := hdm
  obtain ⟨hts, _⟩ := stimeset_spec_e sa hr' mi' se' d10 d11 d6 d7 d2 d3
  have htn : truthy (none : Option (List Int)) = false := rfl
  obtain ⟨reps, hreps⟩ := reps_pos r.interval 86400 (by omega)
  -- the loop's first pass
  have hloop : secondlyLoop r (reps + 1) (st.cur.second + X) st.cur.minute st.cur.hour st.cur.day false =
      .ok (se', mi', hr', (if nd ≠ 0 then st.cur.day + nd else st.cur.day), decide (nd ≠ 0)) := by
    unfold secondlyLoop
    rw [hbh, hbm, hbs, htn]
    simp only [Bool.false_eq_true, ↓reduceIte, Py.divmod, Py.fdiv_pos _ (by decide : (0 : Int) < 24),
      Py.fmod_pos _ (by decide : (0 : Int) < 24), Py.fdiv_pos _ (by decide : (0 : Int) < 60),
      Py.fmod_pos _ (by decide : (0 : Int) < 60), hint, Bool.not_false, Bool.true_or, Bool.and_self]
    rw [← hnm, ← hse', ← hnh, ← hmi']
    by_cases hz0 : nh = 0
    · have hnd0 : nd = 0 := by omega
      have hhr0 : hr' = st.cur.hour := by omega
      simp [hz0, hnd0, hhr0]
    · simp only [ne_eq, hz0, not_false_eq_true, ↓reduceIte, true_and]
      rw [← hnd, ← hhr']
      by_cases hz : nd = 0 <;> simp [hz]
  unfold advance
  dsimp only
  rw [if_neg (by simp [hfreq]), if_neg (by simp [hfreq]), if_neg (by simp [hfreq]), if_neg (by simp [hfreq]),
      if_neg (by simp [hfreq]), if_neg (by simp [hfreq]), if_pos (by simp [hfreq]), hsec0, hreps, hloop]
  dsimp only
  unfold gettimeset
  rw [if_neg (by simp [hfreq]), if_neg (by simp [hfreq]), hts]
  dsimp only
  by_cases hz : nd = 0
  · subst hz
    simp only [ne_eq, not_true_eq_false, ↓reduceIte, decide_false]
    rw [fixDay_false]
    refine ⟨_, rfl, ⟨hg.facts, hg.inv, hg.valid, ⟨d10, d11⟩, ⟨d6, d7⟩, ⟨d2, d3⟩, ?_, rfl⟩⟩
    dsimp only
    have : curOrd { st.cur with hour := hr', minute := mi', second := se' } = curOrd st.cur := rfl
    rw [this, ek]; omega
  · simp only [ne_eq, hz, not_false_eq_true, ↓reduceIte, decide_true]
    have hcur : curOrd { st.cur with day := st.cur.day + nd, hour := hr', minute := mi', second := se' } =
        curOrd st.cur + nd := by
      unfold curOrd toOrdinal; dsimp only; omega
    obtain ⟨st', hfix, hnw'⟩ := fixDay_ok_e hw
      { cur := { st.cur with day := st.cur.day + nd, hour := hr', minute := mi', second := se' }, info := st.info,
        timeset := Spec.RRule.timesOf a (some hr') (some mi') (some se'), count := c }
      true hg.facts hm1 hm12 (by dsimp only; omega) (by dsimp only; rw [hcur]; omega) hg.inv
    have sp := fixDay_spec r _ st' hfix hm1 hm12 (by dsimp only; omega) hg.facts
    obtain ⟨e, v, f', eh, em, es, _, ts⟩ := sp
    refine ⟨st', hfix, ⟨f', hnw', v, by rw [eh]; exact ⟨d10, d11⟩, by rw [em]; exact ⟨d6, d7⟩,
      by rw [es]; exact ⟨d2, d3⟩, ?_, by rw [ts, eh, em, es]⟩⟩
    rw [e, eh, em, es]
    dsimp only
    rw [hcur, ek]; omega

theorem slye_skip (sa : SecondlyEArgs a) (k : Nat) (st : State) (hg : SecondlyEGood a r k st)
    (hno : Spec.RRule.dateOk a (curOrd st.cur) = false) (j : Nat) (hkj : k < j)
    (hj : ((j : Int) - k) * a.interval ≤ 86399 - (st.cur.hour * 3600 + st.cur.minute * 60 + st.cur.second)) :
    Spec.RRule.sel a (j : Int) = [] := by
  have hi := sa.interval
  have hh := hg.hour
  have hmm := hg.minute
  have hss := hg.second
  have hpos : (0 : Int) ≤ ((j : Int) - k) * a.interval := Int.mul_nonneg (by omega) (by omega)
  generalize hM : st.cur.hour * 3600 + st.cur.minute * 60 + st.cur.second + ((j : Int) - k) * a.interval = M at *
  have hu : ((curOrd st.cur * 24 + M / 3600) * 60 + M / 60 % 60) * 60 + M % 60 =
      ((Spec.RRule.startOrd a * 24 + a.dtstart.hh) * 60 + a.dtstart.mm) * 60 + a.dtstart.ss + j * a.interval := by
    have := hg.idx
    have e : (j : Int) * a.interval = k * a.interval + ((j : Int) - k) * a.interval := by
      rw [← Int.add_mul]; congr 1; omega
    rw [e]; omega
  have hspan := slye_span sa (curOrd st.cur) (M / 3600) (M / 60 % 60) (M % 60) j (by omega) (by omega) (by omega)
    (by omega) (by omega) (by omega) hu
  rw [sel_span_gen a j _ _ _ _ _ hspan, intRange_one]
  simp only [List.filter_cons, hno, Bool.false_eq_true, ↓reduceIte, List.filter_nil, List.flatMap_nil]
  exact applySetpos_nil _

theorem slye_next (sa : SecondlyEArgs a) (h : construct a = .ok r) (k : Nat) (st : State) (fl : Bool)
    (c : Option Int) (hg : SecondlyEGood a r k st)
    (hfl : fl = true → Spec.RRule.dateOk a (curOrd st.cur) = false)
    (hle : curOrd st.cur * 86400 + 86399 + a.interval < (emaxOrd + 1) * 86400) :
    ∃ st' k', advance r { st with count := c } fl = .ok st' ∧ k < k' ∧ k' ≤ k + 86400 ∧ SecondlyEGood a r k' st' ∧
      ∀ j : Nat, k < j → j < k' → Spec.RRule.sel a (j : Int) = [] := by
  have hr := slye_rule sa h
  have hint : r.interval = a.interval := by rw [hr]
  have hi := sa.interval
  have hh := hg.hour
  have hmm := hg.minute
  have hss := hg.second
  cases fl with
  | false =>
    obtain ⟨st', hadv, hg'⟩ := slye_advance_core sa h k st false c hg 0 0 (by simp) (by omega) (by omega)
      (by simp) hle
    exact ⟨st', k + 0 + 1, hadv, by omega, by omega, hg', by intro j h1 h2; omega⟩
  | true =>
    generalize hR : 86399 - (st.cur.hour * 3600 + st.cur.minute * 60 + st.cur.second) = R at *
    have hR0 : 0 ≤ R := by omega
    have hq0 : 0 ≤ R / a.interval := Int.ediv_nonneg hR0 (by omega)
    have hqX : R / a.interval * a.interval ≤ R := Int.ediv_mul_le _ (by omega)
    have hq1 : R / a.interval * 1 ≤ R / a.interval * a.interval := Int.mul_le_mul_of_nonneg_left hi hq0
    have hcast : ((R / a.interval).toNat : Int) = R / a.interval := Int.toNat_of_nonneg hq0
    obtain ⟨st', hadv, hg'⟩ := slye_advance_core sa h k st true c hg (R / a.interval).toNat
      (R / a.interval * a.interval) (by rw [hcast]) (Int.mul_nonneg hq0 (by omega)) (by rw [hR]; exact hqX)
      (by simp only [↓reduceIte]; rw [hR, Py.fdiv_pos _ (by omega), hint]) hle
    refine ⟨st', k + (R / a.interval).toNat + 1, hadv, by omega, by omega, hg', ?_⟩
    intro j h1 h2
    apply slye_skip sa k st hg (hfl rfl) j h1
    have hjq : (j : Int) - k ≤ R / a.interval := by omega
    have := Int.mul_le_mul_of_nonneg_right hjq (show (0 : Int) ≤ a.interval by omega)
    omega

theorem slye_init (sa : SecondlyEArgs a) (h : construct a = .ok r) (hlo : 1583 ≤ a.dtstart.y)
    (hhi : Spec.RRule.startOrd a ≤ emaxOrd) :
    ∃ st0, init r = .ok st0 ∧ SecondlyEGood a r 0 st0 ∧ st0.count = r.count := by
  have hw := slye_erule sa h
  have hv := sa.valid
  unfold DT.Valid ValidDate at hv
  obtain ⟨info, hre, hnw⟩ := rebuild_e hw a.dtstart.y a.dtstart.m hlo (start_year_hi a sa.valid hhi)
  have hr := slye_rule sa h
  have hd : r.dtstart = { a.dtstart with us := 0 } := by rw [hr]
  have hf : r.freq = 6 := by rw [hr]; exact sa.freq
  have hbh : r.byhour = none := by rw [hr]
  have hbm : r.byminute = none := by rw [hr]
  have hbs : r.bysecond = none := by rw [hr]
  obtain ⟨hts, _⟩ := stimeset_spec_e sa a.dtstart.hh a.dtstart.mm a.dtstart.ss hv.2.1 hv.2.2.1 hv.2.2.2.1 hv.2.2.2.2.1
    hv.2.2.2.2.2.1 hv.2.2.2.2.2.2.1
  refine ⟨{ cur := { year := a.dtstart.y, month := a.dtstart.m, day := a.dtstart.d, hour := a.dtstart.hh,
                     minute := a.dtstart.mm, second := a.dtstart.ss, weekday := r.dtstart.weekday },
            info := info,
            timeset := Spec.RRule.timesOf a (some a.dtstart.hh) (some a.dtstart.mm) (some a.dtstart.ss),
            count := r.count }, ?_, ?_, rfl⟩
  · unfold init gettimeset
    have htn : truthy (none : Option (List Int)) = false := rfl
    simp only [hd, bind, Except.bind, hre, hf, hbh, hbm, hbs, htn, hts, pure, Except.pure]
    rfl
  · refine ⟨rebuild_facts r _ _ info hre, hnw, hv.1.2.2, ⟨hv.2.1, hv.2.2.1⟩, ⟨hv.2.2.2.1, hv.2.2.2.2.1⟩,
      ⟨hv.2.2.2.2.2.1, hv.2.2.2.2.2.2.1⟩, ?_, rfl⟩
    unfold curOrd Spec.RRule.startOrd DT.ordinal; simp

/-- **`iter_eq_spec_secondly_easter`**: `iter_eq_spec_secondly` with BYEASTER instead of "no BYEASTER" — offsets
    −80..250 (the complement of D-C01d), no BYWEEKNO, a start in a year ≥ 1583 and every visited day not after 31
    December 4099 (where C19 ties `easter.easter` to Meeus/Jones/Butcher); everything else as there, `n ≤ m ≤
    86400·n`. -/
theorem iter_eq_spec_secondly_easter (sa : SecondlyEArgs a) (h : construct a = .ok r) (n : Nat)
    (hlo : 1583 ≤ a.dtstart.y)
    (hle : ((Spec.RRule.startOrd a * 24 + a.dtstart.hh) * 60 + a.dtstart.mm) * 60 + a.dtstart.ss +
      (86400 * n + 1) * a.interval + 86399 < (Cal.toOrdinal 4099 12 31 + 1) * 86400) :
    ∃ m, n ≤ m ∧ m ≤ 86400 * n ∧ (iter r n).1 = Spec.RRule.occ a m := by
  have hi := sa.interval
  have hmx := emaxOrd_le
  have hE : Cal.toOrdinal 4099 12 31 = emaxOrd := rfl
  rw [hE] at hle
  have hnn : (0 : Int) ≤ ((86400 * n + 1 : Int)) * a.interval := Int.mul_nonneg (by omega) (by omega)
  have hbound : ∀ k : Nat, k < 86400 * n → ∀ st, SecondlyEGood a r k st →
      curOrd st.cur * 86400 + 86399 + a.interval < (emaxOrd + 1) * 86400 := by
    intro k hk st hg
    have := hg.idx
    have hh := hg.hour
    have hmm := hg.minute
    have hss := hg.second
    have hmono : (k : Int) * a.interval ≤ (86400 * (n : Int)) * a.interval :=
      Int.mul_le_mul_of_nonneg_right (by omega) (by omega)
    have e' : ((86400 : Int) * n + 1) * a.interval = (86400 * (n : Int)) * a.interval + a.interval := by
      rw [Int.add_mul]; omega
    rw [e'] at hle
    omega
  have sim : SkipSim a r (86400 * n) 86400 (SecondlyEGood a r) := {
    agree := slye_cuts sa h
    step := by
      intro k st hk hg
      have hb := hbound k hk st hg
      obtain ⟨fl, hres, hflag, hbnd⟩ := slye_results sa h k st hg (by omega)
      refine ⟨fl, [], Spec.RRule.sel a (k : Int), hres, rfl, by simp, hbnd, ?_⟩
      intro c
      exact slye_next sa h k st fl c hg hflag hb }
  have hv := sa.valid
  unfold DT.Valid at hv
  obtain ⟨st0, hinit, hg0, hc0⟩ := slye_init sa h hlo (by omega)
  exact iter_refines_skip sim (by omega) st0 hinit hg0 hc0 n (by omega)

-- non-vacuity: the hypotheses are satisfiable
example : SecondlyEArgs { freq := 6, dtstart := ⟨2024, 1, 1, 10, 0, 0, 0⟩, byeaster := some [0, 1] } :=
  { freq := rfl, interval := (by decide), valid := (by decide), byweekno := rfl,
    easter := ⟨[0, 1], rfl, by simp, by intro o ho; simp at ho; omega⟩,
    monthday_nz := (by intro x hx; simp at hx), byhour := rfl, byminute := rfl, bysecond := rfl }

end RRule
