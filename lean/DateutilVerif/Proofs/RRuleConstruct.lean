/-
  Proofs/RRuleConstruct.lean — facts about `construct` (the model of `rrule.__init__`).
-/
import DateutilVerif.Model.RRule

namespace RRule

/-- decomposition of a successful construction -/
theorem construct_ok (a : Args) (r : Rule) (h : construct a = .ok r) :
    ∃ sp bh bm bs ts,
      normBysetpos a = .ok sp ∧
      normUnit a.freq 4 a.interval a.dtstart.hh a.byhour 24 = .ok bh ∧
      normUnit a.freq 5 a.interval a.dtstart.mm a.byminute 60 = .ok bm ∧
      normUnit a.freq 6 a.interval a.dtstart.ss a.bysecond 60 = .ok bs ∧
      timesetOf a bh bm bs = .ok ts ∧
      r = { freq := a.freq, interval := a.interval, wkst := a.wkst.getD 0,
            dtstart := { a.dtstart with us := 0 }, tz := a.tz, count := a.count, untilDT := a.untilDT,
            bysetpos := sp, bymonth := bymonthOf a, bymonthday := bymonthdayOf a,
            bynmonthday := bynmonthdayOf a, byyearday := a.byyearday.map sortedSet,
            byeaster := a.byeaster.map (sortBy ltInt), byweekno := a.byweekno.map sortedSet,
            byweekday := byweekdayOf a, bynweekday := bynweekdayOf a,
            byhour := bh, byminute := bm, bysecond := bs, timeset := ts } := by
  unfold construct at h
  split at h
  · cases h
  unfold constructBody at h
  cases h1 : normBysetpos a with
  | error e => rw [h1] at h; cases h
  | ok sp =>
    cases h2 : normUnit a.freq 4 a.interval a.dtstart.hh a.byhour 24 with
    | error e => rw [h1, h2] at h; cases h
    | ok bh =>
      cases h3 : normUnit a.freq 5 a.interval a.dtstart.mm a.byminute 60 with
      | error e => rw [h1, h2, h3] at h; cases h
      | ok bm =>
        cases h4 : normUnit a.freq 6 a.interval a.dtstart.ss a.bysecond 60 with
        | error e => rw [h1, h2, h3, h4] at h; cases h
        | ok bs =>
          cases h5 : timesetOf a bh bm bs with
          | error e =>
            rw [h1, h2, h3, h4] at h
            simp only [bind, Except.bind] at h
            rw [h5] at h; cases h
          | ok ts =>
            rw [h1, h2, h3, h4] at h
            simp only [bind, Except.bind] at h
            rw [h5] at h
            simp only [pure, Except.pure] at h
            injection h with h
            exact ⟨sp, bh, bm, bs, ts, rfl, rfl, rfl, rfl, h5, h.symm⟩

/-- what the constructor copies / derives without any failure path -/
theorem construct_fields (a : Args) (r : Rule) (h : construct a = .ok r) :
    r.freq = a.freq ∧ r.interval = a.interval ∧ r.wkst = a.wkst.getD 0 ∧ r.tz = a.tz ∧
    r.count = a.count ∧ r.untilDT = a.untilDT ∧ r.dtstart = { a.dtstart with us := 0 } ∧
    r.bymonth = bymonthOf a ∧ r.bymonthday = bymonthdayOf a ∧ r.bynmonthday = bynmonthdayOf a ∧
    r.byweekday = byweekdayOf a ∧ r.bynweekday = bynweekdayOf a := by
  obtain ⟨sp, bh, bm, bs, ts, _, _, _, _, _, rfl⟩ := construct_ok a r h
  exact ⟨rfl, rfl, rfl, rfl, rfl, rfl, rfl, rfl, rfl, rfl, rfl, rfl⟩

/-- whole seconds: the start is stripped of its microseconds -/
theorem construct_dtstart_us (a : Args) (r : Rule) (h : construct a = .ok r) : r.dtstart.us = 0 := by
  rw [(construct_fields a r h).2.2.2.2.2.2.1]

/-- **defaults, YEARLY**: with no day-level part and no BYMONTH, the month and the month day are the start's -/
theorem construct_default_yearly (a : Args) (r : Rule) (h : construct a = .ok r)
    (hn : noDayParts a = true) (hf : a.freq = 0) (hm : a.bymonth = none) (hd : 0 < a.dtstart.d) :
    r.bymonth = some [a.dtstart.m] ∧ r.bymonthday = [a.dtstart.d] ∧ r.bynmonthday = [] ∧
    r.byweekday = none ∧ r.bynweekday = none := by
  obtain ⟨_, _, _, _, _, _, _, hbm, hbd, hbn, hw, hnw⟩ := construct_fields a r h
  have hwd : a.byweekday = none := by
    unfold noDayParts at hn; simp at hn; exact hn.1.2
  refine ⟨?_, ?_, ?_, ?_, ?_⟩
  · rw [hbm]; simp [bymonthOf, hn, hf, hm, sortedSet, dedup, sortBy, insertBy]
  · rw [hbd]; simp [bymonthdayOf, monthdayArg, hn, hf, dedup, sortBy, insertBy, hd]
  · rw [hbn]
    have hneg : decide (a.dtstart.d < 0) = false := by simp; omega
    simp [bynmonthdayOf, monthdayArg, hn, hf, dedup, sortBy, List.filter, hneg]
  · rw [hw]; simp [byweekdayOf, weekdayArg, hn, hf, hwd]
  · rw [hnw]; simp [bynweekdayOf, weekdayArg, hn, hf, hwd]

/-- **defaults, MONTHLY** -/
theorem construct_default_monthly (a : Args) (r : Rule) (h : construct a = .ok r)
    (hn : noDayParts a = true) (hf : a.freq = 1) (hd : 0 < a.dtstart.d) :
    r.bymonth = a.bymonth.map sortedSet ∧ r.bymonthday = [a.dtstart.d] ∧ r.bynmonthday = [] := by
  obtain ⟨_, _, _, _, _, _, _, hbm, hbd, hbn, _, _⟩ := construct_fields a r h
  refine ⟨?_, ?_, ?_⟩
  · rw [hbm]; simp [bymonthOf, hn, hf]
  · rw [hbd]; simp [bymonthdayOf, monthdayArg, hn, hf, dedup, sortBy, insertBy, hd]
  · rw [hbn]
    have hneg : decide (a.dtstart.d < 0) = false := by simp; omega
    simp [bynmonthdayOf, monthdayArg, hn, hf, dedup, sortBy, List.filter, hneg]

/-- **defaults, WEEKLY**: the weekday of the start -/
theorem construct_default_weekly (a : Args) (r : Rule) (h : construct a = .ok r)
    (hn : noDayParts a = true) (hf : a.freq = 2) :
    r.byweekday = some [a.dtstart.weekday] ∧ r.bynweekday = none ∧ r.bymonthday = [] ∧ r.bynmonthday = [] := by
  obtain ⟨_, _, _, _, _, _, _, _, hbd, hbn, hw, hnw⟩ := construct_fields a r h
  have hmd : a.bymonthday = none := by
    unfold noDayParts at hn; simp at hn; exact hn.1.1.2
  refine ⟨?_, ?_, ?_, ?_⟩
  · rw [hw]; simp [byweekdayOf, weekdayArg, hn, hf, plainWeekdays, dedup, sortBy, insertBy]
  · rw [hnw]; simp [bynweekdayOf, weekdayArg, hn, hf, plainWeekdays, nthWeekdays, dedup]
  · rw [hbd]; simp [bymonthdayOf, monthdayArg, hn, hf, hmd]
  · rw [hbn]; simp [bynmonthdayOf, monthdayArg, hn, hf, hmd]

/-- **nth weekdays are demoted to plain ones above MONTHLY** -/
theorem construct_nth_demoted (a : Args) (r : Rule) (h : construct a = .ok r) (hf : a.freq > 1) :
    r.bynweekday = none ∨ r.bynweekday = some [] := by
  obtain ⟨_, _, _, _, _, _, _, _, _, _, _, hnw⟩ := construct_fields a r h
  rw [hnw]
  unfold bynweekdayOf
  have hnil : ∀ l, nthWeekdays a l = [] := by
    intro l; unfold nthWeekdays
    have : l.filter (fun w => !(w.2 == 0 || decide (a.freq > 1))) = [] := by
      apply List.filter_eq_nil_iff.mpr; intro w _; simp [hf]
    rw [this]; rfl
  split
  · left; rfl
  · rename_i l _
    simp only [hnil l]
    split
    · right; rfl
    · left; simp

/-- **ValueError class 1**: a BYSETPOS member that is 0 or outside −366..366 -/
theorem construct_bysetpos_ValueError (a : Args) (l : List Int) (p : Int) (hl : a.bysetpos = some l)
    (hp : p ∈ l) (hbad : p = 0 ∨ p < -366 ∨ 366 < p) : construct a = .error .ValueError := by
  have : normBysetpos a = .error .ValueError := by
    unfold normBysetpos; rw [hl]; dsimp only
    have : validBysetpos l = false := by
      unfold validBysetpos
      rw [Bool.eq_false_iff]; intro hall
      have := List.all_eq_true.mp hall p hp
      simp at this
      omega
    rw [this]; rfl
  unfold construct; split
  · rfl
  · unfold constructBody; rw [this]; rfl

/-- `__construct_byset` raises exactly when no member is reachable -/
theorem constructByset_error (interval start base : Int) (l : List Int)
    (h : ∀ x ∈ l, ¬ ((Int.gcd interval base : Int) = 1 ∨ Py.fmod (x - start) (Int.gcd interval base : Int) = 0)) :
    constructByset interval start l base = .error .ValueError := by
  unfold constructByset
  have : l.filter (fun num => ((Int.gcd interval base : Nat) : Int) == 1 ||
      Py.fmod (num - start) ((Int.gcd interval base : Nat) : Int) == 0) = [] := by
    apply List.filter_eq_nil_iff.mpr
    intro x hx; have := h x hx; simp at this ⊢; omega
  simp only [this]; rfl

/-- **ValueError class 2**: HOURLY with a BYHOUR none of whose members is reachable from the start's
    hour in steps of INTERVAL (mod 24); likewise MINUTELY/BYMINUTE and SECONDLY/BYSECOND below -/
theorem construct_byhour_unreachable (a : Args) (l : List Int) (hf : a.freq = 4) (hl : a.byhour = some l)
    (hsp : ∃ sp, normBysetpos a = .ok sp)
    (h : ∀ x ∈ l, ¬ ((Int.gcd a.interval 24 : Int) = 1 ∨ Py.fmod (x - a.dtstart.hh) (Int.gcd a.interval 24 : Int) = 0)) :
    construct a = .error .ValueError := by
  obtain ⟨sp, hsp⟩ := hsp
  have : normUnit a.freq 4 a.interval a.dtstart.hh a.byhour 24 = .error .ValueError := by
    unfold normUnit; rw [hl, hf]; simp only [beq_self_eq_true, ↓reduceIte]
    rw [constructByset_error _ _ _ _ h]
  unfold construct; split
  · rfl
  · unfold constructBody; rw [hsp, this]; rfl

theorem normBysetpos_ok (a : Args) (sp : Option (List Int)) (h : normBysetpos a = .ok sp) :
    sp = a.bysetpos ∧ ∀ q ∈ a.bysetpos.getD [], q ≠ 0 := by
  unfold normBysetpos at h
  split at h
  · rename_i hn; injection h with h; subst h; rw [hn]; exact ⟨rfl, by simp⟩
  · rename_i l hl
    split at h
    · rename_i hv
      injection h with h; subst h
      rw [hl]
      refine ⟨rfl, ?_⟩
      intro q hq
      simp only [Option.getD_some] at hq
      unfold validBysetpos at hv
      have := List.all_eq_true.mp hv q hq
      intro h0; subst h0; simp at this
    · cases h

/-- **INTERVAL must be positive**: the constructor accepts only `interval ≥ 1` … -/
theorem construct_interval_pos (a : Args) (r : Rule) (h : construct a = .ok r) : 1 ≤ a.interval := by
  unfold construct at h
  split at h
  · cases h
  · omega

/-- … and raises ValueError otherwise, whatever the other arguments are -/
theorem construct_interval_ValueError (a : Args) (h : a.interval < 1) : construct a = .error .ValueError := by
  unfold construct; rw [if_pos h]

/-- the constructor keeps BYSETPOS as given, and accepts it only without a zero -/
theorem construct_bysetpos (a : Args) (r : Rule) (h : construct a = .ok r) :
    r.bysetpos = a.bysetpos ∧ ∀ q ∈ a.bysetpos.getD [], q ≠ 0 := by
  obtain ⟨sp, bh, bm, bs, ts, h1, _, _, _, _, rfl⟩ := construct_ok a r h
  exact normBysetpos_ok a sp h1

end RRule
