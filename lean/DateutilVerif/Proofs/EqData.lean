/- Proofs/EqData.lean — `tzfile.__eq__` (trans_list, trans_idx, ttinfo_list) determines the whole
   object built by `_read_tzfile`. -/
import DateutilVerif.Proofs.ZonesBuild

namespace TZ

theorem zipWith_add_inj : ∀ (a a' c : List Int), a.length = c.length → a'.length = c.length →
    List.zipWith (· + ·) a c = List.zipWith (· + ·) a' c → a = a' := by
  intro a
  induction a with
  | nil => intro a' c h1 h2 _; cases c with
    | nil => cases a' with
      | nil => rfl
      | cons _ _ => simp at h2
    | cons _ _ => simp at h1
  | cons x a ih =>
      intro a' c h1 h2 h
      cases c with
      | nil => simp at h1
      | cons y c =>
          cases a' with
          | nil => simp at h2
          | cons x' a' =>
              simp only [List.zipWith_cons_cons, List.cons.injEq] at h
              have := ih a' c (by simpa using h1) (by simpa using h2) h.2
              rw [this]; congr 1; omega

theorem build_eq_assemble (r : Raw) :
    build r = assemble (build r).utc (build r).tts (build r).ttinfoList := rfl

theorem build_lengths (r : Raw) :
    (build r).utc.length = (build r).tts.length ∧
    (build r).transList = List.zipWith (· + ·) (build r).utc
      ((dstLoop {} ((build r).tts.map (fun t => (t.off, t.isdst)))).map (·.2)) := by
  refine ⟨by simp [build, assemble], rfl⟩

end TZ
