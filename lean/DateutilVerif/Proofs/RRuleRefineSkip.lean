/-
  Proofs/RRuleRefineSkip.lean — the refinement for the sub-daily frequencies, where one turn of the
  model's loop may pass over several periods of the specification (the `filtered` jump to the end of
  the day, `__mod_distance`): the periods passed over select nothing, so after `n` turns the model has
  yielded exactly the specification's set of the first `m ≥ n` periods.
-/
import DateutilVerif.Proofs.RRuleRefine

namespace RRule
open Spec.RRule

/-- agreement with skipping: `Good k st` = "`st` is the model state at the start of the specification's
    period `k`"; one turn leads to a later period `k'`, at most `J` further, and the periods strictly
    between select nothing -/
structure SkipSim (a : Args) (r : Rule) (N J : Nat) (Good : Nat → State → Prop) : Prop where
  agree : CutsAgree a r
  step : ∀ k st, k < N → Good k st → ∃ fl pre cands,
    periodResults r st = .ok (cands, none, fl) ∧ Spec.RRule.sel a (k : Int) = pre ++ cands ∧
    (∀ x ∈ pre, x.micros < Spec.RRule.startMicros a ∧ Spec.RRule.afterUntil a x = false) ∧
    (∀ x ∈ cands, 0 ≤ x.ord ∧ x.ord ≤ Cal.maxOrdinal) ∧
    ∀ c, ∃ st' k', advance r { st with count := c } fl = .ok st' ∧ k < k' ∧ k' ≤ k + J ∧ Good k' st' ∧
      ∀ j : Nat, k < j → j < k' → Spec.RRule.sel a (j : Int) = []

theorem specFrom_append (a : Args) (hi : Int) (c : Cut) (k n m : Nat) :
    specFrom a hi c k (n + m) = specFrom a hi (specFrom a hi c k n) (k + n) m := by
  unfold specFrom
  rw [List.range'_append_1 |>.symm, List.foldl_append]

theorem specFrom_empty (a : Args) (hi : Int) (c : Cut) : ∀ (n k : Nat),
    (∀ j : Nat, k ≤ j → j < k + n → Spec.RRule.sel a (j : Int) = []) → specFrom a hi c k n = c := by
  intro n
  induction n with
  | zero => intro k _; rfl
  | succ n ih =>
    intro k h
    unfold specFrom
    rw [List.range'_succ, List.foldl_cons, h k (by omega) (by omega)]
    exact ih (k + 1) (fun j h1 h2 => h j (by omega) (by omega))

theorem run_refines_skip {a : Args} {r : Rule} {N J : Nat} {Good : Nat → State → Prop}
    (sim : SkipSim a r N J Good) (hJ1 : 1 ≤ J) : ∀ (n k : Nat) (st : State) (c : Cut),
    Good k st → k + J * n ≤ N → c.done = false → st.count = remaining a c.n →
    ∃ m, n ≤ m ∧ m ≤ J * n ∧
      (specFrom a Cal.maxOrdinal c k m).out = (run r n st).1.reverse ++ c.out := by
  intro n
  induction n with
  | zero => intro k st c _ _ _ _; exact ⟨0, by omega, by omega, by simp [specFrom, run]⟩
  | succ n ih =>
    intro k st c hg hk hc hcnt
    have hJ : J * (n + 1) = J * n + J := by rw [Nat.mul_succ]
    have hJn : n ≤ J * n := Nat.le_mul_of_pos_left n (by omega)
    obtain ⟨fl, pre, cands, hres, hsel, hpre, hbnd, hnext⟩ := sim.step k st (by omega) hg
    have pa := emit_push a r sim.agree Cal.maxOrdinal cands c hc hbnd
    rw [← hcnt] at pa
    -- the specification's fold over period k
    have hone : specFrom a Cal.maxOrdinal c k 1 = cands.foldl (push a 0 Cal.maxOrdinal) c := by
      unfold specFrom
      rw [List.range'_succ, List.foldl_cons, hsel, List.foldl_append, push_pre a 0 Cal.maxOrdinal c pre hpre]
      rfl
    generalize hc' : cands.foldl (push a 0 Cal.maxOrdinal) c = c' at pa hone
    unfold run step
    rw [hres]
    dsimp only
    generalize hem : emit r cands st.count = em at pa
    cases hs : em.2.1 with
    | some s =>
      dsimp only
      refine ⟨n + 1, by omega, by rw [hJ]; omega, ?_⟩
      rw [Nat.add_comm n 1, specFrom_append, hone, specFrom_done a _ c' (pa.stopped (by rw [hs]; simp))]
      exact pa.out
    | none =>
      dsimp only
      obtain ⟨hdone, hrem⟩ := pa.running hs
      obtain ⟨st', k', hadv, hk1, hk2, hg', hskip⟩ := hnext em.2.2
      rw [hadv]
      dsimp only
      have hc2 : st'.count = remaining a c'.n := by
        rw [advance_count r _ st' fl hadv]; exact hrem
      obtain ⟨m, hm1, hm2, hm3⟩ := ih k' st' c' hg' (by omega) hdone hc2
      refine ⟨1 + (k' - k - 1) + m, by omega, by rw [hJ]; omega, ?_⟩
      rw [specFrom_append, specFrom_append, hone,
        specFrom_empty a _ c' (k' - k - 1) (k + 1) (fun j h1 h2 => hskip j (by omega) (by omega))]
      have e : k + (1 + (k' - k - 1)) = k' := by omega
      rw [e, hm3, pa.out]
      simp

/-- **refinement with skipping**: after `n` turns the model has yielded exactly the specification's
    recurrence set of the first `m` selected periods, for some `n ≤ m ≤ J·n` -/
theorem iter_refines_skip {a : Args} {r : Rule} {N J : Nat} {Good : Nat → State → Prop}
    (sim : SkipSim a r N J Good) (hJ1 : 1 ≤ J) (st0 : State) (hinit : init r = .ok st0) (hg : Good 0 st0)
    (hc0 : st0.count = r.count) (n : Nat) (hn : J * n ≤ N) :
    ∃ m, n ≤ m ∧ m ≤ J * n ∧ (iter r n).1 = Spec.RRule.occ a m := by
  have hcnt : st0.count = remaining a 0 := by
    rw [hc0, sim.agree.count]; unfold remaining; cases a.count <;> simp
  obtain ⟨m, h1, h2, h3⟩ := run_refines_skip sim hJ1 n 0 st0 { out := [], n := 0, done := false } hg (by omega) rfl hcnt
  refine ⟨m, h1, h2, ?_⟩
  unfold iter; rw [hinit]; dsimp only
  unfold Spec.RRule.occ
  unfold specFrom at h3
  rw [List.range_eq_range']
  dsimp only
  rw [h3]; simp

end RRule
