/-
  Proofs/RRuleGenInitAll.lean — the translated sections of `rrule.__init__` put together in source order
  (`initSections`: a hand-written sequencing of the fifteen `Gen.init_*` functions plus the attribute copies
  `self._freq = freq` …) equal the model's constructor `constructW fwd`.
-/
import DateutilVerif.Proofs.RRuleGenInit
import DateutilVerif.Proofs.RRuleGenUse

namespace RRuleGen
open RRule RrPy

/-- the statements of `rrule.__init__` in source order: each block is the function re-translated from source; the glue
    (which variable feeds which block, the plain copies `self._freq = freq`, `self._count = count`, `self._until = until`,
    `dtstart.replace(microsecond=0)`, `self._tzinfo = dtstart.tzinfo`) is written by hand here -/
def initSections (fwd : Int) (a : Args) : Py.R Rule := do
  let _ ← Gen.init_interval a.interval
  let wkst ← Gen.init_wkst fwd a.wkst
  let bysetpos ← Gen.init_bysetpos a.bysetpos
  let (bm0, bmd0, bwd0) ← Gen.init_defaults a.freq a.dtstart a.bymonth a.bymonthday a.byyearday a.byeaster a.byweekno a.byweekday
  let bymonth ← Gen.init_bymonth bm0
  let byyearday ← Gen.init_byyearday a.byyearday
  let byeaster ← Gen.init_byeaster a.byeaster
  let (md1, md2) ← Gen.init_bymonthday bmd0
  let byweekno ← Gen.init_byweekno a.byweekno
  let (wd1, wd2) ← Gen.init_byweekday a.freq bwd0
  let byhour ← Gen.init_byhour a.freq a.dtstart a.interval a.byhour
  let byminute ← Gen.init_byminute a.freq a.dtstart a.interval a.byminute
  let bysecond ← Gen.init_bysecond a.freq a.dtstart a.interval a.bysecond
  let timeset ← Gen.init_timeset a.freq byhour byminute bysecond
  pure { freq := a.freq, interval := a.interval, wkst := wkst, dtstart := { a.dtstart with us := 0 }, tz := a.tz,
         count := a.count, untilDT := a.untilDT, bysetpos := bysetpos, bymonth := bymonth, bymonthday := md1,
         bynmonthday := md2, byyearday := byyearday, byeaster := byeaster, byweekno := byweekno,
         byweekday := wd1, bynweekday := wd2, byhour := byhour, byminute := byminute, bysecond := bysecond,
         timeset := timeset }

theorem initSections_eq (fwd : Int) (a : Args) : initSections fwd a = constructW fwd a := by
  unfold initSections constructW construct constructBody
  simp only [init_interval_eq, init_wkst_eq, init_bysetpos_eq, init_defaults_eq, init_bymonth_eq, init_byyearday_eq,
    init_byeaster_eq, init_bymonthday_eq, init_byweekno_eq, init_byweekday_eq, init_byhour_eq, init_byminute_eq,
    init_bysecond_eq, bind, pure, Except.pure]
  have e0 : (resolveW fwd a).interval = a.interval := rfl
  rw [e0]
  by_cases hi : a.interval < 1
  · simp only [hi, if_true]; rfl
  · simp only [hi, if_false]
    have eb : normBysetpos (resolveW fwd a) = normBysetpos a := rfl
    simp only [Except.bind, eb]
    cases hsp : normBysetpos a with
    | error e => rfl
    | ok sp =>
      simp only [ok_bind, init_bymonth_eq, init_bymonthday_eq, init_byweekday_eq]
      have r1 : bymonthOf (resolveW fwd a) = bymonthOf a := rfl
      have r2 : bymonthdayOf (resolveW fwd a) = bymonthdayOf a := rfl
      have r3 : bynmonthdayOf (resolveW fwd a) = bynmonthdayOf a := rfl
      have r4 : byweekdayOf (resolveW fwd a) = byweekdayOf a := rfl
      have r5 : bynweekdayOf (resolveW fwd a) = bynweekdayOf a := rfl
      have r6 : ∀ x y z, timesetOf (resolveW fwd a) x y z = timesetOf a x y z := fun _ _ _ => rfl
      simp only [r1, r2, r3, r4, r5, r6]
      simp only [resolveW]
      cases hh : normUnit a.freq 4 a.interval a.dtstart.hh a.byhour 24 with
      | error e => rfl
      | ok bh =>
        simp only []
        cases hm : normUnit a.freq 5 a.interval a.dtstart.mm a.byminute 60 with
        | error e => rfl
        | ok bm =>
          simp only []
          cases hs : normUnit a.freq 6 a.interval a.dtstart.ss a.bysecond 60 with
          | error e => rfl
          | ok bs =>
            simp only []
            have ht := init_timeset_eq a bh bm bs (fun hf =>
              ⟨normUnit_isSome _ _ _ _ _ _ _ hh hf, normUnit_isSome _ _ _ _ _ _ _ hm (by omega), normUnit_isSome _ _ _ _ _ _ _ hs (by omega)⟩)
            rw [ht]
            cases timesetOf a bh bm bs with
            | error e => rfl
            | ok ts =>
              simp only [bymonthOf, bymonthdayOf, bynmonthdayOf, Option.getD_some]
              cases monthdayArg a <;> rfl

end RRuleGen
