/-
  Proofs/ParserGenNum.lean — `parser._parse_numeric_token` re-translated from /repo's parser/_parser.py
  (Generated/ParserOps.lean) = `PM.parseNumericToken` (Model/Parser.lean), all eleven arms, for every token list, index,
  `_ymd` state and result record.
-/
import DateutilVerif.Proofs.ParserGenHms

namespace PGen
open PM Py
set_option linter.unusedSimpArgs false

theorem bind_assoc {α β γ : Type} (x : R α) (f : α → R β) (g : β → R γ) :
    Except.bind (Except.bind x f) g = Except.bind x (fun a => Except.bind (f a) g) := by cases x <;> rfl

theorem ite_and_ok (A : Prop) [Decidable A] (b : Bool) :
    (if A then (Except.ok b : R Bool) else .ok false) = .ok (decide A && b) := by split <;> simp [*]
theorem ite_or_ok (A : Prop) [Decidable A] (b : Bool) :
    (if A then (Except.ok true : R Bool) else .ok b) = .ok (decide A || b) := by split <;> simp [*]

theorem map_eq' {α β : Type} (f : α → β) (x : R α) : Except.map f x = Except.bind x (fun a => .ok (f a)) := by
  cases x <;> rfl

theorem ite_ok_ok (A : Prop) [Decidable A] (a b : Bool) :
    (if A then (Except.ok a : R Bool) else Except.ok b) = Except.ok (if A then a else b) := by split <;> rfl

theorem strFind_six (s : Token) :
    (6 < s.length ∧ PPy.strFind s '.' = 6) = (6 < s.length ∧ s.idxOf '.' = 6) := by
  apply propext
  unfold PPy.strFind
  constructor
  · rintro ⟨h, h2⟩
    refine ⟨h, ?_⟩
    split at h2
    · exact Int.ofNat.inj h2
    · cases h2
  · rintro ⟨h, h2⟩
    refine ⟨h, ?_⟩
    have hm : '.' ∈ s := by
      by_cases hn : '.' ∈ s
      · exact hn
      · have := List.idxOf_eq_length hn
        omega
    have hc : s.contains '.' = true := by simpa using hm
    rw [if_pos hc, h2]; rfl

theorem adjustAmpm_nonneg (h a : Nat) : 0 ≤ Gen.adjustAmpm (h : Int) (a : Int) := by
  unfold Gen.adjustAmpm
  simp only []
  split
  · omega
  · split <;> omega

theorem natOfInt_adjust (h a : Nat) :
    PPy.natOfInt (Gen.adjustAmpm (h : Int) (a : Int)) = .ok (Gen.adjustAmpm (h : Int) (a : Int)).toNat :=
  natOfInt_toNat _ (adjustAmpm_nonneg h a)

theorem throw_eq' {α : Type} (e : PyErr) : (throw e : R α) = Except.error e := rfl

theorem geNat_zero (v : Dec) : v.geNat 0 = true := by simp [PM.Dec.geNat]

theorem tk_colon : PM.tk ":" = [':'] := rfl
theorem tk_dash : PM.tk "-" = ['-'] := rfl
theorem tk_slash : PM.tk "/" = ['/'] := rfl
theorem tk_dot : PM.tk "." = ['.'] := rfl

theorem toDecimal_err (cls : Char → CClass) (s : Token) (e : PyErr) (h : PM.toDecimal cls s = .error e) :
    e = .ValueError := by
  unfold PM.toDecimal at h
  split at h
  · cases h
  · injection h with h; exact h.symm

theorem tokAt_lt (l : List Token) (k : Nat) (h : k < l.length) : PM.tokAt l k = .ok l[k] := by
  unfold PM.tokAt; rw [List.getElem?_eq_getElem h]
theorem tokAt_ge (l : List Token) (k : Nat) (h : l.length ≤ k) : PM.tokAt l k = .error .IndexError := by
  unfold PM.tokAt; rw [List.getElem?_eq_none h]
theorem toksAt_ge (l : List Token) (k : Nat) (h : l.length ≤ k) : PPy.toksAt l ((k : Nat) : Int) = .error .IndexError := by
  unfold PPy.toksAt Py.getIdx
  have h1 : ¬ ((k : Int) < 0) := by omega
  have h2 : ((k : Int) < 0 ∨ (k : Int) ≥ (l.length : Int)) := by omega
  simp only [h1, if_false]
  have h3 : (False ∨ (k : Int) ≥ (l.length : Int)) := by omega
  simp only [h3, if_true]

/-- the arms, when tokens.length = idx + 1 -/
theorem parseNumericToken_eq_0 (cls : Char → CClass) (info : Info) (fuzzy : Bool) (tokens : List Token) (idx : Nat)
    (ymd : Ymd) (res : Res) (hlt : idx < tokens.length) (hk : tokens.length = idx + 1) (value : Dec)
    (hv : PM.toDecimal cls tokens[idx] = .ok value) :
    Gen.P.parseNumericToken cls info tokens idx ymd res fuzzy =
      (PM.parseNumericToken cls info fuzzy tokens idx ymd res).map (fun r => (idx + r.1, r.2.1, r.2.2)) := by
  unfold Gen.P.parseNumericToken PM.parseNumericToken
  simp only [bind_eq, toksAt_nat tokens idx hlt, tokAt_lt tokens idx hlt, bind_ok, toDecimal_eq, hv]
  have lt1 : (idx + 1 < tokens.length) = False := eq_false (by omega)
  have lt2 : (idx + 2 < tokens.length) = False := eq_false (by omega)
  have lt3 : (idx + 3 < tokens.length) = False := eq_false (by omega)
  have lt4 : (idx + 4 < tokens.length) = False := eq_false (by omega)
  have ge1 : (idx + 1 ≥ tokens.length) = True := eq_true (by omega)
  have le1 : (tokens.length ≤ idx + 1) = True := eq_true (by omega)
  have w1 : tokens.length ≤ idx + 1 := by omega
  have w2 : tokens.length ≤ idx + 2 := by omega
  have w3 : tokens.length ≤ idx + 3 := by omega
  have w4 : tokens.length ≤ idx + 4 := by omega
  simp only [PM.numHourMin, PM.numSix, PM.numEight, PM.numHms, PM.numColon, PM.numSep, PM.sepSecond, PM.sepThird, PM.numJump, PM.numAmpmOrDay, PM.dayOrFail, PM.tokIs, PM.hmsAtIs, if_true, if_false, true_and, false_and, and_true, and_false, true_or, false_or, or_true, or_false, bind_ok, bind_err, bind_eq, pure_eq, Option.bind_some, Option.bind_none, Option.any_some, Option.any_none, lt1, lt2, lt3, lt4, ge1, le1, tokAt_ge tokens (idx + 1) w1, toksAt_ge tokens (idx + 1) w1, List.getElem?_eq_none w1, tokAt_ge tokens (idx + 2) w2, toksAt_ge tokens (idx + 2) w2, List.getElem?_eq_none w2, tokAt_ge tokens (idx + 3) w3, toksAt_ge tokens (idx + 3) w3, List.getElem?_eq_none w3, tokAt_ge tokens (idx + 4) w4, toksAt_ge tokens (idx + 4) w4, List.getElem?_eq_none w4]
  simp only [info_hms_eq, info_jump_eq, info_ampm_eq, info_month_eq, appendTok_eq, appendNat_eq, appendDec_eq,
    couldBeDay_eq, parsems_eq, parseMinSec_eq, toDecimal_eq, assignHms_eq, findHmsIdx_eq info idx tokens true hlt,
    bind_ok, tk_colon, tk_dash, tk_slash, tk_dot]
  generalize tokens[idx] = s at hv ⊢
  cases hf : PM.findHmsIdx info idx tokens true with
  | none =>
    simp only [Option.map_none, bind_ok]
    simp [bind_ok, bind_err, bind_assoc, bind_ite, ite_ok_ok, map_eq, map_eq', PPy.optNat, strFind_six, natOfInt_adjust, PM.adjustAmpm, Nat.add_assoc, throw_eq', geNat_zero]
  | some p =>
    rcases p with ⟨j, h0⟩
    have hp := (parseHms_eq info idx tokens j h0 (findHmsIdx_spec info idx tokens true j h0 hf)).1
    have hadd : idx + ((if j > idx then j else idx) - idx) = (if j > idx then j else idx) := by
      split <;> omega
    simp only [Option.map_some, bind_ok, hp]
    by_cases hj : j > idx
    · have hadd2 : idx + (j - idx) = j := by omega
      simp [bind_ok, bind_err, bind_assoc, bind_ite, ite_ok_ok, map_eq, map_eq', PPy.optNat, strFind_six, hj, hadd, hadd2, throw_eq']
    · simp [bind_ok, bind_err, bind_assoc, bind_ite, ite_ok_ok, map_eq, map_eq', PPy.optNat, strFind_six, hj, hadd, throw_eq']

/-- the arms, when tokens.length = idx + 2 -/
theorem parseNumericToken_eq_1 (cls : Char → CClass) (info : Info) (fuzzy : Bool) (tokens : List Token) (idx : Nat)
    (ymd : Ymd) (res : Res) (hlt : idx < tokens.length) (hk : tokens.length = idx + 2) (value : Dec)
    (hv : PM.toDecimal cls tokens[idx] = .ok value) :
    Gen.P.parseNumericToken cls info tokens idx ymd res fuzzy =
      (PM.parseNumericToken cls info fuzzy tokens idx ymd res).map (fun r => (idx + r.1, r.2.1, r.2.2)) := by
  unfold Gen.P.parseNumericToken PM.parseNumericToken
  simp only [bind_eq, toksAt_nat tokens idx hlt, tokAt_lt tokens idx hlt, bind_ok, toDecimal_eq, hv]
  have lt1 : (idx + 1 < tokens.length) = True := eq_true (by omega)
  have lt2 : (idx + 2 < tokens.length) = False := eq_false (by omega)
  have lt3 : (idx + 3 < tokens.length) = False := eq_false (by omega)
  have lt4 : (idx + 4 < tokens.length) = False := eq_false (by omega)
  have ge1 : (idx + 1 ≥ tokens.length) = False := eq_false (by omega)
  have le1 : (tokens.length ≤ idx + 1) = False := eq_false (by omega)
  have v1 : idx + 1 < tokens.length := by omega
  have w2 : tokens.length ≤ idx + 2 := by omega
  have w3 : tokens.length ≤ idx + 3 := by omega
  have w4 : tokens.length ≤ idx + 4 := by omega
  simp only [PM.numHourMin, PM.numSix, PM.numEight, PM.numHms, PM.numColon, PM.numSep, PM.sepSecond, PM.sepThird, PM.numJump, PM.numAmpmOrDay, PM.dayOrFail, PM.tokIs, PM.hmsAtIs, if_true, if_false, true_and, false_and, and_true, and_false, true_or, false_or, or_true, or_false, bind_ok, bind_err, bind_eq, pure_eq, Option.bind_some, Option.bind_none, Option.any_some, Option.any_none, lt1, lt2, lt3, lt4, ge1, le1, toksAt_nat tokens (idx + 1) v1, tokAt_lt tokens (idx + 1) v1, List.getElem?_eq_getElem v1, tokAt_ge tokens (idx + 2) w2, toksAt_ge tokens (idx + 2) w2, List.getElem?_eq_none w2, tokAt_ge tokens (idx + 3) w3, toksAt_ge tokens (idx + 3) w3, List.getElem?_eq_none w3, tokAt_ge tokens (idx + 4) w4, toksAt_ge tokens (idx + 4) w4, List.getElem?_eq_none w4]
  simp only [info_hms_eq, info_jump_eq, info_ampm_eq, info_month_eq, appendTok_eq, appendNat_eq, appendDec_eq,
    couldBeDay_eq, parsems_eq, parseMinSec_eq, toDecimal_eq, assignHms_eq, findHmsIdx_eq info idx tokens true hlt,
    bind_ok, tk_colon, tk_dash, tk_slash, tk_dot]
  generalize tokens[idx] = s at hv ⊢
  try generalize tokens[idx + 1] = t1
  cases hf : PM.findHmsIdx info idx tokens true with
  | none =>
    simp only [Option.map_none, bind_ok]
    try generalize info.ampmOf t1 = a1
    cases a1 <;>
      simp [bind_ok, bind_err, bind_assoc, bind_ite, ite_ok_ok, map_eq, map_eq', PPy.optNat, strFind_six, natOfInt_adjust, PM.adjustAmpm, Nat.add_assoc, throw_eq', geNat_zero]
  | some p =>
    rcases p with ⟨j, h0⟩
    have hp := (parseHms_eq info idx tokens j h0 (findHmsIdx_spec info idx tokens true j h0 hf)).1
    have hadd : idx + ((if j > idx then j else idx) - idx) = (if j > idx then j else idx) := by
      split <;> omega
    simp only [Option.map_some, bind_ok, hp]
    by_cases hj : j > idx
    · have hadd2 : idx + (j - idx) = j := by omega
      simp [bind_ok, bind_err, bind_assoc, bind_ite, ite_ok_ok, map_eq, map_eq', PPy.optNat, strFind_six, hj, hadd, hadd2, throw_eq']
    · simp [bind_ok, bind_err, bind_assoc, bind_ite, ite_ok_ok, map_eq, map_eq', PPy.optNat, strFind_six, hj, hadd, throw_eq']

/-- the arms, when tokens.length = idx + 3 -/
theorem parseNumericToken_eq_2 (cls : Char → CClass) (info : Info) (fuzzy : Bool) (tokens : List Token) (idx : Nat)
    (ymd : Ymd) (res : Res) (hlt : idx < tokens.length) (hk : tokens.length = idx + 3) (value : Dec)
    (hv : PM.toDecimal cls tokens[idx] = .ok value) :
    Gen.P.parseNumericToken cls info tokens idx ymd res fuzzy =
      (PM.parseNumericToken cls info fuzzy tokens idx ymd res).map (fun r => (idx + r.1, r.2.1, r.2.2)) := by
  unfold Gen.P.parseNumericToken PM.parseNumericToken
  simp only [bind_eq, toksAt_nat tokens idx hlt, tokAt_lt tokens idx hlt, bind_ok, toDecimal_eq, hv]
  have lt1 : (idx + 1 < tokens.length) = True := eq_true (by omega)
  have lt2 : (idx + 2 < tokens.length) = True := eq_true (by omega)
  have lt3 : (idx + 3 < tokens.length) = False := eq_false (by omega)
  have lt4 : (idx + 4 < tokens.length) = False := eq_false (by omega)
  have ge1 : (idx + 1 ≥ tokens.length) = False := eq_false (by omega)
  have le1 : (tokens.length ≤ idx + 1) = False := eq_false (by omega)
  have v1 : idx + 1 < tokens.length := by omega
  have v2 : idx + 2 < tokens.length := by omega
  have w3 : tokens.length ≤ idx + 3 := by omega
  have w4 : tokens.length ≤ idx + 4 := by omega
  simp only [PM.numHourMin, PM.numSix, PM.numEight, PM.numHms, PM.numColon, PM.numSep, PM.sepSecond, PM.sepThird, PM.numJump, PM.numAmpmOrDay, PM.dayOrFail, PM.tokIs, PM.hmsAtIs, if_true, if_false, true_and, false_and, and_true, and_false, true_or, false_or, or_true, or_false, bind_ok, bind_err, bind_eq, pure_eq, Option.bind_some, Option.bind_none, Option.any_some, Option.any_none, lt1, lt2, lt3, lt4, ge1, le1, toksAt_nat tokens (idx + 1) v1, tokAt_lt tokens (idx + 1) v1, List.getElem?_eq_getElem v1, toksAt_nat tokens (idx + 2) v2, tokAt_lt tokens (idx + 2) v2, List.getElem?_eq_getElem v2, tokAt_ge tokens (idx + 3) w3, toksAt_ge tokens (idx + 3) w3, List.getElem?_eq_none w3, tokAt_ge tokens (idx + 4) w4, toksAt_ge tokens (idx + 4) w4, List.getElem?_eq_none w4]
  simp only [info_hms_eq, info_jump_eq, info_ampm_eq, info_month_eq, appendTok_eq, appendNat_eq, appendDec_eq,
    couldBeDay_eq, parsems_eq, parseMinSec_eq, toDecimal_eq, assignHms_eq, findHmsIdx_eq info idx tokens true hlt,
    bind_ok, tk_colon, tk_dash, tk_slash, tk_dot]
  generalize tokens[idx] = s at hv ⊢
  try generalize tokens[idx + 1] = t1
  try generalize tokens[idx + 2] = t2
  cases hf : PM.findHmsIdx info idx tokens true with
  | none =>
    simp only [Option.map_none, bind_ok]
    try generalize info.monthOf t2 = m2
    try generalize info.ampmOf t2 = a2
    try generalize info.isJump t2 = j2
    try generalize info.ampmOf t1 = a1
    cases m2 <;> cases a2 <;> cases j2 <;> cases a1 <;>
      simp [bind_ok, bind_err, bind_assoc, bind_ite, ite_ok_ok, map_eq, map_eq', PPy.optNat, strFind_six, natOfInt_adjust, PM.adjustAmpm, Nat.add_assoc, throw_eq', geNat_zero]
  | some p =>
    rcases p with ⟨j, h0⟩
    have hp := (parseHms_eq info idx tokens j h0 (findHmsIdx_spec info idx tokens true j h0 hf)).1
    have hadd : idx + ((if j > idx then j else idx) - idx) = (if j > idx then j else idx) := by
      split <;> omega
    simp only [Option.map_some, bind_ok, hp]
    by_cases hj : j > idx
    · have hadd2 : idx + (j - idx) = j := by omega
      simp [bind_ok, bind_err, bind_assoc, bind_ite, ite_ok_ok, map_eq, map_eq', PPy.optNat, strFind_six, hj, hadd, hadd2, throw_eq']
    · simp [bind_ok, bind_err, bind_assoc, bind_ite, ite_ok_ok, map_eq, map_eq', PPy.optNat, strFind_six, hj, hadd, throw_eq']

/-- the arms, when tokens.length = idx + 4 -/
theorem parseNumericToken_eq_3 (cls : Char → CClass) (info : Info) (fuzzy : Bool) (tokens : List Token) (idx : Nat)
    (ymd : Ymd) (res : Res) (hlt : idx < tokens.length) (hk : tokens.length = idx + 4) (value : Dec)
    (hv : PM.toDecimal cls tokens[idx] = .ok value) :
    Gen.P.parseNumericToken cls info tokens idx ymd res fuzzy =
      (PM.parseNumericToken cls info fuzzy tokens idx ymd res).map (fun r => (idx + r.1, r.2.1, r.2.2)) := by
  unfold Gen.P.parseNumericToken PM.parseNumericToken
  simp only [bind_eq, toksAt_nat tokens idx hlt, tokAt_lt tokens idx hlt, bind_ok, toDecimal_eq, hv]
  have lt1 : (idx + 1 < tokens.length) = True := eq_true (by omega)
  have lt2 : (idx + 2 < tokens.length) = True := eq_true (by omega)
  have lt3 : (idx + 3 < tokens.length) = True := eq_true (by omega)
  have lt4 : (idx + 4 < tokens.length) = False := eq_false (by omega)
  have ge1 : (idx + 1 ≥ tokens.length) = False := eq_false (by omega)
  have le1 : (tokens.length ≤ idx + 1) = False := eq_false (by omega)
  have v1 : idx + 1 < tokens.length := by omega
  have v2 : idx + 2 < tokens.length := by omega
  have v3 : idx + 3 < tokens.length := by omega
  have w4 : tokens.length ≤ idx + 4 := by omega
  simp only [PM.numHourMin, PM.numSix, PM.numEight, PM.numHms, PM.numColon, PM.numSep, PM.sepSecond, PM.sepThird, PM.numJump, PM.numAmpmOrDay, PM.dayOrFail, PM.tokIs, PM.hmsAtIs, if_true, if_false, true_and, false_and, and_true, and_false, true_or, false_or, or_true, or_false, bind_ok, bind_err, bind_eq, pure_eq, Option.bind_some, Option.bind_none, Option.any_some, Option.any_none, lt1, lt2, lt3, lt4, ge1, le1, toksAt_nat tokens (idx + 1) v1, tokAt_lt tokens (idx + 1) v1, List.getElem?_eq_getElem v1, toksAt_nat tokens (idx + 2) v2, tokAt_lt tokens (idx + 2) v2, List.getElem?_eq_getElem v2, toksAt_nat tokens (idx + 3) v3, tokAt_lt tokens (idx + 3) v3, List.getElem?_eq_getElem v3, tokAt_ge tokens (idx + 4) w4, toksAt_ge tokens (idx + 4) w4, List.getElem?_eq_none w4]
  simp only [info_hms_eq, info_jump_eq, info_ampm_eq, info_month_eq, appendTok_eq, appendNat_eq, appendDec_eq,
    couldBeDay_eq, parsems_eq, parseMinSec_eq, toDecimal_eq, assignHms_eq, findHmsIdx_eq info idx tokens true hlt,
    bind_ok, tk_colon, tk_dash, tk_slash, tk_dot]
  generalize tokens[idx] = s at hv ⊢
  try generalize tokens[idx + 1] = t1
  try generalize tokens[idx + 2] = t2
  try generalize tokens[idx + 3] = t3
  cases hf : PM.findHmsIdx info idx tokens true with
  | none =>
    simp only [Option.map_none, bind_ok]
    try generalize info.monthOf t2 = m2
    try generalize info.ampmOf t2 = a2
    try generalize info.isJump t2 = j2
    try generalize info.ampmOf t1 = a1
    cases m2 <;> cases a2 <;> cases j2 <;> cases a1 <;>
      simp [bind_ok, bind_err, bind_assoc, bind_ite, ite_ok_ok, map_eq, map_eq', PPy.optNat, strFind_six, natOfInt_adjust, PM.adjustAmpm, Nat.add_assoc, throw_eq', geNat_zero]
  | some p =>
    rcases p with ⟨j, h0⟩
    have hp := (parseHms_eq info idx tokens j h0 (findHmsIdx_spec info idx tokens true j h0 hf)).1
    have hadd : idx + ((if j > idx then j else idx) - idx) = (if j > idx then j else idx) := by
      split <;> omega
    simp only [Option.map_some, bind_ok, hp]
    by_cases hj : j > idx
    · have hadd2 : idx + (j - idx) = j := by omega
      simp [bind_ok, bind_err, bind_assoc, bind_ite, ite_ok_ok, map_eq, map_eq', PPy.optNat, strFind_six, hj, hadd, hadd2, throw_eq']
    · simp [bind_ok, bind_err, bind_assoc, bind_ite, ite_ok_ok, map_eq, map_eq', PPy.optNat, strFind_six, hj, hadd, throw_eq']

/-- the arms, when idx + 4 < tokens.length -/
theorem parseNumericToken_eq_4 (cls : Char → CClass) (info : Info) (fuzzy : Bool) (tokens : List Token) (idx : Nat)
    (ymd : Ymd) (res : Res) (hlt : idx < tokens.length) (hk : idx + 4 < tokens.length) (value : Dec)
    (hv : PM.toDecimal cls tokens[idx] = .ok value) :
    Gen.P.parseNumericToken cls info tokens idx ymd res fuzzy =
      (PM.parseNumericToken cls info fuzzy tokens idx ymd res).map (fun r => (idx + r.1, r.2.1, r.2.2)) := by
  unfold Gen.P.parseNumericToken PM.parseNumericToken
  simp only [bind_eq, toksAt_nat tokens idx hlt, tokAt_lt tokens idx hlt, bind_ok, toDecimal_eq, hv]
  have lt1 : (idx + 1 < tokens.length) = True := eq_true (by omega)
  have lt2 : (idx + 2 < tokens.length) = True := eq_true (by omega)
  have lt3 : (idx + 3 < tokens.length) = True := eq_true (by omega)
  have lt4 : (idx + 4 < tokens.length) = True := eq_true (by omega)
  have ge1 : (idx + 1 ≥ tokens.length) = False := eq_false (by omega)
  have le1 : (tokens.length ≤ idx + 1) = False := eq_false (by omega)
  have v1 : idx + 1 < tokens.length := by omega
  have v2 : idx + 2 < tokens.length := by omega
  have v3 : idx + 3 < tokens.length := by omega
  have v4 : idx + 4 < tokens.length := by omega
  simp only [PM.numHourMin, PM.numSix, PM.numEight, PM.numHms, PM.numColon, PM.numSep, PM.sepSecond, PM.sepThird, PM.numJump, PM.numAmpmOrDay, PM.dayOrFail, PM.tokIs, PM.hmsAtIs, if_true, if_false, true_and, false_and, and_true, and_false, true_or, false_or, or_true, or_false, bind_ok, bind_err, bind_eq, pure_eq, Option.bind_some, Option.bind_none, Option.any_some, Option.any_none, lt1, lt2, lt3, lt4, ge1, le1, toksAt_nat tokens (idx + 1) v1, tokAt_lt tokens (idx + 1) v1, List.getElem?_eq_getElem v1, toksAt_nat tokens (idx + 2) v2, tokAt_lt tokens (idx + 2) v2, List.getElem?_eq_getElem v2, toksAt_nat tokens (idx + 3) v3, tokAt_lt tokens (idx + 3) v3, List.getElem?_eq_getElem v3, toksAt_nat tokens (idx + 4) v4, tokAt_lt tokens (idx + 4) v4, List.getElem?_eq_getElem v4]
  simp only [info_hms_eq, info_jump_eq, info_ampm_eq, info_month_eq, appendTok_eq, appendNat_eq, appendDec_eq,
    couldBeDay_eq, parsems_eq, parseMinSec_eq, toDecimal_eq, assignHms_eq, findHmsIdx_eq info idx tokens true hlt,
    bind_ok, tk_colon, tk_dash, tk_slash, tk_dot]
  generalize tokens[idx] = s at hv ⊢
  try generalize tokens[idx + 1] = t1
  try generalize tokens[idx + 2] = t2
  try generalize tokens[idx + 3] = t3
  try generalize tokens[idx + 4] = t4
  cases hf : PM.findHmsIdx info idx tokens true with
  | none =>
    simp only [Option.map_none, bind_ok]
    try generalize info.monthOf t2 = m2
    try generalize info.ampmOf t2 = a2
    try generalize info.isJump t2 = j2
    try generalize info.monthOf t4 = m4
    try generalize info.ampmOf t1 = a1
    cases m2 <;> cases a2 <;> cases j2 <;> cases m4 <;> cases a1 <;>
      simp [bind_ok, bind_err, bind_assoc, bind_ite, ite_ok_ok, map_eq, map_eq', PPy.optNat, strFind_six, natOfInt_adjust, PM.adjustAmpm, Nat.add_assoc, throw_eq', geNat_zero]
  | some p =>
    rcases p with ⟨j, h0⟩
    have hp := (parseHms_eq info idx tokens j h0 (findHmsIdx_spec info idx tokens true j h0 hf)).1
    have hadd : idx + ((if j > idx then j else idx) - idx) = (if j > idx then j else idx) := by
      split <;> omega
    simp only [Option.map_some, bind_ok, hp]
    by_cases hj : j > idx
    · have hadd2 : idx + (j - idx) = j := by omega
      simp [bind_ok, bind_err, bind_assoc, bind_ite, ite_ok_ok, map_eq, map_eq', PPy.optNat, strFind_six, hj, hadd, hadd2, throw_eq']
    · simp [bind_ok, bind_err, bind_assoc, bind_ite, ite_ok_ok, map_eq, map_eq', PPy.optNat, strFind_six, hj, hadd, throw_eq']

/-- `parser._parse_numeric_token` as written now = `PM.parseNumericToken` (the model returns how far `idx` moved) -/
theorem parseNumericToken_eq (cls : Char → CClass) (info : Info) (fuzzy : Bool) (tokens : List Token) (idx : Nat)
    (ymd : Ymd) (res : Res) :
    Gen.P.parseNumericToken cls info tokens idx ymd res fuzzy =
      (PM.parseNumericToken cls info fuzzy tokens idx ymd res).map (fun r => (idx + r.1, r.2.1, r.2.2)) := by
  by_cases hlt : idx < tokens.length
  · cases hv : PM.toDecimal cls tokens[idx] with
    | error e =>
      have := toDecimal_err cls _ e hv; subst this
      unfold Gen.P.parseNumericToken PM.parseNumericToken
      simp only [bind_eq, toksAt_nat tokens idx hlt, tokAt_lt tokens idx hlt, bind_ok, toDecimal_eq, hv]
      simp [bind_err, Except.map]
    | ok value =>
      by_cases h4 : idx + 4 < tokens.length
      · exact parseNumericToken_eq_4 cls info fuzzy tokens idx ymd res hlt h4 value hv
      · by_cases h3 : tokens.length = idx + 4
        · exact parseNumericToken_eq_3 cls info fuzzy tokens idx ymd res hlt h3 value hv
        · by_cases h2 : tokens.length = idx + 3
          · exact parseNumericToken_eq_2 cls info fuzzy tokens idx ymd res hlt h2 value hv
          · by_cases h1 : tokens.length = idx + 2
            · exact parseNumericToken_eq_1 cls info fuzzy tokens idx ymd res hlt h1 value hv
            · exact parseNumericToken_eq_0 cls info fuzzy tokens idx ymd res hlt (by omega) value hv
  · have hge : tokens.length ≤ idx := Nat.le_of_not_lt hlt
    unfold Gen.P.parseNumericToken PM.parseNumericToken
    simp [toksAt_ge tokens idx hge, tokAt_ge tokens idx hge, bind_err, bind_eq, Except.map]

end PGen
