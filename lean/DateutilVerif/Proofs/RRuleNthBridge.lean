/-
  Proofs/RRuleNthBridge.lean — MONTHLY with nth weekdays ("the last Friday", "the 2nd Tuesday"):
  the constructor's state, and the bridge from (calendar predicate ∧ nth-weekday mask) to the
  specification's `dateOk`.
-/
import DateutilVerif.Proofs.RRuleNthFilter
import DateutilVerif.Proofs.RRuleBridgeCal

namespace RRule
open Cal

/-- MONTHLY argument sets whose BYDAY members are all nth weekdays -/
structure NthMArgs (a : Args) : Prop where
  freq : a.freq = 1
  interval : 1 ≤ a.interval
  valid : a.dtstart.Valid
  byweekno : a.byweekno = none
  byeaster : a.byeaster = none
  monthday_nz : ∀ x ∈ a.bymonthday.getD [], x ≠ 0
  weekdays : ∃ l, a.byweekday = some l ∧ l ≠ [] ∧ ∀ w ∈ l, (0 ≤ w.1 ∧ w.1 ≤ 6) ∧ w.2 ≠ 0

variable {a : Args} {r : Rule}

/-- the nth-weekday list of the constructed rule -/
def nwlOf (a : Args) : List (Int × Int) := sortBy ltPair (nthWeekdays a (a.byweekday.getD []))

theorem nth_noDay (na : NthMArgs a) : noDayParts a = false := by
  obtain ⟨l, hl, _, _⟩ := na.weekdays
  unfold noDayParts; simp [hl]

theorem nth_nwl (na : NthMArgs a) :
    nwlOf a ≠ [] ∧ (∀ wn, wn ∈ nwlOf a ↔ wn ∈ a.byweekday.getD []) ∧
    (∀ wn ∈ nwlOf a, (0 ≤ wn.1 ∧ wn.1 ≤ 6) ∧ wn.2 ≠ 0) ∧
    byweekdayOf a = none ∧ bynweekdayOf a = some (nwlOf a) := by
  obtain ⟨l, hl, hne, hok⟩ := na.weekdays
  have hwa : weekdayArg a = some l := by unfold weekdayArg; simp [nth_noDay na, hl]
  have hfil : l.filter (fun w => !(w.2 == 0 || decide (a.freq > 1))) = l := by
    apply List.filter_eq_self.mpr; intro w hw
    have := (hok w hw).2
    simp [na.freq, this]
  have hfil2 : l.filter (fun w => w.2 == 0 || decide (a.freq > 1)) = [] := by
    apply List.filter_eq_nil_iff.mpr; intro w hw
    have := (hok w hw).2
    simp [na.freq, this]
  have hmem : ∀ wn, wn ∈ nwlOf a ↔ wn ∈ l := by
    intro wn; unfold nwlOf nthWeekdays; rw [hl, Option.getD_some, hfil, mem_sortBy, mem_dedup]
  have hplain : plainWeekdays a l = [] := by unfold plainWeekdays; rw [hfil2]; rfl
  refine ⟨?_, by rw [hl]; exact hmem, fun wn hwn => hok wn ((hmem wn).mp hwn), ?_, ?_⟩
  · intro hnil
    cases l with
    | nil => exact hne rfl
    | cons w ws => have := (hmem w).mpr (List.mem_cons_self ..); rw [hnil] at this; simp at this
  · unfold byweekdayOf; rw [hwa]; simp [hplain]
  · unfold bynweekdayOf; rw [hwa]; simp only [hplain, List.isEmpty_nil, ↓reduceIte]
    unfold nwlOf; rw [hl]; rfl

/-- the normalised rule of such an argument set, up to the three unit lists -/
abbrev nthRuleOf (a : Args) (bh bm bs : Option (List Int)) : Rule :=
  { freq := a.freq, interval := a.interval, wkst := a.wkst.getD 0,
    dtstart := { a.dtstart with us := 0 }, tz := a.tz, count := a.count, untilDT := a.untilDT,
    bysetpos := a.bysetpos, bymonth := a.bymonth.map sortedSet, bymonthday := bymonthdayOf a,
    bynmonthday := bynmonthdayOf a, byyearday := a.byyearday.map sortedSet,
    byeaster := none, byweekno := none,
    byweekday := none, bynweekday := some (nwlOf a),
    byhour := bh, byminute := bm, bysecond := bs,
    timeset := some (Spec.RRule.timesOf a none none none) }

theorem nth_rule (na : NthMArgs a) (h : construct a = .ok r) : ∃ bh bm bs, r = nthRuleOf a bh bm bs := by
  have hts := construct_timeset a r h (by rw [na.freq]; omega)
  obtain ⟨sp, bh, bm, bs, ts, h1, h2, h3, h4, h5, rfl⟩ := construct_ok a r h
  dsimp only at hts
  subst hts
  have hsp := (normBysetpos_ok a sp h1).1
  subst hsp
  obtain ⟨_, _, _, hwd, hnwd⟩ := nth_nwl na
  refine ⟨bh, bm, bs, ?_⟩
  have hbm : bymonthOf a = a.bymonth.map sortedSet := by unfold bymonthOf; simp [nth_noDay na]
  simp [nthRuleOf, hbm, hwd, hnwd, na.byweekno, na.byeaster]

theorem nth_cuts (na : NthMArgs a) (h : construct a = .ok r) : CutsAgree a r := by
  obtain ⟨bh, bm, bs, hr⟩ := nth_rule na h
  rw [hr]; exact ⟨rfl, rfl, rfl⟩

theorem nth_nthRule (na : NthMArgs a) (h : construct a = .ok r) : NthRule r := by
  obtain ⟨bh, bm, bs, hr⟩ := nth_rule na h
  rw [hr]; exact ⟨rfl, rfl, rfl⟩

/-- **bridge**: inside the month `(y, m)`, calendar predicate ∧ "marked by an nth-weekday pair" is the
    specification's `dateOk` -/
theorem nth_bridge (na : NthMArgs a) (h : construct a = .ok r) (info : Info) (y m d : Int)
    (hy : 1 ≤ y) (hv : ValidYMD y m d) (hyo : info.yearordinal = toOrdinal y 1 1) :
    (simpleOk r (toOrdinal y m d) &&
      decide (∃ wn ∈ nwlOf a, marks info (daysBeforeMonth y m) (daysBeforeMonth y m + daysInMonth y m - 1)
        (toOrdinal y m d - info.yearordinal) wn)) = Spec.RRule.dateOk a (toOrdinal y m d) := by
  obtain ⟨hm1, hm12, hd1, hd2⟩ := hv
  obtain ⟨bh, bm, bs, hr⟩ := nth_rule na h
  obtain ⟨l, hl, hne, hok⟩ := na.weekdays
  obtain ⟨_, hmem, _, _, _⟩ := nth_nwl na
  rw [hl, Option.getD_some] at hmem
  have hfo := fromOrdinal_toOrdinal y m d hy ⟨hm1, hm12, hd1, hd2⟩
  rw [hr]
  unfold simpleOk Spec.RRule.dateOk
  rw [hfo]
  dsimp only
  have hmonths : Spec.RRule.months a = a.bymonth.getD [] := by
    unfold Spec.RRule.months
    have : Spec.RRule.noDayParts a = noDayParts a := rfl
    cases a.bymonth <;> simp [this, nth_noDay na]
  have hmda : monthdayArg a = a.bymonthday := by unfold monthdayArg; simp [nth_noDay na]
  have hmd : Spec.RRule.monthdays a = a.bymonthday.getD [] := by
    unfold Spec.RRule.monthdays
    have : Spec.RRule.noDayParts a = noDayParts a := rfl
    simp [this, nth_noDay na]
  have hmc := monthday_clause_core a (by rw [hmda]; exact na.monthday_nz) d (d - daysInMonth y m - 1)
    (by omega) (by omega)
  rw [hmda] at hmc
  have hwds : Spec.RRule.weekdays a = l := by
    unfold Spec.RRule.weekdays
    have : Spec.RRule.noDayParts a = noDayParts a := rfl
    simp [this, nth_noDay na, hl]
  rw [hmonths, hmd, hwds, na.byweekno, na.byeaster, month_clause, hmc]
  have htn : truthy (none : Option (List Int)) = false := rfl
  have hmn : ∀ w, memO w (none : Option (List Int)) = false := fun _ => rfl
  simp only [htn, hmn, List.isEmpty_nil, Bool.not_true, Bool.or_false, Bool.not_false, Bool.true_or, Bool.and_true,
    Bool.or_self, List.contains_nil]
  -- the weekday clause
  have hwk : decide (∃ wn ∈ nwlOf a, marks info (daysBeforeMonth y m) (daysBeforeMonth y m + daysInMonth y m - 1)
        (toOrdinal y m d - info.yearordinal) wn) =
      (l.isEmpty || l.any (fun wn => wn.1 == weekdayOfOrd (toOrdinal y m d) &&
        (wn.2 == 0 || decide (a.freq > 1) || Spec.RRule.nthOk a (toOrdinal y m d) y m wn.2))) := by
    have hle : l.isEmpty = false := by cases l with | nil => exact absurd rfl hne | cons _ _ => rfl
    rw [hle, Bool.false_or, Bool.eq_iff_iff, decide_eq_true_eq, List.any_eq_true]
    have hj : toOrdinal y m d - info.yearordinal = daysBeforeMonth y m + d - 1 := by
      rw [hyo]; unfold toOrdinal; rw [daysBeforeMonth_1]; omega
    have hcore : ∀ wn : Int × Int, wn.2 ≠ 0 →
        (marks info (daysBeforeMonth y m) (daysBeforeMonth y m + daysInMonth y m - 1)
          (toOrdinal y m d - info.yearordinal) wn ↔
         (wn.1 == weekdayOfOrd (toOrdinal y m d) &&
          (wn.2 == 0 || decide (a.freq > 1) || Spec.RRule.nthOk a (toOrdinal y m d) y m wn.2)) = true) := by
      intro wn hn0
      unfold marks nthAt Spec.RRule.nthOk
      have e0 : info.yearordinal + (toOrdinal y m d - info.yearordinal) = toOrdinal y m d := by omega
      rw [e0, hj]
      have hfirst : toOrdinal y m 1 = toOrdinal y m d - (d - 1) := by unfold toOrdinal; omega
      have hlast : toOrdinal y m (daysInMonth y m) = toOrdinal y m d + (daysInMonth y m - d) := by
        unfold toOrdinal; omega
      simp only [na.freq, beq_self_eq_true, Bool.true_or, ↓reduceIte, hfirst, hlast]
      have hf1 : decide ((1 : Int) > 1) = false := by decide
      simp only [hf1, Bool.or_false, Bool.and_eq_true, beq_iff_eq, Bool.or_eq_true]
      constructor
      · rintro ⟨_, _, hw, hn⟩
        refine ⟨hw.symm, Or.inr ?_⟩
        split at hn
        · rename_i hp; rw [if_pos hp]; simp only [beq_iff_eq]; omega
        · rename_i hp; rw [if_neg hp]; simp only [beq_iff_eq]; omega
      · rintro ⟨hw, hn | hn⟩
        · exact absurd hn hn0
        · refine ⟨by omega, by omega, hw.symm, ?_⟩
          split
          · rename_i hp; rw [if_pos hp] at hn; simp only [beq_iff_eq] at hn; omega
          · rename_i hp; rw [if_neg hp] at hn; simp only [beq_iff_eq] at hn; omega
    constructor
    · rintro ⟨wn, hwn, hm⟩
      have hwl := (hmem wn).mp hwn
      exact ⟨wn, hwl, (hcore wn (hok wn hwl).2).mp hm⟩
    · rintro ⟨wn, hwl, hm⟩
      exact ⟨wn, (hmem wn).mpr hwl, (hcore wn (hok wn hwl).2).mpr hm⟩
  rw [hwk]
  generalize ((a.bymonth.getD []).isEmpty || (a.bymonth.getD []).contains m) = b1
  generalize (l.isEmpty || _) = b2
  generalize ((a.bymonthday.getD []).isEmpty || _ || _) = b4
  rcases a.byyearday with _ | (_ | ⟨x, xs⟩)
  · cases b1 <;> cases b2 <;> cases b4 <;> rfl
  · cases b1 <;> cases b2 <;> cases b4 <;> rfl
  · rw [yearday_clause (some (x :: xs))]

end RRule
