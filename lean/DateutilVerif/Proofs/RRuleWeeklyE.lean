/-
  Proofs/RRuleWeeklyE.lean — WEEKLY with BYEASTER, offsets −74..250, years 1583..4099, BYWEEKNO absent.  As in
  `RRuleWeekly.lean` the model's period 0 starts at the start's own day and later periods at the week start; a period
  beginning in late December reads up to six entries of the tail of the OLD year's Easter mask for 1..6 January, which
  the specification compares with the NEW year's Easter: on this class both see nothing there
  (`RRuleWeeklyETail.lean`); offsets −80..−75 are the WEEKLY form of known finding D-C01d.
-/
import DateutilVerif.Proofs.RRuleWeeklyETail
import DateutilVerif.Proofs.RRuleWeekly

namespace RRule
open Cal

/-- WEEKLY argument sets with BYEASTER offsets −74..250 -/
structure WeeklyEArgs (a : Args) : Prop where
  freq : a.freq = 2
  interval : 1 ≤ a.interval
  valid : a.dtstart.Valid
  byweekno : a.byweekno = none
  monthday_nz : ∀ x ∈ a.bymonthday.getD [], x ≠ 0
  easter : ∃ el, a.byeaster = some el ∧ el ≠ [] ∧ ∀ o ∈ el, -74 ≤ o ∧ o ≤ 250
  setpos : a.bysetpos = none ∨ weekdayOfOrd (Spec.RRule.startOrd a) = a.wkst.getD 0
  wkst : 0 ≤ a.wkst.getD 0 ∧ a.wkst.getD 0 ≤ 6
  until_ge : ∀ u, a.untilDT = some u → Spec.RRule.startMicros a ≤ u.toMicros

variable {a : Args} {r : Rule}

theorem we_dw (wa : WeeklyEArgs a) : DWArgs (asDailyE a) :=
  ⟨Or.inr rfl, wa.interval, wa.valid, wa.byweekno, rfl, wa.monthday_nz⟩

theorem we_earg (wa : WeeklyEArgs a) : EArg a := by
  obtain ⟨el, h1, h2, h3⟩ := wa.easter
  exact ⟨el, h1, h2, fun o ho => ⟨by have := (h3 o ho).1; omega, (h3 o ho).2⟩⟩

theorem we_nodayparts (wa : WeeklyEArgs a) : noDayParts a = false := by
  obtain ⟨el, h1, _⟩ := wa.easter
  unfold noDayParts; simp [h1]

theorem we_rule (wa : WeeklyEArgs a) (h : construct a = .ok r) : ∃ bh bm bs, r = easterRuleOf a bh bm bs := by
  have hts := construct_timeset a r h (by rw [wa.freq]; omega)
  obtain ⟨sp, bh, bm, bs, ts, h1, h2, h3, h4, h5, rfl⟩ := construct_ok a r h
  dsimp only at hts
  subst hts
  have hsp := (normBysetpos_ok a sp h1).1
  subst hsp
  obtain ⟨el, hel, _, _⟩ := wa.easter
  refine ⟨bh, bm, bs, ?_⟩
  have hbm : bymonthOf a = a.bymonth.map sortedSet := by unfold bymonthOf; simp [we_nodayparts wa]
  have hes : a.byeaster.map (sortBy ltInt) = some (eastersOf a) := by unfold eastersOf; rw [hel]; rfl
  simp [easterRuleOf, hbm, hes, wa.byweekno]

theorem we_cuts (wa : WeeklyEArgs a) (h : construct a = .ok r) : CutsAgree a r := by
  obtain ⟨bh, bm, bs, hr⟩ := we_rule wa h
  rw [hr]; exact ⟨rfl, rfl, rfl⟩

theorem we_byeaster (wa : WeeklyEArgs a) (h : construct a = .ok r) : r.byeaster = a.byeaster.map (sortBy ltInt) := by
  obtain ⟨bh, bm, bs, hr⟩ := we_rule wa h
  obtain ⟨el, hel, _, _⟩ := wa.easter
  rw [hr]
  show some (eastersOf a) = a.byeaster.map (sortBy ltInt)
  unfold eastersOf; rw [hel]; rfl

theorem we_erule (wa : WeeklyEArgs a) (h : construct a = .ok r) : ERule r := by
  have hd := construct_nth_demoted a r h (by rw [wa.freq]; omega)
  refine erule_of a r (we_earg wa) (we_byeaster wa h) ?_ ?_
  · obtain ⟨bh, bm, bs, hr⟩ := we_rule wa h
    rw [hr]; rfl
  · rcases hd with hd | hd <;> rw [hd] <;> rfl

theorem we_h74 (wa : WeeklyEArgs a) (h : construct a = .ok r) : ∀ o ∈ r.byeaster.getD [], -74 ≤ o := by
  obtain ⟨el, hel, _, hoff⟩ := wa.easter
  intro o ho
  rw [we_byeaster wa h, hel, Option.map_some, Option.getD_some, mem_sortBy] at ho
  exact (hoff o ho).1

/-! ### the argument side at FREQ = WEEKLY with some day part given -/

theorem dateOk_splitE_w (a : Args) (hf : a.freq = 2) (hnd : noDayParts a = false) (ord : Int) :
    Spec.RRule.dateOk a ord = (Spec.RRule.dateOk (asDailyE a) ord && specE a ord) := by
  have hnd' : Spec.RRule.noDayParts a = false := hnd
  have f0 : (a.freq == 0) = false := by rw [hf]; decide
  have f1 : (a.freq == 1) = false := by rw [hf]; decide
  have fg : decide (a.freq > 1) = true := by rw [hf]; decide
  unfold Spec.RRule.dateOk Spec.RRule.months Spec.RRule.monthdays Spec.RRule.weekdays Spec.RRule.wkst specE asDailyE
  have g0 : ((3 : Int) == 0) = false := by decide
  have g1 : ((3 : Int) == 1) = false := by decide
  have g2 : ((3 : Int) == 2) = false := by decide
  have gg : decide ((3 : Int) > 1) = true := by decide
  simp only [f0, f1, hnd', fg, g0, g1, g2, gg, Bool.and_false, Bool.false_and, Bool.or_self, Bool.false_eq_true,
    ↓reduceIte, Bool.or_true, Bool.true_or]
  rcases a.byeaster with _ | (_ | ⟨x, xs⟩) <;> dsimp only <;> (try simp only [Bool.and_true])

theorem date_fields_asDailyE_w (a : Args) (hf : a.freq = 2) (hnd : noDayParts a = false) :
    bymonthdayOf (asDailyE a) = bymonthdayOf a ∧ bynmonthdayOf (asDailyE a) = bynmonthdayOf a ∧
    byweekdayOf (asDailyE a) = byweekdayOf a := by
  have f0 : (a.freq == 0) = false := by rw [hf]; decide
  have f1 : (a.freq == 1) = false := by rw [hf]; decide
  have fg : decide (a.freq > 1) = true := by rw [hf]; decide
  have hm : monthdayArg (asDailyE a) = monthdayArg a := by
    unfold monthdayArg asDailyE; simp [f0, f1]
  have hw : weekdayArg (asDailyE a) = weekdayArg a := by
    unfold weekdayArg; rw [hnd]; unfold asDailyE; simp
  have hp : ∀ l, plainWeekdays (asDailyE a) l = plainWeekdays a l := by
    intro l; unfold plainWeekdays asDailyE; simp [fg]
  refine ⟨by unfold bymonthdayOf; rw [hm], by unfold bynmonthdayOf; rw [hm], ?_⟩
  unfold byweekdayOf; rw [hw]
  cases weekdayArg a with
  | none => rfl
  | some l => dsimp only; rw [hp]

/-- **bridge**: the model's filter predicate is the specification's `dateOk` -/
theorem we_bridge (wa : WeeklyEArgs a) (h : construct a = .ok r) (ord : Int) (ho : 1 ≤ ord) :
    (simpleOk r ord && eclause r ord) = Spec.RRule.dateOk a ord := by
  obtain ⟨bh, bm, bs, hr⟩ := we_rule wa h
  have hnd := we_nodayparts wa
  obtain ⟨e1, e2, e3⟩ := date_fields_asDailyE_w a wa.freq hnd
  have hs : simpleOk r ord = simpleOk (dailyRuleOf (asDailyE a) none none none) ord := by
    rw [hr]
    unfold simpleOk
    dsimp only
    rw [e1, e2, e3]
    rfl
  rw [hs, simpleOk_rule_eq_dateOk (we_dw wa) none none none ord ho,
    eclause_eq_specE a r (we_earg wa) (we_byeaster wa h), dateOk_splitE_w a wa.freq hnd]

/-! ### the refinement -/

theorem we_W0_facts (wa : WeeklyEArgs a) :
    W0 a ≤ Spec.RRule.startOrd a ∧ Spec.RRule.startOrd a < W0 a + 7 ∧
    (∀ m : Int, weekdayOfOrd (W0 a + 7 * m) = a.wkst.getD 0) := by
  have hr := weekdayOfOrd_range (Spec.RRule.startOrd a)
  have hw := wa.wkst
  unfold W0 Spec.RRule.weekStart
  refine ⟨by omega, by omega, ?_⟩
  intro m
  have e : Spec.RRule.startOrd a - (weekdayOfOrd (Spec.RRule.startOrd a) - a.wkst.getD 0) % 7 + 7 * m =
      Spec.RRule.startOrd a + (-((weekdayOfOrd (Spec.RRule.startOrd a) - a.wkst.getD 0) % 7) + 7 * m) := by omega
  rw [e, weekdayOfOrd_add]
  omega

theorem we_wk (wa : WeeklyEArgs a) (k : Nat) (st : State) (hg : WeeklyGood a r k st) :
    curOrd st.cur - (weekdayOfOrd (curOrd st.cur) - a.wkst.getD 0) % 7 = W0 a + 7 * (k * a.interval) := by
  have hf := we_W0_facts wa
  rw [hg.ord]
  by_cases hk : k = 0
  · subst hk; simp only [if_true]; unfold W0 Spec.RRule.weekStart; simp
  · rw [if_neg hk, hf.2.2]; omega

theorem we_span (wa : WeeklyEArgs a) (k : Nat) :
    Spec.RRule.periodSpan a (k * a.interval) =
      (W0 a + 7 * (k * a.interval), W0 a + 7 * (k * a.interval) + 7, none, none, none) := by
  unfold Spec.RRule.periodSpan W0 Spec.RRule.wkst
  simp [wa.freq]

/-- the WEEKLY day set of period `k`: from the cursor to the day before the next week start, at most six entries into
    the tail of the masks -/
theorem we_dayset_end (wa : WeeklyEArgs a) (h : construct a = .ok r) (k : Nat) (st : State)
    (hg : WeeklyGood a r k st) :
    ∃ e, dayset r st.info st.cur = .ok (intRange (curOrd st.cur - st.info.yearordinal) e) ∧
      st.info.yearordinal + e = W0 a + 7 * (k * a.interval) + 7 ∧
      W0 a + 7 * (k * a.interval) ≤ curOrd st.cur ∧ curOrd st.cur < W0 a + 7 * (k * a.interval) + 7 ∧
      1 ≤ curOrd st.cur ∧ 0 ≤ curOrd st.cur - st.info.yearordinal ∧
      curOrd st.cur - st.info.yearordinal < st.info.yearlen ∧ e ≤ st.info.yearlen + 6 := by
  obtain ⟨bh, bm, bs, hr⟩ := we_rule wa h
  have hfreq : r.freq = 2 := by rw [hr]; exact wa.freq
  have hwk : r.wkst = a.wkst.getD 0 := by rw [hr]
  have hf := we_W0_facts wa
  have hw := wa.wkst
  have hpos : 1 ≤ Spec.RRule.startOrd a := by
    have hv := wa.valid
    unfold DT.Valid ValidDate at hv
    exact toOrdinal_pos _ _ _ hv.1.1 hv.1.2.2
  have hwkst := we_wk wa k st hg
  have hyo := hg.facts.yearordinal
  have hyl := hg.facts.yearlen
  have hidx := index_range _ _ _ hg.valid
  have hrange := weekdayOfOrd_range (curOrd st.cur)
  obtain ⟨e, hd, h1, h2, h3, h4⟩ := dayset_weekly hfreq hg.facts hg.valid
  rw [hwk] at h3 h4
  have he : st.info.yearordinal + e = W0 a + 7 * (k * a.interval) + 7 := by
    have hδ : 0 ≤ (weekdayOfOrd (curOrd st.cur) - a.wkst.getD 0) % 7 ∧
        (weekdayOfOrd (curOrd st.cur) - a.wkst.getD 0) % 7 < 7 := by omega
    by_cases c1 : e ≤ curOrd st.cur - st.info.yearordinal + 7 - (weekdayOfOrd (curOrd st.cur) - a.wkst.getD 0) % 7
    · by_cases c2 : e = curOrd st.cur - st.info.yearordinal + 7 - (weekdayOfOrd (curOrd st.cur) - a.wkst.getD 0) % 7
      · omega
      · exfalso
        rcases h4 with h4 | h4
        · omega
        · have e4 : st.info.yearordinal + e = curOrd st.cur + (e - (curOrd st.cur - st.info.yearordinal)) := by omega
          rw [e4, weekdayOfOrd_add] at h4
          omega
    · exfalso
      have := h3 (curOrd st.cur - st.info.yearordinal + 7 - (weekdayOfOrd (curOrd st.cur) - a.wkst.getD 0) % 7)
        (by omega) (by omega)
      apply this
      have e4 : st.info.yearordinal + (curOrd st.cur - st.info.yearordinal + 7 -
          (weekdayOfOrd (curOrd st.cur) - a.wkst.getD 0) % 7) =
          curOrd st.cur + (7 - (weekdayOfOrd (curOrd st.cur) - a.wkst.getD 0) % 7) := by omega
      rw [e4, weekdayOfOrd_add]
      omega
  have hk0 : (0 : Int) ≤ k * a.interval := Int.mul_nonneg (by omega) (by have := wa.interval; omega)
  have hcur1 : 1 ≤ curOrd st.cur := by
    rw [hg.ord]; split
    · exact hpos
    · rename_i hk
      have : (1 : Int) ≤ k * a.interval := by
        have h1 : (1 : Int) ≤ k := by omega
        have := Int.mul_le_mul h1 wa.interval (by omega) (by omega); omega
      omega
  have hi1 : curOrd st.cur - st.info.yearordinal < st.info.yearlen := by
    unfold curOrd; rw [hyo, hyl]; exact hidx.2
  refine ⟨e, hd, he, by omega, by omega, hcur1, ?_, hi1, by omega⟩
  unfold curOrd; rw [hyo]; exact hidx.1

/-- the model's results of period `k` against the specification's candidates -/
theorem we_results (wa : WeeklyEArgs a) (h : construct a = .ok r) (k : Nat) (st : State)
    (hg : WeeklyGood a r k st) (inv : EInvW r st.info) (hle : W0 a + 7 * (k * a.interval) + 7 ≤ emaxOrd + 1) :
    ∃ fl pre cands, periodResults r st = .ok (cands, none, fl) ∧ Spec.RRule.sel a (k : Int) = pre ++ cands ∧
      (∀ x ∈ pre, x.micros < Spec.RRule.startMicros a ∧ Spec.RRule.afterUntil a x = false) ∧
      (∀ x ∈ cands, 0 ≤ x.ord ∧ x.ord ≤ maxOrdinal) := by
  have he := we_erule wa h
  have hmx := emaxOrd_le
  obtain ⟨bh, bm, bs, hr⟩ := we_rule wa h
  have hsp := construct_bysetpos a r h
  have htsok : TsOk st.timeset := by
    have := construct_timeset_ok a r h (by rw [wa.freq]; omega)
    rw [hr] at this; rw [hg.timeset]; exact this
  have hf := we_W0_facts wa
  obtain ⟨e, hd, hee, hcur_ge, hcur_lt, hcur1, hi0, hi_lt, here⟩ := we_dayset_end wa h k st hg
  obtain ⟨fl, hres⟩ := periodResults_range_P st (fun o => simpleOk r o && eclause r o)
    (by intro i hi0' hi1'
        exact dayFiltered_eW he (we_h74 wa h) hg.facts inv i (by omega) (by omega) (by omega))
    (by rw [hsp.1]; exact hsp.2) htsok hd (by omega) (by omega)
  have e1 : st.info.yearordinal + (curOrd st.cur - st.info.yearordinal) = curOrd st.cur := by omega
  rw [e1, hee] at hres
  have hbridge : ∀ (lo hi : Int), 1 ≤ lo →
      (intRange lo hi).filter (fun o => simpleOk r o && eclause r o) = (intRange lo hi).filter (Spec.RRule.dateOk a) := by
    intro lo hi hlo
    apply List.filter_congr
    intro o ho
    exact we_bridge wa h o (by have := (mem_intRange _ _ _).mp ho; omega)
  rw [hbridge _ _ hcur1, hg.timeset, hsp.1] at hres
  rcases wa.setpos with hnone | hal
  · -- no BYSETPOS: the days of week 0 the model leaves out lie before the start
    have hsel := sel_span a hnone k _ _ (we_span wa k)
    rw [intRange_append _ (curOrd st.cur) _ hcur_ge (by omega), List.filter_append, List.flatMap_append] at hsel
    rw [hnone] at hres
    refine ⟨fl, _, _, hres, hsel, ?_, ?_⟩
    · intro x hx
      simp only [List.mem_flatMap, List.mem_filter, List.mem_map] at hx
      obtain ⟨o, ⟨ho, _⟩, t, ht, rfl⟩ := hx
      have hor := (mem_intRange _ _ _).mp ho
      have hk : k = 0 := by
        by_cases c : k = 0
        · exact c
        · have := hg.ord; rw [if_neg c] at this; omega
      have hcs : curOrd st.cur = Spec.RRule.startOrd a := by rw [hg.ord, if_pos hk]
      have hvt := timesOf_valid a wa.valid (by rw [wa.freq]; omega) t ht
      have hlt : (mkInst o t).micros < Spec.RRule.startMicros a := by
        have hv := wa.valid
        unfold DT.Valid at hv
        unfold ValidHMS at hvt
        unfold Spec.RRule.startMicros DT.toMicros DT.timeMicros DT.ordinal DT.usPerDay Inst.micros Inst.secs mkInst
        unfold Spec.RRule.startOrd DT.ordinal at hcs
        dsimp only
        omega
      refine ⟨hlt, ?_⟩
      unfold Spec.RRule.afterUntil
      cases hu : a.untilDT with
      | none => rfl
      | some u => have := wa.until_ge u hu; simp; omega
    · intro x hx
      have := sel_bounds _ _ _ _ x hx
      omega
  · -- a start on the week start: the model's period is the whole week, also under BYSETPOS
    have hw' := wa.wkst
    have hcw : weekdayOfOrd (curOrd st.cur) = a.wkst.getD 0 := by
      rw [hg.ord]; split
      · exact hal
      · exact hf.2.2 _
    have hcur : curOrd st.cur = W0 a + 7 * (k * a.interval) := by
      have := we_wk wa k st hg
      rw [hcw] at this; omega
    rw [hcur] at hres
    have hsel := sel_span_sp a k _ _ (we_span wa k)
    refine ⟨fl, [], Spec.RRule.sel a (k : Int), ?_, rfl, by simp, ?_⟩
    · rw [hres, hsel]
    · intro x hx
      rw [hsel] at hx
      have := sel_bounds _ _ _ _ x (applySetpos_subset _ _ x hx)
      omega

/-- `advance` reaches period `k+1` -/
theorem we_next (wa : WeeklyEArgs a) (h : construct a = .ok r) (k : Nat) (st : State) (fl : Bool)
    (c : Option Int) (hg : WeeklyGood a r k st) (inv : EInvW r st.info)
    (hle : W0 a + 7 * ((k + 1 : Nat) * a.interval) ≤ emaxOrd) :
    ∃ st', advance r { st with count := c } fl = .ok st' ∧ WeeklyGood a r (k + 1) st' ∧ EInvW r st'.info := by
  have he := we_erule wa h
  obtain ⟨bh, bm, bs, hr⟩ := we_rule wa h
  have hfreq : r.freq = 2 := by rw [hr]; exact wa.freq
  have hint : r.interval = a.interval := by rw [hr]
  have hwk : r.wkst = a.wkst.getD 0 := by rw [hr]
  have hi := wa.interval
  have hw := wa.wkst
  have hf := we_W0_facts wa
  have hwkst := we_wk wa k st hg
  have hrange := weekdayOfOrd_range (curOrd st.cur)
  obtain ⟨hm1, hm12, hd1, hd2⟩ := hg.valid
  have ek : ((k + 1 : Nat) : Int) * a.interval = k * a.interval + a.interval := by
    push_cast; rw [Int.add_mul]; omega
  have hnew : ∀ d', d' = (if r.wkst > st.cur.weekday then st.cur.day + (-(st.cur.weekday + 1 + (6 - r.wkst)) + r.interval * 7)
        else st.cur.day + (-(st.cur.weekday - r.wkst) + r.interval * 7)) →
      curOrd { st.cur with day := d' } = W0 a + 7 * ((k + 1 : Nat) * a.interval) ∧ 1 ≤ d' := by
    intro d' hd'
    rw [curOrd_day, hd', hg.wd, hwk, hint, ek]
    split <;> (constructor <;> omega)
  have hex : ∃ st', advance r { st with count := c } fl = .ok st' ∧ EInvW r st'.info := by
    unfold advance
    dsimp only
    rw [if_neg (by simp [hfreq]), if_neg (by simp [hfreq]), if_pos (by simp [hfreq])]
    obtain ⟨e1, e2⟩ := hnew _ rfl
    exact fixDay_ok_eW he
      { cur := { st.cur with day := _, weekday := r.wkst }, info := st.info, timeset := st.timeset, count := c } true
      hg.facts hm1 hm12 e2
      (by have : curOrd { st.cur with day := (if r.wkst > st.cur.weekday then
                st.cur.day + (-(st.cur.weekday + 1 + (6 - r.wkst)) + r.interval * 7)
                else st.cur.day + (-(st.cur.weekday - r.wkst) + r.interval * 7)), weekday := r.wkst } =
              curOrd { st.cur with day := (if r.wkst > st.cur.weekday then
                st.cur.day + (-(st.cur.weekday + 1 + (6 - r.wkst)) + r.interval * 7)
                else st.cur.day + (-(st.cur.weekday - r.wkst) + r.interval * 7)) } := rfl
          rw [this, e1]; exact hle)
      inv
  obtain ⟨st', hadv, hinv'⟩ := hex
  refine ⟨st', hadv, ?_, hinv'⟩
  have sp := advance_weekly r { st with count := c } st' fl hfreq (by omega) hg.valid (by rw [hwk]; exact hw)
    (by show 0 ≤ st.cur.weekday ∧ st.cur.weekday ≤ 6; rw [hg.wd]; omega) hg.facts hadv
  obtain ⟨eo, v, wd', f', ts⟩ := sp
  have eo : curOrd st'.cur = curOrd st.cur - (st.cur.weekday - r.wkst) % 7 + 7 * r.interval := eo
  have eo' : curOrd st'.cur = W0 a + 7 * ((k + 1 : Nat) * a.interval) := by
    rw [eo, hg.wd, hwk, hint, ek]; omega
  refine ⟨f', hinv'.1.1, v, by rw [ts]; exact hg.timeset, ?_, ?_⟩
  · rw [wd', hwk, eo', hf.2.2]
  · rw [if_neg (by omega)]; exact eo'

/-- the initial state is the state of period 0 -/
theorem we_init (wa : WeeklyEArgs a) (h : construct a = .ok r) (hlo : 1583 ≤ a.dtstart.y) (hhi : a.dtstart.y ≤ 4099) :
    ∃ st0, init r = .ok st0 ∧ (WeeklyGood a r 0 st0 ∧ EInvW r st0.info) ∧ st0.count = r.count := by
  have he := we_erule wa h
  have hv := wa.valid
  unfold DT.Valid ValidDate at hv
  obtain ⟨info, hre, hinv⟩ := rebuild_eW he a.dtstart.y a.dtstart.m hlo hhi
  obtain ⟨bh, bm, bs, hr⟩ := we_rule wa h
  have hd : r.dtstart = { a.dtstart with us := 0 } := by rw [hr]
  have hf : r.freq < 4 := by rw [hr]; show a.freq < 4; rw [wa.freq]; omega
  have hts : r.timeset = some (Spec.RRule.timesOf a none none none) := by rw [hr]
  refine ⟨{ cur := { year := a.dtstart.y, month := a.dtstart.m, day := a.dtstart.d, hour := a.dtstart.hh,
                     minute := a.dtstart.mm, second := a.dtstart.ss, weekday := r.dtstart.weekday },
            info := info, timeset := Spec.RRule.timesOf a none none none, count := r.count }, ?_, ⟨?_, hinv⟩, rfl⟩
  · unfold init
    simp only [hd, bind, Except.bind, hre, hts, pure, Except.pure]
    rw [if_pos hf]
    rfl
  · refine ⟨rebuild_facts r _ _ info hre, hinv.1.1, hv.1.2.2, rfl, ?_, ?_⟩
    · rw [hd]; rfl
    · simp only [if_true]; rfl

/-- **`iter_eq_spec`, WEEKLY with BYEASTER**, offsets −74..250, years 1583..4099 (every week of the first `n` periods
    ends not after 31 December 4099): FREQ=WEEKLY, INTERVAL ≥ 1, a week start 0..6, a valid start, UNTIL (if any) not
    before the start, any BYMONTH / BYMONTHDAY (non-zero) / BYYEARDAY / BYDAY / BYHOUR / BYMINUTE / BYSECOND, any COUNT,
    no BYWEEKNO, BYSETPOS only when the start falls on the week start -/
theorem iter_eq_spec_weekly_easter (wa : WeeklyEArgs a) (h : construct a = .ok r) (n : Nat)
    (hlo : 1583 ≤ a.dtstart.y) (hn : W0 a + 7 * (n * a.interval) + 7 ≤ emaxOrd + 1) :
    (iter r n).1 = Spec.RRule.occ a n := by
  have hi := wa.interval
  have hf := we_W0_facts wa
  have hn0 : (0 : Int) ≤ n * a.interval := Int.mul_nonneg (by omega) (by omega)
  have hmono : ∀ k : Nat, k ≤ n → W0 a + 7 * (k * a.interval) + 7 ≤ emaxOrd + 1 := by
    intro k hk
    have : (k : Int) * a.interval ≤ n * a.interval :=
      Int.mul_le_mul_of_nonneg_right (by omega) (by omega)
    omega
  have hhi : a.dtstart.y ≤ 4099 := start_year_hi a wa.valid (by omega)
  have sim : Simulation a r n (fun k st => WeeklyGood a r k st ∧ EInvW r st.info) := {
    agree := we_cuts wa h
    results := fun k st hk hg => we_results wa h k st hg.1 hg.2 (hmono k (by omega))
    next := fun k st fl c hk hg =>
      we_next wa h k st fl c hg.1 hg.2 (by have := hmono (k + 1) (by omega); omega) }
  obtain ⟨st0, hinit, hg0, hc0⟩ := we_init wa h hlo hhi
  exact iter_refines sim st0 hinit hg0 hc0 n (by omega)

-- a WeeklyEArgs instance: week by week, Ash Wednesday (−46), Easter Monday, and the extreme offsets of the class
example : WeeklyEArgs { freq := 2, dtstart := ⟨2024, 12, 30, 9, 0, 0, 0⟩, byeaster := some [-74, -46, 1, 250] } :=
  ⟨rfl, by decide, by decide, rfl, by intro x hx; simp at hx, ⟨[-74, -46, 1, 250], rfl, by decide, by decide⟩,
   Or.inl rfl, by decide, by intro u hu; cases hu⟩

end RRule
