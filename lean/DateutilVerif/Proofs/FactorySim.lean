/-
  Proofs/FactorySim.lean — the hand-written state machine IS the interpretation of the translated sources.

  For the programs that harness/translate_factory.py generated from /repo's working tree on this run
  (Generated/FactoryPrograms.lean), `stepIR` — flatten the statements, execute the instruction at the
  thread's pc — equals the hand-written `tstep` of Model/Factory.lean at every pc, on every state.
  Every C18 theorem is stated about `tstep`/`step`, so through this equality it is a theorem about what
  the source says NOW: an edit of one of the translated methods either falls outside the fragment
  (`Untranslatable`, the generated file is not renewed) or changes a program, and then `program_sim_offset` /
  `program_sim_str` below (first step: which instruction sits at which pc) no longer check.
-/
import DateutilVerif.Model.FactoryIR
import DateutilVerif.Generated.FactoryPrograms

namespace Fact.IR

/-- the tzoffset programs (with gettz, the singleton and `instance`): interpreting them is `tstep` -/
theorem program_sim_offset (kd : Kind) (res : Key → Res) (t : Tid) (g : Glob) (th : Thread) :
    stepIR Gen.offsetPrograms kd res t g th = tstep kd res t g th := by
  -- the flattened generated programs, instruction by instruction (checked by evaluation)
  have code_offsetCall : code Gen.offsetPrograms .lruCall =
      [⟨.acquire, 1, 0⟩, ⟨.weakGet, 2, 0⟩, ⟨.brInstNone, 3, 7⟩, ⟨.alloc, 4, 13⟩, ⟨.init, 5, 0⟩, ⟨.sdRead, 6, 0⟩,
       ⟨.sdWrite, 7, 0⟩, ⟨.touch, 8, 0⟩, ⟨.brLen .gt .sizeField, 9, 10⟩, ⟨.pop false, 10, 0⟩, ⟨.releasePublish, 11, 0⟩,
       ⟨.retPublished, 0, 0⟩, ⟨.skip, 0, 0⟩, ⟨.releaseExc, 0, 0⟩] := by decide
  have code_gettzCall : code Gen.offsetPrograms .gettzCall =
      [⟨.acquire, 1, 0⟩, ⟨.weakGet, 2, 0⟩, ⟨.brInstNone, 3, 9⟩, ⟨.nocacheAlloc, 4, 15⟩, ⟨.nocacheInit, 5, 0⟩,
       ⟨.brCacheable, 6, 7⟩, ⟨.storeWeak, 9, 0⟩, ⟨.release, 8, 0⟩, ⟨.retPlain, 0, 0⟩, ⟨.touch, 10, 0⟩,
       ⟨.brLen .gt .sizeField, 11, 12⟩, ⟨.pop false, 12, 0⟩, ⟨.releasePublish, 13, 0⟩, ⟨.retPublished, 0, 0⟩,
       ⟨.skip, 0, 0⟩, ⟨.releaseExc, 0, 0⟩] := by decide
  have code_setCacheSize : code Gen.offsetPrograms .setSize =
      [⟨.acquire, 1, 0⟩, ⟨.setSize, 2, 0⟩, ⟨.brLen .gt .sizeArg, 3, 4⟩, ⟨.pop false, 2, 0⟩, ⟨.releaseEnd, 5, 0⟩,
       ⟨.releaseExc, 0, 0⟩] := by decide
  have code_cacheClear : code Gen.offsetPrograms .clear =
      [⟨.acquire, 1, 0⟩, ⟨.resetWeak, 2, 0⟩, ⟨.clearStrong, 3, 0⟩, ⟨.releaseEnd, 4, 0⟩, ⟨.releaseExc, 0, 0⟩] := by decide
  have code_singleton : code Gen.offsetPrograms .single =
      [⟨.brSlotNone, 1, 4⟩, ⟨.slotAlloc, 2, 0⟩, ⟨.slotInit, 3, 0⟩, ⟨.slotStore, 4, 0⟩, ⟨.retSlot, 0, 0⟩,
       ⟨.releaseExc, 0, 0⟩] := by decide
  have code_instance : code Gen.offsetPrograms .fresh =
      [⟨.freshAlloc, 1, 2⟩, ⟨.freshInit, 2, 0⟩, ⟨.freshRet, 0, 0⟩, ⟨.releaseExc, 0, 0⟩] := by decide
  cases hpc : th.pc <;> cases kd <;>
    simp [stepIR, tstep, hpc, dec, enc, exec, code_offsetCall, code_gettzCall, code_setCacheSize, code_cacheClear,
          code_singleton, code_instance, Cmp.holds, Bound.val]
  all_goals first
    | rfl
    | (split <;> first | rfl | (split <;> first | rfl | simp_all))

/-- the tzstr programs -/
theorem program_sim_str (kd : Kind) (res : Key → Res) (t : Tid) (g : Glob) (th : Thread) :
    stepIR Gen.strPrograms kd res t g th = tstep kd res t g th := by
  have code_str_eq : ∀ m : Meth, code Gen.strPrograms m = code Gen.offsetPrograms m := by
    intro m; cases m <;> decide
  rw [← program_sim_offset]
  simp only [stepIR, code_str_eq]


/-- the whole machine (thread statements read off the translated programs; drops and collections
as in Model/Factory.lean) is the hand-written `step` -/
theorem stepState_offset (kd : Kind) (res : Key → Res) (s : State) (l : Label) :
    stepState Gen.offsetPrograms kd res s l = step kd res s l := by
  cases l <;> simp only [stepState, step, program_sim_offset] <;> (try rfl) <;> (split <;> first | rfl | (split <;> rfl))

theorem stepState_str (kd : Kind) (res : Key → Res) (s : State) (l : Label) :
    stepState Gen.strPrograms kd res s l = step kd res s l := by
  cases l <;> simp only [stepState, step, program_sim_str] <;> (try rfl) <;> (split <;> first | rfl | (split <;> rfl))


theorem reachableIR_offset {kd : Kind} {res : Key → Res} {s0 s : State} :
    ReachableIR Gen.offsetPrograms kd res s0 s ↔ Reachable kd res s0 s := by
  constructor
  · intro h
    induction h with
    | init => exact .init
    | step _ hs ih => exact .step ih (by rw [← stepState_offset]; exact hs)
  · intro h
    induction h with
    | init => exact .init
    | step _ hs ih => exact .step ih (by rw [stepState_offset]; exact hs)

theorem reachableIR_str {kd : Kind} {res : Key → Res} {s0 s : State} :
    ReachableIR Gen.strPrograms kd res s0 s ↔ Reachable kd res s0 s := by
  constructor
  · intro h
    induction h with
    | init => exact .init
    | step _ hs ih => exact .step ih (by rw [← stepState_str]; exact hs)
  · intro h
    induction h with
    | init => exact .init
    | step _ hs ih => exact .step ih (by rw [stepState_str]; exact hs)

end Fact.IR
