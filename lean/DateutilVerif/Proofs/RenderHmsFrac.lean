/-
  Proofs/RenderHmsFrac.lean — the unit notation with a fraction on the seconds, `YYYY-MM-DD HHhMMmSS(.|,)f…s<offset>`,
  for 1, 2, 4 and 6 fraction digits: ONE lexer token `SS.f…` (a comma after the two second digits is a decimal mark; the
  lexer writes it as a dot) which `_parse_numeric_token` hands — its length being none of 6, 8, 12, 14 — to `_find_hms_idx`,
  the `s` behind it to `_assign_hms`, and that to `_parsems`.  (3 and 5 digits: the token is 6 / 8 characters long and is
  taken for HHMMSS / YYYYMMDD — known finding D-C02-hms-fraction-token-length.)
-/
import DateutilVerif.Proofs.RenderCompactFrac

namespace PM
open Py PT

variable (cls : Char → CClass) [hc : AsciiOK cls]

/-- what the scan needs to know about the token `SS.f…` -/
structure SFTok (F : Token) (s us : Nat) : Prop where
  dec : ∃ d, toDecimal cls F = .ok d
  flt : floatOk cls F = true
  len : F.length = 4 ∨ F.length = 5 ∨ F.length = 7 ∨ F.length = 9
  dot : F.idxOf '.' = 2
  ss : parsems cls F = .ok (s, us)

/-- the token of `SS(.|,)f{k}` and what the scan reads from it, for 1, 2, 4 and 6 fraction digits -/
theorem sfrac_token (s us k : Nat) (hs : s < 100) (hus : us < 1000000)
    (hk : k = 1 ∨ k = 2 ∨ k = 4 ∨ k = 6) (comma : Bool) (rest : List Char) (he : FracEnds cls rest) :
    ∃ F : Token, scan cls .init (pad2 s ++ [if comma then ',' else '.'] ++ (pad6 us).take k ++ rest) =
        F :: scan cls .init rest ∧
      SFTok cls F s (us / 10 ^ (6 - k) * 10 ^ (6 - k)) := by
  have hcomma : (cls ',').isNum = false := by rw [AsciiOK.agree (cls := cls) ',' (by decide)]; decide
  have hdot : (cls '.').isNum = false := by rw [AsciiOK.agree (cls := cls) '.' (by decide)]; decide
  have hsepc : ((if comma then ',' else '.') = '.' ∨
      ((if comma then ',' else '.') = ',' ∧ (digitChar (s / 10) :: [digitChar s]).length ≥ 2)) ∧
      (cls (if comma then ',' else '.')).isNum = false := by
    cases comma <;> simp [hcomma, hdot]
  have hd2 := drun_dtok cls [s / 10, s]
  have key : ∀ (b : Nat) (bs : List Nat), bs.length < 6 → bs.length + 1 = k → (pad6 us).take k = dtok (b :: bs) →
      dval ((b :: bs) ++ List.replicate (5 - bs.length) 0) = us / 10 ^ (6 - k) * 10 ^ (6 - k) →
      ∃ F : Token, scan cls .init (pad2 s ++ [if comma then ',' else '.'] ++ (pad6 us).take k ++ rest) =
          F :: scan cls .init rest ∧
        SFTok cls F s (us / 10 ^ (6 - k) * 10 ^ (6 - k)) := by
    intro b bs hbs hbk htake hval
    refine ⟨dtok [s / 10, s] ++ '.' :: dtok (b :: bs), ?_, ?_⟩
    · rw [htake]
      have := lex_frac cls (digitChar (s / 10)) [digitChar s]
        (if comma then ',' else '.') (digitChar b) (bs.map digitChar) rest hsepc.1 hsepc.2 hd2 (drun_dtok cls (b :: bs)) he
      simpa [pad2, dtok, List.append_assoc] using this
    · obtain ⟨dd, hnf⟩ := numForm_fracTok cls (s / 10) [s] (b :: bs)
      refine ⟨⟨dd, by simp [toDecimal, hnf]⟩, by simp [floatOk, hnf], ?_, by simpa using idxOf_dot_dtok_dot [s / 10, s] _, ?_⟩
      · have : (dtok [s / 10, s] ++ '.' :: dtok (b :: bs)).length = bs.length + 4 := by simp; omega
        rw [this]; omega
      · rw [parsems_frac cls (s / 10) [s] b bs (by simp) hbs, hval, dval_pad2 s hs]
  rcases hk with rfl | rfl | rfl | rfl
  · exact key (us / 100000) [] (by simp) rfl rfl (by simp [dval, dvalAcc]; omega)
  · exact key (us / 100000) [us / 10000] (by simp) rfl rfl (by simp [dval, dvalAcc]; omega)
  · exact key (us / 100000) [us / 10000, us / 1000, us / 100] (by simp) rfl rfl (by simp [dval, dvalAcc]; omega)
  · exact key (us / 100000) [us / 10000, us / 1000, us / 100, us / 10, us] (by simp) rfl rfl (by simp [dval, dvalAcc]; omega)

set_option maxHeartbeats 4000000 in
/-- the scan over `YYYY-MM-DD HHhMMm` + the token + `s`, any `Suf2` suffix behind it -/
theorem run_hms_frac (yf : Bool) (year century : Int) (y m d h mi s us : Nat)
    (hv : (DT.mk y m d h mi s us).Valid) (F : Token) (hF : SFTok cls F s us)
    (suf : List Token) (hs : Suf2 (Info.default false yf year century) suf) :
    parseLoop cls (Info.default false yf year century) false (suf.length + 12) (suf.length + 12) 0 0
      { l := isoDateTokens y m d [' '] ++ [dtok [h / 10, h], ['h'], dtok [mi / 10, mi], ['m'], F, ['s']] ++ suf } =
    parseLoop cls (Info.default false yf year century) false (suf.length + 12) suf.length 12 0
      { l := isoDateTokens y m d [' '] ++ [dtok [h / 10, h], ['h'], dtok [mi / 10, mi], ['m'], F, ['s']] ++ suf,
        ymd := { vals := [y, m, d], century := true, yIdx := some 0 },
        skipped := [5], res := { hour := some h, minute := some mi, second := some s, microsecond := some us } } := by
  obtain ⟨⟨hy1, hy2, hm1, hm2, hd1, hd2⟩, hh1, hh2, hmi1, hmi2, hs1, hs2, hu1, hu2⟩ := hv
  dsimp only at *
  have hdim := (Cal.daysInMonth_bounds (y : Int) (m : Int)).2
  have by' : y < 10000 := by omega
  have bm : m < 100 := by omega
  have bd : d < 100 := by omega
  have bh : h < 100 := by omega
  have bmi : mi < 100 := by omega
  obtain ⟨⟨dd, hdec⟩, hflt, hlen, hdot, hss⟩ := hF
  have l2 : F.length ≠ 2 := by omega
  have l6 : F.length ≠ 6 := by omega
  have l8 : F.length ≠ 8 := by omega
  have l12 : F.length ≠ 12 := by omega
  have l14 : F.length ≠ 14 := by omega
  have d6 : F.idxOf '.' ≠ 6 := by omega
  generalize suf.length = k
  rcases hs with rfl | ⟨b, rest, rfl, b1, b2, b3⟩ <;> psimpa [isoDateTokens]

/-- **`YYYY-MM-DD HHhMMmSS(.|,)f{k}s<offset>`**, k ∈ {1, 2, 4, 6}, every valid datetime, every offset spelling after a
    space: the datetime cut to the digits shown -/
theorem parse_hmsFrac (yf : Bool) (year century : Int) (o : Opts) (tznames : List Token) (tzi : TzInfos)
    (ho : PlainOpts o tzi) (dflt : DT) (hdv : dflt.Valid) (t : DT) (ht : t.Valid) (comma : Bool) (k : Nat)
    (hk : k = 1 ∨ k = 2 ∨ k = 4 ∨ k = 6) (off : Off) (hoff : off.Dom) (hsp : off.Spaced) :
    parse cls (Info.default false yf year century) o tznames tzi dflt (renderHmsFrac comma k t off) =
      .ok { dt := (TimeFmt.frac comma k).expect t dflt, tz := if o.ignoretz then .naive else offDescr tznames off,
            tokens := none } := by
  obtain ⟨⟨hy1, hy2, hm1, hm2, hd1, hd2⟩, hh1, hh2, hmi1, hmi2, hs1, hs2, hu1, hu2⟩ := ht
  have hdim := (Cal.daysInMonth_bounds t.y t.m).2
  have ey : ((t.y.toNat : Nat) : Int) = t.y := Int.toNat_of_nonneg (by omega)
  have em : ((t.m.toNat : Nat) : Int) = t.m := Int.toNat_of_nonneg (by omega)
  have ed : ((t.d.toNat : Nat) : Int) = t.d := Int.toNat_of_nonneg (by omega)
  have eh : ((t.hh.toNat : Nat) : Int) = t.hh := Int.toNat_of_nonneg (by omega)
  have emi : ((t.mm.toNat : Nat) : Int) = t.mm := Int.toNat_of_nonneg (by omega)
  have es : ((t.ss.toNat : Nat) : Int) = t.ss := Int.toNat_of_nonneg (by omega)
  have eu : ((t.us.toNat : Nat) : Int) = t.us := Int.toNat_of_nonneg (by omega)
  have hends : FracEnds cls ('s' :: off.render) := fracEnds_ascii cls _ _ (by decide)
  obtain ⟨F, hlexF, hF⟩ := sfrac_token cls t.ss.toNat t.us.toNat k (by omega) (by omega) hk comma ('s' :: off.render) hends
  have hq : t.us.toNat / 10 ^ (6 - k) * 10 ^ (6 - k) ≤ t.us.toNat := Nat.div_mul_le_self _ _
  have hcast : ((t.us.toNat / 10 ^ (6 - k) * 10 ^ (6 - k) : Nat) : Int) = t.us / 10 ^ (6 - k) * 10 ^ (6 - k) := by
    rw [Int.natCast_mul, Int.natCast_ediv, eu]; simp
  have hv : (DT.mk (t.y.toNat : Nat) (t.m.toNat : Nat) (t.d.toNat : Nat) (t.hh.toNat : Nat) (t.mm.toNat : Nat)
      (t.ss.toNat : Nat) ((t.us.toNat / 10 ^ (6 - k) * 10 ^ (6 - k) : Nat) : Int)).Valid := by
    rw [ey, em, ed, eh, emi, es]
    have hle : ((t.us.toNat / 10 ^ (6 - k) * 10 ^ (6 - k) : Nat) : Int) ≤ (t.us.toNat : Int) := by exact_mod_cast hq
    refine ⟨⟨hy1, hy2, hm1, hm2, hd1, hd2⟩, hh1, hh2, hmi1, hmi2, hs1, hs2, ?_, ?_⟩
    · exact Int.natCast_nonneg _
    · show ((t.us.toNat / 10 ^ (6 - k) * 10 ^ (6 - k) : Nat) : Int) ≤ 999999
      omega
  have hs : StrictOpts o tzi := ⟨ho.fz, ho.fwt, ho.tz1, ho.tz2⟩
  have hfin := fin_iso_frac yf year century o tznames tzi ho dflt t.y.toNat t.m.toNat t.d.toNat t.hh.toNat t.mm.toNat t.ss.toNat
    (t.us.toNat / 10 ^ (6 - k) * 10 ^ (6 - k)) hv
  have hsec : pad2 t.ss.toNat ++ [if comma then ',' else '.'] ++ (pad6 t.us.toNat).take k ++ ('s' :: off.render) =
      dtok [t.ss.toNat / 10] ++ (digitChar t.ss.toNat :: ([if comma then ',' else '.'] ++ (pad6 t.us.toNat).take k ++ ('s' :: off.render))) := by
    simp [pad2, dtok]
  unfold parse lex
  have htime : pad2 t.hh.toNat ++ ('h' :: (pad2 t.mm.toNat ++ ('m' ::
        (pad2 t.ss.toNat ++ [if comma then ',' else '.'] ++ (pad6 t.us.toNat).take k ++ ('s' :: off.render))))) =
      dtok [t.hh.toNat / 10] ++ (digitChar t.hh.toNat :: ('h' :: (pad2 t.mm.toNat ++ ('m' ::
        (pad2 t.ss.toNat ++ [if comma then ',' else '.'] ++ (pad6 t.us.toNat).take k ++ ('s' :: off.render)))))) := by
    simp [pad2, dtok]
  have e : renderHmsFrac comma k t off = pad4 t.y.toNat ++ ['-'] ++ pad2 t.m.toNat ++ ['-'] ++ pad2 t.d.toNat ++ [' '] ++
      (dtok [t.hh.toNat / 10] ++ (digitChar t.hh.toNat :: ('h' :: (pad2 t.mm.toNat ++ ('m' ::
        (pad2 t.ss.toNat ++ [if comma then ',' else '.'] ++ (pad6 t.us.toNat).take k ++ ('s' :: off.render))))))) := by
    rw [← htime]; simp [renderHmsFrac, isoDate, List.append_assoc]
  rw [e, lex_isoDate cls _ _ _ ' ' (Or.inr rfl), ← htime,
      lex_pad2 cls _ _ (numEnds_ascii cls _ _ (by decide)),
      lex_letter cls 'h' _ (by decide) (wordEnds_num cls _ _ ⟨_, _, pad2_dtok _⟩),
      lex_pad2 cls _ _ (numEnds_ascii cls _ _ (by decide)),
      lex_letter cls 'm' _ (by decide) (by rw [hsec]; exact wordEnds_num cls _ _ ⟨_, _, rfl⟩),
      hlexF,
      lex_letter cls 's' _ (by decide) (wordEnds_off cls off hsp), lex_off]
  have := tok_theorem cls false yf year century o tznames tzi hs dflt
    (isoDateTokens t.y.toNat t.m.toNat t.d.toNat [' '] ++
      [dtok [t.hh.toNat / 10, t.hh.toNat], ['h'], dtok [t.mm.toNat / 10, t.mm.toNat], ['m'], F, ['s']]) 12 (by simp [isoDateTokens]) _ _ _ _ off hoff
    (run_hms_frac cls yf year century _ _ _ _ _ _ _ hv F hF (offTokens off) (suf2_off false yf year century off hsp))
    rfl rfl (Or.inl rfl) hfin
  rw [ey, em, ed, eh, emi, es, hcast] at this
  simpa [TimeFmt.expect, offZone, List.append_assoc] using this

end PM
