/-
  Proofs/RenderSentence.lean — C15 "fuzzy parsing of a sentence containing one date returns that date", for sentences made of
  one rendering followed by filler words: the class of filler words is DECIDABLE (`fillerWord`), the scan over any number of
  them is proved once by induction (`filler_run`), and `tpl_sentence` lifts every template whose scan is proved for an
  admissible suffix (the C02 schema) to the sentence.
-/
import DateutilVerif.Proofs.RenderPrep

namespace PM
open Py PT

/-- a filler word (decidable): ASCII letters only; not a number to `float()` (`inf`, `nan`, `infinity`); in none of the stock
    parserinfo tables the scan consults (weekday, month, h/m/s unit, AM/PM); and not shaped like a zone abbreviation (at most five
    characters, all of them upper case, or a UTC name) -/
def fillerWord (w : Token) : Bool :=
  isAlphaWord w && !floatOk asciiCls w && (stock.weekdayOf w).isNone && (stock.monthOf w).isNone &&
    (stock.hmsOf w).isNone && (stock.ampmOf w).isNone &&
    !(decide (w.length ≤ 5) && (w.all isAsciiUpper || stock.UTCZONE.contains w))

/-- the characters / tokens of ` w₁ w₂ … wₙ` (each word after one space) -/
def fillerChars (ws : List Token) : List Char := ws.flatMap (fun w => ' ' :: w)
def fillerToks (ws : List Token) : List Token := ws.flatMap (fun w => [[' '], w])

/-- the characters / tokens of `u₁ u₂ … uₙ ` (each word followed by one space) in front of the rendering -/
def leadChars (us : List Token) : List Char := us.flatMap (fun w => w ++ [' '])
def leadToks (us : List Token) : List Token := us.flatMap (fun w => [w, [' ']])

/-- what the scan needs to know about one token it is to skip -/
structure Inert (cls : Char → CClass) (info : Info) (w : Token) : Prop where
  flt : floatOk cls w = false
  wd : info.weekdayOf w = none
  mo : info.monthOf w = none
  ap : info.ampmOf w = none
  tz : ∀ h n o, couldBeTzname info h n o w = false
  pm : w ≠ ['+'] ∧ w ≠ ['-']

section
variable (cls : Char → CClass) [AsciiOK cls] (df yf : Bool) (year century : Int)
local notation "I" => Info.default df yf year century

theorem inert_sp : Inert cls (I) [' '] := by
  refine ⟨?_, by simp, by simp, by simp, ?_, by decide⟩
  · rw [floatOk_ascii cls [' '] (by decide)]; decide
  · intro h n o; simp [couldBeTzname]; intro _ _ _; tbl

theorem inert_filler (w : Token) (h : fillerWord w = true) : Inert cls (I) w := by
  simp only [fillerWord, Bool.and_eq_true, Bool.not_eq_true', Option.isNone_iff_eq_none] at h
  obtain ⟨⟨⟨⟨⟨⟨ha, hf⟩, hwd⟩, hmo⟩, hhms⟩, hap⟩, htz⟩ := h
  refine ⟨floatOk_alpha cls w ha hf, by rw [weekdayOf_stock]; exact hwd, by rw [monthOf_stock]; exact hmo,
    by rw [ampmOf_stock]; exact hap, ?_, ?_⟩
  · intro hh n o
    have hu : (I).UTCZONE = stock.UTCZONE := rfl
    simp only [couldBeTzname, hu]
    cases hl : decide (w.length ≤ 5) <;> simp_all
  · constructor <;> (rintro rfl; simp [isAlphaWord] at ha; revert ha; decide)

theorem hms_filler (w : Token) (h : fillerWord w = true) : (I).hmsOf w = none := by
  simp only [fillerWord, Bool.and_eq_true, Bool.not_eq_true', Option.isNone_iff_eq_none] at h
  rw [hmsOf_stock]; exact h.1.1.2

theorem ap_filler (w : Token) (h : fillerWord w = true) : (I).ampmOf w = none := by
  simp only [fillerWord, Bool.and_eq_true, Bool.not_eq_true', Option.isNone_iff_eq_none] at h
  rw [ampmOf_stock]; exact h.1.2

/-- one inert token in fuzzy mode: skipped, nothing else changes -/
theorem inert_step (info : Info) (pre : List Token) (w : Token) (rest : List Token) (r : Res) (y : Ymd) (sk : List Nat) (lenL : Nat)
    (hw : Inert cls info w) :
    parseStep cls info true lenL pre.length { l := pre ++ w :: rest, res := r, ymd := y, skipped := sk } =
      .ok (0, { l := pre ++ w :: rest, res := r, ymd := y, skipped := sk ++ [pre.length] }) := by
  obtain ⟨hflt, hwd, hmo, hap, htz, hp1, hp2⟩ := hw
  have hat : (pre ++ w :: rest)[pre.length]? = some w := by simp
  unfold parseStep
  simp [tokAt, hat, hflt, hwd, hmo, hap, htz, hp1, hp2, bind, Except.bind, pure, Except.pure]

/-- any number of inert tokens: all skipped, in order -/
theorem inert_run (info : Info) (lenL : Nat) (r : Res) (y : Ymd) (fs : List Token) (hfs : ∀ w ∈ fs, Inert cls info w) :
    ∀ (pre : List Token) (sk : List Nat),
    parseLoop cls info true lenL fs.length pre.length 0 { l := pre ++ fs, res := r, ymd := y, skipped := sk } =
      .ok { l := pre ++ fs, res := r, ymd := y, skipped := sk ++ List.range' pre.length fs.length } := by
  induction fs with
  | nil => intro pre sk; simp [parseLoop]
  | cons w rest ih =>
    intro pre sk
    have hw := hfs w List.mem_cons_self
    have hrest : ∀ v ∈ rest, Inert cls info v := fun v hv => hfs v (List.mem_cons_of_mem _ hv)
    show parseLoop cls info true lenL (rest.length + 1) pre.length 0 _ = _
    unfold parseLoop
    rw [inert_step cls info pre w rest r y sk lenL hw]
    have := ih hrest (pre ++ [w]) (sk ++ [pre.length])
    simp only [List.length_append, List.length_singleton, List.append_assoc, List.singleton_append] at this
    simp only [this, List.length_cons, List.range'_succ, List.append_assoc, List.singleton_append]

theorem inert_fillerToks (ws : List Token) (hws : ∀ w ∈ ws, fillerWord w = true) : ∀ v ∈ fillerToks ws, Inert cls (I) v := by
  intro v hv
  simp only [fillerToks, List.mem_flatMap, List.mem_cons, List.mem_nil_iff, or_false] at hv
  obtain ⟨w, hw, hv | hv⟩ := hv
  · subst hv; exact inert_sp cls df yf year century
  · subst hv; exact inert_filler cls df yf year century v (hws v hw)

/-- a run of inert tokens in the middle of the list: all skipped, in order, and the scan goes on behind them -/
theorem inert_seg (info : Info) (lenL : Nat) (r : Res) (y : Ymd) (fs : List Token) (hfs : ∀ w ∈ fs, Inert cls info w)
    (tail : List Token) (m : Nat) :
    ∀ (pre : List Token) (sk : List Nat),
    parseLoop cls info true lenL (fs.length + m) pre.length 0 { l := pre ++ (fs ++ tail), res := r, ymd := y, skipped := sk } =
    parseLoop cls info true lenL m (pre.length + fs.length) 0
      { l := pre ++ (fs ++ tail), res := r, ymd := y, skipped := sk ++ List.range' pre.length fs.length } := by
  induction fs with
  | nil => intro pre sk; simp
  | cons w rest ih =>
    intro pre sk
    have hw := hfs w List.mem_cons_self
    have hrest : ∀ v ∈ rest, Inert cls info v := fun v hv => hfs v (List.mem_cons_of_mem _ hv)
    have e1 : (w :: rest).length + m = (rest.length + m) + 1 := by simp only [List.length_cons]; omega
    rw [e1]
    conv => lhs; unfold parseLoop
    have hstep := inert_step cls info pre w (rest ++ tail) r y sk lenL hw
    simp only [List.cons_append] at hstep ⊢
    rw [hstep]
    have := ih hrest (pre ++ [w]) (sk ++ [pre.length])
    simp only [List.length_append, List.length_singleton, List.append_assoc, List.singleton_append] at this
    simp only [this, List.length_cons, List.range'_succ, List.append_assoc, List.singleton_append]
    congr 1
    omega

theorem inert_leadToks (us : List Token) (hus : ∀ w ∈ us, fillerWord w = true) : ∀ v ∈ leadToks us, Inert cls (I) v := by
  intro v hv
  simp only [leadToks, List.mem_flatMap, List.mem_cons, List.mem_nil_iff, or_false] at hv
  obtain ⟨w, hw, hv | hv⟩ := hv
  · subst hv; exact inert_filler cls df yf year century v (hus v hw)
  · subst hv; exact inert_sp cls df yf year century

/-- lexing the words in front, whatever follows -/
theorem lex_lead (us : List Token) (hus : ∀ w ∈ us, fillerWord w = true) (rest : List Char) :
    scan cls .init (leadChars us ++ rest) = leadToks us ++ scan cls .init rest := by
  induction us with
  | nil => simp [leadChars, leadToks]
  | cons w more ih =>
    have hw : isAlphaWord w = true := by
      have := hus w List.mem_cons_self
      simp only [fillerWord, Bool.and_eq_true] at this
      exact this.1.1.1.1.1.1
    have hmore : ∀ v ∈ more, fillerWord v = true := fun v hv => hus v (List.mem_cons_of_mem _ hv)
    have e : leadChars (w :: more) ++ rest = w ++ (' ' :: (leadChars more ++ rest)) := by simp [leadChars]
    rw [e, lex_alpha cls w _ hw (wordEnds_sp cls _), lex_sp, ih hmore]
    simp [leadToks]

/-- lexing the filler -/
theorem lex_filler (ws : List Token) (hws : ∀ w ∈ ws, fillerWord w = true) :
    scan cls .init (fillerChars ws) = fillerToks ws := by
  induction ws with
  | nil => simp [fillerChars, fillerToks, scan_init_nil]
  | cons w rest ih =>
    have hw : isAlphaWord w = true := by
      have := hws w List.mem_cons_self
      simp only [fillerWord, Bool.and_eq_true] at this
      exact this.1.1.1.1.1.1
    have hrest : ∀ v ∈ rest, fillerWord v = true := fun v hv => hws v (List.mem_cons_of_mem _ hv)
    have hends : WordEnds cls (fillerChars rest) := by
      cases rest with
      | nil => exact wordEnds_nil cls
      | cons v vs => simp only [fillerChars, List.flatMap_cons, List.cons_append]; exact wordEnds_sp cls _
    have e : fillerChars (w :: rest) = ' ' :: (w ++ fillerChars rest) := by simp [fillerChars]
    rw [e, lex_sp, lex_alpha cls w _ hw hends, ih hrest]
    simp [fillerToks]

theorem numEnds_filler (ws : List Token) : NumEnds cls (fillerChars ws) := by
  cases ws with
  | nil => exact numEnds_nil cls
  | cons v vs => simp only [fillerChars, List.flatMap_cons, List.cons_append]; exact numEnds_sp cls _

theorem wordEnds_filler (ws : List Token) : WordEnds cls (fillerChars ws) := by
  cases ws with
  | nil => exact wordEnds_nil cls
  | cons v vs => simp only [fillerChars, List.flatMap_cons, List.cons_append]; exact wordEnds_sp cls _

theorem suf1_filler (ws : List Token) : Suf1 (I) (fillerToks ws) := by
  cases ws with
  | nil => exact Or.inl rfl
  | cons v vs => exact Or.inr ⟨[' '], v :: fillerToks vs, by simp [fillerToks], by decide, by simp, by simp⟩

theorem suf2_filler (ws : List Token) (hws : ∀ w ∈ ws, fillerWord w = true) : Suf2 (I) (fillerToks ws) := by
  cases ws with
  | nil => exact Or.inl rfl
  | cons v vs =>
    have hv := hws v List.mem_cons_self
    refine Or.inr ⟨v, fillerToks vs, by simp [fillerToks], ?_, hms_filler df yf year century v hv, ap_filler df yf year century v hv⟩
    rintro rfl
    revert hv; decide
end

/-- the fuzzy parse (no token tuple asked for) once the scan has returned -/
theorem parseResult_of_loop_fuzzy (cls : Char → CClass) (info : Info) (o : Opts) (tznames : List Token) (tzi : TzInfos) (dflt : DT)
    (l : List Token) (st : PState) (hfz : o.fuzzy = true) (hfwt : o.fuzzyWithTokens = false)
    (hloop : parseLoop cls info true l.length l.length 0 0 { l := l } = .ok st) :
    parseResult cls info o tznames tzi dflt l = finishOf info o tznames tzi dflt st.ymd st.res := by
  unfold parseResult parseTokens parseTry finishOf afterValidate
  simp only [hfz, hfwt, Bool.or_false, hloop, bind, Except.bind, throw, throwThe, MonadExceptOf.throw]
  cases hr : st.ymd.resolve (o.yearfirst.getD info.yearfirst) (o.dayfirst.getD info.dayfirst) with
  | error e =>
    simp only []
    by_cases hc : caughtInParse e = true <;> simp [hc]
  | ok ymdv =>
    obtain ⟨y, m, d⟩ := ymdv
    simp only [pure, Except.pure]
    cases hv : validate info { st.res with centurySpecified := st.ymd.century, year := y, month := m, day := d } with
    | error e => simp
    | ok res2 =>
      simp only [Bool.false_eq_true, if_false]
      by_cases hlen : res2.len = 0
      · simp [hlen]
      · simp only [hlen, if_false]
        cases hb : buildNaive res2 dflt with
        | error e => cases e <;> simp
        | ok naive =>
          simp only []
          by_cases hig : o.ignoretz = true
          · simp [hig]
          · simp only [hig, if_false, Bool.false_eq_true]
            cases buildTzaware tznames tzi res2 with
            | ok z => simp
            | error e => cases e <;> simp

/-- `finishOf` does not look at the fuzzy flags -/
theorem finishOf_strict (info : Info) (o : Opts) (tznames : List Token) (tzi : TzInfos) (dflt : DT) (ymd : Ymd) (res : Res) :
    finishOf info o tznames tzi dflt ymd res =
      finishOf info { o with fuzzy := false, fuzzyWithTokens := false } tznames tzi dflt ymd res := rfl

/-- **the sentence schema**: a rendering whose token scan is proved (in fuzzy mode) for the filler behind it as suffix, followed by
    any number of filler words, parses with `fuzzy=True` to what the rendering alone parses to. -/
theorem tpl_sentence (cls : Char → CClass) [AsciiOK cls] (df yf : Bool) (year century : Int) (o : Opts) (tznames : List Token)
    (tzi : TzInfos) (hfz : o.fuzzy = true) (hfwt : o.fuzzyWithTokens = false) (dflt : DT)
    (str : List Char) (core : List Token) (n : Nat) (hn : core.length = n)
    (rC : Res) (yC : Ymd) (skC : List Nat) (dt : DT) (ws : List Token) (hws : ∀ w ∈ ws, fillerWord w = true)
    (hlex : scan cls .init (str ++ fillerChars ws) = core ++ scan cls .init (fillerChars ws))
    (hcore : parseLoop cls (Info.default df yf year century) true ((fillerToks ws).length + n) ((fillerToks ws).length + n) 0 0
        { l := core ++ fillerToks ws } =
      parseLoop cls (Info.default df yf year century) true ((fillerToks ws).length + n) (fillerToks ws).length n 0
        { l := core ++ fillerToks ws, res := rC, ymd := yC, skipped := skC })
    (hfin : finishOf (Info.default df yf year century) { o with fuzzy := false, fuzzyWithTokens := false } tznames tzi dflt yC rC =
      .ok { dt := dt, tz := .naive, tokens := none }) :
    parse cls (Info.default df yf year century) o tznames tzi dflt (str ++ fillerChars ws) =
      .ok { dt := dt, tz := .naive, tokens := none } := by
  unfold parse lex
  rw [hlex, lex_filler cls ws hws]
  have hlen : (core ++ fillerToks ws).length = (fillerToks ws).length + n := by simp [hn]; omega
  have hloop : parseLoop cls (Info.default df yf year century) true (core ++ fillerToks ws).length (core ++ fillerToks ws).length 0 0
      { l := core ++ fillerToks ws } =
      .ok { l := core ++ fillerToks ws, res := rC, ymd := yC, skipped := skC ++ List.range' core.length (fillerToks ws).length } := by
    rw [hlen, hcore, ← hn]
    exact inert_run cls _ _ rC yC (fillerToks ws) (inert_fillerToks cls df yf year century ws hws) core skC
  rw [parseResult_of_loop_fuzzy cls _ o tznames tzi dflt _ _ hfz hfwt hloop, finishOf_strict]
  exact hfin

/-- **the sentence schema, words on both sides**: at least one filler word in front (then a space), the rendering, any number of
    filler words behind: `fuzzy=True` gives what the rendering alone parses to.  `hcore` is the scan over the rendering's tokens at
    ANY position `pre.length + 1` of the token list (the generated `runp_*` lemmas). -/
theorem tpl_sentence_lead (cls : Char → CClass) [AsciiOK cls] (df yf : Bool) (year century : Int) (o : Opts) (tznames : List Token)
    (tzi : TzInfos) (hfz : o.fuzzy = true) (hfwt : o.fuzzyWithTokens = false) (dflt : DT)
    (str : List Char) (core : List Token) (n : Nat) (hn : core.length = n)
    (rC : Res) (yC : Ymd) (skC : Nat → List Nat) (dt : DT)
    (us : List Token) (u : Token) (hus : ∀ w ∈ us ++ [u], fillerWord w = true)
    (ws : List Token) (hws : ∀ w ∈ ws, fillerWord w = true)
    (hlex : scan cls .init (str ++ fillerChars ws) = core ++ scan cls .init (fillerChars ws))
    (hcore : ∀ (pre : List Token) (sk0 : List Nat),
      parseLoop cls (Info.default df yf year century) true (pre.length + ((fillerToks ws).length + (n + 1))) ((fillerToks ws).length + n)
          (pre.length + 1) 0 { l := pre ++ ([' '] :: core ++ fillerToks ws), skipped := sk0 } =
        parseLoop cls (Info.default df yf year century) true (pre.length + ((fillerToks ws).length + (n + 1))) (fillerToks ws).length
          (pre.length + (n + 1)) 0
          { l := pre ++ ([' '] :: core ++ fillerToks ws), res := rC, ymd := yC, skipped := sk0 ++ skC pre.length })
    (hfin : finishOf (Info.default df yf year century) { o with fuzzy := false, fuzzyWithTokens := false } tznames tzi dflt yC rC =
      .ok { dt := dt, tz := .naive, tokens := none }) :
    parse cls (Info.default df yf year century) o tznames tzi dflt (leadChars (us ++ [u]) ++ (str ++ fillerChars ws)) =
      .ok { dt := dt, tz := .naive, tokens := none } := by
  unfold parse lex
  rw [lex_lead cls (us ++ [u]) hus, hlex, lex_filler cls ws hws]
  have htoks : leadToks (us ++ [u]) ++ (core ++ fillerToks ws) = (leadToks us ++ [u]) ++ ([' '] :: core ++ fillerToks ws) := by
    simp [leadToks, List.flatMap_append]
  rw [htoks]
  generalize hpre : leadToks us ++ [u] = pre
  have hpi : ∀ v ∈ pre ++ [[' ']], Inert cls (Info.default df yf year century) v := by
    intro v hv
    have hmem : v ∈ leadToks (us ++ [u]) := by
      have e : leadToks (us ++ [u]) = pre ++ [[' ']] := by rw [← hpre]; simp [leadToks, List.flatMap_append]
      rw [e]; exact hv
    exact inert_leadToks cls df yf year century (us ++ [u]) hus v hmem
  have hlen : (pre ++ ([' '] :: core ++ fillerToks ws)).length = pre.length + ((fillerToks ws).length + (n + 1)) := by
    simp [hn]; omega
  have hloop : parseLoop cls (Info.default df yf year century) true (pre ++ ([' '] :: core ++ fillerToks ws)).length
      (pre ++ ([' '] :: core ++ fillerToks ws)).length 0 0 { l := pre ++ ([' '] :: core ++ fillerToks ws) } =
      .ok { l := pre ++ ([' '] :: core ++ fillerToks ws), res := rC, ymd := yC,
            skipped := (List.range' 0 (pre.length + 1) ++ skC pre.length) ++
              List.range' (pre.length + (n + 1)) (fillerToks ws).length } := by
    -- (1) the words in front and the space
    have s1 := inert_seg cls (Info.default df yf year century) (pre.length + ((fillerToks ws).length + (n + 1))) {} {}
      (pre ++ [[' ']]) hpi (core ++ fillerToks ws) ((fillerToks ws).length + n) [] []
    simp only [List.length_append, List.length_singleton, List.length_nil, List.nil_append, Nat.zero_add, List.append_assoc,
      List.singleton_append] at s1
    have main : ∀ fuel, fuel = pre.length + 1 + ((fillerToks ws).length + n) →
        parseLoop cls (Info.default df yf year century) true (pre.length + ((fillerToks ws).length + (n + 1))) fuel 0 0
          { l := pre ++ ([' '] :: core ++ fillerToks ws) } =
        .ok { l := pre ++ ([' '] :: core ++ fillerToks ws), res := rC, ymd := yC,
              skipped := (List.range' 0 (pre.length + 1) ++ skC pre.length) ++
                List.range' (pre.length + (n + 1)) (fillerToks ws).length } := by
      intro fuel hf
      subst hf
      simp only [List.cons_append, List.append_assoc, List.nil_append] at s1 ⊢
      rw [s1]
      -- (2) the rendering, (3) the words behind
      have hc := hcore pre (List.range' 0 (pre.length + 1))
      simp only [List.cons_append, List.append_assoc] at hc
      rw [hc]
      have s3 := inert_seg cls (Info.default df yf year century) (pre.length + ((fillerToks ws).length + (n + 1))) rC yC
        (fillerToks ws) (inert_fillerToks cls df yf year century ws hws) [] 0 (pre ++ [' '] :: core)
        (List.range' 0 (pre.length + 1) ++ skC pre.length)
      simp only [List.append_nil, Nat.add_zero, List.length_append, List.length_cons, hn, List.append_assoc, List.cons_append] at s3
      rw [s3]
      simp [parseLoop]
    rw [hlen]
    exact main _ (by omega)
  rw [parseResult_of_loop_fuzzy cls _ o tznames tzi dflt _ _ hfz hfwt hloop, finishOf_strict]
  exact hfin

end PM
