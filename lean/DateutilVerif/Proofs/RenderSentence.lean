/-
  Proofs/RenderSentence.lean — C15 "fuzzy parsing of a sentence containing one date returns that date", for sentences made of
  one rendering followed by filler words: the class of filler words is DECIDABLE (`fillerWord`), the scan over any number of
  them is proved once by induction (`filler_run`), and `tpl_sentence` lifts every template whose scan is proved for an
  admissible suffix (the C02 schema) to the sentence.
-/
import DateutilVerif.Proofs.RenderPrep

namespace PM
open Py PT

/-- what the scan needs to know about one token it is to skip -/
structure Inert (cls : Char → CClass) (info : Info) (w : Token) : Prop where
  flt : floatOk cls w = false
  wd : info.weekdayOf w = none
  mo : info.monthOf w = none
  ap : info.ampmOf w = none
  tz : ∀ h n o, couldBeTzname info h n o w = false
  pm : w ≠ ['+'] ∧ w ≠ ['-']

section
variable (cls : Char → CClass) [AsciiOK cls] (df yf : Bool) (year century : Int)
local notation "I" => Info.default df yf year century

theorem inert_sp : Inert cls (I) [' '] := by
  refine ⟨?_, by simp, by simp, by simp, ?_, by decide⟩
  · rw [floatOk_ascii cls [' '] (by decide)]; decide
  · intro h n o; simp [couldBeTzname]; intro _ _ _; tbl

theorem inert_filler (w : Token) (h : fillerWord w = true) : Inert cls (I) w := by
  simp only [fillerWord, Bool.and_eq_true, Bool.not_eq_true', Option.isNone_iff_eq_none] at h
  obtain ⟨⟨⟨⟨⟨⟨ha, hf⟩, hwd⟩, hmo⟩, hhms⟩, hap⟩, htz⟩ := h
  refine ⟨floatOk_alpha cls w ha hf, by rw [weekdayOf_stock]; exact hwd, by rw [monthOf_stock]; exact hmo,
    by rw [ampmOf_stock]; exact hap, ?_, ?_⟩
  · intro hh n o
    have hu : (I).UTCZONE = stock.UTCZONE := rfl
    simp only [couldBeTzname, hu]
    cases hl : decide (w.length ≤ 5) <;> simp_all
  · constructor <;> (rintro rfl; simp [isAlphaWord] at ha; revert ha; decide)

theorem hms_filler (w : Token) (h : fillerWord w = true) : (I).hmsOf w = none := by
  simp only [fillerWord, Bool.and_eq_true, Bool.not_eq_true', Option.isNone_iff_eq_none] at h
  rw [hmsOf_stock]; exact h.1.1.2

theorem ap_filler (w : Token) (h : fillerWord w = true) : (I).ampmOf w = none := by
  simp only [fillerWord, Bool.and_eq_true, Bool.not_eq_true', Option.isNone_iff_eq_none] at h
  rw [ampmOf_stock]; exact h.1.2

/-- one inert token in fuzzy mode: skipped, nothing else changes -/
theorem inert_step (info : Info) (pre : List Token) (w : Token) (rest : List Token) (r : Res) (y : Ymd) (sk : List Nat) (lenL : Nat)
    (hw : Inert cls info w) :
    parseStep cls info true lenL pre.length { l := pre ++ w :: rest, res := r, ymd := y, skipped := sk } =
      .ok (0, { l := pre ++ w :: rest, res := r, ymd := y, skipped := sk ++ [pre.length] }) := by
  obtain ⟨hflt, hwd, hmo, hap, htz, hp1, hp2⟩ := hw
  have hat : (pre ++ w :: rest)[pre.length]? = some w := by simp
  unfold parseStep
  simp [tokAt, hat, hflt, hwd, hmo, hap, htz, hp1, hp2, bind, Except.bind, pure, Except.pure]

/-- any number of inert tokens: all skipped, in order -/
theorem inert_run (info : Info) (lenL : Nat) (r : Res) (y : Ymd) (fs : List Token) (hfs : ∀ w ∈ fs, Inert cls info w) :
    ∀ (pre : List Token) (sk : List Nat),
    parseLoop cls info true lenL fs.length pre.length 0 { l := pre ++ fs, res := r, ymd := y, skipped := sk } =
      .ok { l := pre ++ fs, res := r, ymd := y, skipped := sk ++ List.range' pre.length fs.length } := by
  induction fs with
  | nil => intro pre sk; simp [parseLoop]
  | cons w rest ih =>
    intro pre sk
    have hw := hfs w List.mem_cons_self
    have hrest : ∀ v ∈ rest, Inert cls info v := fun v hv => hfs v (List.mem_cons_of_mem _ hv)
    show parseLoop cls info true lenL (rest.length + 1) pre.length 0 _ = _
    unfold parseLoop
    rw [inert_step cls info pre w rest r y sk lenL hw]
    have := ih hrest (pre ++ [w]) (sk ++ [pre.length])
    simp only [List.length_append, List.length_singleton, List.append_assoc, List.singleton_append] at this
    simp only [this, List.length_cons, List.range'_succ, List.append_assoc, List.singleton_append]

theorem inert_fillerToks (ws : List Token) (hws : ∀ w ∈ ws, fillerWord w = true) : ∀ v ∈ fillerToks ws, Inert cls (I) v := by
  intro v hv
  simp only [fillerToks, List.mem_flatMap, List.mem_cons, List.mem_nil_iff, or_false] at hv
  obtain ⟨w, hw, hv | hv⟩ := hv
  · subst hv; exact inert_sp cls df yf year century
  · subst hv; exact inert_filler cls df yf year century v (hws v hw)

/-- a run of inert tokens in the middle of the list: all skipped, in order, and the scan goes on behind them -/
theorem inert_seg (info : Info) (lenL : Nat) (r : Res) (y : Ymd) (fs : List Token) (hfs : ∀ w ∈ fs, Inert cls info w)
    (tail : List Token) (m : Nat) :
    ∀ (pre : List Token) (sk : List Nat),
    parseLoop cls info true lenL (fs.length + m) pre.length 0 { l := pre ++ (fs ++ tail), res := r, ymd := y, skipped := sk } =
    parseLoop cls info true lenL m (pre.length + fs.length) 0
      { l := pre ++ (fs ++ tail), res := r, ymd := y, skipped := sk ++ List.range' pre.length fs.length } := by
  induction fs with
  | nil => intro pre sk; simp
  | cons w rest ih =>
    intro pre sk
    have hw := hfs w List.mem_cons_self
    have hrest : ∀ v ∈ rest, Inert cls info v := fun v hv => hfs v (List.mem_cons_of_mem _ hv)
    have e1 : (w :: rest).length + m = (rest.length + m) + 1 := by simp only [List.length_cons]; omega
    rw [e1]
    conv => lhs; unfold parseLoop
    have hstep := inert_step cls info pre w (rest ++ tail) r y sk lenL hw
    simp only [List.cons_append] at hstep ⊢
    rw [hstep]
    have := ih hrest (pre ++ [w]) (sk ++ [pre.length])
    simp only [List.length_append, List.length_singleton, List.append_assoc, List.singleton_append] at this
    simp only [this, List.length_cons, List.range'_succ, List.append_assoc, List.singleton_append]
    congr 1
    omega

theorem inert_leadToks (us : List Token) (hus : ∀ w ∈ us, fillerWord w = true) : ∀ v ∈ leadToks us, Inert cls (I) v := by
  intro v hv
  simp only [leadToks, List.mem_flatMap, List.mem_cons, List.mem_nil_iff, or_false] at hv
  obtain ⟨w, hw, hv | hv⟩ := hv
  · subst hv; exact inert_filler cls df yf year century v (hus v hw)
  · subst hv; exact inert_sp cls df yf year century

/-- lexing the words in front, whatever follows -/
theorem lex_lead (us : List Token) (hus : ∀ w ∈ us, fillerWord w = true) (rest : List Char) :
    scan cls .init (leadChars us ++ rest) = leadToks us ++ scan cls .init rest := by
  induction us with
  | nil => simp [leadChars, leadToks]
  | cons w more ih =>
    have hw : isAlphaWord w = true := by
      have := hus w List.mem_cons_self
      simp only [fillerWord, Bool.and_eq_true] at this
      exact this.1.1.1.1.1.1
    have hmore : ∀ v ∈ more, fillerWord v = true := fun v hv => hus v (List.mem_cons_of_mem _ hv)
    have e : leadChars (w :: more) ++ rest = w ++ (' ' :: (leadChars more ++ rest)) := by simp [leadChars]
    rw [e, lex_alpha cls w _ hw (wordEnds_sp cls _), lex_sp, ih hmore]
    simp [leadToks]

/-- lexing the filler -/
theorem lex_filler (ws : List Token) (hws : ∀ w ∈ ws, fillerWord w = true) :
    scan cls .init (fillerChars ws) = fillerToks ws := by
  induction ws with
  | nil => simp [fillerChars, fillerToks, scan_init_nil]
  | cons w rest ih =>
    have hw : isAlphaWord w = true := by
      have := hws w List.mem_cons_self
      simp only [fillerWord, Bool.and_eq_true] at this
      exact this.1.1.1.1.1.1
    have hrest : ∀ v ∈ rest, fillerWord v = true := fun v hv => hws v (List.mem_cons_of_mem _ hv)
    have hends : WordEnds cls (fillerChars rest) := by
      cases rest with
      | nil => exact wordEnds_nil cls
      | cons v vs => simp only [fillerChars, List.flatMap_cons, List.cons_append]; exact wordEnds_sp cls _
    have e : fillerChars (w :: rest) = ' ' :: (w ++ fillerChars rest) := by simp [fillerChars]
    rw [e, lex_sp, lex_alpha cls w _ hw hends, ih hrest]
    simp [fillerToks]

theorem numEnds_filler (ws : List Token) : NumEnds cls (fillerChars ws) := by
  cases ws with
  | nil => exact numEnds_nil cls
  | cons v vs => simp only [fillerChars, List.flatMap_cons, List.cons_append]; exact numEnds_sp cls _

theorem wordEnds_filler (ws : List Token) : WordEnds cls (fillerChars ws) := by
  cases ws with
  | nil => exact wordEnds_nil cls
  | cons v vs => simp only [fillerChars, List.flatMap_cons, List.cons_append]; exact wordEnds_sp cls _

theorem suf1_filler (ws : List Token) : Suf1 (I) (fillerToks ws) := by
  cases ws with
  | nil => exact Or.inl rfl
  | cons v vs => exact Or.inr ⟨[' '], v :: fillerToks vs, by simp [fillerToks], by decide, by simp, by simp⟩

theorem suf2_filler (ws : List Token) (hws : ∀ w ∈ ws, fillerWord w = true) : Suf2 (I) (fillerToks ws) := by
  cases ws with
  | nil => exact Or.inl rfl
  | cons v vs =>
    have hv := hws v List.mem_cons_self
    refine Or.inr ⟨v, fillerToks vs, by simp [fillerToks], ?_, hms_filler df yf year century v hv, ap_filler df yf year century v hv⟩
    rintro rfl
    revert hv; decide
end

/-- the fuzzy parse (no token tuple asked for) once the scan has returned -/
theorem parseResult_of_loop_fuzzy (cls : Char → CClass) (info : Info) (o : Opts) (tznames : List Token) (tzi : TzInfos) (dflt : DT)
    (l : List Token) (st : PState) (hfz : o.fuzzy = true) (hfwt : o.fuzzyWithTokens = false)
    (hloop : parseLoop cls info true l.length l.length 0 0 { l := l } = .ok st) :
    parseResult cls info o tznames tzi dflt l = finishOf info o tznames tzi dflt st.ymd st.res := by
  unfold parseResult parseTokens parseTry finishOf afterValidate
  simp only [hfz, hfwt, Bool.or_false, hloop, bind, Except.bind, throw, throwThe, MonadExceptOf.throw]
  cases hr : st.ymd.resolve (o.yearfirst.getD info.yearfirst) (o.dayfirst.getD info.dayfirst) with
  | error e =>
    simp only []
    by_cases hc : caughtInParse e = true <;> simp [hc]
  | ok ymdv =>
    obtain ⟨y, m, d⟩ := ymdv
    simp only [pure, Except.pure]
    cases hv : validate info { st.res with centurySpecified := st.ymd.century, year := y, month := m, day := d } with
    | error e => simp
    | ok res2 =>
      simp only [Bool.false_eq_true, if_false]
      by_cases hlen : res2.len = 0
      · simp [hlen]
      · simp only [hlen, if_false]
        cases hb : buildNaive res2 dflt with
        | error e => cases e <;> simp
        | ok naive =>
          simp only []
          by_cases hig : o.ignoretz = true
          · simp [hig]
          · simp only [hig, if_false, Bool.false_eq_true]
            cases buildTzaware tznames tzi res2 with
            | ok z => simp
            | error e => cases e <;> simp

/-- `_recombine_skipped` never fails on indices of the token list -/
theorem recombine_go_ok (tokens : List Token) (skipped : List Nat) :
    ∀ (rest : List Nat) (i : Nat) (acc : List Token), (∀ k ∈ rest, k < tokens.length) → (i > 0 → acc ≠ []) →
      ∃ r, recombineSkipped.go tokens skipped rest i acc = .ok r := by
  intro rest
  induction rest with
  | nil => intro i acc _ _; exact ⟨acc, by simp [recombineSkipped.go]⟩
  | cons idx rest ih =>
    intro i acc hr hacc
    have hidx : idx < tokens.length := hr idx List.mem_cons_self
    have hrest : ∀ k ∈ rest, k < tokens.length := fun k hk => hr k (List.mem_cons_of_mem _ hk)
    have ht : tokAt tokens idx = .ok tokens[idx] := by simp [tokAt, hidx]
    simp only [recombineSkipped.go, ht, bind, Except.bind]
    by_cases hc : i > 0 ∧ (skipped[i - 1]?).map (· + 1) = some idx
    · simp only [hc, and_self, if_true]
      have hne := hacc hc.1
      cases hrev : acc.reverse with
      | nil => simp at hrev; exact absurd hrev hne
      | cons last revInit => exact ih (i + 1) _ hrest (fun _ => by simp)
    · simp only [hc, if_false]
      exact ih (i + 1) _ hrest (fun _ => by simp)

theorem recombine_ok (tokens : List Token) (skipped : List Nat) (h : ∀ k ∈ skipped, k < tokens.length) :
    ∃ r, recombineSkipped tokens skipped = .ok r := by
  unfold recombineSkipped
  exact recombine_go_ok tokens skipped _ 0 [] (fun k hk => h k ((List.mergeSort_perm skipped _).mem_iff.mp hk)) (by simp)

/-- the fuzzy parse with the token tuple, once the scan has returned and the skipped tokens are recombined -/
theorem parseResult_of_loop_fwt (cls : Char → CClass) (info : Info) (o : Opts) (tznames : List Token) (tzi : TzInfos) (dflt : DT)
    (l : List Token) (st : PState) (hfwt : o.fuzzyWithTokens = true)
    (hloop : parseLoop cls info true l.length l.length 0 0 { l := l } = .ok st)
    (toks : List Token) (hre : recombineSkipped st.l st.skipped = .ok toks) (dt : DT) (tz : TzDescr)
    (hfin : finishOf info o tznames tzi dflt st.ymd st.res = .ok { dt := dt, tz := tz, tokens := none }) :
    parseResult cls info o tznames tzi dflt l = .ok { dt := dt, tz := tz, tokens := some toks } := by
  unfold finishOf afterValidate at hfin
  unfold parseResult parseTokens parseTry
  simp only [hfwt, Bool.or_true, hloop, bind, Except.bind, throw, throwThe, MonadExceptOf.throw]
  cases hr : st.ymd.resolve (o.yearfirst.getD info.yearfirst) (o.dayfirst.getD info.dayfirst) with
  | error e =>
    simp only [hr] at hfin
    by_cases hc : caughtInParse e = true <;> simp [hc] at hfin
  | ok ymdv =>
    obtain ⟨y, m, d⟩ := ymdv
    simp only [hr] at hfin
    simp only [pure, Except.pure]
    cases hv : validate info { st.res with centurySpecified := st.ymd.century, year := y, month := m, day := d } with
    | error e => simp [hv] at hfin
    | ok res2 =>
      simp only [hv] at hfin
      simp only [if_true, hre]
      by_cases hlen : res2.len = 0
      · simp [hlen] at hfin
      · simp only [hlen, if_false] at hfin ⊢
        cases hb : buildNaive res2 dflt with
        | error e => cases e <;> simp [hb] at hfin
        | ok naive =>
          simp only [hb] at hfin ⊢
          by_cases hig : o.ignoretz = true
          · simp only [hig, if_true] at hfin ⊢
            injection hfin with hfin
            injection hfin with h1 h2 h3
            simp [h1, h2]
          · simp only [hig, if_false, Bool.false_eq_true] at hfin ⊢
            cases hz : buildTzaware tznames tzi res2 with
            | error e => cases e <;> simp [hz] at hfin
            | ok z =>
              simp only [hz] at hfin ⊢
              injection hfin with hfin
              injection hfin with h1 h2 h3
              simp [h1, h2]

theorem nil_or_snoc {α} (l : List α) : l = [] ∨ ∃ us u, l = us ++ [u] := by
  cases h : l.reverse with
  | nil => left; simpa using h
  | cons u r =>
    right
    refine ⟨r.reverse, u, ?_⟩
    have := congrArg List.reverse h
    simpa using this

/-- **the answer for a sentence**: `parse` returns the datetime `dt` (naive), and — when `fuzzy_with_tokens` is asked for — the token
    tuple `toks`, which is `_recombine_skipped` of a list of skipped indices that contains EVERY token in front of position `a` and
    EVERY token from position `b` on (the words around the rendering, which occupies positions `a … b-1`) -/
def SentenceAnswer (cls : Char → CClass) (info : Info) (o : Opts) (tznames : List Token) (tzi : TzInfos) (dflt : DT)
    (text : List Char) (dt : DT) (a b : Nat) : Prop :=
  ∃ (toks : List Token) (sk : List Nat), recombineSkipped (lex cls text) sk = .ok toks ∧
    (∀ i, (i < a ∨ (b ≤ i ∧ i < (lex cls text).length)) → i ∈ sk) ∧
    parse cls info o tznames tzi dflt text = .ok { dt := dt, tz := .naive, tokens := if o.fuzzyWithTokens then some toks else none }

/-- `finishOf` does not look at the fuzzy flags -/
theorem finishOf_strict (info : Info) (o : Opts) (tznames : List Token) (tzi : TzInfos) (dflt : DT) (ymd : Ymd) (res : Res) :
    finishOf info o tznames tzi dflt ymd res =
      finishOf info { o with fuzzy := false, fuzzyWithTokens := false } tznames tzi dflt ymd res := rfl

/-- **the sentence schema**: a rendering whose token scan is proved (in fuzzy mode) for the filler behind it as suffix, followed by
    any number of filler words, parses with `fuzzy=True` or `fuzzy_with_tokens=True` to what the rendering alone parses to; the
    token tuple is `_recombine_skipped` of the skipped indices — the rendering's own separators `skC` and EVERY filler token. -/
theorem tpl_sentence (cls : Char → CClass) [AsciiOK cls] (df yf : Bool) (year century : Int) (o : Opts) (tznames : List Token)
    (tzi : TzInfos) (hf : (o.fuzzy || o.fuzzyWithTokens) = true) (dflt : DT)
    (str : List Char) (core : List Token) (n : Nat) (hn : core.length = n)
    (rC : Res) (yC : Ymd) (skC : List Nat) (hsk : ∀ k ∈ skC, k < n) (dt : DT) (ws : List Token) (hws : ∀ w ∈ ws, fillerWord w = true)
    (hlex : scan cls .init (str ++ fillerChars ws) = core ++ scan cls .init (fillerChars ws))
    (hcore : parseLoop cls (Info.default df yf year century) true ((fillerToks ws).length + n) ((fillerToks ws).length + n) 0 0
        { l := core ++ fillerToks ws } =
      parseLoop cls (Info.default df yf year century) true ((fillerToks ws).length + n) (fillerToks ws).length n 0
        { l := core ++ fillerToks ws, res := rC, ymd := yC, skipped := skC })
    (hfin : finishOf (Info.default df yf year century) { o with fuzzy := false, fuzzyWithTokens := false } tznames tzi dflt yC rC =
      .ok { dt := dt, tz := .naive, tokens := none }) :
    SentenceAnswer cls (Info.default df yf year century) o tznames tzi dflt (str ++ fillerChars ws) dt 0 n := by
  have hlexall : lex cls (str ++ fillerChars ws) = core ++ fillerToks ws := by
    unfold lex; rw [hlex, lex_filler cls ws hws]
  unfold SentenceAnswer parse
  rw [hlexall]
  have hlen : (core ++ fillerToks ws).length = (fillerToks ws).length + n := by simp [hn]; omega
  have hloop : parseLoop cls (Info.default df yf year century) true (core ++ fillerToks ws).length (core ++ fillerToks ws).length 0 0
      { l := core ++ fillerToks ws } =
      .ok { l := core ++ fillerToks ws, res := rC, ymd := yC, skipped := skC ++ List.range' n (fillerToks ws).length } := by
    rw [hlen, hcore, ← hn]
    exact inert_run cls _ _ rC yC (fillerToks ws) (inert_fillerToks cls df yf year century ws hws) core skC
  obtain ⟨toks, hre⟩ := recombine_ok (core ++ fillerToks ws) (skC ++ List.range' n (fillerToks ws).length) (by
    intro k hk
    rw [hlen]
    rcases List.mem_append.mp hk with h | h
    · have := hsk k h; omega
    · have := List.mem_range'_1.mp h; omega)
  refine ⟨toks, _, hre, ?_, ?_⟩
  · intro i hi
    rcases hi with hi | ⟨h1, h2⟩
    · omega
    · rw [hlen] at h2
      exact List.mem_append_right _ (List.mem_range'_1.mpr ⟨h1, by omega⟩)
  by_cases hfwt : o.fuzzyWithTokens = true
  · rw [parseResult_of_loop_fwt cls _ o tznames tzi dflt _ _ hfwt hloop toks hre dt .naive (by rw [finishOf_strict]; exact hfin)]
    simp [hfwt]
  · have hfz : o.fuzzy = true := by
      cases h1 : o.fuzzy <;> cases h2 : o.fuzzyWithTokens <;> simp_all
    have hfwt' : o.fuzzyWithTokens = false := by simpa using hfwt
    rw [parseResult_of_loop_fuzzy cls _ o tznames tzi dflt _ _ hfz hfwt' hloop, finishOf_strict, hfin]
    simp [hfwt']

/-- **the sentence schema, words on both sides**: at least one filler word in front (then a space), the rendering, any number of
    filler words behind: `fuzzy=True` / `fuzzy_with_tokens=True` give what the rendering alone parses to, and the token tuple is
    `_recombine_skipped` of: every token in front, the rendering's own separators, every token behind.  `hcore` is the scan over the
    rendering's tokens at ANY position `pre.length + 1` of the token list (the generated `runp_*` lemmas). -/
theorem tpl_sentence_lead (cls : Char → CClass) [AsciiOK cls] (df yf : Bool) (year century : Int) (o : Opts) (tznames : List Token)
    (tzi : TzInfos) (hf : (o.fuzzy || o.fuzzyWithTokens) = true) (dflt : DT)
    (str : List Char) (core : List Token) (n : Nat) (hn : core.length = n)
    (rC : Res) (yC : Ymd) (skC : Nat → List Nat) (hsk : ∀ p, ∀ k ∈ skC p, k < p + (n + 1)) (dt : DT)
    (us : List Token) (u : Token) (hus : ∀ w ∈ us ++ [u], fillerWord w = true)
    (ws : List Token) (hws : ∀ w ∈ ws, fillerWord w = true)
    (hlex : scan cls .init (str ++ fillerChars ws) = core ++ scan cls .init (fillerChars ws))
    (hcore : ∀ (pre : List Token) (sk0 : List Nat),
      parseLoop cls (Info.default df yf year century) true (pre.length + ((fillerToks ws).length + (n + 1))) ((fillerToks ws).length + n)
          (pre.length + 1) 0 { l := pre ++ ([' '] :: core ++ fillerToks ws), skipped := sk0 } =
        parseLoop cls (Info.default df yf year century) true (pre.length + ((fillerToks ws).length + (n + 1))) (fillerToks ws).length
          (pre.length + (n + 1)) 0
          { l := pre ++ ([' '] :: core ++ fillerToks ws), res := rC, ymd := yC, skipped := sk0 ++ skC pre.length })
    (hfin : finishOf (Info.default df yf year century) { o with fuzzy := false, fuzzyWithTokens := false } tznames tzi dflt yC rC =
      .ok { dt := dt, tz := .naive, tokens := none }) :
    SentenceAnswer cls (Info.default df yf year century) o tznames tzi dflt (leadChars (us ++ [u]) ++ (str ++ fillerChars ws)) dt
      (leadToks (us ++ [u])).length ((leadToks (us ++ [u])).length + n) := by
  have htoks : leadToks (us ++ [u]) ++ (core ++ fillerToks ws) = (leadToks us ++ [u]) ++ ([' '] :: core ++ fillerToks ws) := by
    simp [leadToks, List.flatMap_append]
  have hlexall : lex cls (leadChars (us ++ [u]) ++ (str ++ fillerChars ws)) = (leadToks us ++ [u]) ++ ([' '] :: core ++ fillerToks ws) := by
    unfold lex; rw [lex_lead cls (us ++ [u]) hus, hlex, lex_filler cls ws hws, htoks]
  have hleadlen : (leadToks (us ++ [u])).length = (leadToks us ++ [u]).length + 1 := by
    simp [leadToks, List.flatMap_append]
  unfold SentenceAnswer parse
  rw [hlexall, hleadlen]
  generalize hpre : leadToks us ++ [u] = pre
  have hpi : ∀ v ∈ pre ++ [[' ']], Inert cls (Info.default df yf year century) v := by
    intro v hv
    have hmem : v ∈ leadToks (us ++ [u]) := by
      have e : leadToks (us ++ [u]) = pre ++ [[' ']] := by rw [← hpre]; simp [leadToks, List.flatMap_append]
      rw [e]; exact hv
    exact inert_leadToks cls df yf year century (us ++ [u]) hus v hmem
  have hlen : (pre ++ ([' '] :: core ++ fillerToks ws)).length = pre.length + ((fillerToks ws).length + (n + 1)) := by
    simp [hn]; omega
  have hloop : parseLoop cls (Info.default df yf year century) true (pre ++ ([' '] :: core ++ fillerToks ws)).length
      (pre ++ ([' '] :: core ++ fillerToks ws)).length 0 0 { l := pre ++ ([' '] :: core ++ fillerToks ws) } =
      .ok { l := pre ++ ([' '] :: core ++ fillerToks ws), res := rC, ymd := yC,
            skipped := (List.range' 0 (pre.length + 1) ++ skC pre.length) ++
              List.range' (pre.length + (n + 1)) (fillerToks ws).length } := by
    -- (1) the words in front and the space
    have s1 := inert_seg cls (Info.default df yf year century) (pre.length + ((fillerToks ws).length + (n + 1))) {} {}
      (pre ++ [[' ']]) hpi (core ++ fillerToks ws) ((fillerToks ws).length + n) [] []
    simp only [List.length_append, List.length_singleton, List.length_nil, List.nil_append, Nat.zero_add, List.append_assoc,
      List.singleton_append] at s1
    have main : ∀ fuel, fuel = pre.length + 1 + ((fillerToks ws).length + n) →
        parseLoop cls (Info.default df yf year century) true (pre.length + ((fillerToks ws).length + (n + 1))) fuel 0 0
          { l := pre ++ ([' '] :: core ++ fillerToks ws) } =
        .ok { l := pre ++ ([' '] :: core ++ fillerToks ws), res := rC, ymd := yC,
              skipped := (List.range' 0 (pre.length + 1) ++ skC pre.length) ++
                List.range' (pre.length + (n + 1)) (fillerToks ws).length } := by
      intro fuel hfu
      subst hfu
      simp only [List.cons_append, List.append_assoc, List.nil_append] at s1 ⊢
      rw [s1]
      -- (2) the rendering, (3) the words behind
      have hc := hcore pre (List.range' 0 (pre.length + 1))
      simp only [List.cons_append, List.append_assoc] at hc
      rw [hc]
      have s3 := inert_seg cls (Info.default df yf year century) (pre.length + ((fillerToks ws).length + (n + 1))) rC yC
        (fillerToks ws) (inert_fillerToks cls df yf year century ws hws) [] 0 (pre ++ [' '] :: core)
        (List.range' 0 (pre.length + 1) ++ skC pre.length)
      simp only [List.append_nil, Nat.add_zero, List.length_append, List.length_cons, hn, List.append_assoc, List.cons_append] at s3
      rw [s3]
      simp [parseLoop]
    rw [hlen]
    exact main _ (by omega)
  obtain ⟨toks, hre⟩ := recombine_ok (pre ++ ([' '] :: core ++ fillerToks ws))
    ((List.range' 0 (pre.length + 1) ++ skC pre.length) ++ List.range' (pre.length + (n + 1)) (fillerToks ws).length) (by
    intro k hk
    rw [hlen]
    rcases List.mem_append.mp hk with h | h
    · rcases List.mem_append.mp h with h | h
      · have := List.mem_range'_1.mp h; omega
      · have := hsk pre.length k h; omega
    · have := List.mem_range'_1.mp h; omega)
  refine ⟨toks, _, hre, ?_, ?_⟩
  · intro i hi
    rcases hi with hi | ⟨h1, h2⟩
    · exact List.mem_append_left _ (List.mem_append_left _ (List.mem_range'_1.mpr ⟨by omega, by omega⟩))
    · rw [hlen] at h2
      exact List.mem_append_right _ (List.mem_range'_1.mpr ⟨by omega, by omega⟩)
  by_cases hfwt : o.fuzzyWithTokens = true
  · rw [parseResult_of_loop_fwt cls _ o tznames tzi dflt _ _ hfwt hloop toks hre dt .naive (by rw [finishOf_strict]; exact hfin)]
    simp [hfwt]
  · have hfz : o.fuzzy = true := by
      cases h1 : o.fuzzy <;> cases h2 : o.fuzzyWithTokens <;> simp_all
    have hfwt' : o.fuzzyWithTokens = false := by simpa using hfwt
    rw [parseResult_of_loop_fuzzy cls _ o tznames tzi dflt _ _ hfz hfwt' hloop, finishOf_strict, hfin]
    simp [hfwt']

end PM
