/-
  Proofs/RRuleSecondlyLoop.lean — the SECONDLY reachability loop (rrule.py 994-1015) with BYHOUR and / or BYMINUTE and
  no BYSECOND, beyond its first pass: started at second-of-day `W = hour·3600 + minute·60 + second`, it visits the grid
  seconds `W + t·interval` (t = 1, 2, …) and stops at the LEAST `t` whose hour and minute are both listed, provided one
  occurs within the fuel.  (The loop carries into the hour only when the minute carries; with `0 ≤ hour ≤ 23` that is
  plain mixed-radix arithmetic.)
-/
import DateutilVerif.Proofs.RRuleSecondly
import DateutilVerif.Proofs.RRuleMinutelyLoop

namespace RRule
open Cal

/-- the loop's acceptance test on the second-of-day count `V` (any number of days carried), BYSECOND absent -/
def okS (r : Rule) (V : Int) : Bool :=
  (!(truthy r.byhour) || memO (V / 3600 % 24) r.byhour) && (!(truthy r.byminute) || memO (V / 60 % 60) r.byminute)

theorem okS_shift (r : Rule) (V c : Int) : okS r (V - 86400 * c) = okS r V := by
  unfold okS
  have e1 : (V - 86400 * c) / 3600 % 24 = V / 3600 % 24 := by omega
  have e2 : (V - 86400 * c) / 60 % 60 = V / 60 % 60 := by omega
  rw [e1, e2]

/-- one pass of the loop, as mixed-radix arithmetic on the second-of-day count -/
theorem secondlyLoop_succ (r : Rule) (hbs : r.bysecond = none) (n : Nat) (second minute hour day : Int) (fx : Bool)
    (h0 : 0 ≤ hour) (h23 : hour ≤ 23) (V : Int) (hV : V = hour * 3600 + minute * 60 + second + r.interval) :
    secondlyLoop r (n + 1) second minute hour day fx =
      if okS r V = true then
        .ok (V % 60, V / 60 % 60, V / 3600 % 24, (if V / 86400 ≠ 0 then day + V / 86400 else day),
          (if V / 86400 ≠ 0 then true else fx))
      else secondlyLoop r n (V % 60) (V / 60 % 60) (V / 3600 % 24) (if V / 86400 ≠ 0 then day + V / 86400 else day)
          (if V / 86400 ≠ 0 then true else fx) := by
  have htn : truthy (none : Option (List Int)) = false := rfl
  obtain ⟨nm, hnm⟩ : ∃ nm, nm = (second + r.interval) / 60 := ⟨_, rfl⟩
  obtain ⟨se', hse'⟩ : ∃ se', se' = (second + r.interval) % 60 := ⟨_, rfl⟩
  obtain ⟨nh, hnh⟩ : ∃ nh, nh = (minute + nm) / 60 := ⟨_, rfl⟩
  obtain ⟨mi', hmi'⟩ : ∃ mi', mi' = (minute + nm) % 60 := ⟨_, rfl⟩
  obtain ⟨nd, hnd⟩ : ∃ nd, nd = (hour + nh) / 24 := ⟨_, rfl⟩
  obtain ⟨hr', hhr'⟩ : ∃ hr', hr' = (hour + nh) % 24 := ⟨_, rfl⟩
  have a1 : V % 60 = se' := by omega
  have a2 : V / 60 % 60 = mi' := by omega
  have a3 : V / 3600 % 24 = hr' := by omega
  have a4 : V / 86400 = nd := by omega
  unfold okS
  rw [a1, a2, a3, a4]
  conv => lhs; unfold secondlyLoop
  rw [hbs, htn]
  simp only [Bool.false_eq_true, ↓reduceIte, Py.divmod, Py.fdiv_pos _ (by decide : (0 : Int) < 24),
    Py.fmod_pos _ (by decide : (0 : Int) < 24), Py.fdiv_pos _ (by decide : (0 : Int) < 60),
    Py.fmod_pos _ (by decide : (0 : Int) < 60), Bool.not_false, Bool.true_or, Bool.and_true]
  rw [← hnm, ← hse', ← hnh, ← hmi']
  by_cases hz0 : nh = 0
  · have hnd0 : nd = 0 := by omega
    have hhr0 : hr' = hour := by omega
    subst hnd0
    rw [hhr0]
    simp [hz0]
  · simp only [ne_eq, hz0, not_false_eq_true, ↓reduceIte, true_and]
    rw [← hnd, ← hhr']

/-- the loop with BYHOUR and / or BYMINUTE and no BYSECOND -/
theorem secondlyLoop_bhm (r : Rule) (hi : 1 ≤ r.interval) (hbs : r.bysecond = none) :
    ∀ (n : Nat) (second minute hour day : Int) (fx : Bool), 0 ≤ second → 0 ≤ minute → 0 ≤ hour → hour ≤ 23 →
    (∃ t : Nat, 1 ≤ t ∧ t ≤ n ∧ okS r (hour * 3600 + minute * 60 + second + t * r.interval) = true) →
    ∃ t : Nat, 1 ≤ t ∧ t ≤ n ∧ okS r (hour * 3600 + minute * 60 + second + t * r.interval) = true ∧
      (∀ t' : Nat, 1 ≤ t' → t' < t → okS r (hour * 3600 + minute * 60 + second + t' * r.interval) = false) ∧
      secondlyLoop r n second minute hour day fx =
        .ok ((hour * 3600 + minute * 60 + second + t * r.interval) % 60,
             (hour * 3600 + minute * 60 + second + t * r.interval) / 60 % 60,
             (hour * 3600 + minute * 60 + second + t * r.interval) / 3600 % 24,
             day + (hour * 3600 + minute * 60 + second + t * r.interval) / 86400,
             fx || decide ((hour * 3600 + minute * 60 + second + t * r.interval) / 86400 ≠ 0)) := by
  intro n
  induction n with
  | zero => intro second minute hour day fx _ _ _ _ ⟨t, h1, h2, _⟩; omega
  | succ n ih =>
    intro second minute hour day fx hs0 hm0 h0 h23 ⟨ts, hts1, hts2, hts3⟩
    obtain ⟨W, hW⟩ : ∃ W, W = hour * 3600 + minute * 60 + second := ⟨_, rfl⟩
    rw [← hW] at hts3 ⊢
    have e1 : ((1 : Nat) : Int) * r.interval = r.interval := by simp
    obtain ⟨V1, hV1⟩ : ∃ V1, V1 = W + r.interval := ⟨_, rfl⟩
    rw [secondlyLoop_succ r hbs n second minute hour day fx h0 h23 V1 (by rw [hV1, hW])]
    obtain ⟨c, hc⟩ : ∃ c, c = V1 / 86400 := ⟨_, rfl⟩
    rw [← hc]
    have hV10 : 0 ≤ V1 := by omega
    have hc0 : 0 ≤ c := by omega
    by_cases hok : okS r V1 = true
    · rw [if_pos hok]
      refine ⟨1, by omega, by omega, by rw [e1, ← hV1]; exact hok, by intro t' a b; omega, ?_⟩
      rw [e1, ← hV1, ← hc]
      by_cases hz : c = 0 <;> simp [hz]
    · rw [if_neg hok]
      have hokf : okS r V1 = false := by
        cases hq : okS r V1 with
        | false => rfl
        | true => exact absurd hq hok
      have hts' : ts ≠ 1 := by
        intro e; subst e; rw [e1, ← hV1, hokf] at hts3; cases hts3
      have key : ∀ s : Nat, V1 / 3600 % 24 * 3600 + V1 / 60 % 60 * 60 + V1 % 60 + (s : Int) * r.interval =
          W + ((s + 1 : Nat) : Int) * r.interval - 86400 * c := by
        intro s; push_cast; rw [Int.add_mul]; omega
      obtain ⟨t, ht1, ht2, ht3, ht4, ht5⟩ := ih (V1 % 60) (V1 / 60 % 60) (V1 / 3600 % 24)
        (if c ≠ 0 then day + c else day) (if c ≠ 0 then true else fx)
        (by omega) (by omega) (by omega) (by omega)
        ⟨ts - 1, by omega, by omega, by
          rw [key, okS_shift]
          have e : ts - 1 + 1 = ts := by omega
          rw [e]; exact hts3⟩
      refine ⟨t + 1, by omega, by omega, ?_, ?_, ?_⟩
      · rw [key, okS_shift] at ht3; exact ht3
      · intro t' a b
        by_cases ht' : t' = 1
        · subst ht'; rw [e1, ← hV1]; exact hokf
        · have := ht4 (t' - 1) (by omega) (by omega)
          rw [key, okS_shift] at this
          have e : t' - 1 + 1 = t' := by omega
          rw [e] at this; exact this
      · rw [ht5, key]
        generalize hV : W + ((t + 1 : Nat) : Int) * r.interval = V
        have b1 : (V - 86400 * c) % 60 = V % 60 := by omega
        have b2 : (V - 86400 * c) / 60 % 60 = V / 60 % 60 := by omega
        have b3 : (V - 86400 * c) / 3600 % 24 = V / 3600 % 24 := by omega
        have b4 : (V - 86400 * c) / 86400 = V / 86400 - c := by omega
        rw [b1, b2, b3, b4]
        have hti : (0 : Int) ≤ (t : Int) * r.interval := Int.mul_nonneg (by omega) (by omega)
        have hVn : 0 ≤ V - 86400 * c := by rw [← hV, ← key]; omega
        have hq0 : 0 ≤ V / 86400 - c := by omega
        by_cases hz : c = 0
        · subst hz; simp
        · have hq : V / 86400 ≠ 0 := by omega
          simp [hz, hq]
          omega

end RRule
