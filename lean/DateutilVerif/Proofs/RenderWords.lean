/-
  Proofs/RenderWords.lean — month and weekday words under the stock parserinfo (computed over the whole
  tables by `decide`), for any classification that agrees with Python's on ASCII.
-/
import DateutilVerif.Proofs.LexRender
import DateutilVerif.Spec.ParserSentence

namespace PM
open Py PT


theorem mon_table : ∀ i : Fin 12,
    stock.monthOf (monAbbr (i.val + 1)) = some (i.val + 1) ∧ stock.monthOf (monFull (i.val + 1)) = some (i.val + 1) ∧
    stock.weekdayOf (monAbbr (i.val + 1)) = none ∧ stock.weekdayOf (monFull (i.val + 1)) = none ∧
    isAlphaWord (monAbbr (i.val + 1)) = true ∧ isAlphaWord (monFull (i.val + 1)) = true ∧
    floatOk asciiCls (monAbbr (i.val + 1)) = false ∧ floatOk asciiCls (monFull (i.val + 1)) = false ∧
    stock.hmsOf (monAbbr (i.val + 1)) = none ∧ stock.hmsOf (monFull (i.val + 1)) = none ∧
    stock.ampmOf (monAbbr (i.val + 1)) = none ∧ stock.ampmOf (monFull (i.val + 1)) = none ∧
    stock.isJump (monAbbr (i.val + 1)) = false ∧ stock.isJump (monFull (i.val + 1)) = false := by decide

theorem wd_table : ∀ i : Fin 7,
    stock.weekdayOf (wdAbbr i.val) = some i.val ∧ isAlphaWord (wdAbbr i.val) = true ∧
    floatOk asciiCls (wdAbbr i.val) = false := by decide

theorem mon_facts (m : Nat) (h1 : 1 ≤ m) (h2 : m ≤ 12) :
    stock.monthOf (monAbbr m) = some m ∧ stock.monthOf (monFull m) = some m ∧
    stock.weekdayOf (monAbbr m) = none ∧ stock.weekdayOf (monFull m) = none ∧
    isAlphaWord (monAbbr m) = true ∧ isAlphaWord (monFull m) = true ∧
    floatOk asciiCls (monAbbr m) = false ∧ floatOk asciiCls (monFull m) = false ∧
    stock.hmsOf (monAbbr m) = none ∧ stock.hmsOf (monFull m) = none ∧
    stock.ampmOf (monAbbr m) = none ∧ stock.ampmOf (monFull m) = none ∧
    stock.isJump (monAbbr m) = false ∧ stock.isJump (monFull m) = false := by
  have := mon_table ⟨m - 1, by omega⟩
  have e : m - 1 + 1 = m := by omega
  simpa [e] using this

theorem wd_facts (w : Nat) (h : w < 7) :
    stock.weekdayOf (wdAbbr w) = some w ∧ isAlphaWord (wdAbbr w) = true ∧ floatOk asciiCls (wdAbbr w) = false :=
  wd_table ⟨w, h⟩

section
variable (df yf : Bool) (year century : Int)
theorem monthOf_stock (t : Token) : (Info.default df yf year century).monthOf t = stock.monthOf t := rfl
theorem weekdayOf_stock (t : Token) : (Info.default df yf year century).weekdayOf t = stock.weekdayOf t := rfl
theorem isJump_stock (t : Token) : (Info.default df yf year century).isJump t = stock.isJump t := rfl
theorem hmsOf_stock (t : Token) : (Info.default df yf year century).hmsOf t = stock.hmsOf t := rfl
theorem ampmOf_stock (t : Token) : (Info.default df yf year century).ampmOf t = stock.ampmOf t := rfl
end

theorem floatOk_alpha (cls : Char → CClass) [AsciiOK cls] (w : Token) (h : isAlphaWord w = true)
    (hf : floatOk asciiCls w = false) : floatOk cls w = false := by
  rw [floatOk_ascii cls w, hf]
  simp only [isAlphaWord, Bool.and_eq_true, List.all_eq_true, decide_eq_true_eq] at h ⊢
  intro c hc
  exact (h.2 c hc).1.1

theorem isDigitTok_alpha (cls : Char → CClass) [hc : AsciiOK cls] (w : Token) (h : isAlphaWord w = true) :
    isDigitTok cls w = false := by
  cases w with
  | nil => simp [isAlphaWord] at h
  | cons a as =>
    simp only [isAlphaWord, Bool.and_eq_true, List.all_eq_true, decide_eq_true_eq] at h
    have ha := h.2 a List.mem_cons_self
    unfold isDigitTok
    simp only [List.isEmpty_cons, Bool.not_false, Bool.true_and, List.all_cons]
    rw [hc.agree a ha.1.1]
    have : (asciiCls a).isNum = false := by
      cases hk : asciiCls a <;> simp_all [CClass.isWord, CClass.isNum]
    simp [this]

/-- lexing an ASCII letter word -/
theorem lex_alpha (cls : Char → CClass) [AsciiOK cls] (w rest : List Char) (h : isAlphaWord w = true) (he : WordEnds cls rest) :
    scan cls .init (w ++ rest) = w :: scan cls .init rest := by
  cases w with
  | nil => simp [isAlphaWord] at h
  | cons a as =>
    simp only [isAlphaWord, Bool.and_eq_true] at h
    exact lex_aword cls a as rest h.2 he

end PM
