/-
  Proofs/RRuleGenInitWhole.lean — `Gen.init` (every statement of the cleaned `rrule.__init__` translated in sequence,
  Generated/RRuleKernels.lean) equals the sequencing of the section functions (`initSections`), hence `constructW fwd`.
-/
import DateutilVerif.Proofs.RRuleGenInitAll

namespace RRuleGen
open RRule RrPy

theorem bind_assoc' {α β γ} (x : Py.R α) (f : α → Py.R β) (g : β → Py.R γ) :
    Except.bind (Except.bind x f) g = Except.bind x (fun a => Except.bind (f a) g) := by cases x <;> rfl

theorem bind_ite' {α β} (c : Prop) [Decidable c] (x y : Py.R α) (f : α → Py.R β) :
    Except.bind (if c then x else y) f = if c then Except.bind x f else Except.bind y f := by split <;> rfl

theorem loop1_eq (l : List Int) : Gen.init_loop1 l = Gen.init_bysetpos_loop1 l := by
  induction l with
  | nil => rfl
  | cons x xs ih => simp only [Gen.init_loop1, Gen.init_bysetpos_loop1, ih]

theorem loop2_eq (freq : Int) (l : List (Int × Int)) (p : Option (List Int)) (q : Option (List (Int × Int))) :
    Gen.init_loop2 freq l p q = Gen.init_byweekday_loop1 freq l p q := by
  induction l generalizing p q with
  | nil => rfl
  | cons x xs ih => simp only [Gen.init_loop2, Gen.init_byweekday_loop1, ih]

theorem loop5_eq (h m tz : Int) (l : List Int) (t : Option (List HMS)) :
    Gen.init_loop5 h m tz l t = Gen.init_timeset_loop3 h m l t := by
  induction l generalizing t with
  | nil => rfl
  | cons x xs ih => simp only [Gen.init_loop5, Gen.init_timeset_loop3, ih]

theorem loop4_eq (h : Int) (bs : Option (List Int)) (tz : Int) (l : List Int) (t : Option (List HMS)) :
    Gen.init_loop4 h bs tz l t = Gen.init_timeset_loop2 h bs l t := by
  induction l generalizing t with
  | nil => rfl
  | cons x xs ih => simp only [Gen.init_loop4, Gen.init_timeset_loop2, ih, loop5_eq]

theorem loop3_eq (bm bs : Option (List Int)) (tz : Int) (l : List Int) (t : Option (List HMS)) :
    Gen.init_loop3 bm bs tz l t = Gen.init_timeset_loop1 bm bs l t := by
  induction l generalizing t with
  | nil => rfl
  | cons x xs ih => simp only [Gen.init_loop3, Gen.init_timeset_loop1, ih, loop4_eq]

theorem init_eq_sections (fwd : Int) (a : Args) (cache : Bool) :
    Gen.init fwd a.tz a.freq a.dtstart a.interval a.wkst a.count a.untilDT a.bysetpos a.bymonth a.bymonthday a.byyearday
      a.byeaster a.byweekno a.byweekday a.byhour a.byminute a.bysecond cache = initSections fwd a := by
  unfold Gen.init initSections Gen.init_interval Gen.init_wkst Gen.init_bysetpos Gen.init_defaults Gen.init_bymonth
    Gen.init_byyearday Gen.init_byeaster Gen.init_bymonthday Gen.init_byweekno Gen.init_byweekday Gen.init_byhour
    Gen.init_byminute Gen.init_bysecond Gen.init_timeset
  simp only [loop1_eq, loop2_eq, loop3_eq, bind, pure, Except.pure]
  by_cases hi : a.interval < 1
  · simp only [hi, if_true, error_bind]; rfl
  · simp only [hi, if_false, ok_bind]
    by_cases hf : a.freq ≥ 4
    · simp only [hf, if_true, ok_bind]
      rfl
    · simp only [hf, if_false, ok_bind, bind_assoc']
      rfl

end RRuleGen
