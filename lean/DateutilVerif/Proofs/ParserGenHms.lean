/-
  Proofs/ParserGenHms.lean — `parser._find_hms_idx`, `_parse_hms`, `_assign_tzname` re-translated from /repo's
  parser/_parser.py (Generated/ParserOps.lean) against the hand model (Model/Parser.lean: `findHmsIdx`, the index /
  unit arithmetic of `numHms`, `assignFold`).
-/
import DateutilVerif.Proofs.ParserGenSmall

namespace PGen
open PM Py
set_option linter.unusedSimpArgs false

theorem toksAt_nat (l : List Token) (k : Nat) (h : k < l.length) : PPy.toksAt l ((k : Nat) : Int) = .ok l[k] := by
  unfold PPy.toksAt Py.getIdx
  have h1 : ¬ ((k : Int) < 0) := by omega
  have h2 : ¬ ((k : Int) < 0 ∨ (k : Int) ≥ (l.length : Int)) := by omega
  simp only [h1, if_false, h2]
  simp [List.getElem?_eq_getElem h, h]

theorem toksAt_int (l : List Token) (j : Int) (k : Nat) (hj : j = (k : Int)) (h : k < l.length) :
    PPy.toksAt l j = .ok l[k] := by
  subst hj; exact toksAt_nat l k h

/-- one probe of `_find_hms_idx`: `info.hms(tokens[k]) is not None` -/
theorem probe_eq (info : Info) (l : List Token) (j : Int) (k : Nat) (hj : j = (k : Int)) (h : k < l.length) :
    Except.bind (PPy.toksAt l j) (fun tok => Except.bind (Gen.P.info_hms info tok) (fun q => .ok (decide (q ≠ none))))
      = .ok (((l[k]?).bind info.hmsOf).isSome) := by
  rw [toksAt_int l j k hj h, List.getElem?_eq_getElem h]
  simp only [bind_ok, info_hms_eq, Option.bind_some]
  cases info.hmsOf l[k] <;> rfl

theorem natOfInt_sub (idx k : Nat) (h : k ≤ idx) : PPy.natOfInt ((idx : Int) - (k : Int)) = .ok (idx - k) := by
  unfold PPy.natOfInt
  have : ¬ ((idx : Int) - (k : Int) < 0) := by omega
  simp only [this, if_false]
  congr 1; omega

theorem tk_space : PM.tk " " = [' '] := rfl

/-- `parser._find_hms_idx` as written now = the index the model's `findHmsIdx` finds (for a token index inside the
    list, which is where `_parse_numeric_token` calls it) -/
theorem findHmsIdx_eq (info : Info) (idx : Nat) (l : List Token) (aj : Bool) (hidx : idx < l.length) :
    Gen.P.findHmsIdx info idx l aj = .ok ((PM.findHmsIdx info idx l aj).map (·.1)) := by
  unfold Gen.P.findHmsIdx PM.findHmsIdx
  simp only [info_hms_eq, bind_ok, tk_space]
  by_cases h1 : idx + 1 < l.length
  · by_cases h2 : idx + 2 < l.length
    · by_cases h3 : 0 < idx
      · by_cases h4 : 1 < idx
        · have e3 : (idx : Int) - (1 : Int) = ((idx - 1 : Nat) : Int) := by omega
          rw [e3]
          have e4 : (idx : Int) - (2 : Int) = ((idx - 2 : Nat) : Int) := by omega
          rw [e4]
          simp only [natOfInt_nat, bind_ok, Option.bind_some, h1, h2, h3, h4, if_true, if_false, false_and, and_false, true_and, and_true, gt_iff_lt, toksAt_nat l (idx + 1) h1, List.getElem?_eq_getElem h1, toksAt_nat l (idx + 2) h2, List.getElem?_eq_getElem h2, toksAt_nat l (idx - 1) (by omega), List.getElem?_eq_getElem (show idx - 1 < l.length by omega), toksAt_nat l (idx - 2) (by omega), List.getElem?_eq_getElem (show idx - 2 < l.length by omega)]
          have hE : ((idx : Int) = (l.length : Int) - 1) = (idx + 1 = l.length) := by
            apply propext; constructor <;> intro h <;> omega
          generalize info.hmsOf l[idx + 1] = o1
          generalize info.hmsOf l[idx + 2] = o2
          generalize info.hmsOf l[idx - 1] = o3
          generalize info.hmsOf l[idx - 2] = o4
          generalize l[idx + 1] = t1
          generalize l[idx - 1] = t3
          by_cases hL : idx + 1 = l.length <;> by_cases p1 : t1 = [' '] <;> by_cases p3 : t3 = [' '] <;> cases o1 <;> cases o2 <;> cases o3 <;> cases o4 <;> cases aj <;>
            simp [h1, h2, h3, h4, hE, hL, bind_ok, bind_ite, p1, p3]
        · have e3 : (idx : Int) - (1 : Int) = ((idx - 1 : Nat) : Int) := by omega
          rw [e3]
          simp only [natOfInt_nat, bind_ok, Option.bind_some, h1, h2, h3, h4, if_true, if_false, false_and, and_false, true_and, and_true, gt_iff_lt, toksAt_nat l (idx + 1) h1, List.getElem?_eq_getElem h1, toksAt_nat l (idx + 2) h2, List.getElem?_eq_getElem h2, toksAt_nat l (idx - 1) (by omega), List.getElem?_eq_getElem (show idx - 1 < l.length by omega)]
          have hE : ((idx : Int) = (l.length : Int) - 1) = (idx + 1 = l.length) := by
            apply propext; constructor <;> intro h <;> omega
          generalize info.hmsOf l[idx + 1] = o1
          generalize info.hmsOf l[idx + 2] = o2
          generalize info.hmsOf l[idx - 1] = o3
          generalize l[idx + 1] = t1
          by_cases hL : idx + 1 = l.length <;> by_cases p1 : t1 = [' '] <;> cases o1 <;> cases o2 <;> cases o3 <;> cases aj <;>
            simp [h1, h2, h3, h4, hE, hL, bind_ok, bind_ite, p1]
      · have h4 : ¬ (1 < idx) := by omega
        simp only [natOfInt_nat, bind_ok, Option.bind_some, h1, h2, h3, h4, if_true, if_false, false_and, and_false, true_and, and_true, gt_iff_lt, toksAt_nat l (idx + 1) h1, List.getElem?_eq_getElem h1, toksAt_nat l (idx + 2) h2, List.getElem?_eq_getElem h2]
        have hE : ((idx : Int) = (l.length : Int) - 1) = (idx + 1 = l.length) := by
          apply propext; constructor <;> intro h <;> omega
        generalize info.hmsOf l[idx + 1] = o1
        generalize info.hmsOf l[idx + 2] = o2
        generalize l[idx + 1] = t1
        by_cases hL : idx + 1 = l.length <;> by_cases p1 : t1 = [' '] <;> cases o1 <;> cases o2 <;> cases aj <;>
          simp [h1, h2, h3, h4, hE, hL, bind_ok, bind_ite, p1]
    · by_cases h3 : 0 < idx
      · by_cases h4 : 1 < idx
        · have e3 : (idx : Int) - (1 : Int) = ((idx - 1 : Nat) : Int) := by omega
          rw [e3]
          have e4 : (idx : Int) - (2 : Int) = ((idx - 2 : Nat) : Int) := by omega
          rw [e4]
          simp only [natOfInt_nat, bind_ok, Option.bind_some, h1, h2, h3, h4, if_true, if_false, false_and, and_false, true_and, and_true, gt_iff_lt, toksAt_nat l (idx + 1) h1, List.getElem?_eq_getElem h1, toksAt_nat l (idx - 1) (by omega), List.getElem?_eq_getElem (show idx - 1 < l.length by omega), toksAt_nat l (idx - 2) (by omega), List.getElem?_eq_getElem (show idx - 2 < l.length by omega)]
          have hE : ((idx : Int) = (l.length : Int) - 1) = (idx + 1 = l.length) := by
            apply propext; constructor <;> intro h <;> omega
          generalize info.hmsOf l[idx + 1] = o1
          generalize info.hmsOf l[idx - 1] = o3
          generalize info.hmsOf l[idx - 2] = o4
          generalize l[idx - 1] = t3
          by_cases hL : idx + 1 = l.length <;> by_cases p3 : t3 = [' '] <;> cases o1 <;> cases o3 <;> cases o4 <;> cases aj <;>
            simp [h1, h2, h3, h4, hE, hL, bind_ok, bind_ite, p3]
        · have e3 : (idx : Int) - (1 : Int) = ((idx - 1 : Nat) : Int) := by omega
          rw [e3]
          simp only [natOfInt_nat, bind_ok, Option.bind_some, h1, h2, h3, h4, if_true, if_false, false_and, and_false, true_and, and_true, gt_iff_lt, toksAt_nat l (idx + 1) h1, List.getElem?_eq_getElem h1, toksAt_nat l (idx - 1) (by omega), List.getElem?_eq_getElem (show idx - 1 < l.length by omega)]
          have hE : ((idx : Int) = (l.length : Int) - 1) = (idx + 1 = l.length) := by
            apply propext; constructor <;> intro h <;> omega
          generalize info.hmsOf l[idx + 1] = o1
          generalize info.hmsOf l[idx - 1] = o3
          by_cases hL : idx + 1 = l.length <;> cases o1 <;> cases o3 <;> cases aj <;>
            simp [h1, h2, h3, h4, hE, hL, bind_ok, bind_ite]
      · have h4 : ¬ (1 < idx) := by omega
        simp only [natOfInt_nat, bind_ok, Option.bind_some, h1, h2, h3, h4, if_true, if_false, false_and, and_false, true_and, and_true, gt_iff_lt, toksAt_nat l (idx + 1) h1, List.getElem?_eq_getElem h1]
        have hE : ((idx : Int) = (l.length : Int) - 1) = (idx + 1 = l.length) := by
          apply propext; constructor <;> intro h <;> omega
        generalize info.hmsOf l[idx + 1] = o1
        by_cases hL : idx + 1 = l.length <;> cases o1 <;> cases aj <;>
          simp [h1, h2, h3, h4, hE, hL, bind_ok, bind_ite]
  · have h2 : ¬ (idx + 2 < l.length) := by omega
    by_cases h3 : 0 < idx
    · by_cases h4 : 1 < idx
      · have e3 : (idx : Int) - (1 : Int) = ((idx - 1 : Nat) : Int) := by omega
        rw [e3]
        have e4 : (idx : Int) - (2 : Int) = ((idx - 2 : Nat) : Int) := by omega
        rw [e4]
        simp only [natOfInt_nat, bind_ok, Option.bind_some, h1, h2, h3, h4, if_true, if_false, false_and, and_false, true_and, and_true, gt_iff_lt, toksAt_nat l (idx - 1) (by omega), List.getElem?_eq_getElem (show idx - 1 < l.length by omega), toksAt_nat l (idx - 2) (by omega), List.getElem?_eq_getElem (show idx - 2 < l.length by omega)]
        have hE : ((idx : Int) = (l.length : Int) - 1) = (idx + 1 = l.length) := by
          apply propext; constructor <;> intro h <;> omega
        generalize info.hmsOf l[idx - 1] = o3
        generalize info.hmsOf l[idx - 2] = o4
        generalize l[idx - 1] = t3
        by_cases hL : idx + 1 = l.length <;> by_cases p3 : t3 = [' '] <;> cases o3 <;> cases o4 <;> cases aj <;>
          simp [h1, h2, h3, h4, hE, hL, bind_ok, bind_ite, p3]
      · have e3 : (idx : Int) - (1 : Int) = ((idx - 1 : Nat) : Int) := by omega
        rw [e3]
        simp only [natOfInt_nat, bind_ok, Option.bind_some, h1, h2, h3, h4, if_true, if_false, false_and, and_false, true_and, and_true, gt_iff_lt, toksAt_nat l (idx - 1) (by omega), List.getElem?_eq_getElem (show idx - 1 < l.length by omega)]
        have hE : ((idx : Int) = (l.length : Int) - 1) = (idx + 1 = l.length) := by
          apply propext; constructor <;> intro h <;> omega
        generalize info.hmsOf l[idx - 1] = o3
        by_cases hL : idx + 1 = l.length <;> cases o3 <;> cases aj <;>
          simp [h1, h2, h3, h4, hE, hL, bind_ok, bind_ite]
    · have h4 : ¬ (1 < idx) := by omega
      simp only [natOfInt_nat, bind_ok, Option.bind_some, h1, h2, h3, h4, if_true, if_false, false_and, and_false, true_and, and_true, gt_iff_lt]
      have hE : ((idx : Int) = (l.length : Int) - 1) = (idx + 1 = l.length) := by
        apply propext; constructor <;> intro h <;> omega
      by_cases hL : idx + 1 = l.length <;> cases aj <;>
        simp [h1, h2, h3, h4, hE, hL, bind_ok, bind_ite]

/-- what the model's `findHmsIdx` returns is an index inside the list together with the unit found there -/
theorem findHmsIdx_spec (info : Info) (idx : Nat) (l : List Token) (aj : Bool) (j h0 : Nat)
    (h : PM.findHmsIdx info idx l aj = some (j, h0)) : (l[j]?).bind info.hmsOf = some h0 := by
  have key : ∀ k : Nat, Option.map (fun h => (k, h)) ((l[k]?).bind info.hmsOf) = some (j, h0) →
      (l[j]?).bind info.hmsOf = some h0 := by
    intro k hk
    cases hh : (l[k]?).bind info.hmsOf with
    | none => rw [hh] at hk; cases hk
    | some v =>
      rw [hh] at hk
      simp only [Option.map_some, Option.some.injEq, Prod.mk.injEq] at hk
      obtain ⟨rfl, rfl⟩ := hk
      exact hh
  unfold PM.findHmsIdx at h
  simp only [] at h
  split at h
  · exact key _ h
  · split at h
    · exact key _ h
    · split at h
      · exact key _ h
      · split at h
        · exact key _ h
        · cases h

/-- `parser._parse_hms` as written now: with the index `_find_hms_idx` found (unit `h0` there) it gives the index and
    the unit the model's `numHms` uses — a label BEHIND the number means the next unit; with None it gives `(idx, None)` -/
theorem parseHms_eq (info : Info) (idx : Nat) (l : List Token) (j h0 : Nat)
    (h : (l[j]?).bind info.hmsOf = some h0) :
    Gen.P.parseHms info idx l (some j) = .ok (if j > idx then j else idx, some (if j > idx then h0 else h0 + 1)) ∧
    Gen.P.parseHms info idx l none = .ok (idx, none) := by
  have hj : j < l.length := by
    by_cases hj : j < l.length
    · exact hj
    · simp [List.getElem?_eq_none (Nat.le_of_not_lt hj)] at h
  rw [List.getElem?_eq_getElem hj] at h
  simp only [Option.bind_some] at h
  constructor
  · unfold Gen.P.parseHms
    by_cases hg : j > idx <;>
      simp [PPy.optNat, bind_ok, toksAt_nat l j hj, info_hms_eq, h, hg]
  · unfold Gen.P.parseHms
    simp [bind_ok]

/-- `parser._assign_tzname` as written now, on a datetime at fold 0 whose zone is called `n0` at fold 0 and `n1` at
    fold 1: the result carries the fold the model's `assignFold` says -/
theorem assignTzname_eq (info : Info) (n0 n1 tzname : Option Token) :
    Gen.P.assignTzname info { n0 := n0, n1 := n1, fold := 0 } tzname =
      .ok { n0 := n0, n1 := n1, fold := PM.assignFold n0 n1 tzname } := by
  unfold Gen.P.assignTzname PM.assignFold PPy.FoldDt.tzname PPy.FoldDt.enfold
  by_cases h0 : n0 = tzname <;> by_cases h1 : n1 = tzname <;> simp [h0, h1]

end PGen
