/- Proofs/TzStrWk.lean — an invariant of the TZ-string parser model `TzStr.parse` (Model/TzStr.lean, read only): every rule
   record it returns with a weekday also has a week (`stdRule`'s M-branch sets month/week/weekday together, `depRule` sets
   week and weekday together, the abbreviation loop never touches the rules).  Discharges the `WkOk` hypothesis of the
   translated `tzstr.__init__` obligation. -/
import DateutilVerif.Proofs.TzStrParseRule
import DateutilVerif.Proofs.TzObjEqStr
set_option linter.unusedSimpArgs false
namespace TzGen
open TzStr

/-- a rule with a weekday has a week -/
def W (x : Attr) : Prop := x.weekday.isSome → x.week.isSome

theorem W_default : W ({} : Attr) := by intro h; cases h

theorem ruleHead_W (l : Array String) (st : St) (x : Attr) (u : List Nat) (i : Nat)
    (h : ruleHead l st = some (x, u, i)) : W x := by
  unfold ruleHead at h
  simp only [bind, pure, Option.bind_eq_some_iff] at h
  obtain ⟨t, _, h⟩ := h
  split at h
  · simp only [Option.bind_eq_some_iff] at h
    obtain ⟨_, _, _, _, h⟩ := h
    simp at h; obtain ⟨rfl, _, _⟩ := h; intro hw; cases hw
  · split at h
    · simp only [Option.bind_eq_some_iff] at h
      obtain ⟨_, _, m, _, s1, _, h⟩ := h
      split at h
      · cases h
      · simp only [Option.bind_eq_some_iff] at h
        obtain ⟨_, _, w, _, s2, _, h⟩ := h
        split at h
        · cases h
        · simp only [Option.bind_eq_some_iff] at h
          obtain ⟨_, _, d, _, h⟩ := h
          simp at h; obtain ⟨rfl, _, _⟩ := h; intro _; rfl
    · simp only [Option.bind_eq_some_iff] at h
      obtain ⟨_, _, h⟩ := h
      simp at h; obtain ⟨rfl, _, _⟩ := h; intro hw; cases hw

theorem ruleTime_res (l : Array String) (st st' : St) (tm : Int) (h : ruleTime l st = some (tm, st')) :
    st'.res = st.res := by
  unfold ruleTime at h
  simp only [bind, pure, Option.bind_eq_some_iff] at h
  obtain ⟨t, _, h⟩ := h
  split at h
  · simp only [Option.bind_eq_some_iff] at h
    obtain ⟨_, _, _, _, h⟩ := h
    simp at h; obtain ⟨_, rfl⟩ := h; rfl
  · split at h
    · simp only [Option.bind_eq_some_iff] at h
      obtain ⟨_, _, _, _, _, _, h⟩ := h
      split at h
      · simp only [Option.bind_eq_some_iff] at h
        obtain ⟨_, _, _, _, h⟩ := h
        simp at h; obtain ⟨_, rfl⟩ := h; rfl
      · simp at h; obtain ⟨_, rfl⟩ := h; rfl
    · split at h
      · simp only [Option.bind_eq_some_iff] at h
        obtain ⟨_, _, h⟩ := h
        simp at h; obtain ⟨_, rfl⟩ := h; rfl
      · cases h

theorem ruleTail_W (l : Array String) (x x' : Attr) (st st' : St) (h : ruleTail l x st = some (x', st')) :
    (W x → W x') ∧ st'.res = st.res := by
  unfold ruleTail at h
  simp only [bind, pure, Option.bind_eq_some_iff] at h
  obtain ⟨⟨x1, st1⟩, h1, h⟩ := h
  have key : (W x → W x1) ∧ st1.res = st.res := by
    split at h1
    · simp only [Option.bind_eq_some_iff] at h1
      obtain ⟨⟨tm, st2⟩, h2, h1⟩ := h1
      simp at h1; obtain ⟨rfl, rfl⟩ := h1
      exact ⟨fun hw => hw, (ruleTime_res _ _ _ _ h2).trans rfl⟩
    · simp at h1; obtain ⟨rfl, rfl⟩ := h1; exact ⟨id, rfl⟩
  split at h
  · cases h
  · simp at h; obtain ⟨rfl, rfl⟩ := h; exact key

theorem stdRule_W (l : Array String) (st st' : St) (x : Attr) (h : stdRule l st = some (x, st')) :
    W x ∧ st'.res = st.res := by
  rw [stdRule_eq] at h
  simp only [bind, Option.bind_eq_some_iff] at h
  obtain ⟨⟨x0, u, i⟩, h0, h⟩ := h
  have := ruleTail_W _ _ _ _ _ h
  exact ⟨this.1 (ruleHead_W _ _ _ _ _ h0), this.2⟩

theorem depRule_W (l : Array String) (st st' : St) (a : Attr) (h : depRule l st = some (a, st')) :
    W a ∧ st'.res = st.res := by
  unfold depRule at h
  simp only [bind, pure, Option.bind_eq_some_iff] at h
  obtain ⟨_, _, mo, _, _, _, v, _, _, _, n, _, _, _, tm, _, h⟩ := h
  simp only [Option.some.injEq, Prod.mk.injEq] at h
  obtain ⟨rfl, rfl⟩ := h
  refine ⟨?_, rfl⟩
  intro hw
  by_cases hv : (v.fst != 0) = true
  · simp [hv]
  · simp [hv] at hw

theorem offCore_res (l : Array String) (st st' : St) (sg v : Int) (h : offCore l st sg = some (v, st')) :
    st'.res = st.res := by
  unfold offCore at h
  simp only [bind, pure, Option.bind_eq_some_iff] at h
  obtain ⟨t, _, h⟩ := h
  split at h
  · simp only [Option.bind_eq_some_iff] at h
    obtain ⟨_, _, _, _, h⟩ := h
    simp at h; obtain ⟨_, rfl⟩ := h; rfl
  · split at h
    · simp only [Option.bind_eq_some_iff] at h
      obtain ⟨_, _, _, _, _, _, h⟩ := h
      simp at h; obtain ⟨_, rfl⟩ := h; rfl
    · split at h
      · simp only [Option.bind_eq_some_iff] at h
        obtain ⟨_, _, h⟩ := h
        simp at h; obtain ⟨_, rfl⟩ := h; rfl
      · cases h

theorem parseOffset_res (l : Array String) (st st' : St) (v : Int) (h : parseOffset l st = some (v, st')) :
    st'.res = st.res := by
  rw [TzStr.parseOffset_eq] at h
  split at h
  · cases h
  · split at h
    · exact (offCore_res _ _ _ _ _ h).trans rfl
    · exact offCore_res _ _ _ _ _ h

theorem step_rules (l : Array String) (r0 : Res) (i : Nat) (u : List Nat) (isStd : Bool) (st1 : St)
    (h : (match l[i]? with
          | some t =>
            if (t == "+" || t == "-" || firstIsDigit t) = true then do
              let (v, st') ← parseOffset l { res := r0, i := i, used := u }
              let res := if isStd then { st'.res with stdoffset := some v } else { st'.res with dstoffset := some v }
              pure { st' with res := res }
            else pure { res := r0, i := i, used := u }
          | none => pure { res := r0, i := i, used := u } : P St) = some st1) :
    st1.res.start = r0.start ∧ st1.res.«end» = r0.«end» := by
  split at h
  · split at h
    · simp only [bind, pure, Option.bind_eq_some_iff] at h
      obtain ⟨⟨v, st2⟩, hp, h⟩ := h
      have hr := parseOffset_res _ _ _ _ hp
      simp only [Option.some.injEq] at h
      subst h
      simp only [] at hr ⊢
      cases isStd <;> simp [hr]
    · simp only [pure, Option.some.injEq] at h
      subst h
      exact ⟨rfl, rfl⟩
  · simp only [pure, Option.some.injEq] at h
    subst h
    exact ⟨rfl, rfl⟩

theorem abbrLoop_rules (l : Array String) (fuel : Nat) (st st' : St) (h : abbrLoop l fuel st = some st') :
    st'.res.start = st.res.start ∧ st'.res.«end» = st.res.«end» := by
  induction fuel generalizing st with
  | zero => unfold abbrLoop at h; cases h; exact ⟨rfl, rfl⟩
  | succ n ih =>
    unfold abbrLoop at h
    split at h
    · simp only [] at h
      split at h
      · split at h
        · cases h
        · rename_i st1 hstep
          have h1 : st1.res.start = st.res.start ∧ st1.res.«end» = st.res.«end» := by
            have := step_rules _ _ _ _ _ _ hstep
            refine ⟨this.1.trans ?_, this.2.trans ?_⟩ <;> ((repeat' split) <;> rfl)
          repeat' split at h
          all_goals (try simp only [Bool.false_eq_true, if_false, if_true] at h)
          all_goals first
            | (cases h; exact h1)
            | (have := ih _ h; exact ⟨this.1.trans h1.1, this.2.trans h1.2⟩)
      · cases h; exact ⟨rfl, rfl⟩
    · cases h; exact ⟨rfl, rfl⟩

theorem parseTokens_W (l0 : Array String) (res : Res) (h : parseTokens l0 = .ok (some res)) :
    W res.start ∧ W res.«end» := by
  unfold parseTokens at h
  split at h
  · cases h
  · rename_i st0 hab
    have h0 := abbrLoop_rules _ _ _ _ hab
    split at h
    rename_i x l stOpt heq
    have hst : ∀ st, stOpt = some st → st.res = st0.res := by
      intro st hs; subst hs
      split at heq
      · simp only [] at heq
        split at heq <;> (simp only [Prod.mk.injEq] at heq; obtain ⟨_, h2⟩ := heq; cases h2)
        rfl
      · simp only [Prod.mk.injEq] at heq; obtain ⟨_, h2⟩ := heq; cases h2; rfl
    clear heq
    split at h
    · cases h
    · rename_i st
      have hs := hst st rfl
      have e0 : W st.res.start ∧ W st.res.«end» := by
        rw [hs, h0.1, h0.2]; exact ⟨W_default, W_default⟩
      simp only [] at h
      split at h
      · simp only [Except.ok.injEq, Option.some.injEq] at h; subst h; exact e0
      · split at h
        · split at h
          · cases h
          · rename_i a st1 hd1
            split at h
            · cases h
            · rename_i b st2 hd2
              have wa := (depRule_W _ _ _ _ hd1).1
              have wb := (depRule_W _ _ _ _ hd2).1
              split at h
              · by_cases hc : (l[st2.i]?.getD "" == "-" || l[st2.i]?.getD "" == "+") = true
                · simp only [hc, ↓reduceIte] at h
                  repeat' split at h
                  all_goals first
                    | (cases h; done)
                    | (simp only [Except.ok.injEq, Option.some.injEq] at h; subst h; exact ⟨wa, wb⟩)
                · simp only [hc, Bool.false_eq_true, ↓reduceIte] at h
                  repeat' split at h
                  all_goals first
                    | (cases h; done)
                    | (simp only [Except.ok.injEq, Option.some.injEq] at h; subst h; exact ⟨wa, wb⟩)
              · simp only [Except.ok.injEq, Option.some.injEq] at h; subst h; exact ⟨wa, wb⟩
        · split at h
          · split at h
            · cases h
            · rename_i a st1 hd1
              split at h
              · cases h
              · rename_i b st2 hd2
                have wa := (stdRule_W _ _ _ _ hd1).1
                have wb := (stdRule_W _ _ _ _ hd2).1
                split at h
                · cases h
                · simp only [Except.ok.injEq, Option.some.injEq] at h; subst h; exact ⟨wa, wb⟩
          · simp only [Except.ok.injEq, Option.some.injEq] at h; subst h; exact e0

theorem parse_W (s : String) (res : Res) (h : TzStr.parse s = .ok (some res)) : WkOk res.start ∧ WkOk res.«end» := by
  have := parseTokens_W _ _ h
  exact ⟨fun _ hw => this.1 hw, fun _ hw => this.2 hw⟩
end TzGen
