/-
  Proofs/RRuleDaily.lean — the DAILY instance of the refinement: period `k` of the model is the
  day `start + k·interval`, its candidates are the specification's `sel a k`, and `advance` reaches
  period `k+1` without failing while the days stay inside datetime's range.
-/
import DateutilVerif.Proofs.RRuleBridge
import DateutilVerif.Proofs.RRuleRange
import DateutilVerif.Proofs.RRuleSetpos

namespace RRule
open Cal

theorem maxOrdinal_eq : toOrdinal 9999 12 31 = maxOrdinal := by decide

/-- inside datetime's range the month roll never hits the MAXYEAR return -/
theorem rollDays_total : ∀ (n : Nat) (y m d : Int),
    1 ≤ m → m ≤ 12 → 1 ≤ d → d ≤ n → y ≤ 9999 → toOrdinal y m d ≤ maxOrdinal →
    ∃ res, rollDays n y m d = some res := by
  intro n
  induction n with
  | zero => intro y m d _ _ h1 h2; omega
  | succ k ih =>
    intro y m d hm1 hm12 hd1 hdn hy hle
    unfold rollDays
    have hb := daysInMonth_bounds y m
    split
    · rename_i hgt
      have hs := daysBeforeMonth_succ y m hm1 hm12
      dsimp only
      split
      · rename_i h13
        have hm : m = 12 := by
          have : (m + 1 == 13) = true := h13
          simp at this; omega
        subst hm
        have hy' : y + 1 ≤ 9999 := by
          by_cases c : y = 9999
          · subst c
            have e : daysInMonth 9999 12 = 31 := by decide
            have hmono : toOrdinal 9999 12 31 < toOrdinal 9999 12 d := by
              unfold toOrdinal; omega
            rw [maxOrdinal_eq] at hmono; omega
          · omega
        rw [if_neg (by omega)]
        apply ih (y + 1) 1 (d - daysInMonth y 12) (by omega) (by omega) (by omega) (by omega) hy'
        have : toOrdinal (y + 1) 1 (d - daysInMonth y 12) = toOrdinal y 12 d := by
          unfold toOrdinal
          rw [daysBeforeYear_succ, daysBeforeMonth_1, ← daysBeforeMonth_13 y]
          have : (12 : Int) + 1 = 13 := by omega
          rw [this] at hs
          omega
        rw [this]; exact hle
      · rename_i h13
        have hm : m + 1 ≤ 12 := by
          have : ¬ ((m + 1 == 13) = true) := h13
          simp at this; omega
        apply ih y (m + 1) (d - daysInMonth y m) (by omega) hm (by omega) (by omega) hy
        have : toOrdinal y (m + 1) (d - daysInMonth y m) = toOrdinal y m d := by
          unfold toOrdinal; omega
        rw [this]; exact hle
    · exact ⟨_, rfl⟩

/-- `fixDay` succeeds for a simple rule while the cursor's day number stays in range, and the
    nth-weekday mask stays unset -/
theorem fixDay_ok (r : Rule) (hs : SimpleRule r) (st : State)
    (hm1 : 1 ≤ st.cur.month) (hm12 : st.cur.month ≤ 12) (hd1 : 1 ≤ st.cur.day)
    (hy1 : 1 ≤ st.cur.year) (hy : st.cur.year ≤ 9999) (hle : curOrd st.cur ≤ maxOrdinal)
    (hnw : st.info.nwdaymask = none) :
    ∃ st', fixDay r st true = .ok st' ∧ st'.info.nwdaymask = none := by
  unfold fixDay
  dsimp only
  split
  · split
    · obtain ⟨⟨y, m, d⟩, hroll⟩ := rollDays_total st.cur.day.toNat st.cur.year st.cur.month st.cur.day
        hm1 hm12 hd1 (by omega) hy hle
      have sp := rollDays_spec st.cur.day.toNat _ _ _ y m d hm1 hm12 hd1 (by omega) hroll
      obtain ⟨info, hre, hnone, _, _⟩ := rebuild_simple r hs y m (by omega) (by omega)
      rw [hroll]; dsimp only
      rw [hre]
      exact ⟨_, rfl, hnone⟩
    · exact ⟨_, rfl, hnw⟩
  · exact ⟨_, rfl, hnw⟩

variable {a : Args} {r : Rule}

/-- "the model state at the start of period `k`" for a DAILY rule -/
structure DailyGood (a : Args) (r : Rule) (k : Nat) (st : State) : Prop where
  facts : YearFacts r st.cur.year st.info
  nwd : st.info.nwdaymask = none
  valid : ValidYMD st.cur.year st.cur.month st.cur.day
  ord : curOrd st.cur = Spec.RRule.startOrd a + k * a.interval
  timeset : st.timeset = Spec.RRule.timesOf a none none none

theorem startOrd_pos (da : DailyArgs a) : 1 ≤ Spec.RRule.startOrd a := by
  have hv := da.valid
  unfold DT.Valid ValidDate at hv
  exact toOrdinal_pos _ _ _ hv.1.1 hv.1.2.2

theorem daily_span (da : DailyArgs a) (k : Nat) :
    Spec.RRule.periodSpan a (k * a.interval) =
      (Spec.RRule.startOrd a + k * a.interval, Spec.RRule.startOrd a + k * a.interval + 1, none, none, none) := by
  unfold Spec.RRule.periodSpan; simp [da.freq]

/-- the model's results of period `k`, and where the specification's candidates lie -/
theorem daily_results (da : DailyArgs a) (h : construct a = .ok r) (k : Nat) (st : State)
    (hg : DailyGood a r k st) (hle : Spec.RRule.startOrd a + k * a.interval ≤ maxOrdinal) :
    (∃ fl, periodResults r st = .ok (Spec.RRule.sel a (k : Int), none, fl)) ∧
    ∀ x ∈ Spec.RRule.sel a (k : Int), 0 ≤ x.ord ∧ x.ord ≤ maxOrdinal := by
  have hs := daily_simple da.toDWArgs h
  obtain ⟨bh, bm, bs, hr⟩ := daily_rule da.toDWArgs h
  have hfreq : r.freq = 3 := by rw [hr]; exact da.freq
  have hsp := construct_bysetpos a r h
  have htsok : TsOk st.timeset := by
    have := construct_timeset_ok a r h (by rw [da.freq]; omega)
    rw [hr] at this; rw [hg.timeset]; exact this
  have hpos := startOrd_pos da
  have hk : (0 : Int) ≤ k * a.interval := Int.mul_nonneg (by omega) (by have := da.interval; omega)
  have hidx := index_range _ _ _ hg.valid
  have hyo := hg.facts.yearordinal
  have hyl := hg.facts.yearlen
  have hd : dayset r st.info st.cur =
      .ok (intRange (curOrd st.cur - st.info.yearordinal) (curOrd st.cur - st.info.yearordinal + 1)) := by
    rw [dayset_daily st.cur (by omega) hg.facts hg.valid, intRange_one]
  have hi0 : 0 ≤ curOrd st.cur - st.info.yearordinal := by unfold curOrd; rw [hyo]; exact hidx.1
  have hi1 : curOrd st.cur - st.info.yearordinal + 1 ≤ st.info.yearlen + 7 := by
    unfold curOrd; rw [hyo, hyl]; omega
  have hord := hg.ord
  obtain ⟨fl, hres⟩ := periodResults_range_sp hs st hg.facts hg.nwd (by rw [hsp.1]; exact hsp.2) htsok _ _ hd hi0 hi1
    (by omega) (by omega)
  have e1 : st.info.yearordinal + (curOrd st.cur - st.info.yearordinal) =
      Spec.RRule.startOrd a + k * a.interval := by omega
  have e2 : st.info.yearordinal + (curOrd st.cur - st.info.yearordinal + 1) =
      Spec.RRule.startOrd a + k * a.interval + 1 := by omega
  rw [e1, e2] at hres
  have hbridge : (intRange (Spec.RRule.startOrd a + k * a.interval) (Spec.RRule.startOrd a + k * a.interval + 1)).filter
      (simpleOk r) = (intRange (Spec.RRule.startOrd a + k * a.interval)
        (Spec.RRule.startOrd a + k * a.interval + 1)).filter (Spec.RRule.dateOk a) := by
    apply List.filter_congr
    intro o ho
    exact simpleOk_eq_dateOk da.toDWArgs h o (by have := (mem_intRange _ _ _).mp ho; omega)
  refine ⟨⟨fl, ?_⟩, ?_⟩
  · rw [hres, hg.timeset, sel_span_sp a k _ _ (daily_span da k), hbridge, hsp.1]
  · intro x hx
    rw [sel_span_sp a k _ _ (daily_span da k)] at hx
    have := sel_bounds _ _ _ _ x (applySetpos_subset _ _ x hx)
    omega

/-- `advance` reaches period `k+1` -/
theorem daily_next (da : DailyArgs a) (h : construct a = .ok r) (k : Nat) (st : State) (fl : Bool)
    (c : Option Int) (hg : DailyGood a r k st)
    (hle : Spec.RRule.startOrd a + (k + 1 : Nat) * a.interval ≤ maxOrdinal) :
    ∃ st', advance r { st with count := c } fl = .ok st' ∧ DailyGood a r (k + 1) st' := by
  have hs := daily_simple da.toDWArgs h
  obtain ⟨bh, bm, bs, hr⟩ := daily_rule da.toDWArgs h
  have hfreq : r.freq = 3 := by rw [hr]; exact da.freq
  have hint : r.interval = a.interval := by rw [hr]
  have hi := da.interval
  obtain ⟨hm1, hm12, hd1, hd2⟩ := hg.valid
  -- existence
  have hex : ∃ st', advance r { st with count := c } fl = .ok st' ∧ st'.info.nwdaymask = none := by
    unfold advance
    dsimp only
    rw [if_neg (by simp [hfreq]), if_neg (by simp [hfreq]), if_neg (by simp [hfreq]), if_pos (by simp [hfreq])]
    have hcur : curOrd { st.cur with day := st.cur.day + r.interval } ≤ maxOrdinal := by
      have : curOrd { st.cur with day := st.cur.day + r.interval } = curOrd st.cur + r.interval := by
        unfold curOrd toOrdinal; dsimp only; omega
      rw [this, hg.ord, hint]
      have e : ((k + 1 : Nat) : Int) * a.interval = k * a.interval + a.interval := by
        push_cast; rw [Int.add_mul]; omega
      omega
    exact fixDay_ok r hs
      { cur := { st.cur with day := st.cur.day + r.interval }, info := st.info, timeset := st.timeset, count := c }
      hm1 hm12 (by dsimp only; omega) hg.facts.year_lo hg.facts.year_hi hcur hg.nwd
  obtain ⟨st', hadv, hnw⟩ := hex
  refine ⟨st', hadv, ?_⟩
  have sp := advance_daily r { st with count := c } st' fl hfreq (by omega) hg.valid hg.facts hadv
  obtain ⟨e, v, f', ts⟩ := sp
  refine ⟨f', hnw, v, ?_, ?_⟩
  · rw [e]; dsimp only; rw [hg.ord, hint]; push_cast; rw [Int.add_mul]; omega
  · rw [ts]; exact hg.timeset

/-- the initial state is the state of period 0 -/
theorem daily_init (da : DailyArgs a) (h : construct a = .ok r) :
    ∃ st0, init r = .ok st0 ∧ DailyGood a r 0 st0 ∧ st0.count = r.count := by
  have hs := daily_simple da.toDWArgs h
  have hv := da.valid
  unfold DT.Valid ValidDate at hv
  obtain ⟨info, hre, hnw, _, _⟩ := rebuild_simple r hs a.dtstart.y a.dtstart.m hv.1.1 hv.1.2.1
  obtain ⟨bh, bm, bs, hr⟩ := daily_rule da.toDWArgs h
  have hd : r.dtstart = { a.dtstart with us := 0 } := by rw [hr]
  have hf : r.freq = 3 := by rw [hr]; exact da.freq
  have hts : r.timeset = some (Spec.RRule.timesOf a none none none) := by rw [hr]
  refine ⟨{ cur := { year := a.dtstart.y, month := a.dtstart.m, day := a.dtstart.d, hour := a.dtstart.hh,
                     minute := a.dtstart.mm, second := a.dtstart.ss, weekday := r.dtstart.weekday },
            info := info, timeset := Spec.RRule.timesOf a none none none, count := r.count }, ?_, ?_, rfl⟩
  · unfold init
    simp only [hd, bind, Except.bind, hre, hf, hts, pure, Except.pure]
    rfl
  · refine ⟨rebuild_facts r _ _ info hre, hnw, hv.1.2.2, ?_, rfl⟩
    unfold curOrd Spec.RRule.startOrd DT.ordinal; simp

/-- **`iter_eq_spec`, DAILY portion.**  For every argument set with FREQ=DAILY, INTERVAL ≥ 1, a valid
    start, any BYMONTH / BYMONTHDAY (non-zero members) / BYYEARDAY / BYDAY / BYHOUR / BYMINUTE / BYSECOND,
    BYSETPOS, any COUNT / UNTIL, and no BYWEEKNO / BYEASTER: the values yielded during the first
    `n` periods are exactly the specification's recurrence set of those periods — for every `n`
    whose periods lie inside datetime's range. -/
theorem iter_eq_spec_daily (da : DailyArgs a) (h : construct a = .ok r) (n : Nat)
    (hn : Spec.RRule.startOrd a + n * a.interval ≤ maxOrdinal) :
    (iter r n).1 = Spec.RRule.occ a n := by
  have hi := da.interval
  have hmono : ∀ k : Nat, k ≤ n → Spec.RRule.startOrd a + k * a.interval ≤ maxOrdinal := by
    intro k hk
    have : (k : Int) * a.interval ≤ n * a.interval :=
      Int.mul_le_mul_of_nonneg_right (by omega) (by omega)
    omega
  have sim : Simulation a r n (DailyGood a r) := {
    agree := daily_cuts da.toDWArgs h
    results := fun k st hk hg => by
      obtain ⟨⟨fl, hres⟩, hb⟩ := daily_results da h k st hg (hmono k (by omega))
      exact ⟨fl, [], _, hres, rfl, by simp, hb⟩
    next := fun k st fl c hk hg => daily_next da h k st fl c hg (hmono (k + 1) (by omega))
    }
  obtain ⟨st0, hinit, hg0, hc0⟩ := daily_init da h
  exact iter_refines sim st0 hinit hg0 hc0 n (by omega)

end RRule
