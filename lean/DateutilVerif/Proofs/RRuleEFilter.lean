/-
  Proofs/RRuleEFilter.lean — the BY-filter abstraction for BYEASTER below YEARLY (DAILY and the sub-daily
  families): rules without BYWEEKNO and nth BYDAY whose BYEASTER offsets lie on the complement of D-C01d
  (−80..250).  For years 1583..4099 `rebuild` keeps the invariant `EInv` (no nth mask; the Easter mask marks the
  days that are Easter Sunday of their year plus a listed offset), under which the filter of a day of the year is
  `simpleOk ∧ eclause`; on the argument side that is the specification's `dateOk` (`dateOk_splitE`).
-/
import DateutilVerif.Proofs.RRuleWFilter
import DateutilVerif.Proofs.RRuleEasterYearly

namespace RRule
open Cal

/-- BYEASTER supplied, non-empty, on the complement of D-C01d -/
def EArg (a : Args) : Prop := ∃ el, a.byeaster = some el ∧ el ≠ [] ∧ ∀ o ∈ el, -80 ≤ o ∧ o ≤ 250

/-- 1 January 1583 and 31 December 4099: the years on which C19 ties `easter.easter` to Meeus/Jones/Butcher -/
def eminOrd : Int := toOrdinal 1583 1 1
def emaxOrd : Int := toOrdinal 4099 12 31

theorem emaxOrd_le : emaxOrd ≤ maxOrdinal := by decide
theorem emaxOrd_next : toOrdinal 4100 1 1 = emaxOrd + 1 := by decide
theorem eminOrd_prev : toOrdinal 1582 1 1 < eminOrd := by decide

structure ERule (r : Rule) : Prop where
  byweekno : truthy r.byweekno = false
  bynweekday : truthy r.bynweekday = false
  byeaster : truthy r.byeaster = true
  offsets : ∀ o ∈ r.byeaster.getD [], -80 ≤ o ∧ o ≤ 250

/-- the BYEASTER clause of a rule: the date is Easter Sunday of its year plus a listed offset -/
def eclause (r : Rule) (ord : Int) : Bool :=
  (r.byeaster.getD []).contains (ord - Spec.RRule.easterOrd (fromOrdinal ord).1)

/-- what `rebuild` establishes for an `ERule` in the years 1583..4099 -/
def EInv (r : Rule) (info : Info) : Prop :=
  info.nwdaymask = none ∧ eminOrd ≤ info.yearordinal ∧
  ∃ mask, info.eastermask = some mask ∧ info.yearlen ≤ (mask.length : Int) ∧
    ∀ j : Int, 0 ≤ j → j < info.yearlen →
      Py.getIdx mask j = .ok (if eclause r (info.yearordinal + j) = true then 1 else 0)

variable {r : Rule} {y : Int} {info : Info}

theorem ERule.easterRule (he : ERule r) : EasterRule r := ⟨he.byweekno, he.bynweekday, he.byeaster⟩

theorem ERule.list (he : ERule r) : ∃ el, r.byeaster = some el := by
  have := he.byeaster
  cases hq : r.byeaster with
  | none => rw [hq] at this; simp [truthy] at this
  | some el => exact ⟨el, rfl⟩

/-- a valid date not after 31 December 4099 lies in a year ≤ 4099 -/
theorem year_le_of_ord (y m d : Int) (hv : ValidYMD y m d) (h : toOrdinal y m d ≤ emaxOrd) : y ≤ 4099 := by
  by_cases c : y ≤ 4099
  · exact c
  · exfalso
    have h1 := year_start_mono 4100 y (by omega)
    have h2 := index_range y m d hv
    have h3 := emaxOrd_next
    omega

/-- a year whose 1 January is not before 1 January 1583 -/
theorem year_ge_of_ord (y : Int) (h : eminOrd ≤ toOrdinal y 1 1) : 1583 ≤ y := by
  by_cases c : 1583 ≤ y
  · exact c
  · exfalso
    have h1 := year_start_mono y 1582 (by omega)
    have h2 := eminOrd_prev
    omega

theorem rebuild_e (he : ERule r) (y m : Int) (hy1 : 1583 ≤ y) (hy2 : y ≤ 4099) :
    ∃ info, rebuild r y m = .ok info ∧ EInv r info := by
  obtain ⟨el, hel⟩ := he.list
  have hoff : ∀ o ∈ el, -80 ≤ o ∧ o ≤ 250 := by
    have := he.offsets; rw [hel] at this; exact this
  obtain ⟨info, mask, hre, hnw, hm, hspec⟩ := rebuild_easter he.easterRule el hel hoff y m hy1 hy2
  have f := rebuild_facts r y m info hre
  have hylen : 365 ≤ info.yearlen := by rw [f.yearlen]; unfold daysInYear; split <;> omega
  refine ⟨info, hre, hnw, ?_, mask, hm, ?_, ?_⟩
  · rw [f.yearordinal]; exact year_start_mono 1583 y hy1
  · have := getIdx_ok_len mask (info.yearlen + 6) _ (by omega) (hspec (info.yearlen + 6) (by omega) (by omega))
    omega
  · intro j hj0 hj1
    rw [hspec j hj0 (by omega)]
    have hfo := date_of_yday y j (by omega) hj0 (by rw [← f.yearlen]; exact hj1)
    unfold eclause
    rw [hel, Option.getD_some, f.yearordinal, hfo]
    dsimp only
    by_cases c : (toOrdinal y 1 1 + j - Spec.RRule.easterOrd y) ∈ el
    · rw [if_pos c, if_pos (List.contains_iff_mem.mpr c)]
    · rw [if_neg c, if_neg (fun h => c (List.contains_iff_mem.mp h))]

theorem dayFiltered_e (he : ERule r) (f : YearFacts r y info) (inv : EInv r info) (i : Int) (h0 : 0 ≤ i)
    (h1 : i < info.yearlen) :
    dayFiltered r info i = .ok (!(simpleOk r (info.yearordinal + i) && eclause r (info.yearordinal + i))) := by
  obtain ⟨hnw, _, mask, hm, hlen, hspec⟩ := inv
  rw [dayFiltered_easter he.easterRule f mask hnw hm i h0 h1 hlen]
  have hgi := hspec i h0 h1
  rw [getIdx_int mask i h0 (by omega)] at hgi
  injection hgi with hgi
  rw [hgi]
  cases eclause r (info.yearordinal + i) <;> rfl

/-- `fixDay` for an `ERule`: succeeds while the cursor's day number stays inside 1583..4099, and keeps the invariant -/
theorem fixDay_ok_e (he : ERule r) (st : State) (b : Bool) (f : YearFacts r st.cur.year st.info)
    (hm1 : 1 ≤ st.cur.month) (hm12 : st.cur.month ≤ 12) (hd1 : 1 ≤ st.cur.day)
    (hle : curOrd st.cur ≤ emaxOrd) (inv : EInv r st.info) :
    ∃ st', fixDay r st b = .ok st' ∧ EInv r st'.info := by
  have hy1 : 1583 ≤ st.cur.year := year_ge_of_ord _ (by rw [← f.yearordinal]; exact inv.2.1)
  have hmx := emaxOrd_le
  unfold fixDay
  dsimp only
  split
  · split
    · obtain ⟨⟨y, m, d⟩, hroll⟩ := rollDays_total st.cur.day.toNat st.cur.year st.cur.month st.cur.day
        hm1 hm12 hd1 (by omega) f.year_hi (by unfold curOrd at hle; omega)
      have sp := rollDays_spec st.cur.day.toNat _ _ _ y m d hm1 hm12 hd1 (by omega) hroll
      have hy2 : y ≤ 4099 := year_le_of_ord y m d sp.2.1 (by rw [sp.1]; exact hle)
      obtain ⟨info, hre, hinv⟩ := rebuild_e he y m (by omega) hy2
      rw [hroll]; dsimp only
      rw [hre]
      exact ⟨_, rfl, hinv⟩
    · exact ⟨_, rfl, inv⟩
  · exact ⟨_, rfl, inv⟩

/-- the results of a single-day period under the invariant -/
theorem periodResults_day_e (he : ERule r) (st : State) (f : YearFacts r st.cur.year st.info) (inv : EInv r st.info)
    (hv : ValidYMD st.cur.year st.cur.month st.cur.day) (hf : 3 ≤ r.freq)
    (hnz : ∀ q ∈ r.bysetpos.getD [], q ≠ 0) (hts : TsOk st.timeset) (hle : curOrd st.cur ≤ maxOrdinal) :
    ∃ fl, periodResults r st = .ok
      (applySetpos r.bysetpos
        (((intRange (curOrd st.cur) (curOrd st.cur + 1)).filter (fun o => simpleOk r o && eclause r o)).flatMap
          (fun o => st.timeset.map (mkInst o))), none, fl) ∧
      (fl = true → (simpleOk r (curOrd st.cur) && eclause r (curOrd st.cur)) = false) := by
  have hidx := index_range _ _ _ hv
  have hyo := f.yearordinal
  have hyl := f.yearlen
  have hpos : 1 ≤ curOrd st.cur := toOrdinal_pos _ _ _ f.year_lo hv
  have hd0 := dayset_daily st.cur hf f hv
  have hd : dayset r st.info st.cur =
      .ok (intRange (curOrd st.cur - st.info.yearordinal) (curOrd st.cur - st.info.yearordinal + 1)) := by
    rw [hd0, intRange_one]
  have hi0 : 0 ≤ curOrd st.cur - st.info.yearordinal := by unfold curOrd; rw [hyo]; exact hidx.1
  have hi1 : curOrd st.cur - st.info.yearordinal < st.info.yearlen := by
    unfold curOrd; rw [hyo, hyl]; exact hidx.2
  obtain ⟨fl, hres⟩ := periodResults_range_P st (fun o => simpleOk r o && eclause r o)
    (by intro i hi0' hi1'; exact dayFiltered_e he f inv i (by omega) (by omega)) hnz hts hd (by omega) (by omega)
  have e1 : st.info.yearordinal + (curOrd st.cur - st.info.yearordinal) = curOrd st.cur := by omega
  have e2 : st.info.yearordinal + (curOrd st.cur - st.info.yearordinal + 1) = curOrd st.cur + 1 := by omega
  rw [e1, e2] at hres
  refine ⟨fl, hres, ?_⟩
  intro hfl
  obtain ⟨i, hi, hfi⟩ := periodResults_flag st _ hd0 _ _ _ hres hfl
  simp only [List.mem_singleton] at hi
  subst hi
  rw [dayFiltered_e he f inv _ hi0 hi1, e1] at hfi
  injection hfi with hfi
  cases hq : (simpleOk r (curOrd st.cur) && eclause r (curOrd st.cur)) with
  | false => rfl
  | true => rw [hq] at hfi; cases hfi

/-! ### the argument side -/

/-- the same argument set at DAILY and without BYEASTER: at FREQ ≥ DAILY the other date-level parts are
    normalised and read identically -/
def asDailyE (a : Args) : Args := { a with freq := 3, byeaster := none }

/-- the BYEASTER conjunct of `dateOk` -/
def specE (a : Args) (ord : Int) : Bool :=
  match a.byeaster with
  | some (x :: xs) => (x :: xs).contains (ord - Spec.RRule.easterOrd (fromOrdinal ord).1)
  | _ => true

theorem dateOk_splitE (a : Args) (hf : 3 ≤ a.freq) (ord : Int) :
    Spec.RRule.dateOk a ord = (Spec.RRule.dateOk (asDailyE a) ord && specE a ord) := by
  have f0 : (a.freq == 0) = false := by rw [beq_eq_false_iff_ne]; omega
  have f1 : (a.freq == 1) = false := by rw [beq_eq_false_iff_ne]; omega
  have f2 : (a.freq == 2) = false := by rw [beq_eq_false_iff_ne]; omega
  have fg : decide (a.freq > 1) = true := by rw [decide_eq_true_eq]; omega
  unfold Spec.RRule.dateOk Spec.RRule.months Spec.RRule.monthdays Spec.RRule.weekdays Spec.RRule.wkst specE asDailyE
  have g0 : ((3 : Int) == 0) = false := by decide
  have g1 : ((3 : Int) == 1) = false := by decide
  have g2 : ((3 : Int) == 2) = false := by decide
  have gg : decide ((3 : Int) > 1) = true := by decide
  simp only [f0, f1, f2, fg, g0, g1, g2, gg, Bool.and_false, Bool.or_self, Bool.false_eq_true, ↓reduceIte, Bool.or_true,
    Bool.true_or]
  rcases a.byeaster with _ | (_ | ⟨x, xs⟩) <;> dsimp only <;> (try simp only [Bool.and_true])

theorem eclause_eq_specE (a : Args) (r : Rule) (hea : EArg a) (hbe : r.byeaster = a.byeaster.map (sortBy ltInt))
    (ord : Int) : eclause r ord = specE a ord := by
  obtain ⟨el, hel, hne, _⟩ := hea
  unfold eclause specE
  rw [hbe, hel]
  cases el with
  | nil => exact absurd rfl hne
  | cons x xs =>
    dsimp only [Option.map_some, Option.getD_some]
    rw [Bool.eq_iff_iff, List.contains_iff_mem, List.contains_iff_mem, mem_sortBy]

theorem date_fields_asDailyE (a : Args) (hf : 3 ≤ a.freq) :
    bymonthdayOf (asDailyE a) = bymonthdayOf a ∧ bynmonthdayOf (asDailyE a) = bynmonthdayOf a ∧
    byweekdayOf (asDailyE a) = byweekdayOf a := by
  have f0 : (a.freq == 0) = false := by rw [beq_eq_false_iff_ne]; omega
  have f1 : (a.freq == 1) = false := by rw [beq_eq_false_iff_ne]; omega
  have f2 : (a.freq == 2) = false := by rw [beq_eq_false_iff_ne]; omega
  have fg : decide (a.freq > 1) = true := by rw [decide_eq_true_eq]; omega
  have hm : monthdayArg (asDailyE a) = monthdayArg a := by
    unfold monthdayArg asDailyE; simp [f0, f1]
  have hw : weekdayArg (asDailyE a) = weekdayArg a := by
    unfold weekdayArg asDailyE; simp [f2]
  have hp : ∀ l, plainWeekdays (asDailyE a) l = plainWeekdays a l := by
    intro l; unfold plainWeekdays asDailyE; simp [fg]
  refine ⟨by unfold bymonthdayOf; rw [hm], by unfold bynmonthdayOf; rw [hm], ?_⟩
  unfold byweekdayOf; rw [hw]
  cases weekdayArg a with
  | none => rfl
  | some l => dsimp only; rw [hp]

/-- **bridge** for a family at FREQ ≥ DAILY: filter predicate of the rule = `dateOk` of the arguments -/
theorem eOk_eq_dateOk (a : Args) (r : Rule) (hf : 3 ≤ a.freq) (hdw : DWArgs (asDailyE a)) (hea : EArg a)
    (h1 : r.bymonth = a.bymonth.map sortedSet) (h2 : r.bymonthday = bymonthdayOf a)
    (h3 : r.bynmonthday = bynmonthdayOf a) (h4 : r.byyearday = a.byyearday.map sortedSet)
    (h5 : r.byweekday = byweekdayOf a) (hbe : r.byeaster = a.byeaster.map (sortBy ltInt))
    (ord : Int) (ho : 1 ≤ ord) :
    (simpleOk r ord && eclause r ord) = Spec.RRule.dateOk a ord := by
  obtain ⟨e1, e2, e3⟩ := date_fields_asDailyE a hf
  have hs : simpleOk r ord = simpleOk (dailyRuleOf (asDailyE a) none none none) ord := by
    unfold simpleOk
    rw [h1, h2, h3, h4, h5]
    dsimp only
    rw [e1, e2, e3]
    rfl
  rw [hs, simpleOk_rule_eq_dateOk hdw none none none ord ho, eclause_eq_specE a r hea hbe, dateOk_splitE a hf]

/-- the rule of an argument set with `EArg` and without BYWEEKNO is an `ERule` -/
theorem erule_of (a : Args) (r : Rule) (hea : EArg a) (hbe : r.byeaster = a.byeaster.map (sortBy ltInt))
    (hbw : truthy r.byweekno = false) (hn : truthy r.bynweekday = false) : ERule r := by
  obtain ⟨el, hel, hne, hoff⟩ := hea
  refine ⟨hbw, hn, ?_, ?_⟩
  · rw [hbe, hel, Option.map_some, truthy_eq_not_isEmpty]
    cases el with
    | nil => exact absurd rfl hne
    | cons x xs =>
      cases hq : sortBy ltInt (x :: xs) with
      | nil =>
        have := (mem_sortBy ltInt x (x :: xs)).mpr (List.mem_cons_self ..)
        rw [hq] at this; simp at this
      | cons _ _ => rfl
  · intro o ho
    rw [hbe, hel, Option.map_some, Option.getD_some, mem_sortBy] at ho
    exact hoff o ho

/-- the start of a valid argument set in a year ≥ 1583 / not after 31 December 4099 -/
theorem start_year_hi (a : Args) (hv : a.dtstart.Valid) (h : Spec.RRule.startOrd a ≤ emaxOrd) : a.dtstart.y ≤ 4099 := by
  unfold DT.Valid ValidDate at hv
  exact year_le_of_ord _ _ _ hv.1.2.2 (by unfold Spec.RRule.startOrd DT.ordinal at h; exact h)

end RRule
