/-
  Proofs/RRuleWeeknoMask.lean — the whole week-number mask of `_iterinfo.rebuild` against the
  specification's week numbering (`Spec.RRule.weekOf`), on the complement of D-C01c.

  Part 1: week arithmetic (`week1Start` is Jan 1 plus an offset in −3..3 and falls on the week start;
          a week-year has 52 or 53 weeks; the code's `numweeks` is that number).
  Part 2: `weekOf` of a day of the year, in the three zones (last year's last week / weeks 1..numweeks /
          next year's week 1).
  Part 3: `buildWnomask` marks exactly the days whose week number (or negative week number) is listed.
-/
import DateutilVerif.Proofs.RRuleWeekno

namespace RRule
open Cal

/-! ### Part 1 -/

/-- offset of the first day of week 1 from Jan 1, from Jan 1's weekday -/
def w1off (w wd0 : Int) : Int := if 7 - (wd0 - w) % 7 ≥ 4 then -((wd0 - w) % 7) else 7 - (wd0 - w) % 7

theorem week1Start_eq (w y : Int) :
    Spec.RRule.week1Start w y = toOrdinal y 1 1 + w1off w (weekdayOfOrd (toOrdinal y 1 1)) := by
  unfold Spec.RRule.week1Start w1off
  dsimp only
  split <;> omega

theorem w1off_range (w wd0 : Int) : -3 ≤ w1off w wd0 ∧ w1off w wd0 ≤ 3 := by
  unfold w1off; split <;> omega

theorem week1Start_weekday (w y : Int) (hw : 0 ≤ w ∧ w ≤ 6) : weekdayOfOrd (Spec.RRule.week1Start w y) = w := by
  rw [week1Start_eq, weekdayOfOrd_add]
  have := weekdayOfOrd_range (toOrdinal y 1 1)
  unfold w1off; split <;> omega

/-- a week-year has 52 or 53 weeks -/
theorem weeks_in_year (w y : Int) (hw : 0 ≤ w ∧ w ≤ 6) :
    ∃ q, Spec.RRule.week1Start w (y + 1) - Spec.RRule.week1Start w y = 7 * q ∧ (q = 52 ∨ q = 53) := by
  have h1 := week1Start_weekday w y hw
  have h2 := week1Start_weekday w (y + 1) hw
  have e1 := week1Start_eq w y
  have e2 := week1Start_eq w (y + 1)
  have r1 := w1off_range w (weekdayOfOrd (toOrdinal y 1 1))
  have r2 := w1off_range w (weekdayOfOrd (toOrdinal (y + 1) 1 1))
  have hn := toOrdinal_next_year y
  have hl : daysInYear y = 365 ∨ daysInYear y = 366 := by unfold daysInYear; split <;> omega
  unfold weekdayOfOrd at h1 h2
  refine ⟨(Spec.RRule.week1Start w (y + 1) - Spec.RRule.week1Start w y) / 7, by omega, by omega⟩

/-! the code's quantities (lines 1160-1170), as functions of the week start, Jan 1's weekday and the year length -/

def firstwkstOf (wkst wd0 : Int) : Int := Py.fmod (7 - wd0 + wkst) 7
def no1wkstOf (wkst wd0 : Int) : Int := if firstwkstOf wkst wd0 ≥ 4 then 0 else firstwkstOf wkst wd0
def wyearlenOf (wkst wd0 yearlen : Int) : Int :=
  if firstwkstOf wkst wd0 ≥ 4 then yearlen + Py.fmod (wd0 - wkst) 7 else yearlen - firstwkstOf wkst wd0
def numweeksOf (wkst wd0 yearlen : Int) : Int :=
  Py.fdiv (wyearlenOf wkst wd0 yearlen) 7 + Py.fdiv (Py.fmod (wyearlenOf wkst wd0 yearlen) 7) 4
def backOf (wkst wd0 : Int) : Int :=
  if no1wkstOf wkst wd0 ≠ firstwkstOf wkst wd0 then 7 - firstwkstOf wkst wd0 else 0

theorem buildWnomask_unfold (wkst : Int) (bw : List Int) (year yearlen wd0 : Int) (wdaymask : List Int) :
    buildWnomask wkst bw year yearlen wd0 wdaymask =
      (match bw.foldlM (wnoStep wdaymask wkst (no1wkstOf wkst wd0) (numweeksOf wkst wd0 yearlen) (backOf wkst wd0))
              (List.replicate (yearlen + 7).toNat 0) with
       | .error e => .error e
       | .ok mask1 =>
         match (if bw.contains 1 ∧ no1wkstOf wkst wd0 + numweeksOf wkst wd0 yearlen * 7 - backOf wkst wd0 < yearlen
                then markWeek wdaymask wkst 7 mask1
                  (no1wkstOf wkst wd0 + numweeksOf wkst wd0 yearlen * 7 - backOf wkst wd0) else .ok mask1) with
         | .error e => .error e
         | .ok mask2 =>
           if no1wkstOf wkst wd0 ≠ 0 ∧
              bw.contains (lnumweeksOf wkst bw year yearlen wd0 (no1wkstOf wkst wd0)) then
             (intRange 0 (no1wkstOf wkst wd0)).foldlM (fun mask i => setIdx mask i 1) mask2
           else .ok mask2) := rfl

theorem wno_vals (wkst wd0 : Int) (hw : 0 ≤ wkst ∧ wkst ≤ 6) (hd : 0 ≤ wd0 ∧ wd0 ≤ 6) :
    no1wkstOf wkst wd0 - backOf wkst wd0 = w1off wkst wd0 ∧
    0 ≤ no1wkstOf wkst wd0 ∧ no1wkstOf wkst wd0 ≤ 3 ∧
    (no1wkstOf wkst wd0 = 0 ∨ no1wkstOf wkst wd0 = w1off wkst wd0) ∧
    (0 < w1off wkst wd0 → no1wkstOf wkst wd0 = w1off wkst wd0) ∧
    (backOf wkst wd0 = 0 ∨ (no1wkstOf wkst wd0 = 0 ∧ 1 ≤ backOf wkst wd0 ∧ backOf wkst wd0 ≤ 3)) := by
  unfold backOf no1wkstOf firstwkstOf w1off
  rw [Py.fmod_pos _ (by decide : (0 : Int) < 7)]
  refine ⟨?_, ?_, ?_, ?_, ?_, ?_⟩ <;> (repeat' split) <;> omega

theorem numweeks_eq (wkst wd0 yearlen q : Int) (hw : 0 ≤ wkst ∧ wkst ≤ 6) (hd : 0 ≤ wd0 ∧ wd0 ≤ 6)
    (hl : yearlen = 365 ∨ yearlen = 366)
    (hq : yearlen - w1off wkst wd0 + w1off wkst ((wd0 + yearlen) % 7) = 7 * q) :
    numweeksOf wkst wd0 yearlen = q := by
  unfold numweeksOf wyearlenOf firstwkstOf
  unfold w1off at hq
  simp only [Py.fmod_pos _ (by decide : (0 : Int) < 7), Py.fdiv_pos _ (by decide : (0 : Int) < 7),
    Py.fdiv_pos _ (by decide : (0 : Int) < 4)]
  rcases hl with hl | hl <;> subst hl <;> (repeat' split) <;> (repeat' split at hq) <;> omega

variable {r : Rule} {y : Int} {info : Info}

/-- the code's `numweeks` is the number of weeks of the week-year, and week 1 starts at index
    `no1wkst − back` -/
theorem numweeks_year (f : YearFacts r y info) (wkst : Int) (hw : 0 ≤ wkst ∧ wkst ≤ 6) :
    Spec.RRule.week1Start wkst y = info.yearordinal + w1off wkst info.yearweekday ∧
    Spec.RRule.week1Start wkst (y + 1) =
      info.yearordinal + w1off wkst info.yearweekday + 7 * numweeksOf wkst info.yearweekday info.yearlen ∧
    (numweeksOf wkst info.yearweekday info.yearlen = 52 ∨ numweeksOf wkst info.yearweekday info.yearlen = 53) := by
  have e1 := week1Start_eq wkst y
  have e2 := week1Start_eq wkst (y + 1)
  obtain ⟨q, hq, hq2⟩ := weeks_in_year wkst y hw
  have hl : info.yearlen = 365 ∨ info.yearlen = 366 := by rw [f.yearlen]; unfold daysInYear; split <;> omega
  have hd := weekdayOfOrd_range (toOrdinal y 1 1)
  rw [toOrdinal_next_year, weekdayOfOrd_add, ← f.yearweekday, ← f.yearordinal, ← f.yearlen] at e2
  rw [← f.yearweekday, ← f.yearordinal] at e1
  rw [← f.yearweekday] at hd
  have hnw := numweeks_eq wkst info.yearweekday info.yearlen q hw ⟨hd.1, by omega⟩ hl (by omega)
  rw [hnw]
  exact ⟨e1, by omega, hq2⟩

/-! ### Part 2: the week number of a day of the year -/

theorem weekOf_zones (w y j : Int) (hw : 0 ≤ w ∧ w ≤ 6) (hy : 1 ≤ y) (hj0 : 0 ≤ j) (hj1 : j < daysInYear y) :
    ∃ Q Np Nn, (Np = 52 ∨ Np = 53) ∧ (Nn = 52 ∨ Nn = 53) ∧
      Spec.RRule.week1Start w (y + 1) = Spec.RRule.week1Start w y + 7 * Q ∧
      (toOrdinal y 1 1 + j < Spec.RRule.week1Start w y → Spec.RRule.weekOf w (toOrdinal y 1 1 + j) = (Np, Np)) ∧
      (Spec.RRule.week1Start w y ≤ toOrdinal y 1 1 + j → toOrdinal y 1 1 + j < Spec.RRule.week1Start w (y + 1) →
        Spec.RRule.weekOf w (toOrdinal y 1 1 + j) = ((toOrdinal y 1 1 + j - Spec.RRule.week1Start w y) / 7 + 1, Q)) ∧
      (Spec.RRule.week1Start w (y + 1) ≤ toOrdinal y 1 1 + j → Spec.RRule.weekOf w (toOrdinal y 1 1 + j) = (1, Nn)) := by
  obtain ⟨Q, hQ, hQ2⟩ := weeks_in_year w y hw
  obtain ⟨Np, hNp, hNp2⟩ := weeks_in_year w (y - 1) hw
  obtain ⟨Nn, hNn, hNn2⟩ := weeks_in_year w (y + 1) hw
  have e0 : y - 1 + 1 = y := by omega
  rw [e0] at hNp
  have e1 := week1Start_eq w y
  have e2 := week1Start_eq w (y + 1)
  have r1 := w1off_range w (weekdayOfOrd (toOrdinal y 1 1))
  have r2 := w1off_range w (weekdayOfOrd (toOrdinal (y + 1) 1 1))
  have hn := toOrdinal_next_year y
  have hfo := date_of_yday y j hy hj0 hj1
  refine ⟨Q, Np, Nn, hNp2, hNn2, by omega, ?_, ?_, ?_⟩
  · intro h
    unfold Spec.RRule.weekOf
    rw [hfo]; dsimp only
    rw [if_neg (by omega), if_neg (by omega), e0]
    ext <;> dsimp only <;> omega
  · intro h1 h2
    unfold Spec.RRule.weekOf
    rw [hfo]; dsimp only
    rw [if_neg (by omega), if_pos (by omega)]
    ext <;> dsimp only <;> omega
  · intro h
    unfold Spec.RRule.weekOf
    rw [hfo]; dsimp only
    rw [if_pos (by omega)]
    ext <;> dsimp only <;> omega

/-! ### Part 3: the mask -/

/-- the BYWEEKNO clause of the specification -/
def weekClause (w : Int) (bw : List Int) (ord : Int) : Bool :=
  bw.contains (Spec.RRule.weekOf w ord).1 ||
    bw.contains ((Spec.RRule.weekOf w ord).1 - (Spec.RRule.weekOf w ord).2 - 1)

/-- the complement of D-C01c -/
structure WnoOk (bw : List Int) : Prop where
  last : 52 ∈ bw ∨ 53 ∈ bw → -1 ∈ bw
  first : -52 ∈ bw ∨ -53 ∈ bw → 1 ∈ bw

theorem lnumweeks_cases (wkst : Int) (bw : List Int) (year yearlen wd0 n1 : Int) :
    ((-1 : Int) ∈ bw ∧ lnumweeksOf wkst bw year yearlen wd0 n1 = -1) ∨
    ((-1 : Int) ∉ bw ∧ (lnumweeksOf wkst bw year yearlen wd0 n1 = 52 ∨ lnumweeksOf wkst bw year yearlen wd0 n1 = 53)) := by
  unfold lnumweeksOf
  by_cases c : (-1 : Int) ∈ bw
  · left
    have : bw.contains (-1) = true := by rw [List.contains_iff_mem]; exact c
    simp [this, c]
  · right
    have : bw.contains (-1) = false := by
      cases hq : bw.contains (-1) with
      | false => rfl
      | true => rw [List.contains_iff_mem] at hq; exact absurd hq c
    refine ⟨c, ?_⟩
    simp only [this, Bool.not_false, ↓reduceIte, Py.fmod_pos _ (by decide : (0 : Int) < 7),
      Py.fdiv_pos _ (by decide : (0 : Int) < 4)]
    split <;> omega

theorem setRange_spec (n : Int) (mask : List Int) (hn : 0 ≤ n ∧ n ≤ mask.length) :
    ∃ mask', (intRange 0 n).foldlM (fun m i => setIdx m i 1) mask = .ok mask' ∧ mask'.length = mask.length ∧
      ∀ j : Int, 0 ≤ j → j < (mask.length : Int) →
        Py.getIdx mask' j = (if j < n then .ok 1 else Py.getIdx mask j) := by
  have e : (fun (m : List Int) (i : Int) => setIdx m i 1) = (fun m off => setIdx m (0 + off) 1) := by
    funext m o; rw [Int.zero_add]
  obtain ⟨m', h1, h2, h3⟩ := foldl_setIdx 0 (intRange 0 n) mask (by
    intro o ho; rw [mem_intRange] at ho; omega)
  refine ⟨m', by rw [e]; exact h1, h2, ?_⟩
  intro j hj0 hj1
  rw [h3 j hj0 hj1]
  by_cases c : j < n
  · rw [if_pos c, if_pos (by rw [mem_intRange]; omega)]
  · rw [if_neg c, if_neg (by rw [mem_intRange]; omega)]

/-- **the week-number mask**: inside the year, an index is marked iff the date's week number, or its
    week number counted from the end of its week-year, is listed (on the complement of D-C01c) -/
theorem buildWnomask_spec (f : YearFacts r y info) (wkst : Int) (hw : 0 ≤ wkst ∧ wkst ≤ 6) (bw : List Int)
    (hc : WnoOk bw) :
    ∃ mask, buildWnomask wkst bw y info.yearlen info.yearweekday info.wdaymask = .ok mask ∧
      (mask.length : Int) = info.yearlen + 7 ∧
      ∀ j : Int, 0 ≤ j → j < info.yearlen →
        Py.getIdx mask j = .ok (if weekClause wkst bw (info.yearordinal + j) = true then 1 else 0) := by
  have hl : info.yearlen = 365 ∨ info.yearlen = 366 := by rw [f.yearlen]; unfold daysInYear; split <;> omega
  have hd := weekdayOfOrd_range (toOrdinal y 1 1)
  rw [← f.yearweekday] at hd
  obtain ⟨v1, v2, v3, v4, v5, v6⟩ := wno_vals wkst info.yearweekday hw ⟨hd.1, by omega⟩
  obtain ⟨n1, n2, n3⟩ := numweeks_year f wkst hw
  have hws := week1Start_weekday wkst y hw
  have hnext := week1Start_eq wkst (y + 1)
  rw [toOrdinal_next_year, ← f.yearordinal, ← f.yearlen] at hnext
  have hr2 := w1off_range wkst (weekdayOfOrd (info.yearordinal + info.yearlen))
  have hlc := lnumweeks_cases wkst bw y info.yearlen info.yearweekday (no1wkstOf wkst info.yearweekday)
  rw [buildWnomask_unfold]
  generalize lnumweeksOf wkst bw y info.yearlen info.yearweekday (no1wkstOf wkst info.yearweekday) = ln at *
  generalize numweeksOf wkst info.yearweekday info.yearlen = Q at *
  generalize backOf wkst info.yearweekday = B at *
  generalize no1wkstOf wkst info.yearweekday = N1 at *
  generalize w1off wkst info.yearweekday = S at *
  have hlen0 : ((List.replicate (info.yearlen + 7).toNat (0 : Int)).length : Int) = info.yearlen + 7 := by
    rw [List.length_replicate]; omega
  have hg0 : ∀ j : Int, 0 ≤ j → j < info.yearlen + 7 →
      Py.getIdx (List.replicate (info.yearlen + 7).toNat (0 : Int)) j = .ok 0 := by
    intro j h0 h1
    rw [getIdx_int _ j h0 (by omega), List.getElem_replicate]
  have hws' : weekdayOfOrd (info.yearordinal + (N1 - B)) = wkst := by rw [v1, ← n1]; exact hws
  obtain ⟨m1, hm1, hl1, hg1⟩ := weekLoop_spec f wkst hw N1 Q B ⟨v2, v3⟩ v6 hws' (by omega) bw _ hlen0
  rw [hm1]
  dsimp only
  have hl1' : (m1.length : Int) = info.yearlen + 7 := by rw [hl1]; exact hlen0
  -- next year's week 1
  have h2 : ∃ m2, (if bw.contains 1 = true ∧ N1 + Q * 7 - B < info.yearlen
        then markWeek info.wdaymask wkst 7 m1 (N1 + Q * 7 - B) else .ok m1) = .ok m2 ∧
      (m2.length : Int) = info.yearlen + 7 ∧
      ∀ j : Int, 0 ≤ j → j < info.yearlen + 7 →
        Py.getIdx m2 j = (if (bw.contains 1 = true ∧ N1 + Q * 7 - B < info.yearlen) ∧
            N1 + Q * 7 - B ≤ j ∧ j < N1 + Q * 7 - B + 7 then .ok 1 else Py.getIdx m1 j) := by
    by_cases c : bw.contains 1 = true ∧ N1 + Q * 7 - B < info.yearlen
    · rw [if_pos c]
      obtain ⟨m2, hm2, hl2, hg2⟩ := markWeek_week f wkst hw (N1 + Q * 7 - B) m1 (by omega) (by omega) (by omega)
      refine ⟨m2, hm2, by rw [hl2]; exact hl1', ?_⟩
      intro j hj0 hj1
      rw [hg2 j hj0 (by omega)]
      have hwd : weekdayOfOrd (info.yearordinal + (N1 + Q * 7 - B)) = wkst := by
        have e : info.yearordinal + (N1 + Q * 7 - B) = info.yearordinal + (N1 - B) + 7 * Q := by omega
        rw [e, weekdayOfOrd_add, hws']; omega
      rw [hwd]
      have e7 : (wkst - wkst - 1) % 7 + 1 = 7 := by omega
      rw [e7]
      by_cases c2 : N1 + Q * 7 - B ≤ j ∧ j < N1 + Q * 7 - B + 7
      · rw [if_pos c2, if_pos ⟨c, c2⟩]
      · rw [if_neg c2, if_neg (fun h => c2 h.2)]
    · rw [if_neg c]
      refine ⟨m1, rfl, hl1', ?_⟩
      intro j _ _
      rw [if_neg (fun h => c h.1)]
  obtain ⟨m2, hm2, hl2, hg2⟩ := h2
  rw [hm2]
  dsimp only
  -- last year's last week
  have h3 : ∃ m3, (if N1 ≠ 0 ∧ bw.contains ln = true
        then (intRange 0 N1).foldlM (fun mask i => setIdx mask i 1) m2 else .ok m2) = .ok m3 ∧
      (m3.length : Int) = info.yearlen + 7 ∧
      ∀ j : Int, 0 ≤ j → j < info.yearlen + 7 →
        Py.getIdx m3 j = (if (N1 ≠ 0 ∧ bw.contains ln = true) ∧ j < N1 then .ok 1 else Py.getIdx m2 j) := by
    by_cases c : N1 ≠ 0 ∧ bw.contains ln = true
    · rw [if_pos c]
      obtain ⟨m3, hm3, hl3, hg3⟩ := setRange_spec N1 m2 ⟨v2, by omega⟩
      refine ⟨m3, hm3, by rw [hl3]; exact hl2, ?_⟩
      intro j hj0 hj1
      rw [hg3 j hj0 (by omega)]
      by_cases c2 : j < N1
      · rw [if_pos c2, if_pos ⟨c, c2⟩]
      · rw [if_neg c2, if_neg (fun h => c2 h.2)]
    · rw [if_neg c]
      refine ⟨m2, rfl, hl2, ?_⟩
      intro j _ _
      rw [if_neg (fun h => c h.1)]
  obtain ⟨m3, hm3, hl3, hg3⟩ := h3
  refine ⟨m3, hm3, hl3, ?_⟩
  intro j hj0 hj1
  rw [hg3 j hj0 (by omega), hg2 j hj0 (by omega), hg1 j hj0 (by omega), hg0 j hj0 (by omega)]
  -- the specification's side
  obtain ⟨Q', Np, Nn, hNp, hNn, hQ', z1, z2, z3⟩ := weekOf_zones wkst y j hw f.year_lo hj0 (by rw [← f.yearlen]; exact hj1)
  rw [← f.yearordinal] at z1 z2 z3
  have hQQ : Q' = Q := by omega
  subst hQQ
  have hmem : ∀ x : Int, bw.contains x = true ↔ x ∈ bw := fun x => List.contains_iff_mem
  unfold weekClause
  by_cases zc : info.yearordinal + j < Spec.RRule.week1Start wkst y
  · -- last year's last week
    rw [z1 zc]
    dsimp only
    have e : Np - Np - 1 = -1 := by omega
    rw [e]
    have hS : j < S := by omega
    have hN : N1 = S := v5 (by omega)
    have c1 : ¬ ∃ n ∈ bw, 0 < normWeek Q' n ∧ normWeek Q' n ≤ Q' ∧ inWeek (N1 - B) (normWeek Q' n) j := by
      rintro ⟨n, _, h1, _, h3, _⟩; omega
    rw [if_neg c1, if_neg (show ¬ ((bw.contains 1 = true ∧ N1 + Q' * 7 - B < info.yearlen) ∧
            N1 + Q' * 7 - B ≤ j ∧ j < N1 + Q' * 7 - B + 7) by rintro ⟨_, h, _⟩; omega)]
    by_cases cm : (-1 : Int) ∈ bw
    · have hln : ln = -1 := by rcases hlc with h | h; exact h.2; exact absurd cm h.1
      rw [if_pos ⟨⟨by omega, by rw [hln, hmem]; exact cm⟩, by omega⟩]
      have : (bw.contains Np || bw.contains (-1)) = true := by rw [(hmem (-1)).mpr cm]; simp
      rw [if_pos this]
    · have hln : ln = 52 ∨ ln = 53 := by rcases hlc with h | h; exact absurd h.1 cm; exact h.2
      have h52 : (52 : Int) ∉ bw := fun h => cm (hc.last (Or.inl h))
      have h53 : (53 : Int) ∉ bw := fun h => cm (hc.last (Or.inr h))
      have hnl : ¬ (bw.contains ln = true) := by rw [hmem]; rcases hln with h | h <;> rw [h] <;> assumption
      rw [if_neg (fun h => hnl h.1.2)]
      have hnp : ¬ (bw.contains Np = true) := by rw [hmem]; rcases hNp with h | h <;> rw [h] <;> assumption
      have hnm : ¬ (bw.contains (-1) = true) := by rw [hmem]; exact cm
      have : ¬ ((bw.contains Np || bw.contains (-1)) = true) := by
        rw [Bool.or_eq_true]; exact fun h => h.elim hnp hnm
      rw [if_neg this]
  · by_cases zd : info.yearordinal + j < Spec.RRule.week1Start wkst (y + 1)
    · -- weeks 1..numweeks of this year
      rw [z2 (by omega) zd]
      dsimp only
      have hS : S ≤ j ∧ j < S + 7 * Q' := by omega
      have e : (info.yearordinal + j - Spec.RRule.week1Start wkst y) / 7 + 1 = (j - S) / 7 + 1 := by
        rw [n1]; congr 2; omega
      rw [e]
      rw [if_neg (show ¬ ((N1 ≠ 0 ∧ bw.contains ln = true) ∧ j < N1) by
            rintro ⟨⟨h1, _⟩, h2⟩; rcases v4 with h | h <;> omega),
          if_neg (show ¬ ((bw.contains 1 = true ∧ N1 + Q' * 7 - B < info.yearlen) ∧
            N1 + Q' * 7 - B ≤ j ∧ j < N1 + Q' * 7 - B + 7) by rintro ⟨_, h, _⟩; omega)]
      have hin : ∀ n' : Int, inWeek (N1 - B) n' j ↔ n' = (j - S) / 7 + 1 := by
        intro n'; unfold inWeek; rw [v1]; omega
      have hiff : (∃ n ∈ bw, 0 < normWeek Q' n ∧ normWeek Q' n ≤ Q' ∧ inWeek (N1 - B) (normWeek Q' n) j) ↔
          (bw.contains ((j - S) / 7 + 1) || bw.contains ((j - S) / 7 + 1 - Q' - 1)) = true := by
        rw [Bool.or_eq_true, hmem, hmem]
        constructor
        · rintro ⟨n, hn, h1, h2, h3⟩
          rw [hin] at h3
          unfold normWeek at h1 h2 h3
          by_cases cn : n < 0
          · rw [if_pos cn] at h1 h2 h3
            right
            have : (j - S) / 7 + 1 - Q' - 1 = n := by omega
            rw [this]; exact hn
          · rw [if_neg cn] at h1 h2 h3
            left; rw [← h3]; exact hn
        · rintro (h | h)
          · refine ⟨_, h, ?_⟩
            have : normWeek Q' ((j - S) / 7 + 1) = (j - S) / 7 + 1 := by unfold normWeek; rw [if_neg (by omega)]
            rw [this, hin]
            exact ⟨by omega, by omega, rfl⟩
          · refine ⟨_, h, ?_⟩
            have : normWeek Q' ((j - S) / 7 + 1 - Q' - 1) = (j - S) / 7 + 1 := by
              unfold normWeek; rw [if_pos (by omega)]; omega
            rw [this, hin]
            exact ⟨by omega, by omega, rfl⟩
      by_cases c1 : ∃ n ∈ bw, 0 < normWeek Q' n ∧ normWeek Q' n ≤ Q' ∧ inWeek (N1 - B) (normWeek Q' n) j
      · rw [if_pos c1, if_pos (hiff.mp c1)]
      · rw [if_neg c1, if_neg (fun h => c1 (hiff.mpr h))]
    · -- next year's week 1
      rw [z3 (by omega)]
      dsimp only
      have e : (1 : Int) - Nn - 1 = -Nn := by omega
      rw [e]
      have hS : S + 7 * Q' ≤ j := by omega
      have c1 : ¬ ∃ n ∈ bw, 0 < normWeek Q' n ∧ normWeek Q' n ≤ Q' ∧ inWeek (N1 - B) (normWeek Q' n) j := by
        rintro ⟨n, _, h1, h2, h3, h4⟩; rw [v1] at h4; omega
      rw [if_neg (show ¬ ((N1 ≠ 0 ∧ bw.contains ln = true) ∧ j < N1) by rintro ⟨_, h⟩; rcases hNn with h' | h' <;> omega),
          if_neg c1]
      by_cases c1' : (1 : Int) ∈ bw
      · rw [if_pos ⟨⟨(hmem 1).mpr c1', by omega⟩, by omega, by omega⟩]
        have : (bw.contains 1 || bw.contains (-Nn)) = true := by rw [(hmem 1).mpr c1']; simp
        rw [if_pos this]
      · have hn1 : ¬ (bw.contains 1 = true) := by rw [hmem]; exact c1'
        rw [if_neg (fun h => hn1 h.1.1)]
        have hnn : ¬ (bw.contains (-Nn) = true) := by
          rw [hmem]; rcases hNn with h | h <;> rw [h]
          · exact fun h => c1' (hc.first (Or.inl h))
          · exact fun h => c1' (hc.first (Or.inr h))
        have : ¬ ((bw.contains 1 || bw.contains (-Nn)) = true) := by
          rw [Bool.or_eq_true]; exact fun h => h.elim hn1 hnn
        rw [if_neg this]

end RRule
