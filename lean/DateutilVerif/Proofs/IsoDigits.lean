/- Proofs/IsoDigits.lean — fixed-width digit fields: printing then `_parse_digits` is the identity,
   and a field accepted by `_parse_digits` is the printing of its value. -/
import DateutilVerif.Model.IsoParser
import DateutilVerif.Spec.IsoForms

namespace Iso
open IsoSpec

theorem dch_ge (k : Nat) : 48 ≤ dch k ∧ dch k ≤ 57 := by unfold dch; omega

@[simp] theorem isDigit_dch (k : Nat) : isDigit (dch k) = true := by
  have := dch_ge k; simp [isDigit, this]

@[simp] theorem dch_ne_45 (k : Nat) : (dch k = 45) = False := by have := dch_ge k; simp; omega
@[simp] theorem dch_ne_43 (k : Nat) : (dch k = 43) = False := by have := dch_ge k; simp; omega
@[simp] theorem dch_ne_44 (k : Nat) : (dch k = 44) = False := by have := dch_ge k; simp; omega
@[simp] theorem dch_ne_46 (k : Nat) : (dch k = 46) = False := by have := dch_ge k; simp; omega
@[simp] theorem dch_ne_58 (k : Nat) : (dch k = 58) = False := by have := dch_ge k; simp; omega
@[simp] theorem dch_ne_87 (k : Nat) : (dch k = 87) = False := by have := dch_ge k; simp; omega
@[simp] theorem dch_ne_90 (k : Nat) : (dch k = 90) = False := by have := dch_ge k; simp; omega
@[simp] theorem dch_ne_122 (k : Nat) : (dch k = 122) = False := by have := dch_ge k; simp; omega

theorem dch_sub (k : Nat) : dch k - 48 = k % 10 := by unfold dch; omega

theorem parseDigits_1 (n : Nat) (h : n < 10) : parseDigits [dch n] 1 = .ok (n : Int) := by
  simp [parseDigits, bytesIsDigit, digitsVal, dch_sub]; omega

theorem parseDigits_2 (n : Nat) (h : n < 100) : parseDigits [dch (n / 10), dch n] 2 = .ok (n : Int) := by
  simp [parseDigits, bytesIsDigit, digitsVal, dch_sub]; omega

theorem parseDigits_3 (n : Nat) (h : n < 1000) :
    parseDigits [dch (n / 100), dch (n / 10), dch n] 3 = .ok (n : Int) := by
  simp [parseDigits, bytesIsDigit, digitsVal, dch_sub]; omega

theorem parseDigits_4 (n : Nat) (h : n < 10000) :
    parseDigits [dch (n / 1000), dch (n / 100), dch (n / 10), dch n] 4 = .ok (n : Int) := by
  simp [parseDigits, bytesIsDigit, digitsVal, dch_sub]; omega

/-- `_parse_digits` fails on a field that is not all digits -/
theorem parseDigits_nondigit (f : Bytes) (w : Nat) (h : f.all isDigit = false) :
    parseDigits f w = .error .ValueError := by
  simp [parseDigits, bytesIsDigit, h]

/-- what `_parse_digits` accepts: exactly `width` ASCII digits, value = decimal reading -/
theorem parseDigits_ok_iff (f : Bytes) (w : Nat) (v : Int) (hw : 0 < w) :
    parseDigits f w = .ok v ↔ (f.length = w ∧ f.all isDigit = true ∧ v = (digitsVal f : Nat)) := by
  unfold parseDigits bytesIsDigit
  by_cases hl : f.length = w
  · cases hd : f.all isDigit
    · simp [hl]
    · have : f ≠ [] := by intro e; subst e; simp at hl; omega
      simp only [hl]
      constructor
      · intro h; simp [this] at h; simp [h]
      · intro h; simp [h.2.2, this]
  · simp [hl]

theorem parseDigits_err (f : Bytes) (w : Nat) (e : Py.PyErr) (h : parseDigits f w = .error e) :
    e = .ValueError := by
  unfold parseDigits at h; split at h <;> simp_all

theorem isDigit_iff (b : Nat) : isDigit b = true ↔ 48 ≤ b ∧ b ≤ 57 := by simp [isDigit]

theorem dch_of_digit (b : Nat) (h : isDigit b = true) : dch (b - 48) = b := by
  rw [isDigit_iff] at h; unfold dch; omega

/-- a 2-digit field is the printing of its value -/
theorem pad2_digitsVal (a b : Nat) (ha : isDigit a = true) (hb : isDigit b = true) :
    pad2 (digitsVal [a, b]) = [a, b] ∧ digitsVal [a, b] < 100 := by
  rw [isDigit_iff] at ha hb
  simp [pad2, digitsVal, dch]; omega

theorem pad1_digitsVal (a : Nat) (ha : isDigit a = true) :
    pad1 (digitsVal [a]) = [a] ∧ digitsVal [a] < 10 := by
  rw [isDigit_iff] at ha
  simp [pad1, digitsVal, dch]; omega

theorem pad3_digitsVal (a b c : Nat) (ha : isDigit a = true) (hb : isDigit b = true)
    (hc : isDigit c = true) : pad3 (digitsVal [a, b, c]) = [a, b, c] ∧ digitsVal [a, b, c] < 1000 := by
  rw [isDigit_iff] at ha hb hc
  simp [pad3, digitsVal, dch]; omega

theorem pad4_digitsVal (a b c d : Nat) (ha : isDigit a = true) (hb : isDigit b = true)
    (hc : isDigit c = true) (hd : isDigit d = true) :
    pad4 (digitsVal [a, b, c, d]) = [a, b, c, d] ∧ digitsVal [a, b, c, d] < 10000 := by
  rw [isDigit_iff] at ha hb hc hd
  simp [pad4, digitsVal, dch]; omega

end Iso
