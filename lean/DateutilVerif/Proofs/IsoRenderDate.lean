/- Proofs/IsoRenderDate.lean — `_parse_isodate` on the rendering of each date form. -/
import DateutilVerif.Proofs.IsoDigits
namespace Iso
open IsoSpec

macro "len_close" : tactic => `(tactic| (repeat' (first | rfl | omega | split)))

/-- tail after a complete date: nothing, or a byte that is not a digit followed by anything -/
def TailOK (t : Bytes) : Prop := t = [] ∨ ∃ c r, t = c :: r ∧ isDigit c = false

theorem common_calExt (x : Fields) (t : Bytes) (hy : x.year < 10000) (ha : x.a < 100) (hb : x.b < 100) :
    parseIsodateCommon (renderDate .calExt x ++ t) = .ok (((x.year : Int), (x.a : Int), (x.b : Int)), t) := by
  simp [parseIsodateCommon, renderDate, pad4, pad2, parseDigits_4 _ hy, parseDigits_2 _ ha, parseDigits_2 _ hb, cDash, bind, Except.bind]
  len_close

theorem common_calBas (x : Fields) (t : Bytes) (hy : x.year < 10000) (ha : x.a < 100) (hb : x.b < 100) :
    parseIsodateCommon (renderDate .calBas x ++ t) = .ok (((x.year : Int), (x.a : Int), (x.b : Int)), t) := by
  simp [parseIsodateCommon, renderDate, pad4, pad2, parseDigits_4 _ hy, parseDigits_2 _ ha, parseDigits_2 _ hb, cDash, bind, Except.bind]
  len_close

theorem common_year (x : Fields) (hy : x.year < 10000) :
    parseIsodateCommon (renderDate .year x) = .ok (((x.year : Int), 1, 1), []) := by
  simp [parseIsodateCommon, renderDate, pad4, parseDigits_4 _ hy, bind, Except.bind]

theorem common_yearMonth (x : Fields) (hy : x.year < 10000) (ha : x.a < 100) :
    parseIsodateCommon (renderDate .yearMonth x) = .ok (((x.year : Int), (x.a : Int), 1), []) := by
  simp [parseIsodateCommon, renderDate, pad4, pad2, parseDigits_4 _ hy, parseDigits_2 _ ha, cDash, bind, Except.bind]

theorem pd_W (b : Nat) : parseDigits [87, b] 2 = .error .ValueError := by
  apply parseDigits_nondigit; simp [isDigit]

/-! week forms: `common` fails with ValueError (the month field starts with `W`) -/

theorem common_weekExtD (x : Fields) (t : Bytes) (hy : x.year < 10000) :
    parseIsodateCommon (renderDate .weekExtD x ++ t) = .error .ValueError := by
  simp [parseIsodateCommon, renderDate, pad4, pad2, pad1, parseDigits_4 _ hy, cDash, bind, Except.bind, pd_W]
  len_close

theorem common_weekBasD (x : Fields) (t : Bytes) (hy : x.year < 10000) :
    parseIsodateCommon (renderDate .weekBasD x ++ t) = .error .ValueError := by
  simp [parseIsodateCommon, renderDate, pad4, pad2, pad1, parseDigits_4 _ hy, cDash, bind, Except.bind, pd_W]
  len_close

theorem common_weekExt (x : Fields) (hy : x.year < 10000) :
    parseIsodateCommon (renderDate .weekExt x) = .error .ValueError := by
  simp [parseIsodateCommon, renderDate, pad4, pad2, parseDigits_4 _ hy, cDash, bind, Except.bind, pd_W]

theorem common_weekBas (x : Fields) (hy : x.year < 10000) :
    parseIsodateCommon (renderDate .weekBas x) = .error .ValueError := by
  simp [parseIsodateCommon, renderDate, pad4, pad2, parseDigits_4 _ hy, cDash, bind, Except.bind, pd_W]

/-! ordinal forms: `common` reads two digits as a month and then fails -/

theorem common_ordExt (x : Fields) (t : Bytes) (hy : x.year < 10000) :
    parseIsodateCommon (renderDate .ordExt x ++ t) = .error .ValueError := by
  have h2 : parseDigits [dch (x.a / 100), dch (x.a / 10)] 2 = .ok ((x.a / 10 % 100 : Nat) : Int) := by
    have := parseDigits_2 (x.a / 10 % 100) (by omega)
    have e1 : dch (x.a / 10 % 100 / 10) = dch (x.a / 100) := by unfold dch; omega
    have e2 : dch (x.a / 10 % 100) = dch (x.a / 10) := by unfold dch; omega
    rw [e1, e2] at this; exact this
  simp [parseIsodateCommon, renderDate, pad4, pad3, parseDigits_4 _ hy, cDash, bind, Except.bind, h2]
  len_close

theorem common_ordBas (x : Fields) (t : Bytes) (ht : TailOK t) (hy : x.year < 10000) :
    parseIsodateCommon (renderDate .ordBas x ++ t) = .error .ValueError := by
  have h2 : parseDigits [dch (x.a / 100), dch (x.a / 10)] 2 = .ok ((x.a / 10 % 100 : Nat) : Int) := by
    have := parseDigits_2 (x.a / 10 % 100) (by omega)
    have e1 : dch (x.a / 10 % 100 / 10) = dch (x.a / 100) := by unfold dch; omega
    have e2 : dch (x.a / 10 % 100) = dch (x.a / 10) := by unfold dch; omega
    rw [e1, e2] at this; exact this
  rcases ht with rfl | ⟨c, r, rfl, hc⟩
  · simp [parseIsodateCommon, renderDate, pad4, pad3, parseDigits_4 _ hy, cDash, bind, Except.bind, h2]
  · have h3 : parseDigits [dch x.a, c] 2 = .error .ValueError := by
      apply parseDigits_nondigit; simp [hc]
    simp [parseIsodateCommon, renderDate, pad4, pad3, parseDigits_4 _ hy, cDash, bind, Except.bind, h2, h3]
    len_close

/-! `uncommon` on week and ordinal forms -/

theorem uncommon_weekExtD (x : Fields) (t : Bytes) (hy : x.year < 10000) (ha : x.a < 100) (hb : x.b < 10) :
    parseIsodateUncommon (renderDate .weekExtD x ++ t) =
      (calculateWeekdate x.year x.a x.b).bind fun base => .ok (base, t) := by
  simp [parseIsodateUncommon, renderDate, pad4, pad2, pad1, parseDigits_4 _ hy, parseDigits_2 _ ha,
    parseDigits_1 _ hb, cDash, cW, bind, Except.bind]
  len_close

theorem uncommon_weekBasD (x : Fields) (t : Bytes) (hy : x.year < 10000) (ha : x.a < 100) (hb : x.b < 10) :
    parseIsodateUncommon (renderDate .weekBasD x ++ t) =
      (calculateWeekdate x.year x.a x.b).bind fun base => .ok (base, t) := by
  simp [parseIsodateUncommon, renderDate, pad4, pad2, pad1, parseDigits_4 _ hy, parseDigits_2 _ ha,
    parseDigits_1 _ hb, cDash, cW, bind, Except.bind]
  len_close

theorem uncommon_weekExt (x : Fields) (hy : x.year < 10000) (ha : x.a < 100) :
    parseIsodateUncommon (renderDate .weekExt x) =
      (calculateWeekdate x.year x.a 1).bind fun base => .ok (base, []) := by
  simp [parseIsodateUncommon, renderDate, pad4, pad2, parseDigits_4 _ hy, parseDigits_2 _ ha,
    cDash, cW, bind, Except.bind]
  len_close

theorem uncommon_weekBas (x : Fields) (hy : x.year < 10000) (ha : x.a < 100) :
    parseIsodateUncommon (renderDate .weekBas x) =
      (calculateWeekdate x.year x.a 1).bind fun base => .ok (base, []) := by
  simp [parseIsodateUncommon, renderDate, pad4, pad2, parseDigits_4 _ hy, parseDigits_2 _ ha,
    cDash, cW, bind, Except.bind]
  len_close

/-- the ordinal branch of `_parse_isodate_uncommon` after the field has been read -/
def ordinalResult (year ord : Int) (t : Bytes) : Py.R ((Int × Int × Int) × Bytes) :=
  if ord < 1 ∨ ord > 365 + (if Cal.isLeap year then 1 else 0) then .error .ValueError
  else (mkDateOrd year 1 1).bind fun jan1 => (ordChecked (jan1 + (ord - 1))).bind fun o =>
    .ok (Cal.fromOrdinal o, t)

theorem uncommon_ordExt (x : Fields) (t : Bytes) (hy : x.year < 10000) (ha : x.a < 1000) :
    parseIsodateUncommon (renderDate .ordExt x ++ t) = ordinalResult x.year x.a t := by
  simp [parseIsodateUncommon, renderDate, pad4, pad3, parseDigits_4 _ hy, parseDigits_3 _ ha,
    cDash, cW, bind, Except.bind, ordinalResult]
  len_close

theorem uncommon_ordBas (x : Fields) (t : Bytes) (hy : x.year < 10000) (ha : x.a < 1000) :
    parseIsodateUncommon (renderDate .ordBas x ++ t) = ordinalResult x.year x.a t := by
  simp [parseIsodateUncommon, renderDate, pad4, pad3, parseDigits_4 _ hy, parseDigits_3 _ ha,
    cDash, cW, bind, Except.bind, ordinalResult]
  len_close

end Iso
