/-
  Proofs/Zones.lean — lemmas about the tzfile lookup on a coherent, well-formed zone:
  index form of the wall lists, their sortedness under WF, evaluation lemmas for the model's
  functions, and the core round-trip lemma.
-/
import DateutilVerif.Proofs.Bisect
import DateutilVerif.Spec.Zones

namespace TZ
open Spec

theorem getD_map_off (tts : List TType) (i : Nat) :
    (tts.map (fun (t : TType) => t.off)).getD i 0 = (tts.getD i default).off := by
  induction tts generalizing i with
  | nil => simp; rfl
  | cons a l ih => cases i with
    | zero => simp
    | succ k => simpa using ih k

/-- index form of `wallLists` (lines 711-721) -/
theorem wallLists_spec : ∀ (us as : List Int) (b : Int), us.length = as.length →
    (wallLists b us as).1.length = us.length ∧ (wallLists b us as).2.length = us.length ∧
    ∀ i, i < us.length →
      (wallLists b us as).1.getD i 0 = us.getD i 0 + (if i = 0 then b else as.getD (i - 1) 0) ∧
      (wallLists b us as).2.getD i 0
        = us.getD i 0 + min (if i = 0 then b else as.getD (i - 1) 0) (as.getD i 0) := by
  intro us
  induction us with
  | nil => intro as b h; cases as <;> simp [wallLists]
  | cons u us ih =>
      intro as b h
      cases as with
      | nil => simp at h
      | cons a as =>
          have hl : us.length = as.length := by simpa using h
          obtain ⟨h1, h2, h3⟩ := ih as a hl
          refine ⟨by simp [wallLists, h1], by simp [wallLists, h2], ?_⟩
          intro i hi
          cases i with
          | zero => simp [wallLists]
          | succ k =>
              have hk : k < us.length := by simpa using hi
              obtain ⟨e1, e2⟩ := h3 k hk
              simp only [wallLists, List.getD_cons_succ, e1, e2]
              cases k with
              | zero => simp
              | succ j => simp

/-- index form of `wfGo` -/
theorem wfGo_idx : ∀ (us as : List Int) (b : Int), us.length = as.length →
    wfGo b (us.zip as) = true →
    ∀ i, i + 1 < us.length →
      neg (as.getD i 0 - (if i = 0 then b else as.getD (i - 1) 0))
        + neg (as.getD (i + 1) 0 - as.getD i 0) < us.getD (i + 1) 0 - us.getD i 0 := by
  intro us
  induction us with
  | nil => intro as b _ _ i hi; simp at hi
  | cons u0 us ih =>
      intro as b h hw i hi
      match as, us, h, hi with
      | a0 :: a1 :: as', u1 :: us', h, hi =>
          simp only [List.zip_cons_cons, wfGo, Bool.and_eq_true, decide_eq_true_eq] at hw
          cases i with
          | zero => simpa using hw.1
          | succ k =>
              have hl : (u1 :: us').length = (a1 :: as').length := by simpa using h
              have hk : k + 1 < (u1 :: us').length := by simpa using hi
              have := ih (a1 :: as') a0 hl (by simpa using hw.2) k hk
              cases k with
              | zero => simpa using this
              | succ j => simpa using this
      | [_], _ :: _, h, _ => simp at h
      | [], _ :: _, h, _ => simp at h
      | _ :: _, [], _, hi => simp at hi
      | [], [], _, hi => simp at hi

/-! ### a coherent zone -/

/-- what `assemble` establishes when there is at least one transition -/
structure Coherent (z : TzFile) (b s : TType) : Prop where
  hb : z.before = some b
  hs : z.std = some s
  ntts : z.tts.length = z.utc.length
  ntl : z.transList.length = z.utc.length
  npos : 0 < z.utc.length
  hw0 : z.wall0 = (wallLists b.off z.utc (z.tts.map (fun (t : TType) => t.off))).1
  hw1 : z.wall1 = (wallLists b.off z.utc (z.tts.map (fun (t : TType) => t.off))).2

/-- UTC instant of transition `i` -/
def U (z : TzFile) (i : Nat) : Int := z.utc.getD i 0
/-- offset after transition `i` -/
def A (z : TzFile) (i : Nat) : Int := (z.tts.getD i default).off
/-- offset before transition `i` -/
def Bo (z : TzFile) (b : TType) (i : Nat) : Int := if i = 0 then b.off else A z (i - 1)

/-- `WF` on the zone object: `Spec.wfGo` over (UTC instant, offset after) -/
def WFz (z : TzFile) (b : TType) : Prop :=
  wfGo b.off (z.utc.zip (z.tts.map (fun (t : TType) => t.off))) = true

section
variable {z : TzFile} {b s : TType} (hc : Coherent z b s)
include hc

theorem Coherent.w0_len : z.wall0.length = z.utc.length := by
  rw [hc.hw0]; exact (wallLists_spec _ _ _ (by simp [hc.ntts])).1
theorem Coherent.w1_len : z.wall1.length = z.utc.length := by
  rw [hc.hw1]; exact (wallLists_spec _ _ _ (by simp [hc.ntts])).2.1

theorem Coherent.w0_get (i : Nat) (hi : i < z.utc.length) :
    z.wall0.getD i 0 = U z i + Bo z b i := by
  rw [hc.hw0, ((wallLists_spec _ _ _ (by simp [hc.ntts])).2.2 i hi).1]
  simp only [U, Bo, A, getD_map_off]

theorem Coherent.w1_get (i : Nat) (hi : i < z.utc.length) :
    z.wall1.getD i 0 = U z i + min (Bo z b i) (A z i) := by
  rw [hc.hw1, ((wallLists_spec _ _ _ (by simp [hc.ntts])).2.2 i hi).2]
  simp only [U, Bo, A, getD_map_off]

theorem Coherent.wf_idx (hwf : WFz z b) (i : Nat) (hi : i + 1 < z.utc.length) :
    neg (A z i - Bo z b i) + neg (A z (i + 1) - A z i) < U z (i + 1) - U z i := by
  have := wfGo_idx _ _ _ (by simp [hc.ntts]) hwf i hi
  simpa only [U, Bo, A, getD_map_off] using this

theorem Coherent.utc_sorted (hwf : WFz z b) : SortedL z.utc := by
  apply sorted_of_step
  intro i hi
  have := hc.wf_idx hwf i hi
  simp only [U, neg] at this
  split at this <;> split at this <;> omega

theorem Coherent.utc_strict (hwf : WFz z b) (i : Nat) (hi : i + 1 < z.utc.length) :
    U z i < U z (i + 1) := by
  have := hc.wf_idx hwf i hi
  simp only [neg] at this
  split at this <;> split at this <;> omega

theorem Coherent.w0_sorted (hwf : WFz z b) : SortedL z.wall0 := by
  apply sorted_of_step
  intro i hi
  rw [hc.w0_len] at hi
  rw [hc.w0_get i (by omega), hc.w0_get (i + 1) hi]
  have := hc.wf_idx hwf i hi
  simp only [neg, Bo] at this ⊢
  simp only [Nat.add_eq_zero_iff, Nat.succ_ne_zero, and_false, if_false, Nat.add_sub_cancel]
  split at this <;> split at this <;> omega

theorem Coherent.w1_sorted (hwf : WFz z b) : SortedL z.wall1 := by
  apply sorted_of_step
  intro i hi
  rw [hc.w1_len] at hi
  rw [hc.w1_get i (by omega), hc.w1_get (i + 1) hi]
  have := hc.wf_idx hwf i hi
  simp only [neg, Bo] at this ⊢
  simp only [Nat.add_eq_zero_iff, Nat.succ_ne_zero, and_false, if_false, Nat.add_sub_cancel]
  split at this <;> split at this <;> omega

end

/-- a boundary is determined by its two neighbours on a sorted list -/
theorem boundary_of_adjacent {l : List Int} {x : Int} {c : Nat} (hs : SortedL l) (hc : c ≤ l.length)
    (h1 : 0 < c → l.getD (c - 1) 0 ≤ x) (h2 : c < l.length → x < l.getD c 0) : Boundary l x c := by
  refine ⟨hc, ?_, ?_⟩
  · intro i hi
    by_cases e : i = c - 1
    · subst e; exact h1 (by omega)
    · have := hs i (c - 1) (by omega) (by omega); have := h1 (by omega); omega
  · intro i hi hn
    by_cases e : i = c
    · subst e; exact h2 hn
    · have := hs c i (by omega) hn; have := h2 (by omega); omega

theorem getElem?_eq_some_getD {α} {l : List α} {i : Nat} (h : i < l.length) (d : α) :
    l[i]? = some (l.getD i d) := by
  simp [List.getD, List.getElem?_eq_getElem h]

/-- the type the code uses for "`c` transitions are ≤ the reading" -/
def ttOf (z : TzFile) (b s : TType) (c : Nat) : TType :=
  if c ≥ z.utc.length then s else if c = 0 then b else z.tts.getD (c - 1) default

section
variable {z : TzFile} {b s : TType} (hc : Coherent z b s)
include hc

theorem Coherent.not_empty : z.transList.isEmpty = false := by
  have := hc.ntl; have := hc.npos
  cases h : z.transList with
  | nil => simp [h] at *; omega
  | cons a l => rfl

theorem Coherent.getTtinfo_eq (c : Nat) (hcn : c ≤ z.utc.length) :
    getTtinfo z (some ((c : Int) - 1)) = some (ttOf z b s c) := by
  unfold getTtinfo ttOf
  simp only [hc.ntl]
  by_cases h1 : c ≥ z.utc.length
  · rw [if_pos (by omega), if_pos h1, hc.hs]
  · rw [if_neg (by omega), if_neg h1]
    by_cases h0 : c = 0
    · subst h0; simp [hc.hb]
    · rw [if_neg (by omega), if_neg h0]
      have e : ((c : Int) - 1).toNat = c - 1 := by omega
      rw [e]
      exact getElem?_eq_some_getD (by have := hc.ntts; omega) default

theorem Coherent.offsetBefore_eq (i : Nat) (hi : i < z.utc.length) :
    offsetBefore z (i : Int) = some (Bo z b i) := by
  unfold offsetBefore Bo
  by_cases h0 : i = 0
  · subst h0; simp [hc.hb]
  · rw [if_pos (by omega), if_neg h0]
    have e : ((i : Int) - 1).toNat = i - 1 := by omega
    rw [e, getElem?_eq_some_getD (by have := hc.ntts; omega) default]
    rfl

theorem Coherent.isAmbiguousIdx_eq (w : Int) (c : Nat) (hcn : c ≤ z.utc.length) :
    isAmbiguousIdx z w (some ((c : Int) - 1)) =
      (decide (0 < c) && (decide (U z (c - 1) + min (Bo z b (c - 1)) (A z (c - 1)) ≤ w) &&
        decide (w < U z (c - 1) + Bo z b (c - 1)) && decide (Bo z b (c - 1) > A z (c - 1)))) := by
  unfold isAmbiguousIdx
  rw [hc.not_empty]
  simp only [Bool.false_eq_true, if_false]
  by_cases h0 : c = 0
  · subst h0; simp
  · have hlt : ¬ ((c : Int) - 1 < 0) := by omega
    rw [if_neg hlt]
    have e : ((c : Int) - 1).toNat = c - 1 := by omega
    have e2 : ((c : Int) - 1) = ((c - 1 : Nat) : Int) := by omega
    rw [e, e2, hc.offsetBefore_eq (c - 1) (by omega),
      getElem?_eq_some_getD (by rw [hc.w1_len]; omega) 0,
      getElem?_eq_some_getD (by rw [hc.w0_len]; omega) 0,
      getElem?_eq_some_getD (by rw [hc.ntts]; omega) default,
      hc.w0_get (c - 1) (by omega), hc.w1_get (c - 1) (by omega)]
    simp only [A]
    have : decide (0 < c) = true := by simp; omega
    rw [this]; simp

end


/-- instants covered by the theorems: before the last transition, or anywhere when the zone's
    `ttinfo_std` is the last transition's type (the code answers `ttinfo_std` from the last
    transition on) -/
def Covered (z : TzFile) (s : TType) (c : Nat) : Prop :=
  c < z.utc.length ∨ s = z.tts.getD (z.utc.length - 1) default

section
variable {z : TzFile} {b s : TType} (hc : Coherent z b s)
include hc

theorem Coherent.findLastUtc_eq (t : Int) :
    findLastUtc z t = some ((bisectRight z.utc t : Int) - 1) := by
  unfold findLastUtc; rw [hc.not_empty]; rfl

theorem Coherent.findLastWall_eq (w : Wall) :
    findLastWall z w = some ((bisectRight (wallOf z w.fold) w.wall : Int) - 1) := by
  unfold findLastWall; rw [hc.not_empty]; rfl

/-- offset of `ttOf` in index form -/
theorem Coherent.ttOf_off (c : Nat) (hcn : c ≤ z.utc.length) (hcov : Covered z s c) :
    (ttOf z b s c).off = if c = 0 then b.off else A z (c - 1) := by
  unfold ttOf
  have := hc.npos
  by_cases h1 : c ≥ z.utc.length
  · rw [if_pos h1, if_neg (by omega)]
    rcases hcov with h | h
    · omega
    · have : c = z.utc.length := by omega
      subst this; rw [h]; rfl
  · rw [if_neg h1]
    by_cases h0 : c = 0
    · rw [if_pos h0, if_pos h0]
    · rw [if_neg h0, if_neg h0]; rfl

/-- the model's `fromutc` in closed form -/
theorem Coherent.fromutc_eq (t : Int) :
    fromutc z t = .ok
      { wall := t + (ttOf z b s (bisectRight z.utc t)).off,
        fold := isAmbiguousIdx z (t + (ttOf z b s (bisectRight z.utc t)).off)
                  (some ((bisectRight z.utc t : Int) - 1)) } := by
  unfold fromutc
  simp only [hc.findLastUtc_eq]
  have : bisectRight z.utc t ≤ z.utc.length := by
    unfold bisectRight
    exact bisectGo_le _ _ _ _ _ (Nat.zero_le _)
  rw [hc.getTtinfo_eq _ this]

end


theorem bisectRight_le (l : List Int) (x : Int) : bisectRight l x ≤ l.length :=
  bisectGo_le _ _ _ _ _ (Nat.zero_le _)

section
variable {z : TzFile} {b s : TType} (hc : Coherent z b s)
include hc

/-- **core of the round trip**: the wall-clock lookup of a converted instant finds the same
    transition count as the UTC lookup did -/
theorem Coherent.wall_lookup_of_fromutc (hwf : WFz z b) (t : Int)
    (hcov : Covered z s (bisectRight z.utc t)) :
    let c := bisectRight z.utc t
    let w := t + (ttOf z b s c).off
    let f := isAmbiguousIdx z w (some ((c : Int) - 1))
    bisectRight (wallOf z f) w = c := by
  intro c w f
  have hcn : c ≤ z.utc.length := bisectRight_le _ _
  obtain ⟨_, hb1, hb2⟩ := bisectRight_spec t (hc.utc_sorted hwf)
  have hlo : 0 < c → U z (c - 1) ≤ t := fun h => hb1 (c - 1) (by omega)
  have hhi : c < z.utc.length → t < U z c := fun h => hb2 c (Nat.le_refl _) h
  have hoff := hc.ttOf_off c hcn hcov
  have hf : f = _ := hc.isAmbiguousIdx_eq w c hcn
  have hwfi : 0 < c → c < z.utc.length →
      neg (A z (c - 1) - Bo z b (c - 1)) + neg (A z c - A z (c - 1)) < U z c - U z (c - 1) := by
    intro h1 h2
    have := hc.wf_idx hwf (c - 1) (by omega)
    have e : c - 1 + 1 = c := by omega
    rw [e] at this; exact this
  have hBc : 0 < c → Bo z b c = A z (c - 1) := by
    intro h; unfold Bo; rw [if_neg (by omega)]
  have hB0 : c = 0 → Bo z b c = b.off := by
    intro h; unfold Bo; rw [if_pos h]
  cases hfv : f with
  | false =>
      rw [hfv] at hf
      show bisectRight z.wall0 w = c
      apply bisectRight_eq (hc.w0_sorted hwf)
      apply boundary_of_adjacent (hc.w0_sorted hwf) (by rw [hc.w0_len]; exact hcn)
      · intro h0
        rw [hc.w0_get (c - 1) (by omega)]
        have hl := hlo h0
        have : w = t + A z (c - 1) := by show t + _ = _; rw [hoff, if_neg (by omega)]
        have hd : decide (0 < c) = true := by simp; omega
        rw [hd] at hf
        simp only [Bool.true_and] at hf
        by_cases hgt : Bo z b (c - 1) > A z (c - 1)
        · have h3 : decide (Bo z b (c - 1) > A z (c - 1)) = true := by simp; exact hgt
          have h1 : decide (U z (c - 1) + min (Bo z b (c - 1)) (A z (c - 1)) ≤ w) = true := by
            simp; omega
          rw [h3, h1] at hf
          simp at hf
          omega
        · omega
      · intro hn
        rw [hc.w0_len] at hn
        rw [hc.w0_get c hn]
        have := hhi hn
        by_cases h0 : c = 0
        · rw [hB0 h0]; show t + _ < _; rw [hoff, if_pos h0]; omega
        · rw [hBc (by omega)]; show t + _ < _; rw [hoff, if_neg h0]; omega
  | true =>
      rw [hfv] at hf
      show bisectRight z.wall1 w = c
      have hall := hf.symm
      simp only [Bool.and_eq_true, decide_eq_true_eq] at hall
      obtain ⟨h0, ⟨⟨h1, h2⟩, h3⟩⟩ := hall
      apply bisectRight_eq (hc.w1_sorted hwf)
      apply boundary_of_adjacent (hc.w1_sorted hwf) (by rw [hc.w1_len]; exact hcn)
      · intro _
        rw [hc.w1_get (c - 1) (by omega)]; exact h1
      · intro hn
        rw [hc.w1_len] at hn
        rw [hc.w1_get c hn, hBc h0]
        have := hwfi h0 hn
        simp only [neg] at this
        split at this <;> split at this <;> omega

end


section
variable {z : TzFile} {b s : TType} (hc : Coherent z b s)
include hc

/-- the ttinfo found for a converted instant is the one the UTC lookup used -/
theorem Coherent.findTtinfo_fromutc (hwf : WFz z b) (t : Int)
    (hcov : Covered z s (bisectRight z.utc t)) :
    ∃ w, fromutc z t = .ok w ∧ w.wall = t + (ttOf z b s (bisectRight z.utc t)).off ∧
      findTtinfo z w = some (ttOf z b s (bisectRight z.utc t)) := by
  refine ⟨_, hc.fromutc_eq t, rfl, ?_⟩
  unfold findTtinfo
  rw [hc.findLastWall_eq]
  have := hc.wall_lookup_of_fromutc hwf t hcov
  simp only at this
  simp only [this]
  exact hc.getTtinfo_eq _ (bisectRight_le _ _)

theorem Coherent.utcoffset_eq (w : Wall) (tt : TType) (h : findTtinfo z w = some tt) :
    utcoffset z w = .ok tt.off := by
  unfold utcoffset; rw [hc.hs]; simp only [h]

theorem Coherent.tzname_eq (w : Wall) (tt : TType) (h : findTtinfo z w = some tt) :
    tzname z w = .ok (some tt.abbr) := by
  unfold tzname; rw [hc.hs]; simp only [h]

end

end TZ
