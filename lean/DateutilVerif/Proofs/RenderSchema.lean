/-
  Proofs/RenderSchema.lean — the schema by which a template of C02 gets its theorem for every offset suffix:
  lexing of the core, the scan over the core with an arbitrary suffix behind it, and what `parse` makes of the
  scan's result; the suffix is handled once and for all by `suffix_run` and `finish_tz`.
-/
import DateutilVerif.Proofs.RenderFinish
import DateutilVerif.Proofs.RenderWords

namespace PM
open Py PT

/-- strict parse, `tzinfos` silent on a missing name and on `UTC` -/
structure StrictOpts (o : Opts) (tzi : TzInfos) : Prop where
  fz : o.fuzzy = false
  fwt : o.fuzzyWithTokens = false
  tz1 : tzi.applies none = false
  tz2 : tzi.applies (some ['U', 'T', 'C']) = false

/-- what may follow a core that ends in a number consumed together with its neighbours: nothing, or a token that
    is not `:`, not an h/m/s word, not an AM/PM word -/
def Suf1 (info : Info) (suf : List Token) : Prop :=
  suf = [] ∨ ∃ a rest, suf = a :: rest ∧ a ≠ [':'] ∧ info.hmsOf a = none ∧ info.ampmOf a = none

/-- what may follow a core under the space rule: nothing, or a space and then such a token -/
def Suf2 (info : Info) (suf : List Token) : Prop :=
  suf = [] ∨ ∃ b rest, suf = [' '] :: b :: rest ∧ b ≠ [':'] ∧ info.hmsOf b = none ∧ info.ampmOf b = none

/-- offsets written after a space (required after a year, an AM/PM word or a unit letter) -/
def _root_.PT.Off.Spaced : Off → Prop
  | .naive => True
  | .z sp => sp = true
  | .utc => True
  | .hh sp _ _ => sp = true
  | .hhmm sp _ _ _ => sp = true
  | .hhcmm sp _ _ _ => sp = true

section
variable (df yf : Bool) (year century : Int)
@[simp] theorem hms_plus' : (Info.default df yf year century).hmsOf ['+'] = none := by tbl

theorem suf1_off (off : Off) : Suf1 (Info.default df yf year century) (offTokens off) := by
  rcases off with _ | sp | _ | ⟨sp, neg, oh⟩ | ⟨sp, neg, oh, om⟩ | ⟨sp, neg, oh, om⟩
  · exact Or.inl rfl
  all_goals (try cases sp) <;> (try cases neg)
  all_goals
    right
    simp only [offTokens, spT, sgn, List.nil_append, List.cons_append, Bool.false_eq_true, if_false, if_true]
    exact ⟨_, _, rfl, by decide, by simp, by simp⟩

theorem suf2_off (off : Off) (h : off.Spaced) : Suf2 (Info.default df yf year century) (offTokens off) := by
  rcases off with _ | sp | _ | ⟨sp, neg, oh⟩ | ⟨sp, neg, oh, om⟩ | ⟨sp, neg, oh, om⟩
  · exact Or.inl rfl
  all_goals (try (simp only [Off.Spaced] at h; subst h))
  all_goals (try simp only [Off.Spaced] at h)
  all_goals (try cases neg)
  all_goals
    right
    simp only [offTokens, spT, sgn, List.nil_append, List.cons_append, Bool.false_eq_true, if_false, if_true]
    exact ⟨_, _, rfl, by decide, by simp, by simp⟩
end

/-- the schema at token level: the scan over the core tokens with the suffix tokens behind them, and the finish -/
theorem tok_theorem (cls : Char → CClass) [AsciiOK cls] (df yf : Bool) (year century : Int) (o : Opts) (tznames : List Token)
    (tzi : TzInfos) (ho : StrictOpts o tzi) (dflt : DT) (core : List Token) (n : Nat) (hn : core.length = n)
    (rC : Res) (yC : Ymd) (skC : List Nat) (dt : DT) (off : Off) (hoff : off.Dom)
    (hcore : parseLoop cls (Info.default df yf year century) false ((offTokens off).length + n) ((offTokens off).length + n) 0 0
        { l := core ++ offTokens off } =
      parseLoop cls (Info.default df yf year century) false ((offTokens off).length + n) (offTokens off).length n 0
        { l := core ++ offTokens off, res := rC, ymd := yC, skipped := skC })
    (htn : rC.tzname = none) (hto : rC.tzoffset = none) (hhour : rC.hour.isSome = true ∨ off = .naive)
    (hfin : finishOf (Info.default df yf year century) o tznames tzi dflt yC rC = .ok { dt := dt, tz := .naive, tokens := none }) :
    parseResult cls (Info.default df yf year century) o tznames tzi dflt (core ++ offTokens off) =
      .ok { dt := dt, tz := offZone o tznames off, tokens := none } := by
  obtain ⟨hfz, hfwt, htz1, htz2⟩ := ho
  have hlen : (core ++ offTokens off).length = (offTokens off).length + n := by simp [hn]; omega
  rcases hhour with hhour | hnaive
  · have hloop : parseLoop cls (Info.default df yf year century) false (core ++ offTokens off).length
        (core ++ offTokens off).length 0 0 { l := core ++ offTokens off } =
        .ok { l := core ++ offTokens off, res := { rC with tzname := offName off, tzoffset := offSecs off }, ymd := yC,
              skipped := if offLeadSpace off then skC ++ [n] else skC } := by
      rw [hlen, hcore]
      exact suffix_run cls df yf year century core rC yC skC off hoff _ n hn.symm (by rw [hn]; omega) hhour htn hto
    rw [parseResult_of_loop cls _ o tznames tzi dflt _ _ hfz hfwt hloop]
    exact finish_tz df yf year century o tznames tzi dflt yC rC dt off hoff htz1 htz2 htn hto hhour hfin
  · subst hnaive
    have hloop : parseLoop cls (Info.default df yf year century) false (core ++ offTokens .naive).length
        (core ++ offTokens .naive).length 0 0 { l := core ++ offTokens .naive } =
        .ok { l := core ++ offTokens .naive, res := rC, ymd := yC, skipped := skC } := by
      rw [hlen, hcore]
      simp [offTokens, parseLoop]
    rw [parseResult_of_loop cls _ o tznames tzi dflt _ _ hfz hfwt hloop]
    simp only [hfin, offZone, offDescr, Off.seconds]
    by_cases hig : o.ignoretz = true <;> simp [hig]

/-- **the schema**: lexing of `str` followed by the suffix, the scan over the core tokens with the suffix tokens
    behind them, and the finish on the scan's result give `parse` on `str ++ suffix` for that suffix. -/
theorem tpl_theorem (cls : Char → CClass) [AsciiOK cls] (df yf : Bool) (year century : Int) (o : Opts) (tznames : List Token)
    (tzi : TzInfos) (ho : StrictOpts o tzi) (dflt : DT) (str : List Char) (core : List Token) (n : Nat) (hn : core.length = n)
    (rC : Res) (yC : Ymd) (skC : List Nat) (dt : DT) (off : Off) (hoff : off.Dom)
    (hlex : scan cls .init (str ++ off.render) = core ++ scan cls .init off.render)
    (hcore : parseLoop cls (Info.default df yf year century) false ((offTokens off).length + n) ((offTokens off).length + n) 0 0
        { l := core ++ offTokens off } =
      parseLoop cls (Info.default df yf year century) false ((offTokens off).length + n) (offTokens off).length n 0
        { l := core ++ offTokens off, res := rC, ymd := yC, skipped := skC })
    (htn : rC.tzname = none) (hto : rC.tzoffset = none) (hhour : rC.hour.isSome = true ∨ off = .naive)
    (hfin : finishOf (Info.default df yf year century) o tznames tzi dflt yC rC = .ok { dt := dt, tz := .naive, tokens := none }) :
    parse cls (Info.default df yf year century) o tznames tzi dflt (str ++ off.render) =
      .ok { dt := dt, tz := offZone o tznames off, tokens := none } := by
  unfold parse lex
  rw [hlex, lex_off]
  exact tok_theorem cls df yf year century o tznames tzi ho dflt core n hn rC yC skC dt off hoff hcore htn hto hhour hfin

end PM
