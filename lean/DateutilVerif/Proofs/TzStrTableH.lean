/- Proofs/TzStrTableH.lean — a whole finite table of TZ-string spellings, by kernel evaluation. -/
import DateutilVerif.Proofs.TzStrDefs

namespace C08
open TzStr Posix

theorem tableH : ∀ h : Fin 25,
    parsesTo ("AAA5BBB,M3.2.0/" ++ toString h.val ++ ",M10.5.0") (attrOf (.M 3 2 0) (some (h.val * 3600))) = true ∧
    parsesTo ("AAA5BBB,M3.2.0/" ++ (if h.val < 10 then "0" else "") ++ toString h.val ++ ",M10.5.0")
      (attrOf (.M 3 2 0) (some (h.val * 3600))) = true := by decide +kernel

end C08
