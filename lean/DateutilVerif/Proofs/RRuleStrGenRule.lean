/-
  Proofs/RRuleStrGenRule.lean — the source translation of `_rrulestr._parse_rfc_rrule` and of the `_handle_*` dispatch
  (`Gen.rrsHandle`, `Gen.rrsLineValue`, `Gen.rrsStepPair`, `Gen.rrsParseRule`) equals the model's part parser.
-/
import DateutilVerif.Generated.RRuleStrKernels
import DateutilVerif.Proofs.RRuleStrGen
import DateutilVerif.Proofs.RRuleStrGenWDay

namespace RRuleStr

theorem freqMap_eq_gen : Gen.FREQ_MAP.map (fun p => (p.1.toList, p.2)) = freqMap := by decide
theorem weekdayMap_eq_gen : Gen.WEEKDAY_MAP.map (fun p => (p.1.toList, p.2)) = weekdayMap := by decide

theorem getL_zero {α} (a : α) (l : List α) : StrPy.getL (a :: l) 0 = .ok a := by
  have := getL_append ([] : List α) a l
  simpa using this

theorem getL_one {α} (a b : α) (l : List α) : StrPy.getL (a :: b :: l) 1 = .ok b := by
  have := getL_append [a] b l
  simpa using this

/-- **the translated item splitter of `_handle_BYWEEKDAY` is the model's `parseWDay`**, for every text: `WD(n)` (the split at `(`
    has at least two parts, so `splt[0]` / `splt[1]` never raise), `nWD` / `WD` through the `for … break` scan, the empty item -/
theorem gen_wday_eq (w : List Char) : Gen.rrsWDay w = parseWDay w := by
  unfold Gen.rrsWDay parseWDay
  rw [weekdayMap_eq_gen]
  by_cases hp : w.contains '(' = true
  · obtain ⟨a, b, rest, hs⟩ := splitOnChar_two_parts '(' w ((contains_iff w '(').1 hp)
    simp only [hp, if_true, hs, getL_zero, getL_one, bind, Except.bind, List.headD_cons, List.getD_cons_succ, List.getD_cons_zero]
    cases h1 : ICal.pyInt b.dropLast <;> cases h2 : lookup weekdayMap a <;> simp [int!, h1, weekdayCall]
  · have hp' : w.contains '(' = false := by simpa using hp
    cases w with
    | nil => simp
    | cons c cs =>
      have hf : (fun ch => ['+', '-', '0', '1', '2', '3', '4', '5', '6', '7', '8', '9'].contains ch) = isSignDigit := by
        funext ch; exact signDigit_chars ch
      simp only [hp', Bool.false_eq_true, if_false, hf, forBreakIdx_eq, Nat.zero_add]
      have hne : ((c :: cs).length != 0) = true := by simp
      have hemp : (c :: cs).isEmpty = false := rfl
      simp only [hne, if_true, hemp, Bool.false_eq_true, if_false]
      generalize (if ((c :: cs).takeWhile isSignDigit).length == (c :: cs).length then (c :: cs).length - 1
        else ((c :: cs).takeWhile isSignDigit).length) = i
      by_cases he : ((c :: cs).take i).isEmpty = true
      · simp only [he, if_true, bind, Except.bind]
        cases lookup weekdayMap ((c :: cs).drop i) <;> simp [weekdayCall]
      · have he' : ((c :: cs).take i).isEmpty = false := by simpa using he
        simp only [he', Bool.false_eq_true, if_false, bind, Except.bind]
        cases h1 : ICal.pyInt ((c :: cs).take i) <;> cases h2 : lookup weekdayMap ((c :: cs).drop i) <;> simp [int!, h1, weekdayCall]

/-- the handler dispatch resolved against the class body = the model's `handleU` -/
theorem gen_handle_eq (po : ParseOpts) (name value : List Char) : Gen.rrsHandle po name value = handleU po name value := by
  have hw : Gen.rrsWDay = parseWDay := by funext w; exact gen_wday_eq w
  unfold Gen.rrsHandle handleU
  rw [freqMap_eq_gen, weekdayMap_eq_gen, hw]
  simp only [intList]
  by_cases h1 : name == lit "BYWEEKDAY" <;> by_cases h2 : name == lit "BYDAY" <;> simp [h1, h2] <;> rfl

/-- the only exception kinds a handler ends in -/
def ErrIn {α : Type} (r : Py.R α) : Prop := ∀ e, r = .error e → e = .ValueError ∨ e = .KeyError ∨ e = .AttributeError

theorem errIn_ok {α : Type} (a : α) : ErrIn (.ok a : Py.R α) := by intro e h; cases h
theorem errIn_ite {α : Type} {c : Prop} [Decidable c] {a b : Py.R α} (ha : ErrIn a) (hb : ErrIn b) : ErrIn (if c then a else b) := by
  split <;> assumption
theorem errIn_bind {α β : Type} {r : Py.R α} {f : α → Py.R β} (hr : ErrIn r) (hf : ∀ a, ErrIn (f a)) : ErrIn (r >>= f) := by
  intro e h
  cases r with
  | error e' => simp [bind, Except.bind] at h; subst h; exact hr e' rfl
  | ok a => exact hf a e h
theorem errIn_mapM {α β : Type} {f : α → Py.R β} (hf : ∀ a, ErrIn (f a)) : ∀ (l : List α), ErrIn (l.mapM f)
  | [] => by intro e h; simp [pure, Except.pure] at h
  | a :: l => by
    rw [List.mapM_cons]
    exact errIn_bind (hf a) (fun b => errIn_bind (errIn_mapM hf l) (fun bs => by intro e h; simp [pure, Except.pure] at h))

theorem int!_errIn (s : List Char) : ErrIn (int! s) := by
  intro e h; unfold int! at h; split at h <;> simp at h; subst h; exact Or.inl rfl

theorem parseWDay_errIn (w : List Char) : ErrIn (parseWDay w) := by
  intro e h
  unfold parseWDay at h
  simp only [] at h
  repeat' split at h
  all_goals (cases h <;> simp)

theorem handleU_errIn (po : ParseOpts) (name value : List Char) : ErrIn (handleU po name value) := by
  rw [← gen_handle_eq]
  have hwd : Gen.rrsWDay = parseWDay := by funext w; exact gen_wday_eq w
  unfold Gen.rrsHandle
  rw [hwd]
  have hi : ∀ (mk : Int → Update), ErrIn (int! value >>= fun v => (.ok (mk v) : Py.R Update)) :=
    fun mk => errIn_bind (int!_errIn value) (fun _ => errIn_ok _)
  have hl : ∀ (mk : List Int → Update), ErrIn (((ICal.splitOnChar ',' value).mapM int!) >>= fun l => (.ok (mk l) : Py.R Update)) :=
    fun mk => errIn_bind (errIn_mapM int!_errIn _) (fun _ => errIn_ok _)
  have hw : ErrIn (((ICal.splitOnChar ',' value).mapM parseWDay) >>= fun l => (.ok (.byweekday l) : Py.R Update)) :=
    errIn_bind (errIn_mapM parseWDay_errIn _) (fun _ => errIn_ok _)
  repeat' (apply errIn_ite)
  all_goals first
    | exact hi _
    | exact hl _
    | exact hw
    | exact errIn_ok _
    | (intro e h; split at h <;> cases h <;> simp)
    | (intro e h; cases h <;> simp)

/-- the body of the loop over the parts: the `try` statement's mapping (AttributeError, KeyError, ValueError → ValueError; anything
    else would propagate) coincides with the model's "every failure is a ValueError", because a handler can only end in those three -/
theorem gen_stepPair_eq (po : ParseOpts) (a : RArgs) (pair : List Char) : Gen.rrsStepPair po a pair = stepPair po a pair := by
  unfold Gen.rrsStepPair stepPair handle
  split
  · rename_i name value _
    rw [gen_handle_eq]
    cases h : handleU po (ICal.upper name) (ICal.upper value) with
    | ok u => simp only [*]
    | error e =>
      rcases handleU_errIn po _ _ e h with rfl | rfl | rfl <;> simp only [*]
  · split <;> simp_all

theorem gen_lineValue_eq (line : List Char) : Gen.rrsLineValue line = lineValue line := rfl

/-- **the source translation of `_parse_rfc_rrule` is the model's `ruleOf`** (`parseRRuleLine` followed by the FREQ check): the
    keyword arguments handed to `rrule()`, or ValueError, for every line and all options -/
theorem gen_parseRule_eq (po : ParseOpts) (line : List Char) : Gen.rrsParseRule po line = ruleOf po line := by
  unfold Gen.rrsParseRule ruleOf parseRRuleLine needFreq
  have : Gen.rrsStepPair po = stepPair po := by funext a pair; exact gen_stepPair_eq po a pair
  rw [this, gen_lineValue_eq]
  cases lineValue line with
  | error e => rfl
  | ok v =>
    simp only [bind, Except.bind]
    try (cases (ICal.splitOnChar ';' v).foldlM (stepPair po) {} <;> rfl)

theorem splitOnChar_ne_nil (sep : Char) (s : List Char) : (ICal.splitOnChar sep s).isEmpty = false := by
  have := (splitOnChar_go_len sep s [] []).1
  unfold ICal.splitOnChar
  cases h : ICal.splitOnChar.go sep s [] [] with
  | nil => rw [h] at this; simp at this
  | cons a l => rfl

/-- **the translated body of the line dispatch loop of `_parse_rfc` is the model's `stepLine`** (`if not parms: raise …` can never fire:
    `str.split` returns at least one piece) -/
theorem gen_stepLine_eq (po : ParseOpts) (acc : Acc) (line : List Char) : Gen.rrsStepLine po acc line = stepLine po acc line := by
  unfold Gen.rrsStepLine stepLine
  simp only [splitOnChar_ne_nil, Bool.false_eq_true, if_false]
  rfl

/-- the translated rest of `_parse_rfc` (fast path, dispatch loop, decision for a set, set building, single-rule exit) = `parseLines` -/
theorem gen_tail_eq (po : ParseOpts) (cache : Bool) (s : List Char) (lines : List (List Char)) (f c kw : Bool) :
    Gen.rrsTail po cache s lines f c kw = parseLines po cache s lines f c kw := by
  have h1 : Gen.rrsParseRule po = ruleOf po := by funext l; exact gen_parseRule_eq po l
  have h2 : Gen.rrsStepLine po = stepLine po := by funext a l; exact gen_stepLine_eq po a l
  unfold Gen.rrsTail parseLines buildRule buildSet wantsSet
  rw [h1, h2]
  rfl

/-- **the WHOLE of `_rrulestr._parse_rfc` as translated from source = the model's `parseRfc`**, every text, all options -/
theorem gen_parseRfc_eq (s0 : List Char) (o : Opts) (kw : Bool) : Gen.rrsParseRfc s0 o kw = parseRfc s0 o kw := by
  unfold Gen.rrsParseRfc parseRfc
  rw [gen_prefix_eq_model]
  by_cases h : (ICal.strip (ICal.upper s0)).isEmpty = true
  · simp [h, bind, Except.bind]
  · simp only [h, Bool.false_eq_true, if_false, bind, Except.bind]
    exact gen_tail_eq _ _ _ _ _ _ _

end RRuleStr
