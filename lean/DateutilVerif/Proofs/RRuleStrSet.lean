/-
  Proofs/RRuleStrSet.lean — multi-line inputs: which lines are collected, when a set is built and with
  which members, `forceset`, `compatible` (C13).
-/
import DateutilVerif.Proofs.RRuleStrWhole

namespace RRuleStr
open ICal (isSpace upper splitOnChar pyInt rstrip strip isDigit splitLines)

variable {po : ParseOpts}

/-- a content line without parameters -/
inductive Line where
  | rrule (v : List Char) | exrule (v : List Char) | rdate (v : List Char) | exdate (v : List Char) | dtstart (v : List Char)
  deriving Repr, DecidableEq

def Line.render : Line → List Char
  | .rrule v => lit "RRULE" ++ ':' :: v
  | .exrule v => lit "EXRULE" ++ ':' :: v
  | .rdate v => lit "RDATE" ++ ':' :: v
  | .exdate v => lit "EXDATE" ++ ':' :: v
  | .dtstart v => lit "DTSTART" ++ ':' :: v

/-- a DTSTART line carries one value -/
def Line.ok : Line → Prop
  | .dtstart v => ',' ∉ v
  | _ => True

instance : DecidablePred Line.ok := fun l => by cases l <;> unfold Line.ok <;> infer_instance

/-- what the dispatch loop of `_parse_rfc` does with the line -/
def Line.collect (po : ParseOpts) (acc : Acc) : Line → Acc
  | .rrule v => { acc with rrulevals := acc.rrulevals ++ [v] }
  | .exrule v => { acc with exrulevals := acc.exrulevals ++ [v] }
  | .rdate v => { acc with rdatevals := acc.rdatevals ++ [v] }
  | .exdate v => { acc with exdatevals := acc.exdatevals ++ (splitOnChar ',' v).map (fun d => (d, [], po)) }
  | .dtstart v => { acc with dtstart := some (v, [], po) }

theorem stepLine_exrule (acc : Acc) (v : List Char) :
    stepLine po acc (lit "EXRULE" ++ ':' :: v) = .ok { acc with exrulevals := acc.exrulevals ++ [v] } := by
  have h1 : (lit "EXRULE" ++ ':' :: v).isEmpty = false := rfl
  have h2 : (lit "EXRULE" ++ ':' :: v).contains ':' = true := by rw [contains_iff]; simp
  have h3 := splitColon1_two (lit "EXRULE") v (by decide)
  have h4 : splitOnChar ';' (lit "EXRULE") = [lit "EXRULE"] := by decide
  unfold stepLine
  simp only [h1, Bool.false_eq_true, if_false, h2, Bool.not_true, h3, h4]
  simp [lit]

theorem stepLine_rdate (acc : Acc) (v : List Char) :
    stepLine po acc (lit "RDATE" ++ ':' :: v) = .ok { acc with rdatevals := acc.rdatevals ++ [v] } := by
  have h1 : (lit "RDATE" ++ ':' :: v).isEmpty = false := rfl
  have h2 : (lit "RDATE" ++ ':' :: v).contains ':' = true := by rw [contains_iff]; simp
  have h3 := splitColon1_two (lit "RDATE") v (by decide)
  have h4 : splitOnChar ';' (lit "RDATE") = [lit "RDATE"] := by decide
  unfold stepLine
  simp only [h1, Bool.false_eq_true, if_false, h2, Bool.not_true, h3, h4]
  simp [lit]

theorem stepLine_exdate (acc : Acc) (v : List Char) :
    stepLine po acc (lit "EXDATE" ++ ':' :: v) =
      .ok { acc with exdatevals := acc.exdatevals ++ (splitOnChar ',' v).map (fun d => (d, [], po)) } := by
  have h1 : (lit "EXDATE" ++ ':' :: v).isEmpty = false := rfl
  have h2 : (lit "EXDATE" ++ ':' :: v).contains ':' = true := by rw [contains_iff]; simp
  have h3 := splitColon1_two (lit "EXDATE") v (by decide)
  have h4 : splitOnChar ';' (lit "EXDATE") = [lit "EXDATE"] := by decide
  unfold stepLine
  simp only [h1, Bool.false_eq_true, if_false, h2, Bool.not_true, h3, h4]
  simp [lit, dateParmsOk, bind, Except.bind]

theorem stepLine_render (acc : Acc) (l : Line) (h : l.ok) : stepLine po acc l.render = .ok (l.collect po acc) := by
  cases l with
  | rrule v => exact stepLine_rrule acc v
  | exrule v => exact stepLine_exrule acc v
  | rdate v => exact stepLine_rdate acc v
  | exdate v => exact stepLine_exdate acc v
  | dtstart v => exact stepLine_dtstart acc v h

theorem foldlM_stepLine_render : ∀ (ls : List Line) (acc : Acc), (∀ l ∈ ls, l.ok) →
    (ls.map Line.render).foldlM (stepLine po) acc = .ok (ls.foldl (Line.collect po) acc)
  | [], _, _ => rfl
  | l :: ls, acc, h => by
    rw [List.map_cons, List.foldlM_cons, stepLine_render acc l (h l (by simp))]
    exact foldlM_stepLine_render ls _ (fun m hm => h m (by simp [hm]))

/-! what is collected, in order -/

def rruleVals (ls : List Line) : List (List Char) := ls.filterMap (fun l => match l with | .rrule v => some v | _ => none)
def exruleVals (ls : List Line) : List (List Char) := ls.filterMap (fun l => match l with | .exrule v => some v | _ => none)
def rdateVals (ls : List Line) : List (List Char) := ls.filterMap (fun l => match l with | .rdate v => some v | _ => none)
def exdateVals (po : ParseOpts) (ls : List Line) : List DateV :=
  (ls.map (fun l => match l with | .exdate v => (splitOnChar ',' v).map (fun d => (d, ([] : List (List Char)), po)) | _ => [])).flatten
/-- the last DTSTART wins -/
def dtstartOf (po : ParseOpts) (ls : List Line) : Option DateV :=
  ls.foldl (fun cur l => match l with | .dtstart v => some (v, [], po) | _ => cur) none

theorem collect_all : ∀ (ls : List Line) (acc : Acc),
    ls.foldl (Line.collect po) acc =
      { rrulevals := acc.rrulevals ++ rruleVals ls, exrulevals := acc.exrulevals ++ exruleVals ls,
        rdatevals := acc.rdatevals ++ rdateVals ls, exdatevals := acc.exdatevals ++ exdateVals po ls,
        dtstart := ls.foldl (fun cur l => match l with | .dtstart v => some (v, [], po) | _ => cur) acc.dtstart }
  | [], acc => by simp [rruleVals, exruleVals, rdateVals, exdateVals]
  | l :: ls, acc => by
    rw [List.foldl_cons, collect_all ls]
    cases l <;> simp [Line.collect, rruleVals, exruleVals, rdateVals, exdateVals]

/-- the collected lines -/
def accOf (po : ParseOpts) (ls : List Line) : Acc :=
  { rrulevals := rruleVals ls, exrulevals := exruleVals ls, rdatevals := rdateVals ls, exdatevals := exdateVals po ls,
    dtstart := dtstartOf po ls }

theorem collect_all_empty (ls : List Line) : ls.foldl (Line.collect po) {} = accOf po ls := by
  rw [collect_all]; simp [dtstartOf, accOf]

/-! ### when a set is built, and with which members -/

/-- the single-rule shortcut at the head of `_parse_rfc` -/
def shortcut (s : List Char) (lines : List (List Char)) (forceset : Bool) : Bool :=
  !forceset && lines.length == 1 && (!s.contains ':' || startsWith s (lit "RRULE:"))

theorem shortcut_forceset (s : List Char) (lines : List (List Char)) : shortcut s lines true = false := rfl

theorem shortcut_two (s : List Char) (lines : List (List Char)) (f : Bool) (h : lines.length ≠ 1) : shortcut s lines f = false := by
  simp [shortcut, h]

/-- past the shortcut, with the lines collected: a set exactly when `wantsSet` -/
theorem parseLines_collected {s : List Char} {lines : List (List Char)} {f : Bool} {acc : Acc} (c kw cache : Bool)
    (hs : shortcut s lines f = false) (hfold : lines.foldlM (stepLine po) {} = .ok acc) :
    parseLines po cache s lines f c kw =
      if wantsSet f acc then buildSet po acc c kw cache
      else match acc.rrulevals with
        | v :: _ => buildRule po v acc.dtstart cache
        | [] => .error .ValueError := by
  unfold parseLines
  rw [if_neg (by unfold shortcut at hs; rw [hs]; simp), hfold]
  rfl

/-- the set the model builds from structured lines: every RRULE and EXRULE value parsed in order (with the options), the
    RDATE values split at `,` (each with the options), the EXDATE values, the last DTSTART, the `compatible` flag (DTSTART
    is added as an RDATE), and `cache` on the set -/
def setOf (po : ParseOpts) (ls : List Line) (compatible kw cache : Bool) : Py.R Parsed := do
  let rr ← (rruleVals ls).mapM (ruleOf po)
  let ex ← (exruleVals ls).mapM (ruleOf po)
  .ok (.set rr ex (((rdateVals ls).map (splitOnChar ',')).flatten.map (fun d => (d, po))) (exdateVals po ls) (dtstartOf po ls)
        (compatible && ((dtstartOf po ls).isSome || kw)) cache)

/-- `multi_line_builds_set`: two or more RRULE lines, or any RDATE / EXRULE / EXDATE line, or `forceset`, give the set with
    exactly those members in order -/
theorem parseLines_builds_set (s : List Char) (ls : List Line) (hok : ∀ l ∈ ls, l.ok) (f c kw cache : Bool)
    (hs : shortcut s (ls.map Line.render) f = false)
    (hset : f = true ∨ 2 ≤ (rruleVals ls).length ∨ rdateVals ls ≠ [] ∨ exruleVals ls ≠ [] ∨ exdateVals po ls ≠ []) :
    parseLines po cache s (ls.map Line.render) f c kw = setOf po ls c kw cache := by
  have hfold := foldlM_stepLine_render (po := po) ls {} hok
  rw [collect_all_empty] at hfold
  rw [parseLines_collected c kw cache hs hfold]
  have hw : wantsSet f (accOf po ls) = true := by
    simp only [wantsSet, accOf, Bool.or_eq_true, Bool.not_eq_true', List.isEmpty_eq_false_iff]
    rcases hset with h | h | h | h | h
    · exact Or.inl (Or.inl (Or.inl (Or.inl h)))
    · exact Or.inl (Or.inl (Or.inl (Or.inr (by simp; omega))))
    · exact Or.inl (Or.inl (Or.inr h))
    · exact Or.inl (Or.inr h)
    · exact Or.inr h
  rw [if_pos hw]
  rfl

/-- one RRULE line and only DTSTART lines besides it, no `forceset`: a single rule with the last DTSTART -/
theorem parseLines_builds_rule (s : List Char) (ls : List Line) (hok : ∀ l ∈ ls, l.ok) (c kw cache : Bool) (v : List Char)
    (hs : shortcut s (ls.map Line.render) false = false)
    (hr : rruleVals ls = [v]) (h1 : rdateVals ls = []) (h2 : exruleVals ls = []) (h3 : exdateVals po ls = []) :
    parseLines po cache s (ls.map Line.render) false c kw = buildRule po v (dtstartOf po ls) cache := by
  have hfold := foldlM_stepLine_render (po := po) ls {} hok
  rw [collect_all_empty] at hfold
  rw [parseLines_collected c kw cache hs hfold]
  have hw : wantsSet false (accOf po ls) = false := by
    simp [wantsSet, accOf, hr, h1, h2, h3]
  rw [if_neg (by rw [hw]; simp)]
  simp only [accOf, hr]

/-! ### `forceset`, `compatible` -/

theorem buildSet_is_set {acc : Acc} {c kw cache : Bool} {r : Parsed} (h : buildSet po acc c kw cache = .ok r) :
    ∃ rr ex, acc.rrulevals.mapM (ruleOf po) = .ok rr ∧ acc.exrulevals.mapM (ruleOf po) = .ok ex ∧
      r = .set rr ex (((acc.rdatevals.map (splitOnChar ',')).flatten).map (fun d => (d, po))) acc.exdatevals acc.dtstart
            (c && (acc.dtstart.isSome || kw)) cache := by
  unfold buildSet at h
  cases h1 : acc.rrulevals.mapM (ruleOf po) with
  | error e => rw [h1] at h; cases h
  | ok rr =>
    cases h2 : acc.exrulevals.mapM (ruleOf po) with
    | error e => rw [h1, h2] at h; cases h
    | ok ex => rw [h1, h2] at h; cases h; exact ⟨rr, ex, rfl, rfl, rfl⟩

/-- with `forceset` the result, when there is one, is always a set: the collected lines' members in order -/
theorem parseLines_forceset {s : List Char} {lines : List (List Char)} {c kw cache : Bool} {r : Parsed}
    (h : parseLines po cache s lines true c kw = .ok r) :
    ∃ acc rr ex, lines.foldlM (stepLine po) {} = .ok acc ∧ acc.rrulevals.mapM (ruleOf po) = .ok rr ∧
      acc.exrulevals.mapM (ruleOf po) = .ok ex ∧
      r = .set rr ex (((acc.rdatevals.map (splitOnChar ',')).flatten).map (fun d => (d, po))) acc.exdatevals acc.dtstart
            (c && (acc.dtstart.isSome || kw)) cache := by
  cases hf : lines.foldlM (stepLine po) {} with
  | error e =>
    unfold parseLines at h
    rw [if_neg (by simp), hf] at h; cases h
  | ok acc =>
    rw [parseLines_collected c kw cache (shortcut_forceset s lines) hf, if_pos (by simp [wantsSet])] at h
    obtain ⟨rr, ex, h1, h2, h3⟩ := buildSet_is_set h
    exact ⟨acc, rr, ex, rfl, h1, h2, h3⟩

/-- `forceset=True` never yields a bare rule -/
theorem parseRfc_forceset {s : List Char} {o : Opts} {kw : Bool} {r : Parsed} (ho : o.forceset = true ∨ o.compatible = true)
    (h : parseRfc s o kw = .ok r) :
    ∃ rr ex rd exd dt, r = .set rr ex rd exd dt (o.compatible && (dt.isSome || kw)) o.cache := by
  unfold parseRfc at h
  simp only [] at h
  split at h
  · cases h
  · have hf : (o.forceset || o.compatible) = true := by rcases ho with h | h <;> simp [h]
    rw [hf] at h
    obtain ⟨acc, rr, ex, _, _, _, hr⟩ := parseLines_forceset h
    exact ⟨rr, ex, _, _, _, hr⟩

/-- `compatible=True` is `forceset=True, unfold=True` plus the DTSTART-as-RDATE flag -/
theorem parseRfc_compatible (s : List Char) (o : Opts) (kw : Bool) (hc : o.compatible = true) :
    parseRfc s o kw = parseRfc s { o with unfold := true, forceset := true } kw := by
  unfold parseRfc
  simp [hc, Opts.po]

/-- the flag: set exactly when `compatible` and a start is known (a DTSTART line or the `dtstart=` keyword) -/
theorem parseLines_compatible_flag (s : List Char) (ls : List Line) (hok : ∀ l ∈ ls, l.ok) (kw cache : Bool) :
    parseLines po cache s (ls.map Line.render) true true kw = (do
      let rr ← (rruleVals ls).mapM (ruleOf po)
      let ex ← (exruleVals ls).mapM (ruleOf po)
      .ok (.set rr ex (((rdateVals ls).map (splitOnChar ',')).flatten.map (fun d => (d, po))) (exdateVals po ls) (dtstartOf po ls)
            ((dtstartOf po ls).isSome || kw) cache)) := by
  rw [parseLines_builds_set s ls hok true true kw cache (shortcut_forceset _ _) (Or.inl rfl)]
  simp [setOf]

/-! ### from the text to the lines (no `unfold`) -/

theorem splitWs_go_nl (rest cur : List Char) (acc : List (List Char)) :
    splitWs.go ('\n' :: rest) cur acc = splitWs.go rest [] (if cur.isEmpty then acc else cur.reverse :: acc) := by
  rw [splitWs.go]; simp [show isSpace '\n' = true from by decide]

theorem splitWs_go_intercalate : ∀ (p : List Char) (ps : List (List Char)) (acc : List (List Char)),
    (∀ q ∈ p :: ps, q ≠ [] ∧ ∀ c ∈ q, isSpace c = false) →
    splitWs.go (intercalate ['\n'] (p :: ps)) [] acc = acc.reverse ++ (p :: ps)
  | p, [], acc, h => by
    have hp := h p (by simp)
    have := splitWs_go_free p [] [] acc hp.2
    rw [List.append_nil] at this
    rw [intercalate, this, splitWs.go]
    have : (p.reverse ++ []).isEmpty = false := by
      cases p with | nil => exact absurd rfl hp.1 | cons x xs => simp
    simp [hp.1]
  | p, q :: qs, acc, h => by
    have hp := h p (by simp)
    rw [intercalate_cons_cons, List.append_assoc, splitWs_go_free p _ [] acc hp.2]
    simp only [List.singleton_append, List.append_nil]
    rw [splitWs_go_nl]
    have : p.reverse.isEmpty = false := by
      cases p with | nil => exact absurd rfl hp.1 | cons x xs => simp
    rw [this]
    simp only [Bool.false_eq_true, if_false, List.reverse_reverse]
    rw [splitWs_go_intercalate q qs _ (fun r hr => h r (by simp at hr ⊢; right; exact hr))]
    simp

/-- `'\n'.join(lines).split() == lines` for non-empty lines without whitespace -/
theorem splitWs_intercalate (lines : List (List Char)) (hne : lines ≠ [])
    (h : ∀ q ∈ lines, q ≠ [] ∧ ∀ c ∈ q, isSpace c = false) : splitWs (intercalate ['\n'] lines) = lines := by
  cases lines with
  | nil => exact absurd rfl hne
  | cons p ps => unfold splitWs; rw [splitWs_go_intercalate p ps [] h]; rfl

theorem mem_dropWhile {p : Char → Bool} {c : Char} : ∀ (s : List Char), c ∈ s → p c = false → c ∈ s.dropWhile p
  | [], h, _ => by simp at h
  | d :: s, h, hc => by
    rw [List.dropWhile_cons]
    split
    · next hd =>
      rcases List.mem_cons.mp h with rfl | h
      · rw [hc] at hd; cases hd
      · exact mem_dropWhile s h hc
    · exact h

theorem strip_nonempty {s : List Char} {c : Char} (hc : c ∈ s) (hs : isSpace c = false) : (strip s).isEmpty = false := by
  have h1 : c ∈ s.dropWhile isSpace := mem_dropWhile s hc hs
  have h2 : c ∈ ((s.dropWhile isSpace).reverse.dropWhile isSpace).reverse := by
    rw [List.mem_reverse]; exact mem_dropWhile _ (List.mem_reverse.mpr h1) hs
  unfold strip rstrip
  cases h : ((s.dropWhile isSpace).reverse.dropWhile isSpace).reverse with
  | nil => rw [h] at h2; simp at h2
  | cons => rfl

theorem Line.render_ne_nil (l : Line) : l.render ≠ [] := by cases l <;> simp [Line.render, lit]

/-- the text made of structured upper-case lines joined by newlines reaches `parseLines` with exactly those lines
    (options without `unfold` / `compatible`) -/
theorem parseRfc_lines (ls : List Line) (hne : ls ≠ [])
    (htext : ∀ l ∈ ls, ∀ c ∈ l.render, isLower c = false ∧ isSpace c = false)
    (o : Opts) (hu : o.unfold = false) (hc : o.compatible = false) (kw : Bool) :
    parseRfc (intercalate ['\n'] (ls.map Line.render)) o kw =
      parseLines o.po o.cache (intercalate ['\n'] (ls.map Line.render)) (ls.map Line.render) o.forceset false kw := by
  have hup : upper (intercalate ['\n'] (ls.map Line.render)) = intercalate ['\n'] (ls.map Line.render) := by
    apply upper_of_noLower
    intro c hc'
    rcases mem_intercalate _ _ c hc' with h | ⟨q, hq, hcq⟩
    · simp at h; subst h; decide
    · rcases List.mem_map.mp hq with ⟨l, hl, rfl⟩
      exact (htext l hl c hcq).1
  have hstrip : (strip (intercalate ['\n'] (ls.map Line.render))).isEmpty = false := by
    cases ls with
    | nil => exact absurd rfl hne
    | cons l ls' =>
      cases hr : l.render with
      | nil => exact absurd hr l.render_ne_nil
      | cons c r =>
        have hcl : c ∈ l.render := by rw [hr]; simp
        refine strip_nonempty (c := c) ?_ (htext l (by simp) c hcl).2
        rw [List.map_cons, hr]
        cases ls' with
        | nil => simp [intercalate]
        | cons m ms => rw [List.map_cons, intercalate_cons_cons]; simp
  have hlines : splitWs (intercalate ['\n'] (ls.map Line.render)) = ls.map Line.render :=
    splitWs_intercalate _ (by simpa using hne) (by
      intro q hq
      rcases List.mem_map.mp hq with ⟨l, hl, rfl⟩
      exact ⟨l.render_ne_nil, fun c hc' => (htext l hl c hc').2⟩)
  unfold parseRfc
  simp only [hup, hstrip, Bool.false_eq_true, if_false, hu, hc, Bool.or_false, linesOf, hlines]

end RRuleStr
