/-
  Proofs/Calendar.lean — core lemmas about the calendar model, reused everywhere.
-/
import DateutilVerif.Base.Calendar

namespace Cal

theorem isLeap_iff (y : Int) : isLeap y = true ↔ (y % 4 = 0 ∧ (y % 100 ≠ 0 ∨ y % 400 = 0)) := by
  unfold isLeap; simp

theorem daysBeforeYear_succ (y : Int) :
    daysBeforeYear (y + 1) = daysBeforeYear y + daysInYear y := by
  unfold daysBeforeYear daysInYear isLeap
  split <;> simp_all <;> omega

theorem daysInMonth_bounds (y m : Int) : 28 ≤ daysInMonth y m ∧ daysInMonth y m ≤ 31 := by
  unfold daysInMonth; split <;> split <;> omega

theorem daysBeforeMonth_succ (y m : Int) (h1 : 1 ≤ m) (h2 : m ≤ 12) :
    daysBeforeMonth y (m + 1) = daysBeforeMonth y m + daysInMonth y m := by
  have : m = 1 ∨ m = 2 ∨ m = 3 ∨ m = 4 ∨ m = 5 ∨ m = 6 ∨ m = 7 ∨ m = 8 ∨ m = 9 ∨ m = 10 ∨ m = 11 ∨ m = 12 := by omega
  rcases this with h|h|h|h|h|h|h|h|h|h|h|h <;> subst h <;>
    cases hl : isLeap y <;> simp [daysBeforeMonth, dbmTable, daysInMonth, hl]

theorem daysBeforeMonth_13 (y : Int) : daysBeforeMonth y 13 = daysInYear y := by
  cases hl : isLeap y <;> simp [daysBeforeMonth, dbmTable, daysInYear, hl]

theorem daysBeforeMonth_1 (y : Int) : daysBeforeMonth y 1 = 0 := by
  simp [daysBeforeMonth, dbmTable]

/-- `daysBeforeMonth` is monotone in the month. -/
theorem daysBeforeMonth_mono (y m m' : Int) (h1 : 1 ≤ m) (h : m ≤ m') (h2 : m' ≤ 13) :
    daysBeforeMonth y m ≤ daysBeforeMonth y m' := by
  have hm : m' = m + (m' - m).toNat := by omega
  generalize (m' - m).toNat = k at hm
  subst hm
  induction k with
  | zero => simp
  | succ k ih =>
    have := daysBeforeMonth_succ y (m + k) (by omega) (by omega)
    have := daysInMonth_bounds y (m + k)
    have := ih (by omega) (by omega)
    have e : m + ((k + 1 : Nat) : Int) = m + k + 1 := by omega
    rw [e]; omega

theorem daysBeforeMonth_lt (y m m' : Int) (h1 : 1 ≤ m) (h : m < m') (h2 : m' ≤ 13) :
    daysBeforeMonth y m + daysInMonth y m ≤ daysBeforeMonth y m' := by
  rw [← daysBeforeMonth_succ y m h1 (by omega)]
  exact daysBeforeMonth_mono y (m + 1) m' (by omega) (by omega) h2

/-! ### day-of-year → (month, day) -/

def monthOfYdayOK (leap : Bool) (n : Int) : Bool :=
  let m := monthOfYday leap n
  decide (1 ≤ m ∧ m ≤ 12 ∧
    dbmTable m + (if m > 2 && leap then 1 else 0) ≤ n ∧
    n < dbmTable (m + 1) + (if m + 1 > 2 && leap then 1 else 0))

theorem monthOfYday_table : ∀ leap : Bool, ∀ k : Fin 366,
    (k.val < (if leap then 366 else 365)) → monthOfYdayOK leap (k.val : Int) = true := by
  decide +kernel

theorem monthOfYday_spec (leap : Bool) (n : Int) (h0 : 0 ≤ n) (h1 : n < (if leap then 366 else 365)) :
    1 ≤ monthOfYday leap n ∧ monthOfYday leap n ≤ 12 ∧
    dbmTable (monthOfYday leap n) + (if monthOfYday leap n > 2 && leap then 1 else 0) ≤ n ∧
    n < dbmTable (monthOfYday leap n + 1) + (if monthOfYday leap n + 1 > 2 && leap then 1 else 0) := by
  have hn : n.toNat < 366 := by cases leap <;> simp at h1 <;> omega
  have := monthOfYday_table leap ⟨n.toNat, hn⟩ (by cases leap <;> simp at h1 ⊢ <;> omega)
  have e : ((n.toNat : Nat) : Int) = n := by omega
  simp only [e, monthOfYdayOK, decide_eq_true_eq] at this
  exact this

theorem monthDay_spec (y n : Int) (h0 : 0 ≤ n) (h1 : n < daysInYear y) :
    daysBeforeMonth y (monthDayOfYday (isLeap y) n).1 + (monthDayOfYday (isLeap y) n).2 = n + 1 ∧
    ValidYMD y (monthDayOfYday (isLeap y) n).1 (monthDayOfYday (isLeap y) n).2 := by
  unfold daysInYear at h1
  have h := monthOfYday_spec (isLeap y) n h0 h1
  simp only [monthDayOfYday, ValidYMD]
  generalize monthOfYday (isLeap y) n = m at h
  obtain ⟨m1, m12, lo, hi⟩ := h
  have hs := daysBeforeMonth_succ y m m1 m12
  unfold daysBeforeMonth at hs ⊢
  refine ⟨by omega, m1, m12, by omega, ?_⟩
  omega

/-! ### the 400/100/4/1-year cycle decomposition -/

theorem year_decomp (a b c d : Int) (hb : 0 ≤ b ∧ b ≤ 3) (hc : 0 ≤ c ∧ c ≤ 24)
    (hd : 0 ≤ d ∧ d ≤ 3) :
    daysBeforeYear (a * 400 + 1 + b * 100 + c * 4 + d) = a * 146097 + b * 36524 + c * 1461 + d * 365 ∧
    isLeap (a * 400 + 1 + b * 100 + c * 4 + d) = (d == 3 && (c != 24 || b == 3)) := by
  unfold daysBeforeYear isLeap
  refine ⟨by omega, ?_⟩
  rw [Bool.eq_iff_iff]
  simp only [Bool.and_eq_true, beq_iff_eq, Bool.or_eq_true, bne_iff_ne, ne_eq]
  omega

/-- `toordinal ∘ fromordinal = id` and `fromordinal` lands on a valid date. -/
theorem toOrdinal_fromOrdinal (n : Int) (h : 1 ≤ n) :
    toOrdinal (fromOrdinal n).1 (fromOrdinal n).2.1 (fromOrdinal n).2.2 = n ∧
    ValidYMD (fromOrdinal n).1 (fromOrdinal n).2.1 (fromOrdinal n).2.2 ∧ 1 ≤ (fromOrdinal n).1 := by
  unfold fromOrdinal
  simp only []
  generalize hn400 : (n - 1) / 146097 = n400
  generalize hr : (n - 1) % 146097 = r
  generalize hn100 : r / 36524 = n100
  generalize hr2 : r % 36524 = r2
  generalize hn4 : r2 / 1461 = n4
  generalize hr3 : r2 % 1461 = r3
  generalize hn1 : r3 / 365 = n1
  generalize hr4 : r3 % 365 = r4
  have b0 : 0 ≤ n400 := by omega
  have b2 : 0 ≤ n100 ∧ n100 ≤ 4 := by omega
  have b3 : 0 ≤ n4 ∧ n4 ≤ 24 := by omega
  have b4 : 0 ≤ n1 ∧ n1 ≤ 4 := by omega
  have e : n - 1 = n400 * 146097 + n100 * 36524 + n4 * 1461 + n1 * 365 + r4 := by omega
  have br4 : 0 ≤ r4 ∧ r4 < 365 := by omega
  by_cases hc : (n1 == 4 || n100 == 4) = true
  · rw [if_pos hc]
    simp only [Bool.or_eq_true, beq_iff_eq] at hc
    simp only [toOrdinal, ValidYMD]
    -- the last day of a leap year
    rcases hc with hc | hc
    · subst hc
      have hr4z : r4 = 0 := by omega
      have := year_decomp n400 n100 n4 3 (by omega) b3 (by omega)
      have e2 : n400 * 400 + 1 + n100 * 100 + n4 * 4 + 4 - 1 = n400 * 400 + 1 + n100 * 100 + n4 * 4 + 3 := by omega
      rw [e2, this.1]
      have hl : isLeap (n400 * 400 + 1 + n100 * 100 + n4 * 4 + 3) = true := by
        rw [this.2]; simp; omega
      simp [daysBeforeMonth, dbmTable, daysInMonth, hl]
      omega
    · subst hc
      have : n4 = 0 ∧ n1 = 0 ∧ r4 = 0 := by omega
      obtain ⟨h4, h1', hr4z⟩ := this
      subst h4 h1' hr4z
      have := year_decomp n400 3 24 3 (by omega) (by omega) (by omega)
      have e2 : n400 * 400 + 1 + 4 * 100 + 0 * 4 + 0 - 1 = n400 * 400 + 1 + 3 * 100 + 24 * 4 + 3 := by omega
      rw [e2, this.1]
      have hl : isLeap (n400 * 400 + 1 + 3 * 100 + 24 * 4 + 3) = true := by
        rw [this.2]; simp
      generalize hY : n400 * 400 + 1 + 3 * 100 + 24 * 4 + 3 = Y at this hl ⊢
      simp [daysBeforeMonth, dbmTable, daysInMonth, hl]
      omega
  · rw [if_neg hc]
    simp only [Bool.or_eq_true, beq_iff_eq, not_or] at hc
    have yd := year_decomp n400 n100 n4 n1 (by omega) b3 (by omega)
    rw [← yd.2]
    generalize hy : n400 * 400 + 1 + n100 * 100 + n4 * 4 + n1 = y at yd ⊢
    have hdy : r4 < daysInYear y := by unfold daysInYear; split <;> omega
    have ms := monthDay_spec y r4 br4.1 hdy
    dsimp only
    refine ⟨?_, ms.2, by omega⟩
    unfold toOrdinal
    rw [yd.1]
    omega

/-- `toOrdinal` is strictly monotone for the lexicographic order on valid dates. -/
theorem toOrdinal_lt_of_lex (y m d y' m' d' : Int) (h : ValidYMD y m d) (h' : ValidYMD y' m' d')
    (hlt : y < y' ∨ (y = y' ∧ (m < m' ∨ (m = m' ∧ d < d')))) :
    toOrdinal y m d < toOrdinal y' m' d' := by
  obtain ⟨m1, m12, d1, dd⟩ := h
  obtain ⟨m1', m12', d1', dd'⟩ := h'
  unfold toOrdinal
  rcases hlt with hy | ⟨hy, hm | ⟨hm, hd⟩⟩
  · -- later year
    have hmono : ∀ k : Nat, daysBeforeYear (y + 1) ≤ daysBeforeYear (y + 1 + k) := by
      intro k
      induction k with
      | zero => simp
      | succ k ih =>
        have := daysBeforeYear_succ (y + 1 + k)
        have e : y + 1 + ((k + 1 : Nat) : Int) = y + 1 + k + 1 := by omega
        rw [e, this]; unfold daysInYear; split <;> omega
    have hk := hmono (y' - (y + 1)).toNat
    have e : y + 1 + ((y' - (y + 1)).toNat : Int) = y' := by omega
    rw [e] at hk
    have hs := daysBeforeYear_succ y
    have h13 := daysBeforeMonth_13 y
    have hle := daysBeforeMonth_lt y m 13 m1 (by omega) (by omega)
    have h0 := daysBeforeMonth_mono y' 1 m' (by omega) m1' (by omega)
    rw [daysBeforeMonth_1] at h0
    omega
  · subst hy
    have := daysBeforeMonth_lt y m m' m1 hm (by omega)
    omega
  · subst hy; subst hm; omega

theorem toOrdinal_inj (y m d y' m' d' : Int) (h : ValidYMD y m d) (h' : ValidYMD y' m' d')
    (he : toOrdinal y m d = toOrdinal y' m' d') : y = y' ∧ m = m' ∧ d = d' := by
  by_cases c1 : y < y'
  · have := toOrdinal_lt_of_lex y m d y' m' d' h h' (Or.inl c1); omega
  by_cases c2 : y' < y
  · have := toOrdinal_lt_of_lex y' m' d' y m d h' h (Or.inl c2); omega
  have hy : y = y' := by omega
  subst hy
  by_cases c3 : m < m'
  · have := toOrdinal_lt_of_lex y m d y m' d' h h' (Or.inr ⟨rfl, Or.inl c3⟩); omega
  by_cases c4 : m' < m
  · have := toOrdinal_lt_of_lex y m' d' y m d h' h (Or.inr ⟨rfl, Or.inl c4⟩); omega
  have hm : m = m' := by omega
  subst hm
  unfold toOrdinal at he
  exact ⟨rfl, rfl, by omega⟩

theorem toOrdinal_pos (y m d : Int) (hy : 1 ≤ y) (h : ValidYMD y m d) : 1 ≤ toOrdinal y m d := by
  have := toOrdinal_lt_of_lex 0 12 31 y m d (by decide) h (Or.inl (by omega))
  have e : toOrdinal 0 12 31 = 0 := by decide
  omega

/-- `fromordinal ∘ toordinal = id` on valid dates. -/
theorem fromOrdinal_toOrdinal (y m d : Int) (hy : 1 ≤ y) (h : ValidYMD y m d) :
    fromOrdinal (toOrdinal y m d) = (y, m, d) := by
  have hp := toOrdinal_pos y m d hy h
  have ⟨e, v, _⟩ := toOrdinal_fromOrdinal (toOrdinal y m d) hp
  have := toOrdinal_inj _ _ _ _ _ _ v h e
  ext <;> simp [this.1, this.2.1, this.2.2]

/-- moving by `k` days moves the weekday by `k` (mod 7) -/
theorem weekdayOfOrd_add (n k : Int) : weekdayOfOrd (n + k) = (weekdayOfOrd n + k) % 7 := by
  unfold weekdayOfOrd; omega

theorem weekdayOfOrd_range (n : Int) : 0 ≤ weekdayOfOrd n ∧ weekdayOfOrd n < 7 := by
  unfold weekdayOfOrd; omega

end Cal
