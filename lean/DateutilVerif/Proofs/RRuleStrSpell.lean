/-
  Proofs/RRuleStrSpell.lean — the parts of `str(rule)` set pairwise different keywords, so the round trip
  holds for every reordering of them, in every letter case (C13: items 3, 5 and 6 combined).
-/
import DateutilVerif.Proofs.RRuleStrWhole
import DateutilVerif.Proofs.RRuleStrOrder

namespace RRuleStr
open ICal (isSpace upper splitOnChar pyInt rstrip strip isDigit splitLines)

variable {po : ParseOpts}

theorem stepU_part {name value : List Char} {u : Update}
    (hname : ∀ c ∈ name, isAtom c = true) (hval : ∀ c ∈ value, isValC c = true)
    (h : handleU po name value = .ok u) : stepU po (name ++ '=' :: value) = .ok u := by
  have hs : splitOnChar '=' (name ++ '=' :: value) = [name, value] :=
    splitOnChar_two '=' name value (fun hc => isAtom_ne_eq _ (hname _ hc) rfl) (fun hc => isValC_ne_eq _ (hval _ hc) rfl)
  have hun : upper name = name := upper_of_noLower name (fun c hc => isAtom_not_lower c (hname c hc))
  have huv : upper value = value :=
    upper_of_noLower value (fun c hc => isPartC_not_lower c (isValC_isPartC c (hval c hc)))
  unfold stepU
  rw [hs]
  simp only [hun, huv, h]

/-- the keywords the parts of a piece set form a sublist of `[f]` -/
def FieldsIn (piece : List (List Char)) (f : Field) : Prop := (piece.map partField).Sublist [some f]

theorem fieldsIn_nil (f : Field) : FieldsIn [] f := by simp [FieldsIn]

theorem fieldsIn_single {name value : List Char} {u : Update}
    (hname : ∀ c ∈ name, isAtom c = true) (hval : ∀ c ∈ value, isValC c = true)
    (h : handleU po name value = .ok u) : FieldsIn [name ++ '=' :: value] u.field := by
  unfold FieldsIn
  rw [List.map_singleton, stepU_field (stepU_part hname hval h)]
  exact List.Sublist.refl _

theorem fieldsIn_freq (f : Nat) (hf : f < 7) : FieldsIn [lit "FREQ=" ++ FREQNAMES.getD f []] .freq :=
  fieldsIn_single (po := {}) (name := lit "FREQ") (by decide) (fun c hc => isAtom_isValC c (freqName_atoms f c hc)) (handleU_freq f hf)

theorem fieldsIn_interval (i : Int) : FieldsIn (if i != 1 then [lit "INTERVAL=" ++ showInt i] else []) .interval := by
  split
  · exact fieldsIn_single (po := {}) (name := lit "INTERVAL") (by decide) (fun c hc => isAtom_isValC c (showInt_isAtom i c hc))
      (handleU_interval i)
  · exact fieldsIn_nil _

theorem fieldsIn_wkst (k : Int) (h0 : 0 ≤ k) (h6 : k ≤ 6) (b : Bool) :
    FieldsIn (if b then [lit "WKST=" ++ wdName k] else []) .wkst := by
  split
  · exact fieldsIn_single (po := {}) (name := lit "WKST") (by decide) (fun c hc => isAtom_isValC c (wdName_atoms k h0 h6 c hc))
      (handleU_wkst k h0 h6)
  · exact fieldsIn_nil _

theorem fieldsIn_count (v : Option Int) :
    FieldsIn (match v with | some c => [lit "COUNT=" ++ showInt c] | none => []) .count := by
  cases v with
  | none => exact fieldsIn_nil _
  | some c =>
    exact fieldsIn_single (po := {}) (name := lit "COUNT") (by decide) (fun d hd => isAtom_isValC d (showInt_isAtom c d hd)) (handleU_count c)

theorem fieldsIn_until (v : Option (Nat × Nat × Nat × Nat × Nat × Nat)) :
    FieldsIn (match v with | some t => [lit "UNTIL=" ++ showDT t] | none => []) .untilV := by
  cases v with
  | none => exact fieldsIn_nil _
  | some t =>
    exact fieldsIn_single (po := {}) (name := lit "UNTIL") (u := .untilV (showDT t) {}) (by decide)
      (fun d hd => isAtom_isValC d (showDT_atoms t d hd)) (by simp [handleU, lit])

theorem fieldsIn_partOf (name : String) (mk : List Int → Update) (f : Field) (hf : ∀ l, (mk l).field = f)
    (hname : ∀ c ∈ lit name, isAtom c = true)
    (hh : ∀ value l, intList value = .ok l → handleU {} (lit name) value = .ok (mk l))
    (v : Option (List Int)) : FieldsIn (partOf name v) f := by
  rcases v with _ | _ | ⟨i0, l0⟩
  · exact fieldsIn_nil _
  · exact fieldsIn_nil _
  · generalize hl : i0 :: l0 = l
    have hne : l ≠ [] := by rw [← hl]; simp
    have hemp : l.isEmpty = false := by cases l with | nil => exact absurd rfl hne | cons => rfl
    simp only [partOf, hemp, Bool.false_eq_true, if_false, List.append_assoc, List.singleton_append]
    rw [← hf l]
    exact fieldsIn_single (po := {}) hname (showInts_valC l) (hh _ l (intList_showInts l hne))

theorem fieldsIn_byday (v : Option (List WDay)) (hv : ∀ l, v = some l → ∀ w ∈ l, NormalWDay w) :
    FieldsIn (byDayPart v) .byweekday := by
  rcases v with _ | _ | ⟨w0, l0⟩
  · exact fieldsIn_nil _
  · exact fieldsIn_nil _
  · generalize hl : w0 :: l0 = l at hv
    have hne : l ≠ [] := by rw [← hl]; simp
    have hn := hv l rfl
    have hemp : l.isEmpty = false := by cases l with | nil => exact absurd rfl hne | cons => rfl
    simp only [byDayPart, hemp, Bool.false_eq_true, if_false]
    exact fieldsIn_single (po := {}) (name := lit "BYDAY") (by decide)
      (intercalate_valC _ (by
        intro i hi c hc
        rcases List.mem_map.mp hi with ⟨w, hw, rfl⟩
        exact showWDayStr_atoms w (hn w hw) c hc))
      (handleU_byday l hne hn)

/-- the order in which `__str__` prints the keywords -/
def printOrder : List Field :=
  [.freq, .interval, .wkst, .count, .untilV, .bysetpos, .bymonth, .bymonthday, .byyearday, .byweekno, .byweekday,
   .byhour, .byminute, .bysecond, .byeaster]

theorem partsOf_fields (x : StrIn) (hx : Printable x) : ((partsOf x).map partField).Sublist (printOrder.map some) := by
  have il : ∀ (name : String) (mk : List Int → Update) (f : Field), (∀ l, (mk l).field = f) →
      (∀ c ∈ lit name, isAtom c = true) →
      (∀ value l, intList value = .ok l → handleU {} (lit name) value = .ok (mk l)) →
      ∀ v, FieldsIn (partOf name v) f := fieldsIn_partOf
  have h := ((((((((((((((fieldsIn_freq x.freq hx.freq).append (fieldsIn_interval x.interval)).append
    (fieldsIn_wkst x.wkst hx.wkst0 hx.wkst6 (x.wkst != 0 || x.fwd != 0))).append (fieldsIn_count x.count)).append (fieldsIn_until x.untilV)).append
    (il "BYSETPOS" .bysetpos .bysetpos (fun _ => rfl) (by decide) (by intro value l h; simp [handleU, lit, h, bind, Except.bind]) x.orig.bysetpos)).append
    (il "BYMONTH" .bymonth .bymonth (fun _ => rfl) (by decide) (by intro value l h; simp [handleU, lit, h, bind, Except.bind]) x.orig.bymonth)).append
    (il "BYMONTHDAY" .bymonthday .bymonthday (fun _ => rfl) (by decide) (by intro value l h; simp [handleU, lit, h, bind, Except.bind]) x.orig.bymonthday)).append
    (il "BYYEARDAY" .byyearday .byyearday (fun _ => rfl) (by decide) (by intro value l h; simp [handleU, lit, h, bind, Except.bind]) x.orig.byyearday)).append
    (il "BYWEEKNO" .byweekno .byweekno (fun _ => rfl) (by decide) (by intro value l h; simp [handleU, lit, h, bind, Except.bind]) x.orig.byweekno)).append
    (fieldsIn_byday _ hx.byweekday)).append
    (il "BYHOUR" .byhour .byhour (fun _ => rfl) (by decide) (by intro value l h; simp [handleU, lit, h, bind, Except.bind]) x.orig.byhour)).append
    (il "BYMINUTE" .byminute .byminute (fun _ => rfl) (by decide) (by intro value l h; simp [handleU, lit, h, bind, Except.bind]) x.orig.byminute)).append
    (il "BYSECOND" .bysecond .bysecond (fun _ => rfl) (by decide) (by intro value l h; simp [handleU, lit, h, bind, Except.bind]) x.orig.bysecond)).append
    (il "BYEASTER" .byeaster .byeaster (fun _ => rfl) (by decide) (by intro value l h; simp [handleU, lit, h, bind, Except.bind]) x.orig.byeaster)
  simp only [← List.map_append] at h
  exact h

/-- no two parts of `str(rule)` set the same keyword -/
theorem partsOf_distinct (x : StrIn) (hx : Printable x) : (partsOf x).Pairwise Distinct := by
  have hnd : (printOrder.map some).Pairwise (· ≠ ·) := by decide
  have h1 : ((partsOf x).map partField).Pairwise (· ≠ ·) := hnd.sublist (partsOf_fields x hx)
  rw [List.pairwise_map] at h1
  exact h1.imp (fun {p q} hpq f hp hq => hpq (hp.trans hq.symm))

/-- `str_roundtrip` for every reordering of the printed parts: any `;`-joined permutation of the parts of `str(rule)`
    (with or without the `RRULE:` prefix handled by the caller) parses to the printed arguments -/
theorem parseRRuleLine_perm (x : StrIn) (hx : Printable x) (qs : List (List Char)) (hperm : (partsOf x).Perm qs) :
    parseRRuleLine po (intercalate [';'] qs) = .ok (argsOf po x) := by
  have hgood : ∀ q ∈ qs, GoodPart q := fun q hq => (partsOf_ok (po := po) x hx).2 q (hperm.mem_iff.mpr hq)
  have hne : qs ≠ [] := fun h => partsOf_ne_nil x (by rw [h] at hperm; exact hperm.eq_nil)
  have hnc : ':' ∉ intercalate [';'] qs := by
    intro h
    rcases mem_intercalate [';'] _ _ h with h | ⟨p, hp, hcp⟩
    · revert h; decide
    · exact isPartC_ne_colon _ (hgood p hp _ hcp) rfl
  have hs : splitOnChar ';' (intercalate [';'] qs) = qs :=
    splitOnChar_intercalate ';' _ hne (fun p hp hc => isPartC_ne_semi _ (hgood p hp _ hc) rfl)
  rw [parseRRuleLine_of_lineValue (lineValue_noColon hnc), hs,
    ← foldlM_stepPair_perm hperm (partsOf_distinct x hx) {}]
  exact (partsOf_ok x hx).1

end RRuleStr
