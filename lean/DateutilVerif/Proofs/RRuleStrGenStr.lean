/-
  Proofs/RRuleStrGenStr.lean — the source translation of `rrule.__str__` (`Gen.rruleStr`) equals the model's `toStr`
  on every rule in printable form.
-/
import DateutilVerif.Generated.RRuleStrKernels
import DateutilVerif.Proofs.RRuleStrRound

namespace RRuleStr

theorem wdName_length (k : Int) (h0 : 0 ≤ k) (h6 : k ≤ 6) : (wdName k).length = 2 := by
  have : k = 0 ∨ k = 1 ∨ k = 2 ∨ k = 3 ∨ k = 4 ∨ k = 5 ∨ k = 6 := by omega
  rcases this with rfl | rfl | rfl | rfl | rfl | rfl | rfl <;> rfl

theorem take2_weekdayRepr (w : WDay) (h0 : 0 ≤ w.1) (h6 : w.1 ≤ 6) : List.take 2 (weekdayRepr w) = wdName w.1 := by
  unfold weekdayRepr
  rw [List.take_append_of_le_length (by rw [wdName_length _ h0 h6]; exact Nat.le_refl 2), List.take_of_length_le (by rw [wdName_length _ h0 h6]; exact Nat.le_refl 2)]

theorem weekdayRepr_none (k : Int) : weekdayRepr (k, none) = wdName k := by simp [weekdayRepr]
theorem weekdayRepr_zero (k : Int) : weekdayRepr (k, some 0) = wdName k := by simp [weekdayRepr]

theorem freqnames_eq (f : Nat) : (Gen.FREQNAMES.getD f "").toList = FREQNAMES.getD f [] := by
  by_cases h : f < 7
  · have : f = 0 ∨ f = 1 ∨ f = 2 ∨ f = 3 ∨ f = 4 ∨ f = 5 ∨ f = 6 := by omega
    rcases this with rfl | rfl | rfl | rfl | rfl | rfl | rfl <;> decide
  · have h1 : Gen.FREQNAMES.length = 7 := by decide
    have h2 : FREQNAMES.length = 7 := by decide
    simp only [List.getD_eq_getElem?_getD]
    rw [List.getElem?_eq_none (by omega), List.getElem?_eq_none (by omega)]; rfl

theorem showDT_sixGet (t : Nat × Nat × Nat × Nat × Nat × Nat) :
    pad 4 (sixGet t 0) ++ (pad 2 (sixGet t 1) ++ pad 2 (sixGet t 2) ++ ['T'] ++ pad 2 (sixGet t 3) ++ pad 2 (sixGet t 4) ++ pad 2 (sixGet t 5)) =
      showDT t := by
  obtain ⟨y, m, d, hh, mm, ss⟩ := t
  simp [showDT, sixGet, List.append_assoc]

end RRuleStr

namespace RRuleStr

/-- the element the translated weekday loop appends -/
theorem wdayConv_eq (w : WDay) (hw : NormalWDay w) : Gen.rruleStrWday w = showWDayStr w := by
  unfold Gen.rruleStrWday
  obtain ⟨k, n⟩ := w
  have hk := hw
  unfold NormalWDay at hk
  cases n with
  | none => simp [showWDayStr, weekdayRepr]
  | some n =>
    by_cases hn : n = 0
    · subst hn; simp [showWDayStr, weekdayRepr]
    · have ht := take2_weekdayRepr (k, some n) (by simpa using hk.1) (by simpa using hk.2.1)
      simp only [] at ht
      simp [showWDayStr, hn, ht]

end RRuleStr

namespace RRuleStr

theorem showDT_sixGet' (p : List Char) (t : Nat × Nat × Nat × Nat × Nat × Nat) :
    (p ++ pad 4 (sixGet t 0)) ++ (pad 2 (sixGet t 1) ++ pad 2 (sixGet t 2) ++ ['T'] ++ pad 2 (sixGet t 3) ++ pad 2 (sixGet t 4) ++ pad 2 (sixGet t 5)) =
      p ++ showDT t := by
  rw [← showDT_sixGet t]; simp [List.append_assoc]

theorem lit_byday : lit "BYDAY" ++ ['='] = lit "BYDAY=" := by decide

/-- **the source translation of `rrule.__str__` is the model's `toStr`** on every rule in printable form (weekday numbers 0..6:
    outside that range the real `repr(weekday(k))` raises IndexError and the model prints `??`) -/
theorem gen_rruleStr_eq_toStr (x : StrIn) (hx : Printable x) : Gen.rruleStr x = toStr x := by
  have hwk : List.take 2 (weekdayRepr (x.wkst, none)) = wdName x.wkst := take2_weekdayRepr (x.wkst, none) hx.wkst0 hx.wkst6
  unfold Gen.rruleStr toStr rruleLineOf partsOf dtstartLines partOf byDayPart
  simp only [hwk, freqnames_eq, showDT_sixGet', List.nil_append]
  cases hb : x.orig.byweekday with
  | none => simp only [Option.map_none]; rfl
  | some l =>
    have hl := hx.byweekday l hb
    simp only [Option.map_some, List.map_id', List.isEmpty_map, lit_byday]
    rw [List.map_congr_left (l := l) (f := Gen.rruleStrWday) (g := showWDayStr) (fun w hw => wdayConv_eq w (hl w hw))]
    rfl

end RRuleStr
