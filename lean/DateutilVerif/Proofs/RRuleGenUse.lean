/-
  Proofs/RRuleGenUse.lean — the hypotheses of the day-set / time-set obligations discharged for the way `rrule._iter`
  uses the methods: on a rule that came out of the constructor, and on an `_iterinfo` that was just rebuilt for the
  cursor's year (after any history of earlier calls).
-/
import DateutilVerif.Proofs.RRuleGenHelpers
import DateutilVerif.Proofs.RRuleGenCached
import DateutilVerif.Proofs.RRuleGenDaysets
import DateutilVerif.Proofs.RRuleConstruct
import DateutilVerif.Proofs.Calendar

namespace RRuleGen
open RRule RrPy

/-! ### time sets of constructed rules -/

theorem normUnit_isSome (freq lvl interval start : Int) (arg : Option (List Int)) (base : Int) (res : Option (List Int))
    (h : normUnit freq lvl interval start arg base = .ok res) (hf : freq < lvl) : res.isSome = true := by
  unfold normUnit at h
  cases arg with
  | none =>
    simp only [hf, if_true] at h
    cases h; rfl
  | some l =>
    simp only at h
    by_cases he : (freq == lvl) = true
    · simp only [he, if_true] at h
      cases hc : constructByset interval start l base with
      | error e => rw [hc] at h; cases h
      | ok c => rw [hc] at h; cases h; rfl
    · simp only [he, if_false] at h
      cases h; rfl

theorem construct_units (a : Args) (r : Rule) (h : construct a = .ok r) :
    (r.freq < 5 → r.byminute.isSome = true) ∧ (r.freq < 6 → r.bysecond.isSome = true) := by
  obtain ⟨sp, bh, bm, bs, ts, _, _, h3, h4, _, rfl⟩ := construct_ok a r h
  exact ⟨fun hf => normUnit_isSome _ _ _ _ _ _ _ h3 hf, fun hf => normUnit_isSome _ _ _ _ _ _ _ h4 hf⟩

/-- the time-set method `_iter` selects by frequency (`{HOURLY: ii.htimeset, MINUTELY: ii.mtimeset, SECONDLY: ii.stimeset}[freq]`) -/
def genTimeset (r : Rule) (self : RrPy.II) (hour minute second : Int) : Py.R (List HMS) :=
  if r.freq = 4 then Gen.htimeset r self hour minute second
  else if r.freq = 5 then Gen.mtimeset r self hour minute second
  else Gen.stimeset r self hour minute second

/-- for every rule the constructor returns (any ambient first weekday), the selected translated method is the model's
    `gettimeset` — no side condition left -/
theorem gen_gettimeset_of_construct (k : Int) (a : Args) (r : Rule) (h : constructW k a = .ok r) (self : RrPy.II)
    (hour minute second : Int) : genTimeset r self hour minute second = gettimeset r hour minute second := by
  obtain ⟨hm, hs⟩ := construct_units (resolveW k a) r h
  unfold genTimeset gettimeset
  by_cases h4 : r.freq = 4
  · simp only [h4, if_true, beq_self_eq_true]
    exact gen_htimeset_eq_model r self hour minute second (hm (by omega)) (hs (by omega))
  · by_cases h5 : r.freq = 5
    · have n54 : ¬ ((5 : Int) = 4) := by decide
      simp only [h5, n54, if_false, if_true, beq_iff_eq, beq_self_eq_true]
      exact gen_mtimeset_eq_model r self hour minute second (hs (by omega))
    · simp only [h4, h5, if_false, beq_iff_eq]
      rfl

/-! ### day sets on an `_iterinfo` rebuilt for the cursor's year -/

theorem toOrdinal_ge_jan1 (y m d : Int) (hv : Cal.validDate y m d = true) : 0 ≤ Cal.toOrdinal y m d - Cal.toOrdinal y 1 1 := by
  have hv' : Cal.ValidDate y m d := by simpa [Cal.validDate] using hv
  obtain ⟨_, _, hymd⟩ := hv'
  have h11 : Cal.ValidYMD y 1 1 := by simp [Cal.ValidYMD, Cal.daysInMonth]
  by_cases he : m = 1 ∧ d = 1
  · obtain ⟨rfl, rfl⟩ := he; omega
  · have := Cal.toOrdinal_lt_of_lex y 1 1 y m d h11 hymd (Or.inr ⟨rfl, by
      obtain ⟨m1, _, d1, _⟩ := hymd
      by_cases hm : 1 < m
      · exact Or.inl hm
      · exact Or.inr ⟨by omega, by omega⟩⟩)
    omega

/-- the day-set method `_iter` selects for the frequencies other than YEARLY
    (`{MONTHLY: ii.mdayset, WEEKLY: ii.wdayset, DAILY…SECONDLY: ii.ddayset}[freq]`; YEARLY: `gen_ydayset_eq_model`) -/
def genDayset (r : Rule) (st : RrPy.II) (c : Cursor) : Py.R (List (Option Int) × Int × Int) :=
  if r.freq = 1 then Gen.mdayset r st c.year c.month c.day
  else if r.freq = 2 then Gen.wdayset r st c.year c.month c.day
  else Gen.ddayset r st c.year c.month c.day

/-- **as `_iter` uses them**: after ANY history of successful `rebuild` calls, rebuild for the cursor's year (with whatever
    month argument) and ask for the day set of the cursor's date (month 1..12): the translated method raises what the model's
    `dayset` raises, or returns `(dset, start, end)` with the model's day set `range(start, end)` and `dset[k] == k` there. -/
theorem gen_dayset_after_rebuild (r : Rule) (hf : r.freq ≠ 0) (calls : List (Int × Int)) (st0 : RrPy.II)
    (hh : history r calls = .ok st0) (c : Cursor) (marg : Int) (st : RrPy.II)
    (hst : Gen.rebuild r st0 c.year marg = .ok st) (hm : 1 ≤ c.month ∧ c.month ≤ 12) :
    DaysetAgrees (genDayset r st c) (dayset r st.toInfo c) := by
  have hmodel : RRule.rebuild r c.year marg = .ok st.toInfo := by
    have := rebuild_after_history r calls st0 hh c.year marg
    rw [hst] at this
    exact this.symm
  obtain ⟨_, _, _, _, hinfo⟩ := rebuild_inv r c.year marg st.toInfo hmodel
  have f1 : st.yearlen = (baseInfo c.year).yearlen := by have := congrArg Info.yearlen hinfo; simpa [RrPy.II.toInfo] using this
  have f2 : st.mrange = (baseInfo c.year).mrange := by have := congrArg Info.mrange hinfo; simpa [RrPy.II.toInfo] using this
  have f4 : st.yearordinal = (baseInfo c.year).yearordinal := by have := congrArg Info.yearordinal hinfo; simpa [RrPy.II.toInfo] using this
  have hyo : st.yearordinal = Cal.toOrdinal c.year 1 1 := by rw [f4]; rfl
  have hi : Cal.validDate c.year c.month c.day = true → 0 ≤ Cal.toOrdinal c.year c.month c.day - st.yearordinal := by
    intro hv; rw [hyo]; exact toOrdinal_ge_jan1 _ _ _ hv
  unfold genDayset
  by_cases h1 : r.freq = 1
  · simp only [h1, if_true]
    refine gen_mdayset_agrees r st c h1 (Cal.isLeap c.year) ?_ ?_ hm
    · rw [f1]; simp [baseInfo, Tables.ylen]
    · rw [f2]; simp [baseInfo, Tables.mrangeOf]
  · by_cases h2 : r.freq = 2
    · have n21 : ¬ ((2 : Int) = 1) := by decide
      simp only [h2, n21, if_false, if_true]
      refine gen_wdayset_agrees r st c h2 ?_ hi
      rw [f1]; cases hl : Cal.isLeap c.year <;> simp [baseInfo, hl]
    · simp only [h1, h2, if_false]
      exact gen_ddayset_agrees r st c ⟨hf, h1, h2⟩ hi

end RRuleGen
