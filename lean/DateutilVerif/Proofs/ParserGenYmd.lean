/-
  Proofs/ParserGenYmd.lean — the methods of `_ymd` re-translated from /repo's parser/_parser.py on every run
  (Generated/ParserOps.lean, translator harness/translate_parser.py, primitives Model/ParserPy.lean) are EQUAL to the
  hand-written model (Model/Parser.lean: `PM.Ymd.*`) that the C02 / C14 / C15 theorems are stated about.
  An edit of the source that changes the behaviour of a translated method changes Generated/ParserOps.lean and the
  corresponding `*_eq` theorem here stops checking (or the translation itself fails with a named construct).
-/
import DateutilVerif.Generated.ParserOps
import DateutilVerif.Proofs.Calendar

namespace PGen
open PM Py
set_option linter.unusedSimpArgs false

theorem bind_ok {α β : Type} (v : α) (f : α → Py.R β) : Except.bind (Except.ok v : Py.R α) f = f v := rfl
theorem bind_err {α β : Type} (e : Py.PyErr) (f : α → Py.R β) :
    Except.bind (Except.error e : Py.R α) f = Except.error e := rfl

theorem natOfInt_nat (k : Nat) : PPy.natOfInt (k : Int) = .ok k := by
  unfold PPy.natOfInt; simp

/-- `len(self) - 1` right after the append is the index of the new member: never negative -/
theorem natOfInt_len (l : List Nat) (n : Nat) :
    PPy.natOfInt (((l ++ [n]).length : Int) - (1 : Int)) = .ok l.length := by
  unfold PPy.natOfInt
  have : (((l ++ [n]).length : Int) - (1 : Int)) = (l.length : Int) := by
    rw [List.length_append]; simp
  rw [this]; simp

/-- the tail of the translated `append` (after the century rule): the three label arms -/
def labelArms (self : Ymd) (label : Label) : R Ymd :=
  Except.bind (if (label = PM.Label.M) then
    Except.bind (if ((decide (self.mIdx ≠ none)) = true) then .error .ValueError else .ok ()) (fun _ =>
      Except.bind (PPy.natOfInt ((self.vals.length : Int) - (1 : Int))) (fun n_2 =>
        let self := { self with mIdx := (some n_2) }
        .ok self))
    else
    Except.bind (if (label = PM.Label.D) then
      Except.bind (if ((decide (self.dIdx ≠ none)) = true) then .error .ValueError else .ok ()) (fun _ =>
        Except.bind (PPy.natOfInt ((self.vals.length : Int) - (1 : Int))) (fun n_3 =>
          let self := { self with dIdx := (some n_3) }
          .ok self))
      else
      Except.bind (if (label = PM.Label.Y) then
        Except.bind (if ((decide (self.yIdx ≠ none)) = true) then .error .ValueError else .ok ()) (fun _ =>
          Except.bind (PPy.natOfInt ((self.vals.length : Int) - (1 : Int))) (fun n_4 =>
            let self := { self with yIdx := (some n_4) }
            .ok self))
        else
        .ok self) (fun j_5 =>
        let self := j_5
        .ok self)) (fun j_6 =>
      let self := j_6
      .ok self)) (fun j_7 =>
    let self := j_7
    .ok self)

/-- the label arms on the state right after `vals ++ [n]` = the `match label` of the model's `appendCore` -/
theorem labelArms_eq (s : Ymd) (c : Bool) (n : Nat) (label : Label) :
    labelArms { s with vals := s.vals ++ [n], century := c } label =
      (match label with
       | .M => if s.mIdx.isSome then .error .ValueError
               else .ok { s with vals := s.vals ++ [n], century := c, mIdx := some s.vals.length }
       | .D => if s.dIdx.isSome then .error .ValueError
               else .ok { s with vals := s.vals ++ [n], century := c, dIdx := some s.vals.length }
       | .Y => if s.yIdx.isSome then .error .ValueError
               else .ok { s with vals := s.vals ++ [n], century := c, yIdx := some s.vals.length }
       | .none => .ok { s with vals := s.vals ++ [n], century := c }) := by
  unfold labelArms
  cases label
  · simp [bind_ok]
  · cases hy : s.yIdx <;> simp [bind_ok, bind_err, natOfInt_len, natOfInt_nat, hy]
  · cases hm : s.mIdx <;> simp [bind_ok, bind_err, natOfInt_len, natOfInt_nat, hm]
  · cases hd : s.dIdx <;> simp [bind_ok, bind_err, natOfInt_len, natOfInt_nat, hd]

/-- `_ymd.append(int)` as written now = `PM.Ymd.appendNat` -/
theorem appendNat_eq (cls : Char → CClass) (self : Ymd) (val : Nat) (label : Label) :
    Gen.P.ymd_appendNat cls self val label = self.appendNat val label := by
  unfold Gen.P.ymd_appendNat
  change Except.bind _ (fun (j : Ymd × Label) => labelArms { j.1 with vals := j.1.vals ++ [val] } j.2) = _
  unfold PM.Ymd.appendNat PM.Ymd.appendCore
  by_cases h : val > 100
  · cases label <;> simp [h, bind_ok, bind_err, labelArms_eq]
  · cases label <;> simp [h, bind_ok, bind_err, labelArms_eq]

/-- `_ymd.append(Decimal)` as written now = `PM.Ymd.appendDec` -/
theorem appendDec_eq (cls : Char → CClass) (self : Ymd) (val : Dec) (label : Label) :
    Gen.P.ymd_appendDec cls self val label = self.appendDec val label := by
  unfold Gen.P.ymd_appendDec
  change Except.bind _ (fun (j : Ymd × Label) => labelArms { j.1 with vals := j.1.vals ++ [PM.Dec.toNat val] } j.2) = _
  unfold PM.Ymd.appendDec PM.Ymd.appendCore
  cases h : val.gtNat 100
  · cases label <;> simp [h, bind_ok, bind_err, labelArms_eq]
  · cases label <;> simp [h, bind_ok, bind_err, labelArms_eq]

/-- `_ymd.append(str)` as written now = `PM.Ymd.appendTok` -/
theorem appendTok_eq (cls : Char → CClass) (self : Ymd) (val : Token) (label : Label) :
    Gen.P.ymd_appendTok cls self val label = self.appendTok cls val label := by
  unfold Gen.P.ymd_appendTok
  change Except.bind _ (fun (j : Ymd × Label) => Except.bind (PM.pyInt cls val) (fun i =>
    labelArms { j.1 with vals := j.1.vals ++ [i] } j.2)) = _
  unfold PM.Ymd.appendTok PM.Ymd.appendCore
  cases hv : PM.pyInt cls val with
  | error e =>
    cases hd : isDigitTok cls val <;> by_cases hl : val.length > 2 <;>
      cases label <;> simp [hd, hl, bind_ok, bind_err]
  | ok n =>
    cases hd : isDigitTok cls val <;> by_cases hl : val.length > 2 <;>
      cases label <;> simp [hd, hl, bind_ok, bind_err, labelArms_eq]

/-- `_ymd.append(str(n), label)` for an int `n ≥ 0` (the text of a year `convertyear` returned) = the model's
    `appendCore` on the number: the century rule looks at the LENGTH of the decimal text -/
theorem appendIntStr_eq (cls : Char → CClass) (self : Ymd) (n : Int) (label : Label) (hn : 0 ≤ n) :
    Gen.P.ymd_appendIntStr cls self n label = self.appendCore (PPy.intStrLen n > 2) (.ok n.toNat) label := by
  unfold Gen.P.ymd_appendIntStr
  change Except.bind _ (fun (j : Ymd × Label) => Except.bind (PPy.natOfInt n) (fun i =>
    labelArms { j.1 with vals := j.1.vals ++ [i] } j.2)) = _
  unfold PM.Ymd.appendCore
  have hnat : PPy.natOfInt n = .ok n.toNat := by
    unfold PPy.natOfInt; simp; omega
  generalize PPy.intStrLen n = len
  by_cases hl : len > 2 <;>
    cases label <;> simp [hl, hn, hnat, bind_ok, bind_err, labelArms_eq, PPy.intStrIsDigit]

theorem monthrange_nonneg {y m n : Int} (h : PM.monthrange y m = .ok n) : 0 ≤ n := by
  unfold PM.monthrange at h
  split at h
  · have := Cal.daysInMonth_bounds y m
    injection h with h; omega
  · cases h

theorem decLeInt_eq (v : Dec) (n : Int) (h : 0 ≤ n) : PPy.decLeInt v n = v.leNat n.toNat := by
  unfold PPy.decLeInt; simp; omega

/-- `1 <= value <= monthrange(y, m)[1]`, the upper bound evaluated only when the lower one holds -/
theorem dayTest_eq (v : Dec) (y m : Int) :
    ((if v.geNat 1 = true then Except.bind (PM.monthrange y m) fun dim => Except.ok (PPy.decLeInt v dim)
        else Except.ok false).bind fun b => (Except.ok b : R Bool))
      = (if v.geNat 1 = true then (fun a => v.leNat a.toNat) <$> PM.monthrange y m else pure false) := by
  cases hg : v.geNat 1
  · rfl
  · simp only [if_true]
    cases hm : PM.monthrange y m with
    | error e => rfl
    | ok n =>
      have := decLeInt_eq v n (monthrange_nonneg hm)
      show Except.ok (PPy.decLeInt v n) = Except.ok (v.leNat n.toNat)
      rw [this]

/-- `_ymd.could_be_day` as written now = `PM.Ymd.couldBeDay` -/
theorem couldBeDay_eq (self : Ymd) (v : Dec) : Gen.P.ymd_couldBeDay self v = self.couldBeDay v := by
  unfold Gen.P.ymd_couldBeDay PM.Ymd.couldBeDay
  cases hd : self.dIdx with
  | some d => simp
  | none =>
    cases hm : self.mIdx with
    | none => simp
    | some mi =>
      cases hy : self.yIdx with
      | none =>
        simp only [PPy.optNat, bind_ok]
        cases hx : self.at mi with
        | error e => simp [bind_err]; rfl
        | ok month => simp [bind_ok]; exact dayTest_eq v _ _
      | some yi =>
        simp only [PPy.optNat, bind_ok]
        cases hx : self.at mi with
        | error e => simp [bind_err]; rfl
        | ok month =>
          cases hz : self.at yi with
          | error e => simp [bind_err, bind_ok]; rfl
          | ok year => simp [bind_ok]; exact dayTest_eq v _ _

theorem strids_eq (s : Ymd) :
    PPy.optEntry 'y' s.yIdx ++ PPy.optEntry 'm' s.mIdx ++ PPy.optEntry 'd' s.dIdx = s.strids := by
  unfold PM.Ymd.strids PPy.optEntry
  cases s.yIdx <;> cases s.mIdx <;> cases s.dIdx <;> rfl

theorem strids_len (s : Ymd) : s.strids.length = s.nlab := by
  unfold PM.Ymd.strids PM.Ymd.nlab
  cases s.yIdx <;> cases s.mIdx <;> cases s.dIdx <;> rfl

theorem at_nil (c : Bool) (d m y : Option Nat) (i : Int) :
    PM.Ymd.at ⟨[], c, d, m, y⟩ i = .error .IndexError := by
  unfold PM.Ymd.at Py.getIdx; simp

theorem bind_eq {α β : Type} (x : R α) (f : α → R β) : (x >>= f) = Except.bind x f := rfl
theorem pure_eq {α : Type} (a : α) : (pure a : R α) = Except.ok a := rfl
theorem map_eq {α β : Type} (f : α → β) (x : R α) : f <$> x = Except.bind x (fun a => .ok (f a)) := by
  cases x <;> rfl
theorem bind_ite {α β : Type} (c : Prop) [Decidable c] (a b : R α) (f : α → R β) :
    Except.bind (if c then a else b) f = if c then Except.bind a f else Except.bind b f := by
  split <;> rfl
theorem bind_ok_id {α : Type} (x : R α) : Except.bind x (fun r => .ok r) = x := by cases x <;> rfl

/-- `_ymd.resolve_ymd` as written now = `PM.Ymd.resolve` (given the same for `_resolve_from_stridxs`) -/
theorem resolveYmd_eq_of (self : Ymd) (yf df : Bool)
    (hs : Gen.P.ymd_resolveFromStridxs self self.strids = self.resolveFromStridxs) :
    Gen.P.ymd_resolveYmd self yf df = self.resolve yf df := by
  unfold Gen.P.ymd_resolveYmd PM.Ymd.resolve
  simp only [strids_eq, strids_len]
  by_cases hc : (self.vals.length = self.nlab ∧ self.nlab > 0) ∨ (self.vals.length = 3 ∧ self.nlab = 2)
  · simp only [hc, if_true, hs, bind_ok_id]
  · simp only [hc, if_false]
    unfold PM.Ymd.resolveRest
    clear hs hc
    rcases self with ⟨vals, c, d, m, y⟩
    match vals with
    | [] =>
      cases m <;> simp [at_nil, bind_ok, bind_err, PPy.optNat] <;> rfl
    | [a] =>
      cases m with
      | none =>
        simp [PM.Ymd.at, Py.getIdx, bind_ok, bind_err, PPy.optNat, bind_ite, bind_eq, pure_eq, map_eq]
      | some mi =>
        simp only [PPy.optNat, bind_ok]
        generalize PM.Ymd.at _ (mi : Int) = r1
        generalize PM.Ymd.at _ ((mi : Int) - 1) = r2
        cases r1 <;> cases r2 <;> simp [bind_ok, bind_err, bind_ite, bind_eq, pure_eq, map_eq]
    | [a, b] =>
      cases m with
      | none =>
        simp [PM.Ymd.at, Py.getIdx, bind_ok, bind_err, PPy.optNat, PPy.unpack2, bind_ite, bind_eq, pure_eq, map_eq]
        repeat' split
        all_goals simp_all
      | some mi =>
        simp only [PPy.optNat, bind_ok]
        generalize PM.Ymd.at _ (mi : Int) = r1
        generalize PM.Ymd.at _ ((mi : Int) - 1) = r2
        cases r1 <;> cases r2 <;> simp [bind_ok, bind_err, bind_ite, bind_eq, pure_eq, map_eq]
    | [a, b, c] =>
      cases m with
      | none =>
        simp [PM.Ymd.at, Py.getIdx, bind_ok, bind_err, PPy.optNat, PPy.unpack3, bind_ite, bind_eq, pure_eq, map_eq]
        repeat' split
        all_goals simp_all
        all_goals omega
      | some mi =>
        rcases mi with _ | _ | _ | mi
        all_goals simp [PM.Ymd.at, Py.getIdx, bind_ok, bind_err, PPy.optNat, PPy.unpack3, bind_ite, bind_eq, pure_eq, map_eq]
        all_goals repeat' split
        all_goals simp_all
        all_goals omega
    | a :: b :: c :: e :: r =>
      simp [bind_ok, bind_err]; rfl

end PGen
