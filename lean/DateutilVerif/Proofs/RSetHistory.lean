/-
  Proofs/RSetHistory.lean — histories of a set object (C10): the run-to-completion of a query
  thread and the `next()` calls on kept iterators, composed from the invariants of the
  cached-iterator machine; then the invariant of the history machine.
-/
import DateutilVerif.Proofs.CacheSolo
import DateutilVerif.Proofs.RRuleSetSpec

namespace RSet
open Cache Queries

/-! ### a query thread run to completion -/

theorem runThread_spec (t : Tid) : ∀ (fuel : Nat) (s : State) (it : Iter), Solo s t → s.its[t]? = some it →
    mu s.sh.src.length it < fuel →
    Solo (runThread s t fuel) t ∧ (runThread s t fuel).sh.src = s.sh.src ∧
    (runThread s t fuel).its.length = s.its.length ∧
    (∀ t', t' ≠ t → (runThread s t fuel).its[t']? = s.its[t']?) ∧
    ∃ it', (runThread s t fuel).its[t]? = some it' ∧ it'.pc = .done ∧ it'.q = it.q := by
  intro fuel
  induction fuel with
  | zero => intro s it _ _ h; omega
  | succ fuel ih =>
    intro s it hs hit hmu
    unfold runThread
    cases hst : step s t with
    | none =>
      simp only []
      have hd : it.pc = .done := by
        by_cases hd : it.pc = .done
        · exact hd
        · obtain ⟨s', h'⟩ := solo_enabled hs hit hd
          rw [hst] at h'; cases h'
      exact ⟨hs, trivial, trivial, fun _ _ => trivial, it, hit, hd, rfl⟩
    | some s1 =>
      simp only []
      obtain ⟨hs1, hsrc, hlen, hoth, hthr⟩ := solo_step hs hst
      obtain ⟨it1, hit1, hq1, hmu1, _⟩ := hthr it hit
      have := ih s1 it1 hs1 hit1 (by rw [hsrc]; omega)
      obtain ⟨a, b, c, d, it', e1, e2, e3⟩ := this
      exact ⟨a, b.trans hsrc, c.trans hlen, fun t' ht' => (d t' ht').trans (hoth t' ht'),
        it', e1, e2, e3.trans hq1⟩

/-- all threads are outside the critical section (the state of a rule object between calls) -/
def ParkedAll (s : State) : Prop := ∀ (t : Tid) (it : Iter), s.its[t]? = some it → it.pc.inCrit = false

/-- … of an object whose generator ends by StopIteration (the sets of C10's history machine: finite member lists) -/
def Parked (s : State) : Prop := ParkedAll s ∧ s.sh.endErr = none

/-! ### how the generator ends is a parameter: no statement changes it -/

theorem step_endErr {s s' : State} {t : Tid} (hi : Inv s) (h : step s t = some s') : s'.sh.endErr = s.sh.endErr := by
  obtain ⟨it, sh', it', hit, hst, rfl⟩ := step_eq h
  exact (stepIter_sinv hst hi.sinv (hi.linv t it hit)).2.err_eq

theorem runThread_endErr (t : Tid) : ∀ (fuel : Nat) (s : State), Inv s → (runThread s t fuel).sh.endErr = s.sh.endErr := by
  intro fuel
  induction fuel with
  | zero => intro s _; rfl
  | succ fuel ih =>
    intro s hi
    unfold runThread
    cases hst : step s t with
    | none => rfl
    | some s1 => exact (ih s1 (inv_step' hi hst)).trans (step_endErr hi hst)

theorem nextVal_endErr (t : Tid) : ∀ (fuel : Nat) (s : State), Inv s →
    (nextVal s t fuel).1.sh.endErr = s.sh.endErr ∧ Inv (nextVal s t fuel).1 := by
  intro fuel
  induction fuel with
  | zero => intro s hi; exact ⟨rfl, hi⟩
  | succ fuel ih =>
    intro s hi
    unfold nextVal
    cases hst : step s t with
    | none => exact ⟨rfl, hi⟩
    | some s1 =>
      simp only []
      have hi1 := inv_step' hi hst
      split
      · exact ⟨step_endErr hi hst, hi1⟩
      · exact ⟨((ih s1 hi1).1).trans (step_endErr hi hst), (ih s1 hi1).2⟩

theorem takeVals_endErr (t : Tid) : ∀ (k : Nat) (s : State) (acc : List Int), Inv s →
    (takeVals s t k acc).1.sh.endErr = s.sh.endErr := by
  intro k
  induction k with
  | zero => intro s acc _; rfl
  | succ k ih =>
    intro s acc hi
    unfold takeVals
    have h1 := nextVal_endErr t (threadFuel s.sh) s hi
    cases hnv : nextVal s t (threadFuel s.sh) with
    | mk s1 v =>
      rw [hnv] at h1
      cases v with
      | some x => simp only []; exact (ih s1 _ h1.2).trans h1.1
      | none => simp only []; exact h1.1

theorem runCreate_endErr (t : Tid) : ∀ (fuel : Nat) (s : State), Inv s → (runCreate s t fuel).sh.endErr = s.sh.endErr := by
  intro fuel
  induction fuel with
  | zero => intro s _; rfl
  | succ fuel ih =>
    intro s hi
    unfold runCreate
    split
    · rfl
    · split
      · cases hst : step s t with
        | none => rfl
        | some s1 => exact (ih s1 (inv_step' hi hst)).trans (step_endErr hi hst)
      · rfl

theorem getElem?_append_new {α} (l : List α) (a : α) : (l ++ [a])[l.length]? = some a := by
  simp

/-- a query method on a cached object at rest — whatever way its generator ends — returns what the uncached
    object gives (`specE`: the list-semantics answer on the sequence of the current generator, or the generator's
    own exception when the query needs one value more than there is), and leaves the object at rest -/
theorem runQuery_specE {s : State} (hi : Inv s) (hp : ParkedAll s) (hsorted : Sorted s.sh.src) (q : Query)
    (hsmall : fits q s.sh.src) :
    (runQuery s q).2 = some (specE q s.sh.src s.sh.endErr) ∧ Inv (runQuery s q).1 ∧ ParkedAll (runQuery s q).1 ∧
    (runQuery s q).1.sh.endErr = s.sh.endErr ∧
    (runQuery s q).1.sh.src = s.sh.src ∧
    (∀ t', t' < s.its.length → (runQuery s q).1.its[t']? = s.its[t']?) ∧
    (runQuery s q).1.its.length = s.its.length + 1 := by
  unfold runQuery
  simp only []
  let s0 : State := { s with its := s.its ++ [{ q := q }] }
  have hi0 : Inv s0 := inv_add hi q
  have hit0 : s0.its[s.its.length]? = some { q := q } := getElem?_append_new _ _
  have hs0 : Solo s0 s.its.length := by
    refine ⟨hi0, fun t' it' e h => ?_⟩
    have hlt : t' < s.its.length := by
      by_cases hc : t' < s.its.length
      · exact hc
      · have hge : s.its.length ≤ t' := Nat.le_of_not_lt hc
        have : (s.its ++ [({ q := q } : Iter)])[t']? = none := by
          apply List.getElem?_eq_none
          simp only [List.length_append, List.length_cons, List.length_nil]
          exact Nat.lt_of_le_of_ne hge (Ne.symm e)
        rw [show s0.its[t']? = (s.its ++ [({ q := q } : Iter)])[t']? from rfl, this] at h; cases h
    rw [show s0.its[t']? = (s.its ++ [({ q := q } : Iter)])[t']? from rfl,
      List.getElem?_append_left hlt] at h
    exact hp t' it' h
  have hmu : mu s0.sh.src.length ({ q := q } : Iter) < threadFuel s.sh := by
    show mu s.sh.src.length ({ q := q } : Iter) < 100 + 60 * (s.sh.src.length + 2)
    simp only [mu]; omega
  obtain ⟨hs', hsrc, hlen, hoth, it', hit', hd, hq⟩ :=
    runThread_spec s.its.length (threadFuel s.sh) s0 _ hs0 hit0 hmu
  have hl := hs'.inv.linv _ it' hit'
  obtain ⟨_, hl⟩ := hl
  rw [hd] at hl
  simp only [] at hl
  have herr : (runThread s0 s.its.length (threadFuel s.sh)).sh.endErr = s.sh.endErr :=
    runThread_endErr _ _ s0 hi0
  refine ⟨?_, hs'.inv, ?_, herr, hsrc, ?_, ?_⟩
  · show (match (runThread s0 s.its.length (threadFuel s.sh)).its[s.its.length]? with
          | some it => it.res | none => none) = _
    rw [hit']
    simp only []
    have := hl.2.2 (by rw [hsrc]; exact hsorted) (by rw [hq, hsrc]; exact hsmall)
    rw [this, hq, hsrc, herr]
  · intro t' it2 h2
    by_cases e : t' = s.its.length
    · subst e
      rw [hit'] at h2; cases h2
      rw [hd]; rfl
    · exact hs'.parked t' it2 e h2
  · intro t' hlt
    rw [hoth t' (Nat.ne_of_lt hlt)]
    show (s.its ++ [({ q := q } : Iter)])[t']? = _
    rw [List.getElem?_append_left hlt]
  · rw [hlen]; show (s.its ++ [({ q := q } : Iter)]).length = _; simp

/-- … over a generator that ends by StopIteration: the list-semantics answer -/
theorem runQuery_spec {s : State} (hi : Inv s) (hp : Parked s) (hsorted : Sorted s.sh.src) (q : Query)
    (hsmall : fits q s.sh.src) :
    (runQuery s q).2 = some (spec q s.sh.src) ∧ Inv (runQuery s q).1 ∧ Parked (runQuery s q).1 ∧
    (runQuery s q).1.sh.src = s.sh.src ∧
    (∀ t', t' < s.its.length → (runQuery s q).1.its[t']? = s.its[t']?) ∧
    (runQuery s q).1.its.length = s.its.length + 1 := by
  obtain ⟨r1, r2, r3, r4, r5, r6, r7⟩ := runQuery_specE hi hp.1 hsorted q hsmall
  rw [hp.2] at r1 r4
  exact ⟨r1, r2, ⟨r3, r4⟩, r5, r6, r7⟩

/-- **a history of calls on one cached object** — whatever way its generator ends — gives, call by call, what the
    uncached object gives -/
theorem runQueries_specE : ∀ (qs : List Query) (s : State), Inv s → ParkedAll s → Sorted s.sh.src →
    (∀ q ∈ qs, fits q s.sh.src) → runQueries s qs = qs.map (fun q => some (specE q s.sh.src s.sh.endErr)) := by
  intro qs
  induction qs with
  | nil => intro s _ _ _ _; rfl
  | cons q qs ih =>
    intro s hi hp hsorted hfit
    obtain ⟨r1, r2, r3, r4, r5, _, _⟩ := runQuery_specE hi hp hsorted q (hfit q (by simp))
    unfold runQueries
    rw [List.map_cons, r1, ih (runQuery s q).1 r2 r3 (by rw [r5]; exact hsorted)
      (fun q' hq' => by rw [r5]; exact hfit q' (by simp [hq'])), r4, r5]

/-! ### `next()` on a kept iterator -/

theorem yieldedLen_eq {s : State} {t : Tid} {it : Iter} (h : s.its[t]? = some it) :
    yieldedLen s t = it.yielded.length := by
  unfold yieldedLen; rw [h]

theorem nextVal_spec (t : Tid) : ∀ (fuel : Nat) (s : State) (it : Iter), Solo s t → s.its[t]? = some it →
    mu s.sh.src.length it < fuel →
    Solo (nextVal s t fuel).1 t ∧ (nextVal s t fuel).1.sh.src = s.sh.src ∧
    (nextVal s t fuel).1.its.length = s.its.length ∧
    (∀ t', t' ≠ t → (nextVal s t fuel).1.its[t']? = s.its[t']?) ∧
    ∃ it', (nextVal s t fuel).1.its[t]? = some it' ∧ it'.q = it.q ∧
      ((∃ x, (nextVal s t fuel).2 = some x ∧ it'.yielded = it.yielded ++ [x] ∧ it'.pc.inCrit = false) ∨
       ((nextVal s t fuel).2 = none ∧ it'.pc = .done ∧ it'.yielded = it.yielded)) := by
  intro fuel
  induction fuel with
  | zero => intro s it _ _ h; omega
  | succ fuel ih =>
    intro s it hs hit hmu
    unfold nextVal
    cases hst : step s t with
    | none =>
      simp only []
      have hd : it.pc = .done := by
        by_cases hd : it.pc = .done
        · exact hd
        · obtain ⟨s', h'⟩ := solo_enabled hs hit hd
          rw [hst] at h'; cases h'
      exact ⟨hs, trivial, trivial, fun _ _ => trivial, it, hit, rfl, Or.inr ⟨trivial, hd, rfl⟩⟩
    | some s1 =>
      simp only []
      obtain ⟨hs1, hsrc, hlen, hoth, hthr⟩ := solo_step hs hst
      obtain ⟨it1, hit1, hq1, hmu1, hy⟩ := hthr it hit
      rw [yieldedLen_eq hit, yieldedLen_eq hit1]
      rcases hy with hy | ⟨x, hx, hpk⟩
      · have hnot : ¬ it.yielded.length < it1.yielded.length := by rw [hy]; omega
        rw [if_neg hnot]
        obtain ⟨a, b, c, d, it', e1, e2, e3⟩ := ih s1 it1 hs1 hit1 (by rw [hsrc]; omega)
        refine ⟨a, b.trans hsrc, c.trans hlen, fun t' ht' => (d t' ht').trans (hoth t' ht'), it', e1, e2.trans hq1, ?_⟩
        rw [hy] at e3; exact e3
      · have hlt : it.yielded.length < it1.yielded.length := by rw [hx]; simp
        rw [if_pos hlt]
        simp only []
        refine ⟨hs1, hsrc, hlen, hoth, it1, hit1, hq1, Or.inl ⟨x, ?_, hx, hpk⟩⟩
        rw [hit1]; simp only []; rw [hx]; simp

/-- `ys ++ vals` a prefix of `src`: `vals` are the next instants after `ys` -/
theorem prefix_next {ys vals src : List Int} (h : ys ++ vals <+: src) :
    vals = (src.drop ys.length).take vals.length := by
  obtain ⟨zs, rfl⟩ := h
  rw [List.append_assoc, List.drop_left', List.take_left']
  · rfl
  · rfl

theorem linv_prefix {sh : Shared} {it : Iter} (h : LInv sh it) : it.yielded <+: sh.src := by
  obtain ⟨_, hl⟩ := h
  cases hpc : it.pc <;> rw [hpc] at hl <;> simp only [Y] at hl
  all_goals first
    | (rw [hl.1]; exact List.nil_prefix)
    | (rw [hl.1.1]; exact List.take_prefix _ _)
    | (rw [← hl.1]; exact List.prefix_append _ _)
    | exact hl.1

/-- `list(islice(it, k))` on a kept plain iterator whose owner thread is at rest: the next k
    instants of the generator's sequence (fewer at the end), the thread at rest again -/
theorem takeVals_spec (t : Tid) : ∀ (k : Nat) (s : State) (it : Iter) (acc : List Int), Solo s t →
    s.its[t]? = some it → it.q = .iterAll → it.pc.inCrit = false →
    Solo (takeVals s t k acc).1 t ∧ (takeVals s t k acc).1.sh.src = s.sh.src ∧
    (takeVals s t k acc).1.its.length = s.its.length ∧
    (∀ t', t' ≠ t → (takeVals s t k acc).1.its[t']? = s.its[t']?) ∧
    ∃ it', (takeVals s t k acc).1.its[t]? = some it' ∧ it'.q = .iterAll ∧ it'.pc.inCrit = false ∧
      (takeVals s t k acc).2 = acc ++ ((s.sh.src.drop it.yielded.length).take k) ∧
      it'.yielded = it.yielded ++ ((s.sh.src.drop it.yielded.length).take k) := by
  intro k
  induction k with
  | zero =>
    intro s it acc hs hit hq hpk
    exact ⟨hs, rfl, rfl, fun _ _ => rfl, it, hit, hq, hpk, by simp [takeVals], by simp⟩
  | succ k ih =>
    intro s it acc hs hit hq hpk
    unfold takeVals
    have hl := hs.inv.linv t it hit
    have hmu : mu s.sh.src.length it < threadFuel s.sh := by
      have := mu_bound hs.inv.sinv hl
      show _ < 100 + 60 * (s.sh.src.length + 2)
      omega
    obtain ⟨hs1, hsrc, hlen, hoth, it1, hit1, hq1, hcase⟩ := nextVal_spec t (threadFuel s.sh) s it hs hit hmu
    have hl1 := hs1.inv.linv t it1 hit1
    have hpre1 := linv_prefix hl1
    rw [hsrc] at hpre1
    rcases hcase with ⟨x, hr, hy, hpk1⟩ | ⟨hr, hd, hy⟩
    · -- one more value
      have hx : s.sh.src.drop it.yielded.length = x :: s.sh.src.drop (it.yielded.length + 1) := by
        rw [hy] at hpre1
        obtain ⟨zs, hz⟩ := hpre1
        rw [← hz, List.append_assoc, List.drop_left']
        · simp only [List.singleton_append, List.cons.injEq, true_and]
          rw [show it.yielded ++ x :: zs = (it.yielded ++ [x]) ++ zs by simp, List.drop_left' (by simp)]
        · rfl
      have hsplit : (nextVal s t (threadFuel s.sh)) = ((nextVal s t (threadFuel s.sh)).1, some x) := by
        rw [← hr]
      rw [hsplit]
      simp only []
      obtain ⟨a, b, c, d, it', e1, e2, e3, e4, e5⟩ := ih _ it1 (acc ++ [x]) hs1 hit1 (hq1.trans hq) hpk1
      refine ⟨a, b.trans hsrc, c.trans hlen, fun t' ht' => (d t' ht').trans (hoth t' ht'), it', e1, e2, e3, ?_, ?_⟩
      · rw [e4, hsrc, hy, hx]; simp
      · rw [e5, hsrc, hy, hx]; simp
    · -- the generator is exhausted
      have hsplit : (nextVal s t (threadFuel s.sh)) = ((nextVal s t (threadFuel s.sh)).1, none) := by
        rw [← hr]
      rw [hsplit]
      simp only []
      obtain ⟨_, hl1'⟩ := hl1
      rw [hd] at hl1'
      simp only [] at hl1'
      have hall : it1.yielded = s.sh.src := by
        have := hl1'.2.1 (hq1.trans hq)
        rw [this, hsrc]
      have hnil : s.sh.src.drop it.yielded.length = [] := by
        rw [← hall, hy]; simp
      refine ⟨hs1, hsrc, hlen, hoth, it1, hit1, hq1.trans hq, by rw [hd]; rfl, ?_, ?_⟩
      · rw [hnil]; simp
      · rw [hnil, hy]; simp

/-! ### `iter(self)` -/

theorem dispatch_step {sh sh' : Shared} {t : Tid} {it it' : Iter} (hd : inDispatch it.pc = true)
    (h : stepIter sh t it = some (sh', it')) : it'.yielded = it.yielded ∧ it'.pc.inCrit = false := by
  constructor
  · rcases (stepIter_q h).2 with e | ⟨x, _, hpc⟩
    · exact e
    · rcases hpc with hpc | hpc | hpc <;> rw [hpc] at hd <;> cases hd
  · unfold stepIter at h
    split at h
    all_goals rename_i hpc
    all_goals rw [hpc] at hd
    all_goals try (cases hd)
    all_goals (
      simp only [Option.some.injEq, Prod.mk.injEq] at h
      obtain ⟨_, rfl⟩ := h
      try simp only [finish]
      (repeat' split) <;> rfl)

theorem runCreate_spec (t : Tid) : ∀ (fuel : Nat) (s : State) (it : Iter), Solo s t → s.its[t]? = some it →
    it.yielded = [] → it.pc.inCrit = false →
    Solo (runCreate s t fuel) t ∧ (runCreate s t fuel).sh.src = s.sh.src ∧
    (runCreate s t fuel).its.length = s.its.length ∧
    (∀ t', t' ≠ t → (runCreate s t fuel).its[t']? = s.its[t']?) ∧
    ∃ it', (runCreate s t fuel).its[t]? = some it' ∧ it'.q = it.q ∧ it'.yielded = [] ∧ it'.pc.inCrit = false := by
  intro fuel
  induction fuel with
  | zero => intro s it hs hit hy hp; exact ⟨hs, rfl, rfl, fun _ _ => rfl, it, hit, rfl, hy, hp⟩
  | succ fuel ih =>
    intro s it hs hit hy hp
    unfold runCreate
    rw [hit]
    simp only []
    by_cases hd : inDispatch it.pc = true
    · rw [if_pos hd]
      cases hst : step s t with
      | none => exact ⟨hs, rfl, rfl, fun _ _ => rfl, it, hit, rfl, hy, hp⟩
      | some s1 =>
        simp only []
        obtain ⟨hs1, hsrc, hlen, hoth, hthr⟩ := solo_step hs hst
        obtain ⟨it1, hit1, hq1, _, _⟩ := hthr it hit
        obtain ⟨it0, sh', it', hit0, hsi, hs1eq⟩ := step_eq hst
        rw [hit] at hit0; cases hit0
        have hsame : it1 = it' := by
          rw [hs1eq] at hit1
          simp only [] at hit1
          rw [getElem?_set_self' hit] at hit1
          cases hit1; rfl
        subst hsame
        obtain ⟨hy1, hp1⟩ := dispatch_step hd hsi
        obtain ⟨a, b, c, d, it2, e1, e2, e3, e4⟩ := ih s1 it1 hs1 hit1 (hy1.trans hy) hp1
        exact ⟨a, b.trans hsrc, c.trans hlen, fun t' ht' => (d t' ht').trans (hoth t' ht'), it2, e1, e2.trans hq1, e3, e4⟩
    · rw [if_neg hd]
      exact ⟨hs, rfl, rfl, fun _ _ => rfl, it, hit, rfl, hy, hp⟩

end RSet
