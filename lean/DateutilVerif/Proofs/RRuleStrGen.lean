/-
  Proofs/RRuleStrGen.lean — the definitions translated from `_rrulestr._parse_rfc` / `_parse_date_value`
  (`Generated/RRuleStrKernels.lean`) equal the hand model (`Model/RRuleStr.lean`): the unfold loop never runs out of fuel
  and computes `ICal.unfold`; the prefix computes `upper`, the name table and `linesOf`.
-/
import DateutilVerif.Generated.RRuleStrKernels

namespace RRuleStr
open StrPy

/-! ### Python list operations at the end of a prefix -/

theorem pos_append {α} (pre : List α) (x : α) (rest : List α) :
    pos (pre ++ x :: rest) (pre.length : Int) = .ok pre.length := by
  unfold pos
  have h1 : ¬ ((pre.length : Int) < 0) := by omega
  have h2 : ¬ (((pre.length : Int) < 0) ∨ (pre.length : Int) ≥ ((pre ++ x :: rest).length : Int)) := by
    simp only [List.length_append, List.length_cons]; omega
  simp only [h1, if_false]
  simp
  omega

theorem getL_append {α} (pre : List α) (x : α) (rest : List α) :
    getL (pre ++ x :: rest) (pre.length : Int) = .ok x := by
  unfold getL Py.getIdx
  have h1 : ¬ ((pre.length : Int) < 0) := by omega
  have h2 : ¬ (((pre.length : Int) < 0) ∨ (pre.length : Int) ≥ ((pre ++ x :: rest).length : Int)) := by
    simp only [List.length_append, List.length_cons]; omega
  simp only [h1, if_false]
  simp
  omega

theorem delL_append {α} (pre : List α) (x : α) (rest : List α) :
    delL (pre ++ x :: rest) (pre.length : Int) = .ok (pre ++ rest) := by
  unfold delL; rw [pos_append]; simp [List.eraseIdx_append_of_length_le]

theorem setL_append {α} (pre : List α) (x v : α) (rest : List α) :
    setL (pre ++ x :: rest) (pre.length : Int) v = .ok (pre ++ v :: rest) := by
  unfold setL; rw [pos_append]; simp

/-! ### the unfold loop -/

/-- one step of `ICal.unfold`'s fold (the accumulator is the list of kept lines, last first) -/
def unfoldStep (acc : List (List Char)) (raw : List Char) : List (List Char) :=
  match ICal.rstrip raw, acc with
  | [], _ => acc
  | ' ' :: rest, prev :: acc' => (prev ++ rest) :: acc'
  | _, _ => raw :: acc

theorem unfold_eq_foldl (lines : List (List Char)) : ICal.unfold lines = (lines.foldl unfoldStep []).reverse := rfl

theorem unfoldStep_empty {acc : List (List Char)} {raw : List Char} (h : ICal.rstrip raw = []) : unfoldStep acc raw = acc := by
  unfold unfoldStep; rw [h]

theorem unfoldStep_first {raw : List Char} {c : Char} {l : List Char} (h : ICal.rstrip raw = c :: l) :
    unfoldStep [] raw = [raw] := by
  unfold unfoldStep; rw [h]
  split
  · rename_i heq; cases heq
  · rename_i heq; cases heq
  · rfl

theorem unfoldStep_cont {raw prev l : List Char} {acc : List (List Char)} (h : ICal.rstrip raw = ' ' :: l) :
    unfoldStep (prev :: acc) raw = (prev ++ l) :: acc := by
  unfold unfoldStep; rw [h]
  split
  · rename_i heq; cases heq
  · rename_i heq1 heq2; cases heq1; cases heq2; rfl
  · rename_i hno; exact absurd rfl (hno l prev acc rfl)

theorem unfoldStep_keep {raw l : List Char} {c : Char} {acc : List (List Char)} (h : ICal.rstrip raw = c :: l) (hc : c ≠ ' ') :
    unfoldStep acc raw = raw :: acc := by
  unfold unfoldStep; rw [h]
  split
  · rename_i heq; cases heq
  · rename_i heq; simp only [List.cons.injEq] at heq; exact absurd heq.1 hc
  · rfl

/-- the translated `while` loop, started anywhere: with the kept lines `pre` before position `i = len(pre)` and `rest` still to
    look at, it ends without running out of fuel (`len(rest) < fuel`) and leaves `ICal.unfold`'s fold of `rest` onto `pre` -/
theorem loop_spec : ∀ (rest pre : List (List Char)) (fuel : Nat), rest.length < fuel →
    ∃ n, Gen.rrsPrefixLoop fuel (pre.length : Int) (pre ++ rest) = .ok (n, (rest.foldl unfoldStep pre.reverse).reverse) := by
  intro rest
  induction rest with
  | nil =>
    intro pre fuel hf
    obtain ⟨f, rfl⟩ : ∃ f, fuel = f + 1 := ⟨fuel - 1, by simp at hf; omega⟩
    refine ⟨(pre.length : Int), ?_⟩
    unfold Gen.rrsPrefixLoop
    simp
  | cons raw rest ih =>
    intro pre fuel hf
    obtain ⟨f, rfl⟩ : ∃ f, fuel = f + 1 := ⟨fuel - 1, by simp at hf; omega⟩
    have hf' : rest.length < f := by simp at hf; omega
    have hlt : ((pre.length : Int) < ((pre ++ raw :: rest).length : Int)) := by
      simp only [List.length_append, List.length_cons]; omega
    unfold Gen.rrsPrefixLoop
    simp only [hlt, decide_true, if_true, getL_append, bind, Except.bind]
    cases hr : ICal.rstrip raw with
    | nil =>
      simp only [List.isEmpty_nil, if_true, delL_append]
      obtain ⟨n, hn⟩ := ih pre f hf'
      exact ⟨n, by rw [hn, List.foldl_cons, unfoldStep_empty hr]⟩
    | cons c l =>
      simp only [List.isEmpty_cons, Bool.false_eq_true, if_false]
      rcases List.eq_nil_or_concat pre with rfl | ⟨pre', prev, hpre⟩
      rotate_left
      rw [List.concat_eq_append] at hpre; subst hpre
      rotate_left
      · -- i = 0: not a continuation
        simp only [List.length_nil, Int.ofNat_zero, gt_iff_lt, Int.lt_irrefl, decide_false, Bool.false_eq_true, if_false,
          List.nil_append]
        obtain ⟨n, hn⟩ := ih [raw] f hf'
        refine ⟨n, ?_⟩
        have : ((0 : Int) + 1) = (([raw] : List (List Char)).length : Int) := by simp
        rw [this]
        simpa [List.foldl_cons, unfoldStep_first hr] using hn
      · have hpos : ((pre' ++ [prev]).length : Int) > 0 := by
          simp only [List.length_append, List.length_cons, List.length_nil]; omega
        have hg0 : getL (c :: l) (0 : Int) = .ok c := by
          have := getL_append ([] : List Char) c l
          simpa using this
        simp only [hpos, decide_true, if_true, hg0]
        have hi : ((pre' ++ [prev]).length : Int) - 1 = (pre'.length : Int) := by simp
        have hl : (pre' ++ [prev]) ++ raw :: rest = pre' ++ prev :: (raw :: rest) := by simp
        by_cases hc : c = ' '
        · subst hc
          simp only [beq_self_eq_true, if_true, hi, hl, getL_append, setL_append]
          have hl2 : pre' ++ (prev ++ sliceFrom (' ' :: l) 1) :: raw :: rest = (pre' ++ [prev ++ l]) ++ raw :: rest := by
            simp [sliceFrom]
          have hi2 : ((pre' ++ [prev]).length : Int) = ((pre' ++ [prev ++ l]).length : Int) := by simp
          rw [hl2, hi2, delL_append]
          dsimp only
          obtain ⟨n, hn⟩ := ih (pre' ++ [prev ++ l]) f hf'
          refine ⟨n, ?_⟩
          rw [hn, List.foldl_cons]
          simp only [List.reverse_append, List.reverse_cons, List.reverse_nil, List.nil_append, List.singleton_append]
          rw [unfoldStep_cont hr]
        · have hne : (c == ' ') = false := by simpa using hc
          simp only [hne, Bool.false_eq_true, if_false]
          obtain ⟨n, hn⟩ := ih ((pre' ++ [prev]) ++ [raw]) f hf'
          refine ⟨n, ?_⟩
          have hi3 : ((pre' ++ [prev]).length : Int) + 1 = (((pre' ++ [prev]) ++ [raw]).length : Int) := by
            simp only [List.length_append, List.length_cons, List.length_nil]; omega
          have hl3 : (pre' ++ [prev]) ++ raw :: rest = ((pre' ++ [prev]) ++ [raw]) ++ rest := by simp
          rw [hi3, hl3, hn, List.foldl_cons, unfoldStep_keep hr hc]
          simp

/-- **the translated unfold loop is `ICal.unfold`** and the declared bound `len(lines) + 1` is enough: it never runs out of fuel -/
theorem loop_eq_unfold (lines : List (List Char)) :
    ∃ n, Gen.rrsPrefixLoop (lines.length + 1) 0 lines = .ok (n, ICal.unfold lines) := by
  have := loop_spec lines [] (lines.length + 1) (by omega)
  simpa [unfold_eq_foldl] using this

/-- **the translated prefix of `_parse_rfc` is the model's**: `compatible` switches `forceset` and `unfold` on, the name table is
    `tzidTable` of the text AS WRITTEN (after `re.sub` when unfolding), the text is upper-cased, an all-blank text is a
    ValueError, and `lines` is `linesOf` — for every text and every flag combination -/
theorem gen_prefix_eq_model (s0 : List Char) (u f c : Bool) :
    Gen.rrsPrefix s0 u f c =
      if (ICal.strip (ICal.upper s0)).isEmpty then .error .ValueError
      else .ok (f || c, u || c, tzidTable s0 (u || c), ICal.upper s0, linesOf (ICal.upper s0) (u || c)) := by
  obtain ⟨n, hn⟩ := loop_eq_unfold (ICal.splitLines (ICal.upper s0))
  unfold Gen.rrsPrefix
  cases c <;> cases u <;>
    simp [tzidTable, findTzids, stripFolds, tzidPattern, foldPattern, linesOf, unfoldLines, hn, bind, Except.bind]

end RRuleStr
