/-
  Proofs/LexerBound.lean — the lexer never produces more characters than it read (for C14):
  every input character ends up in at most one token, NULs are dropped, nothing is duplicated.
-/
import DateutilVerif.Model.Lexer

namespace PM

def totalLen (l : List Token) : Nat := (l.map List.length).sum

theorem totalLen_append (a b : List Token) : totalLen (a ++ b) = totalLen a + totalLen b := by
  simp [totalLen, List.sum_append]

theorem splitDecimal_total (t : List Char) : totalLen (splitDecimal t) = t.length := by
  induction t with
  | nil => rfl
  | cons c cs ih =>
    unfold splitDecimal
    split
    · simp only [totalLen, List.map_cons, List.sum_cons, List.length_nil, List.length_cons, List.length_singleton] at ih ⊢; omega
    · split
      · rename_i h; rw [h] at ih
        have : cs.length = 0 := by simpa [totalLen] using ih.symm
        simp [totalLen, this]
      · rename_i p ps h; rw [h] at ih
        simp only [totalLen, List.map_cons, List.sum_cons, List.length_cons] at ih ⊢; omega

theorem totalLen_filter_nonempty (l : List Token) : totalLen (l.filter (fun t => !t.isEmpty)) = totalLen l := by
  induction l with
  | nil => rfl
  | cons a r ih =>
    cases a with
    | nil => simp [totalLen] at ih ⊢; exact ih
    | cons x xs => simp [totalLen] at ih ⊢; omega

theorem resplit_total (t : List Char) : totalLen (resplit t) = t.length := by
  unfold resplit
  have h := splitDecimal_total t
  split
  · rename_i he; rw [he] at h; simp [totalLen] at h ⊢; omega
  · rename_i t0 rest he
    rw [he] at h
    have hf := totalLen_filter_nonempty rest
    simp [totalLen] at h hf ⊢
    omega

/-- what `get_token` emits for a finished token is exactly its characters -/
theorem emit_total (st : LexSt) : totalLen (emit st) = st.tok.length := by
  unfold emit
  split
  · simpa using resplit_total st.tok.reverse
  · split <;> simp [totalLen]

theorem start_total (cls : Char → CClass) (c : Char) :
    totalLen (start cls c).1 + (start cls c).2.tok.length = 1 := by
  unfold start
  split
  · rfl
  · split
    · rfl
    · split <;> rfl

/-- one machine step: output + pending token grow by at most the one character read -/
theorem step_total (cls : Char → CClass) (st : LexSt) (c : Char) :
    totalLen (step cls st c).1 + (step cls st c).2.tok.length ≤ st.tok.length + 1 := by
  have hpb : ∀ s : LexSt, s.tok = st.tok → totalLen (pushBack cls s c).1 + (pushBack cls s c).2.tok.length ≤ st.tok.length + 1 := by
    intro s hs
    unfold pushBack
    have h1 := emit_total s
    have h2 := start_total cls c
    simp only [totalLen_append]
    rw [hs] at h1
    omega
  unfold step
  split
  · simp [totalLen]
  · split
    · have := start_total cls c; omega
    · dsimp only
      split
      · simp [totalLen]
      · split
        · simp [totalLen]
        · exact hpb _ rfl
    · split
      · simp [totalLen]
      · split
        · simp [totalLen]
        · exact hpb _ rfl
    · dsimp only
      split
      · simp [totalLen]
      · split
        · simp [totalLen]
        · exact hpb _ rfl
    · split
      · simp [totalLen]
      · split
        · simp [totalLen]
        · exact hpb _ rfl

theorem flush_total (st : LexSt) : totalLen (flush st) ≤ st.tok.length := by
  unfold flush
  split
  · simp [totalLen]
  · rw [emit_total]; exact Nat.le_refl _

theorem scan_total (cls : Char → CClass) : ∀ (cs : List Char) (st : LexSt),
    totalLen (scan cls st cs) ≤ st.tok.length + cs.length := by
  intro cs
  induction cs with
  | nil => intro st; simpa [scan] using flush_total st
  | cons c cs ih =>
    intro st
    simp only [scan, totalLen_append, List.length_cons]
    have h1 := step_total cls st c
    have h2 := ih (step cls st c).2
    omega

/-- the tokens of `_timelex.split(s)` contain at most `len(s)` characters in total
    (so at most `len(s)` non-empty tokens): the lexer is linear in its input -/
theorem lex_total_length (cls : Char → CClass) (s : List Char) : totalLen (lex cls s) ≤ s.length := by
  have := scan_total cls s .init
  simpa [lex, LexSt.init] using this

end PM
