/-
  Proofs/RDAlgebra.lean — consequences of the carry lemmas: `Gen.fix` on already-bounded fields,
  the shape of `neg`, extensionality of `RD`, equality/hash lemmas.
-/
import DateutilVerif.Proofs.RDFix

namespace RDP
open RDM

theorem rd_ext (a b : RD)
    (h1 : a.years = b.years) (h2 : a.months = b.months) (h3 : a.days = b.days)
    (h4 : a.leapdays = b.leapdays) (h5 : a.hours = b.hours) (h6 : a.minutes = b.minutes)
    (h7 : a.seconds = b.seconds) (h8 : a.microseconds = b.microseconds)
    (h9 : a.year = b.year) (h10 : a.month = b.month) (h11 : a.day = b.day)
    (h12 : a.weekday = b.weekday) (h13 : a.hour = b.hour) (h14 : a.minute = b.minute)
    (h15 : a.second = b.second) (h16 : a.microsecond = b.microsecond)
    (h17 : a.hasTime = b.hasTime) : a = b := by
  cases a; cases b; simp_all

/-- the carried fields are within their units (no statement about `_has_time`) -/
def Bounded (d : RD) : Prop :=
  (-999999 ≤ d.microseconds ∧ d.microseconds ≤ 999999) ∧ (-59 ≤ d.seconds ∧ d.seconds ≤ 59) ∧
  (-59 ≤ d.minutes ∧ d.minutes ≤ 59) ∧ (-23 ≤ d.hours ∧ d.hours ≤ 23) ∧
  (-11 ≤ d.months ∧ d.months ≤ 11)

theorem bounded_of_normalised {d : RD} (h : Normalised d) : Bounded d :=
  ⟨h.1, h.2.1, h.2.2.1, h.2.2.2.1, h.2.2.2.2.1⟩

theorem carries_of_bounded (d : RD) (h : Bounded d) :
    cU d = (d.microseconds, 0) ∧ cS d = (d.seconds, 0) ∧ cM d = (d.minutes, 0) ∧
    cH d = (d.hours, 0) ∧ cMo d = (d.months, 0) := by
  obtain ⟨hu, hs, hm, hh, hmo⟩ := h
  have eU : cU d = (d.microseconds, 0) := carry_small _ _ _ hu
  have eS : cS d = (d.seconds, 0) := by
    unfold cS; rw [eU]; simp only [Int.add_zero]; exact carry_small _ _ _ hs
  have eM : cM d = (d.minutes, 0) := by
    unfold cM; rw [eS]; simp only [Int.add_zero]; exact carry_small _ _ _ hm
  have eH : cH d = (d.hours, 0) := by
    unfold cH; rw [eM]; simp only [Int.add_zero]; exact carry_small _ _ _ hh
  exact ⟨eU, eS, eM, eH, carry_small _ _ _ hmo⟩

/-- `_fix` on bounded fields only recomputes `_has_time` -/
theorem fix_of_bounded (d : RD) (h : Bounded d) : Gen.fix d = { d with hasTime := hasTimeOf d } := by
  obtain ⟨eU, eS, eM, eH, eMo⟩ := carries_of_bounded d h
  have hus := fix_us d; have hs := fix_s d; have hm := fix_m d; have hh := fix_h d
  rw [eU] at hus; rw [eS] at hs; rw [eM] at hm; rw [eH] at hh
  apply rd_ext
  · rw [fix_y, eMo]; simp
  · rw [fix_mo, eMo]
  · rw [fix_d, eH]; simp
  · exact fix_leapdays d
  · exact hh
  · exact hm
  · exact hs
  · exact hus
  · exact fix_year d
  · exact fix_month d
  · exact fix_day d
  · exact fix_weekday d
  · exact fix_hour d
  · exact fix_minute d
  · exact fix_second d
  · exact fix_microsecond d
  · rw [fix_hasTime]
    unfold hasTimeOf
    rw [hh, hm, hs, hus, fix_hour, fix_minute, fix_second, fix_microsecond]

theorem fix_of_normalised (d : RD) (h : Normalised d) : Gen.fix d = d := by
  rw [fix_of_bounded d (bounded_of_normalised h)]
  have := h.2.2.2.2.2
  apply rd_ext <;> try rfl
  exact this.symm

/-- `-d` on a normalised value negates the relative fields and nothing else -/
theorem neg_of_normalised (d : RD) (h : Normalised d) :
    neg d = { d with years := -d.years, months := -d.months, days := -d.days, hours := -d.hours,
                     minutes := -d.minutes, seconds := -d.seconds, microseconds := -d.microseconds } := by
  obtain ⟨hu, hs, hm, hh, hmo, ht⟩ := h
  unfold neg
  rw [fix_of_bounded]
  · apply rd_ext <;> try rfl
    show hasTimeOf _ = d.hasTime
    rw [ht]; unfold hasTimeOf; simp only [Int.neg_ne_zero]
  · unfold Bounded; simp only []; omega

theorem nTrivial_orInt (n : Option Int) (h : nTrivial n = true) : orInt n 1 = 1 := by
  unfold nTrivial at h; unfold orInt
  cases n with
  | none => rfl
  | some v => simp at h; rcases h with rfl | rfl <;> simp

end RDP
