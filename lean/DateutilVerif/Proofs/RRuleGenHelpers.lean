/-
  Proofs/RRuleGenHelpers.lean — the functions re-translated from rrule.py by harness/translate_rr.py
  (Generated/RRuleKernels.lean) against the hand model: `rrule.__construct_byset`, `rrule.__mod_distance`,
  `_iterinfo.htimeset / mtimeset / stimeset`.
-/
import DateutilVerif.Generated.RRuleKernels
import DateutilVerif.Proofs.RRuleLists

namespace RRuleGen
open RRule RrPy

/-! ### `set.add` in a loop = the model's `dedup` -/

theorem dedup_eq_foldl {α} [BEq α] [LawfulBEq α] (xs acc : List α) : dedup acc xs = xs.foldl setAdd acc.reverse := by
  induction xs generalizing acc with
  | nil => simp [dedup]
  | cons x xs ih =>
    by_cases h : x ∈ acc <;> simp [dedup, setAdd, h, ih]

theorem foldl_filter_setAdd (P : Int → Bool) (l acc : List Int) :
    l.foldl (fun c num => if P num = true then setAdd c num else c) acc = (l.filter P).foldl setAdd acc := by
  induction l generalizing acc with
  | nil => rfl
  | cons x xs ih =>
    by_cases h : P x = true
    · simp [List.filter, h, ih]
    · simp [List.filter, h, ih]

/-! ### `rrule.__construct_byset` -/

theorem constructByset_loop (r : Rule) (base start : Int) (hg : RrPy.gcd r.interval base ≠ 0) (l cset : List Int) :
    Gen.constructByset_loop1 r base start l cset =
      .ok (l.foldl (fun c num => if (RrPy.gcd r.interval base == 1 ||
              Py.fmod (num - start) (RrPy.gcd r.interval base) == 0) = true then setAdd c num else c) cset) := by
  induction l generalizing cset with
  | nil => rfl
  | cons x xs ih =>
    simp only [Gen.constructByset_loop1, List.foldl_cons]
    by_cases h1 : RrPy.gcd r.interval base = 1
    · simp [h1, ih, bind, Except.bind, pure, Except.pure]
    · simp [h1, hg, ih, bind, Except.bind, pure, Except.pure, RrPy.divmodR, Py.divmod]
      by_cases h2 : Py.fmod (x - start) (RrPy.gcd r.interval base) = 0 <;> simp [h2]

theorem byset_tail (L : List Int) :
    (if ((L.length : Int) = 0) then throw Py.PyErr.ValueError else pure L : Py.R (List Int)) =
      if L.isEmpty = true then Except.error Py.PyErr.ValueError else Except.ok L := by
  cases L with
  | nil => rfl
  | cons a b =>
    have : ((((a :: b).length : Nat) : Int) = 0) = False := by simp; omega
    simp only [this, List.isEmpty_cons]; rfl

/-- `rrule.__construct_byset` as written now = the model's `constructByset` (for every `base ≠ 0`; the code calls it
    with 24 and 60.  With `base = 0 = interval` Python divides by zero, which the model does not represent). -/
theorem gen_constructByset_eq_model (r : Rule) (start : Int) (byxxx : List Int) (base : Int) (hb : base ≠ 0) :
    Gen.constructByset r start byxxx base = RRule.constructByset r.interval start byxxx base := by
  have hg : RrPy.gcd r.interval base ≠ 0 := by
    unfold RrPy.gcd
    intro h
    have : Int.gcd r.interval base = 0 := by exact_mod_cast h
    rw [Int.gcd_eq_zero_iff] at this
    exact hb this.2
  unfold Gen.constructByset RRule.constructByset
  simp only [constructByset_loop r base start hg, bind, Except.bind, foldl_filter_setAdd, dedup_eq_foldl, List.reverse_nil]
  simp only [RrPy.gcd]
  exact byset_tail _

/-! ### `rrule.__mod_distance` -/

theorem modDistance_loop (r : Rule) (base : Int) (byxxx : List Int) (hb : base ≠ 0) (l : List Int) (value acc : Int) :
    Gen.modDistance_loop1 r base byxxx l value acc =
      .ok (match RRule.modDistance r.interval byxxx base l.length acc value with
           | some p => RrPy.Flow.ret (some p)
           | none => RrPy.Flow.next ()) := by
  induction l generalizing value acc with
  | nil => rfl
  | cons x xs ih =>
    simp only [Gen.modDistance_loop1, RrPy.divmodR, hb, if_false, bind, Except.bind, List.length_cons, RRule.modDistance]
    by_cases h : (Py.divmod (value + r.interval) base).2 ∈ byxxx
    · simp [h, pure, Except.pure]
    · simp [h, ih]

theorem length_intRange (a b : Int) : (intRange a b).length = (b - a).toNat := by simp [intRange]

/-- `rrule.__mod_distance` as written now = the model's `modDistance` with the loop bound `base` (for every `base ≠ 0`;
    the code calls it with 24 and 60).  `none` = the function falls off its loop and returns `None`. -/
theorem gen_modDistance_eq_model (r : Rule) (value : Int) (byxxx : List Int) (base : Int) (hb : base ≠ 0) :
    Gen.modDistance r value byxxx base = .ok (RRule.modDistance r.interval byxxx base base.toNat 0 value) := by
  unfold Gen.modDistance
  simp only [modDistance_loop r base byxxx hb, bind, Except.bind, length_intRange]
  have : (base + 1 - 1).toNat = base.toNat := by congr 1; omega
  rw [this]
  cases RRule.modDistance r.interval byxxx base base.toNat 0 value <;> rfl

/-! ### the time sets -/

theorem checkTimes_append (a b : List HMS) :
    checkTimes (a ++ b) = (match checkTimes a with
      | .error e => .error e
      | .ok la => match checkTimes b with
        | .error e => .error e
        | .ok lb => .ok (la ++ lb)) := by
  induction a with
  | nil => simp [checkTimes]; cases checkTimes b <;> rfl
  | cons t ts ih =>
    simp only [List.cons_append, checkTimes, ih]
    cases mkTime t.1 t.2.1 t.2.2 with
    | error e => rfl
    | ok t' =>
      cases checkTimes ts with
      | error e => rfl
      | ok la => cases checkTimes b <;> rfl

theorem seconds_loop (f : Int → Py.R HMS) (loop : List Int → List HMS → Py.R (List HMS))
    (hnil : ∀ acc, loop [] acc = .ok acc)
    (hcons : ∀ x xs acc, loop (x :: xs) acc = (f x).bind fun t => loop xs (acc ++ [t]))
    (g : Int → HMS) (hf : ∀ x, f x = mkTime (g x).1 (g x).2.1 (g x).2.2) (ss : List Int) (acc : List HMS) :
    loop ss acc = (match checkTimes (ss.map g) with
      | .ok l => .ok (acc ++ l)
      | .error e => .error e) := by
  induction ss generalizing acc with
  | nil => simp [hnil, checkTimes]
  | cons x xs ih =>
    simp only [hcons, hf, List.map_cons, checkTimes]
    cases mkTime (g x).1 (g x).2.1 (g x).2.2 with
    | error e => rfl
    | ok t =>
      simp only [Except.bind, ih]
      cases checkTimes (xs.map g) with
      | error e => rfl
      | ok l => simp

theorem htimeset_loop2 (r : Rule) (h m : Int) (ss : List Int) (acc : List HMS) :
    Gen.htimeset_loop2 r h m ss acc = (match checkTimes (ss.map fun s => (h, m, s)) with
      | .ok l => .ok (acc ++ l)
      | .error e => .error e) :=
  seconds_loop (fun s => mkTime h m s) (Gen.htimeset_loop2 r h m) (fun _ => rfl) (fun _ _ _ => rfl)
    (fun s => (h, m, s)) (fun _ => rfl) ss acc

theorem mtimeset_loop1 (r : Rule) (h m : Int) (ss : List Int) (acc : List HMS) :
    Gen.mtimeset_loop1 r h m ss acc = (match checkTimes (ss.map fun s => (h, m, s)) with
      | .ok l => .ok (acc ++ l)
      | .error e => .error e) :=
  seconds_loop (fun s => mkTime h m s) (Gen.mtimeset_loop1 r h m) (fun _ => rfl) (fun _ _ _ => rfl)
    (fun s => (h, m, s)) (fun _ => rfl) ss acc

theorem htimeset_loop1 (r : Rule) (h : Int) (ss : List Int) (hs : r.bysecond = some ss) (ms : List Int) (acc : List HMS) :
    Gen.htimeset_loop1 r h ms acc = (match checkTimes (ms.flatMap fun m => ss.map fun s => (h, m, s)) with
      | .ok l => .ok (acc ++ l)
      | .error e => .error e) := by
  induction ms generalizing acc with
  | nil => simp [Gen.htimeset_loop1, checkTimes, pure, Except.pure]
  | cons m ms ih =>
    simp only [Gen.htimeset_loop1, hs, RrPy.iterO, bind, Except.bind, htimeset_loop2, List.flatMap_cons, checkTimes_append]
    cases checkTimes (ss.map fun s => (h, m, s)) with
    | error e => rfl
    | ok l1 =>
      simp only [ih]
      cases checkTimes (ms.flatMap fun m => ss.map fun s => (h, m, s)) with
      | error e => rfl
      | ok l2 => simp

/-- `_iterinfo.htimeset` as written now = the model's `htimeset` (HOURLY rules always carry BYMINUTE and BYSECOND
    tuples: `construct` fills them from dtstart; on `None` Python raises TypeError where the model reads `()`). -/
theorem gen_htimeset_eq_model (r : Rule) (self : RrPy.II) (hour minute second : Int)
    (hm : r.byminute.isSome) (hs : r.bysecond.isSome) :
    Gen.htimeset r self hour minute second = RRule.htimeset r hour := by
  obtain ⟨ms, hm⟩ := Option.isSome_iff_exists.mp hm
  obtain ⟨ss, hs⟩ := Option.isSome_iff_exists.mp hs
  unfold Gen.htimeset RRule.htimeset buildTimeset productHMS
  simp only [hm, RrPy.iterO, bind, Except.bind, htimeset_loop1 r hour ss hs, hs, Option.getD_some,
    List.flatMap_cons, List.flatMap_nil, List.append_nil, List.nil_append]
  cases checkTimes (ms.flatMap fun m => ss.map fun s => (hour, m, s)) <;> rfl

/-- `_iterinfo.mtimeset` as written now = the model's `mtimeset` (MINUTELY rules always carry a BYSECOND tuple). -/
theorem gen_mtimeset_eq_model (r : Rule) (self : RrPy.II) (hour minute second : Int) (hs : r.bysecond.isSome) :
    Gen.mtimeset r self hour minute second = RRule.mtimeset r hour minute := by
  obtain ⟨ss, hs⟩ := Option.isSome_iff_exists.mp hs
  unfold Gen.mtimeset RRule.mtimeset buildTimeset productHMS
  simp only [hs, RrPy.iterO, bind, Except.bind, mtimeset_loop1, Option.getD_some,
    List.flatMap_cons, List.flatMap_nil, List.append_nil, List.nil_append]
  cases checkTimes (ss.map fun s => (hour, minute, s)) <;> rfl

/-- `_iterinfo.stimeset` as written now = the model's `stimeset`. -/
theorem gen_stimeset_eq_model (r : Rule) (self : RrPy.II) (hour minute second : Int) :
    Gen.stimeset r self hour minute second = RRule.stimeset hour minute second := rfl

end RRuleGen
