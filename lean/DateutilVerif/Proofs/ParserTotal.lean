/-
  Proofs/ParserTotal.lean — exception flow of the parser model (for C14).
  `GoodR P r`: `r` either returns a value satisfying `P` or raises one of the three kinds the
  `_parse` boundary catches.
-/
import DateutilVerif.Model.Parser

namespace PM
open Py

/-- returns something satisfying `P`, or raises IndexError / ValueError / InvalidOperation -/
def GoodR {α} (P : α → Prop) (r : R α) : Prop :=
  match r with
  | .ok a => P a
  | .error e => caughtInParse e = true

theorem goodR_ok {α} {P : α → Prop} {a : α} (h : P a) : GoodR P (.ok a) := h
theorem goodR_pure {α} {P : α → Prop} {a : α} (h : P a) : GoodR P (pure a : R α) := h
theorem goodR_VE {α} {P : α → Prop} : GoodR P (.error .ValueError : R α) := rfl
theorem goodR_IE {α} {P : α → Prop} : GoodR P (.error .IndexError : R α) := rfl
theorem goodR_IO {α} {P : α → Prop} : GoodR P (.error .InvalidOperation : R α) := rfl
theorem goodR_throwVE {α} {P : α → Prop} : GoodR P (throw PyErr.ValueError : R α) := rfl

theorem goodR_bind {α β} {P : β → Prop} {Q : α → Prop} {x : R α} {f : α → R β}
    (hx : GoodR Q x) (hf : ∀ a, Q a → GoodR P (f a)) : GoodR P (x >>= f) := by
  cases x with
  | ok a => exact hf a hx
  | error e => exact hx

theorem goodR_mono {α} {P Q : α → Prop} {r : R α} (h : GoodR P r) (hpq : ∀ a, P a → Q a) : GoodR Q r := by
  cases r with
  | ok a => exact hpq a h
  | error e => exact h

theorem goodR_true {α} {P : α → Prop} {r : R α} (h : GoodR P r) : GoodR (fun _ => True) r :=
  goodR_mono h (fun _ _ => trivial)

theorem pyInt_good (cls : Char → CClass) (t : Token) : GoodR (fun _ => True) (pyInt cls t) := by
  unfold pyInt
  split
  · exact goodR_VE
  · split
    · exact goodR_VE
    · split
      · exact goodR_ok trivial
      · exact goodR_VE

theorem toDecimal_good (cls : Char → CClass) (t : Token) : GoodR (fun _ => True) (toDecimal cls t) := by
  unfold toDecimal; split
  · exact goodR_ok trivial
  · exact goodR_VE

theorem tokAt_good (l : List Token) (i : Nat) : GoodR (fun _ => i < l.length) (tokAt l i) := by
  unfold tokAt
  split
  · rename_i t h
    have := List.getElem?_eq_some_iff.mp h
    exact goodR_ok this.1
  · exact goodR_IE

theorem parsems_good (cls : Char → CClass) (v : Token) : GoodR (fun _ => True) (parsems cls v) := by
  unfold parsems
  split
  · exact goodR_bind (pyInt_good cls v) (fun _ _ => goodR_pure trivial)
  · split
    · split
      · exact goodR_VE
      · exact goodR_bind (pyInt_good cls _) (fun _ _ => goodR_bind (pyInt_good cls _) (fun _ _ => goodR_pure trivial))
    · exact goodR_VE

end PM

namespace PM
open Py

/-! ### `_ymd` invariants -/

/-- label indices point into `vals` and are pairwise distinct -/
structure Ymd.WF (y : Ymd) : Prop where
  d_lt : ∀ i, y.dIdx = some i → i < y.vals.length
  m_lt : ∀ i, y.mIdx = some i → i < y.vals.length
  y_lt : ∀ i, y.yIdx = some i → i < y.vals.length
  dm : ∀ i, y.dIdx = some i → y.mIdx ≠ some i
  dy : ∀ i, y.dIdx = some i → y.yIdx ≠ some i
  my : ∀ i, y.mIdx = some i → y.yIdx ≠ some i

theorem Ymd.WF_empty : ({} : Ymd).WF := by
  constructor <;> intro i h <;> simp at h

theorem appendCore_good (self : Ymd) (h : self.WF) (big : Bool) (v : R Nat)
    (hv : GoodR (fun _ => True) v) (label : Label) : GoodR Ymd.WF (self.appendCore big v label) := by
  unfold Ymd.appendCore
  split
  · exact goodR_VE
  · cases v with
    | error e => exact hv
    | ok n =>
      obtain ⟨h1, h2, h3, h4, h5, h6⟩ := h
      have hlen : (self.vals ++ [n]).length = self.vals.length + 1 := by simp
      dsimp only
      split
      · split
        · exact goodR_VE
        · rename_i hm
          have hm' : self.mIdx = none := by cases hmm : self.mIdx <;> simp_all
          refine goodR_ok ⟨?_, ?_, ?_, ?_, ?_, ?_⟩ <;> intro i hi <;> dsimp only at hi ⊢ <;> grind
      · split
        · exact goodR_VE
        · rename_i hm
          have hm' : self.dIdx = none := by cases hmm : self.dIdx <;> simp_all
          refine goodR_ok ⟨?_, ?_, ?_, ?_, ?_, ?_⟩ <;> intro i hi <;> dsimp only at hi ⊢ <;> grind
      · split
        · exact goodR_VE
        · rename_i hm
          have hm' : self.yIdx = none := by cases hmm : self.yIdx <;> simp_all
          refine goodR_ok ⟨?_, ?_, ?_, ?_, ?_, ?_⟩ <;> intro i hi <;> dsimp only at hi ⊢ <;> grind
      · refine goodR_ok ⟨?_, ?_, ?_, ?_, ?_, ?_⟩ <;> intro i hi <;> dsimp only at hi ⊢ <;> grind

theorem appendTok_good (cls : Char → CClass) (self : Ymd) (h : self.WF) (t : Token) (label : Label) :
    GoodR Ymd.WF (self.appendTok cls t label) :=
  appendCore_good self h _ _ (pyInt_good cls t) label

theorem appendDec_good (self : Ymd) (h : self.WF) (d : Dec) (label : Label) :
    GoodR Ymd.WF (self.appendDec d label) :=
  appendCore_good self h _ _ (goodR_ok trivial) label

theorem appendNat_good (self : Ymd) (h : self.WF) (n : Nat) (label : Label) :
    GoodR Ymd.WF (self.appendNat n label) :=
  appendCore_good self h _ _ (goodR_ok trivial) label

theorem getIdx_good {α} (l : List α) (i : Int) : GoodR (fun _ => True) (getIdx l i) := by
  unfold getIdx
  dsimp only
  repeat' split
  all_goals first | exact goodR_IE | exact goodR_ok trivial

theorem at_good (self : Ymd) (i : Int) : GoodR (fun _ => True) (self.at i) := getIdx_good _ _

theorem monthrange_good (y m : Int) : GoodR (fun _ => True) (monthrange y m) := by
  unfold monthrange; split
  · exact goodR_ok trivial
  · exact goodR_VE

theorem couldBeDay_good (self : Ymd) (v : Dec) : GoodR (fun _ => True) (self.couldBeDay v) := by
  unfold Ymd.couldBeDay
  split
  · exact goodR_ok trivial
  · split
    · exact goodR_ok trivial
    · split
      · refine goodR_bind (at_good _ _) (fun _ _ => ?_)
        split
        · exact goodR_bind (monthrange_good _ _) (fun _ _ => goodR_pure trivial)
        · exact goodR_pure trivial
      · refine goodR_bind (at_good _ _) (fun _ _ => goodR_bind (at_good _ _) (fun _ _ => ?_))
        split
        · exact goodR_bind (monthrange_good _ _) (fun _ _ => goodR_pure trivial)
        · exact goodR_pure trivial

theorem rem1_good (d : Dec) : GoodR (fun _ => True) d.rem1 := by
  unfold Dec.rem1; split
  · exact goodR_IO
  · exact goodR_ok trivial

theorem parseMinSec_good (v : Dec) : GoodR (fun _ => True) (parseMinSec v) := by
  unfold parseMinSec
  refine goodR_bind (rem1_good v) (fun _ _ => ?_)
  split <;> exact goodR_pure trivial

theorem completeStrids_good (self : Ymd) (h : self.WF)
    (hpre : (self.vals.length = self.nlab ∧ self.nlab > 0) ∨ (self.vals.length = 3 ∧ self.nlab = 2)) :
    GoodR (fun _ => True) (completeStrids self.vals.length self.strids) := by
  obtain ⟨h1, h2, h3, h4, h5, h6⟩ := h
  unfold Ymd.nlab at hpre
  unfold Ymd.strids
  rcases hy : self.yIdx with _ | yi <;> rcases hm : self.mIdx with _ | mi <;> rcases hd : self.dIdx with _ | di <;>
    simp only [hy, hm, hd, Option.isSome_none, Option.isSome_some, Bool.false_eq_true, if_true, if_false, ] at hpre ⊢
  · omega
  · have : self.vals.length = 1 := by omega
    simp [completeStrids, this, GoodR, bind, Except.bind, pure, Except.pure]
  · have : self.vals.length = 1 := by omega
    simp [completeStrids, this, GoodR, bind, Except.bind, pure, Except.pure]
  · have hl : self.vals.length = 2 ∨ self.vals.length = 3 := by omega
    have a := h2 mi hm; have b := h1 di hd; have c := h4 di hd
    rcases hl with hl | hl
    · simp [completeStrids, hl, GoodR, bind, Except.bind, pure, Except.pure]
    · rw [hl] at a b
      have : mi = 0 ∨ mi = 1 ∨ mi = 2 := by omega
      have : di = 0 ∨ di = 1 ∨ di = 2 := by omega
      rcases ‹mi = 0 ∨ _› with rfl | rfl | rfl <;> rcases ‹di = 0 ∨ _› with rfl | rfl | rfl <;>
        first | (exfalso; simp_all; done) | simp [completeStrids, hl, GoodR, bind, Except.bind, pure, Except.pure]
  · have : self.vals.length = 1 := by omega
    simp [completeStrids, this, GoodR, bind, Except.bind, pure, Except.pure]
  · have hl : self.vals.length = 2 ∨ self.vals.length = 3 := by omega
    have a := h3 yi hy; have b := h1 di hd; have c := h5 di hd
    rcases hl with hl | hl
    · simp [completeStrids, hl, GoodR, bind, Except.bind, pure, Except.pure]
    · rw [hl] at a b
      have : yi = 0 ∨ yi = 1 ∨ yi = 2 := by omega
      have : di = 0 ∨ di = 1 ∨ di = 2 := by omega
      rcases ‹yi = 0 ∨ _› with rfl | rfl | rfl <;> rcases ‹di = 0 ∨ _› with rfl | rfl | rfl <;>
        first | (exfalso; simp_all; done) | simp [completeStrids, hl, GoodR, bind, Except.bind, pure, Except.pure]
  · have hl : self.vals.length = 2 ∨ self.vals.length = 3 := by omega
    have a := h3 yi hy; have b := h2 mi hm; have c := h6 mi hm
    rcases hl with hl | hl
    · simp [completeStrids, hl, GoodR, bind, Except.bind, pure, Except.pure]
    · rw [hl] at a b
      have : yi = 0 ∨ yi = 1 ∨ yi = 2 := by omega
      have : mi = 0 ∨ mi = 1 ∨ mi = 2 := by omega
      rcases ‹yi = 0 ∨ _› with rfl | rfl | rfl <;> rcases ‹mi = 0 ∨ _› with rfl | rfl | rfl <;>
        first | (exfalso; simp_all; done) | simp [completeStrids, hl, GoodR, bind, Except.bind, pure, Except.pure]
  · have : self.vals.length = 3 := by omega
    simp [completeStrids, this, GoodR, bind, Except.bind, pure, Except.pure]

theorem resolveFromStridxs_good (self : Ymd) (h : self.WF)
    (hpre : (self.vals.length = self.nlab ∧ self.nlab > 0) ∨ (self.vals.length = 3 ∧ self.nlab = 2)) :
    GoodR (fun _ => True) self.resolveFromStridxs := by
  unfold Ymd.resolveFromStridxs
  refine goodR_bind (completeStrids_good self h hpre) (fun strids _ => ?_)
  have hget : ∀ k, GoodR (fun _ => True)
      (match strids.find? (·.1 = k) with
        | some (_, i) => (self.at i).map some
        | none => (pure none : R (Option Nat))) := by
    intro k
    split
    · have := at_good self ‹Nat›
      revert this
      cases self.at _ <;> intro h <;> exact h
    · exact goodR_pure trivial
  exact goodR_bind (hget _) (fun _ _ => goodR_bind (hget _) (fun _ _ => goodR_bind (hget _) (fun _ _ => goodR_pure trivial)))

theorem resolveRest_good (self : Ymd) (len : Nat) (yf df : Bool) : GoodR (fun _ => True) (self.resolveRest len yf df) := by
  unfold Ymd.resolveRest
  repeat' first
    | exact goodR_pure trivial
    | exact goodR_throwVE
    | refine goodR_bind (at_good _ _) (fun _ _ => ?_)
    | split

theorem resolve_good (self : Ymd) (h : self.WF) (yf df : Bool) : GoodR (fun _ => True) (self.resolve yf df) := by
  unfold Ymd.resolve
  split
  · exact resolveFromStridxs_good self h (by assumption)
  · exact resolveRest_good _ _ _ _

theorem assignHms_good (cls : Char → CClass) (res : Res) (v : Token) (hms : Nat) :
    GoodR (fun r => r.weekday = res.weekday ∧ r.ampm = res.ampm) (assignHms cls res v hms) := by
  unfold assignHms
  refine goodR_bind (toDecimal_good cls v) (fun value _ => ?_)
  repeat' first
    | exact goodR_pure ⟨rfl, rfl⟩
    | refine goodR_bind (rem1_good _) (fun _ _ => ?_)
    | refine goodR_bind (parseMinSec_good _) (fun _ _ => ?_)
    | refine goodR_bind (parsems_good _ _) (fun _ _ => ?_)
    | split

/-- what `_parse_numeric_token` guarantees about its outputs -/
def NumPost (res : Res) (r : Nat × Ymd × Res) : Prop :=
  r.2.1.WF ∧ r.2.2.weekday = res.weekday ∧ r.2.2.ampm = res.ampm

theorem dayOrFail_good (fuzzy : Bool) (ymd : Ymd) (h : ymd.WF) (res : Res) (v : Dec) :
    GoodR (NumPost res) (dayOrFail fuzzy ymd res v) := by
  unfold dayOrFail
  refine goodR_bind (couldBeDay_good _ _) (fun _ _ => ?_)
  split
  · refine goodR_bind (appendDec_good _ h _ _) (fun _ h' => goodR_pure ⟨h', rfl, rfl⟩)
  · split
    · exact goodR_throwVE
    · exact goodR_pure ⟨h, rfl, rfl⟩

macro "numgood" : tactic => `(tactic| repeat' first
    | exact goodR_pure ⟨by assumption, by first | rfl | (simp only [*]) | (simp; simp [*]), by first | rfl | (simp only [*]) | (simp; simp [*])⟩
    | exact goodR_throwVE
    | exact dayOrFail_good _ _ (by assumption) _ _
    | refine goodR_bind (pyInt_good _ _) (fun _ _ => ?_)
    | refine goodR_bind (toDecimal_good _ _) (fun _ _ => ?_)
    | refine goodR_bind (tokAt_good _ _) (fun _ _ => ?_)
    | refine goodR_bind (parsems_good _ _) (fun _ _ => ?_)
    | refine goodR_bind (parseMinSec_good _) (fun _ _ => ?_)
    | refine goodR_bind (assignHms_good _ _ _ _) (fun _ _ => ?_)
    | refine goodR_bind (appendTok_good _ _ (by assumption) _ _) (fun _ _ => ?_)
    | refine goodR_bind (appendDec_good _ (by assumption) _ _) (fun _ _ => ?_)
    | refine goodR_bind (appendNat_good _ (by assumption) _ _) (fun _ _ => ?_)
    | split)

theorem numHourMin_good (cls : Char → CClass) (s : Token) (ymd : Ymd) (h : ymd.WF) (res : Res) :
    GoodR (NumPost res) (numHourMin cls s ymd res) := by unfold numHourMin; numgood
theorem numSix_good (cls : Char → CClass) (s : Token) (ymd : Ymd) (h : ymd.WF) (res : Res) :
    GoodR (NumPost res) (numSix cls s ymd res) := by unfold numSix; numgood
theorem numEight_good (cls : Char → CClass) (s : Token) (ymd : Ymd) (h : ymd.WF) (res : Res) :
    GoodR (NumPost res) (numEight cls s ymd res) := by unfold numEight; numgood
theorem numHms_good (cls : Char → CClass) (v : Token) (idx hmsIdx h0 : Nat) (ymd : Ymd) (h : ymd.WF) (res : Res) :
    GoodR (NumPost res) (numHms cls v idx hmsIdx h0 ymd res) := by unfold numHms; numgood
theorem numColon_good (cls : Char → CClass) (tokens : List Token) (idx : Nat) (value : Dec) (ymd : Ymd) (h : ymd.WF)
    (res : Res) : GoodR (NumPost res) (numColon cls tokens idx value ymd res) := by unfold numColon; numgood
theorem sepSecond_good (cls : Char → CClass) (info : Info) (ymd : Ymd) (h : ymd.WF) (t : Token) :
    GoodR Ymd.WF (sepSecond cls info ymd t) := by
  unfold sepSecond
  split
  · exact appendTok_good _ _ h _ _
  · split
    · exact appendNat_good _ h _ _
    · exact goodR_VE
theorem sepThird_good (cls : Char → CClass) (info : Info) (ymd : Ymd) (h : ymd.WF) (t : Token) :
    GoodR Ymd.WF (sepThird cls info ymd t) := by
  unfold sepThird
  split
  · exact appendNat_good _ h _ _
  · exact appendTok_good _ _ h _ _
theorem numSep_good (cls : Char → CClass) (info : Info) (tokens : List Token) (idx : Nat) (v : Token) (ymd : Ymd)
    (h : ymd.WF) (res : Res) : GoodR (NumPost res) (numSep cls info tokens idx v ymd res) := by
  unfold numSep
  repeat' first
    | exact goodR_pure ⟨by assumption, rfl, rfl⟩
    | refine goodR_bind (tokAt_good _ _) (fun _ _ => ?_)
    | refine goodR_bind (appendTok_good _ _ (by assumption) _ _) (fun _ _ => ?_)
    | refine goodR_bind (sepSecond_good _ _ _ (by assumption) _) (fun _ _ => ?_)
    | refine goodR_bind (sepThird_good _ _ _ (by assumption) _) (fun _ _ => ?_)
    | split
theorem numJump_good (info : Info) (tokens : List Token) (idx : Nat) (value : Dec) (ymd : Ymd) (h : ymd.WF) (res : Res) :
    GoodR (NumPost res) (numJump info tokens idx value ymd res) := by unfold numJump; numgood
theorem numAmpmOrDay_good (info : Info) (fuzzy : Bool) (tokens : List Token) (idx : Nat) (value : Dec) (ymd : Ymd)
    (h : ymd.WF) (res : Res) : GoodR (NumPost res) (numAmpmOrDay info fuzzy tokens idx value ymd res) := by
  unfold numAmpmOrDay; numgood

theorem parseNumericToken_good (cls : Char → CClass) (info : Info) (fuzzy : Bool) (tokens : List Token)
    (idx : Nat) (ymd : Ymd) (h : ymd.WF) (res : Res) :
    GoodR (NumPost res) (parseNumericToken cls info fuzzy tokens idx ymd res) := by
  unfold parseNumericToken
  refine goodR_bind (tokAt_good _ _) (fun s _ => ?_)
  refine goodR_bind (toDecimal_good _ _) (fun value _ => ?_)
  split
  · exact numHourMin_good _ _ _ h _
  · split
    · exact numSix_good _ _ _ h _
    · split
      · exact numEight_good _ _ _ h _
      · split
        · exact numHms_good _ _ _ _ _ _ h _
        · split
          · exact numColon_good _ _ _ _ _ h _
          · split
            · exact numSep_good _ _ _ _ _ _ h _
            · split
              · exact numJump_good _ _ _ _ _ h _
              · exact numAmpmOrDay_good _ _ _ _ _ _ h _

/-! ### the main loop -/

/-- weekday words map to `0..6` (what `relativedelta(weekday=…)` can index) -/
def Info.WF (info : Info) : Prop := ∀ p ∈ info.weekdays, p.2 < 7

instance (info : Info) : Decidable info.WF := by unfold Info.WF; exact inferInstance

theorem lookupLast_mem {β} (tbl : List (Token × β)) (k : Token) (v : β) (h : lookupLast tbl k = some v) :
    ∃ p ∈ tbl, p.2 = v := by
  unfold lookupLast at h
  have gen : ∀ (l : List (Token × β)) (acc : Option β),
      l.foldl (fun acc (kv : Token × β) => if kv.1 = k then some kv.2 else acc) acc = some v →
      (∃ p ∈ l, p.2 = v) ∨ acc = some v := by
    intro l
    induction l with
    | nil => intro acc h; exact Or.inr h
    | cons a t ih =>
      intro acc h
      simp only [List.foldl_cons] at h
      rcases ih _ h with ⟨p, hp, hv⟩ | hacc
      · exact Or.inl ⟨p, List.mem_cons_of_mem _ hp, hv⟩
      · split at hacc
        · injection hacc with hacc
          exact Or.inl ⟨a, List.mem_cons_self, hacc⟩
        · exact Or.inr hacc
  rcases gen tbl none h with h | h
  · exact h
  · cases h

theorem weekdayOf_lt (info : Info) (h : info.WF) (t : Token) (w : Nat) (hw : info.weekdayOf t = some w) : w < 7 := by
  obtain ⟨p, hp, rfl⟩ := lookupLast_mem _ _ _ hw
  exact h p hp

theorem convertyear_nat (pi : Gen.PInfoYear) (n : Nat) (cs : Bool) : ∃ y, Gen.convertyear pi (n : Int) cs = .ok y := by
  unfold Gen.convertyear
  have : ¬ ¬ ((n : Int) ≥ 0) := by omega
  simp only [this, if_false]
  exact ⟨_, rfl⟩

theorem convertyear_good (pi : Gen.PInfoYear) (n : Nat) (cs : Bool) :
    GoodR (fun _ => True) (Gen.convertyear pi (n : Int) cs) := by
  obtain ⟨y, h⟩ := convertyear_nat pi n cs
  rw [h]; exact goodR_ok trivial

structure StWF (lenL : Nat) (st : PState) : Prop where
  ymd : st.ymd.WF
  len : st.l.length = lenL
  skipped : ∀ i ∈ st.skipped, i < lenL
  wd : ∀ w, st.res.weekday = some w → w < 7

theorem stepMonth_good (cls : Char → CClass) (info : Info) (lenL i : Nat) (st : PState) (h : StWF lenL st) (mv : Nat) :
    GoodR (fun r => StWF lenL r.2) (stepMonth cls info lenL i st mv) := by
  obtain ⟨h1, h2, h3, h4⟩ := h
  unfold stepMonth
  repeat' first
    | exact goodR_pure ⟨by assumption, h2, h3, h4⟩
    | refine goodR_bind (tokAt_good _ _) (fun _ _ => ?_)
    | refine goodR_bind (pyInt_good _ _) (fun _ _ => ?_)
    | refine goodR_bind (convertyear_good _ _ _) (fun _ _ => ?_)
    | refine goodR_bind (appendTok_good _ _ (by assumption) _ _) (fun _ _ => ?_)
    | refine goodR_bind (appendNat_good _ (by assumption) _ _) (fun _ _ => ?_)
    | refine goodR_bind (appendCore_good _ (by assumption) _ _ (goodR_ok trivial) _) (fun _ _ => ?_)
    | split

theorem ampmValid_good (hour ampm : Option Nat) (fuzzy : Bool) : GoodR (fun _ => True) (ampmValid hour ampm fuzzy) := by
  unfold ampmValid
  repeat' first
    | exact goodR_ok trivial
    | exact goodR_VE
    | split

theorem stepAmpm_good (fuzzy : Bool) (lenL i : Nat) (hi : i < lenL) (st : PState) (h : StWF lenL st) (ap : Nat) :
    GoodR (fun r => StWF lenL r.2) (stepAmpm fuzzy i st ap) := by
  obtain ⟨h1, h2, h3, h4⟩ := h
  unfold stepAmpm
  refine goodR_bind (ampmValid_good _ _ _) (fun _ _ => ?_)
  split
  · exact goodR_pure ⟨h1, h2, h3, h4⟩
  · split
    · refine goodR_pure ⟨h1, h2, ?_, h4⟩
      intro j hj
      simp only [List.mem_append, List.mem_singleton] at hj
      rcases hj with hj | rfl
      · exact h3 j hj
      · exact hi
    · exact goodR_pure ⟨h1, h2, h3, h4⟩

theorem stepTzname_good (info : Info) (lenL i : Nat) (st : PState) (h : StWF lenL st) (li : Token) :
    StWF lenL (stepTzname info lenL i st li).2 := by
  obtain ⟨h1, h2, h3, h4⟩ := h
  unfold stepTzname
  dsimp only
  split
  · split
    · exact ⟨h1, by simp [h2], h3, h4⟩
    · exact ⟨h1, h2, h3, h4⟩
  · exact ⟨h1, h2, h3, h4⟩

theorem tzOffsetDigits_good (cls : Char → CClass) (l : List Token) (lenL i : Nat) :
    GoodR (fun _ => True) (tzOffsetDigits cls l lenL i) := by
  unfold tzOffsetDigits
  repeat' first
    | exact goodR_pure trivial
    | exact goodR_throwVE
    | refine goodR_bind (tokAt_good _ _) (fun _ _ => ?_)
    | refine goodR_bind (pyInt_good _ _) (fun _ _ => ?_)
    | split

theorem stepTzoffset_good (cls : Char → CClass) (info : Info) (lenL i : Nat) (st : PState) (h : StWF lenL st)
    (li : Token) : GoodR (fun r => StWF lenL r.2) (stepTzoffset cls info lenL i st li) := by
  obtain ⟨h1, h2, h3, h4⟩ := h
  unfold stepTzoffset
  refine goodR_bind (tzOffsetDigits_good _ _ _ _) (fun _ _ => ?_)
  dsimp only
  split <;> exact goodR_pure ⟨h1, h2, h3, h4⟩

theorem parseStep_good (cls : Char → CClass) (info : Info) (hinfo : info.WF) (fuzzy : Bool) (lenL i : Nat)
    (hi : i < lenL) (st : PState) (h : StWF lenL st) :
    GoodR (fun r => StWF lenL r.2) (parseStep cls info fuzzy lenL i st) := by
  unfold parseStep
  refine goodR_bind (tokAt_good _ _) (fun li _ => ?_)
  split
  · refine goodR_bind (parseNumericToken_good _ _ _ _ _ _ h.ymd _) (fun r hr => ?_)
    refine goodR_pure ⟨hr.1, h.len, h.skipped, ?_⟩
    intro w hw
    exact h.wd w (by rw [← hr.2.1]; exact hw)
  · split
    · rename_i wd hwd
      refine goodR_pure ⟨h.ymd, h.len, h.skipped, ?_⟩
      intro w hw
      simp only [Option.some.injEq] at hw
      subst hw
      exact weekdayOf_lt info hinfo _ _ hwd
    · split
      · exact stepMonth_good _ _ _ _ _ h _
      · split
        · exact stepAmpm_good _ _ _ hi _ h _
        · split
          · exact goodR_pure (stepTzname_good _ _ _ _ h _)
          · split
            · exact stepTzoffset_good _ _ _ _ _ h _
            · split
              · exact goodR_throwVE
              · refine goodR_pure ⟨h.ymd, h.len, ?_, h.wd⟩
                intro j hj
                simp only [List.mem_append, List.mem_singleton] at hj
                rcases hj with hj | rfl
                · exact h.skipped j hj
                · exact hi

theorem parseLoop_good (cls : Char → CClass) (info : Info) (hinfo : info.WF) (fuzzy : Bool) (lenL : Nat) :
    ∀ (fuel i skip : Nat) (st : PState), i + fuel = lenL → StWF lenL st →
      GoodR (StWF lenL) (parseLoop cls info fuzzy lenL fuel i skip st) := by
  intro fuel
  induction fuel with
  | zero => intro i skip st _ h; exact goodR_ok h
  | succ n ih =>
    intro i skip st hi h
    cases skip with
    | succ k =>
      unfold parseLoop
      exact ih (i + 1) k st (by omega) h
    | zero =>
      unfold parseLoop
      have := parseStep_good cls info hinfo fuzzy lenL i (by omega) st h
      revert this
      cases parseStep cls info fuzzy lenL i st with
      | error e => intro hg; exact hg
      | ok r => intro hg; exact ih (i + 1) r.1 r.2 (by omega) hg

/-! ### after the loop -/

theorem parseTry_good (cls : Char → CClass) (info : Info) (hinfo : info.WF) (o : Opts) (l : List Token) :
    GoodR (StWF l.length) (parseTry cls info o l) := by
  unfold parseTry
  have h0 : StWF l.length ({ l := l } : PState) :=
    ⟨Ymd.WF_empty, rfl, (by intro i hi; simp at hi), (by intro w hw; simp at hw)⟩
  refine goodR_bind (parseLoop_good cls info hinfo _ l.length l.length 0 0 _ (by omega) h0) (fun st hst => ?_)
  refine goodR_bind (resolve_good _ hst.ymd _ _) (fun r _ => ?_)
  exact goodR_pure ⟨hst.ymd, hst.len, hst.skipped, hst.wd⟩

theorem tokAt_ok (l : List Token) (i : Nat) (h : i < l.length) : tokAt l i = .ok l[i] := by
  unfold tokAt
  simp [List.getElem?_eq_getElem h]

theorem recombine_go_ok (tokens : List Token) (skipped : List Nat) :
    ∀ (rest : List Nat) (i : Nat) (acc : List Token), (∀ x ∈ rest, x < tokens.length) → (i > 0 → acc ≠ []) →
      ∃ r, recombineSkipped.go tokens skipped rest i acc = .ok r := by
  intro rest
  induction rest with
  | nil => intro i acc _ _; exact ⟨acc, rfl⟩
  | cons idx rest ih =>
    intro i acc hr hacc
    unfold recombineSkipped.go
    rw [tokAt_ok tokens idx (hr idx List.mem_cons_self)]
    simp only [bind, Except.bind]
    split
    · rename_i hc
      have hne : acc.reverse ≠ [] := by
        intro h; exact hacc hc.1 (by simpa using h)
      split
      · exact ih _ _ (fun x hx => hr x (List.mem_cons_of_mem _ hx)) (fun _ => by simp)
      · rename_i hnil; exact absurd hnil hne
    · exact ih _ _ (fun x hx => hr x (List.mem_cons_of_mem _ hx)) (fun _ => by simp)

theorem recombineSkipped_ok (tokens : List Token) (skipped : List Nat) (h : ∀ x ∈ skipped, x < tokens.length) :
    ∃ r, recombineSkipped tokens skipped = .ok r := by
  unfold recombineSkipped
  exact recombine_go_ok tokens skipped _ 0 [] (fun x hx => h x (List.mem_mergeSort.mp hx)) (fun h => absurd h (by omega))

theorem validate_ok (info : Info) (res : Res) : ∃ r, validate info res = .ok r ∧ r.weekday = res.weekday := by
  unfold validate
  cases hy : res.year with
  | none =>
    simp only [bind, Except.bind, pure, Except.pure]
    split
    · exact ⟨_, rfl, rfl⟩
    · split <;> exact ⟨_, rfl, rfl⟩
  | some y =>
    obtain ⟨y', hy'⟩ := convertyear_nat ⟨info.century, info.year⟩ y res.centurySpecified
    simp only [bind, Except.bind, pure, Except.pure, hy']
    split
    · exact ⟨_, rfl, rfl⟩
    · split <;> exact ⟨_, rfl, rfl⟩

/-- `_parse` never raises: every `IndexError`, `ValueError`, `InvalidOperation` of the scan is turned
    into the `(None, None)` return, and nothing else can be raised (the two `assert`s of
    `_resolve_from_stridxs`, the `assert year >= 0` of `convertyear` and the `tokens[idx]` of
    `_recombine_skipped` are shown not to fire) -/
theorem parseTokens_ok (cls : Char → CClass) (info : Info) (hinfo : info.WF) (o : Opts) (l : List Token) :
    ∃ r, parseTokens cls info o l = .ok r ∧ ∀ res toks, r = some (res, toks) → ∀ w, res.weekday = some w → w < 7 := by
  unfold parseTokens
  have h := parseTry_good cls info hinfo o l
  revert h
  cases parseTry cls info o l with
  | error e =>
    intro h
    have : caughtInParse e = true := h
    simp only [this, if_true]
    exact ⟨none, rfl, by intro _ _ h; cases h⟩
  | ok st =>
    intro h
    have h : StWF l.length st := h
    obtain ⟨res, hres, hwd⟩ := validate_ok info st.res
    simp only [bind, Except.bind, hres]
    split
    · obtain ⟨toks, htoks⟩ := recombineSkipped_ok st.l st.skipped (by rw [h.len]; exact h.skipped)
      simp only [htoks, pure, Except.pure]
      refine ⟨_, rfl, ?_⟩
      intro res' toks' heq w hw
      simp only [Option.some.injEq, Prod.mk.injEq] at heq
      rw [← heq.1, hwd] at hw
      exact h.wd w hw
    · simp only [pure, Except.pure]
      refine ⟨_, rfl, ?_⟩
      intro res' toks' heq w hw
      simp only [Option.some.injEq, Prod.mk.injEq] at heq
      rw [← heq.1, hwd] at hw
      exact h.wd w hw

/-! ### building the result -/

theorem addMicros_kinds (t : DT) (δ : Int) (e : PyErr) (h : t.addMicros δ = .error e) : e = .OverflowError := by
  unfold DT.addMicros at h
  dsimp only at h
  split at h
  · injection h with h; exact h.symm
  · cases h

theorem weekdayShift_kinds (t : DT) (wd : Nat) (hwd : wd < 7) (e : PyErr) (h : weekdayShift t wd = .error e) :
    e = .OverflowError := by
  unfold weekdayShift at h
  have : ¬ wd ≥ 7 := by omega
  simp only [this, if_false] at h
  exact addMicros_kinds _ _ _ h

theorem dtReplace_kinds (d : DT) (y m dd hh mm ss us : Option Nat) (e : PyErr)
    (h : dtReplace d y m dd hh mm ss us = .error e) : e = .ValueError ∨ e = .OverflowError := by
  unfold dtReplace at h
  split at h
  · injection h with h; exact Or.inr h.symm
  · split at h
    · cases h
    · injection h with h; exact Or.inl h.symm

theorem monthrange_kinds (y m : Int) (e : PyErr) (h : monthrange y m = .error e) : e = .ValueError := by
  unfold monthrange at h
  split at h
  · cases h
  · injection h with h; exact h.symm

/-- every error `r` can raise satisfies `E` -/
def ErrIn {α} (E : PyErr → Prop) (r : R α) : Prop := ∀ e, r = .error e → E e

theorem errIn_bind {α β} {E : PyErr → Prop} {x : R α} {f : α → R β} (hx : ErrIn E x) (hf : ∀ a, ErrIn E (f a)) :
    ErrIn E (x >>= f) := by
  cases x with
  | ok a => exact hf a
  | error e => intro e' h; injection h with h; subst h; exact hx e rfl

theorem errIn_ok {α} {E : PyErr → Prop} (a : α) : ErrIn E (.ok a : R α) := by intro e h; cases h
theorem errIn_pure {α} {E : PyErr → Prop} (a : α) : ErrIn E (pure a : R α) := by intro e h; cases h

def VEorOE (e : PyErr) : Prop := e = .ValueError ∨ e = .OverflowError

theorem clipDay_kinds (res : Res) (dflt : DT) : ErrIn VEorOE (clipDay res dflt) := by
  unfold clipDay
  split
  · exact errIn_ok _
  · refine errIn_bind (fun e h => Or.inl (monthrange_kinds _ _ _ h)) (fun dim => ?_)
    split <;> exact errIn_pure _

theorem shiftBareWeekday_kinds (res : Res) (hwd : ∀ w, res.weekday = some w → w < 7) (t : DT) :
    ErrIn VEorOE (shiftBareWeekday res t) := by
  unfold shiftBareWeekday
  split
  · rename_i wd hw
    split
    · exact fun e h => Or.inr (weekdayShift_kinds _ _ (hwd _ hw) _ h)
    · exact errIn_ok _
  · exact errIn_ok _

/-- `_build_naive` raises only `ValueError` (bad field values, `IllegalMonthError`) or `OverflowError`
    (C-int conversion in `replace`, weekday shift past 9999-12-31) -/
theorem buildNaive_kinds (res : Res) (dflt : DT) (hwd : ∀ w, res.weekday = some w → w < 7) :
    ErrIn VEorOE (buildNaive res dflt) := by
  unfold buildNaive
  refine errIn_bind (clipDay_kinds res dflt) (fun day => ?_)
  refine errIn_bind (fun e h => dtReplace_kinds _ _ _ _ _ _ _ _ _ h) (fun naive => ?_)
  exact shiftBareWeekday_kinds res hwd naive

def TzInfos.NoBad : TzInfos → Prop
  | .absent => True
  | .mapping es => ∀ p ∈ es, p.2 ≠ TzData.bad
  | .callable es d => (∀ p ∈ es, p.2 ≠ TzData.bad) ∧ d ≠ .data .bad

theorem lookupKey_mem {β} (tbl : List (Option Token × β)) (k : Option Token) (v : β) (h : lookupKey tbl k = some v) :
    ∃ p ∈ tbl, p.2 = v := by
  unfold lookupKey at h
  cases hf : tbl.find? (·.1 = k) with
  | none => simp [hf] at h
  | some p =>
    simp only [hf, Option.map_some, Option.some.injEq] at h
    exact ⟨p, List.mem_of_find?_eq_some hf, h⟩

def OnlyOE (e : PyErr) : Prop := e = .OverflowError

theorem fixedZone_kinds (n : Option Token) (k : Int) : ErrIn OnlyOE (fixedZone n k) := by
  unfold fixedZone
  split
  · exact errIn_ok _
  · intro e h; injection h with h; exact h.symm

/-- the value `_build_tzinfo` looks at -/
def selectData (tzi : TzInfos) (tzname : Option Token) (tzoffset : Option Int) : TzData :=
  match tzi with
  | .callable entries dflt =>
    match lookupKey entries tzname with
    | some d => d
    | none => match dflt with
      | .data d => d
      | .echoOffset => match tzoffset with | some n => .int n | none => .noneVal
  | .mapping entries => (lookupKey entries tzname).getD .noneVal
  | .absent => .noneVal

theorem selectData_not_bad (tzi : TzInfos) (h : tzi.NoBad) (n : Option Token) (off : Option Int) :
    selectData tzi n off ≠ .bad := by
  intro hbad
  unfold selectData at hbad
  cases tzi with
  | absent => simp at hbad
  | mapping es =>
    simp only at hbad
    cases hl : lookupKey es n with
    | none => simp [hl] at hbad
    | some d =>
      simp only [hl, Option.getD_some] at hbad
      obtain ⟨p, hp, hv⟩ := lookupKey_mem _ _ _ hl
      exact h p hp (hv.trans hbad)
  | callable es d =>
    simp only at hbad
    cases hl : lookupKey es n with
    | some d' =>
      simp only [hl] at hbad
      obtain ⟨p, hp, hv⟩ := lookupKey_mem _ _ _ hl
      exact h.1 p hp (hv.trans hbad)
    | none =>
      simp only [hl] at hbad
      cases d with
      | data d' => simp only at hbad; exact h.2 (by rw [hbad])
      | echoOffset => cases off <;> simp at hbad

/-! ### `tz.tzstr` (C08's model) raises only ValueError or OverflowError -/
section TzStrKinds
open TzStr

theorem tzParseTokens_ok (l : Array String) : ∃ r, TzStr.parseTokens l = .ok r := by
  unfold TzStr.parseTokens
  repeat' (first | exact ⟨_, rfl⟩ | split | (dsimp only; done) | (dsimp only; split))

theorem go_kinds : ∀ (ys : List Int) (yday k prev : Int) (e : PyErr), ydayToMonthDay.go yday ys k prev = .error e → e = .ValueError := by
  intro ys
  induction ys with
  | nil => intro yday k prev e h; simp [ydayToMonthDay.go] at h; exact h.symm
  | cons y ys ih =>
    intro yday k prev e h
    simp only [ydayToMonthDay.go] at h
    split at h
    · simp at h
    · exact ih _ _ _ _ h

theorem delta_kinds (x : Attr) (isend : Bool) (a b : Int) (e : PyErr) (h : delta x isend a b = .error e) : e = .ValueError := by
  unfold delta at h
  simp only [bind, Except.bind] at h
  repeat' split at h
  all_goals first
    | (simp at h; done)
    | (rename_i hh; simp only [ydayToMonthDay] at hh; injection h with h; subst h; exact go_kinds _ _ _ _ _ hh)
    | skip

theorem tdCheck_kinds (x : Int) (e : PyErr) (h : tdCheck x = .error e) : e = .OverflowError := by
  unfold tdCheck at h; split at h
  · injection h with h; exact h.symm
  · simp at h

theorem tzstr_kinds (s : String) (posix : Bool) (e : PyErr) (h : tzstr s posix = .error e) : VEorOE e := by
  unfold tzstr at h
  obtain ⟨r, hr⟩ := tzParseTokens_ok (tokens s).toArray
  simp only [TzStr.parse, hr, bind, Except.bind] at h
  cases r with
  | none => simp at h; exact Or.inl h.symm
  | some res =>
    simp only at h
    split at h
    · simp at h; exact Or.inl h.symm
    · repeat' split at h
      all_goals first
        | (simp at h; done)
        | (injection h with h; subst h; rename_i hh; first | exact Or.inr (tdCheck_kinds _ _ hh) | exact Or.inl (delta_kinds _ _ _ _ _ hh))
        | (injection h with h; subst h; rename_i hh; repeat' split at hh
           all_goals first
             | (simp [pure, Except.pure] at hh; done)
             | (injection hh with hh; subst hh; rename_i h3; exact Or.inr (tdCheck_kinds _ _ h3)))

end TzStrKinds

theorem tzstrCtor_kinds (s : Token) : ErrIn VEorOE (tzstrCtor s) := by
  intro e h
  unfold tzstrCtor at h
  cases hz : TzStr.tzstr (String.ofList s) false with
  | ok z => simp [hz] at h
  | error e' =>
    simp only [hz] at h
    injection h with h
    subst h
    exact tzstr_kinds _ _ _ hz

theorem buildTzinfo_eq (tzi : TzInfos) (n : Option Token) (off : Option Int) :
    buildTzinfo tzi n off =
      (match selectData tzi n off with
       | .obj k => pure (.viaTzinfos (.obj k) n)
       | .noneVal => pure (.viaTzinfos .noneVal n)
       | .str s => do tzstrCtor s; pure (.viaTzinfos (.str s) n)
       | .int k => fixedZone n k
       | .bad => throw .TypeError
       | .raises => throw .ValueError) := by
  unfold buildTzinfo selectData
  rfl

/-- `_build_tzinfo` raises only ValueError (a malformed TZ string, a raising callable) or OverflowError — given values of the
    documented kinds (`NoBad`); no hypothesis on the TZ strings -/
theorem buildTzinfo_kinds (tzi : TzInfos) (h : tzi.NoBad) (n : Option Token) (off : Option Int) :
    ErrIn VEorOE (buildTzinfo tzi n off) := by
  rw [buildTzinfo_eq]
  have hb := selectData_not_bad tzi h n off
  cases hd : selectData tzi n off with
  | obj k => exact errIn_ok _
  | noneVal => exact errIn_ok _
  | str s =>
    intro e he
    simp only [bind, Except.bind, pure, Except.pure] at he
    cases hc : tzstrCtor s with
    | ok u => simp [hc] at he
    | error e' =>
      simp only [hc] at he
      injection he with he
      subst he
      exact tzstrCtor_kinds s _ hc
  | int k => intro e he; exact Or.inr (fixedZone_kinds _ _ e he)
  | bad => exact absurd hd hb
  | raises => intro e he; injection he with he; exact Or.inl he.symm

theorem buildTzaware_kinds (tznames : List Token) (tzi : TzInfos) (h : tzi.NoBad) (res : Res) :
    ErrIn VEorOE (buildTzaware tznames tzi res) := by
  unfold buildTzaware
  split
  · exact buildTzinfo_kinds tzi h _ _
  · split
    · exact errIn_ok _
    · split
      · exact errIn_ok _
      · split
        · intro e he; exact Or.inr (fixedZone_kinds _ _ e he)
        · split <;> exact errIn_ok _

end PM
