/-
  Proofs/RRuleMonthlyE.lean — MONTHLY with BYEASTER on the supported class (offsets −80..250, years 1583..4099, plain
  BYDAY / BYMONTHDAY allowed, no BYWEEKNO): the argument-side lemmas are those of Proofs/RRuleEasterYearly.lean at
  FREQ = MONTHLY, the refinement is the MONTHLY branch of Proofs/RRuleYM.lean with the Easter mask (a month never
  leaves its year, so only the in-year part of the mask is read).
-/
import DateutilVerif.Proofs.RRuleEasterYearly
import DateutilVerif.Proofs.RRuleYM

namespace RRule
open Cal

variable {r : Rule}

/-- MONTHLY argument sets with BYEASTER offsets of the supported class -/
structure EasterMArgs (a : Args) : Prop where
  freq : a.freq = 1
  interval : 1 ≤ a.interval
  valid : a.dtstart.Valid
  byweekno : a.byweekno = none
  monthday_nz : ∀ x ∈ a.bymonthday.getD [], x ≠ 0
  plain : ∀ w ∈ a.byweekday.getD [], w.2 = 0
  easter : ∃ el, a.byeaster = some el ∧ el ≠ [] ∧ ∀ o ∈ el, -80 ≤ o ∧ o ≤ 250

variable {a : Args}

theorem em_noDay (ea : EasterMArgs a) : noDayParts a = false := by
  obtain ⟨el, hel, _, _⟩ := ea.easter
  unfold noDayParts; simp [hel]

theorem em_easters (ea : EasterMArgs a) :
    (∀ o, o ∈ eastersOf a ↔ o ∈ a.byeaster.getD []) ∧ (∀ o ∈ eastersOf a, -80 ≤ o ∧ o ≤ 250) ∧
    truthy (some (eastersOf a)) = true := by
  obtain ⟨el, hel, hne, hoff⟩ := ea.easter
  have hmem : ∀ o, o ∈ eastersOf a ↔ o ∈ el := by
    intro o; unfold eastersOf; rw [hel, Option.getD_some, mem_sortBy]
  refine ⟨by rw [hel]; exact hmem, fun o ho => hoff o ((hmem o).mp ho), ?_⟩
  rw [truthy_eq_not_isEmpty]
  cases hq : eastersOf a with
  | nil =>
    exfalso
    cases el with
    | nil => exact hne rfl
    | cons x xs => have := (hmem x).mpr (List.mem_cons_self ..); rw [hq] at this; simp at this
  | cons _ _ => rfl

theorem em_rule (ea : EasterMArgs a) (h : construct a = .ok r) : ∃ bh bm bs, r = easterRuleOf a bh bm bs := by
  have hts := construct_timeset a r h (by rw [ea.freq]; omega)
  obtain ⟨sp, bh, bm, bs, ts, h1, h2, h3, h4, h5, rfl⟩ := construct_ok a r h
  dsimp only at hts
  subst hts
  have hsp := (normBysetpos_ok a sp h1).1
  subst hsp
  obtain ⟨el, hel, _, _⟩ := ea.easter
  refine ⟨bh, bm, bs, ?_⟩
  have hbm : bymonthOf a = a.bymonth.map sortedSet := by unfold bymonthOf; simp [em_noDay ea]
  have hes : a.byeaster.map (sortBy ltInt) = some (eastersOf a) := by unfold eastersOf; rw [hel]; rfl
  simp [easterRuleOf, hbm, hes, ea.byweekno]

theorem em_strip (ea : EasterMArgs a) : YMArgs (stripE a) :=
  { freq := Or.inr ea.freq, interval := ea.interval, valid := ea.valid, byweekno := rfl, byeaster := rfl,
    monthday_nz := by intro x hx; simp [stripE] at hx, plain := ea.plain }

theorem em_weekdayArg (ea : EasterMArgs a) : weekdayArg a = a.byweekday := by
  unfold weekdayArg; simp [ea.freq]

theorem byweekdayOf_stripEM (ea : EasterMArgs a) : byweekdayOf (stripE a) = byweekdayOf a := by
  unfold byweekdayOf
  rw [em_weekdayArg ea, ym_weekdayArg (em_strip ea)]
  rfl

theorem em_nwd (ea : EasterMArgs a) : truthy (bynweekdayOf a) = false := by
  unfold bynweekdayOf
  rw [em_weekdayArg ea]
  cases hl : a.byweekday with
  | none => rfl
  | some l =>
    dsimp only
    have hnth : nthWeekdays a l = [] := by
      unfold nthWeekdays
      have : l.filter (fun w => !(w.2 == 0 || decide (a.freq > 1))) = [] := by
        apply List.filter_eq_nil_iff.mpr
        intro w hw
        have := ea.plain w (by rw [hl]; exact hw)
        simp [this]
      rw [this]; rfl
    rw [hnth]
    split
    · rfl
    · rfl

theorem em_cuts (ea : EasterMArgs a) (h : construct a = .ok r) : CutsAgree a r := by
  obtain ⟨bh, bm, bs, hr⟩ := em_rule ea h
  rw [hr]; exact ⟨rfl, rfl, rfl⟩

theorem em_easterRule (ea : EasterMArgs a) (h : construct a = .ok r) : EasterRule r := by
  obtain ⟨bh, bm, bs, hr⟩ := em_rule ea h
  rw [hr]; exact ⟨rfl, em_nwd ea, (em_easters ea).2.2⟩

/-- **bridge**: inside the year `y`, calendar predicate ∧ "Easter + offset" is `dateOk` -/
theorem em_bridge (ea : EasterMArgs a) (h : construct a = .ok r) (info : Info) (y j : Int)
    (hy : 1 ≤ y) (hj0 : 0 ≤ j) (hj1 : j < daysInYear y) (hyo : info.yearordinal = toOrdinal y 1 1) :
    (simpleOk r (info.yearordinal + j) &&
      decide ((info.yearordinal + j - Spec.RRule.easterOrd y) ∈ eastersOf a)) =
      Spec.RRule.dateOk a (info.yearordinal + j) := by
  obtain ⟨bh, bm, bs, hr⟩ := em_rule ea h
  obtain ⟨el, hel, hne, _⟩ := ea.easter
  obtain ⟨hmem, _, _⟩ := em_easters ea
  rw [hel, Option.getD_some] at hmem
  have hfo := date_of_yday y j hy hj0 hj1
  rw [← hyo] at hfo
  have hpos : 1 ≤ info.yearordinal + j := by
    rw [hyo]
    have := toOrdinal_pos y 1 1 hy ⟨by omega, by omega, by omega, by have := daysInMonth_bounds y 1; omega⟩
    omega
  obtain ⟨_, hvd, _⟩ := toOrdinal_fromOrdinal (info.yearordinal + j) hpos
  rw [hfo] at hvd
  obtain ⟨_, _, hd1, hd2⟩ := hvd
  dsimp only at hd1 hd2
  rw [hr]
  unfold simpleOk Spec.RRule.dateOk
  rw [hfo]
  dsimp only
  have hnd : Spec.RRule.noDayParts a = noDayParts a := rfl
  have hmonths : Spec.RRule.months a = a.bymonth.getD [] := by
    unfold Spec.RRule.months; cases a.bymonth <;> simp [hnd, em_noDay ea]
  have hmda : monthdayArg a = a.bymonthday := by unfold monthdayArg; simp [em_noDay ea]
  have hmd : Spec.RRule.monthdays a = a.bymonthday.getD [] := by
    unfold Spec.RRule.monthdays; simp [hnd, em_noDay ea]
  have hmc := monthday_clause_core a (by rw [hmda]; exact ea.monthday_nz)
    (monthDayOfYday (isLeap y) j).2
    ((monthDayOfYday (isLeap y) j).2 - daysInMonth y (monthOfYday (isLeap y) j) - 1) (by omega) (by omega)
  rw [hmda] at hmc
  have hwds : Spec.RRule.weekdays a = a.byweekday.getD [] := by
    unfold Spec.RRule.weekdays; simp [hnd, em_noDay ea]
  have hwc := weekday_clause_ym (em_strip ea) (weekdayOfOrd (info.yearordinal + j))
    (fun wn => Spec.RRule.nthOk a (info.yearordinal + j) y (monthOfYday (isLeap y) j) wn.2)
  rw [byweekdayOf_stripEM ea] at hwc
  have hwc' : (!truthy (byweekdayOf a) || memO (weekdayOfOrd (info.yearordinal + j)) (byweekdayOf a)) =
      ((a.byweekday.getD []).isEmpty || (a.byweekday.getD []).any (fun wn =>
        wn.1 == weekdayOfOrd (info.yearordinal + j) &&
          (wn.2 == 0 || decide (a.freq > 1) ||
            Spec.RRule.nthOk a (info.yearordinal + j) y (monthOfYday (isLeap y) j) wn.2))) := hwc
  rw [hmonths, hmd, hwds, ea.byweekno, hel, month_clause, hwc', hmc]
  simp only [Bool.and_true]
  have hec : decide ((info.yearordinal + j - Spec.RRule.easterOrd y) ∈ eastersOf a) =
      (match some el with
       | some (x :: xs) => (x :: xs).contains (info.yearordinal + j - Spec.RRule.easterOrd y)
       | _ => true) := by
    cases el with
    | nil => exact absurd rfl hne
    | cons x xs =>
      dsimp only
      rw [Bool.eq_iff_iff, decide_eq_true_eq, List.contains_iff_mem, hmem]
  rw [hec]
  generalize ((a.bymonth.getD []).isEmpty || (a.bymonth.getD []).contains (monthOfYday (isLeap y) j)) = b1
  generalize ((a.byweekday.getD []).isEmpty || _) = b3
  generalize ((a.bymonthday.getD []).isEmpty || _ || _) = b4
  cases el with
  | nil => exact absurd rfl hne
  | cons x0 xs0 =>
    dsimp only
    generalize (x0 :: xs0).contains (info.yearordinal + j - Spec.RRule.easterOrd y) = b2
    rcases a.byyearday with _ | (_ | ⟨x, xs⟩)
    · cases b1 <;> cases b2 <;> cases b3 <;> cases b4 <;> rfl
    · cases b1 <;> cases b2 <;> cases b3 <;> cases b4 <;> rfl
    · rw [yearday_clause (some (x :: xs))]
      dsimp only
      cases b1 <;> cases b2 <;> cases b3 <;> cases b4 <;> simp

/-- "the model state at the start of period `k`" -/
structure EasterMGood (a : Args) (r : Rule) (k : Nat) (st : State) : Prop where
  facts : YearFacts r st.cur.year st.info
  month : 1 ≤ st.cur.month ∧ st.cur.month ≤ 12
  timeset : st.timeset = Spec.RRule.timesOf a none none none
  idx : st.cur.year * 12 + (st.cur.month - 1) = a.dtstart.y * 12 + (a.dtstart.m - 1) + k * a.interval
  nwd : st.info.nwdaymask = none
  mask : ∃ mask, st.info.eastermask = some mask ∧
    ∀ j : Int, 0 ≤ j → j < st.info.yearlen + 7 →
      Py.getIdx mask j = .ok (if (st.info.yearordinal + j - Spec.RRule.easterOrd st.cur.year) ∈ eastersOf a then 1 else 0)

theorem em_rebuild (ea : EasterMArgs a) (h : construct a = .ok r) (y m : Int) (hy1 : 1583 ≤ y) (hy2 : y ≤ 4099) :
    ∃ info mask, rebuild r y m = .ok info ∧ info.nwdaymask = none ∧ info.eastermask = some mask ∧
      ∀ j : Int, 0 ≤ j → j < info.yearlen + 7 →
        Py.getIdx mask j = .ok (if (info.yearordinal + j - Spec.RRule.easterOrd y) ∈ eastersOf a then 1 else 0) := by
  have he := em_easterRule ea h
  obtain ⟨bh, bm, bs, hr⟩ := em_rule ea h
  have hel : r.byeaster = some (eastersOf a) := by rw [hr]
  exact rebuild_easter he _ hel (em_easters ea).2.1 y m hy1 hy2

theorem em_results (ea : EasterMArgs a) (h : construct a = .ok r) (k : Nat) (st : State) (hg : EasterMGood a r k st) :
    (∃ fl, periodResults r st = .ok (Spec.RRule.sel a (k : Int), none, fl)) ∧
    ∀ x ∈ Spec.RRule.sel a (k : Int), 0 ≤ x.ord ∧ x.ord ≤ maxOrdinal := by
  have he := em_easterRule ea h
  obtain ⟨bh, bm, bs, hr⟩ := em_rule ea h
  have hfreq : r.freq = 1 := by rw [hr]; exact ea.freq
  have hsp := construct_bysetpos a r h
  have htsok : TsOk st.timeset := by
    have := construct_timeset_ok a r h (by rw [ea.freq]; omega)
    rw [hr] at this; rw [hg.timeset]; exact this
  have hyo := hg.facts.yearordinal
  have hyl := hg.facts.yearlen
  have hy1 := hg.facts.year_lo
  have hy2 := hg.facts.year_hi
  have hylen : 365 ≤ st.info.yearlen := by rw [hyl]; unfold daysInYear; split <;> omega
  have hpos : 1 ≤ toOrdinal st.cur.year 1 1 :=
    toOrdinal_pos _ _ _ hy1 ⟨by omega, by omega, by omega, by have := daysInMonth_bounds st.cur.year 1; omega⟩
  have hend := year_end_le st.cur.year hy2
  obtain ⟨mask, hmask, hmspec⟩ := hg.mask
  have hmlen : st.info.yearlen ≤ (mask.length : Int) := by
    have := getIdx_ok_len mask (st.info.yearlen + 6) _ (by omega) (hmspec (st.info.yearlen + 6) (by omega) (by omega))
    omega
  have hm := hg.month
  have hb := daysInMonth_bounds st.cur.year st.cur.month
  have hd := dayset_monthly st.cur hfreq hg.facts hm.1 hm.2
  have hdbm0 := daysBeforeMonth_mono st.cur.year 1 st.cur.month (by omega) hm.1 (by omega)
  rw [daysBeforeMonth_1] at hdbm0
  have hdbm1 := daysBeforeMonth_mono st.cur.year (st.cur.month + 1) 13 (by omega) (by omega) (by omega)
  rw [daysBeforeMonth_13, daysBeforeMonth_succ _ _ hm.1 hm.2] at hdbm1
  have hfil : ∀ i, daysBeforeMonth st.cur.year st.cur.month ≤ i →
      i < daysBeforeMonth st.cur.year st.cur.month + daysInMonth st.cur.year st.cur.month →
      dayFiltered r st.info i = .ok (!(Spec.RRule.dateOk a (st.info.yearordinal + i))) := by
    intro i hi0 hi1
    have h0 : 0 ≤ i := by omega
    have h1 : i < st.info.yearlen := by rw [hyl]; omega
    rw [dayFiltered_easter he hg.facts mask hg.nwd hmask i h0 h1 hmlen]
    have hgi := hmspec i h0 (by omega)
    rw [getIdx_int mask i h0 (by omega)] at hgi
    injection hgi with hgi
    have hbr := em_bridge ea h st.info st.cur.year i hy1 h0 (by rw [← hyl]; exact h1) hyo
    rw [← hbr, hgi]
    congr 2
    by_cases c : (st.info.yearordinal + i - Spec.RRule.easterOrd st.cur.year) ∈ eastersOf a
    · rw [if_pos c, decide_eq_true c]; rfl
    · rw [if_neg c, decide_eq_false c]; rfl
  obtain ⟨fl, hres⟩ := periodResults_range_P st (Spec.RRule.dateOk a) hfil (by rw [hsp.1]; exact hsp.2) htsok hd
    (by rw [hyo]; omega) (by rw [hyo]; omega)
  have hspan : Spec.RRule.periodSpan a (k * a.interval) =
      (st.info.yearordinal + daysBeforeMonth st.cur.year st.cur.month,
       st.info.yearordinal + (daysBeforeMonth st.cur.year st.cur.month + daysInMonth st.cur.year st.cur.month),
       none, none, none) := by
    unfold Spec.RRule.periodSpan
    rw [if_neg (by simp [ea.freq]), if_pos (by simp [ea.freq])]
    dsimp only
    have hidx := hg.idx
    have e1 : (a.dtstart.y * 12 + (a.dtstart.m - 1) + k * a.interval) / 12 = st.cur.year := by omega
    have e2 : (a.dtstart.y * 12 + (a.dtstart.m - 1) + k * a.interval) % 12 + 1 = st.cur.month := by omega
    rw [e1, e2, hyo, month_start]
    simp only [Prod.mk.injEq, and_true, true_and]
    omega
  refine ⟨⟨fl, ?_⟩, ?_⟩
  · rw [hres, hg.timeset, sel_span_sp a k _ _ hspan, hsp.1]
  · intro x hx
    rw [sel_span_sp a k _ _ hspan] at hx
    have := sel_bounds _ _ _ _ x (applySetpos_subset _ _ x hx)
    rw [hyo] at this; omega

theorem em_next (ea : EasterMArgs a) (h : construct a = .ok r) (k : Nat) (st : State) (fl : Bool)
    (c : Option Int) (hg : EasterMGood a r k st) (hlo : 1583 ≤ a.dtstart.y)
    (hm : (a.dtstart.y * 12 + (a.dtstart.m - 1) + (k + 1 : Nat) * a.interval) / 12 ≤ 4099) :
    ∃ st', advance r { st with count := c } fl = .ok st' ∧ EasterMGood a r (k + 1) st' := by
  obtain ⟨bh, bm, bs, hr⟩ := em_rule ea h
  have hfreq : r.freq = 1 := by rw [hr]; exact ea.freq
  have hint : r.interval = a.interval := by rw [hr]
  have hi := ea.interval
  have hmth := hg.month
  have hv := ea.valid
  unfold DT.Valid ValidDate at hv
  have hm0 : 1 ≤ a.dtstart.m ∧ a.dtstart.m ≤ 12 := ⟨hv.1.2.2.1, hv.1.2.2.2.1⟩
  have ek : ((k + 1 : Nat) : Int) * a.interval = k * a.interval + a.interval := by
    push_cast; rw [Int.add_mul]; omega
  have hk0 : (0 : Int) ≤ k * a.interval := Int.mul_nonneg (by omega) (by omega)
  have hidx := hg.idx
  have hylo : 1583 ≤ st.cur.year := by omega
  have hex : ∃ st', advance r { st with count := c } fl = .ok st' ∧ st'.info.nwdaymask = none ∧
      ∃ mask, st'.info.eastermask = some mask ∧
        ∀ j : Int, 0 ≤ j → j < st'.info.yearlen + 7 →
          Py.getIdx mask j =
            .ok (if (st'.info.yearordinal + j - Spec.RRule.easterOrd st'.cur.year) ∈ eastersOf a then 1 else 0) := by
    unfold advance
    dsimp only
    rw [if_neg (by simp [hfreq]), if_pos (by simp [hfreq])]
    split
    · rename_i hgt
      simp only [Py.divmod, Py.fdiv_pos _ (by omega : (0:Int) < 12), Py.fmod_pos _ (by omega : (0:Int) < 12)]
      by_cases c0 : (st.cur.month + r.interval) % 12 = 0
      · have c' : ((st.cur.month + r.interval) % 12 == 0) = true := by simp [c0]
        simp only [c', ↓reduceIte]
        have hle : st.cur.year + (st.cur.month + r.interval) / 12 - 1 ≤ 4099 := by rw [hint]; omega
        rw [if_neg (by omega)]
        obtain ⟨info, mask, hre, h2, h3, h4⟩ := em_rebuild ea h
          (st.cur.year + (st.cur.month + r.interval) / 12 - 1) 12 (by rw [hint]; omega) hle
        rw [hre]; exact ⟨_, rfl, h2, mask, h3, h4⟩
      · have c' : ((st.cur.month + r.interval) % 12 == 0) = false := by simp [c0]
        simp only [c', Bool.false_eq_true, ↓reduceIte]
        have hle : st.cur.year + (st.cur.month + r.interval) / 12 ≤ 4099 := by rw [hint]; omega
        rw [if_neg (by omega)]
        obtain ⟨info, mask, hre, h2, h3, h4⟩ := em_rebuild ea h
          (st.cur.year + (st.cur.month + r.interval) / 12) ((st.cur.month + r.interval) % 12)
          (by rw [hint]; omega) hle
        rw [hre]; exact ⟨_, rfl, h2, mask, h3, h4⟩
    · rename_i hgt
      have hle : st.cur.year ≤ 4099 := by rw [hint] at hgt; omega
      obtain ⟨info, mask, hre, h2, h3, h4⟩ := em_rebuild ea h st.cur.year (st.cur.month + r.interval) hylo hle
      rw [hre]; exact ⟨_, rfl, h2, mask, h3, h4⟩
  obtain ⟨st', hadv, hnw, hmk⟩ := hex
  have sp := advance_monthly r { st with count := c } st' fl hfreq (by omega) hmth.1 hmth.2 hadv
  obtain ⟨e, m1, m12, _, f', ts⟩ := sp
  have e : st'.cur.year * 12 + (st'.cur.month - 1) = st.cur.year * 12 + (st.cur.month - 1) + r.interval := e
  refine ⟨st', hadv, ⟨f', ⟨m1, m12⟩, by rw [ts]; exact hg.timeset, ?_, hnw, hmk⟩⟩
  rw [e, hidx, hint]; omega

theorem em_init (ea : EasterMArgs a) (h : construct a = .ok r) (hlo : 1583 ≤ a.dtstart.y) (hhi : a.dtstart.y ≤ 4099) :
    ∃ st0, init r = .ok st0 ∧ EasterMGood a r 0 st0 ∧ st0.count = r.count := by
  have hv := ea.valid
  unfold DT.Valid ValidDate at hv
  obtain ⟨info, mask, hre, h2, h3, h4⟩ := em_rebuild ea h a.dtstart.y a.dtstart.m hlo hhi
  obtain ⟨bh, bm, bs, hr⟩ := em_rule ea h
  have hd : r.dtstart = { a.dtstart with us := 0 } := by rw [hr]
  have hf : r.freq < 4 := by rw [hr]; dsimp only; rw [ea.freq]; omega
  have hts : r.timeset = some (Spec.RRule.timesOf a none none none) := by rw [hr]
  refine ⟨{ cur := { year := a.dtstart.y, month := a.dtstart.m, day := a.dtstart.d, hour := a.dtstart.hh,
                     minute := a.dtstart.mm, second := a.dtstart.ss, weekday := r.dtstart.weekday },
            info := info, timeset := Spec.RRule.timesOf a none none none, count := r.count }, ?_, ?_, rfl⟩
  · unfold init
    simp only [hd, bind, Except.bind, hre, hts, pure, Except.pure]
    rw [if_pos hf]
    rfl
  · exact ⟨rebuild_facts r _ _ info hre, ⟨hv.1.2.2.1, hv.1.2.2.2.1⟩, rfl, by dsimp only; omega, h2, mask, h3, h4⟩

/-- **`iter_eq_spec`, MONTHLY with BYEASTER on the supported class** (the complement of D-C01d: offsets −80..250; years
    1583..4099, where C19 ties `easter.easter` to Meeus/Jones/Butcher): FREQ=MONTHLY, INTERVAL ≥ 1, a valid start, any
    BYMONTH / BYMONTHDAY (non-zero) / BYYEARDAY / plain BYDAY / BYHOUR / BYMINUTE / BYSECOND / BYSETPOS, any COUNT /
    UNTIL, no nth BYDAY / BYWEEKNO -/
theorem iter_eq_spec_monthly_easter (ea : EasterMArgs a) (h : construct a = .ok r) (n : Nat)
    (hlo : 1583 ≤ a.dtstart.y) (hm : (a.dtstart.y * 12 + (a.dtstart.m - 1) + n * a.interval) / 12 ≤ 4099) :
    (iter r n).1 = Spec.RRule.occ a n := by
  have hi := ea.interval
  have hv := ea.valid
  unfold DT.Valid ValidDate at hv
  have hmono : ∀ k : Nat, k ≤ n → (k : Int) * a.interval ≤ n * a.interval := by
    intro k hk; exact Int.mul_le_mul_of_nonneg_right (by omega) (by omega)
  have hn0 : (0 : Int) ≤ n * a.interval := Int.mul_nonneg (by omega) (by omega)
  have hm0 : 1 ≤ a.dtstart.m := hv.1.2.2.1
  have sim : Simulation a r n (EasterMGood a r) := {
    agree := em_cuts ea h
    results := fun k st _ hg => by
      obtain ⟨⟨fl, hres⟩, hb⟩ := em_results ea h k st hg
      exact ⟨fl, [], _, hres, rfl, by simp, hb⟩
    next := fun k st fl c hk hg => em_next ea h k st fl c hg hlo (by
      have := hmono (k + 1) (by omega)
      have : (a.dtstart.y * 12 + (a.dtstart.m - 1) + ((k + 1 : Nat) : Int) * a.interval) / 12 ≤
          (a.dtstart.y * 12 + (a.dtstart.m - 1) + n * a.interval) / 12 :=
        Int.ediv_le_ediv (by omega) (by omega)
      omega)
    }
  obtain ⟨st0, hinit, hg0, hc0⟩ := em_init ea h hlo (by omega)
  exact iter_refines sim st0 hinit hg0 hc0 n (by omega)

-- an EasterMArgs instance: month by month, Good Friday and Easter Monday
example : EasterMArgs { freq := 1, dtstart := ⟨2024, 1, 1, 9, 0, 0, 0⟩, byeaster := some [-2, 1] } :=
  ⟨rfl, by decide, by decide, rfl, by intro x hx; simp at hx, by intro w hw; simp at hw,
   ⟨[-2, 1], rfl, by decide, by decide⟩⟩

end RRule
