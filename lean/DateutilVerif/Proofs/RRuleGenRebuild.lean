/-
  Proofs/RRuleGenRebuild.lean — the re-translated `_iterinfo.rebuild` (Generated/RRuleKernels.lean: sections
  `rebuild_if1 … rebuild_if7` and `rebuild`) against the hand model's `rebuild`.
-/
import DateutilVerif.Proofs.RRuleGenLoops

namespace RRuleGen
open RRule RrPy

/-! ### section 1: the tables by leap year, `WDAYMASK[wday:]` -/

theorem slice_wdaymask : ∀ k : Fin 7,
    Py.slice Gen.WDAYMASK (some ((k.val : Nat) : Int)) none none = .ok (Gen.WDAYMASK.drop k.val) := by decide +kernel

theorem slice_wdaymask' (wday : Int) (h0 : 0 ≤ wday) (h1 : wday < 7) :
    Py.slice Gen.WDAYMASK (some wday) none none = .ok (Gen.WDAYMASK.drop wday.toNat) := by
  have := slice_wdaymask ⟨wday.toNat, by omega⟩
  simpa [Int.toNat_of_nonneg h0] using this

theorem weekdayOfOrd_range (n : Int) : 0 ≤ Cal.weekdayOfOrd n ∧ Cal.weekdayOfOrd n < 7 := by
  unfold Cal.weekdayOfOrd; omega

theorem rebuild_if1_eq (leap : Bool) (wday : Int) (h0 : 0 ≤ wday) (h1 : wday < 7) :
    Gen.rebuild_if1 (365 + RrPy.b2i leap) wday =
      .ok (if leap then Gen.M366MASK else Gen.M365MASK, if leap then Gen.MDAY366MASK else Gen.MDAY365MASK,
           if leap then Gen.NMDAY366MASK else Gen.NMDAY365MASK, Gen.WDAYMASK.drop wday.toNat,
           if leap then Gen.M366RANGE else Gen.M365RANGE) := by
  cases leap <;> simp [Gen.rebuild_if1, RrPy.b2i, slice_wdaymask' wday h0 h1, bind, Except.bind, pure, Except.pure]

/-! ### section 2: the week-number mask -/

theorem fmod7 (x : Int) : Py.fmod x 7 = x % 7 := Py.fmod_pos x (by decide)
theorem fdiv7 (x : Int) : Py.fdiv x 7 = x / 7 := Py.fdiv_pos x (by decide)
theorem fdiv4 (x : Int) : Py.fdiv x 4 = x / 4 := Py.fdiv_pos x (by decide)

/-- the model's `buildWnomask` written with `bind` (same `let`s) -/
theorem buildWnomask_bind (wkst : Int) (l : List Int) (year yearlen yearweekday : Int) (wdaymask : List Int) :
    buildWnomask wkst l year yearlen yearweekday wdaymask =
      (let mask0 : List Int := List.replicate (yearlen + 7).toNat 0
       let firstwkst := Py.fmod (7 - yearweekday + wkst) 7
       let no1wkst := if firstwkst ≥ 4 then 0 else firstwkst
       let wyearlen := if firstwkst ≥ 4 then yearlen + Py.fmod (yearweekday - wkst) 7 else yearlen - firstwkst
       let numweeks := Py.fdiv wyearlen 7 + Py.fdiv (Py.fmod wyearlen 7) 4
       let back := if no1wkst ≠ firstwkst then 7 - firstwkst else 0
       (l.foldlM (wnoStep wdaymask wkst no1wkst numweeks back) mask0).bind fun mask1 =>
       (if l.contains 1 ∧ no1wkst + numweeks * 7 - back < yearlen
           then markWeek wdaymask wkst 7 mask1 (no1wkst + numweeks * 7 - back) else .ok mask1).bind fun mask2 =>
       if no1wkst ≠ 0 ∧ l.contains (lnumweeksOf wkst l year yearlen yearweekday no1wkst) then
         (intRange 0 no1wkst).foldlM (fun mask i => setIdx mask i 1) mask2
       else .ok mask2) := by
  unfold buildWnomask
  dsimp only
  split
  · simp only [*, error_bind]
  · simp only [*, ok_bind]
    split <;> simp only [*, error_bind, ok_bind]

theorem wnomaskOf_some (r : Rule) (year : Int) (b : Info) (w : Int) (ws : List Int) (h : r.byweekno = some (w :: ws)) :
    wnomaskOf r year b = okSome (buildWnomask r.wkst (w :: ws) year b.yearlen b.yearweekday b.wdaymask) := by
  unfold wnomaskOf okSome
  rw [h]
  dsimp only
  split <;> simp only [*]

theorem bind_ok_id {α} (x : Py.R α) : (x.bind fun v => Except.ok v) = x := by cases x <;> rfl
theorem bind_okSome (x : Py.R (List Int)) : (x.bind fun v => Except.ok (some v)) = okSome x := by cases x <;> rfl

theorem okSome_ite (c : Prop) [Decidable c] (x y : Py.R (List Int)) :
    okSome (if c then x else y) = if c then okSome x else okSome y := by split <;> rfl

theorem rebuild_if2_eq (r : Rule) (b : Info) (year : Int) :
    Gen.rebuild_if2 r b.wdaymask b.yearlen b.yearweekday year = wnomaskOf r year b := by
  match hb : r.byweekno with
  | none => simp [Gen.rebuild_if2, wnomaskOf, hb, truthy, pure, Except.pure]
  | some [] => simp [Gen.rebuild_if2, wnomaskOf, hb, truthy, pure, Except.pure]
  | some (w :: ws) =>
    rw [wnomaskOf_some r year b w ws hb, buildWnomask_bind]
    unfold Gen.rebuild_if2
    simp only [hb, truthy, not_true_eq_false, if_false, fmod7, fdiv7, fdiv4, Py.divmod, RrPy.iterO, RrPy.inO,
      RrPy.repeatL, bind, pure, Except.pure, ok_bind, rebuild_loop1_eq, rebuild_loop3_eq, rebuild_loop4_eq,
      okSome_bind_left, okSome_bind, okSome_ite, okSome_ok, length_intRange', lnumweeksOf]
    generalize hfw : (7 - b.yearweekday + r.wkst) % 7 = fw
    have e7 : ((7 : Int) - 0).toNat = 7 := rfl
    simp only [e7]
    by_cases h4 : fw ≥ 4
    · have hf0 : ¬ (0 : Int) = fw := by omega
      simp only [h4, hf0, if_true, if_false, ok_bind, ne_eq, not_true_eq_false, not_false_eq_true, false_and, Int.zero_add]
      by_cases h1 : (w :: ws).contains 1 = true
      · simp only [h1, if_true, true_and, bind_ok_id, bind_okSome, okSome_ite, okSome_ok]
      · simp only [h1, if_false, false_and, Bool.false_eq_true, bind_ok_id, bind_okSome, okSome_ite, okSome_ok, ok_bind]
    · have hff : ¬ fw ≠ fw := by simp
      simp only [h4, hff, if_true, if_false, ok_bind, ne_eq, not_true_eq_false, not_false_eq_true, Int.sub_zero, RrPy.b2i]
      generalize hnw : (b.yearlen - fw) / 7 + (b.yearlen - fw) % 7 / 4 = nw
      congr 1; funext v
      have tail : ∀ (m : List Int),
          (if ¬fw = 0 then
            Except.bind
              (if ¬(w :: ws).contains (-1) = true then
                if (7 - (b.yearweekday - (365 + if Cal.isLeap (year - 1) = true then 1 else 0)) % 7 + r.wkst) % 7 ≥ 4 then
                  Except.ok
                    (52 +
                      ((365 + if Cal.isLeap (year - 1) = true then 1 else 0) +
                            ((b.yearweekday - (365 + if Cal.isLeap (year - 1) = true then 1 else 0)) % 7 - r.wkst) % 7) %
                          7 /
                        4)
                else Except.ok (52 + (b.yearlen - fw) % 7 / 4)
              else Except.ok (-1))
              fun lnumweeks =>
              if (w :: ws).contains lnumweeks = true then Gen.rebuild_loop4 (intRange 0 fw) (some m)
              else Except.ok (some m)
          else Except.ok (some m)) =
          if
            ¬fw = 0 ∧
              (w :: ws).contains
                  (if (!(w :: ws).contains (-1)) = true then
                    if
                        (7 - (b.yearweekday - (365 + if Cal.isLeap (year - 1) = true then 1 else 0)) % 7 + r.wkst) % 7 ≥
                          4 then
                      52 +
                        ((365 + if Cal.isLeap (year - 1) = true then 1 else 0) +
                              ((b.yearweekday - (365 + if Cal.isLeap (year - 1) = true then 1 else 0)) % 7 - r.wkst) %
                                7) %
                            7 /
                          4
                    else 52 + (b.yearlen - fw) % 7 / 4
                  else -1) =
                true then
          okSome (List.foldlM (fun mask i => setIdx mask i 1) m (intRange 0 fw))
        else Except.ok (some m) := by
        intro m
        by_cases hf0 : fw = 0
        · simp only [hf0, not_true_eq_false, if_false, false_and]
        · simp only [hf0, not_false_eq_true, if_true, true_and, rebuild_loop4_eq]
          by_cases hm1 : (w :: ws).contains (-1) = true
          · simp only [hm1, not_true_eq_false, if_false, ok_bind, Bool.not_true, Bool.false_eq_true]
          · simp only [hm1, not_false_eq_true, if_true, Bool.not_eq_true] at *
            simp only [hm1, Bool.not_false, if_true]
            generalize (7 - (b.yearweekday - (365 + if Cal.isLeap (year - 1) = true then 1 else 0)) % 7 + r.wkst) % 7 = q
            by_cases hq : q ≥ 4 <;> simp only [hq, if_true, if_false, ok_bind]
      by_cases h1 : (w :: ws).contains 1 = true
      · by_cases hlt : fw + nw * 7 < b.yearlen
        · simp only [h1, hlt, if_true, and_self, okSome_bind_left]
          congr 1; funext m; exact tail m
        · simp only [h1, hlt, if_true, if_false, and_false, ok_bind]
          exact tail v
      · simp only [h1, if_false, false_and, Bool.false_eq_true, ok_bind]
        exact tail v

/-! ### section 7: the easter mask -/

theorem eastermaskOf_some (r : Rule) (year : Int) (b : Info) (e : Int) (es : List Int) (h : r.byeaster = some (e :: es)) :
    eastermaskOf r year b = okSome (buildEastermask (e :: es) year b.yearlen b.yearordinal) := by
  unfold eastermaskOf okSome
  rw [h]
  dsimp only
  split <;> simp only [*]

theorem rebuild_if7_eq (r : Rule) (em : Option (List Int)) (b : Info) (year : Int) :
    Gen.rebuild_if7 r em b.yearlen b.yearordinal year =
      if truthy r.byeaster = true then eastermaskOf r year b else .ok em := by
  match hb : r.byeaster with
  | none => simp [Gen.rebuild_if7, hb, truthy, pure, Except.pure]
  | some [] => simp [Gen.rebuild_if7, hb, truthy, pure, Except.pure]
  | some (e :: es) =>
    rw [eastermaskOf_some r year b e es hb]
    unfold Gen.rebuild_if7 buildEastermask
    simp only [hb, truthy, if_true, RrPy.easterDate, RrPy.iterO, RrPy.repeatL, RrPy.mkDate, RrPy.toordinal, bind, pure,
      Except.pure, ok_bind, rebuild_loop8_eq, okSome_bind]
    cases Gen.easter year 3 with
    | error err => rfl
    | ok d =>
      simp only [ok_bind]
      by_cases hv : Cal.validDate d.1 d.2.1 d.2.2 = true
      · simp only [hv, if_true, not_true_eq_false, if_false, ok_bind, bind_ok_id]
      · have hv' : Cal.validDate d.1 d.2.1 d.2.2 = false := by simpa using hv
        simp only [hv']
        rfl

/-! ### sections 4-6: the nth-weekday mask -/

theorem rangeStep_eq (wdaymask : List Int) (nwl : List (Int × Int)) :
    (fun (mask : List Int) (rg : List Int) =>
      match rg with
      | [first, last] => nwl.foldlM (markNth wdaymask first (last - 1)) mask
      | _ => throw Py.PyErr.ValueError) = rangeStep wdaymask nwl := by
  funext mask rg
  unfold rangeStep
  match rg with
  | [] => rfl
  | [_] => rfl
  | [_, _] => rfl
  | _ :: _ :: _ :: _ => rfl

/-- the ranges the model's `buildNwdaymask` works on -/
def nwRanges (r : Rule) (yearlen : Int) (mrange : List Int) (month : Int) : Py.R (List (List Int)) :=
  if r.freq == 0 then
    if truthy r.bymonth then
      (r.bymonth.getD []).mapM (fun m => Py.slice mrange (some (m - 1)) (some (m + 1)) none)
    else pure [[0, yearlen]]
  else if r.freq == 1 then
    (Py.slice mrange (some (month - 1)) (some (month + 1)) none).bind fun s => pure [s]
  else pure []

theorem buildNwdaymask_some (r : Rule) (yearlen : Int) (mrange wdaymask : List Int) (month : Int)
    (nw0 : Int × Int) (nws : List (Int × Int)) (h : r.bynweekday = some (nw0 :: nws)) :
    buildNwdaymask r yearlen mrange wdaymask month =
      (nwRanges r yearlen mrange month).bind fun ranges =>
        if ranges.isEmpty then .ok none
        else okSome (ranges.foldlM (rangeStep wdaymask (nw0 :: nws)) (List.replicate yearlen.toNat 0)) := by
  unfold buildNwdaymask nwRanges
  rw [h]
  simp only [bind, pure, Except.pure]
  by_cases h0 : r.freq = 0
  · by_cases hm : truthy r.bymonth = true
    · simp only [h0, hm, beq_self_eq_true, if_true]
      congr 1; funext ranges
      by_cases he : ranges.isEmpty = true
      · simp [he]
      · simp only [he, Bool.false_eq_true, if_false, bind_okSome]
        congr 2
    · simp only [h0, hm, beq_self_eq_true, if_true, Bool.false_eq_true, if_false, ok_bind, List.isEmpty_cons, bind_okSome]
      congr 2
  · by_cases h1 : r.freq = 1
    · have h01 : ¬ ((1 : Int) = 0) := by decide
      simp only [h1, beq_iff_eq, h01, if_false, if_true, beq_self_eq_true]
      cases Py.slice mrange (some (month - 1)) (some (month + 1)) none with
      | error e => rfl
      | ok s =>
        simp only [ok_bind, List.isEmpty_cons, Bool.false_eq_true, if_false, bind_okSome]
        congr 2
    · simp [h0, h1]

/-- what `month` holds after the nth-weekday block: `for month in rr._bymonth` REBINDS the parameter, so YEARLY rules
    with BYMONTH and nth weekdays record the last BYMONTH member in `lastmonth` -/
def nwMonth (r : Rule) (month : Int) : Int :=
  if r.freq = 0 ∧ truthy r.bymonth = true then (r.bymonth.getD []).getLast?.getD month else month

theorem rebuild_if4_eq (r : Rule) (month : Int) (mrange : List Int) (yearlen : Int) :
    Gen.rebuild_if4 r month [] mrange yearlen =
      (nwRanges r yearlen mrange month).bind fun rs => .ok (nwMonth r month, rs) := by
  unfold Gen.rebuild_if4 nwRanges nwMonth
  by_cases h0 : r.freq = 0
  · match hm : r.bymonth with
    | none => simp [h0, truthy, pure, Except.pure]
    | some [] => simp [h0, truthy, pure, Except.pure]
    | some (x :: xs) =>
      simp only [h0, truthy, if_true, RrPy.iterO, bind, pure, Except.pure, ok_bind, rebuild_loop5_eq, beq_self_eq_true,
        Option.getD_some, List.nil_append, and_self]
      cases List.mapM (fun m => Py.slice mrange (some (m - 1)) (some (m + 1)) none) (x :: xs) <;> rfl
  · by_cases h1 : r.freq = 1
    · have h01 : ¬ ((1 : Int) = 0) := by decide
      simp only [h1, h01, if_false, if_true, beq_iff_eq, beq_self_eq_true, false_and, bind, pure, Except.pure]
      cases Py.slice mrange (some (month - 1)) (some (month + 1)) none <;> rfl
    · simp [h0, h1, pure, Except.pure]

theorem rebuild_if5_eq (r : Rule) (nwl : List (Int × Int)) (hn : r.bynweekday = some nwl) (ranges : List (List Int))
    (wdaymask : List Int) (yearlen : Int) :
    Gen.rebuild_if5 r ranges none wdaymask yearlen =
      if ranges.isEmpty then .ok none
      else okSome (ranges.foldlM (rangeStep wdaymask nwl) (List.replicate yearlen.toNat 0)) := by
  unfold Gen.rebuild_if5
  by_cases he : ranges.isEmpty = true
  · simp [he, pure, Except.pure]
  · simp only [he, Bool.not_eq_true, Bool.false_eq_true, if_false]
    have he' : ranges.isEmpty = false := by simpa using he
    simp only [he', if_true, RrPy.repeatL, bind, pure, Except.pure, rebuild_loop6_eq r nwl hn, bind_ok_id]

/-- sections 4-6 on a fresh `_iterinfo`: the nth-weekday mask of the model, and the `month` recorded afterwards -/
theorem rebuild_if6_fresh (r : Rule) (month year : Int) (mrange wdaymask : List Int) (yearlen : Int) :
    Gen.rebuild_if6 r month none none mrange none wdaymask yearlen year =
      (buildNwdaymask r yearlen mrange wdaymask month).bind fun nw =>
        .ok (if truthy r.bynweekday = true then nwMonth r month else month, nw) := by
  unfold Gen.rebuild_if6
  match hn : r.bynweekday with
  | none => simp [truthy, buildNwdaymask, hn, pure, Except.pure]
  | some [] => simp [truthy, buildNwdaymask, hn, pure, Except.pure]
  | some (nw0 :: nws) =>
    rw [buildNwdaymask_some r yearlen mrange wdaymask month nw0 nws hn]
    have hne : (some month ≠ (none : Option Int)) := by simp
    simp only [truthy, hne, true_or, and_self, if_true, bind, pure, Except.pure, rebuild_if4_eq,
      rebuild_if5_eq r (nw0 :: nws) hn]
    cases nwRanges r yearlen mrange month with
    | error e => rfl
    | ok rs =>
      simp only [ok_bind]
      by_cases he : rs.isEmpty = true
      · simp [he]
      · simp only [he, Bool.false_eq_true, if_false]
        cases List.foldlM (rangeStep wdaymask (nw0 :: nws)) (List.replicate yearlen.toNat 0) rs <;> rfl

/-! ### the whole of `rebuild` on a fresh `_iterinfo` -/

theorem rebuild_bind (r : Rule) (year month : Int) :
    RRule.rebuild r year month =
      if year < 1 ∨ year > 9999 then .error .ValueError
      else
        (wnomaskOf r year (baseInfo year)).bind fun wno =>
        (buildNwdaymask r (baseInfo year).yearlen (baseInfo year).mrange (baseInfo year).wdaymask month).bind fun nwd =>
        (eastermaskOf r year (baseInfo year)).bind fun em =>
        .ok { baseInfo year with wnomask := wno, nwdaymask := nwd, eastermask := em } := by
  unfold RRule.rebuild
  split
  · rfl
  · split
    · simp only [*, error_bind]
    · simp only [*, ok_bind]
      split
      · simp only [*, error_bind]
      · simp only [*, ok_bind]
        split <;> simp only [*, error_bind, ok_bind]

theorem validDate_jan1 (year : Int) : Cal.validDate year 1 1 = decide (¬ (year < 1 ∨ year > 9999)) := by
  simp [Cal.validDate, Cal.ValidDate, Cal.ValidYMD, Cal.daysInMonth]

/-- **`_iterinfo.rebuild` as written now, called on a fresh `_iterinfo`, is the model's `rebuild`**: the same
    exception or the same twelve slots, with `lastyear = year` and `lastmonth` = the month (the last BYMONTH member for
    YEARLY rules with BYMONTH and nth weekdays — the loop variable of `for month in rr._bymonth` shadows the parameter). -/
theorem gen_rebuild_fresh (r : Rule) (year month : Int) :
    Gen.rebuild r {} year month =
      (RRule.rebuild r year month).bind fun info =>
        .ok (RrPy.II.ofInfo info (some year) (some (if truthy r.bynweekday = true then nwMonth r month else month))) := by
  rw [rebuild_bind]
  unfold Gen.rebuild Gen.rebuild_if3
  have hne : (some year ≠ (none : Option Int)) = True := by simp
  simp only [hne, if_true, RrPy.mkDate, validDate_jan1, bind, pure, Except.pure]
  by_cases hy : year < 1 ∨ year > 9999
  · simp [hy]
  · have h0 := (weekdayOfOrd_range (Cal.toOrdinal year 1 1)).1
    have h1 := (weekdayOfOrd_range (Cal.toOrdinal year 1 1)).2
    have e1 := rebuild_if1_eq (Cal.isLeap year) (Cal.weekdayOfOrd (Cal.toOrdinal year 1 1)) h0 h1
    have e2 : Gen.rebuild_if2 r (Gen.WDAYMASK.drop (Cal.weekdayOfOrd (Cal.toOrdinal year 1 1)).toNat)
        (365 + RrPy.b2i (Cal.isLeap year)) (Cal.weekdayOfOrd (Cal.toOrdinal year 1 1)) year =
        wnomaskOf r year (baseInfo year) := by
      rw [← rebuild_if2_eq r (baseInfo year) year]
      cases hl : Cal.isLeap year <;> simp [baseInfo, hl, RrPy.b2i]
    have e6 : Gen.rebuild_if6 r month none none (if Cal.isLeap year = true then Gen.M366RANGE else Gen.M365RANGE) none
        (Gen.WDAYMASK.drop (Cal.weekdayOfOrd (Cal.toOrdinal year 1 1)).toNat) (365 + RrPy.b2i (Cal.isLeap year)) year =
        (buildNwdaymask r (baseInfo year).yearlen (baseInfo year).mrange (baseInfo year).wdaymask month).bind fun nw =>
          .ok (if truthy r.bynweekday = true then nwMonth r month else month, nw) := by
      rw [← rebuild_if6_fresh r month year]
      cases hl : Cal.isLeap year <;> simp [baseInfo, hl, RrPy.b2i]
    have e7 : Gen.rebuild_if7 r none (365 + RrPy.b2i (Cal.isLeap year)) (Cal.toOrdinal year 1 1) year =
        if truthy r.byeaster = true then eastermaskOf r year (baseInfo year) else .ok none := by
      rw [← rebuild_if7_eq r none (baseInfo year) year]
      cases hl : Cal.isLeap year <;> simp [baseInfo, hl, RrPy.b2i]
    simp only [hy, decide_true, decide_false, not_false_eq_true, if_true, if_false, ok_bind, RrPy.toordinal, RrPy.weekday, e1, e2]
    cases wnomaskOf r year (baseInfo year) with
    | error e => rfl
    | ok wno =>
      simp only [ok_bind, e6]
      cases buildNwdaymask r (baseInfo year).yearlen (baseInfo year).mrange (baseInfo year).wdaymask month with
      | error e => rfl
      | ok nwd =>
        simp only [ok_bind, e7]
        have he : (if truthy r.byeaster = true then eastermaskOf r year (baseInfo year) else Except.ok none) =
            eastermaskOf r year (baseInfo year) := by
          unfold eastermaskOf
          match r.byeaster with
          | none => rfl
          | some [] => rfl
          | some (_ :: _) => rfl
        rw [he]
        cases eastermaskOf r year (baseInfo year) with
        | error e => rfl
        | ok em =>
          simp only [ok_bind, RrPy.II.ofInfo, baseInfo]
          cases Cal.isLeap year <;> cases Cal.isLeap (year + 1) <;> simp [RrPy.b2i]

end RRuleGen
