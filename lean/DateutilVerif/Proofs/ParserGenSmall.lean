/-
  Proofs/ParserGenSmall.lean — the `parserinfo` lookups / `validate` and the small methods of `parser` re-translated from
  /repo's parser/_parser.py on every run (Generated/ParserOps.lean) are EQUAL to the functions of the hand model
  (Model/Parser.lean) the C02 / C14 / C15 theorems are stated about.
-/
import DateutilVerif.Proofs.ParserGenYmd

namespace PGen
open PM Py
set_option linter.unusedSimpArgs false

/-! ### parserinfo -/

theorem info_jump_eq (i : Info) (t : Token) : Gen.P.info_jump i t = .ok (i.isJump t) := rfl
theorem info_pertain_eq (i : Info) (t : Token) : Gen.P.info_pertain i t = .ok (i.isPertain t) := rfl
theorem info_utczone_eq (i : Info) (t : Token) : Gen.P.info_utczone i t = .ok (i.isUtczone t) := rfl

theorem info_weekday_eq (i : Info) (t : Token) : Gen.P.info_weekday i t = .ok (i.weekdayOf t) := by
  unfold Gen.P.info_weekday PM.Info.weekdayOf
  cases lookupLast i.weekdays (lower t) <;> rfl

theorem info_month_eq (i : Info) (t : Token) : Gen.P.info_month i t = .ok (i.monthOf t) := by
  unfold Gen.P.info_month PM.Info.monthOf
  cases lookupLast i.months (lower t) <;> rfl

theorem info_hms_eq (i : Info) (t : Token) : Gen.P.info_hms i t = .ok (i.hmsOf t) := by
  unfold Gen.P.info_hms PM.Info.hmsOf
  cases lookupLast i.hms (lower t) <;> rfl

theorem info_ampm_eq (i : Info) (t : Token) : Gen.P.info_ampm i t = .ok (i.ampmOf t) := by
  unfold Gen.P.info_ampm PM.Info.ampmOf
  cases lookupLast i.ampm (lower t) <;> rfl

theorem info_tzoffset_eq (i : Info) (t : Token) : Gen.P.info_tzoffset i t = .ok (i.tzoffsetOf t) := by
  unfold Gen.P.info_tzoffset PM.Info.tzoffsetOf
  split <;> rfl

/-- with a century of at least 100 (`_century = _year // 100 * 100` of any year from 100 on) `convertyear` of a
    non-negative year is non-negative -/
theorem convertyear_nonneg (c y : Int) (n : Nat) (cs : Bool) (r : Int) (hc : 100 ≤ c)
    (h : Gen.convertyear ⟨c, y⟩ (n : Int) cs = .ok r) : 0 ≤ r := by
  unfold Gen.convertyear at h
  simp only [] at h
  split at h
  · cases h
  · injection h with h
    subst h
    split
    · split
      · omega
      · split <;> omega
    · omega

theorem natOfInt_toNat (r : Int) (h : 0 ≤ r) : PPy.natOfInt r = .ok r.toNat := by
  unfold PPy.natOfInt; simp; omega

/-- the time-zone part of the translated `validate` (everything after the year conversion) -/
def validateTz (self : Info) (res : Res) : R Res :=
    Except.bind (if (((res.tzoffset = (some (0 : Int))) ∧ (¬ (PM.nameTruthy res.tzname = true))) ∨ ((res.tzname = (some (PM.tk "Z"))) ∨ (res.tzname = (some (PM.tk "z"))))) then
      let res := { res with tzname := (some (PM.tk "UTC")) }
      let res := { res with tzoffset := (some (0 : Int)) }
      .ok res
      else
      Except.bind ((if (¬ (res.tzoffset = (some (0 : Int)))) then
          (if (PM.nameTruthy res.tzname = true) then
            Except.bind (PPy.optTok res.tzname) (fun s_5 =>
              Except.bind (Gen.P.info_utczone self s_5) (fun q_6 =>
                .ok (decide (q_6 = true))))
            else .ok false)
          else .ok false)) (fun b_7 =>
        Except.bind (if (b_7 = true) then
          let res := { res with tzoffset := (some (0 : Int)) }
          .ok res
          else
          .ok res) (fun j_8 =>
          let res := j_8
          .ok res))) (fun j_9 =>
      let res := j_9
      .ok res)

theorem validateTz_eq (i : Info) (res : Res) :
    validateTz i res =
      (let noName := res.tzname.isNone || res.tzname == some []
       if (res.tzoffset == some 0 && noName) || res.tzname == some ['Z'] || res.tzname == some ['z'] then
         pure { res with tzname := some (tk "UTC"), tzoffset := some 0 }
       else if res.tzoffset != some 0 && !noName && res.tzname.any i.isUtczone then
         pure { res with tzoffset := some 0 }
       else pure res) := by
  unfold validateTz
  rcases res with ⟨y, mo, d, wd, h, mi, s, us, tzn, tzo, ap, cs⟩
  cases tzn with
  | none =>
    simp [PM.nameTruthy, bind_ok, bind_ite, pure_eq, PM.tk]
  | some t =>
    cases t with
    | nil =>
      simp [PM.nameTruthy, bind_ok, bind_ite, pure_eq, PM.tk]
    | cons a r =>
      simp [PM.nameTruthy, bind_ok, bind_ite, pure_eq, PM.tk, PPy.optTok, info_utczone_eq]
      repeat' split
      all_goals simp_all

/-- `parserinfo.validate` as written now = `PM.validate`, for every parserinfo whose `_century` is at least 100
    (below that `convertyear` can return a negative year, which the model clamps to 0) -/
theorem validate_eq (i : Info) (res : Res) (hc : 100 ≤ i.century) :
    Gen.P.info_validate i res = PM.validate i res := by
  unfold Gen.P.info_validate
  change Except.bind _ (fun j => validateTz i j) = _
  unfold PM.validate
  cases hy : res.year with
  | none =>
    simp [bind_ok, validateTz_eq, bind_eq, pure_eq]
  | some y =>
    simp only [PPy.optNat, bind_ok, ne_eq, reduceCtorEq, not_false_eq_true, if_true]
    cases hcv : Gen.convertyear ⟨i.century, i.year⟩ (y : Int) res.centurySpecified with
    | error e => simp [bind_err, bind_eq]
    | ok r =>
      have hr := convertyear_nonneg _ _ _ _ _ hc hcv
      simp [natOfInt_toNat _ hr, bind_ok, validateTz_eq, bind_eq, pure_eq]

/-! ### the small methods of `parser` -/

/-- `parser._could_be_tzname` as written now = `PM.couldBeTzname` -/
theorem couldBeTzname_eq (i : Info) (hour : Option Nat) (tzname : Option Token) (tzoffset : Option Int) (t : Token) :
    Gen.P.couldBeTzname i hour tzname tzoffset t = .ok (PM.couldBeTzname i hour tzname tzoffset t) := by
  unfold Gen.P.couldBeTzname PM.couldBeTzname
  have hall : decide (∀ (x : Char), x ∈ t → isAsciiUpper x = true) = List.all t isAsciiUpper := by
    rw [Bool.eq_iff_iff]; simp
  cases hour <;> cases tzname <;> cases tzoffset <;> simp [hall]

/-- `parser._ampm_valid` as written now: True exactly where the model's `ampmValid` hands back the hour, the same
    ValueErrors -/
theorem ampmValid_eq (i : Info) (hour ampm : Option Nat) (fuzzy : Bool) :
    Gen.P.ampmValid i hour ampm fuzzy = (PM.ampmValid hour ampm fuzzy).map Option.isSome := by
  unfold Gen.P.ampmValid PM.ampmValid
  cases hour with
  | none => cases fuzzy <;> cases ampm <;> simp [bind_ok, bind_err, Except.map]
  | some h =>
    have h12' : (12 < h) = ¬ (h ≤ 12) := by simp
    by_cases h12 : h ≤ 12 <;> cases fuzzy <;> cases ampm <;>
      simp [bind_ok, bind_err, Except.map, PPy.optNat, h12, h12']

/-- `parser._to_decimal` as written now = `PM.toDecimal` -/
theorem toDecimal_eq (cls : Char → CClass) (i : Info) (t : Token) :
    Gen.P.toDecimal cls i t = PM.toDecimal cls t := by
  unfold Gen.P.toDecimal PM.toDecimal PPy.decimalCtor
  cases numForm cls t with
  | some d => simp [bind_ok, PPy.DecimalV.isFinite, PPy.decFinite]
  | none =>
    simp only []
    by_cases hw : (List.map Char.toLower t == tk "inf" || List.map Char.toLower t == tk "infinity" ||
                List.map Char.toLower t == tk "nan" || List.map Char.toLower t == tk "snan") = true
    · simp only [hw, if_true, bind_ok, PPy.DecimalV.isFinite]; rfl
    · simp only [hw, if_false, bind_err]; rfl

/-- `parser._parse_min_sec` as written now = `PM.parseMinSec` -/
theorem parseMinSec_eq (i : Info) (v : Dec) : Gen.P.parseMinSec i v = PM.parseMinSec v := by
  unfold Gen.P.parseMinSec PM.parseMinSec
  cases hr : v.rem1 with
  | error e => simp [bind_err, bind_eq]
  | ok r => cases hz : r.isZero <;> simp [bind_ok, bind_eq, pure_eq, hz]

theorem splitFirst_dot (t : List Char) : PPy.splitFirst '.' t = PM.splitDot t := by
  induction t with
  | nil => rfl
  | cons c cs ih =>
    unfold PPy.splitFirst PM.splitDot
    rw [ih]

/-- `parser._parsems` as written now = `PM.parsems` -/
theorem parsems_eq (cls : Char → CClass) (i : Info) (v : Token) : Gen.P.parsems cls i v = PM.parsems cls v := by
  unfold Gen.P.parsems PM.parsems PPy.split2
  rw [splitFirst_dot]
  cases hc : v.contains '.'
  · simp [bind_eq, pure_eq, map_eq]
  · simp only [Bool.not_true, Bool.false_eq_true, if_false, not_true_eq_false]
    rcases hs : PM.splitDot v with ⟨a, _ | f⟩
    · simp [bind_err]
    · simp only []
      cases hf : f.contains '.'
      · simp only [Bool.false_eq_true, if_false, bind_ok, PPy.ljust, PM.sl, List.drop_zero, Nat.sub_zero]
        cases PM.pyInt cls a with
        | error e => rfl
        | ok x =>
          cases h2 : PM.pyInt cls (List.take 6 (f ++ List.replicate (6 - f.length) '0')) <;>
            simp [bind_ok, bind_err, bind_eq, pure_eq, h2]
      · simp [bind_err]

/-- `parser._assign_hms` as written now = `PM.assignHms` -/
theorem assignHms_eq (cls : Char → CClass) (i : Info) (res : Res) (t : Token) (hms : Nat) :
    Gen.P.assignHms cls i res t hms = PM.assignHms cls res t hms := by
  unfold Gen.P.assignHms PM.assignHms
  rw [toDecimal_eq]
  cases hv : PM.toDecimal cls t with
  | error e => simp [bind_err, bind_eq]
  | ok v =>
    simp only [bind_ok, bind_eq, pure_eq, parseMinSec_eq, parsems_eq]
    rcases hms with _ | _ | _ | n
    · simp only [if_true]
      cases hr : v.rem1 with
      | error e => simp [bind_err]
      | ok r => cases hz : r.isZero <;> simp [bind_ok, hz, hr]
    · simp
      cases PM.parseMinSec v with
      | error e => simp [bind_err]
      | ok p => rcases p with ⟨m, s⟩; simp [bind_ok]
    · simp
      cases PM.parsems cls t with
      | error e => simp [bind_err]
      | ok p => rcases p with ⟨m, s⟩; simp [bind_ok]
    · simp [bind_ok]

end PGen
