/-
  Proofs/RRuleNthEYM.lean — YEARLY with BYMONTH, nth BYDAY counted inside each listed month, TOGETHER with BYEASTER
  (nth members only = outside D-C01a; offsets −80..250, years 1583..4099).  Both computed masks; argument side reduced
  to `NthYMArgs` by `stripEas`.
-/
import DateutilVerif.Proofs.RRuleNthEMonthly
import DateutilVerif.Proofs.RRuleNthYM

namespace RRule
open Cal

variable {a : Args} {r : Rule}

structure NthEYMArgs (a : Args) : Prop where
  freq : a.freq = 0
  interval : 1 ≤ a.interval
  valid : a.dtstart.Valid
  byweekno : a.byweekno = none
  monthday_nz : ∀ x ∈ a.bymonthday.getD [], x ≠ 0
  months : ∃ lm, a.bymonth = some lm ∧ lm ≠ [] ∧ ∀ m ∈ lm, 1 ≤ m ∧ m ≤ 12
  weekdays : ∃ l, a.byweekday = some l ∧ l ≠ [] ∧ ∀ w ∈ l, (0 ≤ w.1 ∧ w.1 ≤ 6) ∧ w.2 ≠ 0
  easter : ∃ el, a.byeaster = some el ∧ el ≠ [] ∧ ∀ o ∈ el, -80 ≤ o ∧ o ≤ 250

theorem neym_strip (na : NthEYMArgs a) : NthYMArgs (stripEas a) :=
  ⟨na.freq, na.interval, na.valid, na.byweekno, rfl, na.monthday_nz, na.months, na.weekdays⟩

theorem neym_noDay (na : NthEYMArgs a) : noDayParts a = false := by
  obtain ⟨l, hl, _, _⟩ := na.weekdays
  unfold noDayParts; simp [hl]

theorem rebuild_nth_e_ym (hn : NthERule r) (hf : r.freq = 0) (months : List Int)
    (hbm : r.bymonth = some months) (hmne : months ≠ []) (hmb : ∀ m ∈ months, 1 ≤ m ∧ m ≤ 12)
    (nwl : List (Int × Int)) (hne : nwl ≠ [])
    (hnw : r.bynweekday = some nwl) (hok : ∀ wn ∈ nwl, (0 ≤ wn.1 ∧ wn.1 ≤ 6) ∧ wn.2 ≠ 0)
    (el : List Int) (hel : r.byeaster = some el) (hoff : ∀ o ∈ el, -80 ≤ o ∧ o ≤ 250)
    (y m : Int) (hy1 : 1583 ≤ y) (hy2 : y ≤ 4099) :
    ∃ info nmask emask, rebuild r y m = .ok info ∧
      info.nwdaymask = some nmask ∧ (nmask.length : Int) = info.yearlen ∧
      (∀ j : Int, 0 ≤ j → j < info.yearlen →
        Py.getIdx nmask j = .ok (if ∃ m' ∈ months, ∃ wn ∈ nwl, marks info (daysBeforeMonth y m')
            (daysBeforeMonth y m' + daysInMonth y m' - 1) j wn then 1 else 0)) ∧
      info.eastermask = some emask ∧ info.yearlen ≤ (emask.length : Int) ∧
      (∀ j : Int, 0 ≤ j → j < info.yearlen →
        Py.getIdx emask j = .ok (if (info.yearordinal + j - Spec.RRule.easterOrd y) ∈ el then 1 else 0)) := by
  have hw : wnomaskOf r y (baseInfo y) = .ok none := by
    unfold wnomaskOf; have := hn.byweekno
    split
    · rename_i h; rw [h] at this; simp [truthy] at this
    · rfl
  obtain ⟨emask, e1, e2, e3⟩ := eastermaskOf_spec hn.byeaster el hel hoff y hy1 hy2
  obtain ⟨nmask, n1, n2, n3⟩ := nwdaymask_yearly_bymonth (baseInfo_facts r y (by omega) (by omega)) hf months hbm hmne hmb nwl hne hnw hok m
  unfold rebuild
  rw [if_neg (by omega), hw]
  dsimp only
  rw [n1]
  dsimp only
  rw [e1]
  exact ⟨_, nmask, emask, rfl, rfl, n2, n3, rfl, e2, e3⟩

theorem neym_rule (na : NthEYMArgs a) (h : construct a = .ok r) :
    ∃ bh bm bs, r = { nthRuleOf (stripEas a) bh bm bs with byeaster := some (eastersOf a) } := by
  have h0 := construct_stripEas a r h (neym_noDay na) (nthym_noDay (neym_strip na))
  obtain ⟨bh, bm, bs, hr0⟩ := nthym_rule (neym_strip na) h0
  obtain ⟨el, hel, _, _⟩ := na.easter
  obtain ⟨sp, bh', bm', bs', ts, _, _, _, _, _, hr⟩ := construct_ok a r h
  have hbe : r.byeaster = some (eastersOf a) := by rw [hr]; unfold eastersOf; rw [hel]; rfl
  refine ⟨bh, bm, bs, ?_⟩
  have : r = { ({ r with byeaster := none } : Rule) with byeaster := r.byeaster } := rfl
  rw [this, hr0, hbe]

theorem neym_cuts (na : NthEYMArgs a) (h : construct a = .ok r) : CutsAgree a r := by
  obtain ⟨bh, bm, bs, hr⟩ := neym_rule na h
  rw [hr]; exact ⟨rfl, rfl, rfl⟩

theorem neym_nthERule (na : NthEYMArgs a) (h : construct a = .ok r) : NthERule r := by
  obtain ⟨bh, bm, bs, hr⟩ := neym_rule na h
  obtain ⟨el, hel, hne, hoff⟩ := na.easter
  rw [hr]; exact ⟨rfl, (easters_facts a el hel hne hoff).2, rfl⟩

/-- **bridge**: calendar predicate ∧ nth mark in a listed month ∧ Easter clause is `dateOk` -/
theorem neym_bridge (na : NthEYMArgs a) (h : construct a = .ok r) (info : Info) (y m d : Int)
    (hy : 1 ≤ y) (hv : ValidYMD y m d) (hyo : info.yearordinal = toOrdinal y 1 1) :
    (simpleOk r (toOrdinal y m d) &&
      decide (∃ m' ∈ monthsOf (stripEas a), ∃ wn ∈ nwlOf (stripEas a), marks info (daysBeforeMonth y m')
        (daysBeforeMonth y m' + daysInMonth y m' - 1) (toOrdinal y m d - info.yearordinal) wn) &&
      decide ((toOrdinal y m d - Spec.RRule.easterOrd y) ∈ eastersOf a)) = Spec.RRule.dateOk a (toOrdinal y m d) := by
  have h0 := construct_stripEas a r h (neym_noDay na) (nthym_noDay (neym_strip na))
  have hb := nthym_bridge (neym_strip na) h0 info y m d hy hv hyo
  have hs : simpleOk ({ r with byeaster := none } : Rule) (toOrdinal y m d) = simpleOk r (toOrdinal y m d) := rfl
  rw [hs] at hb
  obtain ⟨el, hel, hne, _⟩ := na.easter
  have hfo := fromOrdinal_toOrdinal y m d hy hv
  have hse := specE_year a el hel hne (toOrdinal y m d) y (by rw [hfo])
  rw [dateOk_stripEas a (neym_noDay na) (nthym_noDay (neym_strip na)), hb, hse]

structure NthEYMGood (a : Args) (r : Rule) (k : Nat) (st : State) : Prop where
  facts : YearFacts r st.cur.year st.info
  timeset : st.timeset = Spec.RRule.timesOf a none none none
  year : st.cur.year = a.dtstart.y + k * a.interval
  masks : ∃ nmask emask, st.info.nwdaymask = some nmask ∧ (nmask.length : Int) = st.info.yearlen ∧
    (∀ j : Int, 0 ≤ j → j < st.info.yearlen →
      Py.getIdx nmask j = .ok (if ∃ m' ∈ monthsOf (stripEas a), ∃ wn ∈ nwlOf (stripEas a),
          marks st.info (daysBeforeMonth st.cur.year m')
            (daysBeforeMonth st.cur.year m' + daysInMonth st.cur.year m' - 1) j wn then 1 else 0)) ∧
    st.info.eastermask = some emask ∧ st.info.yearlen ≤ (emask.length : Int) ∧
    (∀ j : Int, 0 ≤ j → j < st.info.yearlen →
      Py.getIdx emask j =
        .ok (if (st.info.yearordinal + j - Spec.RRule.easterOrd st.cur.year) ∈ eastersOf a then 1 else 0))

theorem neym_rebuild (na : NthEYMArgs a) (h : construct a = .ok r) (y m : Int) (hy1 : 1583 ≤ y) (hy2 : y ≤ 4099) :
    ∃ info nmask emask, rebuild r y m = .ok info ∧
      info.nwdaymask = some nmask ∧ (nmask.length : Int) = info.yearlen ∧
      (∀ j : Int, 0 ≤ j → j < info.yearlen →
        Py.getIdx nmask j = .ok (if ∃ m' ∈ monthsOf (stripEas a), ∃ wn ∈ nwlOf (stripEas a),
            marks info (daysBeforeMonth y m') (daysBeforeMonth y m' + daysInMonth y m' - 1) j wn then 1 else 0)) ∧
      info.eastermask = some emask ∧ info.yearlen ≤ (emask.length : Int) ∧
      (∀ j : Int, 0 ≤ j → j < info.yearlen →
        Py.getIdx emask j = .ok (if (info.yearordinal + j - Spec.RRule.easterOrd y) ∈ eastersOf a then 1 else 0)) := by
  have hn := neym_nthERule na h
  obtain ⟨bh, bm, bs, hr⟩ := neym_rule na h
  have hfreq : r.freq = 0 := by rw [hr]; exact na.freq
  have hnw : r.bynweekday = some (nwlOf (stripEas a)) := by rw [hr]
  have hel' : r.byeaster = some (eastersOf a) := by rw [hr]
  have hbm : r.bymonth = some (monthsOf (stripEas a)) := by
    obtain ⟨lm, hlm, _, _⟩ := na.months
    rw [hr]; show (stripEas a).bymonth.map sortedSet = some (monthsOf (stripEas a))
    unfold monthsOf
    show a.bymonth.map sortedSet = some (sortedSet (a.bymonth.getD []))
    rw [hlm]; rfl
  obtain ⟨el, hel, hne', hoff⟩ := na.easter
  obtain ⟨hne, _, hok, _, _⟩ := nthym_nwl (neym_strip na)
  obtain ⟨hmne, _, hmb⟩ := nthym_months (neym_strip na)
  exact rebuild_nth_e_ym hn hfreq _ hbm hmne hmb _ hne hnw hok _ hel' (easters_facts a el hel hne' hoff).1 y m hy1 hy2

theorem neym_results (na : NthEYMArgs a) (h : construct a = .ok r) (k : Nat) (st : State) (hg : NthEYMGood a r k st) :
    ∃ fl pre cands, periodResults r st = .ok (cands, none, fl) ∧ Spec.RRule.sel a (k : Int) = pre ++ cands ∧
      (∀ x ∈ pre, x.micros < Spec.RRule.startMicros a ∧ Spec.RRule.afterUntil a x = false) ∧
      (∀ x ∈ cands, 0 ≤ x.ord ∧ x.ord ≤ maxOrdinal) := by
  have hn := neym_nthERule na h
  obtain ⟨bh, bm, bs, hr⟩ := neym_rule na h
  have hfreq : r.freq = 0 := by rw [hr]; exact na.freq
  have hsp := construct_bysetpos a r h
  have htsok : TsOk st.timeset := by
    have := construct_timeset_ok a r h (by rw [na.freq]; omega)
    rw [hr] at this; rw [hg.timeset]; exact this
  have hyo := hg.facts.yearordinal
  have hyl := hg.facts.yearlen
  have hy1 := hg.facts.year_lo
  have hy2 := hg.facts.year_hi
  have hpos : 1 ≤ toOrdinal st.cur.year 1 1 :=
    toOrdinal_pos _ _ _ hy1 ⟨by omega, by omega, by omega, by have := daysInMonth_bounds st.cur.year 1; omega⟩
  have hend := year_end_le st.cur.year hy2
  have hd : dayset r st.info st.cur = .ok (intRange 0 st.info.yearlen) := dayset_yearly st.cur hfreq
  obtain ⟨nmask, emask, hmask, hmlen, hmspec, hemask, helen, hespec⟩ := hg.masks
  have hfil : ∀ i, 0 ≤ i → i < st.info.yearlen →
      dayFiltered r st.info i = .ok (!(Spec.RRule.dateOk a (st.info.yearordinal + i))) := by
    intro i hi0 hi1
    rw [dayFiltered_nth_e hn hg.facts nmask emask hmask hemask i hi0 hi1 hmlen helen]
    have hgi := hmspec i hi0 hi1
    rw [getIdx_int nmask i hi0 (by omega)] at hgi
    injection hgi with hgi
    have hei := hespec i hi0 hi1
    rw [getIdx_int emask i hi0 (by omega)] at hei
    injection hei with hei
    have hmd := monthDay_spec st.cur.year i hi0 (by rw [← hyl]; exact hi1)
    have hord : st.info.yearordinal + i = toOrdinal st.cur.year
        (monthDayOfYday (isLeap st.cur.year) i).1 (monthDayOfYday (isLeap st.cur.year) i).2 := by
      rw [hyo]; unfold toOrdinal; rw [daysBeforeMonth_1]; omega
    have hbr := neym_bridge na h st.info st.cur.year _ _ hy1 hmd.2 hyo
    rw [← hord] at hbr
    have e : st.info.yearordinal + i - st.info.yearordinal = i := by omega
    rw [e] at hbr
    rw [← hbr, hgi, hei]
    congr 2
    by_cases c : ∃ m' ∈ monthsOf (stripEas a), ∃ wn ∈ nwlOf (stripEas a),
        marks st.info (daysBeforeMonth st.cur.year m')
          (daysBeforeMonth st.cur.year m' + daysInMonth st.cur.year m' - 1) i wn
    · rw [if_pos c, decide_eq_true c]
      by_cases c2 : (st.info.yearordinal + i - Spec.RRule.easterOrd st.cur.year) ∈ eastersOf a
      · rw [if_pos c2, decide_eq_true c2]; rfl
      · rw [if_neg c2, decide_eq_false c2]; rfl
    · rw [if_neg c, decide_eq_false c]
      by_cases c2 : (st.info.yearordinal + i - Spec.RRule.easterOrd st.cur.year) ∈ eastersOf a
      · rw [if_pos c2, decide_eq_true c2]; rfl
      · rw [if_neg c2, decide_eq_false c2]; rfl
  obtain ⟨fl, hres⟩ := periodResults_range_P st (Spec.RRule.dateOk a) hfil (by rw [hsp.1]; exact hsp.2) htsok hd
    (by rw [hyo]; omega) (by rw [hyo, hyl]; exact hend)
  have hspan : Spec.RRule.periodSpan a (k * a.interval) =
      (st.info.yearordinal + 0, st.info.yearordinal + st.info.yearlen, none, none, none) := by
    unfold Spec.RRule.periodSpan
    rw [if_pos (by simp [na.freq])]
    dsimp only
    rw [← hg.year, hyo, hyl, toOrdinal_next_year]; simp
  refine ⟨fl, [], Spec.RRule.sel a (k : Int), ?_, rfl, by simp, ?_⟩
  · rw [hres, hg.timeset, sel_span_sp a k _ _ hspan, hsp.1]
  · intro x hx
    rw [sel_span_sp a k _ _ hspan] at hx
    have := sel_bounds _ _ _ _ x (applySetpos_subset _ _ x hx)
    rw [hyo, hyl] at this; omega

theorem neym_next (na : NthEYMArgs a) (h : construct a = .ok r) (k : Nat) (st : State) (fl : Bool)
    (c : Option Int) (hg : NthEYMGood a r k st) (hlo : 1583 ≤ a.dtstart.y)
    (hy : a.dtstart.y + (k + 1 : Nat) * a.interval ≤ 4099) :
    ∃ st', advance r { st with count := c } fl = .ok st' ∧ NthEYMGood a r (k + 1) st' := by
  obtain ⟨bh, bm, bs, hr⟩ := neym_rule na h
  have hfreq : r.freq = 0 := by rw [hr]; exact na.freq
  have hint : r.interval = a.interval := by rw [hr]; rfl
  have hi := na.interval
  have hyr := hg.year
  have ek : ((k + 1 : Nat) : Int) * a.interval = k * a.interval + a.interval := by
    push_cast; rw [Int.add_mul]; omega
  have hk0 : (0 : Int) ≤ k * a.interval := Int.mul_nonneg (by omega) (by omega)
  have hle : st.cur.year + r.interval ≤ 4099 := by rw [hint]; omega
  obtain ⟨info, nmask, emask, hre, rest⟩ := neym_rebuild na h (st.cur.year + r.interval) st.cur.month
    (by rw [hint]; omega) hle
  have hadv : advance r { st with count := c } fl =
      .ok { cur := { st.cur with year := st.cur.year + r.interval }, info := info,
            timeset := st.timeset, count := c } := by
    unfold advance
    dsimp only
    rw [if_pos (by simp [hfreq]), if_neg (by omega), hre]
  exact ⟨_, hadv, ⟨rebuild_facts r _ _ info hre, hg.timeset, by dsimp only; rw [hyr, hint]; omega, nmask, emask, rest⟩⟩

theorem neym_init (na : NthEYMArgs a) (h : construct a = .ok r) (hlo : 1583 ≤ a.dtstart.y) (hhi : a.dtstart.y ≤ 4099) :
    ∃ st0, init r = .ok st0 ∧ NthEYMGood a r 0 st0 ∧ st0.count = r.count := by
  obtain ⟨bh, bm, bs, hr⟩ := neym_rule na h
  have hfreq : r.freq = 0 := by rw [hr]; exact na.freq
  obtain ⟨info, nmask, emask, hre, rest⟩ := neym_rebuild na h a.dtstart.y a.dtstart.m hlo hhi
  have hd : r.dtstart = { a.dtstart with us := 0 } := by rw [hr]; rfl
  have hf : r.freq < 4 := by omega
  have hts : r.timeset = some (Spec.RRule.timesOf a none none none) := by rw [hr]; rfl
  refine ⟨{ cur := { year := a.dtstart.y, month := a.dtstart.m, day := a.dtstart.d, hour := a.dtstart.hh,
                     minute := a.dtstart.mm, second := a.dtstart.ss, weekday := r.dtstart.weekday },
            info := info, timeset := Spec.RRule.timesOf a none none none, count := r.count }, ?_, ?_, rfl⟩
  · unfold init
    simp only [hd, bind, Except.bind, hre, hts, pure, Except.pure]
    rw [if_pos hf]
    rfl
  · exact ⟨rebuild_facts r _ _ info hre, rfl, by dsimp only; omega, nmask, emask, rest⟩

/-- **`iter_eq_spec`, YEARLY with BYMONTH, nth weekdays counted inside each listed month, and BYEASTER** -/
theorem iter_eq_spec_yearly_bymonth_nth_easter (na : NthEYMArgs a) (h : construct a = .ok r) (n : Nat)
    (hlo : 1583 ≤ a.dtstart.y) (hy : a.dtstart.y + n * a.interval ≤ 4099) :
    (iter r n).1 = Spec.RRule.occ a n := by
  have hi := na.interval
  have hmono : ∀ k : Nat, k ≤ n → (k : Int) * a.interval ≤ n * a.interval := by
    intro k hk; exact Int.mul_le_mul_of_nonneg_right (by omega) (by omega)
  have hn0 : (0 : Int) ≤ n * a.interval := Int.mul_nonneg (by omega) (by omega)
  have sim : Simulation a r n (NthEYMGood a r) := {
    agree := neym_cuts na h
    results := fun k st _ hg => neym_results na h k st hg
    next := fun k st fl c hk hg => neym_next na h k st fl c hg hlo (by have := hmono (k + 1) (by omega); omega) }
  obtain ⟨st0, hinit, hg0, hc0⟩ := neym_init na h hlo (by omega)
  exact iter_refines sim st0 hinit hg0 hc0 n (by omega)

example : NthEYMArgs { freq := 0, dtstart := ⟨2024, 1, 1, 9, 0, 0, 0⟩, bymonth := some [3, 4],
                       byweekday := some [(4, 2), (4, 3), (4, 4), (4, -1)], byeaster := some [-2] } :=
  ⟨rfl, by decide, by decide, rfl, by intro x hx; simp at hx, ⟨[3, 4], rfl, by decide, by decide⟩,
   ⟨[(4, 2), (4, 3), (4, 4), (4, -1)], rfl, by decide, by decide⟩, ⟨[-2], rfl, by decide, by decide⟩⟩

end RRule
