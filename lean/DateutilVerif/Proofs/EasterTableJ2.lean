/- Proofs/EasterTableJ2.lean — `decide +kernel` over every year 2326..4325 (no sampling). -/
import DateutilVerif.Proofs.EasterDefs

namespace C19
theorem tableJ2 : ∀ k : Fin 2000, julianOK (2326 + (k.val : Int)) = true := by decide +kernel
end C19
