/- Proofs/EasterTableJ4.lean — `decide +kernel` over every year 6326..8325 (no sampling). -/
import DateutilVerif.Proofs.EasterDefs

namespace C19
theorem tableJ4 : ∀ k : Fin 2000, julianOK (6326 + (k.val : Int)) = true := by decide +kernel
end C19
