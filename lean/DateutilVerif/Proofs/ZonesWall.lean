/-
  Proofs/ZonesWall.lean — what the model's wall-clock queries compute on a coherent WF zone, by
  index: both folds' utcoffset, is_ambiguous, datetime_exists, resolve_imaginary inside a gap.
-/
import DateutilVerif.Proofs.ZonesCount

namespace TZ
open Spec

section
variable {z : TzFile} {b s : TType} (hc : Coherent z b s)
include hc

theorem Coherent.wallOf_len (f : Bool) : (wallOf z f).length = z.utc.length := by
  cases f
  · exact hc.w0_len
  · exact hc.w1_len

theorem Coherent.ttOf_off' (c : Nat) (hcn : c ≤ z.utc.length) (hcov : Covered z s c) :
    (ttOf z b s c).off = Bo z b c := hc.ttOf_off c hcn hcov

/-- `utcoffset` of a wall reading is the offset of the segment the fold's list selects -/
theorem Coherent.utcoffset_wall (w : Int) (f : Bool)
    (hcov : Covered z s (bisectRight (wallOf z f) w)) :
    utcoffset z ⟨w, f⟩ = .ok (Bo z b (bisectRight (wallOf z f) w)) := by
  have hk : bisectRight (wallOf z f) w ≤ z.utc.length := by
    rw [← hc.wallOf_len f]; exact bisectRight_le _ _
  have h : findTtinfo z ⟨w, f⟩ = some (ttOf z b s (bisectRight (wallOf z f) w)) := by
    unfold findTtinfo; rw [hc.findLastWall_eq]; exact hc.getTtinfo_eq _ hk
  rw [hc.utcoffset_eq _ _ h, hc.ttOf_off' _ hk hcov]

/-- `fromutc` adds the offset of the instant's segment -/
theorem Coherent.fromutc_wall (t : Int) (hcov : Covered z s (bisectRight z.utc t)) :
    ∃ f, fromutc z t = .ok ⟨t + Bo z b (bisectRight z.utc t), f⟩ := by
  have h := hc.fromutc_eq t
  rw [hc.ttOf_off' _ (bisectRight_le _ _) hcov] at h
  exact ⟨_, h⟩

/-- the public `is_ambiguous(dt)` -/
theorem Coherent.isAmbiguous_none (w : Int) :
    isAmbiguousIdx z w none =
      if bisectRight z.wall1 w = bisectRight z.wall0 w then false
      else isAmbiguousIdx z w (some ((bisectRight z.wall1 w : Int) - 1)) := by
  unfold isAmbiguousIdx
  rw [hc.not_empty]
  simp only [Bool.false_eq_true, if_false]
  by_cases h : bisectRight z.wall1 w = bisectRight z.wall0 w
  · rw [if_pos h]; simp [h]
  · rw [if_neg h]
    have : ((bisectRight z.wall1 w : Int) - 1 == (bisectRight z.wall0 w : Int) - 1) = false := by
      simp; omega
    rw [this]; simp

end

section
variable {z : TzFile} {b s : TType} (hc : Coherent z b s) (hwf : WFz z b)
include hc hwf

/-- **is_ambiguous ⇔ the two folds select different segments** -/
theorem Coherent.isAmbiguous_eq (w : Int) :
    isAmbiguous z w = decide (bisectRight z.wall1 w ≠ bisectRight z.wall0 w) := by
  unfold isAmbiguous
  rw [hc.isAmbiguous_none w]
  have hkn : bisectRight z.wall0 w ≤ z.utc.length := by rw [← hc.w0_len]; exact bisectRight_le _ _
  have hk1 := hc.k1_eq hwf w
  obtain ⟨k1, k2⟩ := (hc.count_w0 hwf w _ hkn).mp rfl
  by_cases hP : bisectRight z.wall0 w < z.utc.length ∧ Lo z b (bisectRight z.wall0 w) ≤ w
  · rw [if_pos hP] at hk1
    rw [if_neg (by omega), hk1, hc.isAmbiguousIdx_eq w _ (by omega)]
    have h2 := k2 hP.1
    have h3 := hP.2
    simp only [Nat.add_sub_cancel, Hi, Lo] at h2 h3 ⊢
    rw [A_eq_Bo z b]
    rw [show decide (bisectRight z.wall0 w + 1 ≠ bisectRight z.wall0 w) = true from by simp]
    simp only [Bool.and_eq_true, decide_eq_true_eq]
    refine ⟨by omega, ⟨by omega, by omega⟩, by omega⟩
  · rw [if_neg hP] at hk1
    rw [if_pos hk1]; simp [hk1]

/-- a pre-image's segment reads `w` -/
theorem Coherent.pre_reads (w t : Int) (hp : w = t + Bo z b (bisectRight z.utc t)) :
    (0 < bisectRight z.utc t → Lo z b (bisectRight z.utc t - 1) ≤ w) ∧
    (bisectRight z.utc t < z.utc.length → w < Hi z b (bisectRight z.utc t)) := by
  obtain ⟨c1, c2⟩ := (hc.count_utc hwf t _ (bisectRight_le _ _)).mp rfl
  generalize bisectRight z.utc t = c at *
  refine ⟨fun h0 => ?_, fun hn => ?_⟩
  · have := c1 h0
    have e : c - 1 + 1 = c := by omega
    simp only [Lo, e]; omega
  · have := c2 hn
    simp only [Hi]; omega

/-- `w` has a pre-image iff it is not inside the gap in front of its fold=0 segment -/
theorem Coherent.hasPre_iff (w : Int) :
    (∃ t, w = t + Bo z b (bisectRight z.utc t)) ↔
      (bisectRight z.wall0 w = 0 ∨ Lo z b (bisectRight z.wall0 w - 1) ≤ w) := by
  have hkn : bisectRight z.wall0 w ≤ z.utc.length := by rw [← hc.w0_len]; exact bisectRight_le _ _
  obtain ⟨k1, k2⟩ := (hc.count_w0 hwf w _ hkn).mp rfl
  constructor
  · intro ⟨t, hp⟩
    obtain ⟨r1, _⟩ := hc.pre_reads hwf w t hp
    rcases hc.pre_seg hwf w t hp with e | e
    · rw [e] at r1
      by_cases h0 : bisectRight z.wall0 w = 0
      · exact Or.inl h0
      · exact Or.inr (r1 (by omega))
    · rw [e] at r1
      have hcn := bisectRight_le z.utc t
      by_cases h0 : bisectRight z.wall0 w = 0
      · exact Or.inl h0
      · right
        have := r1 (by omega)
        simp only [Nat.add_sub_cancel] at this
        have m := hc.lo_mono hwf (bisectRight z.wall0 w - 1) (bisectRight z.wall0 w) (by omega) (by omega)
        omega
  · intro h
    refine ⟨w - Bo z b (bisectRight z.wall0 w), ?_⟩
    rw [hc.seg_pre hwf w _ hkn (fun h0 => by rcases h with h | h; omega; exact h) k2]
    omega

/-- **datetime_exists ⇔ a pre-image exists**, for either fold -/
theorem Coherent.exists_eq (w : Int) (f : Bool)
    (hcov0 : Covered z s (bisectRight z.wall0 w)) (hcov1 : Covered z s (bisectRight z.wall1 w)) :
    datetimeExists z.ops ⟨w, f⟩ =
      .ok (decide (bisectRight z.wall0 w = 0 ∨ Lo z b (bisectRight z.wall0 w - 1) ≤ w)) := by
  have hkn : bisectRight z.wall0 w ≤ z.utc.length := by rw [← hc.w0_len]; exact bisectRight_le _ _
  have hk1 := hc.k1_eq hwf w
  obtain ⟨k1, k2⟩ := (hc.count_w0 hwf w _ hkn).mp rfl
  have hcovf : Covered z s (bisectRight (wallOf z f) w) := by cases f <;> assumption
  unfold datetimeExists TzFile.ops
  simp only [hc.utcoffset_wall w f hcovf, bind, Except.bind]
  by_cases hpre : bisectRight z.wall0 w = 0 ∨ Lo z b (bisectRight z.wall0 w - 1) ≤ w
  · -- the selected segment reads w
    have hseg : bisectRight z.utc (w - Bo z b (bisectRight (wallOf z f) w)) = bisectRight (wallOf z f) w := by
      cases f with
      | false =>
          show bisectRight z.utc (w - Bo z b (bisectRight z.wall0 w)) = bisectRight z.wall0 w
          exact hc.seg_pre hwf w _ hkn (fun h0 => by rcases hpre with h | h; omega; exact h) k2
      | true =>
          show bisectRight z.utc (w - Bo z b (bisectRight z.wall1 w)) = bisectRight z.wall1 w
          by_cases hP : bisectRight z.wall0 w < z.utc.length ∧ Lo z b (bisectRight z.wall0 w) ≤ w
          · rw [if_pos hP] at hk1
            rw [hk1]
            apply hc.seg_pre hwf w _ (by omega)
            · intro _; simpa using hP.2
            · intro hn
              have := hc.hi_step hwf _ hn
              have := k2 hP.1
              omega
          · rw [if_neg hP] at hk1
            rw [hk1]
            exact hc.seg_pre hwf w _ hkn (fun h0 => by rcases hpre with h | h; omega; exact h) k2
    obtain ⟨f', hf'⟩ := hc.fromutc_wall (w - Bo z b (bisectRight (wallOf z f) w)) (by rw [hseg]; exact hcovf)
    rw [hf', hseg]
    simp only [pure, Except.pure, decide_eq_true hpre]
    congr 1
    simp
  · -- inside a gap: the instant found is earlier and does not read w
    have hk0 : 0 < bisectRight z.wall0 w := by omega
    have hlt : w < Lo z b (bisectRight z.wall0 w - 1) := by omega
    have hnP : ¬ (bisectRight z.wall0 w < z.utc.length ∧ Lo z b (bisectRight z.wall0 w) ≤ w) := by
      intro ⟨a, c⟩
      have := hc.lo_mono hwf (bisectRight z.wall0 w - 1) (bisectRight z.wall0 w) (by omega) a
      omega
    rw [if_neg hnP] at hk1
    have hkf : bisectRight (wallOf z f) w = bisectRight z.wall0 w := by
      cases f
      · rfl
      · exact hk1
    rw [hkf]
    -- the instant lies strictly before transition k0-1, hence in an earlier (covered) segment
    have hearly : bisectRight z.utc (w - Bo z b (bisectRight z.wall0 w)) < z.utc.length := by
      have hle := bisectRight_le z.utc (w - Bo z b (bisectRight z.wall0 w))
      by_cases e : bisectRight z.utc (w - Bo z b (bisectRight z.wall0 w)) = z.utc.length
      · exfalso
        obtain ⟨c1, _⟩ := (hc.count_utc hwf _ _ hle).mp rfl
        rw [e] at c1
        have a := c1 hc.npos
        have m := hc.utc_sorted hwf
        have e2 : bisectRight z.wall0 w - 1 + 1 = bisectRight z.wall0 w := by omega
        simp only [Lo, e2] at hlt
        by_cases e3 : bisectRight z.wall0 w - 1 = z.utc.length - 1
        · rw [e3] at hlt; simp only [U] at a hlt; omega
        · have := m (bisectRight z.wall0 w - 1) (z.utc.length - 1) (by omega) (by omega)
          simp only [U] at a hlt; omega
      · omega
    obtain ⟨f', hf'⟩ := hc.fromutc_wall (w - Bo z b (bisectRight z.wall0 w)) (Or.inl hearly)
    rw [hf']
    simp only [pure, Except.pure, decide_eq_false hpre]
    congr 1
    simp only [beq_eq_false_iff_ne, ne_eq]
    intro heq
    apply hpre
    exact (hc.hasPre_iff hwf w).mp ⟨w - Bo z b (bisectRight z.wall0 w), by omega⟩

/-- **resolve_imaginary inside a gap** (after the D-C05g repair: the gap is measured by a UTC round trip).
    `w` lies in the gap opened by transition `k-1` (`k` = fold-0 count); the previous transition is at least one gap
    width earlier (UTC) and the next change takes effect (wall clock) at least one gap width after the gap ends.
    Then the result is `w` moved forward by the gap width — ANY width — and it has a pre-image. -/
theorem Coherent.resolve_gap (w : Int) (f : Bool)
    (hk0 : 0 < bisectRight z.wall0 w) (hgap : w < Lo z b (bisectRight z.wall0 w - 1))
    (hnext : bisectRight z.wall0 w < z.utc.length →
      Lo z b (bisectRight z.wall0 w - 1) + (Lo z b (bisectRight z.wall0 w - 1) - Hi z b (bisectRight z.wall0 w - 1))
        ≤ Hi z b (bisectRight z.wall0 w))
    (hprev : 1 < bisectRight z.wall0 w →
      U z (bisectRight z.wall0 w - 2) + (Lo z b (bisectRight z.wall0 w - 1) - Hi z b (bisectRight z.wall0 w - 1))
        ≤ U z (bisectRight z.wall0 w - 1))
    (hcov : Covered z s (bisectRight z.wall0 w)) :
    resolveImaginary z.ops ⟨w, f⟩ =
      .ok ⟨w + (Bo z b (bisectRight z.wall0 w) - Bo z b (bisectRight z.wall0 w - 1)), false⟩ ∧
    ∃ t, w + (Bo z b (bisectRight z.wall0 w) - Bo z b (bisectRight z.wall0 w - 1))
          = t + Bo z b (bisectRight z.utc t) := by
  have hkn : bisectRight z.wall0 w ≤ z.utc.length := by rw [← hc.w0_len]; exact bisectRight_le _ _
  obtain ⟨k1, k2⟩ := (hc.count_w0 hwf w _ hkn).mp rfl
  have hk1 := hc.k1_eq hwf w
  have hnP : ¬ (bisectRight z.wall0 w < z.utc.length ∧ Lo z b (bisectRight z.wall0 w) ≤ w) := by
    intro ⟨a, c⟩
    have := hc.lo_mono hwf (bisectRight z.wall0 w - 1) (bisectRight z.wall0 w) (by omega) a
    omega
  rw [if_neg hnP] at hk1
  have hex := hc.exists_eq hwf w f hcov (by rw [hk1]; exact hcov)
  have hfalse : ¬ (bisectRight z.wall0 w = 0 ∨ Lo z b (bisectRight z.wall0 w - 1) ≤ w) := by omega
  rw [decide_eq_false hfalse] at hex
  -- the offset read for w (either fold) is the NEW one
  have hkf : bisectRight (wallOf z f) w = bisectRight z.wall0 w := by cases f <;> simp [wallOf, hk1]
  have ho : utcoffset z ⟨w, f⟩ = .ok (Bo z b (bisectRight z.wall0 w)) := by
    have := hc.utcoffset_wall w f (by rw [hkf]; exact hcov)
    rw [hkf] at this; exact this
  -- the round trip lands in the segment BEFORE the transition
  have hhi := k1 hk0
  have e1 : bisectRight z.wall0 w - 1 + 1 = bisectRight z.wall0 w := by omega
  have hcnt : bisectRight z.utc (w - Bo z b (bisectRight z.wall0 w)) = bisectRight z.wall0 w - 1 := by
    rw [hc.count_utc hwf _ _ (by omega)]
    refine ⟨fun h0 => ?_, fun _ => ?_⟩
    · have := hprev (by omega)
      have e : bisectRight z.wall0 w - 1 - 1 = bisectRight z.wall0 w - 2 := by omega
      simp only [Lo, Hi, e1] at this hhi ⊢
      rw [e]; omega
    · simp only [Lo, e1] at hgap; omega
  obtain ⟨f', hfu⟩ := hc.fromutc_wall (w - Bo z b (bisectRight z.wall0 w)) (by rw [hcnt]; exact Or.inl (by omega))
  rw [hcnt] at hfu
  have hpos : 0 < Bo z b (bisectRight z.wall0 w) - Bo z b (bisectRight z.wall0 w - 1) := by
    simp only [Lo, Hi, e1] at hgap hhi; omega
  refine ⟨?_, ?_⟩
  · unfold resolveImaginary
    simp only [hex, bind, Except.bind, pure, Except.pure, Bool.false_eq_true, if_false]
    have e2 : (TzFile.ops z).utcoffset = utcoffset z := rfl
    have e3 : (TzFile.ops z).fromutc = fromutc z := rfl
    simp only [e2, e3, ho, hfu]
    congr 2
    unfold Py.iabs
    split <;> omega
  · refine ⟨w + (Bo z b (bisectRight z.wall0 w) - Bo z b (bisectRight z.wall0 w - 1))
              - Bo z b (bisectRight z.wall0 w), ?_⟩
    rw [hc.seg_pre hwf _ _ hkn]
    · omega
    · intro _
      simp only [Lo, Hi, e1] at hhi ⊢
      omega
    · intro hn
      have := hnext hn
      simp only [Lo, Hi, e1] at this hgap hhi ⊢
      omega

end

end TZ
