/-
  Proofs/RRuleWeeklyETail.lean — the 7-day TAIL of the Easter mask, which a WEEKLY period beginning in late December
  reads.  The mask of year `y` marks `easter(y) + offset`; the tail indices `yearlen .. yearlen+5` a week begun in the
  old year can reach are 1..6 January of year `y+1`, which the specification compares with `easter(y+1)`.  Easter
  Sunday lies between day-of-year index 80 (22 March) and `yearlen − 251` (25 April), so
    * the model marks a tail index only for an offset ≥ 251 — never on the class (offsets ≤ 250), and
    * the specification accepts 1..6 January only for an offset in −115..−75.
  Hence for offsets −74..250 both sides agree on the tail (nothing there); for an offset in −80..−75 they differ
  (known finding D-C01d, WEEKLY form: e.g. WEEKLY, WKST=WE, DTSTART 1817-12-31, BYEASTER −75 — the specification has
  1818-01-06 = Easter 1818-03-22 − 75, the model nothing; or DTSTART 1817-12-29, BYEASTER −80 — 1818-01-01).
-/
import DateutilVerif.Proofs.RRuleEFilter

namespace RRule
open Cal

/-- Easter Sunday of a year 1583..4099 lies between 22 March and 25 April -/
theorem easter_yday_range (y : Int) (hy1 : 1583 ≤ y) (hy2 : y ≤ 4099) :
    80 ≤ Spec.RRule.easterOrd y - toOrdinal y 1 1 ∧
    Spec.RRule.easterOrd y - toOrdinal y 1 1 + 251 ≤ daysInYear y := by
  have hw := C19.western_eq_mjb y hy1 hy2
  unfold C19.westernOK at hw
  split at hw
  · rename_i y' m d he
    simp only [Bool.and_eq_true, beq_iff_eq, decide_eq_true_eq, Bool.or_eq_true] at hw
    obtain ⟨⟨⟨⟨hyy, hmd⟩, hv⟩, _⟩, hrange⟩ := hw
    subst hyy
    have heo : Spec.RRule.easterOrd y' = toOrdinal y' m d := by
      unfold Spec.RRule.easterOrd; rw [← hmd]
    rw [heo]
    unfold toOrdinal daysBeforeMonth daysInYear
    rw [show dbmTable 1 = 0 from rfl]
    rcases hrange with ⟨hm, hd⟩ | ⟨hm, hd⟩
    · subst hm; obtain ⟨_, _, _, hd2⟩ := hv
      have : daysInMonth y' 3 = 31 := by unfold daysInMonth; rfl
      simp only [show dbmTable 3 = 59 from rfl]
      cases isLeap y' <;> simp <;> omega
    · subst hm; obtain ⟨_, _, hd1, _⟩ := hv
      simp only [show dbmTable 4 = 90 from rfl]
      cases isLeap y' <;> simp <;> omega
  · cases hw

variable {r : Rule} {y : Int} {info : Info}

open RRule.Tables in
/-- the BY-filter with an Easter mask, over the year and its 7-day tail -/
theorem dayFiltered_easter7 (he : EasterRule r) (f : YearFacts r y info) (mask : List Int)
    (hnw : info.nwdaymask = none) (hm : info.eastermask = some mask) (i : Int) (h0 : 0 ≤ i) (h1 : i < info.yearlen + 7)
    (hlen : info.yearlen + 7 ≤ (mask.length : Int)) :
    dayFiltered r info i =
      .ok (!(simpleOk r (info.yearordinal + i) && (mask[i.toNat]'(by omega) != 0))) := by
  have hlen' : info.yearlen ≤ 366 := by rw [f.yearlen]; unfold daysInYear; split <;> omega
  have hdate := date_of_index y i f.year_lo h0 (by rw [← f.yearlen]; exact h1)
  rw [← f.yearordinal] at hdate
  have hmask : Py.getIdx mask i = .ok (mask[i.toNat]'(by omega)) := getIdx_int mask i h0 (by omega)
  unfold dayFiltered
  rw [mmask_date f i h0 h1, wdaymask_date f i h0 (by omega), mdaymask_date f i h0 h1,
      nmdaymask_date f i h0 h1, hnw, hm]
  simp only [maskMiss, he.byweekno, he.byeaster, Bool.false_eq_true, ↓reduceIte, hmask]
  have hyd : (decide (i < info.yearlen) && !memO (i + 1) r.byyearday && !memO (-info.yearlen + i) r.byyearday ||
      decide (i ≥ info.yearlen) && !memO (i + 1 - info.yearlen) r.byyearday &&
        !memO (-info.nextyearlen + i - info.yearlen) r.byyearday) =
      !(memO (info.yearordinal + i - toOrdinal (fromOrdinal (info.yearordinal + i)).1 1 1 + 1) r.byyearday ||
        memO (info.yearordinal + i - toOrdinal (fromOrdinal (info.yearordinal + i)).1 1 1 + 1 -
              daysInYear (fromOrdinal (info.yearordinal + i)).1 - 1) r.byyearday) := by
    rw [hdate]
    by_cases c : i < info.yearlen
    · have c' : i < daysInYear y := by rw [← f.yearlen]; exact c
      rw [if_pos c']
      have e1 : info.yearordinal + i - toOrdinal y 1 1 + 1 = i + 1 := by rw [f.yearordinal]; omega
      have e2 : i + 1 - daysInYear y - 1 = -info.yearlen + i := by rw [f.yearlen]; omega
      dsimp only
      rw [e1, e2]
      have c2 : ¬ (i ≥ info.yearlen) := by omega
      simp [c, c2]
    · have c' : ¬ i < daysInYear y := by rw [← f.yearlen]; exact c
      rw [if_neg c']
      dsimp only
      have e1 : info.yearordinal + i - toOrdinal (y + 1) 1 1 + 1 = i + 1 - info.yearlen := by
        rw [toOrdinal_next_year, f.yearordinal, f.yearlen]; omega
      have e2 : i + 1 - info.yearlen - daysInYear (y + 1) - 1 = -info.nextyearlen + i - info.yearlen := by
        rw [f.nextyearlen]; omega
      rw [e1, e2]
      have c2 : i ≥ info.yearlen := by omega
      simp [c, c2]
  unfold simpleOk
  rw [hyd]
  generalize memO (info.yearordinal + i - toOrdinal (fromOrdinal (info.yearordinal + i)).1 1 1 + 1) r.byyearday = ya
  generalize memO (info.yearordinal + i - toOrdinal (fromOrdinal (info.yearordinal + i)).1 1 1 + 1 -
              daysInYear (fromOrdinal (info.yearordinal + i)).1 - 1) r.byyearday = yb
  generalize (fromOrdinal (info.yearordinal + i)).2.1 = mo
  generalize (fromOrdinal (info.yearordinal + i)).2.2 = dd
  generalize (fromOrdinal (info.yearordinal + i)).1 = yy
  generalize weekdayOfOrd (info.yearordinal + i) = wd
  generalize (mask[i.toNat]'(by omega)) = mv
  have hbne : (mv != 0) = !(mv == 0) := rfl
  rw [hbne]
  generalize (mv == 0) = mz
  cases truthy r.bymonth <;> cases memO mo r.bymonth <;> cases truthy r.byweekday <;>
    cases memO wd r.byweekday <;> cases r.bymonthday.isEmpty <;> cases r.bynmonthday.isEmpty <;>
    cases r.bymonthday.contains dd <;> cases r.bynmonthday.contains (dd - daysInMonth yy mo - 1) <;>
    cases truthy r.byyearday <;> cases ya <;> cases yb <;> cases mz <;> rfl

/-- `EInv` plus: the six tail entries a week begun in the old year can reach are unmarked -/
def EInvW (r : Rule) (info : Info) : Prop :=
  EInv r info ∧ ∃ mask, info.eastermask = some mask ∧ info.yearlen + 7 ≤ (mask.length : Int) ∧
    ∀ j : Int, info.yearlen ≤ j → j < info.yearlen + 7 → Py.getIdx mask j = .ok 0

theorem rebuild_eW (he : ERule r) (y m : Int) (hy1 : 1583 ≤ y) (hy2 : y ≤ 4099) :
    ∃ info, rebuild r y m = .ok info ∧ EInvW r info := by
  obtain ⟨el, hel⟩ := he.list
  have hoff : ∀ o ∈ el, -80 ≤ o ∧ o ≤ 250 := by
    have := he.offsets; rw [hel] at this; exact this
  obtain ⟨info, hre, hinv⟩ := rebuild_e he y m hy1 hy2
  obtain ⟨info', mask, hre', _, hm, hspec⟩ := rebuild_easter he.easterRule el hel hoff y m hy1 hy2
  rw [hre] at hre'
  injection hre' with hre'
  subst hre'
  have f := rebuild_facts r y m info hre
  have hylen : 365 ≤ info.yearlen := by rw [f.yearlen]; unfold daysInYear; split <;> omega
  have hey := easter_yday_range y hy1 hy2
  refine ⟨info, hre, hinv, mask, hm, ?_, ?_⟩
  · have := getIdx_ok_len mask (info.yearlen + 6) _ (by omega) (hspec (info.yearlen + 6) (by omega) (by omega))
    omega
  · intro j hj0 hj1
    rw [hspec j (by omega) hj1, if_neg]
    intro hmem
    have := (hoff _ hmem).2
    rw [f.yearordinal] at this
    rw [f.yearlen] at hj0
    omega

/-- under `EInvW`, for offsets ≥ −74: the filter of a day of the year or of 1..6 January of the next year (not after
    31 December 4099) is `simpleOk ∧ eclause` -/
theorem dayFiltered_eW (he : ERule r) (h74 : ∀ o ∈ r.byeaster.getD [], -74 ≤ o) (f : YearFacts r y info)
    (inv : EInvW r info) (i : Int) (h0 : 0 ≤ i) (h1 : i < info.yearlen + 6)
    (hord : info.yearordinal + i ≤ emaxOrd) :
    dayFiltered r info i = .ok (!(simpleOk r (info.yearordinal + i) && eclause r (info.yearordinal + i))) := by
  by_cases c : i < info.yearlen
  · exact dayFiltered_e he f inv.1 i h0 c
  · obtain ⟨hinv, mask, hm, hlen, htail⟩ := inv
    rw [dayFiltered_easter7 he.easterRule f mask hinv.1 hm i h0 (by omega) hlen]
    have hgi := htail i (by omega) (by omega)
    rw [getIdx_int mask i h0 (by omega)] at hgi
    injection hgi with hgi
    rw [hgi]
    -- the specification's side: 1..6 January of year y+1 is at most Easter(y+1) − 75
    have hy1 : 1583 ≤ y := year_ge_of_ord y (by rw [← f.yearordinal]; exact hinv.2.1)
    have hy2 : y + 1 ≤ 4099 := by
      by_cases c2 : y + 1 ≤ 4099
      · exact c2
      · exfalso
        have h1' := year_start_mono 4100 (y + 1) (by omega)
        have h3 := emaxOrd_next
        rw [toOrdinal_next_year, ← f.yearordinal, ← f.yearlen] at h1'
        omega
    have hdate := date_of_index y i f.year_lo h0 (by rw [← f.yearlen]; omega)
    rw [if_neg (by rw [← f.yearlen]; exact c), ← f.yearordinal] at hdate
    have hey := easter_yday_range (y + 1) (by omega) hy2
    rw [toOrdinal_next_year, ← f.yearordinal, ← f.yearlen] at hey
    have hecl : eclause r (info.yearordinal + i) = false := by
      unfold eclause
      rw [hdate]
      dsimp only
      cases hq : (r.byeaster.getD []).contains (info.yearordinal + i - Spec.RRule.easterOrd (y + 1)) with
      | false => rfl
      | true =>
        exfalso
        have := h74 _ (List.contains_iff_mem.mp hq)
        omega
    rw [hecl]
    rfl

/-- `fixDay` for an `ERule`: succeeds while the cursor's day number stays inside 1583..4099, and keeps `EInvW` -/
theorem fixDay_ok_eW (he : ERule r) (st : State) (b : Bool) (f : YearFacts r st.cur.year st.info)
    (hm1 : 1 ≤ st.cur.month) (hm12 : st.cur.month ≤ 12) (hd1 : 1 ≤ st.cur.day)
    (hle : curOrd st.cur ≤ emaxOrd) (inv : EInvW r st.info) :
    ∃ st', fixDay r st b = .ok st' ∧ EInvW r st'.info := by
  have hy1 : 1583 ≤ st.cur.year := year_ge_of_ord _ (by rw [← f.yearordinal]; exact inv.1.2.1)
  have hmx := emaxOrd_le
  unfold fixDay
  dsimp only
  split
  · split
    · obtain ⟨⟨y, m, d⟩, hroll⟩ := rollDays_total st.cur.day.toNat st.cur.year st.cur.month st.cur.day
        hm1 hm12 hd1 (by omega) f.year_hi (by unfold curOrd at hle; omega)
      have sp := rollDays_spec st.cur.day.toNat _ _ _ y m d hm1 hm12 hd1 (by omega) hroll
      have hy2 : y ≤ 4099 := year_le_of_ord y m d sp.2.1 (by rw [sp.1]; exact hle)
      obtain ⟨info, hre, hinv⟩ := rebuild_eW he y m (by omega) hy2
      rw [hroll]; dsimp only
      rw [hre]
      exact ⟨_, rfl, hinv⟩
    · exact ⟨_, rfl, inv⟩
  · exact ⟨_, rfl, inv⟩

end RRule
