/-
  Proofs/FactoryTerm.lean — a global variant: every statement executed by any thread strictly
  decreases `measure s`; reference drops and collections leave it unchanged.  Hence every schedule
  executes at most `measure s₀` thread statements (finite scripts ⇒ finite runs), whatever the
  interleaving.  No invariant is needed: the argument is purely about control flow + an
  amortised potential (2 · length of the strong cache) that pays for the `set_cache_size` loop.
-/
import DateutilVerif.Model.Factory

namespace Fact

variable {kd : Kind} {res : Key → Res}

def pcRank : Pc → Nat
  | .idle => 0
  | .xRelX => 1 | .xRet => 1 | .xRel => 2 | .xEvict => 3 | .xLen => 4 | .xTouch => 8
  | .lSdWrite => 9 | .lSdRead => 10 | .lInit => 11 | .lAlloc => 12 | .lTest => 13 | .lGet => 14 | .lAcq => 15
  | .gRetE => 1 | .gRelE => 2 | .gStore => 9 | .gCheck => 10 | .gInit => 11 | .gAlloc => 12 | .gTest => 13
  | .gGet => 14 | .gAcq => 15
  | .sRel => 1 | .sPop => 2 | .sLoop => 3 | .sSet => 4 | .sAcq => 5
  | .cRel => 1 | .cStrong => 2 | .cWeak => 3 | .cAcq => 4
  | .fRet => 1 | .fInit => 2 | .fAlloc => 3
  | .uRet => 1 | .uStore => 2 | .uInit => 3 | .uAlloc => 4 | .uTest => 5

def opCost : Op → Nat
  | .call _ => 17
  | .fresh _ => 4
  | .setSize _ => 6
  | .clear => 5

def thCost (th : Thread) : Nat := pcRank th.pc + (th.todo.map opCost).sum

def measure (s : State) : Nat := 2 * s.g.strong.length + (s.ths.map thCost).sum

theorem touch_len (od : List (Key × Id)) (k : Key) (d : Id) : (touch od k d).length ≤ od.length + 1 := by
  simp only [touch, List.length_append, List.length_cons, List.length_nil]
  have := List.length_filter_le (fun e : Key × Id => e.1 != k) od
  omega

theorem tstep_decreases {t : Tid} {g g' : Glob} {th th' : Thread} (h : tstep kd res t g th = some (g', th')) :
    2 * g'.strong.length + thCost th' < 2 * g.strong.length + thCost th := by
  cases hp : th.pc <;> simp only [tstep, hp] at h
  case idle =>
    cases htd : th.todo with
    | nil => simp [htd] at h
    | cons op rest =>
      cases op <;> simp only [htd] at h <;> (try split at h) <;>
        simp only [Option.some.injEq, Prod.mk.injEq] at h <;> obtain ⟨rfl, rfl⟩ := h <;>
        simp only [thCost, hp, htd, pcRank, List.map_cons, List.sum_cons, opCost] <;>
        (try (cases kd <;> simp only [pcRank])) <;> omega
  case xTouch =>
    split at h
    · simp only [Option.some.injEq, Prod.mk.injEq] at h; obtain ⟨rfl, rfl⟩ := h
      have := touch_len g.strong th.key ‹Id›
      simp only [thCost, hp, pcRank]; omega
    · cases h
  all_goals (try (split at h)) <;> (try (split at h)) <;> (try (split at h)) <;> (try (split at h)) <;>
    (try simp only [Option.some.injEq, Prod.mk.injEq, reduceCtorEq] at h) <;>
    (try (obtain ⟨rfl, rfl⟩ := h)) <;> simp only [thCost, hp, pcRank] <;> (try split) <;>
    (try simp_all only [List.length_cons, List.length_nil]) <;> omega

theorem sum_map_set {α : Type} (f : α → Nat) (l : List α) (t : Nat) (x : α) (h : t < l.length) :
    ((l.set t x).map f).sum + f l[t] = (l.map f).sum + f x := by
  induction l generalizing t with
  | nil => simp at h
  | cons a rest ih =>
    cases t with
    | zero => simp only [List.set_cons_zero, List.map_cons, List.sum_cons, List.getElem_cons_zero]; omega
    | succ n =>
      have := ih n (by simpa using h)
      simp only [List.set_cons_succ, List.map_cons, List.sum_cons, List.getElem_cons_succ]; omega

/-- every statement of every thread strictly decreases the measure -/
theorem step_thr_decreases {s s' : State} {t : Tid} (h : step kd res s (.thr t) = some s') :
    measure s' < measure s := by
  simp only [step] at h
  split at h
  · cases h
  · rename_i th hth
    split at h
    · cases h
    · rename_i g' th' hstep
      cases h
      have hlt : t < s.ths.length := by
        rcases Nat.lt_or_ge t s.ths.length with h1 | h1
        · exact h1
        · rw [List.getElem?_eq_none h1] at hth; cases hth
      have hget : s.ths[t] = th := by
        have := List.getElem?_eq_getElem hlt
        rw [this] at hth; exact Option.some.inj hth
      have h1 := tstep_decreases hstep
      have h2 := sum_map_set thCost s.ths t th' hlt
      rw [hget] at h2
      simp only [measure]
      omega

/-- dropping a reference or collecting a dead weak entry does not change the measure -/
theorem step_env_measure {s s' : State} {l : Label} (hl : ∀ t, l ≠ .thr t) (h : step kd res s l = some s') :
    measure s' = measure s := by
  cases l with
  | thr t => exact absurd rfl (hl t)
  | drop t n =>
    simp only [step] at h
    split at h
    · cases h; rfl
    · cases h
  | collect k =>
    simp only [step] at h
    split at h
    · split at h
      · cases h
      · cases h; rfl
    · cases h

/-- execute a list of labels, each of which must be enabled -/
def runLabels (kd : Kind) (res : Key → Res) : State → List Label → Option State
  | s, [] => some s
  | s, l :: ls => match step kd res s l with
    | none => none
    | some s' => runLabels kd res s' ls

def isThr : Label → Bool
  | .thr _ => true
  | _ => false

/-- any run executes at most `measure s` thread statements -/
theorem run_bounded {s s' : State} {ls : List Label} (h : runLabels kd res s ls = some s') :
    (ls.filter isThr).length + measure s' ≤ measure s := by
  induction ls generalizing s with
  | nil => simp only [runLabels, Option.some.injEq] at h; subst h; simp
  | cons l ls ih =>
    simp only [runLabels] at h
    split at h
    · cases h
    · rename_i s1 hs1
      have := ih h
      cases l with
      | thr t =>
        have hd := step_thr_decreases hs1
        simp only [List.filter_cons, isThr, if_true, List.length_cons]; omega
      | drop t n =>
        have he := step_env_measure (l := .drop t n) (fun _ h => by cases h) hs1
        simp only [List.filter_cons, isThr]; simp; omega
      | collect k =>
        have he := step_env_measure (l := .collect k) (fun _ h => by cases h) hs1
        simp only [List.filter_cons, isThr]; simp; omega

theorem run_reachable {s0 s s' : State} {ls : List Label} (hr : Reachable kd res s0 s)
    (h : runLabels kd res s ls = some s') : Reachable kd res s0 s' := by
  induction ls generalizing s with
  | nil => simp only [runLabels, Option.some.injEq] at h; subst h; exact hr
  | cons l ls ih =>
    simp only [runLabels] at h
    split at h
    · cases h
    · rename_i s1 hs1
      exact ih (Reachable.step hr hs1) h

end Fact
