/-
  Proofs/RRuleEHourly.lean — HOURLY (no BYHOUR) with BYEASTER on the complement of D-C01d (offsets −80..250, visited
  days inside 1583..4099): Proofs/RRuleHourly.lean over the BY-filter abstraction of Proofs/RRuleEFilter.lean.
-/
import DateutilVerif.Proofs.RRuleEFilter
import DateutilVerif.Proofs.RRuleHourly

namespace RRule
open Cal

/-- HOURLY argument sets covered: no BYHOUR, BYMINUTE / BYSECOND members inside 0..59 (outside, the
    generator raises ValueError from `datetime.time` while iterating) -/
structure HourlyEArgs (a : Args) : Prop where
  freq : a.freq = 4
  interval : 1 ≤ a.interval
  valid : a.dtstart.Valid
  byweekno : a.byweekno = none
  easter : ∃ el, a.byeaster = some el ∧ el ≠ [] ∧ ∀ o ∈ el, -80 ≤ o ∧ o ≤ 250
  monthday_nz : ∀ x ∈ a.bymonthday.getD [], x ≠ 0
  byhour : a.byhour = none
  minutes_ok : ∀ x ∈ a.byminute.getD [], 0 ≤ x ∧ x ≤ 59
  seconds_ok : ∀ x ∈ a.bysecond.getD [], 0 ≤ x ∧ x ≤ 59

variable {a : Args} {r : Rule}

theorem hae_dw (ha : HourlyEArgs a) : DWArgs (asDailyE a) :=
  ⟨Or.inr rfl, ha.interval, ha.valid, ha.byweekno, rfl, ha.monthday_nz⟩

abbrev hourlyERuleOf (a : Args) (bm bs : Option (List Int)) : Rule :=
  { freq := a.freq, interval := a.interval, wkst := a.wkst.getD 0,
    dtstart := { a.dtstart with us := 0 }, tz := a.tz, count := a.count, untilDT := a.untilDT,
    bysetpos := a.bysetpos, bymonth := a.bymonth.map sortedSet, bymonthday := bymonthdayOf a,
    bynmonthday := bynmonthdayOf a, byyearday := a.byyearday.map sortedSet,
    byeaster := a.byeaster.map (sortBy ltInt), byweekno := none,
    byweekday := byweekdayOf a, bynweekday := bynweekdayOf a,
    byhour := none, byminute := bm, bysecond := bs, timeset := none }

theorem hlye_rule (ha : HourlyEArgs a) (h : construct a = .ok r) :
    ∃ bm bs, r = hourlyERuleOf a bm bs ∧
      normUnit a.freq 5 a.interval a.dtstart.mm a.byminute 60 = .ok bm ∧
      normUnit a.freq 6 a.interval a.dtstart.ss a.bysecond 60 = .ok bs := by
  obtain ⟨sp, bh, bm, bs, ts, h1, h2, h3, h4, h5, rfl⟩ := construct_ok a r h
  have hsp := (normBysetpos_ok a sp h1).1
  subst hsp
  have hbh : bh = none := by
    unfold normUnit at h2
    rw [ha.byhour] at h2
    dsimp only at h2
    rw [if_neg (by rw [ha.freq]; omega)] at h2
    injection h2 with h2; exact h2.symm
  have hts : ts = none := by
    unfold timesetOf at h5
    rw [if_pos (by rw [ha.freq]; omega)] at h5
    injection h5 with h5; exact h5.symm
  subst hbh hts
  have hne0 : (a.freq == 0) = false := by simp [ha.freq]
  exact ⟨bm, bs, by simp [hourlyERuleOf, hne0, ha.byweekno, bymonthOf], h3, h4⟩

theorem hlye_cuts (ha : HourlyEArgs a) (h : construct a = .ok r) : CutsAgree a r := by
  obtain ⟨bm, bs, hr, _, _⟩ := hlye_rule ha h
  rw [hr]; exact ⟨rfl, rfl, rfl⟩

theorem hlye_erule (ha : HourlyEArgs a) (h : construct a = .ok r) : ERule r := by
  have hd := construct_nth_demoted a r h (by rw [ha.freq]; omega)
  obtain ⟨bm, bs, hr, _, _⟩ := hlye_rule ha h
  rw [hr] at hd ⊢
  refine erule_of a _ ha.easter rfl rfl ?_
  dsimp only at hd ⊢
  rcases hd with hd | hd <;> rw [hd] <;> rfl

/-- **bridge, HOURLY**: the model's filter predicate is the specification's `dateOk` -/
theorem hlye_bridge (ha : HourlyEArgs a) (h : construct a = .ok r) (ord : Int) (ho : 1 ≤ ord) :
    (simpleOk r ord && eclause r ord) = Spec.RRule.dateOk a ord := by
  obtain ⟨bm, bs, hr, _, _⟩ := hlye_rule ha h
  rw [hr]
  exact eOk_eq_dateOk a _ (by rw [ha.freq]; omega) (hae_dw ha) ha.easter rfl rfl rfl rfl rfl rfl ord ho

/-! ### the time set of one hour -/

/-- `__construct_byset`-free units: the hour's time set is the specification's -/
theorem htimeset_spec_e (ha : HourlyEArgs a) (h : construct a = .ok r) (hour : Int) (h0 : 0 ≤ hour) (h1 : hour ≤ 23) :
    htimeset r hour = .ok (Spec.RRule.timesOf a (some hour) none none) ∧
    TsOk (Spec.RRule.timesOf a (some hour) none none) := by
  obtain ⟨bm, bs, hr, h3, h4⟩ := hlye_rule ha h
  have n3 := normUnit_nodup _ _ _ _ _ _ _ h3
  have n4 := normUnit_nodup _ _ _ _ _ _ _ h4
  have m3 := normUnit_mem _ _ _ _ _ _ _ (by rw [ha.freq]; omega) h3
  have m4 := normUnit_mem _ _ _ _ _ _ _ (by rw [ha.freq]; omega) h4
  have hv := ha.valid
  unfold DT.Valid at hv
  have hvm : ∀ x ∈ bm.getD [], 0 ≤ x ∧ x ≤ 59 := by
    intro x hx
    have := (m3 x).mp hx
    cases hb : a.byminute with
    | none => rw [hb] at this; simp at this; omega
    | some l => rw [hb] at this; exact ha.minutes_ok x (by rw [hb]; exact this)
  have hvs : ∀ x ∈ bs.getD [], 0 ≤ x ∧ x ≤ 59 := by
    intro x hx
    have := (m4 x).mp hx
    cases hb : a.bysecond with
    | none => rw [hb] at this; simp at this; omega
    | some l => rw [hb] at this; exact ha.seconds_ok x (by rw [hb]; exact this)
  have hvalid : ∀ t ∈ productHMS [hour] (bm.getD []) (bs.getD []), ValidHMS t := by
    intro t ht
    rw [mem_productHMS] at ht
    obtain ⟨a1, a2, a3⟩ := ht
    simp at a1
    have := hvm _ a2; have := hvs _ a3
    unfold ValidHMS; omega
  have hspec : Spec.RRule.timesOf a (some hour) none none =
      productHMS [hour] (specUnit a.byminute a.dtstart.mm 60) (specUnit a.bysecond a.dtstart.ss 60) := by
    unfold Spec.RRule.timesOf Spec.RRule.restrict Spec.RRule.hours Spec.RRule.minutes Spec.RRule.seconds
      productHMS specUnit
    rw [ha.byhour]
    dsimp only
    rw [if_neg (show ¬ a.freq < 4 by rw [ha.freq]; omega), filter_eq_hour hour h0 h1,
        if_pos (by rw [ha.freq]; omega : a.freq < 5), if_pos (by rw [ha.freq]; omega : a.freq < 6)]
    cases a.byminute <;> cases a.bysecond <;> rfl
  have hsorted := productHMS_sorted [hour] _ _ (by simp) (specUnit_sorted a.byminute a.dtstart.mm 60)
    (specUnit_sorted a.bysecond a.dtstart.ss 60)
  have hsu : ∀ (arg : Option (List Int)) (start bound x : Int), 0 ≤ x → x < bound →
      (x ∈ specUnit arg start bound ↔ x ∈ (match arg with | some l => l | none => [start])) := by
    intro arg start bound x h0 h1
    unfold specUnit
    cases arg with
    | none => rfl
    | some l =>
      simp only [List.mem_filter, mem_intRange, List.contains_iff_mem]
      constructor
      · exact fun h => h.2
      · exact fun h => ⟨⟨h0, h1⟩, h⟩
  have hsu' : ∀ (arg : Option (List Int)) (start bound x : Int), x ∈ specUnit arg start bound →
      x ∈ (match arg with | some l => l | none => [start]) := by
    intro arg start bound x hx
    unfold specUnit at hx
    cases arg with
    | none => exact hx
    | some l =>
      simp only [List.mem_filter, List.contains_iff_mem] at hx
      exact hx.2
  have heq : sortBy ltHMS (productHMS [hour] (bm.getD []) (bs.getD [])) =
      productHMS [hour] (specUnit a.byminute a.dtstart.mm 60) (specUnit a.bysecond a.dtstart.ss 60) := by
    apply sorted_ext strictHMS
    · exact sortBy_pairwise strictHMS _ (fun _ _ => trivial) (productHMS_nodup _ _ _ (by simp) n3 n4)
    · exact hsorted
    · intro t
      rw [mem_sortBy, mem_productHMS, mem_productHMS]
      constructor
      · rintro ⟨a1, a2, a3⟩
        have v2 := hvm _ a2; have v3 := hvs _ a3
        exact ⟨a1, (hsu _ _ 60 _ v2.1 (by omega)).mpr ((m3 _).mp a2), (hsu _ _ 60 _ v3.1 (by omega)).mpr ((m4 _).mp a3)⟩
      · rintro ⟨a1, a2, a3⟩
        exact ⟨a1, (m3 _).mpr (hsu' _ _ _ _ a2), (m4 _).mpr (hsu' _ _ _ _ a3)⟩
  constructor
  · unfold htimeset buildTimeset
    rw [hr]
    dsimp only
    rw [checkTimes_of_valid _ hvalid]
    dsimp only
    rw [heq, hspec]
  · rw [hspec, ← heq]
    refine ⟨sortBy_pairwise strictHMS _ (fun _ _ => trivial) (productHMS_nodup _ _ _ (by simp) n3 n4), ?_⟩
    intro t ht
    rw [mem_sortBy] at ht
    exact hvalid t ht

/-- "the model state at the start of period `k`" for an HOURLY rule -/
structure HourlyEGood (a : Args) (r : Rule) (k : Nat) (st : State) : Prop where
  facts : YearFacts r st.cur.year st.info
  inv : EInv r st.info
  valid : ValidYMD st.cur.year st.cur.month st.cur.day
  hour : 0 ≤ st.cur.hour ∧ st.cur.hour ≤ 23
  idx : curOrd st.cur * 24 + st.cur.hour = Spec.RRule.startOrd a * 24 + a.dtstart.hh + k * a.interval
  timeset : st.timeset = Spec.RRule.timesOf a (some st.cur.hour) none none

theorem hlye_span (ha : HourlyEArgs a) (u ord hour : Int) (k : Nat) (h0 : 0 ≤ hour) (h1 : hour ≤ 23)
    (hu : ord * 24 + hour = Spec.RRule.startOrd a * 24 + a.dtstart.hh + k * a.interval) :
    Spec.RRule.periodSpan a (k * a.interval) = (ord, ord + 1, some hour, none, none) := by
  unfold Spec.RRule.periodSpan
  rw [if_neg (by simp [ha.freq]), if_neg (by simp [ha.freq]), if_neg (by simp [ha.freq]),
      if_neg (by simp [ha.freq]), if_pos (by simp [ha.freq])]
  dsimp only
  rw [← hu]
  have e1 : (ord * 24 + hour) / 24 = ord := by omega
  have e2 : (ord * 24 + hour) % 24 = hour := by omega
  rw [e1, e2]

/-- the model's results of period `k`; the `filtered` flag means that the day is not in the set -/
theorem hlye_results (ha : HourlyEArgs a) (h : construct a = .ok r) (k : Nat) (st : State)
    (hg : HourlyEGood a r k st) (hle : curOrd st.cur ≤ maxOrdinal) :
    ∃ fl, periodResults r st = .ok (Spec.RRule.sel a (k : Int), none, fl) ∧
      (fl = true → Spec.RRule.dateOk a (curOrd st.cur) = false) ∧
      ∀ x ∈ Spec.RRule.sel a (k : Int), 0 ≤ x.ord ∧ x.ord ≤ maxOrdinal := by
  have hw := hlye_erule ha h
  obtain ⟨bm, bs, hr, _, _⟩ := hlye_rule ha h
  have hfreq : r.freq = 4 := by rw [hr]; exact ha.freq
  have hsp := construct_bysetpos a r h
  have htsok : TsOk st.timeset := by rw [hg.timeset]; exact (htimeset_spec_e ha h _ hg.hour.1 hg.hour.2).2
  have hpos : 1 ≤ curOrd st.cur := toOrdinal_pos _ _ _ hg.facts.year_lo hg.valid
  obtain ⟨fl, hres, hflag⟩ := periodResults_day_e hw st hg.facts hg.inv hg.valid (by omega)
    (by rw [hsp.1]; exact hsp.2) htsok hle
  have hbridge : (intRange (curOrd st.cur) (curOrd st.cur + 1)).filter (fun o => simpleOk r o && eclause r o) =
      (intRange (curOrd st.cur) (curOrd st.cur + 1)).filter (Spec.RRule.dateOk a) := by
    apply List.filter_congr
    intro o ho
    exact hlye_bridge ha h o (by have := (mem_intRange _ _ _).mp ho; omega)
  have hspan := hlye_span ha 0 (curOrd st.cur) st.cur.hour k hg.hour.1 hg.hour.2 hg.idx
  have hsel := sel_span_gen a k _ _ _ _ _ hspan
  refine ⟨fl, ?_, ?_, ?_⟩
  · rw [hres, hg.timeset, hsel, hbridge, hsp.1]
  · intro hf
    rw [← hlye_bridge ha h _ hpos]
    exact hflag hf
  · intro x hx
    rw [hsel] at hx
    have := sel_bounds _ _ _ _ x (applySetpos_subset _ _ x hx)
    omega

/-- one `advance`: from hour `hour + X` (after the optional jump `X = s·interval` inside the day) to
    the hour `interval` later -/
theorem hlye_advance_core (ha : HourlyEArgs a) (h : construct a = .ok r) (k : Nat) (st : State) (fl : Bool)
    (c : Option Int) (hg : HourlyEGood a r k st) (s : Nat) (X : Int) (hX : X = s * a.interval)
    (hX0 : 0 ≤ X) (hXle : X ≤ 23 - st.cur.hour)
    (hhour0 : (if fl = true then st.cur.hour + Py.fdiv (23 - st.cur.hour) r.interval * r.interval else st.cur.hour) =
      st.cur.hour + X)
    (hle : curOrd st.cur * 24 + 23 + a.interval < (emaxOrd + 1) * 24) :
    ∃ st', advance r { st with count := c } fl = .ok st' ∧ HourlyEGood a r (k + s + 1) st' := by
  have hw := hlye_erule ha h
  obtain ⟨bm, bs, hr, _, _⟩ := hlye_rule ha h
  have hfreq : r.freq = 4 := by rw [hr]; exact ha.freq
  have hint : r.interval = a.interval := by rw [hr]
  have hbh : r.byhour = none := by rw [hr]
  have hi := ha.interval
  obtain ⟨hm1, hm12, hd1, hd2⟩ := hg.valid
  have hh := hg.hour
  have hidx := hg.idx
  have ek : ((k + s + 1 : Nat) : Int) * a.interval = k * a.interval + X + a.interval := by
    rw [hX]; push_cast; rw [Int.add_mul, Int.add_mul]; omega
  obtain ⟨nd, hnd⟩ : ∃ nd, nd = (st.cur.hour + X + a.interval) / 24 := ⟨_, rfl⟩
  obtain ⟨hr', hhr'⟩ : ∃ hr', hr' = (st.cur.hour + X + a.interval) % 24 := ⟨_, rfl⟩
  have hdm : nd * 24 + hr' = st.cur.hour + X + a.interval ∧ 0 ≤ hr' ∧ hr' ≤ 23 ∧ 0 ≤ nd := by omega
  obtain ⟨hts, _⟩ := htimeset_spec_e ha h hr' hdm.2.1 hdm.2.2.1
  have htn : truthy (none : Option (List Int)) = false := rfl
  unfold advance
  dsimp only
  rw [if_neg (by simp [hfreq]), if_neg (by simp [hfreq]), if_neg (by simp [hfreq]), if_neg (by simp [hfreq]),
      if_pos (by simp [hfreq]), hhour0, hbh, htn]
  simp only [Bool.false_eq_true, ↓reduceIte, Py.divmod, Py.fdiv_pos _ (by decide : (0 : Int) < 24),
    Py.fmod_pos _ (by decide : (0 : Int) < 24), hint]
  rw [← hnd, ← hhr']
  unfold gettimeset
  rw [if_pos (by simp [hfreq]), hts]
  dsimp only
  by_cases hz : nd = 0
  · subst hz
    simp only [ne_eq, not_true_eq_false, ↓reduceIte, decide_false]
    rw [fixDay_false]
    refine ⟨_, rfl, ⟨hg.facts, hg.inv, hg.valid, ⟨hdm.2.1, hdm.2.2.1⟩, ?_, rfl⟩⟩
    dsimp only
    have : curOrd { st.cur with hour := hr' } = curOrd st.cur := rfl
    rw [this, ek]; omega
  · have hnz : (decide (nd ≠ 0)) = true := by simp [hz]
    simp only [ne_eq, hz, not_false_eq_true, ↓reduceIte, decide_true]
    have hcur : curOrd { st.cur with day := st.cur.day + nd, hour := hr' } = curOrd st.cur + nd := by
      unfold curOrd toOrdinal; dsimp only; omega
    obtain ⟨st', hfix, hnw'⟩ := fixDay_ok_e hw
      { cur := { st.cur with day := st.cur.day + nd, hour := hr' }, info := st.info,
        timeset := Spec.RRule.timesOf a (some hr') none none, count := c }
      true hg.facts hm1 hm12 (by dsimp only; omega) (by dsimp only; rw [hcur]; omega) hg.inv
    have sp := fixDay_spec r _ st' hfix hm1 hm12 (by dsimp only; omega) hg.facts
    obtain ⟨e, v, f', eh, _, _, _, ts⟩ := sp
    refine ⟨st', hfix, ⟨f', hnw', v, by rw [eh]; exact ⟨hdm.2.1, hdm.2.2.1⟩, ?_, by rw [ts, eh]⟩⟩
    rw [e, eh]
    dsimp only
    rw [hcur, ek]; omega

/-- a period on the cursor's day, reached by a multiple of INTERVAL inside the day, selects nothing
    when the day is not in the set -/
theorem hlye_skip (ha : HourlyEArgs a) (k : Nat) (st : State) (hg : HourlyEGood a r k st)
    (hno : Spec.RRule.dateOk a (curOrd st.cur) = false) (j : Nat) (hkj : k < j)
    (hj : ((j : Int) - k) * a.interval ≤ 23 - st.cur.hour) : Spec.RRule.sel a (j : Int) = [] := by
  have hi := ha.interval
  have hpos : (0 : Int) ≤ ((j : Int) - k) * a.interval := Int.mul_nonneg (by omega) (by omega)
  have hu : curOrd st.cur * 24 + (st.cur.hour + ((j : Int) - k) * a.interval) =
      Spec.RRule.startOrd a * 24 + a.dtstart.hh + j * a.interval := by
    have := hg.idx
    have e : (j : Int) * a.interval = k * a.interval + ((j : Int) - k) * a.interval := by
      rw [← Int.add_mul]; congr 1; omega
    rw [e]; omega
  have hspan := hlye_span ha 0 (curOrd st.cur) (st.cur.hour + ((j : Int) - k) * a.interval) j
    (by have := hg.hour; omega) (by omega) hu
  rw [sel_span_gen a j _ _ _ _ _ hspan, intRange_one]
  simp only [List.filter_cons, hno, Bool.false_eq_true, ↓reduceIte, List.filter_nil, List.flatMap_nil]
  exact applySetpos_nil _

/-- `advance` reaches a later period, at most 24 further; the periods passed over select nothing -/
theorem hlye_next (ha : HourlyEArgs a) (h : construct a = .ok r) (k : Nat) (st : State) (fl : Bool)
    (c : Option Int) (hg : HourlyEGood a r k st)
    (hfl : fl = true → Spec.RRule.dateOk a (curOrd st.cur) = false)
    (hle : curOrd st.cur * 24 + 23 + a.interval < (emaxOrd + 1) * 24) :
    ∃ st' k', advance r { st with count := c } fl = .ok st' ∧ k < k' ∧ k' ≤ k + 24 ∧ HourlyEGood a r k' st' ∧
      ∀ j : Nat, k < j → j < k' → Spec.RRule.sel a (j : Int) = [] := by
  obtain ⟨bm, bs, hr, _, _⟩ := hlye_rule ha h
  have hint : r.interval = a.interval := by rw [hr]
  have hi := ha.interval
  have hh := hg.hour
  cases fl with
  | false =>
    obtain ⟨st', hadv, hg'⟩ := hlye_advance_core ha h k st false c hg 0 0 (by simp) (by omega) (by omega)
      (by simp) hle
    exact ⟨st', k + 0 + 1, hadv, by omega, by omega, hg', by intro j h1 h2; omega⟩
  | true =>
    have hq0 : 0 ≤ (23 - st.cur.hour) / a.interval := Int.ediv_nonneg (by omega) (by omega)
    have hqX : (23 - st.cur.hour) / a.interval * a.interval ≤ 23 - st.cur.hour := Int.ediv_mul_le _ (by omega)
    have hq1 : (23 - st.cur.hour) / a.interval * 1 ≤ (23 - st.cur.hour) / a.interval * a.interval :=
      Int.mul_le_mul_of_nonneg_left hi hq0
    have hcast : (((23 - st.cur.hour) / a.interval).toNat : Int) = (23 - st.cur.hour) / a.interval :=
      Int.toNat_of_nonneg hq0
    obtain ⟨st', hadv, hg'⟩ := hlye_advance_core ha h k st true c hg ((23 - st.cur.hour) / a.interval).toNat
      ((23 - st.cur.hour) / a.interval * a.interval) (by rw [hcast]) (Int.mul_nonneg hq0 (by omega)) hqX
      (by simp only [↓reduceIte]; rw [Py.fdiv_pos _ (by omega), hint]) hle
    refine ⟨st', k + ((23 - st.cur.hour) / a.interval).toNat + 1, hadv, by omega, by omega, hg', ?_⟩
    intro j h1 h2
    apply hlye_skip ha k st hg (hfl rfl) j h1
    have hjq : (j : Int) - k ≤ (23 - st.cur.hour) / a.interval := by omega
    have := Int.mul_le_mul_of_nonneg_right hjq (show (0 : Int) ≤ a.interval by omega)
    omega

/-- the initial state is the state of period 0 -/
theorem hlye_init (ha : HourlyEArgs a) (h : construct a = .ok r) (hlo : 1583 ≤ a.dtstart.y)
    (hhi : Spec.RRule.startOrd a ≤ emaxOrd) :
    ∃ st0, init r = .ok st0 ∧ HourlyEGood a r 0 st0 ∧ st0.count = r.count := by
  have hw := hlye_erule ha h
  have hv := ha.valid
  have hy2 := start_year_hi a hv hhi
  unfold DT.Valid ValidDate at hv
  obtain ⟨info, hre, hnw⟩ := rebuild_e hw a.dtstart.y a.dtstart.m hlo hy2
  obtain ⟨bm, bs, hr, _, _⟩ := hlye_rule ha h
  have hd : r.dtstart = { a.dtstart with us := 0 } := by rw [hr]
  have hf : r.freq = 4 := by rw [hr]; exact ha.freq
  have hbh : r.byhour = none := by rw [hr]
  obtain ⟨hts, _⟩ := htimeset_spec_e ha h a.dtstart.hh hv.2.1 hv.2.2.1
  refine ⟨{ cur := { year := a.dtstart.y, month := a.dtstart.m, day := a.dtstart.d, hour := a.dtstart.hh,
                     minute := a.dtstart.mm, second := a.dtstart.ss, weekday := r.dtstart.weekday },
            info := info, timeset := Spec.RRule.timesOf a (some a.dtstart.hh) none none, count := r.count }, ?_, ?_, rfl⟩
  · unfold init gettimeset
    have htn : truthy (none : Option (List Int)) = false := rfl
    simp only [hd, bind, Except.bind, hre, hf, hbh, htn, hts, pure, Except.pure]
    rfl
  · refine ⟨rebuild_facts r _ _ info hre, hnw, hv.1.2.2, ⟨hv.2.1, hv.2.2.1⟩, ?_, rfl⟩
    unfold curOrd Spec.RRule.startOrd DT.ordinal; simp

/-- **`iter_eq_spec`, HOURLY with BYEASTER** (no BYHOUR; offsets −80..250, every visited day inside 1583..4099):
    INTERVAL ≥ 1, a valid start, any BYMONTH / BYMONTHDAY (non-zero) / BYYEARDAY / BYDAY / BYMINUTE / BYSECOND
    (members 0..59) / BYSETPOS, any COUNT / UNTIL, no BYWEEKNO.  As in `iter_eq_spec_hourly`, `n` turns of the
    generator's loop correspond to `m` periods with `n ≤ m ≤ 24·n`. -/
theorem iter_eq_spec_hourly_easter (ha : HourlyEArgs a) (h : construct a = .ok r) (n : Nat)
    (hlo : 1583 ≤ a.dtstart.y)
    (hle : Spec.RRule.startOrd a * 24 + a.dtstart.hh + (24 * n + 1) * a.interval + 23 <
      (Cal.toOrdinal 4099 12 31 + 1) * 24) :
    ∃ m, n ≤ m ∧ m ≤ 24 * n ∧ (iter r n).1 = Spec.RRule.occ a m := by
  have hi := ha.interval
  have hmx := emaxOrd_le
  have hle : Spec.RRule.startOrd a * 24 + a.dtstart.hh + (24 * n + 1) * a.interval + 23 < (emaxOrd + 1) * 24 := hle
  have e : ((24 * n + 1 : Nat) : Int) * a.interval = (24 * n : Nat) * a.interval + a.interval := by
    push_cast; rw [Int.add_mul]; omega
  have e' : ((24 : Int) * n + 1) * a.interval = (24 * n : Nat) * a.interval + a.interval := by
    rw [← e]; push_cast; rfl
  rw [e'] at hle
  have hn0 : (0 : Int) ≤ (24 * n : Nat) * a.interval := Int.mul_nonneg (by omega) (by omega)
  have hbound : ∀ k : Nat, k < 24 * n → ∀ st, HourlyEGood a r k st →
      curOrd st.cur * 24 + 23 + a.interval < (emaxOrd + 1) * 24 := by
    intro k hk st hg
    have := hg.idx
    have hh := hg.hour
    have hmono : (k : Int) * a.interval ≤ (24 * n : Nat) * a.interval :=
      Int.mul_le_mul_of_nonneg_right (by omega) (by omega)
    omega
  have sim : SkipSim a r (24 * n) 24 (HourlyEGood a r) := {
    agree := hlye_cuts ha h
    step := by
      intro k st hk hg
      have hb := hbound k hk st hg
      obtain ⟨fl, hres, hflag, hbnd⟩ := hlye_results ha h k st hg (by omega)
      refine ⟨fl, [], Spec.RRule.sel a (k : Int), hres, rfl, by simp, hbnd, ?_⟩
      intro c
      exact hlye_next ha h k st fl c hg hflag hb }
  have hv := ha.valid
  unfold DT.Valid at hv
  obtain ⟨st0, hinit, hg0, hc0⟩ := hlye_init ha h hlo (by omega)
  exact iter_refines_skip sim (by omega) st0 hinit hg0 hc0 n (by omega)

example : HourlyEArgs { freq := 4, dtstart := ⟨2024, 1, 1, 10, 0, 0, 0⟩, byeaster := some [0, 1] } :=
  { freq := rfl, interval := by decide, valid := by decide, byweekno := rfl,
    monthday_nz := by intro x hx; simp at hx,
    easter := ⟨[0, 1], rfl, by simp, by intro o ho; simp at ho; omega⟩,
    byhour := rfl, minutes_ok := by intro x hx; simp at hx, seconds_ok := by intro x hx; simp at hx }

end RRule
