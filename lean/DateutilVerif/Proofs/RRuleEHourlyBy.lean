/-
  Proofs/RRuleEHourlyBy.lean — Proofs/RRuleHourlyBy.lean with BYEASTER (complement of D-C01d: offsets −80..250,
  visited days inside 1583..4099, no BYWEEKNO) instead of "no BYEASTER": the same refinement over the BY-filter
  abstraction of Proofs/RRuleEFilter.lean.  The lemmas of Proofs/RRuleHourlyBy.lean that do not mention the
  argument class are used from there.
-/
import DateutilVerif.Proofs.RRuleEFilter
import DateutilVerif.Proofs.RRuleHourlyBy
import DateutilVerif.Proofs.RRuleEHourly

namespace RRule
open Cal

/-- HOURLY argument sets with BYHOUR (members 0..23; outside, `__mod_distance` can fall off its loop) -/
structure HourlyByEArgs (a : Args) : Prop where
  freq : a.freq = 4
  interval : 1 ≤ a.interval
  valid : a.dtstart.Valid
  byweekno : a.byweekno = none
  easter : ∃ el, a.byeaster = some el ∧ el ≠ [] ∧ ∀ o ∈ el, -80 ≤ o ∧ o ≤ 250
  monthday_nz : ∀ x ∈ a.bymonthday.getD [], x ≠ 0
  hours : ∃ l, a.byhour = some l ∧ ∀ x ∈ l, 0 ≤ x ∧ x ≤ 23
  minutes_ok : ∀ x ∈ a.byminute.getD [], 0 ≤ x ∧ x ≤ 59
  seconds_ok : ∀ x ∈ a.bysecond.getD [], 0 ≤ x ∧ x ≤ 59

variable {a : Args} {r : Rule}

theorem hbe_dw (ha : HourlyByEArgs a) : DWArgs (asDailyE a) :=
  ⟨Or.inr rfl, ha.interval, ha.valid, ha.byweekno, rfl, ha.monthday_nz⟩

abbrev hourlyByERuleOf (a : Args) (bh : List Int) (bm bs : Option (List Int)) : Rule :=
  { freq := a.freq, interval := a.interval, wkst := a.wkst.getD 0,
    dtstart := { a.dtstart with us := 0 }, tz := a.tz, count := a.count, untilDT := a.untilDT,
    bysetpos := a.bysetpos, bymonth := a.bymonth.map sortedSet, bymonthday := bymonthdayOf a,
    bynmonthday := bynmonthdayOf a, byyearday := a.byyearday.map sortedSet,
    byeaster := a.byeaster.map (sortBy ltInt), byweekno := none,
    byweekday := byweekdayOf a, bynweekday := bynweekdayOf a,
    byhour := some bh, byminute := bm, bysecond := bs, timeset := none }

/-- the normalised rule: BYHOUR keeps exactly the listed hours congruent to the start's modulo gcd -/
theorem hbe_rule (ha : HourlyByEArgs a) (h : construct a = .ok r) :
    ∃ bh bm bs, r = hourlyByERuleOf a bh bm bs ∧ bh ≠ [] ∧
      (∀ x, x ∈ bh ↔ x ∈ hoursOf a ∧ (x - a.dtstart.hh) % g24 a = 0) ∧
      normUnit a.freq 5 a.interval a.dtstart.mm a.byminute 60 = .ok bm ∧
      normUnit a.freq 6 a.interval a.dtstart.ss a.bysecond 60 = .ok bs := by
  obtain ⟨sp, bh, bm, bs, ts, h1, h2, h3, h4, h5, rfl⟩ := construct_ok a r h
  have hsp := (normBysetpos_ok a sp h1).1
  subst hsp
  obtain ⟨l, hl, _⟩ := ha.hours
  have hts : ts = none := by
    unfold timesetOf at h5
    rw [if_pos (by rw [ha.freq]; omega)] at h5
    injection h5 with h5; exact h5.symm
  subst hts
  unfold normUnit at h2
  rw [hl] at h2
  dsimp only at h2
  rw [if_pos (by simp [ha.freq])] at h2
  unfold constructByset at h2
  dsimp only at h2
  split at h2
  · rename_i c hc
    split at hc
    · cases hc
    · rename_i hne
      injection hc with hc
      injection h2 with h2
      subst h2
      have hne0 : (a.freq == 0) = false := by simp [ha.freq]
      refine ⟨sortBy ltInt c, bm, bs, by simp [hourlyByERuleOf, hne0, ha.byweekno, bymonthOf], ?_, ?_, h3, h4⟩
      · intro he
        have : c.isEmpty = true := by
          rw [isEmpty_of_mem_iff c (sortBy ltInt c) (fun x => (mem_sortBy ltInt x c).symm), he]; rfl
        rw [← hc] at this
        exact hne this
      · intro x
        rw [mem_sortBy, ← hc, mem_dedup, List.mem_filter]
        have hgp := g24_pos a
        unfold hoursOf
        unfold g24 at hgp ⊢
        rw [hl, Option.getD_some, Py.fmod_pos _ hgp]
        constructor
        · rintro ⟨hx, hcond⟩
          refine ⟨hx, ?_⟩
          simp only [Bool.or_eq_true, beq_iff_eq] at hcond
          rcases hcond with h1 | h1
          · rw [h1]; omega
          · exact h1
        · rintro ⟨hx, hcond⟩
          exact ⟨hx, by simp only [Bool.or_eq_true, beq_iff_eq]; right; exact hcond⟩
  · cases h2

theorem hbe_cuts (ha : HourlyByEArgs a) (h : construct a = .ok r) : CutsAgree a r := by
  obtain ⟨bh, bm, bs, hr, _⟩ := hbe_rule ha h
  rw [hr]; exact ⟨rfl, rfl, rfl⟩

theorem hbe_erule (ha : HourlyByEArgs a) (h : construct a = .ok r) : ERule r := by
  have hd := construct_nth_demoted a r h (by rw [ha.freq]; omega)
  obtain ⟨bh, bm, bs, hr, _, _, _, _⟩ := hbe_rule ha h
  rw [hr] at hd ⊢
  refine erule_of a _ ha.easter rfl rfl ?_
  dsimp only at hd ⊢
  rcases hd with hd | hd <;> rw [hd] <;> rfl

/-- **bridge**: the model's filter predicate is the specification's `dateOk` -/
theorem hbe_bridge (ha : HourlyByEArgs a) (h : construct a = .ok r) (ord : Int) (ho : 1 ≤ ord) :
    (simpleOk r ord && eclause r ord) = Spec.RRule.dateOk a ord := by
  obtain ⟨bh, bm, bs, hr, _, _, _, _⟩ := hbe_rule ha h
  rw [hr]
  exact eOk_eq_dateOk a _ (by rw [ha.freq]; omega) (hbe_dw ha) ha.easter rfl rfl rfl rfl rfl rfl ord ho

/-- the hour's time set: the model's `htimeset`, and the specification's (empty when the hour is not listed) -/
theorem htimeset_hb_e (ha : HourlyByEArgs a) (h : construct a = .ok r) (hour : Int) (h0 : 0 ≤ hour) (h1 : hour ≤ 23) :
    ∃ prod, htimeset r hour = .ok prod ∧ TsOk prod ∧
      Spec.RRule.timesOf a (some hour) none none = (if (hoursOf a).contains hour then prod else []) := by
  obtain ⟨bh, bm, bs, hr, _, _, h3, h4⟩ := hbe_rule ha h
  obtain ⟨l, hl, _⟩ := ha.hours
  have n3 := normUnit_nodup _ _ _ _ _ _ _ h3
  have n4 := normUnit_nodup _ _ _ _ _ _ _ h4
  have m3 := normUnit_mem _ _ _ _ _ _ _ (by rw [ha.freq]; omega) h3
  have m4 := normUnit_mem _ _ _ _ _ _ _ (by rw [ha.freq]; omega) h4
  have hv := ha.valid
  unfold DT.Valid at hv
  have hvm : ∀ x ∈ bm.getD [], 0 ≤ x ∧ x ≤ 59 := by
    intro x hx
    have := (m3 x).mp hx
    cases hb : a.byminute with
    | none => rw [hb] at this; simp at this; omega
    | some l => rw [hb] at this; exact ha.minutes_ok x (by rw [hb]; exact this)
  have hvs : ∀ x ∈ bs.getD [], 0 ≤ x ∧ x ≤ 59 := by
    intro x hx
    have := (m4 x).mp hx
    cases hb : a.bysecond with
    | none => rw [hb] at this; simp at this; omega
    | some l => rw [hb] at this; exact ha.seconds_ok x (by rw [hb]; exact this)
  have hvalid : ∀ t ∈ productHMS [hour] (bm.getD []) (bs.getD []), ValidHMS t := by
    intro t ht
    rw [mem_productHMS] at ht
    obtain ⟨a1, a2, a3⟩ := ht
    simp at a1
    have := hvm _ a2; have := hvs _ a3
    unfold ValidHMS; omega
  have hspec : Spec.RRule.timesOf a (some hour) none none =
      (if (hoursOf a).contains hour
       then productHMS [hour] (specUnit a.byminute a.dtstart.mm 60) (specUnit a.bysecond a.dtstart.ss 60) else []) := by
    unfold Spec.RRule.timesOf Spec.RRule.restrict Spec.RRule.hours Spec.RRule.minutes Spec.RRule.seconds
      productHMS specUnit hoursOf
    rw [hl]
    dsimp only
    rw [List.filter_filter]
    have hf : (intRange 0 24).filter (fun x => (x == hour) && l.contains x) =
        (if l.contains hour then [hour] else []) := by
      have : ∀ x, ((x == hour) && l.contains x) = ((x == hour) && l.contains hour) := by
        intro x
        by_cases c : x = hour
        · subst c; rfl
        · have : (x == hour) = false := by rw [beq_eq_false_iff_ne]; exact c
          rw [this]; rfl
      simp only [this]
      by_cases c : l.contains hour = true
      · simp only [c, Bool.and_true, ↓reduceIte]; exact filter_eq_hour hour h0 h1
      · have c' : l.contains hour = false := by
          cases hq : l.contains hour with
          | false => rfl
          | true => exact absurd hq c
        simp only [c', Bool.and_false, Bool.false_eq_true, ↓reduceIte]
        exact List.filter_eq_nil_iff.mpr (by intro x _; exact Bool.false_ne_true)
    rw [hf, if_pos (by rw [ha.freq]; omega : a.freq < 5), if_pos (by rw [ha.freq]; omega : a.freq < 6)]
    by_cases c : l.contains hour = true
    · simp only [c, ↓reduceIte, Option.getD_some]
      cases a.byminute <;> cases a.bysecond <;> rfl
    · have c' : l.contains hour = false := by
        cases hq : l.contains hour with
        | false => rfl
        | true => exact absurd hq c
      simp only [c', Bool.false_eq_true, ↓reduceIte, Option.getD_some, List.flatMap_nil]
  have hsorted := productHMS_sorted [hour] _ _ (by simp) (specUnit_sorted a.byminute a.dtstart.mm 60)
    (specUnit_sorted a.bysecond a.dtstart.ss 60)
  have hsu : ∀ (arg : Option (List Int)) (start bound x : Int), 0 ≤ x → x < bound →
      (x ∈ specUnit arg start bound ↔ x ∈ (match arg with | some l => l | none => [start])) := by
    intro arg start bound x h0 h1
    unfold specUnit
    cases arg with
    | none => rfl
    | some l =>
      simp only [List.mem_filter, mem_intRange, List.contains_iff_mem]
      constructor
      · exact fun h => h.2
      · exact fun h => ⟨⟨h0, h1⟩, h⟩
  have hsu' : ∀ (arg : Option (List Int)) (start bound x : Int), x ∈ specUnit arg start bound →
      x ∈ (match arg with | some l => l | none => [start]) := by
    intro arg start bound x hx
    unfold specUnit at hx
    cases arg with
    | none => exact hx
    | some l =>
      simp only [List.mem_filter, List.contains_iff_mem] at hx
      exact hx.2
  have heq : sortBy ltHMS (productHMS [hour] (bm.getD []) (bs.getD [])) =
      productHMS [hour] (specUnit a.byminute a.dtstart.mm 60) (specUnit a.bysecond a.dtstart.ss 60) := by
    apply sorted_ext strictHMS
    · exact sortBy_pairwise strictHMS _ (fun _ _ => trivial) (productHMS_nodup _ _ _ (by simp) n3 n4)
    · exact hsorted
    · intro t
      rw [mem_sortBy, mem_productHMS, mem_productHMS]
      constructor
      · rintro ⟨a1, a2, a3⟩
        have v2 := hvm _ a2; have v3 := hvs _ a3
        exact ⟨a1, (hsu _ _ 60 _ v2.1 (by omega)).mpr ((m3 _).mp a2), (hsu _ _ 60 _ v3.1 (by omega)).mpr ((m4 _).mp a3)⟩
      · rintro ⟨a1, a2, a3⟩
        exact ⟨a1, (m3 _).mpr (hsu' _ _ _ _ a2), (m4 _).mpr (hsu' _ _ _ _ a3)⟩
  refine ⟨productHMS [hour] (specUnit a.byminute a.dtstart.mm 60) (specUnit a.bysecond a.dtstart.ss 60), ?_, ?_, hspec⟩
  · unfold htimeset buildTimeset
    rw [hr]
    dsimp only
    rw [checkTimes_of_valid _ hvalid]
    dsimp only
    rw [heq]
  · rw [← heq]
    refine ⟨sortBy_pairwise strictHMS _ (fun _ _ => trivial) (productHMS_nodup _ _ _ (by simp) n3 n4), ?_⟩
    intro t ht
    rw [mem_sortBy] at ht
    exact hvalid t ht

theorem timesOf_hb_ok_e (ha : HourlyByEArgs a) (h : construct a = .ok r) (hour : Int) (h0 : 0 ≤ hour) (h1 : hour ≤ 23) :
    TsOk (Spec.RRule.timesOf a (some hour) none none) := by
  obtain ⟨prod, _, hok, hspec⟩ := htimeset_hb_e ha h hour h0 h1
  rw [hspec]; split
  · exact hok
  · exact tsOk_nil

theorem hbe_span (ha : HourlyByEArgs a) (ord hour : Int) (k : Nat) (h0 : 0 ≤ hour) (h1 : hour ≤ 23)
    (hu : ord * 24 + hour = Spec.RRule.startOrd a * 24 + a.dtstart.hh + k * a.interval) :
    Spec.RRule.periodSpan a (k * a.interval) = (ord, ord + 1, some hour, none, none) := by
  unfold Spec.RRule.periodSpan
  rw [if_neg (by simp [ha.freq]), if_neg (by simp [ha.freq]), if_neg (by simp [ha.freq]),
      if_neg (by simp [ha.freq]), if_pos (by simp [ha.freq])]
  dsimp only
  rw [← hu]
  have e1 : (ord * 24 + hour) / 24 = ord := by omega
  have e2 : (ord * 24 + hour) % 24 = hour := by omega
  rw [e1, e2]

theorem hbe_results (ha : HourlyByEArgs a) (h : construct a = .ok r) (k : Nat) (st : State)
    (hg : HourlyEGood a r k st) (hle : curOrd st.cur ≤ maxOrdinal) :
    ∃ fl, periodResults r st = .ok (Spec.RRule.sel a (k : Int), none, fl) ∧
      (fl = true → Spec.RRule.dateOk a (curOrd st.cur) = false) ∧
      ∀ x ∈ Spec.RRule.sel a (k : Int), 0 ≤ x.ord ∧ x.ord ≤ maxOrdinal := by
  have hw := hbe_erule ha h
  obtain ⟨bh, bm, bs, hr, _⟩ := hbe_rule ha h
  have hfreq : r.freq = 4 := by rw [hr]; exact ha.freq
  have hsp := construct_bysetpos a r h
  have htsok : TsOk st.timeset := by rw [hg.timeset]; exact timesOf_hb_ok_e ha h _ hg.hour.1 hg.hour.2
  have hpos : 1 ≤ curOrd st.cur := toOrdinal_pos _ _ _ hg.facts.year_lo hg.valid
  obtain ⟨fl, hres, hflag⟩ := periodResults_day_e hw st hg.facts hg.inv hg.valid (by omega)
    (by rw [hsp.1]; exact hsp.2) htsok hle
  have hbridge : (intRange (curOrd st.cur) (curOrd st.cur + 1)).filter (fun o => simpleOk r o && eclause r o) =
      (intRange (curOrd st.cur) (curOrd st.cur + 1)).filter (Spec.RRule.dateOk a) := by
    apply List.filter_congr
    intro o ho
    exact hbe_bridge ha h o (by have := (mem_intRange _ _ _).mp ho; omega)
  have hspan := hbe_span ha (curOrd st.cur) st.cur.hour k hg.hour.1 hg.hour.2 hg.idx
  have hsel := sel_span_gen a k _ _ _ _ _ hspan
  refine ⟨fl, ?_, ?_, ?_⟩
  · rw [hres, hg.timeset, hsel, hbridge, hsp.1]
  · intro hf
    rw [← hbe_bridge ha h _ hpos]
    exact hflag hf
  · intro x hx
    rw [hsel] at hx
    have := sel_bounds _ _ _ _ x (applySetpos_subset _ _ x hx)
    omega

/-- a grid hour that is not listed selects nothing -/
theorem hbe_skip_hour (ha : HourlyByEArgs a) (h : construct a = .ok r) (j : Nat) (ord hour : Int)
    (h0 : 0 ≤ hour) (h1 : hour ≤ 23)
    (hu : ord * 24 + hour = Spec.RRule.startOrd a * 24 + a.dtstart.hh + j * a.interval)
    (hno : (hoursOf a).contains hour = false) : Spec.RRule.sel a (j : Int) = [] := by
  obtain ⟨prod, _, _, hspec⟩ := htimeset_hb_e ha h hour h0 h1
  rw [hno] at hspec
  simp only [Bool.false_eq_true, ↓reduceIte] at hspec
  rw [sel_span_gen a j _ _ _ _ _ (hbe_span ha ord hour j h0 h1 hu), hspec]
  have : ∀ (l : List Int), l.flatMap (fun o => ([].map (mkInst o) : List Inst)) = [] := by
    intro l; induction l with
    | nil => rfl
    | cons x xs ih => rw [List.flatMap_cons, ih]; rfl
  rw [this]
  exact applySetpos_nil _

/-- a grid hour on a day that is not in the set selects nothing -/
theorem hbe_skip_day (ha : HourlyByEArgs a) (k : Nat) (st : State) (hg : HourlyEGood a r k st)
    (hno : Spec.RRule.dateOk a (curOrd st.cur) = false) (j : Nat) (hkj : k < j)
    (hj : ((j : Int) - k) * a.interval ≤ 23 - st.cur.hour) : Spec.RRule.sel a (j : Int) = [] := by
  have hi := ha.interval
  have hpos : (0 : Int) ≤ ((j : Int) - k) * a.interval := Int.mul_nonneg (by omega) (by omega)
  have hu : curOrd st.cur * 24 + (st.cur.hour + ((j : Int) - k) * a.interval) =
      Spec.RRule.startOrd a * 24 + a.dtstart.hh + j * a.interval := by
    have := hg.idx
    have e : (j : Int) * a.interval = k * a.interval + ((j : Int) - k) * a.interval := by
      rw [← Int.add_mul]; congr 1; omega
    rw [e]; omega
  have hspan := hbe_span ha (curOrd st.cur) (st.cur.hour + ((j : Int) - k) * a.interval) j
    (by have := hg.hour; omega) (by omega) hu
  rw [sel_span_gen a j _ _ _ _ _ hspan, intRange_one]
  simp only [List.filter_cons, hno, Bool.false_eq_true, ↓reduceIte, List.filter_nil, List.flatMap_nil]
  exact applySetpos_nil _

/-- one `advance`: the optional jump `X = s0·interval` inside the day, then `__mod_distance` to the least
    listed grid hour, `s ≤ 24` steps further -/
theorem hbe_advance_core (ha : HourlyByEArgs a) (h : construct a = .ok r) (k : Nat) (st : State) (fl : Bool)
    (c : Option Int) (hg : HourlyEGood a r k st) (s0 : Nat) (X : Int) (hX : X = s0 * a.interval)
    (hX0 : 0 ≤ X) (hXle : X ≤ 23 - st.cur.hour)
    (hhour0 : (if fl = true then st.cur.hour + Py.fdiv (23 - st.cur.hour) r.interval * r.interval else st.cur.hour) =
      st.cur.hour + X)
    (hle : curOrd st.cur * 24 + 23 + 24 * a.interval < (emaxOrd + 1) * 24) :
    ∃ (st' : State) (s : Nat), 1 ≤ s ∧ s ≤ 24 ∧ advance r { st with count := c } fl = .ok st' ∧
      HourlyEGood a r (k + s0 + s) st' ∧
      ∀ t : Nat, 1 ≤ t → t < s → (hoursOf a).contains ((st.cur.hour + X + t * a.interval) % 24) = false := by
  have hw := hbe_erule ha h
  obtain ⟨bh, bm, bs, hr, hbne, hbmem, _, _⟩ := hbe_rule ha h
  obtain ⟨l, hl, hlr⟩ := ha.hours
  have hfreq : r.freq = 4 := by rw [hr]; exact ha.freq
  have hint : r.interval = a.interval := by rw [hr]
  have hbh : r.byhour = some bh := by rw [hr]
  have hi := ha.interval
  obtain ⟨hm1, hm12, hd1, hd2⟩ := hg.valid
  have hh := hg.hour
  have hidx := hg.idx
  have htr : truthy (some bh) = true := by
    cases bh with
    | nil => exact absurd rfl hbne
    | cons _ _ => rfl
  -- the value before `__mod_distance` is on the orbit
  have ek0 : ((k + s0 : Nat) : Int) * a.interval = k * a.interval + X := by
    rw [hX]; push_cast; rw [Int.add_mul]
  have hW : (st.cur.hour + X - a.dtstart.hh) % g24 a = 0 :=
    orbit_cong a (curOrd st.cur) (st.cur.hour + X) ((k + s0 : Nat) : Int) (by rw [ek0]; omega)
  have hcontains : ∀ v, bh.contains v = true ↔ v ∈ bh := fun v => List.contains_iff_mem
  rcases modDistance_exact a.interval bh 24 (by omega) 24 0 (st.cur.hour + X) with
    ⟨s, hs1, hs2, hs3, hs4, hs5⟩ | ⟨hnone, _⟩
  · -- found
    obtain ⟨nd, hnd⟩ : ∃ nd, nd = (st.cur.hour + X + (s : Int) * a.interval) / 24 := ⟨_, rfl⟩
    obtain ⟨hr', hhr'⟩ : ∃ hr', hr' = (st.cur.hour + X + (s : Int) * a.interval) % 24 := ⟨_, rfl⟩
    have hsi : (0 : Int) ≤ (s : Int) * a.interval := Int.mul_nonneg (by omega) (by omega)
    have hsi2 : (s : Int) * a.interval ≤ 24 * a.interval :=
      Int.mul_le_mul_of_nonneg_right (by omega) (by omega)
    have hdm : nd * 24 + hr' = st.cur.hour + X + (s : Int) * a.interval ∧ 0 ≤ hr' ∧ hr' ≤ 23 ∧ 0 ≤ nd := by omega
    rw [← hhr'] at hs3
    have hin : hr' ∈ hoursOf a := ((hbmem hr').mp ((hcontains hr').mp hs3)).1
    obtain ⟨prod, hts, _, hspec⟩ := htimeset_hb_e ha h hr' hdm.2.1 hdm.2.2.1
    have hc2 : (hoursOf a).contains hr' = true := List.contains_iff_mem.mpr hin
    rw [hc2] at hspec
    simp only [↓reduceIte] at hspec
    have ek : ((k + s0 + s : Nat) : Int) * a.interval = k * a.interval + X + (s : Int) * a.interval := by
      rw [hX]; push_cast; rw [Int.add_mul, Int.add_mul]
    have hadv : ∃ st', advance r { st with count := c } fl = .ok st' ∧ HourlyEGood a r (k + s0 + s) st' := by
      unfold advance
      dsimp only
      rw [if_neg (by simp [hfreq]), if_neg (by simp [hfreq]), if_neg (by simp [hfreq]), if_neg (by simp [hfreq]),
          if_pos (by simp [hfreq]), hhour0, hbh, htr]
      simp only [↓reduceIte, Option.getD_some, hint]
      rw [hs5]
      dsimp only
      rw [Int.zero_add, ← hnd, ← hhr']
      unfold gettimeset
      rw [if_pos (by simp [hfreq]), hts]
      dsimp only
      by_cases hz : nd = 0
      · subst hz
        simp only [ne_eq, not_true_eq_false, ↓reduceIte, decide_false]
        rw [fixDay_false]
        refine ⟨_, rfl, ⟨hg.facts, hg.inv, hg.valid, ⟨hdm.2.1, hdm.2.2.1⟩, ?_, by dsimp only; rw [hspec]⟩⟩
        dsimp only
        have : curOrd { st.cur with hour := hr' } = curOrd st.cur := rfl
        rw [this, ek]; omega
      · simp only [ne_eq, hz, not_false_eq_true, ↓reduceIte, decide_true]
        have hcur : curOrd { st.cur with day := st.cur.day + nd, hour := hr' } = curOrd st.cur + nd := by
          unfold curOrd toOrdinal; dsimp only; omega
        obtain ⟨st', hfix, hnw'⟩ := fixDay_ok_e hw
          { cur := { st.cur with day := st.cur.day + nd, hour := hr' }, info := st.info,
            timeset := prod, count := c }
          true hg.facts hm1 hm12 (by dsimp only; omega) (by dsimp only; rw [hcur]; omega) hg.inv
        have sp := fixDay_spec r _ st' hfix hm1 hm12 (by dsimp only; omega) hg.facts
        obtain ⟨e, v, f', eh, _, _, _, ts⟩ := sp
        refine ⟨st', hfix, ⟨f', hnw', v, by rw [eh]; exact ⟨hdm.2.1, hdm.2.2.1⟩, ?_, by rw [ts, eh]; dsimp only; rw [hspec]⟩⟩
        rw [e, eh]
        dsimp only
        rw [hcur, ek]; omega
    obtain ⟨st', hadv', hg'⟩ := hadv
    refine ⟨st', s, hs1, hs2, hadv', hg', ?_⟩
    intro t ht1 ht2
    have hnb := hs4 t ht1 ht2
    cases hq : (hoursOf a).contains ((st.cur.hour + X + (t : Int) * a.interval) % 24) with
    | false => rfl
    | true =>
      exfalso
      have hmem : (st.cur.hour + X + (t : Int) * a.interval) % 24 ∈ bh :=
        (hbmem _).mpr ⟨List.contains_iff_mem.mp hq, on_orbit a _ _ hW⟩
      rw [(hcontains _).mpr hmem] at hnb
      cases hnb
  · -- "falls off the loop" is impossible: a listed hour on the orbit is reached within 24 steps
    exfalso
    obtain ⟨x, hx⟩ : ∃ x, x ∈ bh := by
      cases bh with
      | nil => exact absurd rfl hbne
      | cons x _ => exact ⟨x, List.mem_cons_self ..⟩
    obtain ⟨hxl, hxc⟩ := (hbmem x).mp hx
    have hxr : 0 ≤ x ∧ x ≤ 23 := hlr x (by unfold hoursOf at hxl; rw [hl] at hxl; exact hxl)
    have hdiff : (x - (st.cur.hour + X)) % g24 a = 0 := by
      have d1 := Int.dvd_of_emod_eq_zero hxc
      have d2 := Int.dvd_of_emod_eq_zero hW
      have e : x - (st.cur.hour + X) = (x - a.dtstart.hh) - (st.cur.hour + X - a.dtstart.hh) := by omega
      rw [e]; exact Int.emod_eq_zero_of_dvd (Int.dvd_sub d1 d2)
    obtain ⟨s, hs1, hs2, hs3⟩ := reach24 a.interval (st.cur.hour + X) x hxr hdiff
    have := hnone s hs1 hs2
    rw [hs3, (hcontains x).mpr hx] at this
    cases this

theorem hbe_next (ha : HourlyByEArgs a) (h : construct a = .ok r) (k : Nat) (st : State) (fl : Bool)
    (c : Option Int) (hg : HourlyEGood a r k st)
    (hfl : fl = true → Spec.RRule.dateOk a (curOrd st.cur) = false)
    (hle : curOrd st.cur * 24 + 23 + 24 * a.interval < (emaxOrd + 1) * 24) :
    ∃ st' k', advance r { st with count := c } fl = .ok st' ∧ k < k' ∧ k' ≤ k + 48 ∧ HourlyEGood a r k' st' ∧
      ∀ j : Nat, k < j → j < k' → Spec.RRule.sel a (j : Int) = [] := by
  obtain ⟨bh, bm, bs, hr, _⟩ := hbe_rule ha h
  have hint : r.interval = a.interval := by rw [hr]
  have hi := ha.interval
  have hh := hg.hour
  -- the periods after the jump, up to the one reached, are unlisted hours
  have htail : ∀ (s0 : Nat) (X : Int), X = s0 * a.interval → ∀ (s : Nat),
      (∀ t : Nat, 1 ≤ t → t < s → (hoursOf a).contains ((st.cur.hour + X + t * a.interval) % 24) = false) →
      ∀ j : Nat, k + s0 < j → j < k + s0 + s → Spec.RRule.sel a (j : Int) = [] := by
    intro s0 X hX s hmin j hj1 hj2
    have ht := hmin (j - k - s0) (by omega) (by omega)
    have ecast : (((j - k - s0 : Nat)) : Int) = (j : Int) - k - s0 := by omega
    rw [ecast] at ht
    generalize hV : st.cur.hour + X + ((j : Int) - k - s0) * a.interval = V at ht
    apply hbe_skip_hour ha h j (curOrd st.cur + V / 24) (V % 24) (by omega) (by omega) ?_ ht
    have := hg.idx
    have e : (j : Int) * a.interval = k * a.interval + X + ((j : Int) - k - s0) * a.interval := by
      rw [hX, ← Int.add_mul, ← Int.add_mul]; congr 1; omega
    rw [e]; omega
  cases fl with
  | false =>
    obtain ⟨st', s, hs1, hs2, hadv, hg', hmin⟩ := hbe_advance_core ha h k st false c hg 0 0 (by simp) (by omega)
      (by omega) (by simp) hle
    refine ⟨st', k + 0 + s, hadv, by omega, by omega, hg', ?_⟩
    intro j h1 h2
    exact htail 0 0 (by simp) s hmin j (by omega) (by omega)
  | true =>
    have hq0 : 0 ≤ (23 - st.cur.hour) / a.interval := Int.ediv_nonneg (by omega) (by omega)
    have hqX : (23 - st.cur.hour) / a.interval * a.interval ≤ 23 - st.cur.hour := Int.ediv_mul_le _ (by omega)
    have hq1 : (23 - st.cur.hour) / a.interval * 1 ≤ (23 - st.cur.hour) / a.interval * a.interval :=
      Int.mul_le_mul_of_nonneg_left hi hq0
    have hcast : (((23 - st.cur.hour) / a.interval).toNat : Int) = (23 - st.cur.hour) / a.interval :=
      Int.toNat_of_nonneg hq0
    obtain ⟨st', s, hs1, hs2, hadv, hg', hmin⟩ := hbe_advance_core ha h k st true c hg
      ((23 - st.cur.hour) / a.interval).toNat
      ((23 - st.cur.hour) / a.interval * a.interval) (by rw [hcast]) (Int.mul_nonneg hq0 (by omega)) hqX
      (by simp only [↓reduceIte]; rw [Py.fdiv_pos _ (by omega), hint]) hle
    refine ⟨st', k + ((23 - st.cur.hour) / a.interval).toNat + s, hadv, by omega, by omega, hg', ?_⟩
    intro j h1 h2
    by_cases hc : j ≤ k + ((23 - st.cur.hour) / a.interval).toNat
    · apply hbe_skip_day ha k st hg (hfl rfl) j h1
      have hjq : (j : Int) - k ≤ (23 - st.cur.hour) / a.interval := by omega
      have := Int.mul_le_mul_of_nonneg_right hjq (show (0 : Int) ≤ a.interval by omega)
      omega
    · exact htail _ _ (by rw [hcast]) s hmin j (by omega) h2

theorem hbe_init (ha : HourlyByEArgs a) (h : construct a = .ok r) (hlo : 1583 ≤ a.dtstart.y)
    (hhi : Spec.RRule.startOrd a ≤ emaxOrd) :
    ∃ st0, init r = .ok st0 ∧ HourlyEGood a r 0 st0 ∧ st0.count = r.count := by
  have hw := hbe_erule ha h
  have hv := ha.valid
  unfold DT.Valid ValidDate at hv
  obtain ⟨info, hre, hnw⟩ := rebuild_e hw a.dtstart.y a.dtstart.m hlo (start_year_hi a ha.valid hhi)
  obtain ⟨bh, bm, bs, hr, hbne, hbmem, _, _⟩ := hbe_rule ha h
  have hd : r.dtstart = { a.dtstart with us := 0 } := by rw [hr]
  have hf : r.freq = 4 := by rw [hr]; exact ha.freq
  have hbh : r.byhour = some bh := by rw [hr]
  have htr : truthy (some bh) = true := by
    cases bh with
    | nil => exact absurd rfl hbne
    | cons _ _ => rfl
  obtain ⟨prod, hts, _, hspec⟩ := htimeset_hb_e ha h a.dtstart.hh hv.2.1 hv.2.2.1
  -- the start's hour is on the orbit, so "in the normalised list" is "listed"
  have hmem : bh.contains a.dtstart.hh = (hoursOf a).contains a.dtstart.hh := by
    rw [Bool.eq_iff_iff, List.contains_iff_mem, List.contains_iff_mem, hbmem]
    constructor
    · exact fun h => h.1
    · intro h; exact ⟨h, by rw [Int.sub_self]; exact Int.zero_emod _⟩
  refine ⟨{ cur := { year := a.dtstart.y, month := a.dtstart.m, day := a.dtstart.d, hour := a.dtstart.hh,
                     minute := a.dtstart.mm, second := a.dtstart.ss, weekday := r.dtstart.weekday },
            info := info, timeset := Spec.RRule.timesOf a (some a.dtstart.hh) none none, count := r.count }, ?_, ?_, rfl⟩
  · unfold init gettimeset
    simp only [hd, bind, Except.bind, hre, hf, hbh, htr, memO, hmem, pure, Except.pure]
    rw [hspec]
    by_cases c : a.dtstart.hh ∈ hoursOf a
    · simp [c, hts]
    · simp [c]
  · refine ⟨rebuild_facts r _ _ info hre, hnw, hv.1.2.2, ⟨hv.2.1, hv.2.2.1⟩, ?_, rfl⟩
    unfold curOrd Spec.RRule.startOrd DT.ordinal; simp

/-- **`iter_eq_spec_hourly_byhour_easter`**: `iter_eq_spec_hourly_byhour` with BYEASTER instead of "no BYEASTER" —
    offsets −80..250 (the complement of D-C01d), no BYWEEKNO, a start in a year ≥ 1583 and every visited day not
    after 31 December 4099 (where C19 ties `easter.easter` to Meeus/Jones/Butcher); everything else as there, `n ≤
    m ≤ 48·n`. -/
theorem iter_eq_spec_hourly_byhour_easter (ha : HourlyByEArgs a) (h : construct a = .ok r) (n : Nat)
    (hlo : 1583 ≤ a.dtstart.y)
    (hle : Spec.RRule.startOrd a * 24 + a.dtstart.hh + (48 * n + 24) * a.interval + 23
      < (Cal.toOrdinal 4099 12 31 + 1) * 24) :
    ∃ m, n ≤ m ∧ m ≤ 48 * n ∧ (iter r n).1 = Spec.RRule.occ a m := by
  have hi := ha.interval
  have hmx := emaxOrd_le
  have hE : Cal.toOrdinal 4099 12 31 = emaxOrd := rfl
  rw [hE] at hle
  have hnn : (0 : Int) ≤ ((48 * n + 24 : Int)) * a.interval := Int.mul_nonneg (by omega) (by omega)
  have hbound : ∀ k : Nat, k < 48 * n → ∀ st, HourlyEGood a r k st →
      curOrd st.cur * 24 + 23 + 24 * a.interval < (emaxOrd + 1) * 24 := by
    intro k hk st hg
    have := hg.idx
    have hh := hg.hour
    have hmono : (k : Int) * a.interval ≤ (48 * (n : Int)) * a.interval :=
      Int.mul_le_mul_of_nonneg_right (by omega) (by omega)
    have e' : ((48 : Int) * n + 24) * a.interval = (48 * (n : Int)) * a.interval + 24 * a.interval := by
      rw [Int.add_mul]
    rw [e'] at hle
    omega
  have sim : SkipSim a r (48 * n) 48 (HourlyEGood a r) := {
    agree := hbe_cuts ha h
    step := by
      intro k st hk hg
      have hb := hbound k hk st hg
      have hi24 : a.interval ≤ 24 * a.interval := by omega
      obtain ⟨fl, hres, hflag, hbnd⟩ := hbe_results ha h k st hg (by omega)
      refine ⟨fl, [], Spec.RRule.sel a (k : Int), hres, rfl, by simp, hbnd, ?_⟩
      intro c
      exact hbe_next ha h k st fl c hg hflag hb }
  have hv := ha.valid
  unfold DT.Valid at hv
  obtain ⟨st0, hinit, hg0, hc0⟩ := hbe_init ha h hlo (by omega)
  exact iter_refines_skip sim (by omega) st0 hinit hg0 hc0 n (by omega)

-- non-vacuity: the hypotheses are satisfiable
example : HourlyByEArgs { freq := 4, dtstart := ⟨2024, 1, 1, 10, 0, 0, 0⟩, byeaster := some [0, 1],
                          byhour := some [10, 16] } :=
  { freq := rfl, interval := (by decide), valid := (by decide), byweekno := rfl,
    easter := ⟨[0, 1], rfl, by simp, by intro o ho; simp at ho; omega⟩,
    monthday_nz := (by intro x hx; simp at hx), hours := ⟨[10, 16], rfl, by intro x hx; simp at hx; omega⟩,
    minutes_ok := (by intro x hx; simp at hx), seconds_ok := (by intro x hx; simp at hx) }

end RRule
