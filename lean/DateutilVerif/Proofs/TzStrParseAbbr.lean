/-
  Proofs/TzStrParseAbbr.lean — the abbreviation / offset loop of `_tzparser.parse` on
  `STD offset DST [offset] , …`.
-/
import DateutilVerif.Proofs.TzStrParseRule

namespace TzStr

theorem isEmpty_false_of (s : String) (h : s.toList ≠ []) : s.isEmpty = false := by
  cases hh : s.isEmpty with
  | false => rfl
  | true =>
      exfalso; apply h
      have : s = "" := by simpa using hh
      rw [this]; rfl

theorem drop_pre {α} (a b : List α) : (a ++ b).drop a.length = b := by
  induction a with
  | nil => rfl
  | cons x t ih => simpa using ih

/-- the abbreviation scan stops right after a letter token that is followed by a token with an
    offset character -/
theorem skipAbbr_one (L pre : List String) (a t : String) (tl : List String) (hL : L = pre ++ (a :: t :: tl))
    (ha : IsAlpha a) (ht : hasOffsetChar t = true) : skipAbbr L pre.length = pre.length + 1 := by
  unfold skipAbbr
  rw [hL, drop_pre]
  simp [List.takeWhile, alpha_isLetters a ha, offsetChar_not_letters t ht]

theorem join_take_one (L pre : List String) (a : String) (tl : List String) (hL : L = pre ++ (a :: tl)) :
    String.join ((L.drop pre.length).take (pre.length + 1 - pre.length)) = a := by
  rw [hL, drop_pre]
  have : pre.length + 1 - pre.length = 1 := by omega
  rw [this]; simp [String.join]

/-- head token of an offset's token list: a sign or a digit token -/
theorem off_head (o : Off) (h : o.sp.Ok) : ∃ t tl, toksOf o.chunks = t :: tl ∧ hasOffsetChar t = true ∧
    ((t == "+" || t == "-" || firstIsDigit t) = true) := by
  obtain ⟨sign, sp⟩ := o
  cases sign with
  | some b =>
      cases b
      · exact ⟨"-", toksOf sp.chunks, rfl, by decide, by decide⟩
      · exact ⟨"+", toksOf sp.chunks, rfl, by decide, by decide⟩
  | none =>
      cases sp with
      | h n =>
          have hd := digTok_of n.tok (n.isDig h.1)
          exact ⟨n.tok, [], by simp [Off.chunks, signChunks, OffSp.chunks, numC, toksOf], hd.hasOff, by simp [hd.first]⟩
      | hhmm t a b =>
          have hd := digTok_of t h.1
          exact ⟨t, [], by simp [Off.chunks, signChunks, OffSp.chunks, toksOf], hd.hasOff, by simp [hd.first]⟩
      | colon a b =>
          have hd := digTok_of a.tok (a.isDig h.1)
          exact ⟨a.tok, [":", b.tok], by simp [Off.chunks, signChunks, OffSp.chunks, numC, pC, toksOf], hd.hasOff, by simp [hd.first]⟩

/-- one turn of the abbreviation loop on `… abbr offset? …` -/
theorem abbrLoop_turn (l : Array String) (fuel : Nat) (st : St) (pre : List String) (a t : String) (tl : List String)
    (hl : l.toList = pre ++ (a :: t :: tl)) (hi : st.i = pre.length) (ha : IsAlpha a)
    (ht : hasOffsetChar t = true) :
    abbrLoop l (fuel + 1) st =
      (let isStd := match st.res.stdabbr with | none => true | some s => s.isEmpty
       let res := if isStd then { st.res with stdabbr := some a } else { st.res with dstabbr := some a }
       let st1 : St := { st with res := res, used := st.used ++ List.range (pre.length + 1), i := pre.length + 1 }
       let step : P St :=
         if t == "+" || t == "-" || firstIsDigit t then do
           let (v, st') ← parseOffset l st1
           let res := if isStd then { st'.res with stdoffset := some v } else { st'.res with dstoffset := some v }
           pure { st' with res := res }
         else pure st1
       match step with
       | none => none
       | some st =>
         let dstSet := match st.res.dstabbr with | none => false | some s => !s.isEmpty
         if dstSet then some st else abbrLoop l fuel st) := by
  have hs := size_at hl
  have g1 := get_at hl 1
  simp only [List.getElem?_cons_zero, List.getElem?_cons_succ, List.length_cons] at g1 hs
  rw [abbrLoop]
  have hlt : pre.length < l.size := by omega
  have hj := skipAbbr_one l.toList pre a t tl hl ha ht
  have hjoin := join_take_one l.toList pre a (t :: tl) hl
  simp only [hi, hlt, if_true, hj, hjoin, g1]
  have : (pre.length + 1 != pre.length) = true := by simp
  simp only [this, if_true]
  rfl

theorem cov_range (l : Array String) (st : St) (n : Nat) (res : Res) :
    Cov l { st with res := res, used := st.used ++ List.range n, i := n } := by
  intro k hk _
  left; simp at hk ⊢; right; exact hk

theorem abbrLoop_spec (sp : Spelling) (wf : WellFormed sp) (l : Array String) (rest : List String)
    (hl : l.toList = sp.std :: (toksOf sp.stdOff.chunks ++ (sp.dst :: (toksOf (optOffChunks sp.dstOff) ++ ("," :: rest))))) :
    ∃ st, abbrLoop l 3 {} = some st ∧
      st.i = 1 + (toksOf sp.stdOff.chunks).length + 1 + (toksOf (optOffChunks sp.dstOff)).length ∧
      st.res = { stdabbr := some sp.std, stdoffset := some sp.stdOff.val, dstabbr := some sp.dst,
                 dstoffset := sp.dstOff.map Off.val } ∧ Cov l st := by
  obtain ⟨t1, tl1, e1, ho1, hc1⟩ := off_head sp.stdOff wf.stdOff
  have hstdne := isEmpty_false_of sp.std wf.std.1
  have hdstne := isEmpty_false_of sp.dst wf.dst.1
  have hdst_colon : (sp.dst :: (toksOf (optOffChunks sp.dstOff) ++ ("," :: rest))).head? ≠ some ":" := by
    simp only [List.head?_cons, ne_eq, Option.some.injEq]
    intro e
    have := ne_lit sp.dst ":" .alpha wf.dst.2 ':' (by decide) (by decide)
    rw [e] at this; simp at this
  -- first turn: the standard abbreviation and its offset
  have hl1 : l.toList = [] ++ (sp.std :: t1 :: (tl1 ++ (sp.dst :: (toksOf (optOffChunks sp.dstOff) ++ ("," :: rest))))) := by
    rw [hl, e1]; simp
  have turn1 := abbrLoop_turn l 2 {} [] sp.std t1 _ hl1 rfl wf.std ho1
  have hl1' : l.toList = [sp.std] ++ (toksOf sp.stdOff.chunks ++ (sp.dst :: (toksOf (optOffChunks sp.dstOff) ++ ("," :: rest)))) := by
    rw [hl]; simp
  obtain ⟨st2, p1, p2, p3, p4⟩ := parseOffset_spec sp.stdOff l [sp.std] _
    { res := { stdabbr := some sp.std }, used := [] ++ List.range (0 + 1), i := 0 + 1 } hl1' rfl wf.stdOff hdst_colon
    (cov_range l {} 1 _)
  -- second turn: the daylight abbreviation and its optional offset
  have htail : ∃ t2 tl2, toksOf (optOffChunks sp.dstOff) ++ ("," :: rest) = t2 :: tl2 ∧ hasOffsetChar t2 = true := by
    cases hd : sp.dstOff with
    | none => exact ⟨",", rest, rfl, by decide⟩
    | some o =>
        have hok : o.sp.Ok := by have := wf.dstOff; rw [hd] at this; exact this
        obtain ⟨t, tl, e, h1, _⟩ := off_head o hok
        exact ⟨t, tl ++ ("," :: rest), by simp [optOffChunks, e], h1⟩
  obtain ⟨t2, tl2, e2, ho2⟩ := htail
  have hl2 : l.toList = (sp.std :: toksOf sp.stdOff.chunks) ++ (sp.dst :: t2 :: tl2) := by
    rw [hl, ← e2]; simp
  let st2' : St := { res := { stdabbr := some sp.std, stdoffset := some sp.stdOff.val }, i := st2.i, used := st2.used }
  have hi2 : st2'.i = (sp.std :: toksOf sp.stdOff.chunks).length := by
    show st2.i = _; rw [p2]; simp; omega
  have turn2 := abbrLoop_turn l 1 st2' (sp.std :: toksOf sp.stdOff.chunks) sp.dst t2 tl2 hl2 hi2 wf.dst ho2
  have hres2 : st2'.res = { stdabbr := some sp.std, stdoffset := some sp.stdOff.val } := rfl
  have e3 : abbrLoop l 3 {} = abbrLoop l (2 + 1) {} := rfl
  rw [e3, turn1]
  simp only [hc1, if_true, bind, Option.bind, p1, pure, List.length_nil]
  simp only [p3, Bool.false_eq_true, if_false]
  have e4 : ∀ x : St, abbrLoop l 2 x = abbrLoop l (1 + 1) x := fun _ => rfl
  rw [e4]
  show ∃ st, abbrLoop l (1 + 1) st2' = some st ∧ _
  rw [turn2]
  simp only [hres2, hstdne, Bool.false_eq_true, if_false]
  cases hd : sp.dstOff with
  | none =>
      have et : t2 = "," := by
        rw [hd] at e2; simp [optOffChunks, toksOf] at e2; exact e2.1.symm
      have hno : (t2 == "+" || t2 == "-" || firstIsDigit t2) = false := by rw [et]; decide
      simp only [hno, Bool.false_eq_true, if_false, pure, hdstne, Bool.not_false, if_true]
      refine ⟨_, rfl, by simp [optOffChunks, toksOf]; omega, by simp, ?_⟩
      exact cov_range l st2' _ _
  | some o =>
      have hok : o.sp.Ok := by have := wf.dstOff; rw [hd] at this; exact this
      obtain ⟨t, tl, e, _, hcnd⟩ := off_head o hok
      have et : t2 = t := by
        rw [hd] at e2; simp [optOffChunks, e] at e2; exact e2.1.symm
      have hl3 : l.toList = (sp.std :: (toksOf sp.stdOff.chunks ++ [sp.dst])) ++ (toksOf o.chunks ++ ("," :: rest)) := by
        rw [hl, hd]; simp [optOffChunks]
      obtain ⟨st3, q1, q2, q3, q4⟩ := parseOffset_spec o l (sp.std :: (toksOf sp.stdOff.chunks ++ [sp.dst])) ("," :: rest)
        { st2' with res := { stdabbr := some sp.std, stdoffset := some sp.stdOff.val, dstabbr := some sp.dst },
                    used := st2'.used ++ List.range ((sp.std :: toksOf sp.stdOff.chunks).length + 1),
                    i := (sp.std :: toksOf sp.stdOff.chunks).length + 1 }
        hl3 (by simp) hok (by simp) (cov_range l st2' _ _)
      rw [et]
      simp only [hcnd, if_true, bind, Option.bind, q1, pure, q3, hdstne, Bool.not_false]
      refine ⟨_, rfl, by simp [q2, optOffChunks]; omega, by simp, ?_⟩
      intro k hk hs
      exact q4 k hk hs

end TzStr
