/-
  Proofs/RenderCompactFrac.lean — a compact time with a fraction, `HHMMSS(.|,)f{1..6}`, after `YYYYMMDDT`, `YYYY-MM-DDT` or
  `YYYY-MM-DD `: ONE lexer token `HHMMSS.f…` (a comma is a decimal mark after any run of ≥ 2 digits; the lexer writes it as
  a dot), which `_parse_numeric_token` takes by its shape (`len > 6 and find('.') == 6`) as hour, minute and `_parsems`.
-/
import DateutilVerif.Proofs.RenderIsoFinal
import DateutilVerif.Proofs.RenderIsoFrac
import DateutilVerif.Proofs.RenderCompact
import DateutilVerif.Proofs.RenderSchema
import DateutilVerif.Proofs.RenderPrep

namespace PM
open Py PT

variable (cls : Char → CClass) [hc : AsciiOK cls]

/-- what the scan needs to know about the token `HHMMSS.f…` -/
structure CFTok (F : Token) (h mi s us : Nat) : Prop where
  dec : ∃ d, toDecimal cls F = .ok d
  flt : floatOk cls F = true
  len : 6 < F.length
  dot : F.idxOf '.' = 6
  hh : pyInt cls (sl F 0 2) = .ok h
  mm : pyInt cls (sl F 2 4) = .ok mi
  ss : parsems cls (F.drop 4) = .ok (s, us)

theorem splitDot_dtok_dot (xs : List Nat) (r : List Char) : splitDot (dtok xs ++ '.' :: r) = (dtok xs, some r) := by
  induction xs with
  | nil => simp [dtok, splitDot]
  | cons x xs ih =>
    simp only [dtok, List.map_cons, List.cons_append, splitDot, digitChar_ne_dot x, if_false] at ih ⊢
    rw [ih]

theorem numForm_fracTok (a : Nat) (as : List Nat) (bs : List Nat) :
    ∃ d, numForm cls (dtok (a :: as) ++ '.' :: dtok bs) = some d := by
  unfold numForm
  rw [splitDot_dtok_dot]
  have he : (dtok (a :: as)).isEmpty = false := rfl
  have hcat : dtok (a :: as) ++ dtok bs = dtok ((a :: as) ++ bs) := by simp [dtok]
  simp only [he, Bool.false_and, Bool.false_eq_true, if_false, hcat, digitsVal_dtok]
  exact ⟨_, rfl⟩

theorem idxOf_dot_dtok_dot (xs : List Nat) (r : List Char) : (dtok xs ++ '.' :: r).idxOf '.' = xs.length := by
  rw [List.idxOf_append]
  simp [dot_notin_dtok xs]

/-- the token of `HHMMSS(.|,)f{k}` and what the scan reads from it, for 1 to 6 fraction digits -/
theorem cfrac_token (h mi s us k : Nat) (hh : h < 100) (hmi : mi < 100) (hs : s < 100) (hus : us < 1000000)
    (hk1 : 1 ≤ k) (hk6 : k ≤ 6) (comma : Bool) (rest : List Char) (he : FracEnds cls rest) :
    ∃ F : Token, scan cls .init (pad2 h ++ pad2 mi ++ pad2 s ++ [if comma then ',' else '.'] ++ (pad6 us).take k ++ rest) =
        F :: scan cls .init rest ∧
      CFTok cls F h mi s (us / 10 ^ (6 - k) * 10 ^ (6 - k)) := by
  have hcomma : (cls ',').isNum = false := by rw [AsciiOK.agree (cls := cls) ',' (by decide)]; decide
  have hdot : (cls '.').isNum = false := by rw [AsciiOK.agree (cls := cls) '.' (by decide)]; decide
  have hsepc : ((if comma then ',' else '.') = '.' ∨
      ((if comma then ',' else '.') = ',' ∧ (digitChar (h / 10) :: [digitChar h, digitChar (mi / 10), digitChar mi, digitChar (s / 10), digitChar s]).length ≥ 2)) ∧
      (cls (if comma then ',' else '.')).isNum = false := by
    cases comma <;> simp [hcomma, hdot]
  have hd6 := drun_dtok cls [h / 10, h, mi / 10, mi, s / 10, s]
  have key : ∀ (b : Nat) (bs : List Nat), bs.length < 6 → (pad6 us).take k = dtok (b :: bs) →
      dval ((b :: bs) ++ List.replicate (5 - bs.length) 0) = us / 10 ^ (6 - k) * 10 ^ (6 - k) →
      ∃ F : Token, scan cls .init (pad2 h ++ pad2 mi ++ pad2 s ++ [if comma then ',' else '.'] ++ (pad6 us).take k ++ rest) =
          F :: scan cls .init rest ∧
        CFTok cls F h mi s (us / 10 ^ (6 - k) * 10 ^ (6 - k)) := by
    intro b bs hbs htake hval
    refine ⟨dtok [h / 10, h, mi / 10, mi, s / 10, s] ++ '.' :: dtok (b :: bs), ?_, ?_⟩
    · rw [htake]
      have := lex_frac cls (digitChar (h / 10)) [digitChar h, digitChar (mi / 10), digitChar mi, digitChar (s / 10), digitChar s]
        (if comma then ',' else '.') (digitChar b) (bs.map digitChar) rest hsepc.1 hsepc.2 hd6 (drun_dtok cls (b :: bs)) he
      simpa [pad2, dtok, List.append_assoc] using this
    · obtain ⟨dd, hnf⟩ := numForm_fracTok cls (h / 10) [h, mi / 10, mi, s / 10, s] (b :: bs)
      refine ⟨⟨dd, by simp [toDecimal, hnf]⟩, by simp [floatOk, hnf], by simp, by simpa using idxOf_dot_dtok_dot [h / 10, h, mi / 10, mi, s / 10, s] _, ?_, ?_, ?_⟩
      · have : sl (dtok [h / 10, h, mi / 10, mi, s / 10, s] ++ '.' :: dtok (b :: bs)) 0 2 = dtok [h / 10, h] := by simp [sl, dtok]
        rw [this, pyInt_dtok cls _ _ (by simp), dval_pad2 h hh]
      · have : sl (dtok [h / 10, h, mi / 10, mi, s / 10, s] ++ '.' :: dtok (b :: bs)) 2 4 = dtok [mi / 10, mi] := by simp [sl, dtok]
        rw [this, pyInt_dtok cls _ _ (by simp), dval_pad2 mi hmi]
      · have : (dtok [h / 10, h, mi / 10, mi, s / 10, s] ++ '.' :: dtok (b :: bs)).drop 4 = dtok [s / 10, s] ++ '.' :: dtok (b :: bs) := by
          simp [dtok]
        rw [this, parsems_frac cls (s / 10) [s] b bs (by simp) hbs, hval, dval_pad2 s hs]
  rcases k with _ | _ | _ | _ | _ | _ | _ | k
  · omega
  · exact key (us / 100000) [] (by simp) rfl (by simp [dval, dvalAcc]; omega)
  · exact key (us / 100000) [us / 10000] (by simp) rfl (by simp [dval, dvalAcc]; omega)
  · exact key (us / 100000) [us / 10000, us / 1000] (by simp) rfl (by simp [dval, dvalAcc]; omega)
  · exact key (us / 100000) [us / 10000, us / 1000, us / 100] (by simp) rfl (by simp [dval, dvalAcc]; omega)
  · exact key (us / 100000) [us / 10000, us / 1000, us / 100, us / 10] (by simp) rfl (by simp [dval, dvalAcc]; omega)
  · exact key (us / 100000) [us / 10000, us / 1000, us / 100, us / 10, us] (by simp) rfl (by simp [dval, dvalAcc]; omega)
  · omega

set_option maxHeartbeats 4000000 in
/-- the scan over `YYYY-MM-DD<T| >` + the token, any `Suf1` suffix behind it -/
theorem run_iso_cfrac (yf : Bool) (year century : Int) (y m d h mi s us : Nat) (S : Token)
    (hS : S = ['T'] ∨ S = [' ']) (hv : (DT.mk y m d h mi s us).Valid) (F : Token) (hF : CFTok cls F h mi s us)
    (suf : List Token) (hs : Suf1 (Info.default false yf year century) suf) :
    parseLoop cls (Info.default false yf year century) false (suf.length + 7) (suf.length + 7) 0 0
      { l := isoDateTokens y m d S ++ [F] ++ suf } =
    parseLoop cls (Info.default false yf year century) false (suf.length + 7) suf.length 7 0
      { l := isoDateTokens y m d S ++ [F] ++ suf, ymd := { vals := [y, m, d], century := true, yIdx := some 0 },
        skipped := [5], res := { hour := some h, minute := some mi, second := some s, microsecond := some us } } := by
  obtain ⟨⟨hy1, hy2, hm1, hm2, hd1, hd2⟩, hh1, hh2, hmi1, hmi2, hs1, hs2, hu1, hu2⟩ := hv
  dsimp only at *
  have hdim := (Cal.daysInMonth_bounds (y : Int) (m : Int)).2
  have by' : y < 10000 := by omega
  have bm : m < 100 := by omega
  have bd : d < 100 := by omega
  obtain ⟨⟨dd, hdec⟩, hflt, hlen, hdot, hhh, hmm, hss⟩ := hF
  have l2 : F.length ≠ 2 := by omega
  have l4 : F.length ≠ 4 := by omega
  have l6 : F.length ≠ 6 := by omega
  generalize suf.length = k
  rcases hS with rfl | rfl <;> rcases hs with rfl | ⟨a, rest, rfl, a1, a2, a3⟩ <;> psimpa [isoDateTokens, numSix]

set_option maxHeartbeats 4000000 in
/-- the scan over `YYYYMMDD`, `T`, the token -/
theorem run_compact_cfrac (yf : Bool) (year century : Int) (y m d h mi s us : Nat)
    (hv : (DT.mk y m d h mi s us).Valid) (F : Token) (hF : CFTok cls F h mi s us)
    (suf : List Token) (hs : Suf1 (Info.default false yf year century) suf) :
    parseLoop cls (Info.default false yf year century) false (suf.length + 3) (suf.length + 3) 0 0
      { l := [dtok (date8 y m d), ['T'], F] ++ suf } =
    parseLoop cls (Info.default false yf year century) false (suf.length + 3) suf.length 3 0
      { l := [dtok (date8 y m d), ['T'], F] ++ suf, ymd := { vals := [y, m, d], century := true, yIdx := some 0 },
        skipped := [1], res := { hour := some h, minute := some mi, second := some s, microsecond := some us } } := by
  obtain ⟨⟨hy1, hy2, hm1, hm2, hd1, hd2⟩, hh1, hh2, hmi1, hmi2, hs1, hs2, hu1, hu2⟩ := hv
  dsimp only at *
  have hdim := (Cal.daysInMonth_bounds (y : Int) (m : Int)).2
  have by' : y < 10000 := by omega
  have bm : m < 100 := by omega
  have bd : d < 100 := by omega
  obtain ⟨⟨dd, hdec⟩, hflt, hlen, hdot, hhh, hmm, hss⟩ := hF
  have l2 : F.length ≠ 2 := by omega
  have l4 : F.length ≠ 4 := by omega
  have l6 : F.length ≠ 6 := by omega
  generalize suf.length = k
  rcases hs with rfl | ⟨a, rest, rfl, a1, a2, a3⟩ <;> psimpa [date8, numSix]

/-- **`<date>HHMMSS(.|,)f{1..6}<offset>`** for the three date heads, every valid datetime, every offset spelling: the
    datetime cut to the digits shown -/
theorem parse_cfrac (yf : Bool) (year century : Int) (o : Opts) (tznames : List Token) (tzi : TzInfos)
    (ho : PlainOpts o tzi) (dflt : DT) (hdv : dflt.Valid) (t : DT) (ht : t.Valid) (hd : CFHead) (comma : Bool) (k : Nat)
    (hk1 : 1 ≤ k) (hk6 : k ≤ 6) (off : Off) (hoff : off.Dom) :
    parse cls (Info.default false yf year century) o tznames tzi dflt (renderCFrac hd comma k t off) =
      .ok { dt := (TimeFmt.frac comma k).expect t dflt, tz := if o.ignoretz then .naive else offDescr tznames off,
            tokens := none } := by
  obtain ⟨⟨hy1, hy2, hm1, hm2, hd1, hd2⟩, hh1, hh2, hmi1, hmi2, hs1, hs2, hu1, hu2⟩ := ht
  have hdim := (Cal.daysInMonth_bounds t.y t.m).2
  have ey : ((t.y.toNat : Nat) : Int) = t.y := Int.toNat_of_nonneg (by omega)
  have em : ((t.m.toNat : Nat) : Int) = t.m := Int.toNat_of_nonneg (by omega)
  have ed : ((t.d.toNat : Nat) : Int) = t.d := Int.toNat_of_nonneg (by omega)
  have eh : ((t.hh.toNat : Nat) : Int) = t.hh := Int.toNat_of_nonneg (by omega)
  have emi : ((t.mm.toNat : Nat) : Int) = t.mm := Int.toNat_of_nonneg (by omega)
  have es : ((t.ss.toNat : Nat) : Int) = t.ss := Int.toNat_of_nonneg (by omega)
  have eu : ((t.us.toNat : Nat) : Int) = t.us := Int.toNat_of_nonneg (by omega)
  obtain ⟨F, hlexF, hF⟩ := cfrac_token cls t.hh.toNat t.mm.toNat t.ss.toNat t.us.toNat k (by omega) (by omega) (by omega) (by omega)
    hk1 hk6 comma off.render (fracEnds_off cls off)
  have hq : t.us.toNat / 10 ^ (6 - k) * 10 ^ (6 - k) ≤ t.us.toNat := Nat.div_mul_le_self _ _
  have hcast : ((t.us.toNat / 10 ^ (6 - k) * 10 ^ (6 - k) : Nat) : Int) = t.us / 10 ^ (6 - k) * 10 ^ (6 - k) := by
    rw [Int.natCast_mul, Int.natCast_ediv, eu]; simp
  have hv : (DT.mk (t.y.toNat : Nat) (t.m.toNat : Nat) (t.d.toNat : Nat) (t.hh.toNat : Nat) (t.mm.toNat : Nat)
      (t.ss.toNat : Nat) ((t.us.toNat / 10 ^ (6 - k) * 10 ^ (6 - k) : Nat) : Int)).Valid := by
    rw [ey, em, ed, eh, emi, es]
    have hle : ((t.us.toNat / 10 ^ (6 - k) * 10 ^ (6 - k) : Nat) : Int) ≤ (t.us.toNat : Int) := by exact_mod_cast hq
    refine ⟨⟨hy1, hy2, hm1, hm2, hd1, hd2⟩, hh1, hh2, hmi1, hmi2, hs1, hs2, ?_, ?_⟩
    · exact Int.natCast_nonneg _
    · show ((t.us.toNat / 10 ^ (6 - k) * 10 ^ (6 - k) : Nat) : Int) ≤ 999999
      omega
  have hs : StrictOpts o tzi := ⟨ho.fz, ho.fwt, ho.tz1, ho.tz2⟩
  have hfin := fin_iso_frac yf year century o tznames tzi ho dflt t.y.toNat t.m.toNat t.d.toNat t.hh.toNat t.mm.toNat t.ss.toNat
    (t.us.toNat / 10 ^ (6 - k) * 10 ^ (6 - k)) hv
  -- the time characters start with a digit: `dtok [h / 10] ++ …`
  have htime : pad2 t.hh.toNat ++ pad2 t.mm.toNat ++ pad2 t.ss.toNat ++ [if comma then ',' else '.'] ++ (pad6 t.us.toNat).take k ++ off.render =
      dtok [t.hh.toNat / 10] ++ (digitChar t.hh.toNat :: (pad2 t.mm.toNat ++ pad2 t.ss.toNat ++ [if comma then ',' else '.'] ++
        (pad6 t.us.toNat).take k ++ off.render)) := by simp [pad2, dtok]
  unfold parse lex
  cases hd with
  | compactT =>
    have e : renderCFrac .compactT comma k t off = dtok (date8 t.y.toNat t.m.toNat t.d.toNat) ++ ('T' ::
        (pad2 t.hh.toNat ++ pad2 t.mm.toNat ++ pad2 t.ss.toNat ++ [if comma then ',' else '.'] ++ (pad6 t.us.toNat).take k ++ off.render)) := by
      simp [renderCFrac, CFHead.render, compactDate, date8, pad4, pad2, dtok]
    rw [e, date8, lex_dtok cls _ _ _ (numEnds_ascii cls _ _ (by decide)),
        lex_letter cls 'T' _ (by decide) (by rw [htime]; exact wordEnds_num cls _ _ ⟨_, _, rfl⟩), hlexF, lex_off]
    have := tok_theorem cls false yf year century o tznames tzi hs dflt
      [dtok (date8 t.y.toNat t.m.toNat t.d.toNat), ['T'], F] 3 rfl _ _ _ _ off hoff
      (run_compact_cfrac cls yf year century _ _ _ _ _ _ _ hv F hF (offTokens off) (suf1_off false yf year century off))
      rfl rfl (Or.inl rfl) hfin
    rw [ey, em, ed, eh, emi, es, hcast] at this
    simpa [TimeFmt.expect, offZone, date8] using this
  | isoT =>
    have e : renderCFrac .isoT comma k t off = pad4 t.y.toNat ++ ['-'] ++ pad2 t.m.toNat ++ ['-'] ++ pad2 t.d.toNat ++ ['T'] ++
        (dtok [t.hh.toNat / 10] ++ (digitChar t.hh.toNat :: (pad2 t.mm.toNat ++ pad2 t.ss.toNat ++ [if comma then ',' else '.'] ++
          (pad6 t.us.toNat).take k ++ off.render))) := by
      rw [← htime]; simp [renderCFrac, CFHead.render]
    rw [e, lex_isoDate cls _ _ _ 'T' (Or.inl rfl), ← htime, hlexF, lex_off]
    have := tok_theorem cls false yf year century o tznames tzi hs dflt
      (isoDateTokens t.y.toNat t.m.toNat t.d.toNat ['T'] ++ [F]) 7 (by simp [isoDateTokens]) _ _ _ _ off hoff
      (run_iso_cfrac cls yf year century _ _ _ _ _ _ _ ['T'] (Or.inl rfl) hv F hF (offTokens off) (suf1_off false yf year century off))
      rfl rfl (Or.inl rfl) hfin
    rw [ey, em, ed, eh, emi, es, hcast] at this
    simpa [TimeFmt.expect, offZone, List.append_assoc] using this
  | isoSp =>
    have e : renderCFrac .isoSp comma k t off = pad4 t.y.toNat ++ ['-'] ++ pad2 t.m.toNat ++ ['-'] ++ pad2 t.d.toNat ++ [' '] ++
        (dtok [t.hh.toNat / 10] ++ (digitChar t.hh.toNat :: (pad2 t.mm.toNat ++ pad2 t.ss.toNat ++ [if comma then ',' else '.'] ++
          (pad6 t.us.toNat).take k ++ off.render))) := by
      rw [← htime]; simp [renderCFrac, CFHead.render]
    rw [e, lex_isoDate cls _ _ _ ' ' (Or.inr rfl), ← htime, hlexF, lex_off]
    have := tok_theorem cls false yf year century o tznames tzi hs dflt
      (isoDateTokens t.y.toNat t.m.toNat t.d.toNat [' '] ++ [F]) 7 (by simp [isoDateTokens]) _ _ _ _ off hoff
      (run_iso_cfrac cls yf year century _ _ _ _ _ _ _ [' '] (Or.inr rfl) hv F hF (offTokens off) (suf1_off false yf year century off))
      rfl rfl (Or.inl rfl) hfin
    rw [ey, em, ed, eh, emi, es, hcast] at this
    simpa [TimeFmt.expect, offZone, List.append_assoc] using this

end PM
