/-
  Proofs/TzStr.lean — lemmas for C08: the `ydayidx` scan, ordinal bounds, and the heart of
  the property: `datetime(y,1,1) + _delta(rule)` lands on the POSIX rule date.
-/
import DateutilVerif.Model.TzStr
import DateutilVerif.Spec.Posix
import DateutilVerif.Proofs.Calendar

namespace TzStr

/-- non-leap days in month -/
def dimNL (m : Int) : Int := if m == 2 then 28 else if m == 4 || m == 6 || m == 9 || m == 11 then 30 else 31

def ydayOK (yd : Int) : Bool :=
  match ydayToMonthDay yd with
  | .ok (m, d) => decide (1 ≤ m ∧ m ≤ 12 ∧ 1 ≤ d ∧ d ≤ dimNL m ∧ Cal.dbmTable m + d = yd ∧ (m > 2 ↔ yd ≥ 60))
  | .error _ => false

theorem yday_table : ∀ k : Fin 365, ydayOK (1 + (k.val : Int)) = true := by decide +kernel

theorem yday_spec (yd : Int) (h1 : 1 ≤ yd) (h2 : yd ≤ 365) :
    ∃ m d, ydayToMonthDay yd = .ok (m, d) ∧ 1 ≤ m ∧ m ≤ 12 ∧ 1 ≤ d ∧ d ≤ dimNL m ∧
      Cal.dbmTable m + d = yd ∧ (m > 2 ↔ yd ≥ 60) := by
  have hk : (yd - 1).toNat < 365 := by omega
  have := yday_table ⟨(yd - 1).toNat, hk⟩
  have e : 1 + (((yd - 1).toNat : Nat) : Int) = yd := by omega
  simp only [e, ydayOK] at this
  split at this
  · rename_i m d heq
    refine ⟨m, d, heq, ?_⟩
    simpa using this
  · simp at this

theorem dimNL_le (y m : Int) : dimNL m ≤ Cal.daysInMonth y m := by
  unfold dimNL Cal.daysInMonth
  split <;> split <;> simp_all <;> split <;> omega

/-- ordinals of valid dates in years 1..9999 are within `1 .. maxOrdinal` -/
theorem toOrdinal_le_max (y m d : Int) (hy : y ≤ 9999) (h : Cal.ValidYMD y m d) :
    Cal.toOrdinal y m d ≤ Cal.maxOrdinal := by
  have e9 : Cal.toOrdinal 9999 12 31 = 3652059 := by decide
  unfold Cal.maxOrdinal
  by_cases c : y = 9999 ∧ m = 12 ∧ d = 31
  · obtain ⟨a, b, c⟩ := c; subst a b c; omega
  · have : Cal.toOrdinal y m d < Cal.toOrdinal 9999 12 31 := by
      apply Cal.toOrdinal_lt_of_lex y m d 9999 12 31 h (by decide)
      obtain ⟨m1, m12, d1, dd⟩ := h
      have := Cal.daysInMonth_bounds y m
      by_cases hy' : y < 9999
      · exact Or.inl hy'
      · right; refine ⟨by omega, ?_⟩
        by_cases hm : m < 12
        · exact Or.inl hm
        · right; refine ⟨by omega, ?_⟩
          have hm12 : m = 12 := by omega
          have hyy : y = 9999 := by omega
          subst hm12
          have : Cal.daysInMonth y 12 = 31 := by simp [Cal.daysInMonth]
          omega
    omega

/-- a year is at least 365 days long, so dates of year y ∈ 2..9998 are ≥ 366 and ≤ max − 365 -/
theorem ordinal_margin (y m d : Int) (h1 : 2 ≤ y) (h2 : y ≤ 9998) (h : Cal.ValidYMD y m d) :
    366 ≤ Cal.toOrdinal y m d ∧ Cal.toOrdinal y m d + 365 ≤ Cal.maxOrdinal := by
  have lo := Cal.toOrdinal_lt_of_lex 1 12 31 y m d (by decide) h (Or.inl (by omega))
  have e1 : Cal.toOrdinal 1 12 31 = 365 := by decide
  have hi := Cal.toOrdinal_lt_of_lex y m d 9999 1 1 h (by decide) (Or.inl (by omega))
  have e2 : Cal.toOrdinal 9999 1 1 = 3651695 := by decide
  unfold Cal.maxOrdinal
  omega

open Posix


theorem first_valid (y m : Int) (h1 : 1 ≤ m) (h2 : m ≤ 12) : Cal.ValidYMD y m 1 := by
  have := Cal.daysInMonth_bounds y m
  exact ⟨h1, h2, by omega, by omega⟩

/-- base instant for an absolute (month, day) with `day ≤ dim` and no leapdays -/
theorem baseInstant_md (y m dd secs : Int) (wd : Option (Int × Int)) (hy1 : 2 ≤ y) (hy2 : y ≤ 9998)
    (hm1 : 1 ≤ m) (hm2 : m ≤ 12) (hd1 : 1 ≤ dd) (hs1 : -86400 * 300 ≤ secs) (hs2 : secs < 86400 * 300) :
    baseInstant y { month := some m, day := some dd, weekday := wd, seconds := secs }
      = .ok (Cal.toOrdinal y m (min (Cal.daysInMonth y m) dd) * 86400 + secs) := by
  have hb := Cal.daysInMonth_bounds y m
  have hv : Cal.ValidYMD y m (min (Cal.daysInMonth y m) dd) := ⟨hm1, hm2, by omega, by omega⟩
  have mg := ordinal_margin y m _ hy1 hy2 hv
  unfold baseInstant
  have hm0 : (m != 0) = true := by simp; omega
  have hd0 : (dd != 0) = true := by simp; omega
  simp only [hm0, hd0, if_true]
  rw [if_neg (by omega), if_neg (by omega), if_neg (by omega)]
  simp only [show ((0:Int) != 0) = false from rfl, Bool.false_and]
  have : inRange (((Cal.toOrdinal y m (min (Cal.daysInMonth y m) dd) + if false = true then 0 else 0)) * 86400 + secs) = true := by
    unfold inRange Cal.maxOrdinal at *
    simp
    omega
  rw [if_pos this]
  simp


theorem weekdayJump_pos (cur wd n : Int) (hn : 1 ≤ n) (_hc : 0 ≤ cur ∧ cur < 7) (_hw : 0 ≤ wd ∧ wd < 7) :
    weekdayJump cur wd n = (n - 1) * 7 + (wd - cur) % 7 := by
  unfold weekdayJump Py.iabs
  have h0 : (n != 0) = true := by simp; omega
  simp only [h0, if_true]
  rw [if_pos (by omega), if_neg (by omega)]
  omega

theorem weekdayJump_neg1 (cur wd : Int) :
    weekdayJump cur wd (-1) = -((cur - wd) % 7) := by
  unfold weekdayJump Py.iabs
  simp

theorem apply_M (y m w d secs : Int) (hy1 : 2 ≤ y) (hy2 : y ≤ 9998)
    (hm1 : 1 ≤ m) (hm2 : m ≤ 12) (hw1 : 1 ≤ w) (hw2 : w ≤ 5) (_hd1 : 0 ≤ d) (_hd2 : d ≤ 6)
    (hs1 : 0 ≤ secs) (hs2 : secs < 86400) :
    applyDelta y { month := some m, day := some (if (if w == 5 then -1 else w) > 0 then 1 else 31),
                   weekday := some (Py.fmod (d - 1) 7, if w == 5 then -1 else w), seconds := secs }
      = .ok (ruleOrdinal y (.M m w d) * 86400 + secs) := by
  have hb := Cal.daysInMonth_bounds y m
  have hwd : Py.fmod (d - 1) 7 = (d + 6) % 7 := by
    rw [Py.fmod_pos _ (by omega)]; omega
  have hdayarg : (1:Int) ≤ (if (if w == 5 then -1 else w) > 0 then 1 else 31) := by split <;> omega
  unfold applyDelta
  rw [baseInstant_md y m _ secs _ hy1 hy2 hm1 hm2 hdayarg (by omega) (by omega)]
  simp only [weekdayStep, hwd]
  have hv1 := first_valid y m hm1 hm2
  have hvl : Cal.ValidYMD y m (Cal.daysInMonth y m) := ⟨hm1, hm2, by omega, by omega⟩
  have mg1 := ordinal_margin y m 1 hy1 hy2 hv1
  have mgl := ordinal_margin y m _ hy1 hy2 hvl
  have hlast : Cal.toOrdinal y m (Cal.daysInMonth y m) = Cal.toOrdinal y m 1 + Cal.daysInMonth y m - 1 := by
    unfold Cal.toOrdinal; omega
  unfold ruleOrdinal
  by_cases hw5 : w = 5
  · subst hw5
    simp only [show ((5:Int) == 5) = true from rfl, if_true, show ¬ ((-1:Int) > 0) from by omega, if_false]
    have hmin : min (Cal.daysInMonth y m) 31 = Cal.daysInMonth y m := by omega
    rw [hmin, hlast, weekdayJump_neg1]
    generalize Cal.toOrdinal y m 1 = first at *
    generalize Cal.daysInMonth y m = dim at *
    have hq : ((first + dim - 1) * 86400 + secs) / 86400 = first + dim - 1 := by omega
    rw [hq]
    unfold Cal.weekdayOfOrd inRange Cal.maxOrdinal at *
    split
    · congr 1
      split <;> omega
    · rename_i hno
      simp at hno
      omega
  · have hwne : (w == 5) = false := by simp; omega
    simp only [hwne, if_false, show w > 0 from by omega, if_true, Bool.false_eq_true]
    have hmin : min (Cal.daysInMonth y m) 1 = 1 := by omega
    have hcur := Cal.weekdayOfOrd_range (Cal.toOrdinal y m 1)
    rw [hmin]
    generalize Cal.toOrdinal y m 1 = first at *
    generalize Cal.daysInMonth y m = dim at *
    have hq : (first * 86400 + secs) / 86400 = first := by omega
    rw [hq, weekdayJump_pos _ _ w hw1 hcur (by omega)]
    generalize Cal.weekdayOfOrd first = cur at *
    unfold inRange Cal.maxOrdinal at *
    split
    · congr 1
      split <;> omega
    · rename_i hno
      simp at hno
      omega


/-- base instant for (month, day ≤ non-leap month length, leapdays ∈ {0,-1}) -/
theorem baseInstant_mdl (y m dd ld secs : Int) (hy1 : 2 ≤ y) (hy2 : y ≤ 9998)
    (hm1 : 1 ≤ m) (hm2 : m ≤ 12) (hd1 : 1 ≤ dd) (hd2 : dd ≤ dimNL m) (hld : ld = 0 ∨ ld = -1)
    (hs1 : -86400 * 300 ≤ secs) (hs2 : secs < 86400 * 300) :
    baseInstant y { month := some m, day := some dd, leapdays := ld, seconds := secs }
      = .ok ((Cal.toOrdinal y m dd + (if ld != 0 && decide (m > 2) && Cal.isLeap y then ld else 0)) * 86400 + secs) := by
  have hb := Cal.daysInMonth_bounds y m
  have hle := dimNL_le y m
  have hv : Cal.ValidYMD y m dd := ⟨hm1, hm2, by omega, by omega⟩
  have mg := ordinal_margin y m _ hy1 hy2 hv
  unfold baseInstant
  have hm0 : (m != 0) = true := by simp; omega
  have hd0 : (dd != 0) = true := by simp; omega
  have hmin : min (Cal.daysInMonth y m) dd = dd := by omega
  simp only [hm0, hd0, if_true, hmin]
  rw [if_neg (by omega), if_neg (by omega), if_neg (by omega)]
  have : inRange ((Cal.toOrdinal y m dd + (if (ld != 0 && decide (m > 2) && Cal.isLeap y) = true then ld else 0)) * 86400 + secs) = true := by
    unfold inRange Cal.maxOrdinal at *
    simp only [decide_eq_true_eq]
    split <;> omega
  rw [if_pos this]

theorem apply_J (y n secs : Int) (hy1 : 2 ≤ y) (hy2 : y ≤ 9998) (hn1 : 1 ≤ n) (hn2 : n ≤ 365)
    (hs1 : -86400 * 300 ≤ secs) (hs2 : secs < 86400 * 300) :
    ∃ m dd, ydayToMonthDay n = .ok (m, dd) ∧
      applyDelta y { month := some m, day := some dd, seconds := secs } = .ok (ruleOrdinal y (.J n) * 86400 + secs) := by
  obtain ⟨m, dd, he, m1, m12, d1, d2, hsum, hiff⟩ := yday_spec n hn1 hn2
  refine ⟨m, dd, he, ?_⟩
  unfold applyDelta
  have := baseInstant_mdl y m dd 0 secs hy1 hy2 m1 m12 d1 d2 (Or.inl rfl) hs1 hs2
  simp only [show ((0:Int) != 0) = false from rfl, Bool.false_and, Bool.false_eq_true, if_false, Int.add_zero] at this
  rw [this]
  simp only [weekdayStep]
  congr 1
  have h1 : Cal.dbmTable 1 = 0 := by decide
  unfold ruleOrdinal Cal.toOrdinal Cal.daysBeforeMonth
  rw [h1]
  generalize Cal.dbmTable m = T at *
  generalize Cal.daysBeforeYear y = B at *
  cases hl : Cal.isLeap y <;> simp <;> (try split) <;> omega

theorem apply_N (y n secs : Int) (hy1 : 2 ≤ y) (hy2 : y ≤ 9998) (hn1 : 0 ≤ n) (hn2 : n ≤ 364)
    (hs1 : -86400 * 300 ≤ secs) (hs2 : secs < 86400 * 300) :
    ∃ m dd, ydayToMonthDay (n + 1) = .ok (m, dd) ∧
      applyDelta y { month := some m, day := some dd, leapdays := (if 59 < n + 1 ∧ n + 1 < 366 then -1 else 0), seconds := secs }
        = .ok (ruleOrdinal y (.N n) * 86400 + secs) := by
  obtain ⟨m, dd, he, m1, m12, d1, d2, hsum, hiff⟩ := yday_spec (n + 1) (by omega) (by omega)
  refine ⟨m, dd, he, ?_⟩
  unfold applyDelta
  rw [baseInstant_mdl y m dd _ secs hy1 hy2 m1 m12 d1 d2 (by split <;> simp) hs1 hs2]
  simp only [weekdayStep]
  congr 1
  have h1 : Cal.dbmTable 1 = 0 := by decide
  unfold ruleOrdinal Cal.toOrdinal Cal.daysBeforeMonth
  rw [h1]
  generalize Cal.dbmTable m = T at *
  generalize Cal.daysBeforeYear y = B at *
  cases hl : Cal.isLeap y <;> simp <;> (repeat' split) <;> omega


/-! ### the tokenizer -/


theorem tokensAux_flatten (cs : List Char) (st : Option (CK × List Char)) (acc : List String) :
    ((tokensAux cs st acc).map String.toList).flatten =
      ((acc.reverse.map String.toList).flatten ++ (match st with | some (_, cur) => cur.reverse | none => []) ++ cs) := by
  induction cs generalizing st acc with
  | nil =>
    cases st with
    | none => simp [tokensAux]
    | some p => obtain ⟨k, cur⟩ := p; simp [tokensAux]
  | cons c cs ih =>
    cases st with
    | none => simp [tokensAux, ih]
    | some p =>
      obtain ⟨k, cur⟩ := p
      simp only [tokensAux]
      split
      · rw [ih]; simp
      · rw [ih]; simp

/-- the tokenizer loses nothing: the tokens concatenate back to the input -/
theorem tokens_flatten (s : String) : ((tokens s).map String.toList).flatten = s.toList := by
  unfold tokens
  rw [tokensAux_flatten]
  simp

theorem tokensAux_nonempty (cs : List Char) (st : Option (CK × List Char)) (acc : List String)
    (hacc : ∀ t ∈ acc, t ≠ "") (hst : ∀ k cur, st = some (k, cur) → cur ≠ []) :
    ∀ t ∈ tokensAux cs st acc, t ≠ "" := by
  induction cs generalizing st acc with
  | nil =>
    cases st with
    | none => simpa [tokensAux] using hacc
    | some p =>
      obtain ⟨k, cur⟩ := p
      have hc := hst k cur rfl
      intro t ht
      simp only [tokensAux, List.mem_reverse, List.mem_cons] at ht
      rcases ht with h | h
      · subst h
        intro he
        have : (String.ofList cur.reverse).toList = [] := by rw [he]; rfl
        simp at this
        exact hc this
      · exact hacc t h
  | cons c cs ih =>
    cases st with
    | none =>
      simp only [tokensAux]
      exact ih _ _ hacc (by intro k cur h; cases h; simp)
    | some p =>
      obtain ⟨k, cur⟩ := p
      have hc := hst k cur rfl
      simp only [tokensAux]
      split
      · exact ih _ _ hacc (by intro k' cur' h; cases h; simp)
      · apply ih
        · intro t ht
          simp only [List.mem_cons] at ht
          rcases ht with h | h
          · subst h
            intro he
            have : (String.ofList cur.reverse).toList = [] := by rw [he]; rfl
            simp at this
            exact hc this
          · exact hacc t h
        · intro k' cur' h; cases h; simp

/-- no token is empty (the `if x` filter of the list comprehension) -/
theorem tokens_nonempty (s : String) : ∀ t ∈ tokens s, t ≠ "" := by
  unfold tokens
  exact tokensAux_nonempty _ _ _ (by simp) (by simp)


end TzStr
