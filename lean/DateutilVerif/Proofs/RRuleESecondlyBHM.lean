/-
  Proofs/RRuleESecondlyBHM.lean — Proofs/RRuleSecondlyBHM.lean with BYEASTER (complement of D-C01d: offsets
  −80..250, visited days inside 1583..4099, no BYWEEKNO) instead of "no BYEASTER": the same refinement over the
  BY-filter abstraction of Proofs/RRuleEFilter.lean.  The lemmas of Proofs/RRuleSecondlyBHM.lean that do not
  mention the argument class are used from there.
-/
import DateutilVerif.Proofs.RRuleEFilter
import DateutilVerif.Proofs.RRuleSecondlyBHM
import DateutilVerif.Proofs.RRuleESecondly

namespace RRule
open Cal

structure SecondlyBHMEArgs (a : Args) : Prop where
  freq : a.freq = 6
  interval : 1 ≤ a.interval
  valid : a.dtstart.Valid
  byweekno : a.byweekno = none
  easter : ∃ el, a.byeaster = some el ∧ el ≠ [] ∧ ∀ o ∈ el, -80 ≤ o ∧ o ≤ 250
  monthday_nz : ∀ x ∈ a.bymonthday.getD [], x ≠ 0
  hours : a.byhour = none ∨ ∃ l, a.byhour = some l ∧ l ≠ []
  minutes : a.byminute = none ∨ ∃ l, a.byminute = some l ∧ l ≠ []
  bysecond : a.bysecond = none
  reach : reachableS a

variable {a : Args} {r : Rule}

theorem sbe_dw (sa : SecondlyBHMEArgs a) : DWArgs (asDailyE a) :=
  ⟨Or.inr rfl, sa.interval, sa.valid, sa.byweekno, rfl, sa.monthday_nz⟩

abbrev secondlyBHMERuleOf (a : Args) : Rule :=
  { freq := a.freq, interval := a.interval, wkst := a.wkst.getD 0,
    dtstart := { a.dtstart with us := 0 }, tz := a.tz, count := a.count, untilDT := a.untilDT,
    bysetpos := a.bysetpos, bymonth := a.bymonth.map sortedSet, bymonthday := bymonthdayOf a,
    bynmonthday := bynmonthdayOf a, byyearday := a.byyearday.map sortedSet,
    byeaster := a.byeaster.map (sortBy ltInt), byweekno := none,
    byweekday := byweekdayOf a, bynweekday := bynweekdayOf a,
    byhour := a.byhour.map sortedSet, byminute := a.byminute.map sortedSet, bysecond := none, timeset := none }

theorem sbe_rule (sa : SecondlyBHMEArgs a) (h : construct a = .ok r) : r = secondlyBHMERuleOf a := by
  obtain ⟨sp, bh, bm, bs, ts, h1, h2, h3, h4, h5, rfl⟩ := construct_ok a r h
  have hsp := (normBysetpos_ok a sp h1).1
  subst hsp
  have hbh := normUnit_above _ _ _ _ _ _ _ (by rw [sa.freq]; omega) h2
  have hbm := normUnit_above _ _ _ _ _ _ _ (by rw [sa.freq]; omega) h3
  have hbs : bs = none := by
    unfold normUnit at h4
    rw [sa.bysecond] at h4
    dsimp only at h4
    rw [if_neg (by rw [sa.freq]; omega)] at h4
    injection h4 with h4; exact h4.symm
  have hts : ts = none := by
    unfold timesetOf at h5
    rw [if_pos (by rw [sa.freq]; omega)] at h5
    injection h5 with h5; exact h5.symm
  subst hbh hbm hbs hts
  have hne0 : (a.freq == 0) = false := by simp [sa.freq]
  simp [secondlyBHMERuleOf, hne0, sa.byweekno, bymonthOf]

theorem sbe_cuts (sa : SecondlyBHMEArgs a) (h : construct a = .ok r) : CutsAgree a r := by
  rw [sbe_rule sa h]; exact ⟨rfl, rfl, rfl⟩

theorem sbe_erule (sa : SecondlyBHMEArgs a) (h : construct a = .ok r) : ERule r := by
  have hd := construct_nth_demoted a r h (by rw [sa.freq]; omega)
  have hr := sbe_rule sa h
  rw [hr] at hd ⊢
  refine erule_of a _ sa.easter rfl rfl ?_
  dsimp only at hd ⊢
  rcases hd with hd | hd <;> rw [hd] <;> rfl

theorem sbe_bridge (sa : SecondlyBHMEArgs a) (h : construct a = .ok r) (ord : Int) (ho : 1 ≤ ord) :
    (simpleOk r ord && eclause r ord) = Spec.RRule.dateOk a ord := by
  have hr := sbe_rule sa h
  rw [hr]
  exact eOk_eq_dateOk a _ (by rw [sa.freq]; omega) (sbe_dw sa) sa.easter rfl rfl rfl rfl rfl rfl ord ho

theorem okS_eq_e (sa : SecondlyBHMEArgs a) (h : construct a = .ok r) (V : Int) :
    okS r V = (listedO a.byhour (V / 3600 % 24) && listedO a.byminute (V / 60 % 60)) := by
  rw [sbe_rule sa h]
  unfold okS
  dsimp only
  rw [mlisted _ sa.hours, mlisted _ sa.minutes]

/-- the second's time set in the specification: the second itself when its hour and minute are listed -/
theorem timesOf_sb_e (sa : SecondlyBHMEArgs a) (hour minute second : Int)
    (h0 : 0 ≤ hour) (h1 : hour ≤ 23) (m0 : 0 ≤ minute) (m1 : minute ≤ 59) (s0 : 0 ≤ second) (s1 : second ≤ 59) :
    Spec.RRule.timesOf a (some hour) (some minute) (some second) =
      (if (listedO a.byhour hour && listedO a.byminute minute) = true then [(hour, minute, second)] else []) := by
  have hH : Spec.RRule.hours a = unitList a.byhour 24 := by
    unfold Spec.RRule.hours unitList
    cases a.byhour with
    | some l => rfl
    | none => dsimp only; rw [if_neg (show ¬ a.freq < 4 by rw [sa.freq]; omega)]
  have hM : Spec.RRule.minutes a = unitList a.byminute 60 := by
    unfold Spec.RRule.minutes unitList
    cases a.byminute with
    | some l => rfl
    | none => dsimp only; rw [if_neg (show ¬ a.freq < 5 by rw [sa.freq]; omega)]
  have hS : Spec.RRule.restrict (Spec.RRule.seconds a) (some second) = [second] := by
    unfold Spec.RRule.seconds Spec.RRule.restrict
    rw [sa.bysecond]
    dsimp only
    rw [if_neg (show ¬ a.freq < 6 by rw [sa.freq]; omega), filter_eq_minute second s0 s1]
  unfold Spec.RRule.timesOf
  rw [hS, hH, hM, restrict_listed _ 24 hour (filter_eq_hour hour h0 h1),
    restrict_listed _ 60 minute (filter_eq_minute minute m0 m1)]
  cases listedO a.byhour hour <;> cases listedO a.byminute minute <;> rfl

theorem stimeset_sb_e (sa : SecondlyBHMEArgs a) (hour minute second : Int)
    (h0 : 0 ≤ hour) (h1 : hour ≤ 23) (m0 : 0 ≤ minute) (m1 : minute ≤ 59) (s0 : 0 ≤ second) (s1 : second ≤ 59)
    (hl : (listedO a.byhour hour && listedO a.byminute minute) = true) :
    stimeset hour minute second = .ok (Spec.RRule.timesOf a (some hour) (some minute) (some second)) := by
  rw [timesOf_sb_e sa hour minute second h0 h1 m0 m1 s0 s1, if_pos hl]
  unfold stimeset mkTime
  simp only [bind, Except.bind, pure, Except.pure]
  rw [if_pos ⟨h0, h1, m0, m1, s0, s1⟩]

theorem timesOf_sb_ok_e (sa : SecondlyBHMEArgs a) (hour minute second : Int)
    (h0 : 0 ≤ hour) (h1 : hour ≤ 23) (m0 : 0 ≤ minute) (m1 : minute ≤ 59) (s0 : 0 ≤ second) (s1 : second ≤ 59) :
    TsOk (Spec.RRule.timesOf a (some hour) (some minute) (some second)) := by
  rw [timesOf_sb_e sa hour minute second h0 h1 m0 m1 s0 s1]
  split
  · refine ⟨by simp, ?_⟩
    intro t ht
    simp at ht; subst ht
    exact ⟨h0, h1, m0, m1, s0, s1⟩
  · exact tsOk_nil

theorem sbe_span (sa : SecondlyBHMEArgs a) (ord hour minute second : Int) (k : Nat) (h0 : 0 ≤ hour) (h1 : hour ≤ 23)
    (m0 : 0 ≤ minute) (m1 : minute ≤ 59) (s0 : 0 ≤ second) (s1 : second ≤ 59)
    (hu : ((ord * 24 + hour) * 60 + minute) * 60 + second =
      ((Spec.RRule.startOrd a * 24 + a.dtstart.hh) * 60 + a.dtstart.mm) * 60 + a.dtstart.ss + k * a.interval) :
    Spec.RRule.periodSpan a (k * a.interval) = (ord, ord + 1, some hour, some minute, some second) := by
  unfold Spec.RRule.periodSpan
  rw [if_neg (by simp [sa.freq]), if_neg (by simp [sa.freq]), if_neg (by simp [sa.freq]),
      if_neg (by simp [sa.freq]), if_neg (by simp [sa.freq]), if_neg (by simp [sa.freq])]
  dsimp only
  rw [← hu]
  have e1 : (((ord * 24 + hour) * 60 + minute) * 60 + second) / 86400 = ord := by omega
  have e2 : (((ord * 24 + hour) * 60 + minute) * 60 + second) / 3600 % 24 = hour := by omega
  have e3 : (((ord * 24 + hour) * 60 + minute) * 60 + second) / 60 % 60 = minute := by omega
  have e4 : (((ord * 24 + hour) * 60 + minute) * 60 + second) % 60 = second := by omega
  rw [e1, e2, e3, e4]

theorem sbe_results (sa : SecondlyBHMEArgs a) (h : construct a = .ok r) (k : Nat) (st : State)
    (hg : SecondlyEGood a r k st) (hle : curOrd st.cur ≤ maxOrdinal) :
    ∃ fl, periodResults r st = .ok (Spec.RRule.sel a (k : Int), none, fl) ∧
      (fl = true → Spec.RRule.dateOk a (curOrd st.cur) = false) ∧
      ∀ x ∈ Spec.RRule.sel a (k : Int), 0 ≤ x.ord ∧ x.ord ≤ maxOrdinal := by
  have hw := sbe_erule sa h
  have hfreq : r.freq = 6 := by rw [sbe_rule sa h]; exact sa.freq
  have hsp := construct_bysetpos a r h
  have htsok : TsOk st.timeset := by
    rw [hg.timeset]
    exact timesOf_sb_ok_e sa _ _ _ hg.hour.1 hg.hour.2 hg.minute.1 hg.minute.2 hg.second.1 hg.second.2
  have hpos : 1 ≤ curOrd st.cur := toOrdinal_pos _ _ _ hg.facts.year_lo hg.valid
  obtain ⟨fl, hres, hflag⟩ := periodResults_day_e hw st hg.facts hg.inv hg.valid (by omega)
    (by rw [hsp.1]; exact hsp.2) htsok hle
  have hbridge : (intRange (curOrd st.cur) (curOrd st.cur + 1)).filter (fun o => simpleOk r o && eclause r o) =
      (intRange (curOrd st.cur) (curOrd st.cur + 1)).filter (Spec.RRule.dateOk a) := by
    apply List.filter_congr
    intro o ho
    exact sbe_bridge sa h o (by have := (mem_intRange _ _ _).mp ho; omega)
  have hspan := sbe_span sa (curOrd st.cur) st.cur.hour st.cur.minute st.cur.second k hg.hour.1 hg.hour.2
    hg.minute.1 hg.minute.2 hg.second.1 hg.second.2 hg.idx
  have hsel := sel_span_gen a k _ _ _ _ _ hspan
  refine ⟨fl, ?_, ?_, ?_⟩
  · rw [hres, hg.timeset, hsel, hbridge, hsp.1]
  · intro hf
    rw [← sbe_bridge sa h _ hpos]
    exact hflag hf
  · intro x hx
    rw [hsel] at hx
    have := sel_bounds _ _ _ _ x (applySetpos_subset _ _ x hx)
    omega

/-- a grid second whose hour or minute is not listed selects nothing -/
theorem sbe_skip_unlisted (sa : SecondlyBHMEArgs a) (j : Nat) (ord hour minute second : Int)
    (h0 : 0 ≤ hour) (h1 : hour ≤ 23) (m0 : 0 ≤ minute) (m1 : minute ≤ 59) (s0 : 0 ≤ second) (s1 : second ≤ 59)
    (hu : ((ord * 24 + hour) * 60 + minute) * 60 + second =
      ((Spec.RRule.startOrd a * 24 + a.dtstart.hh) * 60 + a.dtstart.mm) * 60 + a.dtstart.ss + j * a.interval)
    (hno : (listedO a.byhour hour && listedO a.byminute minute) = false) : Spec.RRule.sel a (j : Int) = [] := by
  have hspec := timesOf_sb_e sa hour minute second h0 h1 m0 m1 s0 s1
  rw [hno] at hspec
  simp only [Bool.false_eq_true, ↓reduceIte] at hspec
  rw [sel_span_gen a j _ _ _ _ _ (sbe_span sa ord hour minute second j h0 h1 m0 m1 s0 s1 hu), hspec]
  have : ∀ (l : List Int), l.flatMap (fun o => ([].map (mkInst o) : List Inst)) = [] := by
    intro l; induction l with
    | nil => rfl
    | cons x xs ih => rw [List.flatMap_cons, ih]; rfl
  rw [this]
  exact applySetpos_nil _

/-- a grid second on a day that is not in the set selects nothing -/
theorem sbe_skip_day (sa : SecondlyBHMEArgs a) (k : Nat) (st : State) (hg : SecondlyEGood a r k st)
    (hno : Spec.RRule.dateOk a (curOrd st.cur) = false) (j : Nat) (hkj : k < j)
    (hj : ((j : Int) - k) * a.interval ≤ 86399 - (st.cur.hour * 3600 + st.cur.minute * 60 + st.cur.second)) :
    Spec.RRule.sel a (j : Int) = [] := by
  have hi := sa.interval
  have hh := hg.hour
  have hmm := hg.minute
  have hss := hg.second
  have hpos : (0 : Int) ≤ ((j : Int) - k) * a.interval := Int.mul_nonneg (by omega) (by omega)
  generalize hM : st.cur.hour * 3600 + st.cur.minute * 60 + st.cur.second + ((j : Int) - k) * a.interval = M at *
  have hu : ((curOrd st.cur * 24 + M / 3600) * 60 + M / 60 % 60) * 60 + M % 60 =
      ((Spec.RRule.startOrd a * 24 + a.dtstart.hh) * 60 + a.dtstart.mm) * 60 + a.dtstart.ss + j * a.interval := by
    have := hg.idx
    have e : (j : Int) * a.interval = k * a.interval + ((j : Int) - k) * a.interval := by
      rw [← Int.add_mul]; congr 1; omega
    rw [e]; omega
  have hspan := sbe_span sa (curOrd st.cur) (M / 3600) (M / 60 % 60) (M % 60) j (by omega) (by omega) (by omega)
    (by omega) (by omega) (by omega) hu
  rw [sel_span_gen a j _ _ _ _ _ hspan, intRange_one]
  simp only [List.filter_cons, hno, Bool.false_eq_true, ↓reduceIte, List.filter_nil, List.flatMap_nil]
  exact applySetpos_nil _

/-- one `advance`: the optional jump `X = s0·interval` inside the day, then the reachability loop to the least grid
    second whose hour and minute are listed, `t ≤ 86400` steps further -/
theorem sbe_advance_core (sa : SecondlyBHMEArgs a) (h : construct a = .ok r) (k : Nat) (st : State) (fl : Bool)
    (c : Option Int) (hg : SecondlyEGood a r k st) (s0 : Nat) (X : Int) (hX : X = s0 * a.interval)
    (hX0 : 0 ≤ X) (hXle : X ≤ 86399 - (st.cur.hour * 3600 + st.cur.minute * 60 + st.cur.second))
    (hsec0 : (if fl = true then st.cur.second +
        Py.fdiv (86399 - (st.cur.hour * 3600 + st.cur.minute * 60 + st.cur.second)) r.interval * r.interval
        else st.cur.second) = st.cur.second + X)
    (hle : curOrd st.cur * 86400 + 86399 + 86400 * a.interval < (emaxOrd + 1) * 86400) :
    ∃ (st' : State) (t : Nat), 1 ≤ t ∧ t ≤ 86400 ∧ advance r { st with count := c } fl = .ok st' ∧
      SecondlyEGood a r (k + s0 + t) st' ∧
      ∀ t' : Nat, 1 ≤ t' → t' < t →
        okS r (st.cur.hour * 3600 + st.cur.minute * 60 + st.cur.second + X + t' * a.interval) = false := by
  have hw := sbe_erule sa h
  have hr := sbe_rule sa h
  have hfreq : r.freq = 6 := by rw [hr]; exact sa.freq
  have hint : r.interval = a.interval := by rw [hr]
  have hbs : r.bysecond = none := by rw [hr]
  have hi := sa.interval
  obtain ⟨hm1, hm12, hd1, hd2⟩ := hg.valid
  have hh := hg.hour
  have hmm := hg.minute
  have hss := hg.second
  have hidx := hg.idx
  -- the loop's bound
  obtain ⟨reps, hreps⟩ := reps_pos r.interval 86400 (by omega)
  have hgpos : (0 : Int) < ((Int.gcd r.interval 86400 : Nat) : Int) := by
    have : 0 < Int.gcd r.interval 86400 := Int.gcd_pos_of_ne_zero_right _ (by omega)
    omega
  have hrepsv : ((reps + 1 : Nat) : Int) = 86400 / ((Int.gcd a.interval 86400 : Nat) : Int) := by
    rw [← hint, ← Py.fdiv_pos _ hgpos, ← hreps]
    have : 0 ≤ Py.fdiv 86400 ((Int.gcd r.interval 86400 : Nat) : Int) := by
      rw [Py.fdiv_pos _ hgpos]; exact Int.ediv_nonneg (by omega) (by omega)
    omega
  -- a listed hour and minute are met within the bound
  have hreach : ∃ t : Nat, 1 ≤ t ∧ t ≤ reps + 1 ∧
      okS r (st.cur.hour * 3600 + st.cur.minute * 60 + (st.cur.second + X) + t * r.interval) = true := by
    have hr' := sa.reach
    unfold reachableS at hr'
    rw [List.any_eq_true] at hr'
    obtain ⟨j, _, hj⟩ := hr'
    obtain ⟨t, ht1, ht2, z, hz⟩ := orbit_window a.interval 86400 (by omega) (k + s0) j
    refine ⟨t, ht1, by omega, ?_⟩
    rw [hint]
    have e : ((k + s0 + t : Nat) : Int) * a.interval = k * a.interval + X + (t : Int) * a.interval := by
      rw [hX]; push_cast; rw [Int.add_mul, Int.add_mul]
    have e2 : st.cur.hour * 3600 + st.cur.minute * 60 + (st.cur.second + X) + (t : Int) * a.interval =
        (a.dtstart.hh * 60 + a.dtstart.mm) * 60 + a.dtstart.ss + (j : Int) * a.interval -
          86400 * ((curOrd st.cur - Spec.RRule.startOrd a) - z) := by
      rw [e] at hz; omega
    rw [e2, okS_shift, okS_eq_e sa h]
    exact hj
  obtain ⟨t, ht1, ht2, ht3, ht4, ht5⟩ := secondlyLoop_bhm r (by rw [hint]; exact hi) hbs
    (reps + 1) (st.cur.second + X) st.cur.minute st.cur.hour st.cur.day false (by omega) hmm.1 hh.1 hh.2 hreach
  rw [hint] at ht3 ht4 ht5
  obtain ⟨D, hD⟩ : ∃ D, D = st.cur.hour * 3600 + st.cur.minute * 60 + (st.cur.second + X) + (t : Int) * a.interval :=
    ⟨_, rfl⟩
  rw [← hD] at ht3 ht5
  have hti : (0 : Int) ≤ (t : Int) * a.interval := Int.mul_nonneg (by omega) (by omega)
  have hP : 86400 / ((Int.gcd a.interval 86400 : Nat) : Int) ≤ 86400 := by
    rw [← hint]
    exact Int.ediv_le_self _ (by omega)
  have hti2 : (t : Int) * a.interval ≤ 86400 * a.interval :=
    Int.mul_le_mul_of_nonneg_right (by omega) (by omega)
  have ht86400 : t ≤ 86400 := by omega
  obtain ⟨nd, hnd⟩ : ∃ nd, nd = D / 86400 := ⟨_, rfl⟩
  obtain ⟨hr', hhr'⟩ : ∃ hr', hr' = D / 3600 % 24 := ⟨_, rfl⟩
  obtain ⟨mi', hmi'⟩ : ∃ mi', mi' = D / 60 % 60 := ⟨_, rfl⟩
  obtain ⟨se', hse'⟩ : ∃ se', se' = D % 60 := ⟨_, rfl⟩
  have hDn : 0 ≤ D := by omega
  have hdm : nd * 86400 + hr' * 3600 + mi' * 60 + se' = D ∧ 0 ≤ se' ∧ se' ≤ 59 ∧ 0 ≤ mi' ∧ mi' ≤ 59 ∧
      0 ≤ hr' ∧ hr' ≤ 23 ∧ 0 ≤ nd := by omega
  obtain ⟨d1, d2, d3, d4, d5, d6, d7, d8⟩ := hdm
  rw [okS_eq_e sa h, ← hhr', ← hmi'] at ht3
  have hts := stimeset_sb_e sa hr' mi' se' d6 d7 d4 d5 d2 d3 ht3
  have ek : ((k + s0 + t : Nat) : Int) * a.interval = k * a.interval + X + (t : Int) * a.interval := by
    rw [hX]; push_cast; rw [Int.add_mul, Int.add_mul]
  have hadv : ∃ st', advance r { st with count := c } fl = .ok st' ∧ SecondlyEGood a r (k + s0 + t) st' := by
    unfold advance
    dsimp only
    rw [if_neg (by simp [hfreq]), if_neg (by simp [hfreq]), if_neg (by simp [hfreq]), if_neg (by simp [hfreq]),
        if_neg (by simp [hfreq]), if_neg (by simp [hfreq]), if_pos (by simp [hfreq]), hsec0, hreps, ht5]
    dsimp only
    rw [← hse', ← hmi', ← hhr', ← hnd]
    unfold gettimeset
    rw [if_neg (by simp [hfreq]), if_neg (by simp [hfreq]), hts]
    dsimp only
    by_cases hz : nd = 0
    · subst hz
      simp only [ne_eq, not_true_eq_false, decide_false, Bool.or_false, Int.add_zero]
      rw [fixDay_false]
      refine ⟨_, rfl, ⟨hg.facts, hg.inv, hg.valid, ⟨d6, d7⟩, ⟨d4, d5⟩, ⟨d2, d3⟩, ?_, rfl⟩⟩
      dsimp only
      have : curOrd { st.cur with day := st.cur.day, hour := hr', minute := mi', second := se' } = curOrd st.cur := rfl
      rw [this, ek]; omega
    · simp only [ne_eq, hz, not_false_eq_true, decide_true, Bool.or_true]
      have hcur : curOrd { st.cur with day := st.cur.day + nd, hour := hr', minute := mi', second := se' } =
          curOrd st.cur + nd := by
        unfold curOrd toOrdinal; dsimp only; omega
      obtain ⟨st', hfix, hnw'⟩ := fixDay_ok_e hw
        { cur := { st.cur with day := st.cur.day + nd, hour := hr', minute := mi', second := se' }, info := st.info,
          timeset := Spec.RRule.timesOf a (some hr') (some mi') (some se'), count := c }
        true hg.facts hm1 hm12 (by dsimp only; omega) (by dsimp only; rw [hcur]; omega) hg.inv
      have sp := fixDay_spec r _ st' hfix hm1 hm12 (by dsimp only; omega) hg.facts
      obtain ⟨e, v, f', eh, em, es, _, ts⟩ := sp
      refine ⟨st', hfix, ⟨f', hnw', v, by rw [eh]; exact ⟨d6, d7⟩, by rw [em]; exact ⟨d4, d5⟩,
        by rw [es]; exact ⟨d2, d3⟩, ?_, by rw [ts, eh, em, es]⟩⟩
      rw [e, eh, em, es]
      dsimp only
      rw [hcur, ek]; omega
  obtain ⟨st', hadv', hg'⟩ := hadv
  refine ⟨st', t, ht1, ht86400, hadv', hg', ?_⟩
  intro t' a1 a2
  have := ht4 t' a1 a2
  have e : st.cur.hour * 3600 + st.cur.minute * 60 + st.cur.second + X + (t' : Int) * a.interval =
      st.cur.hour * 3600 + st.cur.minute * 60 + (st.cur.second + X) + (t' : Int) * a.interval := by omega
  rw [e]; exact this

theorem sbe_next (sa : SecondlyBHMEArgs a) (h : construct a = .ok r) (k : Nat) (st : State) (fl : Bool)
    (c : Option Int) (hg : SecondlyEGood a r k st)
    (hfl : fl = true → Spec.RRule.dateOk a (curOrd st.cur) = false)
    (hle : curOrd st.cur * 86400 + 86399 + 86400 * a.interval < (emaxOrd + 1) * 86400) :
    ∃ st' k', advance r { st with count := c } fl = .ok st' ∧ k < k' ∧ k' ≤ k + 172800 ∧ SecondlyEGood a r k' st' ∧
      ∀ j : Nat, k < j → j < k' → Spec.RRule.sel a (j : Int) = [] := by
  have hr := sbe_rule sa h
  have hint : r.interval = a.interval := by rw [hr]
  have hi := sa.interval
  have hh := hg.hour
  have hmm := hg.minute
  have hss := hg.second
  have htail : ∀ (s0 : Nat) (X : Int), X = s0 * a.interval → 0 ≤ X →
      X ≤ 86399 - (st.cur.hour * 3600 + st.cur.minute * 60 + st.cur.second) → ∀ (s : Nat),
      (∀ t : Nat, 1 ≤ t → t < s →
        okS r (st.cur.hour * 3600 + st.cur.minute * 60 + st.cur.second + X + t * a.interval) = false) →
      ∀ j : Nat, k + s0 < j → j < k + s0 + s → Spec.RRule.sel a (j : Int) = [] := by
    intro s0 X hX hX0 hXle s hmin j hj1 hj2
    have ht := hmin (j - k - s0) (by omega) (by omega)
    have ecast : (((j - k - s0 : Nat)) : Int) = (j : Int) - k - s0 := by omega
    rw [ecast, okS_eq_e sa h] at ht
    have hpos : (0 : Int) ≤ ((j : Int) - k - s0) * a.interval := Int.mul_nonneg (by omega) (by omega)
    generalize hV : st.cur.hour * 3600 + st.cur.minute * 60 + st.cur.second + X + ((j : Int) - k - s0) * a.interval = V
      at ht
    apply sbe_skip_unlisted sa j (curOrd st.cur + V / 86400) (V / 3600 % 24) (V / 60 % 60) (V % 60)
      (by omega) (by omega) (by omega) (by omega) (by omega) (by omega) ?_ ht
    have := hg.idx
    have e : (j : Int) * a.interval = k * a.interval + X + ((j : Int) - k - s0) * a.interval := by
      rw [hX, ← Int.add_mul, ← Int.add_mul]; congr 1; omega
    rw [e]; omega
  cases fl with
  | false =>
    obtain ⟨st', s, hs1, hs2, hadv, hg', hmin⟩ := sbe_advance_core sa h k st false c hg 0 0 (by simp) (by omega)
      (by omega) (by simp) hle
    refine ⟨st', k + 0 + s, hadv, by omega, by omega, hg', ?_⟩
    intro j h1 h2
    exact htail 0 0 (by simp) (by omega) (by omega) s hmin j (by omega) (by omega)
  | true =>
    generalize hR : 86399 - (st.cur.hour * 3600 + st.cur.minute * 60 + st.cur.second) = R at *
    have hR0 : 0 ≤ R := by omega
    have hq0 : 0 ≤ R / a.interval := Int.ediv_nonneg hR0 (by omega)
    have hqX : R / a.interval * a.interval ≤ R := Int.ediv_mul_le _ (by omega)
    have hq1 : R / a.interval * 1 ≤ R / a.interval * a.interval := Int.mul_le_mul_of_nonneg_left hi hq0
    have hcast : ((R / a.interval).toNat : Int) = R / a.interval := Int.toNat_of_nonneg hq0
    obtain ⟨st', s, hs1, hs2, hadv, hg', hmin⟩ := sbe_advance_core sa h k st true c hg (R / a.interval).toNat
      (R / a.interval * a.interval) (by rw [hcast]) (Int.mul_nonneg hq0 (by omega)) (by rw [hR]; exact hqX)
      (by simp only [↓reduceIte]; rw [hR, Py.fdiv_pos _ (by omega), hint]) hle
    refine ⟨st', k + (R / a.interval).toNat + s, hadv, by omega, by omega, hg', ?_⟩
    intro j h1 h2
    by_cases hc : j ≤ k + (R / a.interval).toNat
    · apply sbe_skip_day sa k st hg (hfl rfl) j h1
      have hjq : (j : Int) - k ≤ R / a.interval := by omega
      have := Int.mul_le_mul_of_nonneg_right hjq (show (0 : Int) ≤ a.interval by omega)
      omega
    · exact htail _ _ (by rw [hcast]) (Int.mul_nonneg hq0 (by omega)) hqX s hmin j (by omega) h2

theorem sbe_init (sa : SecondlyBHMEArgs a) (h : construct a = .ok r) (hlo : 1583 ≤ a.dtstart.y)
    (hhi : Spec.RRule.startOrd a ≤ emaxOrd) :
    ∃ st0, init r = .ok st0 ∧ SecondlyEGood a r 0 st0 ∧ st0.count = r.count := by
  have hw := sbe_erule sa h
  have hv := sa.valid
  unfold DT.Valid ValidDate at hv
  obtain ⟨info, hre, hnw⟩ := rebuild_e hw a.dtstart.y a.dtstart.m hlo (start_year_hi a sa.valid hhi)
  have hr := sbe_rule sa h
  have hd : r.dtstart = { a.dtstart with us := 0 } := by rw [hr]
  have hf : r.freq = 6 := by rw [hr]; exact sa.freq
  have hbh : r.byhour = a.byhour.map sortedSet := by rw [hr]
  have hbm : r.byminute = a.byminute.map sortedSet := by rw [hr]
  have hbs : r.bysecond = none := by rw [hr]
  have htn : truthy (none : Option (List Int)) = false := rfl
  have hH := mlisted _ sa.hours a.dtstart.hh
  have hM := mlisted _ sa.minutes a.dtstart.mm
  have hspec := timesOf_sb_e sa a.dtstart.hh a.dtstart.mm a.dtstart.ss hv.2.1 hv.2.2.1 hv.2.2.2.1 hv.2.2.2.2.1
    hv.2.2.2.2.2.1 hv.2.2.2.2.2.2.1
  refine ⟨{ cur := { year := a.dtstart.y, month := a.dtstart.m, day := a.dtstart.d, hour := a.dtstart.hh,
                     minute := a.dtstart.mm, second := a.dtstart.ss, weekday := r.dtstart.weekday },
            info := info,
            timeset := Spec.RRule.timesOf a (some a.dtstart.hh) (some a.dtstart.mm) (some a.dtstart.ss),
            count := r.count }, ?_, ?_, rfl⟩
  · unfold init gettimeset
    simp only [hd, bind, Except.bind, hre, hf, hbh, hbm, hbs, htn, pure, Except.pure]
    have hcond : ∀ (T1 M1 T2 M2 Y : Bool),
        (decide ((6 : Int) ≥ 4) && T1 && !M1 || decide ((6 : Int) ≥ 5) && T2 && !M2 ||
          decide ((6 : Int) ≥ 6) && false && Y) = !((!T1 || M1) && (!T2 || M2)) := by
      intro T1 M1 T2 M2 Y
      cases T1 <;> cases M1 <;> cases T2 <;> cases M2 <;> cases Y <;> decide
    rw [if_neg (show ¬ (6 : Int) < 4 by decide), hcond, hH, hM]
    by_cases hl : (listedO a.byhour a.dtstart.hh && listedO a.byminute a.dtstart.mm) = true
    · have hts := stimeset_sb_e sa a.dtstart.hh a.dtstart.mm a.dtstart.ss hv.2.1 hv.2.2.1 hv.2.2.2.1 hv.2.2.2.2.1
        hv.2.2.2.2.2.1 hv.2.2.2.2.2.2.1 hl
      rw [hl, if_neg (show ¬ (!true) = true by decide), if_neg (show ¬ ((6 : Int) == 4) = true by decide),
        if_neg (show ¬ ((6 : Int) == 5) = true by decide), hts]
    · have hl' : (listedO a.byhour a.dtstart.hh && listedO a.byminute a.dtstart.mm) = false := by
        cases hq : (listedO a.byhour a.dtstart.hh && listedO a.byminute a.dtstart.mm) with
        | false => rfl
        | true => exact absurd hq hl
      rw [hspec, hl', if_pos (show (!false) = true by decide), if_neg (show ¬ false = true by decide)]
  · refine ⟨rebuild_facts r _ _ info hre, hnw, hv.1.2.2, ⟨hv.2.1, hv.2.2.1⟩, ⟨hv.2.2.2.1, hv.2.2.2.2.1⟩,
      ⟨hv.2.2.2.2.2.1, hv.2.2.2.2.2.2.1⟩, ?_, rfl⟩
    unfold curOrd Spec.RRule.startOrd DT.ordinal; simp

/-- **`iter_eq_spec_secondly_bhm_easter`**: `iter_eq_spec_secondly_bhm` with BYEASTER instead of "no BYEASTER" —
    offsets −80..250 (the complement of D-C01d), no BYWEEKNO, a start in a year ≥ 1583 and every visited day not
    after 31 December 4099 (where C19 ties `easter.easter` to Meeus/Jones/Butcher); everything else as there, `n ≤
    m ≤ 172800·n`. -/
theorem iter_eq_spec_secondly_bhm_easter (sa : SecondlyBHMEArgs a) (h : construct a = .ok r) (n : Nat)
    (hlo : 1583 ≤ a.dtstart.y)
    (hle : ((Spec.RRule.startOrd a * 24 + a.dtstart.hh) * 60 + a.dtstart.mm) * 60 + a.dtstart.ss +
      (172800 * n + 86400) * a.interval + 86399 < (Cal.toOrdinal 4099 12 31 + 1) * 86400) :
    ∃ m, n ≤ m ∧ m ≤ 172800 * n ∧ (iter r n).1 = Spec.RRule.occ a m := by
  have hi := sa.interval
  have hmx := emaxOrd_le
  have hE : Cal.toOrdinal 4099 12 31 = emaxOrd := rfl
  rw [hE] at hle
  have hnn : (0 : Int) ≤ ((172800 * n + 86400 : Int)) * a.interval := Int.mul_nonneg (by omega) (by omega)
  have hbound : ∀ k : Nat, k < 172800 * n → ∀ st, SecondlyEGood a r k st →
      curOrd st.cur * 86400 + 86399 + 86400 * a.interval < (emaxOrd + 1) * 86400 := by
    intro k hk st hg
    have := hg.idx
    have hh := hg.hour
    have hmm := hg.minute
    have hss := hg.second
    have hmono : (k : Int) * a.interval ≤ (172800 * (n : Int)) * a.interval :=
      Int.mul_le_mul_of_nonneg_right (by omega) (by omega)
    have e' : ((172800 : Int) * n + 86400) * a.interval = (172800 * (n : Int)) * a.interval + 86400 * a.interval := by
      rw [Int.add_mul]
    rw [e'] at hle
    omega
  have sim : SkipSim a r (172800 * n) 172800 (SecondlyEGood a r) := {
    agree := sbe_cuts sa h
    step := by
      intro k st hk hg
      have hb := hbound k hk st hg
      have hi2 : a.interval ≤ 86400 * a.interval := by omega
      obtain ⟨fl, hres, hflag, hbnd⟩ := sbe_results sa h k st hg (by omega)
      refine ⟨fl, [], Spec.RRule.sel a (k : Int), hres, rfl, by simp, hbnd, ?_⟩
      intro c
      exact sbe_next sa h k st fl c hg hflag hb }
  have hv := sa.valid
  unfold DT.Valid at hv
  obtain ⟨st0, hinit, hg0, hc0⟩ := sbe_init sa h hlo (by omega)
  exact iter_refines_skip sim (by omega) st0 hinit hg0 hc0 n (by omega)

-- non-vacuity: the hypotheses are satisfiable
example : SecondlyBHMEArgs { freq := 6, dtstart := ⟨2024, 1, 1, 9, 0, 0, 0⟩, interval := 45, byeaster := some [0, 1],
                             byminute := some [0, 30] } :=
  { freq := rfl, interval := (by decide), valid := (by decide), byweekno := rfl,
    easter := ⟨[0, 1], rfl, by simp, by intro o ho; simp at ho; omega⟩,
    monthday_nz := (by intro x hx; simp at hx), hours := Or.inl rfl, minutes := Or.inr ⟨[0, 30], rfl, by decide⟩,
    bysecond := rfl, reach := List.any_eq_true.mpr ⟨0, List.mem_range.mpr (by omega), by decide⟩ }

end RRule
