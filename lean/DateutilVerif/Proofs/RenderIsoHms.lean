/-
  Proofs/RenderIsoHms.lean — token scan of `YYYY-MM-DD<sep>HH:MM:SS<offset>`, every offset spelling.
-/
import DateutilVerif.Proofs.RenderIsoX

namespace PM
open Py PT

set_option maxHeartbeats 4000000 in
theorem tok_iso_hms (cls : Char → CClass) [AsciiOK cls] (yf : Bool) (year century : Int) (o : Opts) (tznames : List Token)
    (tzi : TzInfos) (ho : PlainOpts o tzi) (dflt : DT) (y m d h mi s us : Nat) (S : Token) (hS : S = ['T'] ∨ S = [' '])
    (hv : (DT.mk y m d h mi s us).Valid) (off : Off) (hoff : off.Dom) (hus : us = 0) :
    parseResult cls (Info.default false yf year century) o tznames tzi dflt
      (isoDateTokens y m d S ++ [dtok [h / 10, h], [':'], dtok [mi / 10, mi], [':'], dtok [s / 10, s]] ++ offTokens off) =
      .ok { dt := DT.mk y m d h mi s us, tz := if o.ignoretz then .naive else offDescr tznames off, tokens := none } := by
  obtain ⟨⟨hy1, hy2, hm1, hm2, hd1, hd2⟩, hh1, hh2, hmi1, hmi2, hs1, hs2, hu1, hu2⟩ := hv
  dsimp only at *
  have hdim := (Cal.daysInMonth_bounds (y : Int) (m : Int)).2
  have by' : y < 10000 := by omega
  have bm : m < 100 := by omega
  have bd : d < 100 := by omega
  have bh : h < 100 := by omega
  have bmi : mi < 100 := by omega
  have bs : s < 100 := by omega
  obtain ⟨hfz, hfwt, hdf, htz1, htz2⟩ := ho
  have hvalid : (DT.mk (y : Int) m d h mi s us).valid = true := by
    unfold DT.valid
    exact decide_eq_true ⟨⟨hy1, hy2, hm1, hm2, hd1, hd2⟩, hh1, hh2, hmi1, hmi2, hs1, hs2, hu1, hu2⟩
  have n1 : ¬ (2147483647 : Int) < y := by omega
  have n2 : ¬ (2147483647 : Int) < m := by omega
  have n3 : ¬ (2147483647 : Int) < d := by omega
  have n4 : ¬ (2147483647 : Int) < h := by omega
  have n5 : ¬ (2147483647 : Int) < mi := by omega
  have n6 : ¬ (2147483647 : Int) < s := by omega
  have n7 : ¬ (2147483647 : Int) < us := by omega
  subst hus
  have hvalid' : (DT.mk (y : Int) m d h mi s 0).valid = true := by simpa using hvalid
  rcases hS with rfl | rfl <;>
  rcases off with _ | sp | _ | ⟨sp, neg, oh⟩ | ⟨sp, neg, oh, om⟩ | ⟨sp, neg, oh, om⟩
  all_goals (try cases sp) <;> (try cases neg)
  all_goals (try simp only [Off.Dom] at hoff)
  all_goals (try (have boh : oh < 100 := by omega))
  all_goals (try (have bom : om < 100 := by omega))
  all_goals (try (have hok := offsetOk_hm oh om (by omega) (by omega)))
  all_goals (try (have hok := offsetOk_hm oh 0 (by omega) (by omega)))
  all_goals (try (by_cases hz1 : oh = 0)) <;> (try (by_cases hz2 : om = 0))
  all_goals (try subst hz1) <;> (try subst hz2)
  all_goals
    psimpa [isoDateTokens, offTokens, offDescr, Off.seconds, spT, sgn, utcOrLocal, off_zero_iff, off_zero_iff', off_zero_iff'']
  all_goals (try (by_cases hig : o.ignoretz = true <;> by_cases hu : ['U', 'T', 'C'] ∈ tznames <;> simp [hig, hu]))

end PM
