/-
  Proofs/RRuleConstructSetIter.lean — BYEASTER with repeated members.  `rrule.__init__` keeps
  `tuple(sorted(byeaster))` WITHOUT `set()`, so two BYEASTER lists with the same members but different multiplicities
  give rules that differ in that one field; the iteration does not see the difference: the Easter mask marks
  idempotently (`buildEastermask`), and the only other use is the truth value of the tuple.
  (`setEaster r e'` is `r` with another BYEASTER tuple; `iter_setEaster`: same members ⇒ same `iter`.)
-/
import DateutilVerif.Proofs.RRuleConstructSet

namespace RRule

/-! ### marking a list of indices is a function of the set of indices -/

/-- Python's index normalisation inside `setIdx` -/
def pyIdx (n i : Int) : Int := if i < 0 then i + n else i

def idxOk (n i : Int) : Prop := 0 ≤ pyIdx n i ∧ pyIdx n i < n

theorem setIdx_ok (l : List Int) (i v : Int) (h : idxOk l.length i) :
    setIdx l i v = .ok (l.set (pyIdx l.length i).toNat v) := by
  unfold idxOk pyIdx at h
  unfold setIdx pyIdx
  dsimp only
  rw [if_neg (by omega)]

theorem setIdx_err (l : List Int) (i v : Int) (h : ¬ idxOk l.length i) : setIdx l i v = .error .IndexError := by
  unfold idxOk pyIdx at h
  unfold setIdx
  dsimp only
  rw [if_pos (by omega)]

theorem foldSet_ok (base : Int) : ∀ (offs : List Int) (mask : List Int),
    (∀ o ∈ offs, idxOk mask.length (base + o)) →
    ∃ m', offs.foldlM (fun m off => setIdx m (base + off) 1) mask = .ok m' ∧ m'.length = mask.length ∧
      ∀ k : Nat, ((∃ o ∈ offs, pyIdx mask.length (base + o) = (k : Int)) → k < mask.length → m'[k]? = some 1) ∧
        ((¬ ∃ o ∈ offs, pyIdx mask.length (base + o) = (k : Int)) → m'[k]? = mask[k]?) := by
  intro offs
  induction offs with
  | nil => intro mask _; exact ⟨mask, rfl, rfl, fun k => ⟨(by rintro ⟨o, ho, _⟩; cases ho), fun _ => rfl⟩⟩
  | cons o os ih =>
    intro mask hb
    have ho := hb o (List.mem_cons_self ..)
    have hlen : (mask.set (pyIdx mask.length (base + o)).toNat 1).length = mask.length := List.length_set ..
    obtain ⟨m2, h2, hl2, hg2⟩ := ih (mask.set (pyIdx mask.length (base + o)).toNat 1)
      (by intro o' ho'; rw [hlen]; exact hb o' (List.mem_cons_of_mem _ ho'))
    rw [hlen] at hl2 hg2
    refine ⟨m2, ?_, hl2, ?_⟩
    · rw [List.foldlM_cons, setIdx_ok _ _ _ ho]; exact h2
    · intro k
      have hk := hg2 k
      unfold idxOk at ho
      constructor
      · rintro ⟨o', ho', he⟩ hlt
        by_cases c : ∃ o'' ∈ os, pyIdx mask.length (base + o'') = (k : Int)
        · exact hk.1 c hlt
        · rw [hk.2 c]
          rcases List.mem_cons.mp ho' with rfl | ho''
          · rw [List.getElem?_set]
            have : (pyIdx mask.length (base + o')).toNat = k := by omega
            rw [if_pos this, if_pos (by omega)]
          · exact absurd ⟨o', ho'', he⟩ c
      · intro hno
        have c : ¬ ∃ o'' ∈ os, pyIdx mask.length (base + o'') = (k : Int) := by
          rintro ⟨o'', ho'', he⟩; exact hno ⟨o'', List.mem_cons_of_mem _ ho'', he⟩
        rw [hk.2 c, List.getElem?_set]
        have : ¬ (pyIdx mask.length (base + o)).toNat = k := by
          intro he; exact hno ⟨o, List.mem_cons_self .., by omega⟩
        rw [if_neg this]

theorem foldSet_err (base : Int) : ∀ (offs : List Int) (mask : List Int),
    (∃ o ∈ offs, ¬ idxOk mask.length (base + o)) →
    offs.foldlM (fun m off => setIdx m (base + off) 1) mask = .error .IndexError := by
  intro offs
  induction offs with
  | nil => intro mask ⟨o, ho, _⟩; cases ho
  | cons o os ih =>
    intro mask ⟨o', ho', hbad⟩
    rw [List.foldlM_cons]
    by_cases c : idxOk mask.length (base + o)
    · rw [setIdx_ok _ _ _ c]
      have hlen : (mask.set (pyIdx mask.length (base + o)).toNat 1).length = mask.length := List.length_set ..
      apply ih
      rcases List.mem_cons.mp ho' with rfl | ho''
      · exact absurd c hbad
      · exact ⟨o', ho'', by rw [hlen]; exact hbad⟩
    · rw [setIdx_err _ _ _ c]; rfl

/-- the marking loop depends only on the set of offsets -/
theorem foldSet_ext (base : Int) (offs offs' : List Int) (mask : List Int) (h : ∀ x, x ∈ offs ↔ x ∈ offs') :
    offs.foldlM (fun m off => setIdx m (base + off) 1) mask =
      offs'.foldlM (fun m off => setIdx m (base + off) 1) mask := by
  by_cases c : ∀ o ∈ offs, idxOk mask.length (base + o)
  · have c' : ∀ o ∈ offs', idxOk mask.length (base + o) := fun o ho => c o ((h o).mpr ho)
    obtain ⟨m1, e1, l1, g1⟩ := foldSet_ok base offs mask c
    obtain ⟨m2, e2, l2, g2⟩ := foldSet_ok base offs' mask c'
    rw [e1, e2]
    congr 1
    apply List.ext_getElem?
    intro k
    by_cases ck : ∃ o ∈ offs, pyIdx mask.length (base + o) = (k : Int)
    · have ck' : ∃ o ∈ offs', pyIdx mask.length (base + o) = (k : Int) := by
        obtain ⟨o, ho, he⟩ := ck; exact ⟨o, (h o).mp ho, he⟩
      have hlt : k < mask.length := by
        obtain ⟨o, ho, he⟩ := ck
        have := c o ho
        unfold idxOk at this
        omega
      rw [(g1 k).1 ck hlt, (g2 k).1 ck' hlt]
    · have ck' : ¬ ∃ o ∈ offs', pyIdx mask.length (base + o) = (k : Int) := by
        rintro ⟨o, ho, he⟩; exact ck ⟨o, (h o).mpr ho, he⟩
      rw [(g1 k).2 ck, (g2 k).2 ck']
  · have c1 : ∃ o ∈ offs, ¬ idxOk mask.length (base + o) := by
      by_cases c2 : ∃ o ∈ offs, ¬ idxOk mask.length (base + o)
      · exact c2
      · exfalso; apply c; intro o ho
        by_cases c3 : idxOk mask.length (base + o)
        · exact c3
        · exact absurd ⟨o, ho, c3⟩ c2
    have c1' : ∃ o ∈ offs', ¬ idxOk mask.length (base + o) := by
      obtain ⟨o, ho, hb⟩ := c1; exact ⟨o, (h o).mp ho, hb⟩
    rw [foldSet_err base offs mask c1, foldSet_err base offs' mask c1']

theorem buildEastermask_ext (el el' : List Int) (year yearlen yearordinal : Int) (h : ∀ x, x ∈ el ↔ x ∈ el') :
    buildEastermask el year yearlen yearordinal = buildEastermask el' year yearlen yearordinal := by
  unfold buildEastermask
  simp only [bind, Except.bind]
  split
  · rfl
  · split
    · rfl
    · exact foldSet_ext _ el el' _ h

/-! ### the iteration does not see multiplicities in BYEASTER -/

/-- the rule with another BYEASTER tuple -/
def setEaster (r : Rule) (e' : Option (List Int)) : Rule := { r with byeaster := e' }

variable {r : Rule} {e' : Option (List Int)}

theorem truthy_sameMembers {o o' : Option (List Int)} (h : sameMembers o o') : truthy o = truthy o' := by
  rcases h with ⟨h1, h2⟩ | ⟨l, l', h1, h2, hm⟩
  · rw [h1, h2]
  · rw [h1, h2, truthy_eq_not_isEmpty, truthy_eq_not_isEmpty, isEmpty_of_mem_iff l l' hm]

theorem eastermaskOf_set (h : sameMembers r.byeaster e') (y : Int) (b : Info) :
    eastermaskOf (setEaster r e') y b = eastermaskOf r y b := by
  unfold eastermaskOf setEaster
  dsimp only
  rcases h with ⟨h1, h2⟩ | ⟨l, l', h1, h2, hm⟩
  · rw [h1, h2]
  · rw [h1, h2]
    cases l with
    | nil =>
      cases l' with
      | nil => rfl
      | cons x xs => exact absurd ((hm x).mpr (List.mem_cons_self ..)) (by simp)
    | cons x xs =>
      cases l' with
      | nil => exact absurd ((hm x).mp (List.mem_cons_self ..)) (by simp)
      | cons x' xs' =>
        dsimp only
        rw [buildEastermask_ext (x' :: xs') (x :: xs) _ _ _ (fun z => (hm z).symm)]

theorem rebuild_set (h : sameMembers r.byeaster e') (y m : Int) :
    rebuild (setEaster r e') y m = rebuild r y m := by
  unfold rebuild
  rw [eastermaskOf_set h]
  rfl

theorem dayFiltered_set (h : sameMembers r.byeaster e') (info : Info) (i : Int) :
    dayFiltered (setEaster r e') info i = dayFiltered r info i := by
  have ht : truthy (setEaster r e').byeaster = truthy r.byeaster := (truthy_sameMembers h).symm
  unfold dayFiltered
  rw [ht]
  rfl

theorem filterDays_set (h : sameMembers r.byeaster e') (info : Info) : ∀ ds : List Int,
    filterDays (setEaster r e') info ds = filterDays r info ds := by
  intro ds
  induction ds with
  | nil => rfl
  | cons i is ih =>
    unfold filterDays
    rw [dayFiltered_set h, ih]

theorem emit_set (r : Rule) (e' : Option (List Int)) : ∀ (l : List Inst) (c : Option Int),
    emit (setEaster r e') l c = emit r l c := by
  intro l
  induction l with
  | nil => intro c; rfl
  | cons x xs ih =>
    intro c
    unfold emit
    have h1 : afterUntil (setEaster r e') x = afterUntil r x := rfl
    have h2 : (setEaster r e').dtstart = r.dtstart := rfl
    rw [h1, h2]
    split
    · rfl
    · split
      · cases c with
        | none => dsimp only; rw [ih]
        | some n => dsimp only; split; rfl; rw [ih]
      · rw [ih]

theorem periodResults_set (h : sameMembers r.byeaster e') (st : State) :
    periodResults (setEaster r e') st = periodResults r st := by
  unfold periodResults
  have h1 : dayset (setEaster r e') st.info st.cur = dayset r st.info st.cur := rfl
  have h2 : (setEaster r e').bysetpos = r.bysetpos := rfl
  rw [h1, h2]
  simp only [filterDays_set h]

theorem fixDay_set (h : sameMembers r.byeaster e') (st : State) (b : Bool) :
    fixDay (setEaster r e') st b = fixDay r st b := by
  unfold fixDay
  simp only [rebuild_set h]

theorem minutelyLoop_set (r : Rule) (e' : Option (List Int)) : ∀ (n : Nat) (mi h d : Int) (fx : Bool),
    minutelyLoop (setEaster r e') n mi h d fx = minutelyLoop r n mi h d fx := by
  intro n
  induction n with
  | zero => intro _ _ _ _; rfl
  | succ n ih =>
    intro mi h d fx
    unfold minutelyLoop
    have h1 : (setEaster r e').byminute = r.byminute := rfl
    have h2 : (setEaster r e').byhour = r.byhour := rfl
    have h3 : (setEaster r e').interval = r.interval := rfl
    rw [h1, h2, h3]
    simp only [ih]

theorem secondlyLoop_set (r : Rule) (e' : Option (List Int)) : ∀ (n : Nat) (s mi h d : Int) (fx : Bool),
    secondlyLoop (setEaster r e') n s mi h d fx = secondlyLoop r n s mi h d fx := by
  intro n
  induction n with
  | zero => intro _ _ _ _ _; rfl
  | succ n ih =>
    intro s mi h d fx
    unfold secondlyLoop
    have h0 : (setEaster r e').bysecond = r.bysecond := rfl
    have h1 : (setEaster r e').byminute = r.byminute := rfl
    have h2 : (setEaster r e').byhour = r.byhour := rfl
    have h3 : (setEaster r e').interval = r.interval := rfl
    rw [h0, h1, h2, h3]
    simp only [ih]

theorem advance_set (h : sameMembers r.byeaster e') (st : State) (b : Bool) :
    advance (setEaster r e') st b = advance r st b := by
  unfold advance
  have hg : ∀ x y z, gettimeset (setEaster r e') x y z = gettimeset r x y z := fun _ _ _ => rfl
  have h1 : (setEaster r e').freq = r.freq := rfl
  have h2 : (setEaster r e').interval = r.interval := rfl
  have h3 : (setEaster r e').wkst = r.wkst := rfl
  have h4 : (setEaster r e').byhour = r.byhour := rfl
  simp only [h1, h2, h3, h4, hg, rebuild_set h, fixDay_set h, minutelyLoop_set, secondlyLoop_set]

theorem step_set (h : sameMembers r.byeaster e') (st : State) : step (setEaster r e') st = step r st := by
  unfold step
  simp only [periodResults_set h, emit_set, advance_set h]

theorem init_set (h : sameMembers r.byeaster e') : init (setEaster r e') = init r := by
  unfold init
  have hg : ∀ x y z, gettimeset (setEaster r e') x y z = gettimeset r x y z := fun _ _ _ => rfl
  have h1 : (setEaster r e').freq = r.freq := rfl
  have h2 : (setEaster r e').dtstart = r.dtstart := rfl
  have h3 : (setEaster r e').timeset = r.timeset := rfl
  have h4 : (setEaster r e').byhour = r.byhour := rfl
  have h5 : (setEaster r e').byminute = r.byminute := rfl
  have h6 : (setEaster r e').bysecond = r.bysecond := rfl
  have h7 : (setEaster r e').count = r.count := rfl
  simp only [h1, h2, h3, h4, h5, h6, h7, hg, rebuild_set h]

theorem run_set (h : sameMembers r.byeaster e') : ∀ (n : Nat) (st : State),
    run (setEaster r e') n st = run r n st := by
  intro n
  induction n with
  | zero => intro _; rfl
  | succ n ih =>
    intro st
    unfold run
    rw [step_set h]
    simp only [ih]

/-- **multiplicities in BYEASTER are invisible to the iteration** -/
theorem iter_setEaster (r : Rule) (e' : Option (List Int)) (h : sameMembers r.byeaster e') (n : Nat) :
    iter (setEaster r e') n = iter r n := by
  unfold iter
  rw [init_set h]
  simp only [run_set h]

/-- two argument sets that differ only in BYEASTER, with the same members: the constructed rules differ at most in the
    BYEASTER tuple, and yield the same values and the same end -/
theorem construct_easter_dup_iter (a : Args) (el el' : List Int) (ha : a.byeaster = some el)
    (hm : ∀ x, x ∈ el ↔ x ∈ el') (r r' : Rule) (h : construct a = .ok r)
    (h' : construct { a with byeaster := some el' } = .ok r') (n : Nat) : iter r' n = iter r n := by
  have hnd : noDayParts { a with byeaster := some el' } = noDayParts a := by
    unfold noDayParts; rw [ha]; rfl
  have e6 : bymonthOf { a with byeaster := some el' } = bymonthOf a := by unfold bymonthOf; rw [hnd]
  have e7 : monthdayArg { a with byeaster := some el' } = monthdayArg a := by unfold monthdayArg; rw [hnd]
  have e8 : weekdayArg { a with byeaster := some el' } = weekdayArg a := by unfold weekdayArg; rw [hnd]
  have e9 : bymonthdayOf { a with byeaster := some el' } = bymonthdayOf a := by unfold bymonthdayOf; rw [e7]
  have e10 : bynmonthdayOf { a with byeaster := some el' } = bynmonthdayOf a := by unfold bynmonthdayOf; rw [e7]
  have e11 : byweekdayOf { a with byeaster := some el' } = byweekdayOf a := by
    unfold byweekdayOf; rw [e8]; rfl
  have e12 : bynweekdayOf { a with byeaster := some el' } = bynweekdayOf a := by
    unfold bynweekdayOf; rw [e8]; rfl
  obtain ⟨sp, bh, bm, bs, ts, h1, h2, h3, h4, h5, hr⟩ := construct_ok a r h
  obtain ⟨sp', bh', bm', bs', ts', h1', h2', h3', h4', h5', hr2⟩ := construct_ok _ r' h'
  have q1 : sp' = sp := Except.ok.inj (h1'.symm.trans h1)
  have q2 : bh' = bh := Except.ok.inj (h2'.symm.trans h2)
  have q3 : bm' = bm := Except.ok.inj (h3'.symm.trans h3)
  have q4 : bs' = bs := Except.ok.inj (h4'.symm.trans h4)
  subst q1 q2 q3 q4
  have q5 : ts' = ts := Except.ok.inj (h5'.symm.trans h5)
  subst q5
  have hr' : r' = setEaster r (some (sortBy ltInt el')) := by
    rw [hr2, hr, e6, e9, e10, e11, e12]
    rfl
  rw [hr']
  apply iter_setEaster
  rw [hr]
  dsimp only
  rw [ha]
  exact Or.inr ⟨sortBy ltInt el, sortBy ltInt el', rfl, rfl, by
    intro x; rw [mem_sortBy, mem_sortBy]; exact hm x⟩

end RRule
