/-
  Proofs/FactoryReach.lean — the whole-state invariant is preserved by every step (thread
  statements, reference drops, garbage collection), hence holds in every reachable state.
-/
import DateutilVerif.Proofs.FactoryStep

namespace Fact

variable {kd : Kind} {res : Key → Res}

structure Inv (kd : Kind) (res : Key → Res) (s : State) : Prop where
  gi : GI kd s.g
  ti : ∀ t th, s.ths[t]? = some th → TI kd res t s.g th
  owner : ∀ t, s.g.lock = some t → t < s.ths.length
  swFree : s.g.lock = none → SW s.g
  sw : ∀ (t : Tid) (th : Thread), s.ths[t]? = some th → TS s.g th

theorem rooted_of_thread {s : State} {t : Tid} {th : Thread} {i : Id} (h : s.ths[t]? = some th)
    (hi : th.inst = some i) : rooted s i = true := by
  have hm : th ∈ s.ths := List.mem_of_getElem? h
  simp only [rooted, Bool.or_eq_true, List.any_eq_true]
  exact .inr ⟨th, hm, by simp [hi]⟩

theorem rooted_of_held {s : State} {r : Ref} (h : r ∈ s.g.held) : rooted s r.id = true := by
  simp only [rooted, Bool.or_eq_true, List.any_eq_true]
  exact .inl (.inl (.inl (.inr ⟨r, h, by simp⟩)))

theorem not_rooted_strong {s : State} {i : Id} (h : ¬ rooted s i = true) : ∀ e ∈ s.g.strong, e.2 ≠ i := by
  intro e he hi
  apply h
  simp only [rooted, Bool.or_eq_true, List.any_eq_true]
  exact .inl (.inl (.inl (.inl ⟨e, he, by simp [hi]⟩)))

theorem sw_collect {g : Glob} {k : Key} (h : SW g) (hi : ∀ e ∈ g.strong, g.weak k ≠ some e.2) :
    ∀ e ∈ g.strong, upd g.weak k none e.1 = some e.2 := by
  intro e he
  have hw := h e he
  by_cases hkk : e.1 = k
  · rw [hkk] at hw; exact absurd hw (hi e he)
  · simpa [upd, hkk] using hw

theorem step_inv {s s' : State} {l : Label} (h : Inv kd res s) (hs : step kd res s l = some s') :
    Inv kd res s' := by
  cases l with
  | thr t =>
    simp only [step] at hs
    split at hs
    · cases hs
    · rename_i th hth
      split at hs
      · cases hs
      · rename_i g' th' hstep
        cases hs
        have hT := h.ti t th hth
        have hGu := tstep_guar hT hstep
        have hlt : t < s.ths.length := by
          rcases Nat.lt_or_ge t s.ths.length with h1 | h1
          · exact h1
          · rw [List.getElem?_eq_none h1] at hth; cases hth
        have hsw := tstep_sw h.swFree (h.sw t th hth) hT hstep
        refine ⟨tstep_gi h.gi hT hstep, ?_, ?_, sw_free_stable h.swFree hT (fun hn _ => hsw.2 hn) hGu, ?_⟩
        rotate_left 2
        · intro t2 th2 h2
          by_cases he : t = t2
          · subst he
            simp only [List.getElem?_set_self hlt, Option.some.injEq] at h2
            subst h2
            exact hsw.1
          · simp only [List.getElem?_set_ne he] at h2
            exact ts_stable (h.sw t2 th2 h2) (h.ti t2 th2 h2) he hGu
        · intro t2 th2 h2
          by_cases he : t = t2
          · subst he
            simp only [List.getElem?_set_self hlt, Option.some.injEq] at h2
            subst h2
            exact tstep_ti h.gi hT hstep
          · simp only [List.getElem?_set_ne he] at h2
            exact ti_stable (h.ti t2 th2 h2) he hGu
        · intro t2 h2
          simp only [List.length_set]
          by_cases hl : s.g.lock = some t
          · rcases hGu.hasLock hl with h' | h'
            · rw [h'] at h2; cases h2; exact hlt
            · rw [h'] at h2; cases h2
          · obtain ⟨_, _, _, h' | ⟨_, h'⟩⟩ := hGu.noLock hl
            · rw [h'] at h2; exact h.owner t2 h2
            · rw [h'] at h2; cases h2; exact hlt
  | drop t n =>
    simp only [step] at hs
    split at hs
    · cases hs
      obtain ⟨g1, g2, g3, g4, g5, g6, g7, g8, g9, g10, g11⟩ := h.gi
      refine ⟨⟨?_, ?_, ?_, g4, g5, g6, g7, ?_, g9, g10, g11⟩, ?_, h.owner, h.swFree, h.sw⟩
      · intro hk r hr; exact g1 hk r (List.mem_filter.mp hr).1
      · intro r hr; exact g2 r (List.mem_filter.mp hr).1
      · intro hk r hr r' hr'; exact g3 hk r (List.mem_filter.mp hr).1 r' (List.mem_filter.mp hr').1
      · intro r hr; exact g8 r (List.mem_filter.mp hr).1
      · intro t2 th2 h2
        have := h.ti t2 th2 h2
        exact ⟨this.lockIff, this.kind, this.instLt, this.tmpLt, this.seenLt, this.pc⟩
    · cases hs
  | collect k =>
    simp only [step] at hs
    split at hs
    · rename_i i hki
      split at hs
      · cases hs
      · rename_i hroot
        cases hs
        obtain ⟨g1, g2, g3, g4, g5, g6, g7, g8, g9, g10, g11⟩ := h.gi
        have hcol : ∀ (g0 : SW s.g), ∀ e ∈ s.g.strong, upd s.g.weak k none e.1 = some e.2 := fun g0 =>
          sw_collect g0 (fun e he hc => by rw [hki] at hc; cases hc; exact not_rooted_strong (by simpa using hroot) e he rfl)
        refine ⟨⟨?_, g2, g3, ?_, g5, ?_, g7, g8, g9, g10, g11⟩, ?_, h.owner, fun hl => hcol (h.swFree hl),
                fun t2 th2 h2 hin hnc => hcol (h.sw t2 th2 h2 hin hnc)⟩
        · intro hk r hr he
          have hw := g1 hk r hr he
          by_cases hkk : r.key = k
          · rw [hkk, hki] at hw
            cases hw
            exact absurd (rooted_of_held hr) hroot
          · simpa [upd, hkk] using hw
        · intro k' i' hh
          by_cases hkk : k' = k
          · simp [upd, hkk] at hh
          · exact g4 k' i' (by simpa [upd, hkk] using hh)
        · intro k' i' hh
          by_cases hkk : k' = k
          · simp [upd, hkk] at hh
          · exact g6 k' i' (by simpa [upd, hkk] using hh)
        · intro t2 th2 h2
          refine ti_transfer (h.ti t2 th2 h2) Iff.rfl (fun _ => ⟨rfl, rfl⟩) ?_ ?_ (Nat.le_refl _)
            (fun _ h => h) (fun h => h)
          · intro i' hi' hw _
            by_cases hkk : th2.key = k
            · rw [hkk, hki] at hw
              cases hw
              exact absurd (rooted_of_thread h2 hi') hroot
            · simpa [upd, hkk] using hw
          · intro hw _
            by_cases hkk : th2.key = k
            · simp [upd, hkk]
            · simpa [upd, hkk] using hw
    · cases hs

theorem reachable_inv {s0 s : State} (h0 : Inv kd res s0) (h : Reachable kd res s0 s) : Inv kd res s := by
  induction h with
  | init => exact h0
  | step _ hs ih => exact step_inv ih hs

theorem init_inv (cap : Nat) (scripts : List (List Op)) : Inv kd res (initState cap scripts) := by
  refine ⟨⟨?_, ?_, ?_, ?_, ?_, ?_, ?_, ?_, ?_, ?_, ?_⟩, ?_, ?_, ?_, ?_⟩ <;> (try (simp [initState, SW, TS]; done))
  simp only [initState, List.getElem?_map]
  intro t th hth
  cases hsc : scripts[t]? with
  | none => simp [hsc] at hth
  | some sc =>
    simp only [hsc, Option.map_some, Option.some.injEq] at hth
    subst hth
    refine ⟨?_, ?_, ?_, ?_, ?_, ?_⟩ <;> simp [inLocked, kindOK, pcInv]

theorem initSingleton_inv (scripts : List (List Op)) : Inv kd res (initSingleton scripts) := by
  refine ⟨⟨?_, ?_, ?_, ?_, ?_, ?_, ?_, ?_, ?_, ?_, ?_⟩, ?_, ?_, ?_, ?_⟩ <;> (try (simp [initSingleton, SW, TS]; done))
  simp only [initSingleton, List.getElem?_map]
  intro t th hth
  cases hsc : scripts[t]? with
  | none => simp [hsc] at hth
  | some sc =>
    simp only [hsc, Option.map_some, Option.some.injEq] at hth
    subst hth
    refine ⟨?_, ?_, ?_, ?_, ?_, ?_⟩ <;> simp [inLocked, kindOK, pcInv]

end Fact
