/-
  Proofs/CacheNestedStep.lean — the invariant of the nested machine is preserved by every step of
  every runner (C11, nested cached objects).
-/
import DateutilVerif.Proofs.CacheNested
import DateutilVerif.Proofs.RSetHistory

namespace Nested
open Cache Queries

theorem set_get {α} (l : List α) (i j : Nat) (a x : α) (h : (l.set i a)[j]? = some x) :
    (i = j ∧ x = a) ∨ (i ≠ j ∧ l[j]? = some x) := by
  by_cases e : i = j
  · subst e
    by_cases hlt : i < l.length
    · rw [List.getElem?_set_self hlt] at h; cases h; exact Or.inl ⟨rfl, rfl⟩
    · rw [List.getElem?_eq_none (by simp; omega)] at h; cases h
  · rw [List.getElem?_set_ne e] at h; exact Or.inr ⟨e, h⟩

/-- what a flat step does to the threads -/
theorem step_threads {M M' : Cache.State} {t : Tid} (h : Cache.step M t = some M') :
    ∃ it it', M.its[t]? = some it ∧ M'.its[t]? = some it' ∧ stepIter M.sh t it = some (M'.sh, it') ∧
      (∀ t', t' ≠ t → M'.its[t']? = M.its[t']?) := by
  obtain ⟨it, sh', it', hit, hst, rfl⟩ := step_eq h
  exact ⟨it, it', hit, getElem?_set_self' hit, hst, fun t' e => List.getElem?_set_ne (Ne.symm e)⟩

theorem pcOf_other {M M' : Cache.State} {t t' : Tid} (h : Cache.step M t = some M') (e : t' ≠ t) :
    pcOf M' t' = pcOf M t' := by
  obtain ⟨_, _, _, _, _, hoth⟩ := step_threads h
  unfold pcOf; rw [hoth t' e]

/-- `pullLive` only looks at the owned iterators of the set -/
theorem pullLive_congr {ns ns' : NState} {S S' : SetM} (p : Pull) (hsubs : S'.subs = S.subs)
    (h : ∀ (m : Nat) (tid : Tid), S.subs[pullIdx p]? = some (m, tid) →
      (ns'.members[m]?).map (fun M => pcOf M tid) = (ns.members[m]?).map (fun M => pcOf M tid)) :
    pullLive ns' S' p = pullLive ns S p := by
  unfold pullLive
  rw [hsubs]
  cases hs : S.subs[pullIdx p]? with
  | none => rfl
  | some mt =>
    obtain ⟨m, tid⟩ := mt
    have := h m tid hs
    simp only []
    cases h1 : ns'.members[m]? with
    | none =>
      cases h2 : ns.members[m]? with
      | none => rfl
      | some M2 => rw [h1, h2] at this; simp at this
    | some M1 =>
      cases h2 : ns.members[m]? with
      | none => rw [h1, h2] at this; simp at this
      | some M2 =>
        rw [h1, h2] at this
        simp only [Option.map_some, Option.some.injEq] at this
        simp only [this]

theorem normPulls_head {ns : NState} {S : SetM} {l : List Pull} {p : Pull} {rest : List Pull}
    (h : normPulls ns S l = p :: rest) : pullLive ns S p = true := by
  induction l with
  | nil => simp [normPulls] at h
  | cons q qs ih =>
    unfold normPulls at h
    by_cases hq : pullLive ns S q = true
    · rw [if_pos hq] at h; cases h; exact hq
    · rw [if_neg hq] at h; exact ih h

/-- an owned iterator that is inside the critical section after a pull step has not completed the pull -/
theorem crit_not_fin {M M' : Cache.State} {tid : Tid} {it' : Iter} (h : Cache.step M tid = some M')
    (hit' : M'.its[tid]? = some it') (hc : it'.pc.inCrit = true) :
    ¬ (RSet.yieldedLen M tid < RSet.yieldedLen M' tid) ∧ pcOf M' tid ≠ .done ∧
    (RSet.inDispatch (pcOf M tid) = true → False) := by
  obtain ⟨it, it2, hit, hit2, hst, _⟩ := step_threads h
  rw [hit'] at hit2; cases hit2
  refine ⟨?_, ?_, ?_⟩
  · rw [RSet.yieldedLen_eq hit, RSet.yieldedLen_eq hit']
    rcases (stepIter_q hst).2 with e | ⟨x, e, hpc⟩
    · rw [e]; omega
    · have := yield_parked hst hpc
      rw [this] at hc; cases hc
  · rw [pcOf_eq hit']; intro hd; rw [hd] at hc; cases hc
  · intro hd
    rw [pcOf_eq hit] at hd
    have := (RSet.dispatch_step hd hst).2
    rw [this] at hc; cases hc

/-! ### a direct thread of a member steps -/

theorem ninv_member_step {ns : NState} (hi : NInv ns) {m : Nat} {t : Tid} {M M' : Cache.State}
    (hM : ns.members[m]? = some M) (hnsub : ¬ IsSub ns m t) (hst : Cache.step M t = some M') :
    NInv { ns with members := ns.members.set m M' } := by
  have hpc : ∀ (si : Nat) (S : SetM) (k m' : Nat) (tid : Tid), ns.sets[si]? = some S → S.subs[k]? = some (m', tid) →
      ((ns.members.set m M')[m']?).map (fun X => pcOf X tid) = (ns.members[m']?).map (fun X => pcOf X tid) := by
    intro si S k m' tid hS hk
    by_cases e : m = m'
    · subst e
      have hne : tid ≠ t := by intro e; subst e; exact hnsub ⟨si, S, k, hS, hk⟩
      rw [List.getElem?_set_self (lt_of_getElem?' hM), hM]
      simp only [Option.map_some, pcOf_other hst hne]
    · rw [List.getElem?_set_ne e]
  refine ⟨hi.noshare, ?_, hi.sinv, hi.at138, ?_, ?_, hi.subuniq⟩
  · intro m' X hX
    rcases set_get _ _ _ _ _ hX with ⟨_, rfl⟩ | ⟨_, hX'⟩
    · exact inv_step' (hi.minv m M hM) hst
    · exact hi.minv m' X hX'
  · intro si S p rest hS hp
    rw [pullLive_congr (ns := ns) (S := S) p rfl (fun m' tid hk => hpc si S _ m' tid hS hk)]
    exact hi.headok si S p rest hS hp
  · intro si S k m' tid X it hS hk hX hit hc
    rcases set_get _ _ _ _ _ hX with ⟨e, rfl⟩ | ⟨_, hX'⟩
    · subst e
      have hne : tid ≠ t := by intro e; subst e; exact hnsub ⟨si, S, k, hS, hk⟩
      obtain ⟨_, _, _, _, _, hoth⟩ := step_threads hst
      rw [hoth tid hne] at hit
      exact hi.subcrit si S k m tid M it hS hk hM hit hc
    · exact hi.subcrit si S k m' tid X it hS hk hX' hit hc

/-! ### a set's thread runs a statement of an owned iterator (a pull step on line 138) -/

theorem ninv_pull_step {ns : NState} (hi : NInv ns) {si : Nat} {S : SetM} {p : Pull} {rest : List Pull}
    {m : Nat} {tid : Tid} {M M' : Cache.State}
    (hS : ns.sets[si]? = some S) (hp : S.pulls = p :: rest) (hsub : S.subs[pullIdx p]? = some (m, tid))
    (hM : ns.members[m]? = some M) (hst : Cache.step M tid = some M') (pulls' : List Pull) (fin : Bool)
    (hfin : fin = pullFin p M M' tid)
    (hpulls : pulls' = (if fin = true then normPulls { ns with members := ns.members.set m M' } S rest else p :: rest)) :
    NInv { ns with members := ns.members.set m M', sets := ns.sets.set si { S with pulls := pulls' } } := by
  have hmlt := lt_of_getElem?' hM
  have hslt := lt_of_getElem?' hS
  have hlive := hi.headok si S p rest hS hp
  -- owned iterators other than (m, tid) are untouched
  have hpc : ∀ (si' : Nat) (S' : SetM) (k m' : Nat) (tid' : Tid), ns.sets[si']? = some S' → S'.subs[k]? = some (m', tid') →
      (m', tid') ≠ (m, tid) →
      ((ns.members.set m M')[m']?).map (fun X => pcOf X tid') = (ns.members[m']?).map (fun X => pcOf X tid') := by
    intro si' S' k m' tid' hS' hk hne
    by_cases e : m = m'
    · subst e
      have hne' : tid' ≠ tid := by intro e; subst e; exact hne rfl
      rw [List.getElem?_set_self hmlt, hM]
      simp only [Option.map_some, pcOf_other hst hne']
    · rw [List.getElem?_set_ne e]
  obtain ⟨it, it', hit, hit', hsi, hoth⟩ := step_threads hst
  refine ⟨hi.noshare, ?_, ?_, ?_, ?_, ?_, ?_⟩
  · intro m' X hX
    rcases set_get _ _ _ _ _ hX with ⟨_, rfl⟩ | ⟨_, hX'⟩
    · exact inv_step' (hi.minv m M hM) hst
    · exact hi.minv m' X hX'
  · intro si' S' hS'
    rcases set_get _ _ _ _ _ hS' with ⟨_, rfl⟩ | ⟨_, hS''⟩
    · exact hi.sinv si S hS
    · exact hi.sinv si' S' hS''
  · intro si' S' hS' hne
    rcases set_get _ _ _ _ _ hS' with ⟨_, rfl⟩ | ⟨_, hS''⟩
    · exact hi.at138 si S hS (by rw [hp]; simp)
    · exact hi.at138 si' S' hS'' hne
  · -- headok
    intro si' S' q qs hS' hq
    rcases set_get _ _ _ _ _ hS' with ⟨_, rfl⟩ | ⟨hne, hS''⟩
    · simp only [] at hq
      rw [hpulls] at hq
      have hcongr : ∀ q', pullLive { ns with members := ns.members.set m M', sets := ns.sets.set si { S with pulls := pulls' } }
          { S with pulls := pulls' } q' = pullLive { ns with members := ns.members.set m M' } S q' :=
        fun q' => pullLive_congr q' rfl (fun _ _ _ => rfl)
      rw [hcongr]
      cases hf : fin with
      | true =>
        rw [hf] at hq
        simp only [↓reduceIte] at hq
        exact normPulls_head hq
      | false =>
        rw [hf] at hq hfin
        simp only [Bool.false_eq_true, ↓reduceIte] at hq
        cases hq
        -- the pull is still live
        unfold pullLive
        rw [hsub]
        simp only [List.getElem?_set_self hmlt]
        cases p with
        | next k =>
          simp only [pullFin] at hfin ⊢
          have := hfin.symm
          simp only [Bool.or_eq_false_iff, beq_eq_false_iff_ne] at this
          simp only [Bool.not_eq_true', beq_eq_false_iff_ne]
          exact this.2
        | create k =>
          simp only [pullFin] at hfin ⊢
          have := hfin.symm
          simpa using this
    · have := hi.headok si' S' q qs hS'' hq
      rw [← this]
      apply pullLive_congr q rfl
      intro m' tid' hk
      apply hpc si' S' _ m' tid' hS'' hk
      intro e
      cases e
      exact hne (hi.subuniq si si' S S' _ _ m tid hS hS'' hsub hk).1
  · -- subcrit
    intro si' S' k m' tid' X itx hS' hk hX hitx hc
    by_cases e : (m', tid') = (m, tid)
    · cases e
      -- the iterator that was just advanced: still in the critical section, so the pull goes on
      have hS'orig : ∃ S0, ns.sets[si']? = some S0 ∧ S0.subs = S'.subs := by
        rcases set_get _ _ _ _ _ hS' with ⟨e0, rfl⟩ | ⟨_, hS''⟩
        · subst e0; exact ⟨S, hS, rfl⟩
        · exact ⟨S', hS'', rfl⟩
      obtain ⟨S0, hS0, hsubs0⟩ := hS'orig
      have ⟨e1, e2⟩ := hi.subuniq si si' S S0 (pullIdx p) k m tid hS hS0 hsub (by rw [hsubs0]; exact hk)
      subst e1
      rcases set_get _ _ _ _ _ hS' with ⟨_, rfl⟩ | ⟨hne, _⟩
      · rw [List.getElem?_set_self hmlt] at hX
        cases hX
        rw [hit'] at hitx; cases hitx
        obtain ⟨c1, c2, c3⟩ := crit_not_fin hst hit' hc
        refine ⟨p, rest, ?_, e2⟩
        simp only []
        rw [hpulls]
        have hfin' : fin = false := by
          rw [hfin]
          cases p with
          | next k => simp [pullFin, c1, c2]
          | create k =>
            exfalso
            apply c3
            unfold pullLive at hlive
            rw [hsub] at hlive
            simpa [hM] using hlive
        rw [hfin']; simp
      · exact absurd rfl hne
    · -- another owned iterator: untouched
      have hitx' : ∃ X0, ns.members[m']? = some X0 ∧ X0.its[tid']? = some itx := by
        rcases set_get _ _ _ _ _ hX with ⟨e', rfl⟩ | ⟨_, hX'⟩
        · subst e'
          have hne' : tid' ≠ tid := by intro e'; subst e'; exact e rfl
          rw [hoth tid' hne'] at hitx
          exact ⟨M, hM, hitx⟩
        · exact ⟨X, hX', hitx⟩
      obtain ⟨X0, hX0, hitx0⟩ := hitx'
      rcases set_get _ _ _ _ _ hS' with ⟨_, rfl⟩ | ⟨_, hS''⟩
      · -- same set, other slot: it was not in the critical section (the head pull is on another slot)
        simp only [] at hk
        obtain ⟨q, qs, hq, hqk⟩ := hi.subcrit si S k m' tid' X0 itx hS hk hX0 hitx0 hc
        rw [hp] at hq; cases hq
        rw [hqk] at hsub
        rw [hk] at hsub; cases hsub
        exact absurd rfl e
      · exact hi.subcrit si' S' k m' tid' X0 itx hS'' hk hX0 hitx0 hc
  · intro s1 s2 S1 S2 k1 k2 m' tid' h1 h2 hk1 hk2
    have g : ∀ (sx : Nat) (Sx : SetM), (ns.sets.set si { S with pulls := pulls' })[sx]? = some Sx →
        ∃ S0, ns.sets[sx]? = some S0 ∧ S0.subs = Sx.subs := by
      intro sx Sx h
      rcases set_get _ _ _ _ _ h with ⟨e, rfl⟩ | ⟨_, h'⟩
      · subst e; exact ⟨S, hS, rfl⟩
      · exact ⟨Sx, h', rfl⟩
    obtain ⟨A, hA, eA⟩ := g s1 S1 h1
    obtain ⟨B, hB, eB⟩ := g s2 S2 h2
    exact hi.subuniq s1 s2 A B k1 k2 m' tid' hA hB (by rw [eA]; exact hk1) (by rw [eB]; exact hk2)

/-! ### a set's thread runs one of its own statements -/

theorem ninv_flat_step {ns : NState} (hi : NInv ns) {si : Nat} {S : SetM} {t : Tid} {st' : Cache.State}
    (hS : ns.sets[si]? = some S) (hnot : ¬ ((pcOf S.st t == .l138 && !S.pulls.isEmpty) = true))
    (hst : Cache.step S.st t = some st') (S2 : SetM)
    (hS2 : S2 = if (pcOf st' t == .l138) = true
      then { S with st := st', pulls := normPulls ns { S with st := st' } (S.plan.getD st'.sh.genPos []) }
      else { S with st := st' }) :
    NInv { ns with sets := ns.sets.set si S2 } := by
  have hslt := lt_of_getElem?' hS
  obtain ⟨it, it', hit, hit', hsi, hoth⟩ := step_threads hst
  have hsubs2 : S2.subs = S.subs := by rw [hS2]; split <;> rfl
  have hst2 : S2.st = st' := by rw [hS2]; split <;> rfl
  -- line 138 is reached only when no pull is pending
  have hload : pcOf st' t = .l138 → S.pulls = [] := by
    intro hpc
    cases hpl : S.pulls with
    | nil => rfl
    | cons p rest =>
      exfalso
      obtain ⟨t0, it0, hit0, hpc0⟩ := hi.at138 si S hS (by rw [hpl]; simp)
      have hne : t0 ≠ t := by
        intro e; subst e
        apply hnot
        simp [pcOf_eq hit0, hpc0, hpl]
      rw [pcOf_eq hit'] at hpc
      have h137 := arrive_l138 hsi hpc
      have hInv := hi.sinv si S hS
      have l1 := (hInv.lockinv t it hit).mp (by rw [h137]; rfl)
      have l2 := (hInv.lockinv t0 it0 hit0).mp (by rw [hpc0]; rfl)
      rw [l1] at l2; cases l2; exact hne rfl
  have hpulls2 : (pcOf st' t == .l138) = false → S2.pulls = S.pulls := by
    intro h; rw [hS2, h]; rfl
  have hmem : ∀ q S', S'.subs = S.subs → pullLive { ns with sets := ns.sets.set si S2 } S' q = pullLive ns S q :=
    fun q S' h => pullLive_congr q h (fun _ _ _ => rfl)
  refine ⟨hi.noshare, hi.minv, ?_, ?_, ?_, ?_, ?_⟩
  · intro si' S' hS'
    rcases set_get _ _ _ _ _ hS' with ⟨_, rfl⟩ | ⟨_, hS''⟩
    · rw [hst2]; exact inv_step' (hi.sinv si S hS) hst
    · exact hi.sinv si' S' hS''
  · intro si' S' hS' hne
    rcases set_get _ _ _ _ _ hS' with ⟨_, rfl⟩ | ⟨_, hS''⟩
    · rw [hst2]
      cases hl : (pcOf st' t == .l138) with
      | true =>
        refine ⟨t, it', hit', ?_⟩
        have := (beq_iff_eq).mp hl
        rwa [pcOf_eq hit'] at this
      | false =>
        rw [hpulls2 hl] at hne
        obtain ⟨t0, it0, hit0, hpc0⟩ := hi.at138 si S hS hne
        have hne0 : t0 ≠ t := by
          intro e; subst e
          apply hnot
          cases hpl : S.pulls with
          | nil => exact absurd hpl hne
          | cons p rest => simp [pcOf_eq hit0, hpc0]
        exact ⟨t0, it0, by rw [hoth t0 hne0]; exact hit0, hpc0⟩
    · exact hi.at138 si' S' hS'' hne
  · intro si' S' q qs hS' hq
    rcases set_get _ _ _ _ _ hS' with ⟨_, rfl⟩ | ⟨_, hS''⟩
    · rw [hmem q _ hsubs2]
      cases hl : (pcOf st' t == .l138) with
      | true =>
        rw [hS2, hl] at hq
        simp only [↓reduceIte] at hq
        have := normPulls_head hq
        rw [← this]
        exact (pullLive_congr q rfl (fun _ _ _ => rfl)).symm
      | false =>
        rw [hpulls2 hl] at hq
        exact hi.headok si S q qs hS hq
    · have := hi.headok si' S' q qs hS'' hq
      rw [← this]
      exact pullLive_congr q rfl (fun _ _ _ => rfl)
  · intro si' S' k m tid X itx hS' hk hX hitx hc
    rcases set_get _ _ _ _ _ hS' with ⟨_, rfl⟩ | ⟨_, hS''⟩
    · rw [hsubs2] at hk
      obtain ⟨p, rest, hp, hpk⟩ := hi.subcrit si S k m tid X itx hS hk hX hitx hc
      cases hl : (pcOf st' t == .l138) with
      | true =>
        have := hload ((beq_iff_eq).mp hl)
        rw [this] at hp; cases hp
      | false => exact ⟨p, rest, by rw [hpulls2 hl]; exact hp, hpk⟩
    · exact hi.subcrit si' S' k m tid X itx hS'' hk hX hitx hc
  · intro s1 s2 S1 S2' k1 k2 m' tid' h1 h2 hk1 hk2
    have g : ∀ (sx : Nat) (Sx : SetM), (ns.sets.set si S2)[sx]? = some Sx →
        ∃ S0, ns.sets[sx]? = some S0 ∧ S0.subs = Sx.subs := by
      intro sx Sx h
      rcases set_get _ _ _ _ _ h with ⟨e, rfl⟩ | ⟨_, h'⟩
      · subst e; exact ⟨S, hS, hsubs2.symm⟩
      · exact ⟨Sx, h', rfl⟩
    obtain ⟨A, hA, eA⟩ := g s1 S1 h1
    obtain ⟨B, hB, eB⟩ := g s2 S2' h2
    exact hi.subuniq s1 s2 A B k1 k2 m' tid' hA hB (by rw [eA]; exact hk1) (by rw [eB]; exact hk2)

/-! ### every step of every runner -/

theorem ninv_step {ns ns' : NState} {r : Runner} {pc : PC} (hi : NInv ns) (hr : IsRunner ns r)
    (h : step ns r = some (ns', pc)) : NInv ns' := by
  have hsh := hi.noshare
  unfold step at h
  by_cases hlt : r.1 < ns.members.length
  · rw [if_pos hlt] at h
    rcases hr with ⟨_, hnsub, M, it, hM, hit⟩ | ⟨hge, _⟩
    · unfold memberStep at h
      rw [hM] at h
      simp only [] at h
      unfold lockStep at h
      simp only [hsh, Bool.false_and, Bool.false_eq_true, ↓reduceIte] at h
      cases hst : Cache.step M r.2 with
      | none => rw [hst] at h; cases h
      | some M' =>
        rw [hst] at h
        simp only [Option.some.injEq, Prod.mk.injEq] at h
        rw [← h.1]
        have key := ninv_member_step hi hM hnsub hst
        rw [hsh] at key
        exact key
    · omega
  · rw [if_neg hlt] at h
    unfold setStep at h
    cases hS : ns.sets[r.1 - ns.members.length]? with
    | none => rw [hS] at h; cases h
    | some S =>
      rw [hS] at h
      simp only [] at h
      by_cases hpull : (pcOf S.st r.2 == PC.l138 && !S.pulls.isEmpty) = true
      · rw [if_pos hpull] at h
        cases hp : S.pulls with
        | nil => rw [hp] at h; cases h
        | cons p rest =>
          rw [hp] at h
          simp only [] at h
          cases hsub : S.subs[pullIdx p]? with
          | none => rw [hsub] at h; cases h
          | some mt =>
            obtain ⟨m, tid⟩ := mt
            rw [hsub] at h
            simp only [] at h
            cases hM : ns.members[m]? with
            | none => rw [hM] at h; cases h
            | some M =>
              rw [hM] at h
              simp only [] at h
              unfold lockStep at h
              simp only [hsh, Bool.false_and, Bool.false_eq_true, ↓reduceIte] at h
              cases hst : Cache.step M tid with
              | none => rw [hst] at h; cases h
              | some M' =>
                rw [hst] at h
                simp only [Option.some.injEq, Prod.mk.injEq] at h
                rw [← h.1]
                have key := ninv_pull_step hi hS hp hsub hM hst _ _ rfl rfl
                rw [hsh] at key
                exact key
      · rw [if_neg hpull] at h
        unfold lockStep at h
        simp only [hsh, Bool.false_and, Bool.false_eq_true, ↓reduceIte] at h
        cases hst : Cache.step S.st r.2 with
        | none => rw [hst] at h; cases h
        | some st' =>
          rw [hst] at h
          simp only [Option.some.injEq, Prod.mk.injEq] at h
          rw [← h.1]
          have key := ninv_flat_step hi hS hpull hst _ rfl
          rw [hsh] at key
          exact key

/-- a state in which nothing has started: every object satisfies its flat invariant, no pull is pending, the owned
    iterators are outside the critical sections and have one owner each -/
structure Fresh (ns : NState) : Prop where
  noshare : ns.shared = false
  minv : ∀ (m : Nat) (M : Cache.State), ns.members[m]? = some M → Inv M
  sinv : ∀ (si : Nat) (S : SetM), ns.sets[si]? = some S → Inv S.st
  nopull : ∀ (si : Nat) (S : SetM), ns.sets[si]? = some S → S.pulls = []
  parked : ∀ (si : Nat) (S : SetM) (k m : Nat) (tid : Tid) (M : Cache.State) (it : Iter),
    ns.sets[si]? = some S → S.subs[k]? = some (m, tid) → ns.members[m]? = some M → M.its[tid]? = some it →
    it.pc.inCrit = false
  subuniq : ∀ (si si' : Nat) (S S' : SetM) (k k' m : Nat) (tid : Tid), ns.sets[si]? = some S → ns.sets[si']? = some S' →
    S.subs[k]? = some (m, tid) → S'.subs[k']? = some (m, tid) → si = si' ∧ k = k'

theorem ninv_fresh {ns : NState} (h : Fresh ns) : NInv ns := by
  refine ⟨h.noshare, h.minv, h.sinv, ?_, ?_, ?_, h.subuniq⟩
  · intro si S hS hne; exact absurd (h.nopull si S hS) hne
  · intro si S p rest hS hp; rw [h.nopull si S hS] at hp; cases hp
  · intro si S k m tid M it hS hk hM hit hc
    rw [h.parked si S k m tid M it hS hk hM hit] at hc; cases hc

/-- states reachable from a fresh one by steps of runners -/
inductive NReach (ns0 : NState) : NState → Prop
  | init : NReach ns0 ns0
  | step {ns ns' : NState} {r : Runner} {pc : PC} : NReach ns0 ns → IsRunner ns r → step ns r = some (ns', pc) → NReach ns0 ns'

theorem nreach_inv {ns0 ns : NState} (h0 : Fresh ns0) (h : NReach ns0 ns) : NInv ns := by
  induction h with
  | init => exact ninv_fresh h0
  | step _ hr hs ih => exact ninv_step ih hr hs

end Nested
