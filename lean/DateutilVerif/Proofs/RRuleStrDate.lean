/-
  Proofs/RRuleStrDate.lean — the date text `rrule.__str__` prints (`'%04d' % year + strftime('%m%dT%H%M%S')`, model `showDT`) is
  C02's compact template `YYYYMMDDTHHMMSS` (`PT.renderCompact .tHMS`), so C02's `parse_compact` applies to it:
  `parser.parse` reads the DTSTART / UNTIL text of `str(rule)` back as the naive datetime it was printed from.
-/
import DateutilVerif.Proofs.RenderCompact
import DateutilVerif.Proofs.RRuleStrRule

namespace RRuleStr

theorem digitChar_eq_pt (n : Nat) (h : n < 10) : digitChar n = PT.digitChar n := by
  unfold digitChar PT.digitChar; rw [Nat.mod_eq_of_lt h]

theorem showNat_2 (n : Nat) (h1 : 10 ≤ n) (h2 : n < 100) : showNat n = [digitChar (n / 10), digitChar (n % 10)] := by
  rw [showNat_ge n (by omega), showNat_lt (n / 10) (by omega)]; rfl

theorem showNat_3 (n : Nat) (h1 : 100 ≤ n) (h2 : n < 1000) :
    showNat n = [digitChar (n / 10 / 10), digitChar (n / 10 % 10), digitChar (n % 10)] := by
  rw [showNat_ge n (by omega), showNat_2 (n / 10) (by omega) (by omega)]; rfl

theorem showNat_4 (n : Nat) (h1 : 1000 ≤ n) (h2 : n < 10000) :
    showNat n = [digitChar (n / 10 / 10 / 10), digitChar (n / 10 / 10 % 10), digitChar (n / 10 % 10), digitChar (n % 10)] := by
  rw [showNat_ge n (by omega), showNat_3 (n / 10) (by omega) (by omega)]; rfl

theorem ofNat48 {a b : Nat} (h : a = b) : Char.ofNat (48 + a) = Char.ofNat (48 + b) := by rw [h]

theorem pad2_eq_pt (n : Nat) (h : n < 100) : pad 2 n = PT.pad2 n := by
  unfold pad PT.pad2 PT.digitChar
  by_cases h10 : n < 10
  · rw [showNat_lt n h10]
    show ['0', digitChar n] = _
    unfold digitChar
    have : ('0' : Char) = Char.ofNat (48 + 0) := by decide
    rw [this]
    congr 1
    · exact ofNat48 (by omega)
    · congr 1; exact ofNat48 (by omega)
  · rw [showNat_2 n (by omega) h]
    show [digitChar (n / 10), digitChar (n % 10)] = _
    unfold digitChar
    congr 1
    · exact ofNat48 (by omega)

theorem pad4_eq_pt (n : Nat) (h : n < 10000) : pad 4 n = PT.pad4 n := by
  unfold pad PT.pad4 PT.digitChar
  have h0 : ('0' : Char) = Char.ofNat (48 + 0) := by decide
  by_cases h10 : n < 10
  · rw [showNat_lt n h10]
    show ['0', '0', '0', digitChar n] = _
    unfold digitChar
    rw [h0]
    congr 1
    · exact ofNat48 (by omega)
    · congr 1
      · exact ofNat48 (by omega)
      · congr 1
        · exact ofNat48 (by omega)
        · congr 1; exact ofNat48 (by omega)
  · by_cases h100 : n < 100
    · rw [showNat_2 n (by omega) h100]
      show ['0', '0', digitChar (n / 10), digitChar (n % 10)] = _
      unfold digitChar
      rw [h0]
      congr 1
      · exact ofNat48 (by omega)
      · congr 1
        · exact ofNat48 (by omega)
        · congr 1
          · exact ofNat48 (by omega)
    · by_cases h1000 : n < 1000
      · rw [showNat_3 n (by omega) h1000]
        show ['0', digitChar (n / 10 / 10), digitChar (n / 10 % 10), digitChar (n % 10)] = _
        unfold digitChar
        rw [h0]
        congr 1
        · exact ofNat48 (by omega)
        · congr 1
          · exact ofNat48 (by omega)
      · rw [showNat_4 n (by omega) h]
        show [digitChar (n / 10 / 10 / 10), digitChar (n / 10 / 10 % 10), digitChar (n / 10 % 10), digitChar (n % 10)] = _
        unfold digitChar
        congr 1
        · exact ofNat48 (by omega)
        · congr 1
          · exact ofNat48 (by omega)

/-- the text `__str__` prints for a valid datetime is C02's compact template `YYYYMMDDTHHMMSS` -/
theorem showDT_eq_renderCompact (t : DT) (ht : t.Valid) : showDT (sixOf t) = PT.renderCompact .tHMS t := by
  obtain ⟨⟨hy1, hy2, hm1, hm2, hd1, hd2⟩, hh1, hh2, hmi1, hmi2, hs1, hs2, _, _⟩ := ht
  have hdim := (Cal.daysInMonth_bounds t.y t.m).2
  unfold showDT sixOf PT.renderCompact PT.compactDate
  simp only []
  rw [pad4_eq_pt _ (by omega), pad2_eq_pt t.m.toNat (by omega), pad2_eq_pt t.d.toNat (by omega),
    pad2_eq_pt t.hh.toNat (by omega), pad2_eq_pt t.mm.toNat (by omega), pad2_eq_pt t.ss.toNat (by omega)]
  simp [List.append_assoc]

end RRuleStr
