/-
  Proofs/CacheNestedProgress.lean — termination measure of the nested machine (C11): every step of every
  runner is one statement of exactly one object's flat machine, so the sum of the flat measures decreases.
-/
import DateutilVerif.Proofs.CacheNestedStep

namespace Nested
open Cache Queries

def nmeasure (ns : NState) : Nat :=
  (ns.members.map Cache.measure).sum + (ns.sets.map (fun S => Cache.measure S.st)).sum

theorem sum_map_set_eq {α} (f : α → Nat) (l : List α) (t : Nat) (a a' : α) (h : l[t]? = some a)
    (he : f a' = f a) : ((l.set t a').map f).sum = (l.map f).sum := by
  induction l generalizing t with
  | nil => simp at h
  | cons x xs ih =>
    cases t with
    | zero =>
      simp only [List.getElem?_cons_zero, Option.some.injEq] at h
      subst h
      simp only [List.set_cons_zero, List.map_cons, List.sum_cons]; omega
    | succ t =>
      simp only [List.getElem?_cons_succ] at h
      have := ih t h
      simp only [List.set_cons_succ, List.map_cons, List.sum_cons]; omega

/-- **nested_progress.** Every step of every runner decreases the measure (one lock per object). -/
theorem nested_progress {ns ns' : NState} {r : Runner} {pc : PC} (hi : NInv ns)
    (h : step ns r = some (ns', pc)) : nmeasure ns' < nmeasure ns := by
  have hsh := hi.noshare
  unfold step at h
  by_cases hlt : r.1 < ns.members.length
  · rw [if_pos hlt] at h
    unfold memberStep at h
    cases hM : ns.members[r.1]? with
    | none => rw [hM] at h; cases h
    | some M =>
      rw [hM] at h
      simp only [] at h
      unfold lockStep at h
      simp only [hsh, Bool.false_and, Bool.false_eq_true, ↓reduceIte] at h
      cases hst : Cache.step M r.2 with
      | none => rw [hst] at h; cases h
      | some M' =>
        rw [hst] at h
        simp only [Option.some.injEq, Prod.mk.injEq] at h
        rw [← h.1]
        have hdec := (measure_step (hi.minv _ M hM) hst).1
        have := sum_map_set_lt Cache.measure ns.members r.1 M M' hM hdec
        unfold nmeasure
        simp only []
        omega
  · rw [if_neg hlt] at h
    unfold setStep at h
    cases hS : ns.sets[r.1 - ns.members.length]? with
    | none => rw [hS] at h; cases h
    | some S =>
      rw [hS] at h
      simp only [] at h
      by_cases hpull : (pcOf S.st r.2 == PC.l138 && !S.pulls.isEmpty) = true
      · rw [if_pos hpull] at h
        cases hp : S.pulls with
        | nil => rw [hp] at h; cases h
        | cons p rest =>
          rw [hp] at h
          simp only [] at h
          cases hsub : S.subs[pullIdx p]? with
          | none => rw [hsub] at h; cases h
          | some mt =>
            obtain ⟨m, tid⟩ := mt
            rw [hsub] at h
            simp only [] at h
            cases hM : ns.members[m]? with
            | none => rw [hM] at h; cases h
            | some M =>
              rw [hM] at h
              simp only [] at h
              unfold lockStep at h
              simp only [hsh, Bool.false_and, Bool.false_eq_true, ↓reduceIte] at h
              cases hst : Cache.step M tid with
              | none => rw [hst] at h; cases h
              | some M' =>
                rw [hst] at h
                simp only [Option.some.injEq, Prod.mk.injEq] at h
                rw [← h.1]
                have hdec := (measure_step (hi.minv _ M hM) hst).1
                have h1 := sum_map_set_lt Cache.measure ns.members m M M' hM hdec
                have h2 := sum_map_set_eq (fun S => Cache.measure S.st) ns.sets (r.1 - ns.members.length) S
                  { S with pulls := if pullFin p M M' tid = true then
                      normPulls { members := ns.members.set m M', sets := ns.sets } S rest else p :: rest } hS rfl
                unfold nmeasure
                simp only []
                omega
      · rw [if_neg hpull] at h
        unfold lockStep at h
        simp only [hsh, Bool.false_and, Bool.false_eq_true, ↓reduceIte] at h
        cases hst : Cache.step S.st r.2 with
        | none => rw [hst] at h; cases h
        | some st' =>
          rw [hst] at h
          simp only [Option.some.injEq, Prod.mk.injEq] at h
          rw [← h.1]
          have hdec := (measure_step (hi.sinv _ S hS) hst).1
          have h2 := sum_map_set_lt (fun S => Cache.measure S.st) ns.sets (r.1 - ns.members.length) S
            (if (pcOf st' r.2 == PC.l138) = true then
              { S with st := st', pulls := normPulls ns { S with st := st' } (S.plan.getD st'.sh.genPos []) }
             else { S with st := st' }) hS (by split <;> exact hdec)
          unfold nmeasure
          simp only []
          omega

end Nested
