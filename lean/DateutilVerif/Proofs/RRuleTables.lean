/-
  Proofs/RRuleTables.lean — the module-level tables of rrule.py (dumped from the imported module on
  every run into `Gen.*`) against the calendar of `Base/Calendar.lean`: every entry of every table,
  by `decide +kernel` over the whole table, lifted to the integer index interval.
-/
import DateutilVerif.Generated.Tables
import DateutilVerif.Base.Calendar
import DateutilVerif.Proofs.Range

namespace RRule.Tables
open Cal

/-- length of February etc. as a function of the leap flag -/
def dimL (leap : Bool) (m : Int) : Int :=
  if m == 2 then (if leap then 29 else 28)
  else if m == 4 || m == 6 || m == 9 || m == 11 then 30 else 31

theorem daysInMonth_eq_dimL (y m : Int) : daysInMonth y m = dimL (isLeap y) m := by
  unfold daysInMonth dimL; rfl

def ylen (leap : Bool) : Int := if leap then 366 else 365

def mmaskOf (leap : Bool) : List Int := if leap then Gen.M366MASK else Gen.M365MASK
def mdaymaskOf (leap : Bool) : List Int := if leap then Gen.MDAY366MASK else Gen.MDAY365MASK
def nmdaymaskOf (leap : Bool) : List Int := if leap then Gen.NMDAY366MASK else Gen.NMDAY365MASK
def mrangeOf (leap : Bool) : List Int := if leap then Gen.M366RANGE else Gen.M365RANGE

/-- expected month at mask index `i` (the 7 extra days are next year's 1..7 January) -/
def monthAt (leap : Bool) (i : Int) : Int := if i < ylen leap then monthOfYday leap i else 1
/-- expected day of month at mask index `i` -/
def mdayAt (leap : Bool) (i : Int) : Int :=
  if i < ylen leap then (monthDayOfYday leap i).2 else i - ylen leap + 1
/-- expected negative day of month (−1 = last day) at mask index `i` -/
def nmdayAt (leap : Bool) (i : Int) : Int :=
  if i < ylen leap then (monthDayOfYday leap i).2 - dimL leap (monthOfYday leap i) - 1
  else i - ylen leap + 1 - 31 - 1

def mmaskOK (leap : Bool) (i : Int) : Bool := Py.getIdx (mmaskOf leap) i == .ok (monthAt leap i)
def mdaymaskOK (leap : Bool) (i : Int) : Bool := Py.getIdx (mdaymaskOf leap) i == .ok (mdayAt leap i)
def nmdaymaskOK (leap : Bool) (i : Int) : Bool := Py.getIdx (nmdaymaskOf leap) i == .ok (nmdayAt leap i)
def wdaymaskOK (i : Int) : Bool := Py.getIdx Gen.WDAYMASK i == .ok (i % 7)
def mrangeOK (leap : Bool) (m : Int) : Bool :=
  Py.getIdx (mrangeOf leap) m == .ok (dbmTable (m + 1) + (if m + 1 > 2 && leap then 1 else 0))

theorem m366_table : ∀ k : Fin 373, mmaskOK true (0 + (k.val : Int)) = true := by decide +kernel
theorem m365_table : ∀ k : Fin 372, mmaskOK false (0 + (k.val : Int)) = true := by decide +kernel
theorem mday366_table : ∀ k : Fin 373, mdaymaskOK true (0 + (k.val : Int)) = true := by decide +kernel
theorem mday365_table : ∀ k : Fin 372, mdaymaskOK false (0 + (k.val : Int)) = true := by decide +kernel
theorem nmday366_table : ∀ k : Fin 373, nmdaymaskOK true (0 + (k.val : Int)) = true := by decide +kernel
theorem nmday365_table : ∀ k : Fin 372, nmdaymaskOK false (0 + (k.val : Int)) = true := by decide +kernel
theorem wday_table : ∀ k : Fin 385, wdaymaskOK (0 + (k.val : Int)) = true := by decide +kernel
theorem mrange366_table : ∀ k : Fin 13, mrangeOK true (0 + (k.val : Int)) = true := by decide +kernel
theorem mrange365_table : ∀ k : Fin 13, mrangeOK false (0 + (k.val : Int)) = true := by decide +kernel

theorem lengths : Gen.M366MASK.length = 373 ∧ Gen.M365MASK.length = 372 ∧ Gen.MDAY366MASK.length = 373 ∧
    Gen.MDAY365MASK.length = 372 ∧ Gen.NMDAY366MASK.length = 373 ∧ Gen.NMDAY365MASK.length = 372 ∧
    Gen.WDAYMASK.length = 385 ∧ Gen.M366RANGE.length = 13 ∧ Gen.M365RANGE.length = 13 := by decide +kernel

/-- **month mask**: every entry of `M366MASK` / `M365MASK` is the month of that day of the year
    (and January for the 7 days of the following year) -/
theorem mmask_spec (leap : Bool) (i : Int) (h0 : 0 ≤ i) (h1 : i < ylen leap + 7) :
    Py.getIdx (mmaskOf leap) i = .ok (monthAt leap i) := by
  have h : mmaskOK leap i = true := by
    cases leap
    · exact allRange_lift 0 372 (mmaskOK false) m365_table i h0 (by simp [ylen] at h1; omega)
    · exact allRange_lift 0 373 (mmaskOK true) m366_table i h0 (by simp [ylen] at h1; omega)
  simpa [mmaskOK] using h

/-- **month-day mask** -/
theorem mdaymask_spec (leap : Bool) (i : Int) (h0 : 0 ≤ i) (h1 : i < ylen leap + 7) :
    Py.getIdx (mdaymaskOf leap) i = .ok (mdayAt leap i) := by
  have h : mdaymaskOK leap i = true := by
    cases leap
    · exact allRange_lift 0 372 (mdaymaskOK false) mday365_table i h0 (by simp [ylen] at h1; omega)
    · exact allRange_lift 0 373 (mdaymaskOK true) mday366_table i h0 (by simp [ylen] at h1; omega)
  simpa [mdaymaskOK] using h

/-- **negative month-day mask** -/
theorem nmdaymask_spec (leap : Bool) (i : Int) (h0 : 0 ≤ i) (h1 : i < ylen leap + 7) :
    Py.getIdx (nmdaymaskOf leap) i = .ok (nmdayAt leap i) := by
  have h : nmdaymaskOK leap i = true := by
    cases leap
    · exact allRange_lift 0 372 (nmdaymaskOK false) nmday365_table i h0 (by simp [ylen] at h1; omega)
    · exact allRange_lift 0 373 (nmdaymaskOK true) nmday366_table i h0 (by simp [ylen] at h1; omega)
  simpa [nmdaymaskOK] using h

/-- **weekday mask**: `WDAYMASK[i] = i mod 7` on all 385 entries -/
theorem wdaymask_spec (i : Int) (h0 : 0 ≤ i) (h1 : i < 385) : Py.getIdx Gen.WDAYMASK i = .ok (i % 7) := by
  have h : wdaymaskOK i = true := allRange_lift 0 385 wdaymaskOK wday_table i h0 (by omega)
  simpa [wdaymaskOK] using h

/-- **month ranges**: `M36xRANGE[m]` = days before month `m+1` (13 entries) -/
theorem mrange_spec (leap : Bool) (m : Int) (h0 : 0 ≤ m) (h1 : m ≤ 12) :
    Py.getIdx (mrangeOf leap) m = .ok (dbmTable (m + 1) + (if m + 1 > 2 && leap then 1 else 0)) := by
  have h : mrangeOK leap m = true := by
    cases leap
    · exact allRange_lift 0 13 (mrangeOK false) mrange365_table m h0 (by omega)
    · exact allRange_lift 0 13 (mrangeOK true) mrange366_table m h0 (by omega)
  simpa [mrangeOK] using h

end RRule.Tables
