/-
  Proofs/GettzResolve.lean — the decision logic of `gettz.nocache` (Model/GettzResolve.lean):
  lemmas about the two loops and the fall-back chain.
-/
import DateutilVerif.Model.GettzResolve

namespace Gettz

variable {e : Env}

/-- a TZFILES entry that the unnamed loop passes over: stands for no path, or for a path that is
not a file, or for a file `tzfile` rejects with a HANDLED exception -/
def LocalSkip (e : Env) (fp : String) : Prop :=
  localCand e fp = none ∨ ∃ p, localCand e fp = some p ∧
    (e.isfile p = false ∨ e.load p = .osError ∨ e.load p = .valueError)

theorem localLoop_skip {fp : String} {rest : List String} (h : LocalSkip e fp) :
    localLoop e (fp :: rest) = localLoop e rest := by
  rcases h with h | ⟨p, h, h2⟩
  · simp [localLoop, h]
  · simp only [localLoop, h]
    rcases h2 with h2 | h2 | h2
    · simp [h2]
    · cases hi : e.isfile p <;> simp [h2]
    · cases hi : e.isfile p <;> simp [h2]

theorem localLoop_first_wins {pre post : List String} {fp p : String}
    (hpre : ∀ q ∈ pre, LocalSkip e q) (hc : localCand e fp = some p) (hf : e.isfile p = true)
    (hl : e.load p = .ok) : localLoop e (pre ++ fp :: post) = .ok (.file p) := by
  induction pre with
  | nil => simp [localLoop, hc, hf, hl]
  | cons a pre ih =>
    rw [List.cons_append, localLoop_skip (hpre a (by simp))]
    exact ih (fun q hq => hpre q (by simp [hq]))

theorem localLoop_all_skipped {l : List String} (h : ∀ q ∈ l, LocalSkip e q) : localLoop e l = .ok .localZone := by
  induction l with
  | nil => rfl
  | cons a l ih =>
    rw [localLoop_skip (h a (by simp))]
    exact ih (fun q hq => h q (by simp [hq]))

theorem localLoop_ok_cases {l : List String} {r : Resolution} (h : localLoop e l = .ok r) :
    r = .localZone ∨ ∃ p, r = .file p ∧ e.isfile p = true ∧ e.load p = .ok := by
  induction l with
  | nil => simp only [localLoop, Except.ok.injEq] at h; exact .inl h.symm
  | cons a l ih =>
    simp only [localLoop] at h
    split at h
    · exact ih h
    · rename_i p _
      split at h
      · rename_i hf
        split at h
        · rename_i hl
          simp only [Except.ok.injEq] at h
          exact .inr ⟨p, h.symm, hf, hl⟩
        · exact ih h
        · exact ih h
        · cases h
      · exact ih h

theorem localLoop_error {l : List String} {err : Err} (h : localLoop e l = .error err) :
    err = .structError ∧ ∃ p, e.isfile p = true ∧ e.load p = .structError := by
  induction l with
  | nil => cases h
  | cons a l ih =>
    simp only [localLoop] at h
    split at h
    · exact ih h
    · rename_i p _
      split at h
      · rename_i hf
        split at h
        · cases h
        · exact ih h
        · exact ih h
        · rename_i hl
          simp only [Except.error.injEq] at h
          exact ⟨h.symm, p, hf, hl⟩
      · exact ih h

/-- a TZPATHS entry the search loop passes over: offers no candidate, or one that `tzfile` rejects
with a handled exception -/
def SearchSkip (e : Env) (name path : String) : Prop :=
  candidate e path name = none ∨ ∃ c, candidate e path name = some c ∧ (e.load c = .osError ∨ e.load c = .valueError)

theorem searchLoop_skip {name path : String} {rest : List String} (h : SearchSkip e name path) :
    searchLoop e name (path :: rest) = searchLoop e name rest := by
  rcases h with h | ⟨c, h, h2 | h2⟩ <;> simp [searchLoop, h, *]

theorem searchLoop_first_wins {name p c : String} {pre post : List String}
    (hpre : ∀ q ∈ pre, SearchSkip e name q) (hc : candidate e p name = some c) (hl : e.load c = .ok) :
    searchLoop e name (pre ++ p :: post) = .ok (some c) := by
  induction pre with
  | nil => simp [searchLoop, hc, hl]
  | cons a pre ih =>
    rw [List.cons_append, searchLoop_skip (hpre a (by simp))]
    exact ih (fun q hq => hpre q (by simp [hq]))

theorem searchLoop_all_skipped {name : String} {l : List String} (h : ∀ q ∈ l, SearchSkip e name q) :
    searchLoop e name l = .ok none := by
  induction l with
  | nil => rfl
  | cons a l ih =>
    rw [searchLoop_skip (h a (by simp))]
    exact ih (fun q hq => h q (by simp [hq]))

theorem candidate_isfile {path name c : String} (h : candidate e path name = some c) : e.isfile c = true := by
  simp only [candidate] at h
  split at h
  · cases h; assumption
  · split at h
    · cases h; assumption
    · cases h

theorem searchLoop_some {name : String} {l : List String} {c : String} (h : searchLoop e name l = .ok (some c)) :
    e.isfile c = true ∧ e.load c = .ok ∧ ∃ p ∈ l, candidate e p name = some c := by
  induction l with
  | nil => simp [searchLoop] at h
  | cons a l ih =>
    simp only [searchLoop] at h
    split at h
    · obtain ⟨h1, h2, p, hp, h3⟩ := ih h
      exact ⟨h1, h2, p, by simp [hp], h3⟩
    · rename_i c' hc
      split at h
      · rename_i hl
        simp only [Except.ok.injEq, Option.some.injEq] at h
        subst h
        exact ⟨candidate_isfile hc, hl, a, by simp, hc⟩
      · obtain ⟨h1, h2, p, hp, h3⟩ := ih h
        exact ⟨h1, h2, p, by simp [hp], h3⟩
      · obtain ⟨h1, h2, p, hp, h3⟩ := ih h
        exact ⟨h1, h2, p, by simp [hp], h3⟩
      · cases h

theorem searchLoop_error {name : String} {l : List String} {err : Err} (h : searchLoop e name l = .error err) :
    err = .structError ∧ ∃ c, e.isfile c = true ∧ e.load c = .structError := by
  induction l with
  | nil => cases h
  | cons a l ih =>
    simp only [searchLoop] at h
    split at h
    · exact ih h
    · rename_i c hc
      split at h
      · cases h
      · exact ih h
      · exact ih h
      · rename_i hl
        simp only [Except.error.injEq] at h
        exact ⟨h.symm, c, candidate_isfile hc, hl⟩

end Gettz
