/-
  Proofs/RRuleGenInit.lean — sections of `rrule.__init__` re-translated from source (Generated/RRuleKernels.lean:
  `Gen.init_*`, one top-level statement each, `_original_rule` bookkeeping excluded) against the parts of the hand
  model's `construct` they correspond to.
-/
import DateutilVerif.Proofs.RRuleGenHelpers

namespace RRuleGen
open RRule RrPy

@[simp] theorem the_some {α} [Inhabited α] (x : α) : RrPy.the (some x) = x := rfl

/-- BYMONTH / BYYEARDAY / BYWEEKNO: `tuple(sorted(set(arg)))`, `None` kept -/
theorem init_bymonth_eq (x : Option (List Int)) : Gen.init_bymonth x = .ok (x.map sortedSet) := by
  cases x <;> simp [Gen.init_bymonth, sortedSet, pure, Except.pure]
theorem init_byyearday_eq (x : Option (List Int)) : Gen.init_byyearday x = .ok (x.map sortedSet) := by
  cases x <;> simp [Gen.init_byyearday, sortedSet, pure, Except.pure]
theorem init_byweekno_eq (x : Option (List Int)) : Gen.init_byweekno x = .ok (x.map sortedSet) := by
  cases x <;> simp [Gen.init_byweekno, sortedSet, pure, Except.pure]
/-- BYEASTER: `tuple(sorted(arg))` (repetitions kept) -/
theorem init_byeaster_eq (x : Option (List Int)) : Gen.init_byeaster x = .ok (x.map (sortBy ltInt)) := by
  cases x <;> simp [Gen.init_byeaster, pure, Except.pure]

/-- the BYMONTHDAY split -/
theorem init_bymonthday_eq (x : Option (List Int)) :
    Gen.init_bymonthday x = .ok (match x with
      | none => ([], [])
      | some l => (sortBy ltInt ((dedup [] l).filter (· > 0)), sortBy ltInt ((dedup [] l).filter (· < 0)))) := by
  cases x <;> simp [Gen.init_bymonthday, pure, Except.pure]

def BadPos (p : Int) : Prop := p = 0 ∨ ¬ (-366 ≤ p ∧ p ≤ 366)
instance (p : Int) : Decidable (BadPos p) := by unfold BadPos; exact inferInstance

theorem validBysetpos_iff (l : List Int) : validBysetpos l = true ↔ ∀ p ∈ l, ¬ BadPos p := by
  simp only [validBysetpos, List.all_eq_true, BadPos]
  constructor
  · intro h p hp; have := h p hp; simp at this; intro hb
    rcases hb with hb | hb
    · exact this.1 hb
    · exact hb ⟨this.2.1, this.2.2⟩
  · intro h p hp; have := h p hp; simp
    refine ⟨fun e => this (Or.inl e), ?_⟩
    exact Classical.byContradiction fun e => this (Or.inr (fun hh => e hh))

theorem init_bysetpos_loop (l : List Int) :
    Gen.init_bysetpos_loop1 l = if (∀ p ∈ l, ¬ BadPos p) then .ok () else .error .ValueError := by
  induction l with
  | nil => simp [Gen.init_bysetpos_loop1, pure, Except.pure]
  | cons p ps ih =>
    simp only [Gen.init_bysetpos_loop1, List.forall_mem_cons]
    by_cases h : BadPos p
    · have h' := h
      unfold BadPos at h'
      simp only [h', if_true, h, not_true_eq_false, false_and, if_false]; rfl
    · have h' := h
      unfold BadPos at h'
      simp only [h', if_false, h, not_false_eq_true, true_and, ih]

/-- the BYSETPOS check (ValueError for 0 or a position outside −366..366) -/
theorem init_bysetpos_eq (a : Args) : Gen.init_bysetpos a.bysetpos = normBysetpos a := by
  unfold Gen.init_bysetpos normBysetpos
  cases a.bysetpos with
  | none => simp [pure, Except.pure]
  | some l =>
    simp only [reduceCtorEq, if_false, the_some, init_bysetpos_loop, bind, pure, Except.pure]
    by_cases h : validBysetpos l = true
    · have h2 := (validBysetpos_iff l).mp h
      simp only [h, if_true, if_pos h2]; rfl
    · have h2 : ¬ (∀ p ∈ l, ¬ BadPos p) := fun e => h ((validBysetpos_iff l).mpr e)
      simp only [h, if_false, if_neg h2]; rfl

/-- BYHOUR / BYMINUTE / BYSECOND: default from dtstart below the unit's own frequency, reachability filter
    (`__construct_byset`, itself translated) at the unit's own frequency, sorted set otherwise -/
theorem init_byhour_eq (freq : Int) (d : DT) (interval : Int) (x : Option (List Int)) :
    Gen.init_byhour freq d interval x = normUnit freq 4 interval d.hh x 24 := by
  unfold Gen.init_byhour normUnit
  cases x with
  | none => by_cases h : freq < 4 <;> simp [h, pure, Except.pure]
  | some l =>
    simp only [reduceCtorEq, if_false, the_some, bind, pure, Except.pure, beq_iff_eq]
    by_cases h : freq = 4
    · simp only [h, if_true, gen_constructByset_eq_model _ _ _ 24 (by decide)]
      cases constructByset interval d.hh l 24 <;> rfl
    · simp [h, sortedSet]; rfl
theorem init_byminute_eq (freq : Int) (d : DT) (interval : Int) (x : Option (List Int)) :
    Gen.init_byminute freq d interval x = normUnit freq 5 interval d.mm x 60 := by
  unfold Gen.init_byminute normUnit
  cases x with
  | none => by_cases h : freq < 5 <;> simp [h, pure, Except.pure]
  | some l =>
    simp only [reduceCtorEq, if_false, the_some, bind, pure, Except.pure, beq_iff_eq]
    by_cases h : freq = 5
    · simp only [h, if_true, gen_constructByset_eq_model _ _ _ 60 (by decide)]
      cases constructByset interval d.mm l 60 <;> rfl
    · simp [h, sortedSet]; rfl
theorem init_bysecond_eq (freq : Int) (d : DT) (interval : Int) (x : Option (List Int)) :
    Gen.init_bysecond freq d interval x = normUnit freq 6 interval d.ss x 60 := by
  unfold Gen.init_bysecond normUnit
  cases x with
  | none => by_cases h : freq < 6 <;> simp [h, pure, Except.pure]
  | some l =>
    simp only [reduceCtorEq, if_false, the_some, bind, pure, Except.pure, beq_iff_eq]
    by_cases h : freq = 6
    · simp only [h, if_true, gen_constructByset_eq_model _ _ _ 60 (by decide)]
      cases constructByset interval d.ss l 60 <;> rfl
    · simp [h, sortedSet]; rfl

/-- `if interval < 1: raise ValueError(...)` (repair D-C01-interval) -/
theorem init_interval_eq (i : Int) : Gen.init_interval i = if i < 1 then .error .ValueError else .ok () := by
  unfold Gen.init_interval; split <;> rfl

/-- the week start: the ambient `calendar.firstweekday()` (`fwd`) exactly when `wkst` is not supplied -/
theorem init_wkst_eq (fwd : Int) (w : Option Int) : Gen.init_wkst fwd w = .ok (w.getD fwd) := by
  cases w <;> simp [Gen.init_wkst, pure, Except.pure]

/-- the defaults block: BYMONTH / BYMONTHDAY / BYDAY from dtstart when no day-level BY part is given -/
theorem init_defaults_eq (a : Args) :
    Gen.init_defaults a.freq a.dtstart a.bymonth a.bymonthday a.byyearday a.byeaster a.byweekno a.byweekday =
      .ok (if noDayParts a && a.freq == 0 && a.bymonth.isNone then some [a.dtstart.m] else a.bymonth,
           monthdayArg a, weekdayArg a) := by
  unfold Gen.init_defaults monthdayArg weekdayArg noDayParts
  cases h1 : a.byweekno <;> cases h2 : a.byyearday <;> cases h3 : a.bymonthday <;> cases h4 : a.byweekday <;>
    cases h5 : a.byeaster <;> simp [pure, Except.pure, bind, Except.bind]
  by_cases f0 : a.freq = 0
  · cases h6 : a.bymonth <;> simp [f0]
  · by_cases f1 : a.freq = 1
    · simp [f1]
    · by_cases f2 : a.freq = 2 <;> simp [f0, f1, f2]

/-! ### the timeset precomputation -/

def okSomeT (x : Py.R (List HMS)) (acc : List HMS) : Py.R (Option (List HMS)) :=
  match x with
  | .ok l => .ok (some (acc ++ l))
  | .error e => .error e

theorem init_timeset_loop3_eq (h m : Int) (ss : List Int) (acc : List HMS) :
    Gen.init_timeset_loop3 h m ss (some acc) = okSomeT (checkTimes (ss.map fun s => (h, m, s))) acc := by
  induction ss generalizing acc with
  | nil => simp [Gen.init_timeset_loop3, checkTimes, okSomeT, pure, Except.pure]
  | cons x xs ih =>
    simp only [Gen.init_timeset_loop3, List.map_cons, checkTimes, bind, Except.bind, the_some]
    cases mkTime h m x with
    | error e => rfl
    | ok t =>
      simp only [ih]
      cases checkTimes (xs.map fun s => (h, m, s)) with
      | error e => rfl
      | ok l => simp [okSomeT]

theorem init_timeset_loop2_eq (h : Int) (ss ms : List Int) (acc : List HMS) :
    Gen.init_timeset_loop2 h (some ss) ms (some acc) =
      okSomeT (checkTimes (ms.flatMap fun m => ss.map fun s => (h, m, s))) acc := by
  induction ms generalizing acc with
  | nil => simp [Gen.init_timeset_loop2, checkTimes, okSomeT, pure, Except.pure]
  | cons m ms ih =>
    simp only [Gen.init_timeset_loop2, RrPy.iterO, bind, Except.bind, init_timeset_loop3_eq, List.flatMap_cons, checkTimes_append]
    cases checkTimes (ss.map fun s => (h, m, s)) with
    | error e => rfl
    | ok l1 =>
      simp only [okSomeT, ih]
      cases checkTimes (ms.flatMap fun m => ss.map fun s => (h, m, s)) with
      | error e => rfl
      | ok l2 => simp [okSomeT]

theorem init_timeset_loop1_eq (ms ss hs : List Int) (acc : List HMS) :
    Gen.init_timeset_loop1 (some ms) (some ss) hs (some acc) = okSomeT (checkTimes (productHMS hs ms ss)) acc := by
  induction hs generalizing acc with
  | nil => simp [Gen.init_timeset_loop1, productHMS, checkTimes, okSomeT, pure, Except.pure]
  | cons h hs ih =>
    simp only [Gen.init_timeset_loop1, RrPy.iterO, bind, Except.bind, init_timeset_loop2_eq, productHMS, List.flatMap_cons,
      checkTimes_append]
    cases checkTimes (ms.flatMap fun m => ss.map fun s => (h, m, s)) with
    | error e => rfl
    | ok l1 =>
      simp only [okSomeT]
      have := ih (acc ++ l1)
      simp only [productHMS] at this
      rw [this]
      cases checkTimes (hs.flatMap fun h => ms.flatMap fun m => ss.map fun s => (h, m, s)) with
      | error e => rfl
      | ok l2 => simp [okSomeT]

/-- the timeset block: `None` from HOURLY on, otherwise the sorted product of the three tuples, each `datetime.time(...)`
    checked in loop order (below HOURLY the constructor has set all three tuples: `normUnit` with `freq < lvl`) -/
theorem init_timeset_eq (a : Args) (bh bm bs : Option (List Int))
    (h : a.freq < 4 → bh.isSome = true ∧ bm.isSome = true ∧ bs.isSome = true) :
    Gen.init_timeset a.freq bh bm bs = timesetOf a bh bm bs := by
  unfold Gen.init_timeset timesetOf
  by_cases hf : a.freq ≥ 4
  · simp [hf, pure, Except.pure]
  · obtain ⟨h1, h2, h3⟩ := h (by omega)
    obtain ⟨hs, rfl⟩ := Option.isSome_iff_exists.mp h1
    obtain ⟨ms, rfl⟩ := Option.isSome_iff_exists.mp h2
    obtain ⟨ss, rfl⟩ := Option.isSome_iff_exists.mp h3
    simp only [hf, if_false, RrPy.iterO, bind, Except.bind, init_timeset_loop1_eq, Option.getD_some, buildTimeset, pure, Except.pure]
    cases checkTimes (productHMS hs ms ss) with
    | error e => rfl
    | ok l => simp [okSomeT]

/-! ### the BYDAY split -/

theorem init_byweekday_loop_eq (freq : Int) (l : List (Int × Int)) (p : List Int) (q : List (Int × Int)) :
    Gen.init_byweekday_loop1 freq l (some p) (some q) =
      .ok (some (((l.filter (fun w => w.2 == 0 || decide (freq > 1))).map (·.1)).foldl setAdd p),
           some ((l.filter (fun w => !(w.2 == 0 || decide (freq > 1)))).foldl setAdd q)) := by
  induction l generalizing p q with
  | nil => rfl
  | cons w ws ih =>
    simp only [Gen.init_byweekday_loop1, the_some]
    by_cases h : (¬ (w.2 ≠ 0)) ∨ freq > 1
    · have hb : (w.2 == 0 || decide (freq > 1)) = true := by
        rcases h with h | h
        · have : w.2 = 0 := Classical.byContradiction fun e => h e
          simp [this]
        · simp [h]
      simp only [h, if_true, ih, List.filter_cons, hb, List.map_cons, List.foldl_cons, Bool.not_true, Bool.false_eq_true, if_false]
    · have hb : (w.2 == 0 || decide (freq > 1)) = false := by
        have h1 : w.2 ≠ 0 := Classical.byContradiction fun e => h (Or.inl e)
        have h2 : ¬ freq > 1 := fun e => h (Or.inr e)
        simp [h1, h2]
      simp only [h, if_false, ih, List.filter_cons, hb, Bool.false_eq_true, Bool.not_false, if_true, List.foldl_cons]

/-- the BYDAY block: plain members (ints, `MO`, and every `MO(n)` above MONTHLY) and nth members, each a sorted set,
    `None` for an empty part — the fields `byweekday` / `bynweekday` of `construct`, on the argument after the defaults -/
theorem init_byweekday_eq (a : Args) :
    Gen.init_byweekday a.freq (weekdayArg a) = .ok (byweekdayOf a, bynweekdayOf a) := by
  unfold Gen.init_byweekday byweekdayOf bynweekdayOf
  cases weekdayArg a with
  | none => simp [pure, Except.pure]
  | some l =>
    have e1 : plainWeekdays a l = ((l.filter (fun w => w.2 == 0 || decide (a.freq > 1))).map (·.1)).foldl setAdd [] := by
      unfold plainWeekdays; rw [dedup_eq_foldl]; rfl
    have e2 : nthWeekdays a l = (l.filter (fun w => !(w.2 == 0 || decide (a.freq > 1)))).foldl setAdd [] := by
      unfold nthWeekdays; rw [dedup_eq_foldl]; rfl
    simp only [reduceCtorEq, if_false, the_some, bind, Except.bind, init_byweekday_loop_eq, ← e1, ← e2, pure, Except.pure]
    by_cases hp : (plainWeekdays a l).isEmpty = true
    · simp [hp]
    · have hp' : (plainWeekdays a l).isEmpty = false := by simpa using hp
      by_cases hn : (nthWeekdays a l).isEmpty = true
      · simp [hp', hn]
      · have hn' : (nthWeekdays a l).isEmpty = false := by simpa using hn
        simp [hp', hn']

end RRuleGen
