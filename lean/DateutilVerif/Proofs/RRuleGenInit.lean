/-
  Proofs/RRuleGenInit.lean — sections of `rrule.__init__` re-translated from source (Generated/RRuleKernels.lean:
  `Gen.init_*`, one top-level statement each, `_original_rule` bookkeeping excluded) against the parts of the hand
  model's `construct` they correspond to.
-/
import DateutilVerif.Proofs.RRuleGenHelpers

namespace RRuleGen
open RRule RrPy

@[simp] theorem the_some {α} [Inhabited α] (x : α) : RrPy.the (some x) = x := rfl

/-- BYMONTH / BYYEARDAY / BYWEEKNO: `tuple(sorted(set(arg)))`, `None` kept -/
theorem init_bymonth_eq (x : Option (List Int)) : Gen.init_bymonth x = .ok (x.map sortedSet) := by
  cases x <;> simp [Gen.init_bymonth, sortedSet, pure, Except.pure]
theorem init_byyearday_eq (x : Option (List Int)) : Gen.init_byyearday x = .ok (x.map sortedSet) := by
  cases x <;> simp [Gen.init_byyearday, sortedSet, pure, Except.pure]
theorem init_byweekno_eq (x : Option (List Int)) : Gen.init_byweekno x = .ok (x.map sortedSet) := by
  cases x <;> simp [Gen.init_byweekno, sortedSet, pure, Except.pure]
/-- BYEASTER: `tuple(sorted(arg))` (repetitions kept) -/
theorem init_byeaster_eq (x : Option (List Int)) : Gen.init_byeaster x = .ok (x.map (sortBy ltInt)) := by
  cases x <;> simp [Gen.init_byeaster, pure, Except.pure]

/-- the BYMONTHDAY split -/
theorem init_bymonthday_eq (x : Option (List Int)) :
    Gen.init_bymonthday x = .ok (match x with
      | none => ([], [])
      | some l => (sortBy ltInt ((dedup [] l).filter (· > 0)), sortBy ltInt ((dedup [] l).filter (· < 0)))) := by
  cases x <;> simp [Gen.init_bymonthday, pure, Except.pure]

def BadPos (p : Int) : Prop := p = 0 ∨ ¬ (-366 ≤ p ∧ p ≤ 366)
instance (p : Int) : Decidable (BadPos p) := by unfold BadPos; exact inferInstance

theorem validBysetpos_iff (l : List Int) : validBysetpos l = true ↔ ∀ p ∈ l, ¬ BadPos p := by
  simp only [validBysetpos, List.all_eq_true, BadPos]
  constructor
  · intro h p hp; have := h p hp; simp at this; intro hb
    rcases hb with hb | hb
    · exact this.1 hb
    · exact hb ⟨this.2.1, this.2.2⟩
  · intro h p hp; have := h p hp; simp
    refine ⟨fun e => this (Or.inl e), ?_⟩
    exact Classical.byContradiction fun e => this (Or.inr (fun hh => e hh))

theorem init_bysetpos_loop (l : List Int) :
    Gen.init_bysetpos_loop1 l = if (∀ p ∈ l, ¬ BadPos p) then .ok () else .error .ValueError := by
  induction l with
  | nil => simp [Gen.init_bysetpos_loop1, pure, Except.pure]
  | cons p ps ih =>
    simp only [Gen.init_bysetpos_loop1, List.forall_mem_cons]
    by_cases h : BadPos p
    · have h' := h
      unfold BadPos at h'
      simp only [h', if_true, h, not_true_eq_false, false_and, if_false]; rfl
    · have h' := h
      unfold BadPos at h'
      simp only [h', if_false, h, not_false_eq_true, true_and, ih]

/-- the BYSETPOS check (ValueError for 0 or a position outside −366..366) -/
theorem init_bysetpos_eq (a : Args) : Gen.init_bysetpos a.bysetpos = normBysetpos a := by
  unfold Gen.init_bysetpos normBysetpos
  cases a.bysetpos with
  | none => simp [pure, Except.pure]
  | some l =>
    simp only [reduceCtorEq, if_false, the_some, init_bysetpos_loop, bind, pure, Except.pure]
    by_cases h : validBysetpos l = true
    · have h2 := (validBysetpos_iff l).mp h
      simp only [h, if_true, if_pos h2]; rfl
    · have h2 : ¬ (∀ p ∈ l, ¬ BadPos p) := fun e => h ((validBysetpos_iff l).mpr e)
      simp only [h, if_false, if_neg h2]; rfl

/-- BYHOUR / BYMINUTE / BYSECOND: default from dtstart below the unit's own frequency, reachability filter
    (`__construct_byset`, itself translated) at the unit's own frequency, sorted set otherwise -/
theorem init_byhour_eq (freq : Int) (d : DT) (interval : Int) (x : Option (List Int)) :
    Gen.init_byhour freq d interval x = normUnit freq 4 interval d.hh x 24 := by
  unfold Gen.init_byhour normUnit
  cases x with
  | none => by_cases h : freq < 4 <;> simp [h, pure, Except.pure]
  | some l =>
    simp only [reduceCtorEq, if_false, the_some, bind, pure, Except.pure, beq_iff_eq]
    by_cases h : freq = 4
    · simp only [h, if_true, gen_constructByset_eq_model _ _ _ 24 (by decide)]
      cases constructByset interval d.hh l 24 <;> rfl
    · simp [h, sortedSet]; rfl
theorem init_byminute_eq (freq : Int) (d : DT) (interval : Int) (x : Option (List Int)) :
    Gen.init_byminute freq d interval x = normUnit freq 5 interval d.mm x 60 := by
  unfold Gen.init_byminute normUnit
  cases x with
  | none => by_cases h : freq < 5 <;> simp [h, pure, Except.pure]
  | some l =>
    simp only [reduceCtorEq, if_false, the_some, bind, pure, Except.pure, beq_iff_eq]
    by_cases h : freq = 5
    · simp only [h, if_true, gen_constructByset_eq_model _ _ _ 60 (by decide)]
      cases constructByset interval d.mm l 60 <;> rfl
    · simp [h, sortedSet]; rfl
theorem init_bysecond_eq (freq : Int) (d : DT) (interval : Int) (x : Option (List Int)) :
    Gen.init_bysecond freq d interval x = normUnit freq 6 interval d.ss x 60 := by
  unfold Gen.init_bysecond normUnit
  cases x with
  | none => by_cases h : freq < 6 <;> simp [h, pure, Except.pure]
  | some l =>
    simp only [reduceCtorEq, if_false, the_some, bind, pure, Except.pure, beq_iff_eq]
    by_cases h : freq = 6
    · simp only [h, if_true, gen_constructByset_eq_model _ _ _ 60 (by decide)]
      cases constructByset interval d.ss l 60 <;> rfl
    · simp [h, sortedSet]; rfl

end RRuleGen
