/-
  Proofs/ParserGenTzinfo.lean — `parser._build_tzinfo` re-translated from /repo's parser/_parser.py (Generated/ParserOps.lean:
  `Gen.P.buildTzinfo`: callable vs mapping, then the isinstance cascade tzinfo-or-None / text → `tz.tzstr` / int →
  `tz.tzoffset` / TypeError) against the model's `PM.buildTzinfo`: for a `tzinfos` that is a callable or a mapping, the zone
  descriptor of `naive.replace(tzinfo=<returned object>)` (or the exception) is the model's.
-/
import DateutilVerif.Generated.ParserOps

namespace PGen
open PM Py
set_option linter.unusedSimpArgs false

/-- the isinstance cascade on the value the user's `tzinfos` gave -/
theorem tzinfo_cascade (name : Option Token) (d : TzData) : d ≠ .raises →
    (Except.bind (if (((PPy.isTzinfoObj d) = true) ∨ (d = PM.TzData.noneVal)) then
        (.ok (PPy.TzObj.data d) : R PPy.TzObj)
      else
        Except.bind (if ((PPy.isText d) = true) then
            Except.bind (PPy.mkTzstr d) (fun z_4 => .ok z_4)
          else
            Except.bind (if ((PPy.isInt d) = true) then
                Except.bind (PPy.mkTzoffset name d) (fun z_5 => .ok z_5)
              else .error .TypeError) (fun j_6 => .ok j_6)) (fun j_7 => .ok j_7)) (fun j_8 => .ok j_8)).map (PPy.descrOf name) =
    (match d with
      | .obj k => pure (.viaTzinfos (.obj k) name)
      | .noneVal => pure (.viaTzinfos .noneVal name)
      | .str s => do
        tzstrCtor s
        pure (.viaTzinfos (.str s) name)
      | .int n => fixedZone name n
      | .bad => throw .TypeError
      | .raises => throw .ValueError : R TzDescr) := by
  intro hd
  cases d with
  | obj k => rfl
  | noneVal => rfl
  | str s =>
    simp only [PPy.isTzinfoObj, PPy.isText, PPy.mkTzstr]
    cases tzstrCtor s <;> rfl
  | int n =>
    simp only [PPy.isTzinfoObj, PPy.isText, PPy.isInt, PPy.mkTzoffset, PM.fixedZone]
    cases offsetOk n <;> rfl
  | bad => rfl
  | raises => exact absurd rfl hd

/-- `parser._build_tzinfo` as written now, for a callable or a mapping: the descriptor of the zone it builds = `PM.buildTzinfo` -/
theorem buildTzinfo_eq (info : Info) (tzi : TzInfos) (name : Option Token) (off : Option Int) (h : tzi ≠ .absent) :
    (Gen.P.buildTzinfo info tzi name off).map (PPy.descrOf name) = PM.buildTzinfo tzi name off := by
  unfold Gen.P.buildTzinfo PM.buildTzinfo
  have key : ∀ d : TzData, PPy.tziArrive d = .ok d ∨ (d = .raises ∧ PPy.tziArrive d = .error .ValueError) := by
    intro d; unfold PPy.tziArrive; by_cases hd : d = .raises <;> simp [hd]
  -- which value arrives
  have arrive : ∀ d : TzData, (∀ r : R TzData, r = PPy.tziArrive d →
      (Except.bind (Except.bind r (fun td => (.ok td : R TzData))) (fun j_3 =>
        Except.bind (if (((PPy.isTzinfoObj j_3) = true) ∨ (j_3 = PM.TzData.noneVal)) then
            (.ok (PPy.TzObj.data j_3) : R PPy.TzObj)
          else
            Except.bind (if ((PPy.isText j_3) = true) then
                Except.bind (PPy.mkTzstr j_3) (fun z_4 => .ok z_4)
              else
                Except.bind (if ((PPy.isInt j_3) = true) then
                    Except.bind (PPy.mkTzoffset name j_3) (fun z_5 => .ok z_5)
                  else .error .TypeError) (fun j_6 => .ok j_6)) (fun j_7 => .ok j_7)) (fun j_8 => .ok j_8))).map (PPy.descrOf name) =
      (match d with
        | .obj k => pure (.viaTzinfos (.obj k) name)
        | .noneVal => pure (.viaTzinfos .noneVal name)
        | .str s => do
          tzstrCtor s
          pure (.viaTzinfos (.str s) name)
        | .int n => fixedZone name n
        | .bad => throw .TypeError
        | .raises => throw .ValueError : R TzDescr)) := by
    intro d r hr
    rcases key d with hk | ⟨hd, hk⟩
    · rw [hr, hk]
      have hd : d ≠ .raises := by
        intro hd; subst hd; simp [PPy.tziArrive] at hk
      exact tzinfo_cascade name d hd
    · rw [hr, hk, hd]; rfl
  cases tzi with
  | absent => exact absurd rfl h
  | mapping entries =>
    simp only [PPy.tziCallable, Bool.false_eq_true, if_false, PPy.tziGet]
    exact arrive _ _ rfl
  | callable entries dflt =>
    simp only [PPy.tziCallable, if_true, PPy.tziCall]
    cases hl : lookupKey entries name with
    | some d => exact arrive d _ rfl
    | none =>
      cases dflt with
      | data d => exact arrive d _ rfl
      | echoOffset =>
        cases off with
        | none => exact arrive .noneVal (.ok .noneVal) (by simp [PPy.tziArrive])
        | some n => exact arrive (.int n) (.ok (.int n)) (by simp [PPy.tziArrive])

end PGen
