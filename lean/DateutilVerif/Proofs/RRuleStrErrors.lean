/-
  Proofs/RRuleStrErrors.lean — every error path of the rrulestr model is a ValueError (C13).
-/
import DateutilVerif.Proofs.RRuleStrText

namespace RRuleStr
open ICal (isSpace upper splitOnChar pyInt rstrip strip isDigit splitLines)

variable {po : ParseOpts}

/-- the only exception kind a computation can end in is ValueError -/
def OnlyVE {α : Type} (r : Py.R α) : Prop := ∀ e, r = .error e → e = .ValueError

theorem onlyVE_ok {α : Type} (a : α) : OnlyVE (.ok a : Py.R α) := by intro e h; cases h
theorem onlyVE_pure {α : Type} (a : α) : OnlyVE (pure a : Py.R α) := by intro e h; cases h
theorem onlyVE_ve {α : Type} : OnlyVE (.error .ValueError : Py.R α) := by intro e h; cases h; rfl

theorem onlyVE_bind {α β : Type} {r : Py.R α} {f : α → Py.R β} (hr : OnlyVE r) (hf : ∀ a, OnlyVE (f a)) :
    OnlyVE (r >>= f) := by
  intro e h
  cases r with
  | ok a => exact hf a e h
  | error e' => cases h; exact hr _ rfl

theorem onlyVE_foldlM {α β : Type} {f : β → α → Py.R β} (hf : ∀ b a, OnlyVE (f b a)) :
    ∀ (l : List α) (b : β), OnlyVE (l.foldlM f b)
  | [], b => onlyVE_pure b
  | a :: l, b => by
    rw [List.foldlM_cons]; exact onlyVE_bind (hf b a) (fun b' => onlyVE_foldlM hf l b')

theorem onlyVE_mapM {α β : Type} {f : α → Py.R β} (hf : ∀ a, OnlyVE (f a)) : ∀ (l : List α), OnlyVE (l.mapM f)
  | [] => by rw [List.mapM_nil]; exact onlyVE_pure _
  | a :: l => by
    rw [List.mapM_cons]
    exact onlyVE_bind (hf a) (fun b => onlyVE_bind (onlyVE_mapM hf l) (fun bs => onlyVE_pure _))

theorem stepPair_onlyVE (a : RArgs) (pair : List Char) : OnlyVE (stepPair po a pair) := by
  unfold stepPair
  split
  · split
    · exact onlyVE_ok _
    · exact onlyVE_ve
  · exact onlyVE_ve

theorem lineValue_onlyVE (line : List Char) : OnlyVE (lineValue line) := by
  unfold lineValue
  split
  · split
    · split
      · exact onlyVE_ve
      · exact onlyVE_ok _
    · exact onlyVE_ve
  · exact onlyVE_ok _

theorem parseRRuleLine_onlyVE (line : List Char) : OnlyVE (parseRRuleLine po line) :=
  onlyVE_bind (lineValue_onlyVE line) (fun _ => onlyVE_foldlM stepPair_onlyVE _ _)

theorem needFreq_onlyVE (a : RArgs) : OnlyVE (needFreq a) := by
  unfold needFreq; split
  · exact onlyVE_ve
  · exact onlyVE_ok _

theorem ruleOf_onlyVE (v : List Char) : OnlyVE (ruleOf po v) :=
  onlyVE_bind (parseRRuleLine_onlyVE v) needFreq_onlyVE

theorem buildRule_onlyVE (v : List Char) (dt : Option DateV) (cache : Bool) : OnlyVE (buildRule po v dt cache) :=
  onlyVE_bind (ruleOf_onlyVE v) (fun _ => onlyVE_ok _)

theorem buildSet_onlyVE (acc : Acc) (c kw cache : Bool) : OnlyVE (buildSet po acc c kw cache) :=
  onlyVE_bind (onlyVE_mapM ruleOf_onlyVE _) (fun _ => onlyVE_bind (onlyVE_mapM ruleOf_onlyVE _) (fun _ => onlyVE_ok _))

theorem dateParmsOk_onlyVE (parms : List (List Char)) : OnlyVE (dateParmsOk parms) := by
  unfold dateParmsOk
  simp only []
  split
  · exact onlyVE_ve
  · split
    · exact onlyVE_ve
    · exact onlyVE_ok _

theorem stepLine_onlyVE (acc : Acc) (line : List Char) : OnlyVE (stepLine po acc line) := by
  unfold stepLine
  split
  · exact onlyVE_ok _
  · simp only []
    repeat' split
    all_goals first
      | exact onlyVE_ok _
      | exact onlyVE_ve
      | refine onlyVE_bind (dateParmsOk_onlyVE _) (fun _ => ?_)
    all_goals first
      | exact onlyVE_ok _
      | exact onlyVE_ve
      | (split <;> first | exact onlyVE_ok _ | exact onlyVE_ve)

theorem parseLines_onlyVE (s : List Char) (lines : List (List Char)) (f c kw cache : Bool) : OnlyVE (parseLines po cache s lines f c kw) := by
  unfold parseLines
  split
  · exact buildRule_onlyVE _ _ _
  · refine onlyVE_bind (onlyVE_foldlM stepLine_onlyVE _ _) (fun acc => ?_)
    split
    · exact buildSet_onlyVE _ _ _ _
    · split
      · exact buildRule_onlyVE _ _ _
      · exact onlyVE_ve

/-- every failure of the model of `rrulestr` is a ValueError — unknown and malformed parts, unsupported
    properties and parameters, the empty text, a missing FREQ, a text without any RRULE -/
theorem parseRfc_onlyVE (s : List Char) (o : Opts) (kw : Bool) : OnlyVE (parseRfc s o kw) := by
  unfold parseRfc
  simp only []
  split
  · exact onlyVE_ve
  · exact parseLines_onlyVE _ _ _ _ _ _

end RRuleStr
