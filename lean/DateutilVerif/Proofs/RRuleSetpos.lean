/-
  Proofs/RRuleSetpos.lean — BYSETPOS.  The model picks position `pos` through
  `divmod(pos − 1, len(timeset))` / `divmod(pos, len(timeset))` into (surviving days, time set) with
  Python's negative indexing; the specification indexes the flat candidate list (1-based, negative
  from the end).  Both pick the same instant (or none), for every non-zero position.
-/
import DateutilVerif.Proofs.RRuleRange

namespace RRule
open Cal

/-- the flat candidate list of a period: surviving days × time set -/
def flatOf (yo : Int) (ts : List HMS) (days : List Int) : List Inst :=
  days.flatMap (fun i => ts.map (mkInst (yo + i)))

theorem flatOf_cons (yo : Int) (ts : List HMS) (i : Int) (is : List Int) :
    flatOf yo ts (i :: is) = ts.map (mkInst (yo + i)) ++ flatOf yo ts is := rfl

theorem flatOf_length (yo : Int) (ts : List HMS) : ∀ (days : List Int),
    (flatOf yo ts days).length = days.length * ts.length := by
  intro days
  induction days with
  | nil => simp [flatOf]
  | cons i is ih =>
    rw [flatOf_cons, List.length_append, List.length_map, ih, List.length_cons, Nat.add_mul]; omega

theorem flatOf_get (yo : Int) (ts : List HMS) : ∀ (days : List Int) (q rem : Nat) (hq : q < days.length)
    (hr : rem < ts.length),
    (flatOf yo ts days)[q * ts.length + rem]? = some (mkInst (yo + days[q]) ts[rem]) := by
  intro days
  induction days with
  | nil => intro q rem hq; simp at hq
  | cons i is ih =>
    intro q rem hq hr
    rw [flatOf_cons]
    cases q with
    | zero =>
      rw [Nat.zero_mul, Nat.zero_add, List.getElem?_append_left (by rw [List.length_map]; exact hr),
          List.getElem?_map, List.getElem?_eq_getElem hr]
      rfl
    | succ q' =>
      have hq' : q' < is.length := by simpa using hq
      rw [List.getElem?_append_right (by rw [List.length_map, Nat.succ_mul]; omega), List.length_map]
      have e : (q' + 1) * ts.length + rem - ts.length = q' * ts.length + rem := by
        rw [Nat.succ_mul]; omega
      rw [e, ih q' rem hq' hr]
      rfl

/-- the specification's pick: 1-based position, negative from the end -/
def specPick (c : List Inst) (pos : Int) : Option Inst :=
  if pos > 0 then c[(pos - 1).toNat]?
  else if pos < 0 ∧ (c.length : Int) + pos ≥ 0 then c[((c.length : Int) + pos).toNat]?
  else none

theorem getIdx_nat {α} (l : List α) (k : Nat) (h : k < l.length) : Py.getIdx l (k : Int) = .ok l[k] := by
  unfold Py.getIdx
  dsimp only
  rw [if_neg (show ¬ ((k : Int) < 0) by omega), if_neg (by omega), Int.toNat_natCast, List.getElem?_eq_getElem h]

theorem getIdx_nat_err {α} (l : List α) (k : Nat) (h : l.length ≤ k) : Py.getIdx l (k : Int) = .error .IndexError := by
  unfold Py.getIdx
  dsimp only
  rw [if_neg (show ¬ ((k : Int) < 0) by omega), if_pos (by omega)]

theorem getIdx_neg {α} (l : List α) (q : Int) (hq : q < 0) (j : Nat) (hj : (j : Int) = q + l.length) (h : j < l.length) :
    Py.getIdx l q = .ok l[j] := by
  unfold Py.getIdx
  dsimp only
  rw [if_pos hq, if_neg (by omega)]
  have : (q + (l.length : Int)).toNat = j := by omega
  rw [this, List.getElem?_eq_getElem h]

theorem getIdx_neg_err {α} (l : List α) (q : Int) (hq : q + l.length < 0) : Py.getIdx l q = .error .IndexError := by
  unfold Py.getIdx
  dsimp only
  rw [if_pos (show q < 0 by omega), if_pos (by omega)]

theorem divmod_nat (n T : Nat) (hT : 0 < T) :
    Py.divmod (n : Int) (T : Int) = (((n / T : Nat) : Int), ((n % T : Nat) : Int)) := by
  unfold Py.divmod
  rw [Py.fdiv_pos _ (by omega), Py.fmod_pos _ (by omega), Int.natCast_ediv, Int.natCast_emod]

/-- **one position**: the model's selection is the specification's pick in the flat list -/
theorem selectPos_eq (yo : Int) (days : List Int) (ts : List HMS) (hT : 0 < ts.length)
    (hord : ∀ i ∈ days, 1 ≤ yo + i ∧ yo + i ≤ maxOrdinal) (pos : Int) (hp : pos ≠ 0) :
    selectPos yo days ts pos = .ok (specPick (flatOf yo ts days) pos) := by
  have hlen := flatOf_length yo ts days
  unfold selectPos specPick
  dsimp only
  by_cases hpos : pos > 0
  · rw [if_neg (by omega), if_pos hpos]
    obtain ⟨n, hn⟩ : ∃ n : Nat, pos - 1 = (n : Int) := ⟨(pos - 1).toNat, by omega⟩
    rw [hn, divmod_nat n _ hT, Int.toNat_natCast]
    dsimp only
    by_cases hq : n / ts.length < days.length
    · have hr : n % ts.length < ts.length := Nat.mod_lt _ hT
      rw [getIdx_nat days _ hq, getIdx_nat ts _ hr]
      dsimp only
      unfold checkOrd
      rw [if_pos (hord _ (List.getElem_mem hq))]
      dsimp only
      have e : n = n / ts.length * ts.length + n % ts.length := (Nat.div_add_mod' n ts.length).symm
      conv => rhs; rw [e]
      rw [flatOf_get yo ts days _ _ hq hr]
      rfl
    · rw [getIdx_nat_err days _ (by omega)]
      dsimp only
      have : days.length * ts.length ≤ n := (Nat.le_div_iff_mul_le hT).mp (by omega)
      rw [List.getElem?_eq_none (by rw [hlen]; exact this)]
  · have hneg : pos < 0 := by omega
    rw [if_pos hneg, if_neg hpos]
    have hd := divmod_spec pos (ts.length : Int) (by omega)
    generalize Py.divmod pos (ts.length : Int) = dm at hd
    obtain ⟨q, rem⟩ := dm
    dsimp only at hd ⊢
    have hq : q < 0 := by
      by_cases c : q < 0
      · exact c
      · exfalso
        have : 0 ≤ q * (ts.length : Int) := Int.mul_nonneg (by omega) (by omega)
        omega
    obtain ⟨remn, hremn⟩ : ∃ k : Nat, rem = (k : Int) := ⟨rem.toNat, by omega⟩
    subst hremn
    have hr : remn < ts.length := by omega
    have hsum : ((flatOf yo ts days).length : Int) + pos = (q + days.length) * ts.length + remn := by
      rw [hlen, Int.add_mul]; push_cast; omega
    by_cases hj : 0 ≤ q + (days.length : Int)
    · obtain ⟨j, hjn⟩ : ∃ j : Nat, (j : Int) = q + days.length := ⟨(q + days.length).toNat, by omega⟩
      have hjl : j < days.length := by omega
      rw [getIdx_neg days q hq j hjn hjl, getIdx_nat ts _ hr]
      dsimp only
      unfold checkOrd
      rw [if_pos (hord _ (List.getElem_mem hjl))]
      dsimp only
      have hnn : (0 : Int) ≤ (q + days.length) * ts.length + remn := by
        rw [← hjn]; exact Int.add_nonneg (Int.mul_nonneg (by omega) (by omega)) (by omega)
      rw [if_pos ⟨hneg, by rw [hsum]; exact hnn⟩, hsum, ← hjn]
      have : ((j : Int) * (ts.length : Int) + (remn : Int)).toNat = j * ts.length + remn := by
        have : (j : Int) * (ts.length : Int) + (remn : Int) = ((j * ts.length + remn : Nat) : Int) := by push_cast; rfl
        rw [this, Int.toNat_natCast]
      rw [this, flatOf_get yo ts days _ _ hjl hr]
      rfl
    · rw [getIdx_neg_err days q (by omega)]
      dsimp only
      have hlt : (q + (days.length : Int)) * (ts.length : Int) + (remn : Int) < 0 := by
        have h1 : (q + (days.length : Int)) * (ts.length : Int) ≤ (-1) * (ts.length : Int) :=
          Int.mul_le_mul_of_nonneg_right (by omega) (by omega)
        omega
      rw [if_neg (by rw [hsum]; omega)]

/-! ### de-duplication and order -/

theorem secs_inj (x y : Inst) (hx : InstOk x) (hy : InstOk y) (h : x.secs = y.secs) : x = y := by
  obtain ⟨ox, hx', mx, sx⟩ := x
  obtain ⟨oy, hy', my, sy⟩ := y
  unfold InstOk ValidHMS at hx hy
  unfold Inst.secs at h
  dsimp only at hx hy h
  have : ox = oy ∧ hx' = hy' ∧ mx = my ∧ sx = sy := by omega
  obtain ⟨e1, e2, e3, e4⟩ := this
  subst e1; subst e2; subst e3; subst e4; rfl

theorem mem_insertInst (x y : Inst) (hx : InstOk x) : ∀ (l : List Inst), (∀ z ∈ l, InstOk z) →
    (y ∈ Spec.RRule.insertInst x l ↔ y = x ∨ y ∈ l) := by
  intro l
  induction l with
  | nil => intro _; simp [Spec.RRule.insertInst]
  | cons z zs ih =>
    intro hok
    unfold Spec.RRule.insertInst
    split
    · rw [List.mem_cons, ih (fun w hw => hok w (List.mem_cons_of_mem _ hw)), List.mem_cons]
      constructor
      · rintro (h | h | h)
        · exact Or.inr (Or.inl h)
        · exact Or.inl h
        · exact Or.inr (Or.inr h)
      · rintro (h | h | h)
        · exact Or.inr (Or.inl h)
        · exact Or.inl h
        · exact Or.inr (Or.inr h)
    · split
      · rename_i heq
        have : z = x := secs_inj z x (hok z (List.mem_cons_self ..)) hx (by simpa using heq)
        subst this
        constructor
        · exact fun h => Or.inr h
        · rintro (h | h)
          · subst h; exact List.mem_cons_self ..
          · exact h
      · simp only [List.mem_cons]

theorem insertInst_sorted (x : Inst) : ∀ (l : List Inst), l.Pairwise secsLt →
    (Spec.RRule.insertInst x l).Pairwise secsLt := by
  intro l
  induction l with
  | nil => intro _; simp [Spec.RRule.insertInst]
  | cons z zs ih =>
    intro hs
    rw [List.pairwise_cons] at hs
    unfold Spec.RRule.insertInst
    split
    · rename_i hlt
      rw [List.pairwise_cons]
      refine ⟨?_, ih hs.2⟩
      intro y hy
      -- y is x or an element of zs
      have : y = x ∨ y ∈ zs := by
        clear ih
        induction zs with
        | nil => simp [Spec.RRule.insertInst] at hy; exact Or.inl hy
        | cons w ws ihw =>
          unfold Spec.RRule.insertInst at hy
          split at hy
          · rcases List.mem_cons.mp hy with h | h
            · exact Or.inr (h ▸ List.mem_cons_self ..)
            · have hs2 : (∀ a' ∈ ws, secsLt z a') ∧ List.Pairwise secsLt ws :=
                ⟨fun a' ha' => hs.1 a' (List.mem_cons_of_mem _ ha'), (List.pairwise_cons.mp hs.2).2⟩
              rcases ihw hs2 h with h | h
              · exact Or.inl h
              · exact Or.inr (List.mem_cons_of_mem _ h)
          · split at hy
            · exact Or.inr hy
            · rcases List.mem_cons.mp hy with h | h
              · exact Or.inl h
              · exact Or.inr h
      rcases this with h | h
      · subst h; exact hlt
      · exact hs.1 y h
    · rename_i hnlt
      split
      · exact List.pairwise_cons.mpr hs
      · rename_i hne
        rw [List.pairwise_cons]
        have hxz : x.secs < z.secs := by
          have h1 : ¬ z.secs < x.secs := hnlt
          have h2 : ¬ z.secs = x.secs := by simpa using hne
          omega
        refine ⟨?_, List.pairwise_cons.mpr hs⟩
        intro y hy
        rcases List.mem_cons.mp hy with h | h
        · subst h; exact hxz
        · have := hs.1 y h; unfold secsLt at this ⊢; omega

theorem foldInsert_spec : ∀ (l : List Inst), (∀ z ∈ l, InstOk z) →
    (l.foldr Spec.RRule.insertInst []).Pairwise secsLt ∧
    (∀ y, y ∈ l.foldr Spec.RRule.insertInst [] ↔ y ∈ l) := by
  intro l
  induction l with
  | nil => intro _; simp
  | cons x xs ih =>
    intro hok
    obtain ⟨h1, h2⟩ := ih (fun z hz => hok z (List.mem_cons_of_mem _ hz))
    simp only [List.foldr_cons]
    refine ⟨insertInst_sorted x _ h1, ?_⟩
    intro y
    rw [mem_insertInst x y (hok x (List.mem_cons_self ..)) _
        (fun z hz => hok z (List.mem_cons_of_mem _ ((h2 z).mp hz))), h2, List.mem_cons]

/-- BYSETPOS applied to a candidate list (the body of the specification's `selOf`) -/
def applySetpos (sp : Option (List Int)) (c : List Inst) : List Inst :=
  match sp with
  | some (p :: ps) => ((p :: ps).filterMap (specPick c)).foldr Spec.RRule.insertInst []
  | _ => c

theorem selOf_eq (a : Args) (c : List Inst) : Spec.RRule.selOf a c = applySetpos a.bysetpos c := by
  unfold Spec.RRule.selOf applySetpos
  rcases a.bysetpos with _ | (_ | ⟨p, ps⟩) <;> rfl

theorem specPick_mem (c : List Inst) (pos : Int) (x : Inst) (h : specPick c pos = some x) : x ∈ c := by
  unfold specPick at h
  split at h
  · exact List.mem_of_getElem? h
  · split at h
    · exact List.mem_of_getElem? h
    · cases h

/-- **the BYSETPOS list**: the model's `poslist` is the specification's selection from the flat
    candidate list, for every list of non-zero positions -/
theorem buildPoslist_eq (yo : Int) (days : List Int) (ts : List HMS) (hts : TsOk ts) (hT : 0 < ts.length)
    (hord : ∀ i ∈ days, 1 ≤ yo + i ∧ yo + i ≤ maxOrdinal) (p : Int) (ps : List Int)
    (hnz : ∀ q ∈ p :: ps, q ≠ 0) :
    buildPoslist yo days ts (p :: ps) = .ok (applySetpos (some (p :: ps)) (flatOf yo ts days)) := by
  have hcok : ∀ x ∈ flatOf yo ts days, InstOk x := by
    intro x hx
    unfold flatOf at hx
    simp only [List.mem_flatMap, List.mem_map] at hx
    obtain ⟨i, _, t, ht, rfl⟩ := hx
    exact hts.2 t ht
  -- the accumulation loop never fails and collects exactly the picks
  have hloop : ∀ (sp : List Int) (acc : List Inst), (∀ q ∈ sp, q ≠ 0) → acc.Nodup →
      ∃ res, poslistLoop yo days ts sp acc = .ok res ∧ res.Nodup ∧
        ∀ x, x ∈ res ↔ x ∈ acc ∨ ∃ q ∈ sp, specPick (flatOf yo ts days) q = some x := by
    intro sp
    induction sp with
    | nil => intro acc _ hnd; exact ⟨acc, rfl, hnd, by simp⟩
    | cons q qs ih =>
      intro acc hz hnd
      unfold poslistLoop
      rw [selectPos_eq yo days ts hT hord q (hz q (List.mem_cons_self ..))]
      cases hpick : specPick (flatOf yo ts days) q with
      | none =>
        dsimp only
        obtain ⟨res, h1, h2, h3⟩ := ih acc (fun w hw => hz w (List.mem_cons_of_mem _ hw)) hnd
        refine ⟨res, h1, h2, ?_⟩
        intro x; rw [h3]
        constructor
        · rintro (h | ⟨w, hw, hx⟩)
          · exact Or.inl h
          · exact Or.inr ⟨w, List.mem_cons_of_mem _ hw, hx⟩
        · rintro (h | ⟨w, hw, hx⟩)
          · exact Or.inl h
          · rcases List.mem_cons.mp hw with rfl | hw
            · rw [hpick] at hx; cases hx
            · exact Or.inr ⟨w, hw, hx⟩
      | some y =>
        dsimp only
        have hnd' : (if acc.contains y then acc else acc ++ [y]).Nodup := by
          split
          · exact hnd
          · rename_i hc
            rw [List.nodup_append]
            refine ⟨hnd, by simp, ?_⟩
            intro a ha b hb
            simp at hb; subst hb
            intro heq; subst heq
            exact hc (List.contains_iff_mem.mpr ha)
        obtain ⟨res, h1, h2, h3⟩ := ih _ (fun w hw => hz w (List.mem_cons_of_mem _ hw)) hnd'
        refine ⟨res, h1, h2, ?_⟩
        intro x; rw [h3]
        have hacc : x ∈ (if acc.contains y then acc else acc ++ [y]) ↔ x ∈ acc ∨ x = y := by
          split
          · rename_i hc
            constructor
            · exact fun h => Or.inl h
            · rintro (h | h)
              · exact h
              · subst h; exact List.contains_iff_mem.mp hc
          · simp
        rw [hacc]
        constructor
        · rintro ((h | h) | ⟨w, hw, hx⟩)
          · exact Or.inl h
          · subst h; exact Or.inr ⟨q, List.mem_cons_self .., hpick⟩
          · exact Or.inr ⟨w, List.mem_cons_of_mem _ hw, hx⟩
        · rintro (h | ⟨w, hw, hx⟩)
          · exact Or.inl (Or.inl h)
          · rcases List.mem_cons.mp hw with rfl | hw
            · rw [hpick] at hx; injection hx with hx; exact Or.inl (Or.inr hx.symm)
            · exact Or.inr ⟨w, hw, hx⟩
  obtain ⟨res, h1, h2, h3⟩ := hloop (p :: ps) [] hnz List.nodup_nil
  unfold buildPoslist
  rw [h1]
  dsimp only
  congr 1
  unfold applySetpos
  dsimp only
  have hresok : ∀ x ∈ res, InstOk x := by
    intro x hx
    rcases (h3 x).mp hx with h | ⟨w, _, hx⟩
    · simp at h
    · exact hcok x (specPick_mem _ _ _ hx)
  have hfm : ∀ z ∈ (p :: ps).filterMap (specPick (flatOf yo ts days)), InstOk z := by
    intro z hz
    simp only [List.mem_filterMap] at hz
    obtain ⟨w, _, hx⟩ := hz
    exact hcok z (specPick_mem _ _ _ hx)
  obtain ⟨f1, f2⟩ := foldInsert_spec _ hfm
  apply sorted_ext strictInst
  · exact sortBy_pairwise strictInst res hresok h2
  · exact f1.imp (by intro a b hab; simpa [ltInst, secsLt] using hab)
  · intro x
    rw [mem_sortBy, h3, f2, List.mem_filterMap]
    simp

/-! ### a whole period with BYSETPOS -/

theorem insertInst_subset (x y : Inst) : ∀ (l : List Inst), y ∈ Spec.RRule.insertInst x l → y = x ∨ y ∈ l := by
  intro l
  induction l with
  | nil => intro h; simp [Spec.RRule.insertInst] at h; exact Or.inl h
  | cons z zs ih =>
    intro h
    unfold Spec.RRule.insertInst at h
    split at h
    · rcases List.mem_cons.mp h with h | h
      · exact Or.inr (h ▸ List.mem_cons_self ..)
      · rcases ih h with h | h
        · exact Or.inl h
        · exact Or.inr (List.mem_cons_of_mem _ h)
    · split at h
      · exact Or.inr h
      · rcases List.mem_cons.mp h with h | h
        · exact Or.inl h
        · exact Or.inr h

theorem applySetpos_subset (sp : Option (List Int)) (c : List Inst) : ∀ x ∈ applySetpos sp c, x ∈ c := by
  intro x hx
  unfold applySetpos at hx
  split at hx
  · rename_i p ps
    have : ∀ (l : List Inst), (∀ z ∈ l, z ∈ c) → ∀ y ∈ l.foldr Spec.RRule.insertInst [], y ∈ c := by
      intro l
      induction l with
      | nil => intro _ y hy; simp at hy
      | cons z zs ih =>
        intro hz y hy
        simp only [List.foldr_cons] at hy
        rcases insertInst_subset z y _ hy with h | h
        · subst h; exact hz _ (List.mem_cons_self ..)
        · exact ih (fun w hw => hz w (List.mem_cons_of_mem _ hw)) y h
    apply this _ _ x hx
    intro z hz
    simp only [List.mem_filterMap] at hz
    obtain ⟨w, _, hw⟩ := hz
    exact specPick_mem _ _ _ hw
  · exact hx

variable {r : Rule} {y : Int}

/-- the results of a period whose day set is the index range `[i0, i1)`, with or without BYSETPOS -/
theorem periodResults_range_sp (hs : SimpleRule r) (st : State) (f : YearFacts r y st.info)
    (hnw : st.info.nwdaymask = none) (hnz : ∀ q ∈ r.bysetpos.getD [], q ≠ 0) (hts : TsOk st.timeset)
    (i0 i1 : Int)
    (hds : dayset r st.info st.cur = .ok (intRange i0 i1)) (h0 : 0 ≤ i0) (h1 : i1 ≤ st.info.yearlen + 7)
    (hlo : 1 ≤ st.info.yearordinal + i0) (hhi : st.info.yearordinal + i1 ≤ maxOrdinal + 1) :
    ∃ fl, periodResults r st = .ok
      (applySetpos r.bysetpos
        (((intRange (st.info.yearordinal + i0) (st.info.yearordinal + i1)).filter (simpleOk r)).flatMap
          (fun o => st.timeset.map (mkInst o))), none, fl) := by
  have hb : ∀ i ∈ intRange i0 i1, 0 ≤ i ∧ i < st.info.yearlen + 7 := by
    intro i hi; have := (mem_intRange _ _ _).mp hi; omega
  obtain ⟨fl, hfl⟩ := filterDays_simple hs f hnw (intRange i0 i1) hb
  refine ⟨fl, ?_⟩
  have hord : ∀ i ∈ (intRange i0 i1).filter (fun i => simpleOk r (st.info.yearordinal + i)),
      1 ≤ st.info.yearordinal + i ∧ st.info.yearordinal + i ≤ maxOrdinal := by
    intro i hi
    have := (mem_intRange _ _ _).mp (List.mem_filter.mp hi).1
    omega
  have hflat : flatOf st.info.yearordinal st.timeset
      ((intRange i0 i1).filter (fun i => simpleOk r (st.info.yearordinal + i))) =
      ((intRange (st.info.yearordinal + i0) (st.info.yearordinal + i1)).filter (simpleOk r)).flatMap
        (fun o => st.timeset.map (mkInst o)) := by
    unfold flatOf
    rw [← intRange_shift, List.filter_map, List.flatMap_map]
    rfl
  unfold periodResults
  rw [hds]; dsimp only
  rw [hfl]; dsimp only
  by_cases hc : (truthy r.bysetpos && !st.timeset.isEmpty) = true
  · rw [if_pos hc]
    simp only [Bool.and_eq_true, Bool.not_eq_true', List.isEmpty_eq_false_iff] at hc
    obtain ⟨hsp, hne⟩ := hc
    cases hb : r.bysetpos with
    | none => rw [hb] at hsp; simp [truthy] at hsp
    | some l =>
      cases l with
      | nil => rw [hb] at hsp; simp [truthy] at hsp
      | cons p ps =>
        rw [hb] at hnz
        simp only [Option.getD_some]
        rw [buildPoslist_eq _ _ _ hts (List.length_pos_iff.mpr hne) hord p ps hnz, hflat]
  · rw [if_neg hc]
    rw [expandDays_ok _ _ _ hord]
    have hflat' : ((intRange i0 i1).filter (fun i => simpleOk r (st.info.yearordinal + i))).flatMap
        (fun i => st.timeset.map (mkInst (st.info.yearordinal + i))) =
        ((intRange (st.info.yearordinal + i0) (st.info.yearordinal + i1)).filter (simpleOk r)).flatMap
          (fun o => st.timeset.map (mkInst o)) := hflat
    rw [hflat']
    dsimp only
    congr 2
    -- BYSETPOS absent, or the time set is empty (then there are no candidates at all)
    unfold applySetpos
    split
    · rename_i p ps hb
      have hte : st.timeset = [] := by
        rw [hb] at hc
        simpa [truthy] using hc
      rw [hte]
      have hnil : ∀ (l : List Int), l.flatMap (fun o => ([].map (mkInst o) : List Inst)) = [] := by
        intro l; induction l with
        | nil => rfl
        | cons a as ih => rw [List.flatMap_cons, ih]; rfl
      rw [hnil]
      have hpick : ∀ q, specPick [] q = none := by
        intro q; unfold specPick
        split
        · rfl
        · split <;> rfl
      have : (p :: ps).filterMap (specPick []) = [] := by
        apply List.filterMap_eq_nil_iff.mpr
        intro q _; exact hpick q
      rw [this]; rfl
    · rfl

/-- the specification's `sel` of period `k` in the same shape -/
theorem sel_span_sp (a : Args) (k : Nat) (lo hi : Int)
    (hsp : Spec.RRule.periodSpan a (k * a.interval) = (lo, hi, none, none, none)) :
    Spec.RRule.sel a (k : Int) =
      applySetpos a.bysetpos (((intRange lo hi).filter (Spec.RRule.dateOk a)).flatMap
        (fun o => (Spec.RRule.timesOf a none none none).map (mkInst o))) := by
  unfold Spec.RRule.sel
  rw [selOf_eq]
  unfold Spec.RRule.cand Spec.RRule.candAt
  rw [hsp]
  rfl

/-- the time set of a calendar-frequency rule is a strictly increasing list of valid wall times -/
theorem construct_timeset_ok (a : Args) (r : Rule) (h : construct a = .ok r) (hf : a.freq < 4) :
    TsOk (r.timeset.getD []) := by
  obtain ⟨sp, bh, bm, bs, ts, h1, h2, h3, h4, h5, rfl⟩ := construct_ok a r h
  have n2 := normUnit_nodup _ _ _ _ _ _ _ h2
  have n3 := normUnit_nodup _ _ _ _ _ _ _ h3
  have n4 := normUnit_nodup _ _ _ _ _ _ _ h4
  dsimp only
  unfold timesetOf at h5
  rw [if_neg (by omega)] at h5
  split at h5
  · rename_i t ht
    injection h5 with h5; subst h5
    exact (buildTimeset_ok _ _ _ t n2 n3 n4 ht).1
  · cases h5

end RRule
