/-
  Proofs/RRuleSet.lean — the heap merge of `rruleset._iter` computes the set specification, for
  every admissible priority-queue discipline (C10).
-/
import DateutilVerif.Model.RRuleSet
import DateutilVerif.Spec.RRuleSet

namespace RSet

def elemsOf (hp : List Cursor) : List Int := hp.flatMap Cursor.elems
def total (hp : List Cursor) : Nat := (hp.map (fun c => c.elems.length)).sum
def CSorted (c : Cursor) : Prop := c.elems.Pairwise (· ≤ ·)
def HSorted (hp : List Cursor) : Prop := ∀ c ∈ hp, CSorted c

/-- what is assumed of `heapq`: index 0 holds *a* minimal item; nothing about ties -/
structure Admissible (sel : Sel) : Prop where
  ne : ∀ hp, hp ≠ [] → sel hp ≠ none
  perm : ∀ hp c rest, sel hp = some (c, rest) → (c :: rest).Perm hp
  min : ∀ hp c rest, sel hp = some (c, rest) → ∀ d ∈ rest, c.dt ≤ d.dt

theorem mem_elemsOf {hp : List Cursor} {x : Int} : x ∈ elemsOf hp ↔ ∃ c ∈ hp, x ∈ c.elems := by
  simp [elemsOf, List.mem_flatMap]

variable {sel : Sel}

theorem sel_mem (adm : Admissible sel) {hp c rest} (h : sel hp = some (c, rest)) (x : Int) :
    x ∈ elemsOf hp ↔ x ∈ c.elems ∨ x ∈ elemsOf rest := by
  have p := adm.perm hp c rest h
  simp only [mem_elemsOf]
  constructor
  · rintro ⟨d, hd, hx⟩
    rcases List.mem_cons.mp (p.mem_iff.mpr hd) with rfl | hd'
    · exact Or.inl hx
    · exact Or.inr ⟨d, hd', hx⟩
  · rintro (hx | ⟨d, hd, hx⟩)
    · exact ⟨c, p.mem_iff.mp (by simp), hx⟩
    · exact ⟨d, p.mem_iff.mp (by simp [hd]), hx⟩

theorem sel_total (adm : Admissible sel) {hp c rest} (h : sel hp = some (c, rest)) :
    total hp = c.elems.length + total rest := by
  have p := (adm.perm hp c rest h).map (fun c => c.elems.length)
  unfold total
  rw [← p.sum_nat]; simp

theorem sel_sorted (adm : Admissible sel) {hp c rest} (h : sel hp = some (c, rest)) (hs : HSorted hp) :
    CSorted c ∧ HSorted rest := by
  have p := adm.perm hp c rest h
  exact ⟨hs c (p.mem_iff.mp (by simp)), fun d hd => hs d (p.mem_iff.mp (by simp [hd]))⟩

theorem csorted_le {c : Cursor} (hc : CSorted c) {x : Int} (hx : x ∈ c.elems) : c.dt ≤ x := by
  unfold CSorted Cursor.elems at *
  rcases List.mem_cons.mp hx with rfl | hx
  · exact Int.le_refl _
  · exact (List.pairwise_cons.mp hc).1 x hx

theorem top_le (adm : Admissible sel) {hp c rest} (h : sel hp = some (c, rest)) (hs : HSorted hp)
    {x : Int} (hx : x ∈ elemsOf hp) : c.dt ≤ x := by
  have ⟨hc, hr⟩ := sel_sorted adm h hs
  rcases (sel_mem adm h x).mp hx with hx | hx
  · exact csorted_le hc hx
  · obtain ⟨d, hd, hxd⟩ := mem_elemsOf.mp hx
    exact Int.le_trans (adm.min hp c rest h d hd) (csorted_le (hr d hd) hxd)

theorem sel_none (adm : Admissible sel) {hp} (h : sel hp = none) : hp = [] := by
  by_cases e : hp = []
  · exact e
  · exact absurd h (adm.ne hp e)

theorem mem_advanceTop (c : Cursor) (rest : List Cursor) (x : Int) :
    x ∈ elemsOf (advanceTop c rest) ↔ x ∈ c.rest ∨ x ∈ elemsOf rest := by
  unfold advanceTop
  cases hr : c.rest with
  | nil => simp
  | cons y ys => simp [elemsOf, Cursor.elems, or_assoc]

theorem total_advanceTop (c : Cursor) (rest : List Cursor) :
    total (advanceTop c rest) + 1 = c.elems.length + total rest := by
  unfold advanceTop
  cases hr : c.rest with
  | nil => simp [Cursor.elems, hr]; omega
  | cons y ys => simp [total, Cursor.elems, hr]; omega

theorem sorted_advanceTop {c : Cursor} {rest : List Cursor} (hc : CSorted c) (hr : HSorted rest) :
    HSorted (advanceTop c rest) := by
  unfold advanceTop
  cases hcr : c.rest with
  | nil => exact hr
  | cons y ys =>
    intro d hd
    rcases List.mem_cons.mp hd with rfl | hd
    · unfold CSorted Cursor.elems at *
      rw [hcr] at hc
      exact (List.pairwise_cons.mp hc).2
    · exact hr d hd

/-- the exclusion-cursor advance removes exactly the exclusion instants below `d` -/
theorem advanceEx_spec (adm : Admissible sel) (d : Int) :
    ∀ (fuel : Nat) (ex : List Cursor), HSorted ex → total ex < fuel →
      HSorted (advanceEx sel d fuel ex) ∧
      (∀ x, x ∈ elemsOf (advanceEx sel d fuel ex) ↔ x ∈ elemsOf ex ∧ d ≤ x) := by
  intro fuel
  induction fuel with
  | zero => intro ex _ h; omega
  | succ fuel ih =>
    intro ex hs hf
    unfold advanceEx
    cases hsel : sel ex with
    | none =>
      have := sel_none adm hsel
      subst this
      exact ⟨hs, fun x => by simp [elemsOf]⟩
    | some p =>
      obtain ⟨e, others⟩ := p
      simp only []
      have ⟨hce, hso⟩ := sel_sorted adm hsel hs
      by_cases hlt : e.dt < d
      · rw [if_pos hlt]
        have ht := total_advanceTop e others
        have ht2 := sel_total adm hsel
        have ⟨h1, h2⟩ := ih (advanceTop e others) (sorted_advanceTop hce hso) (by omega)
        refine ⟨h1, fun x => ?_⟩
        rw [h2 x, mem_advanceTop, sel_mem adm hsel x]
        unfold Cursor.elems
        simp only [List.mem_cons]
        constructor
        · rintro ⟨h | h, hd⟩
          · exact ⟨Or.inl (Or.inr h), hd⟩
          · exact ⟨Or.inr h, hd⟩
        · rintro ⟨(rfl | h) | h, hd⟩
          · omega
          · exact ⟨Or.inl h, hd⟩
          · exact ⟨Or.inr h, hd⟩
      · rw [if_neg hlt]
        refine ⟨hs, fun x => ⟨fun hx => ⟨hx, ?_⟩, fun hx => hx.1⟩⟩
        have := top_le adm hsel hs hx
        omega

/-- the test `not exlist or ritem != exlist[0]` after the advance: `d` is not an exclusion instant -/
theorem emit_iff (adm : Admissible sel) {ex : List Cursor} (hs : HSorted ex) (d : Int)
    (hge : ∀ x ∈ elemsOf ex, d ≤ x) :
    emitTest sel ex d = true ↔ d ∉ elemsOf ex := by
  unfold emitTest
  cases hsel : sel ex with
  | none =>
    have := sel_none adm hsel
    subst this
    simp [elemsOf]
  | some p =>
    obtain ⟨e, others⟩ := p
    simp only [ne_eq, decide_not, Bool.not_eq_eq_eq_not, Bool.not_true, decide_eq_false_iff_not]
    have hmem : e.dt ∈ elemsOf ex := (sel_mem adm hsel _).mpr (Or.inl (by simp [Cursor.elems]))
    constructor
    · intro hne hd
      have h1 := top_le adm hsel hs hd
      have h2 := hge _ hmem
      omega
    · intro hd he
      rw [he] at hd
      exact hd hmem

/-- the merge loop: strictly increasing, above `last`, and exactly the inclusion instants that
    are not exclusion instants (and not the suppressed `last`) -/
theorem loop_spec (adm : Admissible sel) :
    ∀ (fuel : Nat) (rl ex : List Cursor) (last : Option Int), HSorted rl → HSorted ex → total rl < fuel →
      (∀ l, last = some l → ∀ x ∈ elemsOf rl, l ≤ x) →
      (loop sel fuel rl ex last).Pairwise (· < ·) ∧
      (∀ l, last = some l → ∀ x ∈ loop sel fuel rl ex last, l < x) ∧
      (∀ x ∈ loop sel fuel rl ex last, ∀ y ∈ elemsOf rl, True) ∧
      (∀ x, x ∈ loop sel fuel rl ex last ↔ x ∈ elemsOf rl ∧ x ∉ elemsOf ex ∧ last ≠ some x) := by
  intro fuel
  induction fuel with
  | zero => intro rl ex last _ _ h; omega
  | succ fuel ih =>
    intro rl ex last hsr hse hf hlast
    unfold loop
    cases hsel : sel rl with
    | none =>
      have := sel_none adm hsel
      subst this
      simp [elemsOf]
    | some p =>
      obtain ⟨r, others⟩ := p
      simp only []
      have ⟨hcr, hso⟩ := sel_sorted adm hsel hsr
      have ht := total_advanceTop r others
      have ht2 := sel_total adm hsel
      have hsr' := sorted_advanceTop hcr hso
      have hmin : ∀ x ∈ elemsOf rl, r.dt ≤ x := fun x hx => top_le adm hsel hsr hx
      have hrmem : r.dt ∈ elemsOf rl := (sel_mem adm hsel _).mpr (Or.inl (by simp [Cursor.elems]))
      have hmem' : ∀ x, x ∈ elemsOf (advanceTop r others) → x ∈ elemsOf rl := by
        intro x hx
        rw [mem_advanceTop] at hx
        rw [sel_mem adm hsel x]
        rcases hx with hx | hx
        · exact Or.inl (by simp [Cursor.elems, hx])
        · exact Or.inr hx
      have hmem'' : ∀ x, x ∈ elemsOf rl → x ≠ r.dt → x ∈ elemsOf (advanceTop r others) := by
        intro x hx hne
        rw [mem_advanceTop]
        rcases (sel_mem adm hsel x).mp hx with hx | hx
        · simp only [Cursor.elems, List.mem_cons] at hx
          rcases hx with rfl | hx
          · exact absurd rfl hne
          · exact Or.inl hx
        · exact Or.inr hx
      have hlast' : ∀ l, some r.dt = some l → ∀ x ∈ elemsOf (advanceTop r others), l ≤ x := by
        intro l hl x hx
        cases hl
        exact hmin x (hmem' x hx)
      by_cases hdup : last = some r.dt
      · -- duplicate of the instant just decided: skipped
        rw [if_neg (by simpa using hdup)]
        have ⟨h1, h2, _, h4⟩ := ih (advanceTop r others) ex last hsr' hse (by omega)
          (fun l hl x hx => hlast l hl x (hmem' x hx))
        refine ⟨h1, h2, fun _ _ _ _ => trivial, fun x => ?_⟩
        rw [h4 x]
        constructor
        · rintro ⟨a, b, c⟩; exact ⟨hmem' x a, b, c⟩
        · rintro ⟨a, b, c⟩
          refine ⟨hmem'' x a ?_, b, c⟩
          intro e; rw [e] at c; exact c hdup
      · rw [if_pos (by simpa using hdup)]
        have ⟨hse', hexmem⟩ := advanceEx_spec adm r.dt ((ex.map (fun c => c.elems.length)).sum + 1) ex hse
          (by unfold total; omega)
        generalize advanceEx sel r.dt ((ex.map (fun c => c.elems.length)).sum + 1) ex = ex' at hse' hexmem ⊢
        have hge : ∀ x ∈ elemsOf ex', r.dt ≤ x := fun x hx => ((hexmem x).mp hx).2
        have hemit := emit_iff adm hse' r.dt hge
        have ⟨h1, h2, _, h4⟩ := ih (advanceTop r others) ex' (some r.dt) hsr' hse' (by omega) hlast'
        have hlt : ∀ l, last = some l → l < r.dt := by
          intro l hl
          have := hlast l hl r.dt hrmem
          have : l ≠ r.dt := by intro e; rw [e] at hl; exact hdup hl
          omega
        have hin : r.dt ∉ elemsOf ex' ↔ r.dt ∉ elemsOf ex := by
          rw [hexmem]; simp
        generalize emitTest sel ex' r.dt = em at hemit ⊢
        have hout : ∀ x, x ∈ elemsOf (advanceTop r others) ∧ x ∉ elemsOf ex' ∧ some r.dt ≠ some x →
            x ∈ elemsOf rl ∧ x ∉ elemsOf ex ∧ last ≠ some x := by
          rintro x ⟨a, b, c⟩
          have hgt : r.dt < x := by
            have := hlast' _ rfl x a
            have : x ≠ r.dt := by intro e; rw [e] at c; exact c rfl
            omega
          refine ⟨hmem' x a, ?_, ?_⟩
          · intro hxe; exact b ((hexmem x).mpr ⟨hxe, by omega⟩)
          · intro e
            have := hlt x e
            omega
        have hback : ∀ x, x ∈ elemsOf rl ∧ x ∉ elemsOf ex ∧ last ≠ some x → x ≠ r.dt →
            x ∈ elemsOf (advanceTop r others) ∧ x ∉ elemsOf ex' ∧ some r.dt ≠ some x := by
          rintro x ⟨a, b, c⟩ e
          refine ⟨hmem'' x a e, ?_, ?_⟩
          · intro hxe; exact b ((hexmem x).mp hxe).1
          · intro h; cases h; exact e rfl
        cases em with
        | true =>
          have hnot : r.dt ∉ elemsOf ex := hin.mp (hemit.mp rfl)
          simp only [if_true, List.singleton_append]
          refine ⟨?_, ?_, fun _ _ _ _ => trivial, ?_⟩
          · rw [List.pairwise_cons]
            exact ⟨fun b hb => h2 _ rfl b hb, h1⟩
          · intro l hl x hx
            rcases List.mem_cons.mp hx with rfl | hx
            · exact hlt l hl
            · have := h2 _ rfl x hx
              have := hlt l hl
              omega
          · intro x
            rw [List.mem_cons, h4 x]
            constructor
            · rintro (rfl | hx)
              · exact ⟨hrmem, hnot, fun e => hdup e⟩
              · exact hout x hx
            · intro hx
              by_cases e : x = r.dt
              · exact Or.inl e
              · exact Or.inr (hback x hx e)
        | false =>
          have hyes : r.dt ∈ elemsOf ex := by
            by_cases hc : r.dt ∈ elemsOf ex
            · exact hc
            · have := hemit.mpr (hin.mpr hc); cases this
          simp only [Bool.false_eq_true, if_false, List.nil_append]
          refine ⟨h1, ?_, fun _ _ _ _ => trivial, ?_⟩
          · intro l hl x hx
            have := h2 _ rfl x hx
            have := hlt l hl
            omega
          · intro x
            rw [h4 x]
            constructor
            · exact hout x
            · intro hx
              by_cases e : x = r.dt
              · subst e; exact absurd hyes hx.2.1
              · exact hback x hx e

end RSet
