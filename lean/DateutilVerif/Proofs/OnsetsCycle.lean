/-
  Proofs/OnsetsCycle.lean — the hypotheses H1–H3 of `ICal.two_comp_cycle` / `C17.ical_eq_range_cycle`
  hold for the onset lists of two yearly rules (DAYLIGHT: the start rule at its standard-time
  reading; STANDARD: the end rule at its daylight-time reading).
-/
import DateutilVerif.Proofs.OnsetsLastLE
import DateutilVerif.Proofs.ICal

namespace Onsets
open ICal

/-- a yearly `Mm.w.d` rule with its time of day -/
structure YRule where
  m : Int
  w : Int
  d : Int
  hh : Int
  mm : Int
  ss : Int

def YRule.Valid (r : YRule) : Prop :=
  (1 ≤ r.m ∧ r.m ≤ 12) ∧ (1 ≤ r.w ∧ r.w ≤ 5) ∧ (0 ≤ r.d ∧ r.d ≤ 6)
def YRule.tod (r : YRule) : Int := r.hh * 3600 + r.mm * 60 + r.ss
def YRule.onset (r : YRule) (y0 : Int) (k : Nat) : Int := Onsets.onset y0 r.hh r.mm r.ss r.m r.w r.d k
def YRule.onsets (r : YRule) (y0 : Int) (N : Nat) : List Int := (List.range N).map (r.onset y0)
/-- the rule as rrule arguments (`DTSTART:<y0>0101T…`, `FREQ=YEARLY;BYMONTH=m;BYDAY=nWD`) -/
def YRule.args (r : YRule) (y0 : Int) : RRule.Args :=
  yearlyNth y0 r.hh r.mm r.ss r.m (wdOfPosix r.d) (nthOfWeek r.w)

theorem YRule.onsets_occ (r : YRule) (y0 : Int) (N : Nat) (hv : r.Valid) (hy0 : 1 ≤ y0) (hN : y0 + N ≤ 10000) :
    (Spec.RRule.occ (r.args y0) N).map RRule.Inst.secs = r.onsets y0 N :=
  onsets_eq y0 r.hh r.mm r.ss r.m r.w r.d N hy0 hN hv.1 hv.2.1 hv.2.2

theorem YRule.onset_bounds (r : YRule) (y0 : Int) (k : Nat) (hv : r.Valid) (hy0 : 1 ≤ y0) :
    Cal.toOrdinal (y0 + k) 1 1 * 86400 + r.tod ≤ r.onset y0 k ∧
    r.onset y0 k < Cal.toOrdinal (y0 + k + 1) 1 1 * 86400 + r.tod - 86400 + 86400 ∧
    r.onset y0 k = Posix.ruleOrdinal (y0 + k) (.M r.m r.w r.d) * 86400 + r.tod := by
  obtain ⟨a1, a2, _⟩ := rule_in_year (y0 + k) r.m r.w r.d (by omega) hv.1 hv.2.1 hv.2.2
  unfold YRule.onset Onsets.onset YRule.tod
  refine ⟨by omega, by omega, rfl⟩

/-- **H1–H3 discharged.**  `D`: onsets of the start rule `rs` (DAYLIGHT component), `S`: onsets of
    the end rule `re` (STANDARD component), both as finite prefixes of `N` years from `y0`; cycle of
    year `y0 + j` with year `y0 + j + 1` inside the prefix; times of day with `0 ≤ start`,
    `end < 24 h`; northern order (start + saving before end) in this year and the next. -/
theorem cycle_hyps (rs re : YRule) (y0 : Int) (N j : Nat) (sav : Int) (hvs : rs.Valid) (hve : re.Valid)
    (hy0 : 1 ≤ y0) (hj : j + 1 < N) (hsav : 0 < sav) (hts : 0 ≤ rs.tod) (hte : re.tod < 86400)
    (hord : rs.onset y0 j + sav < re.onset y0 j)
    (hord' : rs.onset y0 (j + 1) + sav ≤ re.onset y0 (j + 1)) :
    let D := rs.onsets y0 N
    let S := re.onsets y0 N
    let on := rs.onset y0 j
    let off := re.onset y0 j - sav
    let nextOn := rs.onset y0 (j + 1)
    on < off ∧ off + sav ≤ nextOn ∧
    (∀ x, on ≤ x → x < nextOn → lastLE D x = some on) ∧
    (∀ x, on ≤ x → x < off + sav → ∀ p, lastLE S x = some p → p < on) ∧
    (∀ x, off + sav ≤ x → x < nextOn + sav → lastLE S x = some (off + sav)) := by
  intro D S on off nextOn
  have ms := onset_step y0 rs.hh rs.mm rs.ss rs.m rs.w rs.d hy0 hvs.1 hvs.2.1 hvs.2.2
  have me := onset_step y0 re.hh re.mm re.ss re.m re.w re.d hy0 hve.1 hve.2.1 hve.2.2
  obtain ⟨_, e2, _⟩ := re.onset_bounds y0 j hve hy0
  obtain ⟨s1, _, _⟩ := rs.onset_bounds y0 (j + 1) hvs hy0
  have ecast : y0 + ((j + 1 : Nat) : Int) = y0 + j + 1 := by omega
  rw [ecast] at s1
  have hnext : re.onset y0 j ≤ rs.onset y0 (j + 1) := by omega
  refine ⟨by show rs.onset y0 j < re.onset y0 j - sav; omega,
          by show re.onset y0 j - sav + sav ≤ _; omega, ?_, ?_, ?_⟩
  · intro x h1 h2
    exact lastLE_prefix (rs.onset y0) ms N j x (by omega) h1 (fun _ => h2)
  · intro x h1 h2 p hp
    have hx : x < re.onset y0 j := by show x < _; have : off + sav = re.onset y0 j := by show re.onset y0 j - sav + sav = _; omega
                                      omega
    by_cases hj0 : j = 0
    · subst hj0
      rw [show S = (List.range N).map (re.onset y0) from rfl,
        lastLE_prefix_none (re.onset y0) me N x hx] at hp
      cases hp
    · -- the onset in force is the previous year's or older
      have hprev : re.onset y0 (j - 1) < on := by
        obtain ⟨_, b2, _⟩ := re.onset_bounds y0 (j - 1) hve hy0
        obtain ⟨c1, _, _⟩ := rs.onset_bounds y0 j hvs hy0
        have ec : y0 + ((j - 1 : Nat) : Int) + 1 = y0 + j := by omega
        rw [ec] at b2
        show _ < rs.onset y0 j
        omega
      by_cases hlow : re.onset y0 0 ≤ x
      · -- some index i < j with onset i ≤ x < onset (i+1)
        have := exists_index (re.onset y0) j x hlow hx
        obtain ⟨i, hi, a, b⟩ := this
        rw [show S = (List.range N).map (re.onset y0) from rfl,
          lastLE_prefix (re.onset y0) me N i x (by omega) a (fun _ => b)] at hp
        cases hp
        have : re.onset y0 i ≤ re.onset y0 (j - 1) := by
          by_cases e : i = j - 1
          · rw [e]; exact Int.le_refl _
          · exact Int.le_of_lt (strict_mono_of_step _ me i (j - 1) (by omega))
        omega
      · rw [show S = (List.range N).map (re.onset y0) from rfl,
          lastLE_prefix_none (re.onset y0) me N x (by omega)] at hp
        cases hp
  · intro x h1 h2
    have e : off + sav = re.onset y0 j := by show re.onset y0 j - sav + sav = _; omega
    rw [e] at h1 ⊢
    exact lastLE_prefix (re.onset y0) me N j x (by omega) h1 (fun _ => by show x < _; omega)

end Onsets
